/-
C09 — the two internal text files of read grouping round-trip verbatim (repaired code, candidate patches fix_D1 / fix_D3).

*Per-chromosome read-group table* (`--read_group file:TABLE`): `split_read_group_table` writes `read\tgroup\n`,
`load_split_table` reads it back.  `table_roundtrip` holds for EVERY read id without tab / newline (a BAM read name has
neither) and EVERY group without a newline — in particular read ids that start with `#`, groups that are empty, begin or
end with blanks or contain tabs (the group is everything after the FIRST tab of the line).  A group with a newline cannot
come out of `load_table` (`user_table_roundtrip`: lines of a text file contain none), so for tables loaded from a file the
only hypothesis left is the one on BAM read names.  The pinned tree re-read the file with the user-table parser:
`table_roundtrip_orig_witness` (Props/C09Tables.lean keeps `table_roundtrip_orig_partial` for clean fields).

*`_groups` file* (`collect_reads_in_parallel`): `groups_file_roundtrip` — every set of group names without a newline is
re-read by `--resume` exactly as it was recorded, so the universe `π` of a resumed run is the universe of the uninterrupted
one (`resumed_universe`) and `pipeline_no_abort` holds for resumed runs without a hypothesis on the re-read sets
(`pipeline_no_abort_resumed`).  A group name WITH a newline is split into two groups (`groups_file_newline_witness`): that is
the exact remaining domain.  The pinned tree stripped the names: `groups_file_orig_witness`.
-/
import IsoVerif.Model.C09Files
import IsoVerif.Lemmas.C09Files
import IsoVerif.Props.C09
import IsoVerif.Props.C09Tables

namespace IsoVerif.Props.C09Files
open IsoVerif.Gen IsoVerif.Model.C09 IsoVerif.Lemmas.C09 IsoVerif.Lemmas.C09Split IsoVerif.Lemmas.C09Files
open IsoVerif.Props

/-! ### iterating over a text file (`newline='\n'`) -/

/-- **fileLines_spec**: the lines concatenated are the text; no line is empty; writing newline-free items one per line
    and iterating gives exactly the items (each with its terminator), and `chomp` removes exactly that terminator -/
theorem fileLines_spec :
    (∀ t, (fileLines t).flatten = t) ∧ (∀ t, ∀ l ∈ fileLines t, l ≠ []) ∧
    (∀ items : List (List Char), (∀ l ∈ items, '\n' ∉ l) → (fileLines (linesText items)).map chomp = items) := by
  refine ⟨fileLines_flatten, fileLines_ne_nil, ?_⟩
  intro items h
  rw [fileLines_linesText items h, List.map_map]
  conv => rhs; rw [← List.map_id items]
  apply List.map_congr_left
  intro l _
  simp [chomp_line]

/-! ### the `_groups` file -/

/-- membership form, for every list of names (duplicates allowed): a name is re-read iff it was written -/
theorem groups_file_mem (π : List String) (hnl : ∀ g ∈ π, '\n' ∉ g.toList) (x : String) :
    x ∈ readGroupsFile (groupsFileText π) ↔ x ∈ π := by
  unfold readGroupsFile groupsFileText
  rw [fileLines_linesText _ (by
    intro l hl
    obtain ⟨g, hg, rfl⟩ := List.mem_map.mp hl
    exact hnl g hg), List.map_map, List.foldl_map]
  have e : ∀ (acc : List String), π.foldl (fun s g => setInsert s (String.ofList (chomp ((fun l => l ++ ['\n']) (String.toList g))))) acc
      = π.foldl setInsert acc := by
    intro acc
    congr 1
    funext s g
    simp [chomp_line, String.ofList_toList]
  simp only [Function.comp] at e ⊢
  rw [e, foldl_setInsert_mem]
  simp

/-- **groups_file_roundtrip**: `π` = the `read_groups` set of a chromosome in the iteration order of the dump (a set: no
    duplicates).  When no name contains a newline, the `--resume` branch re-reads exactly `π` — same names, nothing
    stripped, nothing merged, nothing invented (even the order is that of the dump) -/
theorem groups_file_roundtrip (π : List String) (hnd : π.Nodup) (hnl : ∀ g ∈ π, '\n' ∉ g.toList) :
    readGroupsFile (groupsFileText π) = π := by
  unfold readGroupsFile groupsFileText
  rw [fileLines_linesText _ (by
    intro l hl
    obtain ⟨g, hg, rfl⟩ := List.mem_map.mp hl
    exact hnl g hg), List.map_map, List.foldl_map]
  have e : ∀ (acc : List String), π.foldl (fun s g => setInsert s (String.ofList (chomp ((fun l => l ++ ['\n']) (String.toList g))))) acc
      = π.foldl setInsert acc := by
    intro acc
    congr 1
    funext s g
    simp [chomp_line, String.ofList_toList]
  simp only [Function.comp] at e ⊢
  rw [e, foldl_setInsert_nodup_eq π [] (by simpa using hnd)]
  rfl

/-- the exact remaining domain: a name with a newline comes back as two names -/
theorem groups_file_newline_witness :
    readGroupsFile (groupsFileText ["a\nb"]) = ["a", "b"] ∧ ¬ (readGroupsFile (groupsFileText ["a\nb"]) = ["a\nb"]) := by
  decide +kernel

/-- the pinned tree (`add(g.strip())`): tag values `"cell A "` and `" cell B"` come back as `"cell A"` and `"cell B"` — the
    recorded groups are no longer in the universe (`KeyError` in the counters) and two columns are invented; an outer tab
    or a blank-only name is lost in the same way -/
theorem groups_file_orig_witness :
    readGroupsFileOrig (groupsFileText ["cell A ", " cell B", "cellC"]) = ["cell A", "cell B", "cellC"] ∧
    readGroupsFile (groupsFileText ["cell A ", " cell B", "cellC"]) = ["cell A ", " cell B", "cellC"] ∧
    readGroupsFileOrig (groupsFileText [" ", ""]) = [""] := by
  decide +kernel

-- non-vacuity of `groups_file_roundtrip` / `groups_file_mem`: blanks at both ends, the empty name, tabs, `#`, `\r`
example : ["cell A ", " cell B", "", " ", "a\tb", "#c", "x\r"].Nodup ∧
    (∀ g ∈ ["cell A ", " cell B", "", " ", "a\tb", "#c", "x\r"], '\n' ∉ g.toList) ∧
    readGroupsFile (groupsFileText ["cell A ", " cell B", "", " ", "a\tb", "#c", "x\r"]) =
      ["cell A ", " cell B", "", " ", "a\tb", "#c", "x\r"] := by
  decide +kernel

/-- **resumed_universe**: the counters of a resumed run get the universe of the uninterrupted run.  `sets` = the recorded
    `read_groups` of the chromosomes; `resumed i = true` when chromosome `i` was finished before the kill and is re-read from
    its `_groups` file -/
theorem resumed_universe (sets : List (List String)) (hnd : ∀ s ∈ sets, s.Nodup)
    (hnl : ∀ s ∈ sets, ∀ g ∈ s, '\n' ∉ g.toList) (resumed : Nat → Bool) :
    groupUniverse (sets.zipIdx.map (fun p => if resumed p.2 then readGroupsFile (groupsFileText p.1) else p.1)) =
      groupUniverse sets := by
  congr 1
  conv => rhs; rw [← List.zipIdx_map_fst 0 sets]
  apply List.map_congr_left
  intro p hp
  have hm : p.1 ∈ sets := by
    obtain ⟨_, _, h3⟩ := List.mem_zipIdx (x := p.1) (i := p.2) hp
    rw [h3]
    exact List.getElem_mem _
  split
  · exact groups_file_roundtrip p.1 (hnd p.1 hm) (hnl p.1 hm)
  · rfl

/-- the final `read_groups` of a collector run has no duplicates -/
theorem runGrouper_nodup (g : Grouper) : ∀ (alns : List Aln) (S0 : List String) rets S, S0.Nodup →
    runGrouper g alns S0 = .ok (rets, S) → S.Nodup
  | [], S0, rets, S, h0, h => by
    simp only [runGrouper, Except.ok.injEq, Prod.mk.injEq] at h
    rw [← h.2]; exact h0
  | a :: as, S0, rets, S, h0, h => by
    simp only [runGrouper] at h
    split at h
    · cases h
    · rename_i r hr
      split at h
      · cases h
      · rename_i rs sf hrun
        simp only [Except.ok.injEq, Prod.mk.injEq] at h
        rw [← h.2]
        refine runGrouper_nodup g as _ rs sf ?_ hrun
        cases r.added with
        | none => exact h0
        | some x => exact setInsert_nodup h0 x

theorem initGroups_nodup (g : Grouper) : g.initGroups.Nodup := by
  cases g <;> simp [Grouper.initGroups]

/-- **pipeline_no_abort_resumed**: `pipeline_no_abort` for a run that was killed during read collection and resumed.  The
    counters are built with the union `π` of the sets the resumed run holds — re-read from the `_groups` files for the
    chromosomes finished before the kill, recorded afresh for the others.  No hypothesis on the re-read sets is needed beyond
    "no group name contains a newline": the obligation `hπ` of `pipeline_no_abort` is discharged by
    `groups_file_roundtrip`. -/
theorem pipeline_no_abort_resumed (g : Grouper) (hv : C09Groupers.ValidGrouper g) (chrAlns : List (List Aln))
    (results : List (List (Option String) × List String))
    (hres : chrAlns.map (fun alns => runGrouper g alns g.initGroups) = results.map Except.ok)
    (hnl : ∀ res ∈ results, ∀ x ∈ res.2, '\n' ∉ x.toList) (resumed : Nat → Bool)
    (π : List String)
    (hπ : π.Perm (groupUniverse ((results.map Prod.snd).zipIdx.map
      (fun p => if resumed p.2 then readGroupsFile (groupsFileText p.1) else p.1)))) (hne : π ≠ [])
    (s : CountingStrategy) (af : List String) (oz ozU : Bool) (fmt fmtU : GroupedOutputFormat) (calls : List Call)
    (hcalls : ∀ x ∈ calls, ∀ grp, x.group = some grp → ∃ res ∈ results, some grp ∈ res.1)
    (cU : Counter) (hU : run (initCounter false none s af ozU fmtU) calls = .ok cU) :
    ∃ cG, run (initCounter false (some π) s af oz fmt) calls = .ok cG := by
  have hnd : ∀ st ∈ results.map Prod.snd, st.Nodup := by
    intro st hst
    obtain ⟨res, hr, rfl⟩ := List.mem_map.mp hst
    obtain ⟨i, hi, rfl⟩ := List.getElem_of_mem hr
    have h1 : (chrAlns.map (fun alns => runGrouper g alns g.initGroups))[i]? = (results.map Except.ok)[i]? := by rw [hres]
    simp only [List.getElem?_map, List.getElem?_eq_getElem hi, Option.map_some] at h1
    cases ha : chrAlns[i]? with
    | none => simp [ha] at h1
    | some alns =>
      simp only [ha, Option.map_some, Option.some.injEq] at h1
      exact runGrouper_nodup g alns g.initGroups results[i].1 results[i].2 (initGroups_nodup g) h1
  have hnl' : ∀ st ∈ results.map Prod.snd, ∀ x ∈ st, '\n' ∉ x.toList := by
    intro st hst
    obtain ⟨res, hr, rfl⟩ := List.mem_map.mp hst
    exact hnl res hr
  rw [resumed_universe (results.map Prod.snd) hnd hnl' resumed] at hπ
  exact C09.pipeline_no_abort g hv chrAlns results hres π hπ hne s af oz ozU fmt fmtU calls hcalls cU hU

/-! ### the per-chromosome read-group table -/

/-- **loadSplitTable_last_line_wins**: a file of `read\tgroup` lines (read ids without tab / newline, groups without
    newline) is read without error; every read id gets the group of the last line that names it, verbatim -/
theorem loadSplitTable_last_line_wins (es : List (String × String))
    (hr : ∀ e ∈ es, '\t' ∉ e.1.toList ∧ '\n' ∉ e.1.toList) (hg : ∀ e ∈ es, '\n' ∉ e.2.toList) :
    ∃ m, loadSplitTable (linesText (es.map (fun e => e.1.toList ++ ['\t'] ++ e.2.toList))) = .ok m ∧
      ∀ r, m.lookup r = es.reverse.lookup r := by
  refine ⟨dictOf es [], ?_, ?_⟩
  · unfold loadSplitTable
    rw [fileLines_linesText _ (by
      intro l hl
      obtain ⟨e, he, rfl⟩ := List.mem_map.mp hl
      have h1 := (hr e he).2
      have h2 := hg e he
      simp [h1, h2]), List.map_map]
    exact loadSplitLines_entries es [] (fun e he => (hr e he).1)
  · intro r
    rw [lookup_dictOf]
    cases es.reverse.lookup r <;> simp

/-- **table_roundtrip** (repaired code, no `hclean`): the file written for chromosome `chr` is re-read without error and
    gives, for every read that has an alignment on `chr`, the entry of the whole table, verbatim — for all read ids without
    tab / newline (every BAM read name; a leading `#` is fine) and all groups without a newline (empty, blank-padded,
    containing tabs, starting with `#`: all kept as they are) -/
theorem table_roundtrip (m : List (String × String)) (chr : String) (alns : List (String × Option String))
    (hids : ∀ rid c, (rid, c) ∈ alns → '\t' ∉ rid.toList ∧ '\n' ∉ rid.toList)
    (hgrp : ∀ rid g, m.lookup rid = some g → '\n' ∉ g.toList) :
    ∃ m', loadSplitTable (splitFileText m chr alns) = .ok m' ∧
      ∀ rid, (rid, some chr) ∈ alns → m'.lookup rid = m.lookup rid := by
  have hes : ∀ e ∈ splitEntries m chr alns [], (e.1, some chr) ∈ alns ∧ m.lookup e.1 = some e.2 := by
    intro e he
    exact ((mem_splitEntries m chr alns [] e.1 e.2).mp he).2
  obtain ⟨m', hm', hl⟩ := loadSplitTable_last_line_wins (splitEntries m chr alns [])
    (fun e he => hids e.1 (some chr) (hes e he).1) (fun e he => hgrp e.1 e.2 (hes e he).2)
  refine ⟨m', by rw [splitFileText, splitTableLines_eq]; exact hm', ?_⟩
  intro rid hrid
  rw [hl rid]
  have hnd : (((splitEntries m chr alns []).reverse).map Prod.fst).Nodup := by
    rw [List.map_reverse]; exact (List.reverse_perm _).nodup_iff.mpr (splitEntries_keys_nodup m chr alns [])
  cases hg : m.lookup rid with
  | some g =>
    apply (lookup_iff_mem_of_nodup _ hnd rid g).mpr
    rw [List.mem_reverse]
    exact (mem_splitEntries m chr alns [] rid g).mpr ⟨by simp, hrid, hg⟩
  | none =>
    cases hx : ((splitEntries m chr alns []).reverse).lookup rid with
    | none => rfl
    | some g' =>
      have := (lookup_iff_mem_of_nodup _ hnd rid g').mp hx
      rw [List.mem_reverse] at this
      have := ((mem_splitEntries m chr alns [] rid g').mp this).2.2
      rw [hg] at this; cases this

/-- **user_table_roundtrip**: the whole table mode.  The user's table is any list of lines of a text file (no newline inside
    a line), any columns, any non-empty delimiter; then for every chromosome the collector's dictionary agrees with the
    loaded table on every read aligned there — the only hypothesis left is that BAM read names contain no tab / newline -/
theorem user_table_roundtrip (rc gc : Nat) (delim : List Char) (hd : delim ≠ []) (lines : List (List Char))
    (hlines : ∀ l ∈ lines, '\n' ∉ l) (chr : String) (alns : List (String × Option String))
    (hids : ∀ rid c, (rid, c) ∈ alns → '\t' ∉ rid.toList ∧ '\n' ∉ rid.toList) :
    ∃ m m', loadTable rc gc delim lines [] = .ok m ∧ loadSplitTable (splitFileText m chr alns) = .ok m' ∧
      ∀ rid, (rid, some chr) ∈ alns → m'.lookup rid = m.lookup rid := by
  obtain ⟨m, hm, _⟩ := C09Tables.loadTable_last_row_wins rc gc delim hd lines
  have hgrp := loadTable_chars rc gc delim hd '\n' lines [] m hlines (by intro k v h; simp at h) hm
  obtain ⟨m', hm', hl⟩ := table_roundtrip m chr alns hids hgrp
  exact ⟨m, m', hm, hm', hl⟩

/-- what the repaired reader does outside the domain / at its edge, and what the pinned tree did on the same files:
    a read id starting with `#`, a group ending in a blank, the empty group and a group with a tab are all kept verbatim;
    a line without a tab is a `ValueError` (never written by `split_read_group_table`); the user-table parser applied to
    the same file skipped the `#` line, stripped the blank, dropped the row with the empty group and cut the group at
    its tab -/
theorem table_roundtrip_orig_witness :
    loadSplitTable (splitFileText [("#r", "A "), ("q", ""), ("t", "B\tx")] "c" [("#r", some "c"), ("q", some "c"), ("t", some "c")])
      = .ok [("#r", "A "), ("q", ""), ("t", "B\tx")] ∧
    loadTable 0 1 ['\t'] (splitTableLines [("#r", "A "), ("q", ""), ("t", "B\tx")] "c" [("#r", some "c"), ("q", some "c"), ("t", some "c")] []) []
      = .ok [("t", "B")] ∧
    loadTable 0 1 ['\t'] (splitTableLines [("r", "A ")] "c" [("r", some "c")] []) [] = .ok [("r", "A")] ∧
    loadSplitTable "r\n".toList = .error .valueError := by
  decide +kernel

/-- the hypotheses of `table_roundtrip` are exact: a read id with a tab is cut at that tab (the rest joins the group), a
    group with a newline breaks the file into a line without tab (`ValueError`).  Neither can occur in a run: BAM read names
    have no tab / newline, `load_table` yields no newline (`user_table_roundtrip`). -/
theorem table_roundtrip_domain_witness :
    loadSplitTable (splitFileText [("a\tb", "g")] "c" [("a\tb", some "c")]) = .ok [("a", "b\tg")] ∧
    loadSplitTable (splitFileText [("r", "x\ny")] "c" [("r", some "c")]) = .error .valueError := by
  decide +kernel

-- non-vacuity of `table_roundtrip` / `user_table_roundtrip`: a csv table `group,read,extra` with a `#` read id, a
-- blank-padded group and an empty group; reads on two chromosomes, an unmapped record
example : loadTable 1 0 [','] ["A ,#r1,x".toList, ",r2,x".toList, " g C,r3,x".toList] [] =
      .ok [("#r1", "A "), ("r2", ""), ("r3", "g C")] ∧
    loadSplitTable (splitFileText [("#r1", "A "), ("r2", ""), ("r3", "g C")] "chr1"
      [("r2", some "chr2"), ("#r1", some "chr1"), ("r2", some "chr1"), ("#r1", some "chr1"), ("x", none)]) =
      .ok [("#r1", "A "), ("r2", "")] := by decide +kernel

end IsoVerif.Props.C09Files
