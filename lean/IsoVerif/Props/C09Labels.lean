/-
C09 — file mode (`--read_group file_name`, and the implicit default with several input files): every read of file i is
counted under exactly the documented label of file i; two files share a group exactly when their labels are equal.

Documented label of a file (docs/cmd.md, docs/input.md, docs/examples.md of /repo):
  * the label given for it (`--labels`, `labels:` of a YAML entry, `path:label` in a list file) — "Files having
    identical labels will be treated as a single replica (and thus the counts will be combined)";
  * otherwise its file name: `os.path.splitext(os.path.basename(f))[0]` ("Input file names are used as labels if not
    set").  Two files in different directories with the same base name therefore share a label and a group
    (`same_stem_share_group`): this follows from the two documented rules and is recorded as an observation, not a defect.

Model: Model/C09Labels.lean (+ C10's `addFiles`, `labelled`, `parseOwnYaml`, `ownBlock` of Model/Samples.lean, whose
whole-file loops are tied to these per-experiment functions by `Props/C10.lean` `parsed_sample_depends_on_own_entry`,
`parsed_list_sample_depends_on_own_entry`).

Not full strength for YAML: a label that is not a YAML string (`labels: [1, 2]`) is stored and returned unchanged and
the run aborted in `write_string` on the pinned tree — `YamlLabelsAreGroupsOrig` is false (`yaml_labels_are_groups_orig_witness`,
replayed on the real code); the repaired parser stores `str(label)`: `yaml_labels_are_groups` holds at full strength.
-/
import IsoVerif.Model.C09Labels
import IsoVerif.Lemmas.C09Labels
import IsoVerif.Props.C09Groupers

namespace IsoVerif.Props.C09Labels
open IsoVerif.Model.C09 IsoVerif.Lemmas.C09 IsoVerif.Lemmas.C09Split IsoVerif.Lemmas.C09Labels
open IsoVerif.Model.C10 (addFiles blockOwn ownBlock parseOwnYaml labelled ListLine lineLabel InFile YamlEntry ParsedSample)

/-! ### the label derived from a file name -/

/-- `os.path.basename`: the path is `dir ++ base`, the base name contains no `/`, `dir` is empty or ends with `/` -/
theorem basename_spec (p : List Char) :
    ∃ dir, p = dir ++ pyBasename p ∧ '/' ∉ pyBasename p ∧ (dir = [] ∨ dir.getLast? = some '/') := by
  induction p with
  | nil => exact ⟨[], rfl, by simp [pyBasename], Or.inl rfl⟩
  | cons c t ih =>
    obtain ⟨dir, hd, hn, hdir⟩ := ih
    by_cases ht : '/' ∈ t
    · have hc : t.contains '/' = true := by simpa using ht
      have hdne : dir ≠ [] := by
        intro e; subst e
        rw [List.nil_append] at hd
        rw [← hd] at hn; exact hn ht
      refine ⟨c :: dir, ?_, ?_, Or.inr ?_⟩
      · simp only [pyBasename, hc, if_true, List.cons_append]; rw [← hd]
      · simp only [pyBasename, hc, if_true]; exact hn
      · rcases hdir with h | h
        · exact absurd h hdne
        · rw [List.getLast?_cons_of_ne_nil hdne]; exact h
    · have hc : t.contains '/' = false := by simpa using ht
      by_cases hcs : c = '/'
      · subst hcs
        exact ⟨['/'], by simp [pyBasename, ht], by simp [pyBasename, ht], Or.inr rfl⟩
      · refine ⟨[], by simp [pyBasename, ht, hcs], ?_, Or.inl rfl⟩
        simp only [pyBasename, hc, hcs, if_false, Bool.false_eq_true, List.mem_cons, not_or]
        exact ⟨fun e => hcs e.symm, ht⟩

theorem dropWhile_append_of_all {α} (p : α → Bool) (l r : List α) (h : ∀ x ∈ l, p x = true) :
    (l ++ r).dropWhile p = r.dropWhile p := by
  induction l with
  | nil => rfl
  | cons x xs ih =>
    simp only [List.cons_append, List.dropWhile_cons, h x (by simp), if_true]
    exact ih (fun y hy => h y (by simp [hy]))

/-- `os.path.splitext(b)[0]` of a base name: a name without a dot is kept; a name `pre ++ "." ++ e` (`e` without dot,
    i.e. cut at its LAST dot) loses `"." ++ e` unless `pre` consists of dots only (hidden files keep their name) -/
theorem splitext_spec (b : List Char) :
    ('.' ∉ b → pySplitextRoot b = b) ∧
    (∀ pre e, b = pre ++ '.' :: e → '.' ∉ e →
      pySplitextRoot b = if pre.all (fun c => c == '.') then b else pre) := by
  constructor
  · intro h
    have : b.reverse.dropWhile (fun c => c != '.') = [] := by
      have := dropWhile_append_of_all (fun c => c != '.') b.reverse [] (by
        intro x hx
        have : x ≠ '.' := fun e => h (by rw [← e]; exact List.mem_reverse.mp hx)
        simpa using this)
      simpa using this
    simp [pySplitextRoot, this]
  · intro pre e hb he
    have hrev : b.reverse = e.reverse ++ '.' :: pre.reverse := by rw [hb]; simp
    have : b.reverse.dropWhile (fun c => c != '.') = '.' :: pre.reverse := by
      rw [hrev, dropWhile_append_of_all (fun c => c != '.') e.reverse _ (by
        intro x hx
        have : x ≠ '.' := fun e' => he (by rw [← e']; exact List.mem_reverse.mp hx)
        simpa using this)]
      simp
    simp only [pySplitextRoot, this, List.all_reverse, List.reverse_reverse]

example : fileStem "/data/run.1/sample.A.bam" = "sample.A" ∧ fileStem "x.fq.gz" = "x.fq" ∧ fileStem "/d/.hidden" = ".hidden" ∧
    fileStem "noext" = "noext" ∧ fileStem "/d/" = "" := by decide +kernel

/-! ### `--bam` / `--fastq` with `--labels` -/

theorem addFiles_nil (pairs : List (String × String)) :
    addFiles [] pairs = if (pairs.map Prod.fst).Nodup then some pairs else none := by
  by_cases h : (pairs.map Prod.fst).Nodup
  · simp only [h, if_true]
    exact (addFiles_eq_some pairs [] pairs).mpr ⟨by simp, h, by simp⟩
  · simp only [h, if_false]
    cases ha : addFiles [] pairs with
    | none => rfl
    | some d => exact absurd ((addFiles_eq_some pairs [] d).mp ha).2.1 h

/-- **cmd_labels**: the dictionary of `--bam f₁ … fₙ [--labels l₁ … lₘ]` — the run ends with `exit(-1)` when labels
    are given and m ≠ n, with `exit(-2)` when a file is named twice; otherwise file i ↦ label i when labels are given
    and file i ↦ its name without directory and last extension when they are not (an empty `--labels` counts as absent) -/
theorem cmd_labels (files : List String) (labels : Option (List String)) :
    readableNamesCmd files labels =
      match truthyLabels labels with
      | some ls =>
        if ls.length ≠ files.length then .error (.exit (-1))
        else if files.Nodup then .ok (files.zip ls) else .error (.exit (-2))
      | none => if files.Nodup then .ok (files.map (fun f => (f, fileStem f))) else .error (.exit (-2)) := by
  unfold readableNamesCmd
  cases ht : truthyLabels labels with
  | none =>
    simp only []
    rw [cmdLoop_eq none files 0 [] (by intro ls h; cases h), addFiles_nil]
    have : (pairsFrom none 0 files).map Prod.fst = files := by simp [pairsFrom, Function.comp_def]
    rw [this]
    by_cases hn : files.Nodup <;> simp [hn, pairsFrom]
  | some ls =>
    simp only []
    by_cases hl : ls.length ≠ files.length
    · simp [hl]
    · have hl' : ls.length = files.length := by simpa using hl
      simp only [hl, if_false]
      rw [cmdLoop_eq (some ls) files 0 [] (by intro ls' h; cases h; omega), addFiles_nil]
      have : (pairsFrom (some ls) 0 files).map Prod.fst = files := by
        simp only [pairsFrom, List.drop_zero]; exact zip_map_fst files ls hl'.symm
      rw [this]
      by_cases hn : files.Nodup <;> simp [hn, pairsFrom]

/-! ### from the dictionary to the group of a read -/

/-- **file_mode_group_of_read**: with a (non-empty) label dictionary whose files are distinct, a read that comes from
    file `f` gets exactly the label registered for `f` — returned as a string and added to `read_groups` -/
theorem file_mode_group_of_read (d : List (String × String)) (libs : List (List String)) (hne : d ≠ [])
    (hnd : (d.map Prod.fst).Nodup) (f label : String) (hmem : (f, label) ∈ d) (a : Aln) (ha : a.file = some f) :
    fileModeGroup d libs a = .ok (.ok (GRes.both label)) := by
  simp only [fileModeGroup, fileNameGrouperInit, hne, ne_eq, not_false_eq_true, if_true, getGroupId, ha,
    lookup_of_mem_nodup d hnd f label hmem]

/-- **cmd_group_of_read**: `--bam`/`--fastq` input accepted by `InputDataStorage`: every read of file i is grouped
    under `labels[i]` when labels are given, under the file's name (no directory, no last extension) otherwise -/
theorem cmd_group_of_read (files : List String) (labels : Option (List String)) (d : List (String × String))
    (h : readableNamesCmd files labels = .ok d) (libs : List (List String)) (i : Nat) (hi : i < files.length)
    (a : Aln) (ha : a.file = some files[i]) :
    ∃ label, fileModeGroup d libs a = .ok (.ok (GRes.both label)) ∧
      (truthyLabels labels = none → label = fileStem files[i]) ∧
      (∀ ls, truthyLabels labels = some ls → ls[i]? = some label) := by
  rw [cmd_labels] at h
  cases ht : truthyLabels labels with
  | none =>
    simp only [ht] at h
    split at h
    · rename_i hn
      injection h with h
      subst h
      refine ⟨fileStem files[i], ?_, fun _ => rfl, by intro ls hls; cases hls⟩
      apply file_mode_group_of_read _ libs _ _ files[i] _ _ a ha
      · intro e
        have : files = [] := by simpa using e
        subst this; simp at hi
      · simpa [Function.comp_def] using hn
      · exact List.mem_map.mpr ⟨files[i], List.getElem_mem hi, rfl⟩
    · cases h
  | some ls =>
    simp only [ht] at h
    split at h
    · cases h
    · rename_i hl
      have hl' : ls.length = files.length := by simpa using hl
      split at h
      · rename_i hn
        injection h with h
        subst h
        have hi' : i < ls.length := by omega
        refine ⟨ls[i], ?_, (by intro e; cases e), (by intro ls' hls; cases hls; exact List.getElem?_eq_getElem hi')⟩
        apply file_mode_group_of_read _ libs _ _ files[i] _ _ a ha
        · intro e
          have hz : (files.zip ls).length = 0 := by rw [e]; rfl
          rw [List.length_zip] at hz
          omega
        · rw [zip_map_fst files ls hl'.symm]; exact hn
        · have hz : i < (files.zip ls).length := by rw [List.length_zip]; omega
          have := List.getElem_mem hz
          rwa [List.getElem_zip] at this
      · cases h

/-- **groups_shared_iff_labels_equal**: reads of two files of one experiment are counted in the same group exactly
    when the two files carry the same label (explicitly, or because their file names coincide) — never otherwise -/
theorem groups_shared_iff_labels_equal (d : List (String × String)) (libs : List (List String)) (hne : d ≠ [])
    (hnd : (d.map Prod.fst).Nodup) (f₁ l₁ f₂ l₂ : String) (h₁ : (f₁, l₁) ∈ d) (h₂ : (f₂, l₂) ∈ d)
    (a₁ a₂ : Aln) (ha₁ : a₁.file = some f₁) (ha₂ : a₂.file = some f₂) :
    fileModeGroup d libs a₁ = fileModeGroup d libs a₂ ↔ l₁ = l₂ := by
  rw [file_mode_group_of_read d libs hne hnd f₁ l₁ h₁ a₁ ha₁, file_mode_group_of_read d libs hne hnd f₂ l₂ h₂ a₂ ha₂]
  constructor
  · intro h
    injection h with h
    injection h with h
    simp only [GRes.both, GRes.mk.injEq, Option.some.injEq, and_self] at h
    exact h
  · intro h; rw [h]

/-- observation (documented behaviour, see the header): two files with the same base name in different directories get
    the same default label, hence one group and one column -/
theorem same_stem_share_group :
    readableNamesCmd ["/runA/x.bam", "/runB/x.bam"] none = .ok [("/runA/x.bam", "x"), ("/runB/x.bam", "x")] ∧
    readableNamesCmd ["/runA/x.bam", "/runB/x.bam"] (some ["A", "B"]) = .ok [("/runA/x.bam", "A"), ("/runB/x.bam", "B")] := by
  decide +kernel

/-! ### `FileNameGrouper.__init__` without a dictionary (fall-back branch) -/

/-- **fallback_group_of_read**: when the sample carries no dictionary, the grouper rebuilds one from the libraries of all
    samples: a file is labelled by the name of the FIRST file of the last library that lists it -/
theorem fallback_group_of_read (libs : List (List String)) (d : List (String × String))
    (h : fileNameGrouperInit [] libs = .ok d) (a : Aln) (f l : String) (ha : a.file = some f)
    (hl : fallbackLabel libs f = some l) :
    getGroupId (.fileName d) a = .ok (GRes.both l) := by
  simp only [fileNameGrouperInit, ne_eq, not_true_eq_false, if_false] at h
  have := initLibs_lookup libs [] d h f
  rw [hl] at this
  simp only [getGroupId, ha, this]

/-- one BAM file per library (what `--bam` / YAML input produce), distinct files: the fall-back label is the file's own name -/
theorem fallback_singletons (files : List String) (hnd : files.Nodup) (f : String) (hf : f ∈ files) :
    fallbackLabel (files.map (fun x => [x])) f = some (fileStem f) := by
  induction files with
  | nil => simp at hf
  | cons x xs ih =>
    simp only [List.map_cons, fallbackLabel]
    rcases List.mem_cons.mp hf with h | h
    · subst h
      have hx : f ∉ xs := (List.nodup_cons.mp hnd).1
      have hnone : fallbackLabel (xs.map (fun x => [x])) f = none := by
        clear ih hnd hf
        induction xs with
        | nil => rfl
        | cons y ys ihy =>
          have hy : f ≠ y := fun e => hx (by simp [e])
          have : ([y].contains f) = false := by simp [hy]
          simp only [List.map_cons, fallbackLabel, ihy (fun hm => hx (by simp [hm])), this]
          rfl
      simp [hnone]
    · rw [ih (List.nodup_cons.mp hnd).2 h]

/-! ### YAML entries -/

/-- **yaml_entry_labels**: an accepted YAML experiment: its files are distinct, file i ↦ `labels[i]` when the entry has
    `labels` (as many as files), file i ↦ its file name otherwise -/
theorem yaml_entry_labels (e : YamlEntry) (n : String) (s : ParsedSample) (h : parseOwnYaml e n = some (some s)) :
    ∃ fs, e.files = some fs ∧ (fs.map InFile.path).Nodup ∧
      (e.labels = none → s.readable = fs.map (fun f => (f.path, f.stem))) ∧
      (∀ ls, e.labels = some ls → ls.length = fs.length ∧ s.readable = (fs.map InFile.path).zip ls) := by
  unfold parseOwnYaml at h
  cases hf : e.files with
  | none => simp [hf] at h
  | some fs =>
    simp only [hf] at h
    cases hl : labelled fs e.labels with
    | none => simp [hl] at h
    | some pairs =>
      simp only [hl, addFiles_nil] at h
      by_cases hn : (pairs.map Prod.fst).Nodup
      · simp only [hn, if_true] at h
        split at h
        · cases h
        · injection h with h
          injection h with h
          subst h
          refine ⟨fs, rfl, ?_, ?_, ?_⟩
          · cases hlab : e.labels with
            | none =>
              simp only [hlab, labelled, Option.some.injEq] at hl
              subst hl
              simpa [Function.comp_def] using hn
            | some ls =>
              simp only [hlab, labelled] at hl
              split at hl
              · cases hl
              · rename_i hlen
                injection hl with hl
                subst hl
                have : ls.length = fs.length := by simpa using hlen
                rwa [zip_map_fst _ _ (by simpa using this.symm)] at hn
          · intro hlab
            simp only [hlab, labelled, Option.some.injEq] at hl
            exact hl.symm
          · intro ls hlab
            simp only [hlab, labelled] at hl
            split at hl
            · cases hl
            · rename_i hlen
              injection hl with hl
              exact ⟨by simpa using hlen, hl.symm⟩
      · simp [hn] at h

/-- full-strength statement for YAML labels: whatever scalar the user wrote as a label is usable as a group -/
def YamlLabelsAreGroups : Prop := ∀ v : TagVal, ∃ s, yamlLabelGroup v = .ok s

/-- **yaml_labels_are_groups** (repaired code): every YAML label is a group; a string label is the group itself, any other
    scalar is grouped under its printed value (`labels: [1, 2]` → groups `"1"`, `"2"`) -/
theorem yaml_labels_are_groups : YamlLabelsAreGroups ∧ (∀ v, yamlLabelGroup v = .ok v.render) ∧
    (∀ s, yamlLabelGroup (.str s) = .ok s) ∧ (∀ i : Int, yamlLabelGroup (.int i) = .ok (toString i)) :=
  ⟨fun v => ⟨v.render, rfl⟩, fun _ => rfl, fun _ => rfl, fun _ => rfl⟩

/-- distinct integer labels stay distinct groups (`str` of an integer is injective), so two files share a group iff
    their labels print alike -/
example : yamlLabelGroup (.int 1) = .ok "1" ∧ yamlLabelGroup (.int 10) = .ok "10" ∧ yamlLabelGroup (.str "rep") = .ok "rep" := by
  decide

/-- the statement for the pinned tree (labels stored unchanged) -/
def YamlLabelsAreGroupsOrig : Prop := ∀ v : TagVal, ∃ s, yamlLabelGroupOrig v = .ok s

/-- false of the pinned tree (model and code): an integer label (`labels: [1, 2]`) is not a string; the run aborts with
    `TypeError` in `write_string` (replayed on the real parser and on the real pipeline by the oracle) -/
theorem yaml_labels_are_groups_orig_witness : ¬ YamlLabelsAreGroupsOrig := by
  intro h
  obtain ⟨s, hs⟩ := h (.int 1)
  cases hs

/-- … where it held exactly for the entries whose labels are YAML strings; on those the repair changes nothing -/
theorem yaml_labels_are_groups_orig_partial (ls : List TagVal) (strs : List String) (h : yamlLabelsStr ls = some strs) :
    ls = strs.map TagVal.str ∧ ∀ v ∈ ls, ∃ s ∈ strs, yamlLabelGroupOrig v = .ok s ∧ yamlLabelGroup v = .ok s := by
  induction ls generalizing strs with
  | nil =>
    simp only [yamlLabelsStr, Option.some.injEq] at h
    subst h
    simp
  | cons v vs ih =>
    cases v with
    | int i => simp [yamlLabelsStr] at h
    | str s =>
      simp only [yamlLabelsStr] at h
      cases hr : yamlLabelsStr vs with
      | none => simp [hr] at h
      | some t =>
        simp only [hr, Option.map_some, Option.some.injEq] at h
        subst h
        obtain ⟨h1, h2⟩ := ih t hr
        refine ⟨by rw [h1]; simp, ?_⟩
        intro w hw
        rcases List.mem_cons.mp hw with rfl | hw
        · exact ⟨s, by simp, rfl, rfl⟩
        · obtain ⟨s', hs', he⟩ := h2 w hw
          exact ⟨s', by simp [hs'], he⟩

example : yamlLabelsStr [.str "rep1", .str "1"] = some ["rep1", "1"] ∧ yamlLabelsStr [.str "a", .int 2] = none := by decide

/-! ### list files -/

/-- **list_block_labels**: an accepted block of a list file: no file is named twice, and every file of a line
    `f₁ f₂ …[:label]` is labelled with the line's label — the text after the last colon, or the name of the line's first file -/
theorem list_block_labels (n : String) (lines : List ListLine) (s : ParsedSample)
    (h : ownBlock n lines = some (some s)) :
    (s.readable.map Prod.fst).Nodup ∧
    ∀ fs label, ListLine.files fs label ∈ lines → ∀ f ∈ fs, s.readable.lookup f.path = some (lineLabel fs label) := by
  unfold ownBlock at h
  cases hb : blockOwn [] [] lines with
  | none => simp [hb] at h
  | some r =>
    obtain ⟨d, c⟩ := r
    simp only [hb] at h
    split at h
    · cases h
    · injection h with h
      injection h with h
      subst h
      obtain ⟨hd, hnd⟩ := blockOwn_spec lines [] [] d c hb (by simp)
      refine ⟨hnd, ?_⟩
      intro fs label hl f hf
      apply lookup_of_mem_nodup d hnd
      rw [hd, List.nil_append]
      exact List.mem_flatMap.mpr ⟨_, hl, by simp only [linePairs]; exact List.mem_map.mpr ⟨f, hf, rfl⟩⟩

/-- tokens of `str.split()`: non-empty, free of white space -/
theorem splitWs_tokens (s : List Char) : ∀ t ∈ pySplitWs s, t ≠ [] ∧ ∀ c ∈ t, isPySpace c = false := by
  have h : ∀ (s cur : List Char), (∀ c ∈ cur, isPySpace c = false) →
      ∀ t ∈ splitWsGo s cur, t ≠ [] ∧ ∀ c ∈ t, isPySpace c = false := by
    intro s
    induction s with
    | nil =>
      intro cur hcur t ht
      simp only [splitWsGo] at ht
      split at ht
      · simp at ht
      · rename_i hne
        simp only [List.mem_singleton] at ht
        subst ht
        exact ⟨by simpa using hne, fun c hc => hcur c (List.mem_reverse.mp hc)⟩
    | cons c rest ih =>
      intro cur hcur t ht
      simp only [splitWsGo] at ht
      by_cases hsp : isPySpace c = true
      · simp only [hsp, if_true] at ht
        split at ht
        · exact ih [] (by simp) t ht
        · rename_i hne
          rcases List.mem_cons.mp ht with rfl | ht
          · exact ⟨by simpa using hne, fun c hc => hcur c (List.mem_reverse.mp hc)⟩
          · exact ih [] (by simp) t ht
      · have hsp' : isPySpace c = false := by simpa using hsp
        simp only [hsp', Bool.false_eq_true, if_false] at ht
        exact ih (c :: cur) (by
          intro x hx
          rcases List.mem_cons.mp hx with rfl | hx
          · exact hsp'
          · exact hcur x hx) t ht
  exact h s [] (by simp)

/-- **list_line_spec**: how a raw line of a list file is read.  A blank line or a line whose first character is `#` is an
    experiment header.  Any other line lists files: the label is absent when the stripped line has no colon (the files
    are then labelled by the name of the first file, `lineLabel`), and otherwise it is the text after the LAST colon -/
theorem list_line_spec (l : List Char) :
    ((pyStrip l = [] ∨ l.head? = some '#') → parseListLine l = .header (String.ofList (pyStrip l).tail)) ∧
    (pyStrip l ≠ [] → l.head? ≠ some '#' →
      ∃ fs label, parseListLine l = .files fs label ∧
        (∀ f ∈ fs, f.stem = fileStem f.path) ∧
        (¬ [':'] <:+: pyStrip l → label = none) ∧
        ([':'] <:+: pyStrip l → ∃ g p, label = some (String.ofList g) ∧ pyStrip l = p ++ [':'] ++ g ∧ ¬ [':'] <:+: g)) := by
  constructor
  · intro h
    simp only [parseListLine, h, if_true]
  · intro h1 h2
    obtain ⟨ps, hps, hne, _, hone, hlast⟩ := IsoVerif.Props.C09Groupers.pySplit_spec [':'] (pyStrip l) (by simp)
    have hcond : ¬ (pyStrip l = [] ∨ l.head? = some '#') := by
      rintro (h | h)
      · exact h1 h
      · exact h2 h
    cases ps with
    | nil => exact absurd rfl hne
    | cons v0 rest =>
      refine ⟨(pySplitWs v0).map (fun f => mkInFile (String.ofList f)), rest.getLast?.map String.ofList, ?_, ?_, ?_, ?_⟩
      · simp only [parseListLine, hcond, if_false, hps]
      · intro f hf
        obtain ⟨t, _, rfl⟩ := List.mem_map.mp hf
        rfl
      · intro hno
        have : (v0 :: rest).length = 1 := hone.mpr hno
        have : rest = [] := by simpa using this
        subst this
        rfl
      · intro hin
        have hlen : ¬ (v0 :: rest).length = 1 := fun e => (hone.mp e) hin
        have hrne : rest ≠ [] := by
          intro e; subst e; exact hlen rfl
        obtain ⟨g, hg⟩ : ∃ g, rest.getLast? = some g := ⟨rest.getLast hrne, List.getLast?_eq_some_getLast hrne⟩
        have hg' : (v0 :: rest).getLast? = some g := by
          rw [List.getLast?_cons_of_ne_nil hrne]; exact hg
        obtain ⟨hnog, hp⟩ := hlast g hg'
        obtain ⟨p, hp⟩ := hp hin
        exact ⟨g, p, by rw [hg]; rfl, hp, hnog⟩

example : parseListLine "  /d/a.bam  /e/b.bam :rep 1 \n".toList =
    .files [⟨"/d/a.bam", "a"⟩, ⟨"/e/b.bam", "b"⟩] (some "rep 1") ∧
    parseListLine "/d/a.sorted.bam\n".toList = .files [⟨"/d/a.sorted.bam", "a.sorted"⟩] none ∧
    parseListLine "#Exp 1 \n".toList = .header "Exp 1" ∧ parseListLine " \t\n".toList = .header "" := by decide +kernel

example : ownBlock "E" [.files [⟨"/d/a.bam", "a"⟩, ⟨"/e/b.bam", "b"⟩] (some "rep"), .files [⟨"/d/c.bam", "c"⟩] none] =
    some (some ⟨"E", [["/d/a.bam", "/e/b.bam"], ["/d/c.bam"]],
      [("/d/a.bam", "rep"), ("/e/b.bam", "rep"), ("/d/c.bam", "c")], none⟩) := by decide +kernel

example : readableNamesCmd ["/d/a.bam", "/d/b.bam"] (some ["L1"]) = .error (.exit (-1)) ∧
    readableNamesCmd ["/d/a.bam", "/d/a.bam"] none = .error (.exit (-2)) ∧
    readableNamesCmd ["/d/a.bam", "/d/b.x.bam"] (some []) = .ok [("/d/a.bam", "a"), ("/d/b.x.bam", "b.x")] := by decide +kernel

end IsoVerif.Props.C09Labels
