/-
C15 — object formats: MatchEvent, IsoformMatch, ReadAssignment, BasicReadAssignment, the gene-info header,
and the abridged reader of a full ReadAssignment record.

Shape of every round-trip theorem (`…_decode_encode`):
    writeX x = some bs  →  Dom x  →  readX.run (bs ++ rest) = some (x', rest)      for ALL x, bs, rest
* `writeX x = some bs` – the real `serialize` did not raise; by `…_encodable_iff` this is exactly the documented value
  domain (ints in [0,2^32) / (−2^31,2^31) for sign-bit ints / [0,2^16) for shorts, strings of < 2^16 UTF-8 bytes,
  lists shorter than 2^32, penalties in (−2^-20, 2^12));
* `rest` is arbitrary: the reader consumes exactly the bytes the writer produced (byte alignment);
* `x' = x` except that a penalty comes back truncated to 20 fractional bits (`quantPenalty`); the `…_exact`
  corollaries give `x' = x` when the penalties are multiples of 2^-20, and `quant…_idem` says that a second
  round trip changes nothing.
* `Dom` lists the encodable values that would NOT come back unchanged (each with a `…_witness` in Props/C15.lean).
-/
import IsoVerif.Lemmas.Serial

namespace IsoVerif.Props.C15Objects
open IsoVerif.Gen IsoVerif.Model IsoVerif.Model.Serial IsoVerif.Lemmas.Serial

/-! ### domain predicates -/

/-- an optional id is `None` or a string whose UTF-8 length is not the None marker 65535 -/
def IdOk (o : Option String) : Prop := ∀ s, o = some s → s.utf8ByteSize ≠ ser_NONE_STR_LEN

def MatchDom (m : IsoformMatch) : Prop := IdOk m.assignedGene ∧ IdOk m.assignedTranscript

/-- a penalty that is stored exactly: a multiple of 2^-20 -/
def PenaltyExact (q : Rat) : Prop := ∃ n : Int, q = (n : Rat) / ((ser_SHORT_FLOAT_MULTIPLIER : Nat) : Rat)

/-- encodable values of a ReadAssignment that would not be read back unchanged are excluded:
    ids colliding with the None marker, a dict with a repeated key (impossible for a Python dict), and
    `corrected_introns` not being the junctions of `corrected_exons` (the pipeline always sets them so) -/
def RADom (r : ReadAssignment) : Prop :=
  (∀ m ∈ r.isoformMatches, MatchDom m) ∧
  (r.additionalInfo.map (·.1)).Nodup ∧ (r.additionalAttributes.map (·.1)).Nodup ∧
  r.correctedIntrons = junctionsFromBlocks r.correctedExons

/-! ### what comes back: penalties truncated to 20 fractional bits -/

def quantMatch (m : IsoformMatch) : IsoformMatch := { m with penaltyScore := quantPenalty m.penaltyScore }
def quantRA (r : ReadAssignment) : ReadAssignment := { r with isoformMatches := r.isoformMatches.map quantMatch }
def quantBasic (b : BasicReadAssignment) : BasicReadAssignment := { b with penaltyScore := quantPenalty b.penaltyScore }

theorem quantPenalty_exact {q : Rat} (h : PenaltyExact q) : quantPenalty q = q := by
  obtain ⟨n, rfl⟩ := h; exact quantPenalty_of_multiple n

theorem quantPenalty_idem (q : Rat) : quantPenalty (quantPenalty q) = quantPenalty q :=
  quantPenalty_of_multiple _

theorem quantMatch_exact {m : IsoformMatch} (h : PenaltyExact m.penaltyScore) : quantMatch m = m := by
  cases m; simp only [quantMatch] at *; rw [quantPenalty_exact h]

theorem quantMatch_idem (m : IsoformMatch) : quantMatch (quantMatch m) = quantMatch m := by
  simp [quantMatch, quantPenalty_idem]

theorem quantRA_exact {r : ReadAssignment} (h : ∀ m ∈ r.isoformMatches, PenaltyExact m.penaltyScore) :
    quantRA r = r := by
  cases r
  simp only [quantRA] at *
  congr 1
  rw [List.map_congr_left (fun m hm => quantMatch_exact (h m hm))]; simp

theorem quantRA_idem (r : ReadAssignment) : quantRA (quantRA r) = quantRA r := by
  simp [quantRA, quantMatch_idem]

theorem idOk_utf8 {o : Option String} (h : IdOk o) :
    ∀ s, o = some s → (utf8 s).length ≠ ser_NONE_STR_LEN := by
  intro s hs; rw [utf8_length]; exact h s hs

/-! ### MatchEvent -/

theorem match_event_rt : RT writeMatchEvent readMatchEvent (fun _ => True) := by
  intro e bs rest _ h
  unfold writeMatchEvent at h
  unfold readMatchEvent
  refine RT.step (RT_enum MatchEventSubtype.value MatchEventSubtype.ofValue? _ MatchEventSubtype.ofValue_value) trivial h ?_; clear h; intro bs h
  refine RT.step (RT_writeInt _) trivial h ?_; clear h; intro bs h
  refine RT.step (RT_writeInt _) trivial h ?_; clear h; intro bs h
  refine RT.step (RT_writeInt _) trivial h ?_; clear h; intro bs h
  refine RT.step (RT_writeInt _) trivial h ?_; clear h; intro bs h
  refine RT.step RT_writeIntNeg trivial h ?_; clear h; intro bs h
  exact done_step h rfl

/-- every event the real `MatchEvent.serialize` accepts is read back unchanged, whatever follows it -/
theorem match_event_decode_encode (e : MatchEvent) (bs rest : Bytes) (henc : writeMatchEvent e = some bs) :
    readMatchEvent.run (bs ++ rest) = some (e, rest) :=
  match_event_rt e bs rest trivial henc

/-! ### IsoformMatch -/

theorem isoform_match_rt : RTn writeIsoformMatch readIsoformMatch quantMatch MatchDom := by
  intro m bs rest hP h
  replace hP := And.intro (idOk_utf8 hP.1) (idOk_utf8 hP.2)
  unfold writeIsoformMatch at h
  unfold readIsoformMatch
  refine RT.step RT_writeStringOrNone hP.1 h ?_; clear h; intro bs h
  refine RT.step RT_writeStringOrNone hP.2 h ?_; clear h; intro bs h
  refine RT.step RT_writeString trivial h ?_; clear h; intro bs h
  refine RT.step (RT_enum MatchClassification.value MatchClassification.ofValue? _ MatchClassification.ofValue_value) trivial h ?_; clear h; intro bs h
  refine RTn.step RTn_writePenalty trivial h ?_; clear h; intro bs h
  refine RT.step (RT_writeList match_event_rt) (fun _ _ => trivial) h ?_; clear h; intro bs h
  exact done_step h rfl

theorem isoform_match_decode_encode (m : IsoformMatch) (bs rest : Bytes) (henc : writeIsoformMatch m = some bs)
    (hdom : MatchDom m) : readIsoformMatch.run (bs ++ rest) = some (quantMatch m, rest) :=
  isoform_match_rt m bs rest hdom henc

theorem isoform_match_decode_encode_exact (m : IsoformMatch) (bs rest : Bytes)
    (henc : writeIsoformMatch m = some bs) (hdom : MatchDom m) (hpen : PenaltyExact m.penaltyScore) :
    readIsoformMatch.run (bs ++ rest) = some (m, rest) := by
  rw [isoform_match_decode_encode m bs rest henc hdom, quantMatch_exact hpen]

/-! ### ReadAssignment (with PolyAInfo, both dicts, both profiles) -/

theorem read_assignment_rt : RTn writeReadAssignment readReadAssignment quantRA RADom := by
  intro r bs rest hP h
  obtain ⟨hm, hd1, hd2, hci⟩ := hP
  unfold writeReadAssignment at h
  unfold readReadAssignment
  refine RT.step (RT_writeInt _) trivial h ?_; clear h; intro bs h
  refine RT.step RT_writeString trivial h ?_; clear h; intro bs h
  refine RT.step (RT_writeInt _) trivial h ?_; clear h; intro bs h
  refine RT.step (RT_writeInt _) trivial h ?_; clear h; intro bs h
  refine RT.step (RT_writeListOfPairs (RT_writeInt ser_LONG_INT_BYTES)) (fun _ _ => ⟨trivial, trivial⟩) h ?_; clear h; intro bs h
  refine RT.step (RT_writeListOfPairs (RT_writeInt ser_LONG_INT_BYTES)) (fun _ _ => ⟨trivial, trivial⟩) h ?_; clear h; intro bs h
  refine RT.step (RT_writeBoolArray 3) rfl h ?_; clear h; intro bs h
  refine pure_step (boolAt_run _ 0 _ _ rfl) ?_
  refine pure_step (boolAt_run _ 1 _ _ rfl) ?_
  refine pure_step (boolAt_run _ 2 _ _ rfl) ?_
  refine RT.step RT_writeIntNeg trivial h ?_; clear h; intro bs h
  refine RT.step RT_writeIntNeg trivial h ?_; clear h; intro bs h
  refine RT.step RT_writeIntNeg trivial h ?_; clear h; intro bs h
  refine RT.step RT_writeIntNeg trivial h ?_; clear h; intro bs h
  refine RT.step RT_writeString trivial h ?_; clear h; intro bs h
  refine RT.step RT_writeString trivial h ?_; clear h; intro bs h
  refine RT.step RT_writeString trivial h ?_; clear h; intro bs h
  refine RT.step RT_writeString trivial h ?_; clear h; intro bs h
  refine RT.step RT_writeShortInt trivial h ?_; clear h; intro bs h
  refine RT.step (RT_enumRAT _) trivial h ?_; clear h; intro bs h
  refine RT.step (RT_enumRAT _) trivial h ?_; clear h; intro bs h
  refine RTn.step (RTn_writeList isoform_match_rt) hm h ?_; clear h; intro bs h
  refine RT.step RT_writeDict hd1 h ?_; clear h; intro bs h
  refine RT.step RT_writeDict hd2 h ?_; clear h; intro bs h
  refine RT.step RT_writeShortInt trivial h ?_; clear h; intro bs h
  refine RT.step (RT_writeList RT_writeIntNeg) (fun _ _ => trivial) h ?_; clear h; intro bs h
  refine RT.step (RT_writeList RT_writeIntNeg) (fun _ _ => trivial) h ?_; clear h; intro bs h
  refine done_step h ?_
  have hbool : ∀ b : Bool, ((if b then (1 : Int) else 0) != 0) = b := by intro b; cases b <;> rfl
  simp only [quantRA, hbool, ← hci]

/-- everything a read assignment carries is unchanged by `serialize` → `deserialize`, for every value the writer
    accepts, up to the truncation of penalties to 20 fractional bits -/
theorem read_assignment_decode_encode (r : ReadAssignment) (bs rest : Bytes)
    (henc : writeReadAssignment r = some bs) (hdom : RADom r) :
    readReadAssignment.run (bs ++ rest) = some (quantRA r, rest) :=
  read_assignment_rt r bs rest hdom henc

theorem read_assignment_decode_encode_exact (r : ReadAssignment) (bs rest : Bytes)
    (henc : writeReadAssignment r = some bs) (hdom : RADom r)
    (hpen : ∀ m ∈ r.isoformMatches, PenaltyExact m.penaltyScore) :
    readReadAssignment.run (bs ++ rest) = some (r, rest) := by
  rw [read_assignment_decode_encode r bs rest henc hdom, quantRA_exact hpen]

/-! ### the abridged reader stays byte-aligned with the full format -/

/-- `BasicReadAssignment.deserialize_from_read_assignment` on a full record: it stops exactly where the full reader
    stops (same `rest`) and returns the projection `BasicReadAssignment(read_assignment)` of what the full reader
    returns (`quantRA r`), for every record with at least one exon -/
theorem quick_reader_aligned (r : ReadAssignment) (bs rest : Bytes) (henc : writeReadAssignment r = some bs)
    (hdom : RADom r) (hne : r.exons ≠ []) :
    readBasicFromReadAssignment.run (bs ++ rest) = some (basicOf (quantRA r), rest) ∧
    readReadAssignment.run (bs ++ rest) = some (quantRA r, rest) := by
  refine ⟨?_, read_assignment_decode_encode r bs rest henc hdom⟩
  have h := henc
  obtain ⟨hm, hd1, hd2, hci⟩ := hdom
  unfold writeReadAssignment at h
  unfold readBasicFromReadAssignment
  refine RT.step (RT_writeInt _) trivial h ?_; clear h; intro bs h
  refine RT.step RT_writeString trivial h ?_; clear h; intro bs h
  refine RT.step (RT_writeInt _) trivial h ?_; clear h; intro bs h
  refine RT.step (RT_writeInt _) trivial h ?_; clear h; intro bs h
  refine RT.step (RT_writeListOfPairs (RT_writeInt ser_LONG_INT_BYTES)) (fun _ _ => ⟨trivial, trivial⟩) h ?_; clear h; intro bs h
  obtain ⟨e0, hhead⟩ : ∃ e, r.exons.head? = some e := by
    cases hex : r.exons with
    | nil => exact absurd hex hne
    | cons a t => exact ⟨a, rfl⟩
  obtain ⟨e1, hlast⟩ : ∃ e, r.exons.getLast? = some e := by
    cases hex : r.exons.getLast? with
    | none => exact absurd (List.getLast?_eq_none_iff.mp hex) hne
    | some a => exact ⟨a, rfl⟩
  refine pure_step (x := e0.1) (by rw [hhead]; rfl) ?_
  refine pure_step (x := e1.2) (by rw [hlast]; rfl) ?_
  refine RT.step (RT_writeListOfPairs (RT_writeInt ser_LONG_INT_BYTES)) (fun _ _ => ⟨trivial, trivial⟩) h ?_; clear h; intro bs h
  refine RT.step (RT_writeBoolArray 3) rfl h ?_; clear h; intro bs h
  refine pure_step (boolAt_run _ 0 _ _ rfl) ?_
  refine pure_step (boolAt_run _ 1 _ _ rfl) ?_
  refine RT.step RT_writeIntNeg trivial h ?_; clear h; intro bs h
  refine RT.step RT_writeIntNeg trivial h ?_; clear h; intro bs h
  refine RT.step RT_writeIntNeg trivial h ?_; clear h; intro bs h
  refine RT.step RT_writeIntNeg trivial h ?_; clear h; intro bs h
  refine RT.step RT_writeString trivial h ?_; clear h; intro bs h
  refine RT.step RT_writeString trivial h ?_; clear h; intro bs h
  refine RT.step RT_writeString trivial h ?_; clear h; intro bs h
  refine RT.step RT_writeString trivial h ?_; clear h; intro bs h
  refine RT.step RT_writeShortInt trivial h ?_; clear h; intro bs h
  refine RT.step (RT_enumRAT _) trivial h ?_; clear h; intro bs h
  refine RT.step (RT_enumRAT _) trivial h ?_; clear h; intro bs h
  refine RTn.step (RTn_writeList isoform_match_rt) hm h ?_; clear h; intro bs h
  refine RT.step RT_writeDict hd1 h ?_; clear h; intro bs h
  refine RT.step RT_writeDict hd2 h ?_; clear h; intro bs h
  refine RT.step RT_writeShortInt trivial h ?_; clear h; intro bs h
  refine RT.step (RT_writeList RT_writeIntNeg) (fun _ _ => trivial) h ?_; clear h; intro bs h
  refine RT.step (RT_writeList RT_writeIntNeg) (fun _ _ => trivial) h ?_; clear h; intro bs h
  refine done_step h ?_
  simp only [basicOf, quantRA, hhead, hlast]

/-- the projection does not see the penalty truncation when the first match's penalty is not negative
    (penalties are sums of non-negative event costs): then the abridged reader returns exactly
    `BasicReadAssignment(read_assignment)` of the record that was written -/
theorem basicOf_quantRA (r : ReadAssignment)
    (hpos : ∀ m, r.isoformMatches.head? = some m → ¬ m.penaltyScore < 0 ∧ ¬ quantPenalty m.penaltyScore < 0) :
    basicOf (quantRA r) = basicOf r := by
  have hids : ∀ l : List IsoformMatch, (l.map quantMatch).map (·.assignedGene) = l.map (·.assignedGene) ∧
      (l.map quantMatch).map (·.assignedTranscript) = l.map (·.assignedTranscript) := by
    intro l; simp [quantMatch]
  have hpen : basicPenalty (r.isoformMatches.map quantMatch) = basicPenalty r.isoformMatches := by
    cases hl : r.isoformMatches with
    | nil => rfl
    | cons m t =>
      have := hpos m (by rw [hl]; rfl)
      simp [basicPenalty, quantMatch, this.1, this.2]
  simp only [basicOf, quantRA, hids, hpen]

/-- an empty exon list is outside the domain of the abridged reader: it raises (IndexError in the real code)
    instead of returning the start = end = 0 that `BasicReadAssignment(read_assignment)` would carry -/
theorem quick_reader_empty_exons_witness :
    ∃ r bs, writeReadAssignment r = some bs ∧ r.exons = [] ∧
      readBasicFromReadAssignment.run bs = none ∧ (readReadAssignment.run bs).isSome = true := by
  refine ⟨{ assignmentId := 1, readId := "r", genomicRegion := (0, 0), exons := [], correctedExons := [],
            correctedIntrons := [], multimapper := false, polyAFound := false, cageFound := false,
            polyaInfo := ⟨-1, -1, -1, -1⟩, readGroup := "NA", mappedStrand := ".", strand := ".", chrId := "c",
            mappingQuality := 0, assignmentType := .noninformative, geneAssignmentType := .noninformative,
            isoformMatches := [], additionalInfo := [], additionalAttributes := [], intronsMatch := false,
            exonGeneProfile := [], intronGeneProfile := [] }, _, rfl, rfl, ?_, ?_⟩ <;> decide +kernel

/-! ### BasicReadAssignment (multimapper files) -/

theorem basic_rt : RTn writeBasic readBasic quantBasic (fun _ => True) := by
  intro x bs rest _ h
  unfold writeBasic at h
  unfold readBasic
  refine RT.step (RT_writeInt _) trivial h ?_; clear h; intro bs h
  refine RT.step RT_writeString trivial h ?_; clear h; intro bs h
  refine RT.step RT_writeString trivial h ?_; clear h; intro bs h
  refine RT.step (RT_writeInt _) trivial h ?_; clear h; intro bs h
  refine RT.step (RT_writeInt _) trivial h ?_; clear h; intro bs h
  refine RT.step (RT_writeInt _) trivial h ?_; clear h; intro bs h
  refine RT.step (RT_writeInt _) trivial h ?_; clear h; intro bs h
  refine RT.step (RT_writeBoolArray 2) rfl h ?_; clear h; intro bs h
  refine pure_step (boolAt_run _ 0 _ _ rfl) ?_
  refine pure_step (boolAt_run _ 1 _ _ rfl) ?_
  refine RT.step (RT_enumRAT _) trivial h ?_; clear h; intro bs h
  refine RT.step (RT_enumRAT _) trivial h ?_; clear h; intro bs h
  refine RTn.step RTn_writePenalty trivial h ?_; clear h; intro bs h
  refine RT.step (RT_writeList RT_writeString) (fun _ _ => trivial) h ?_; clear h; intro bs h
  refine RT.step (RT_writeList RT_writeString) (fun _ _ => trivial) h ?_; clear h; intro bs h
  exact done_step h rfl

theorem basic_decode_encode (b : BasicReadAssignment) (bs rest : Bytes) (henc : writeBasic b = some bs) :
    readBasic.run (bs ++ rest) = some (quantBasic b, rest) :=
  basic_rt b bs rest trivial henc

theorem basic_decode_encode_exact (b : BasicReadAssignment) (bs rest : Bytes) (henc : writeBasic b = some bs)
    (hpen : PenaltyExact b.penaltyScore) : readBasic.run (bs ++ rest) = some (b, rest) := by
  rw [basic_decode_encode b bs rest henc]
  cases b; simp only [quantBasic] at *; rw [quantPenalty_exact hpen]

/-- what the multimapper resolver works on is stored exactly: a record produced by either reader has a penalty
    that is already a multiple of 2^-20 (in fact 0) -/
theorem basicOf_penalty_exact (r : ReadAssignment) : PenaltyExact (basicOf (quantRA r)).penaltyScore := by
  simp only [basicOf, quantRA]
  cases r.isoformMatches with
  | nil => exact ⟨0, by simp [basicPenalty, Rat.div_def]⟩
  | cons m t =>
    simp only [List.map_cons, basicPenalty, quantMatch]
    split
    · exact ⟨penaltyToInt m.penaltyScore, rfl⟩
    · exact ⟨0, by simp [Rat.div_def]⟩

/-! ### gene-info header -/

theorem gene_header_decode_encode (g : GeneHeader) (bs rest : Bytes) (henc : writeGeneHeader g = some bs) :
    readGeneHeader.run (bs ++ rest) = some (g, rest) :=
  RT_writeGeneHeader g bs rest trivial henc

/-! ### non-vacuity: a concrete record meets every hypothesis used above and the functions compute on it -/

def exEvent : MatchEvent :=
  { eventType := .intron_shift, isoformRegion := (2 ^ 31, 2 ^ 31), readRegion := (2 ^ 30 - 1, 2 ^ 30 + 1), eventInfo := -7 }

def exMatch : IsoformMatch :=
  { assignedGene := some "ENSG1", assignedTranscript := none, transcriptStrand := "+",
    matchClassification := .full_splice_match, penaltyScore := mkRat 3 4, events := [exEvent] }

/-- a record with a None id, sentinel positions, a negative event offset, non-ASCII text, a penalty that is not a
    multiple of 2^-20 (second match), both dicts non-empty, touching corrected exons -/
def exRA : ReadAssignment :=
  { assignmentId := 4294967295, readId := "read_é", genomicRegion := (1000, 2000),
    exons := [(1000, 1200), (1500, 2000)], correctedExons := [(1000, 1200), (1201, 1300), (1500, 2000)],
    correctedIntrons := [(1301, 1499)], multimapper := true, polyAFound := false, cageFound := true,
    polyaInfo := ⟨-1, 2001, -1, -1⟩, readGroup := "NA", mappedStrand := "+", strand := "-", chrId := "chr1",
    mappingQuality := 60, assignmentType := .ambiguous, geneAssignmentType := .«unique»,
    isoformMatches := [exMatch, { exMatch with assignedTranscript := some "T2", penaltyScore := mkRat 1 10, events := [] }],
    additionalInfo := [("FSM_class", .str "NA"), ("indel_count", .int (-5))],
    additionalAttributes := [("CB", .str "ACGT"), ("pos", .pair (-1) 3)],
    intronsMatch := true, exonGeneProfile := [1, -1, -2, 0], intronGeneProfile := [] }

example : (writeMatchEvent exEvent).isSome = true := by decide +kernel
example : (writeIsoformMatch exMatch).isSome = true ∧ MatchDom exMatch ∧ PenaltyExact exMatch.penaltyScore := by
  refine ⟨by decide +kernel, ⟨?_, ?_⟩, ⟨786432, by decide +kernel⟩⟩
  · intro s hs; cases hs; decide +kernel
  · intro s hs; cases hs
example : (writeReadAssignment exRA).isSome = true ∧ RADom exRA ∧ exRA.exons ≠ [] := by
  refine ⟨by decide +kernel, ⟨?_, by decide +kernel, by decide +kernel, by decide +kernel⟩, by decide⟩
  intro m hm
  simp only [exRA, List.mem_cons, List.not_mem_nil, or_false] at hm
  rcases hm with rfl | rfl <;> refine ⟨?_, ?_⟩ <;> intro s hs <;> cases hs <;> decide +kernel
/-- the round trip computed on the concrete record: the second match's penalty 0.1 comes back as 104857/2^20,
    everything else is unchanged, and the abridged reader returns the projection -/
example :
    ((writeReadAssignment exRA).bind fun bs => readReadAssignment.run (bs ++ [1, 2, 3])) = some (quantRA exRA, [1, 2, 3]) ∧
    ((writeReadAssignment exRA).bind fun bs => readBasicFromReadAssignment.run (bs ++ [1, 2, 3])) =
      some (basicOf exRA, [1, 2, 3]) ∧
    quantRA exRA ≠ exRA ∧ (basicOf exRA).genes = ["ENSG1"] ∧ (basicOf exRA).isoforms = ["T2"] ∧
    (basicOf exRA).start = 1000 ∧ (basicOf exRA).end = 2000 := by
  refine ⟨?_, ?_, ?_, ?_, ?_, ?_, ?_⟩ <;> decide +kernel

end IsoVerif.Props.C15Objects
