/-
C10 — experiment names (audit finding G4).

`InputDataStorage.get_samples_from_yaml` / `get_samples_from_file` rename a duplicate (or missing) experiment name to
`<prefix><position>`.  The output folder of an experiment is `<output>/<name>` and every file in it starts with
`<name>.`, so two experiments with one name write over each other: "for each experiment exactly the files a separate
run would produce" needs the names the parser hands out to be pairwise different – for EVERY description, not only for
those that already carry distinct explicit names (reading rule c of docs/C10.md).

The model (`Model/Samples.lean`) takes the test that precedes the renaming from the source
(`renameRuleOfSource`, generated table `Gen.rename_exit_test`): `recheck = false` is the tree before the repair
(`current_sample_name == new_sample_name`), `recheck = true` the repaired one (`new_sample_name in experiment_names`).
Property theorems only; lemmas in `Lemmas/SampleNames.lean`.
-/
import IsoVerif.Model.Samples
import IsoVerif.Lemmas.Samples
import IsoVerif.Lemmas.SampleNames

namespace IsoVerif.Props.C10Names
open IsoVerif.Gen IsoVerif.Model.C10 IsoVerif.Lemmas.C10

/-- the tests found in the current source are those of the repaired tree (fails to compile on a tree where either
    parser compares the generated name with the duplicate only) -/
theorem rename_rule_of_source_fixed : renameRuleOfSource = renameRuleFixed := by decide

/-- full-strength statement, YAML: whatever the description says about names (absent, repeated, of the form
    `<prefix><number>` …), a description the parser accepts yields pairwise different experiment names -/
def ParsedNamesDistinct (parse : String → List YamlEntry → Option (List ParsedSample)) : Prop :=
  ∀ (pfx : String) (entries : List YamlEntry) (rs : List ParsedSample),
    parse pfx entries = some rs → (rs.map ParsedSample.name).Nodup

/-- … and for list files -/
def ParsedListNamesDistinct (parse : String → List ListLine → Option (List ParsedSample)) : Prop :=
  ∀ (pfx : String) (lines : List ListLine) (rs : List ParsedSample),
    parse pfx lines = some rs → (rs.map ParsedSample.name).Nodup

/-- the repaired test gives distinct names, for all prefixes and all entry lists -/
theorem parsed_names_distinct_recheck : ParsedNamesDistinct (parseYamlR true) := by
  intro pfx entries rs h
  unfold parseYamlR at h
  cases hl : yamlLoopR true pfx ParseSt.init entries with
  | none => simp [hl] at h
  | some st =>
    simp only [hl, Option.map_some, Option.some.injEq] at h
    subst h
    have hI := yamlLoopR_names pfx entries ParseSt.init st hl namesInv_init
    rw [finishParse_names st hI]
    exact hI.nodup

/-- **parsed_names_distinct**: `get_samples_from_yaml` of the current source, ALL inputs (no hypothesis on the given names) -/
theorem parsed_names_distinct : ParsedNamesDistinct parseYaml := by
  intro pfx entries rs h
  unfold parseYaml at h
  rw [rename_rule_of_source_fixed] at h
  exact parsed_names_distinct_recheck pfx entries rs h

theorem parsed_list_names_distinct_recheck : ParsedListNamesDistinct (parseListR true) := by
  intro pfx lines rs h
  unfold parseListR at h
  cases hl : listLoopR true pfx ⟨ParseSt.init, [], pfx⟩ lines with
  | none => simp [hl] at h
  | some s =>
    simp only [hl, Option.map_some, Option.some.injEq] at h
    subst h
    have hI := listLoopR_names pfx lines ⟨ParseSt.init, [], pfx⟩ s hl ⟨namesInv_init, by simp [ParseSt.init]⟩
    have hf := flush_namesInv s hI
    rw [finishParse_names s.flush hf]
    exact hf.nodup

/-- **parsed_list_names_distinct**: `get_samples_from_file` of the current source, ALL inputs – blank-line headers,
    repeated `#name` lines, files before the first header (named by the prefix), headers without files -/
theorem parsed_list_names_distinct : ParsedListNamesDistinct parseList := by
  intro pfx lines rs h
  unfold parseList at h
  rw [rename_rule_of_source_fixed] at h
  exact parsed_list_names_distinct_recheck pfx lines rs h

/-- **parsed_own_entry_any_names** (YAML, repaired test, ALL inputs): the `hnames` / `hnd` hypotheses of
    `parsed_sample_depends_on_own_entry` / `parse_joint_eq_standalone` (Props/C10.lean) are not needed for what the
    parser itself produces.  Whenever a description is accepted – names absent, repeated, position-like, entries
    without files, in any order – there is one name per entry, namely the entry's own `name` or `<prefix><position>`,
    such that (1) the result is the concatenation of what each entry yields BY ITSELF under that name
    (`parseOwnYaml e n`: a function of that one entry) and (2) the names of the experiments are pairwise different.
    None of the loop locals carries files, labels or short reads from one entry to another. -/
theorem parsed_own_entry_any_names_recheck (pfx : String) (entries : List YamlEntry) (rs : List ParsedSample)
    (h : parseYamlR true pfx entries = some rs) :
    ∃ ns : List String, ns.length = entries.length ∧
      parseEachOwn (entries.zip ns) = some rs ∧
      (rs.map ParsedSample.name).Nodup ∧
      ∀ (i : Nat) (hi : i < entries.length) (hn : i < ns.length),
        entries[i].name = some ns[i] ∨ ns[i] = pfx ++ toString i := by
  unfold parseYamlR at h
  cases hl : yamlLoopR true pfx ParseSt.init entries with
  | none => simp [hl] at h
  | some st =>
    simp only [hl, Option.map_some, Option.some.injEq] at h
    subst h
    obtain ⟨ns, hlen, hpe, hni, hnm⟩ := yamlLoopR_own_any pfx entries ParseSt.init st [] ownInv_init hl
    refine ⟨ns, hlen, ?_, ?_, ?_⟩
    · cases hq : parseEachOwn (entries.zip ns) with
      | none => simp [hq] at hpe
      | some rs' => simpa [hq] using hpe
    · rw [finishParse_names st hni]; exact hni.nodup
    · intro i hi hn
      have := hnm i hi hn
      simpa [ParseSt.init] using this

/-- … for `get_samples_from_yaml` of the current source -/
theorem parsed_own_entry_any_names (pfx : String) (entries : List YamlEntry) (rs : List ParsedSample)
    (h : parseYaml pfx entries = some rs) :
    ∃ ns : List String, ns.length = entries.length ∧
      parseEachOwn (entries.zip ns) = some rs ∧
      (rs.map ParsedSample.name).Nodup ∧
      ∀ (i : Nat) (hi : i < entries.length) (hn : i < ns.length),
        entries[i].name = some ns[i] ∨ ns[i] = pfx ++ toString i := by
  unfold parseYaml at h
  rw [rename_rule_of_source_fixed] at h
  exact parsed_own_entry_any_names_recheck pfx entries rs h

/-- the only name-dependent exit of one YAML entry, exactly: the name the entry starts from (its `name`, or
    `<prefix><position>` when the key is absent) is registered AND so is `<prefix><position>`; otherwise the entry
    exits iff it fails by itself (`parseOwnYaml` under the name it ends up with: key `long read files` absent, label
    count, a file twice) -/
theorem yaml_entry_exit_iff (pfx : String) (st : ParseSt) (outs : List ParsedSample) (e : YamlEntry)
    (hI : OwnInv st outs) :
    yamlStepR true pfx st e = none ↔
      (startName pfx st e ∈ st.names ∧ pfx ++ toString st.index ∈ st.names) ∨
      parseOwnYaml e (chosenName pfx st (startName pfx st e)) = none := by
  rw [yamlStepR_eq]
  cases hb : (st.names.contains (startName pfx st e) &&
      renameBlocked true st.names (startName pfx st e) (pfx ++ toString st.index)) with
  | true =>
    have hb' := hb
    simp only [renameBlocked, if_true, Bool.and_eq_true, List.contains_iff_mem] at hb'
    constructor
    · intro _; exact Or.inl hb'
    · intro _
      unfold yamlBody
      dsimp only
      rw [hb]; rfl
  | false =>
    have hstep := yamlBody_own pfx st outs e (startName pfx st e) hI hb
    have hnot : ¬ (startName pfx st e ∈ st.names ∧ pfx ++ toString st.index ∈ st.names) := by
      intro hh
      have : (st.names.contains (startName pfx st e) &&
          renameBlocked true st.names (startName pfx st e) (pfx ++ toString st.index)) = true := by
        simp only [renameBlocked, if_true, Bool.and_eq_true, List.contains_iff_mem]; exact hh
      rw [hb] at this; exact absurd this (by decide)
    cases hp : parseOwnYaml e (chosenName pfx st (startName pfx st e)) with
    | none =>
      simp only [hp] at hstep
      simp [hstep]
    | some r =>
      simp only [hp] at hstep
      obtain ⟨st', hs, _⟩ := hstep
      constructor
      · intro hn; rw [hs] at hn; simp at hn
      · intro hh
        rcases hh with hh | hh
        · exact absurd hh hnot
        · simp at hh

/-! non-vacuity: descriptions outside reading rule (c) that the repaired parser accepts / refuses -/

/-- the invariant assumed by `yaml_entry_exit_iff` holds at the start of the loop (and is kept: `yamlBody_own`) -/
example : OwnInv ParseSt.init [] := ownInv_init

/-- a repeated name is renamed by position; an unnamed entry after it gets its own position -/
example : (parseYamlR true "P" [⟨some "X", some [⟨"/d/a.bam", "a"⟩], none, none⟩,
                                ⟨some "X", some [⟨"/d/b.bam", "b"⟩], none, none⟩,
                                ⟨none, some [⟨"/d/c.bam", "c"⟩], none, none⟩]).map (fun l => l.map ParsedSample.name)
    = some ["X", "P1", "P2"] := by decide

/-- the description of the audit probe: names P2, X, X with prefix P – the positional name of the third entry is
    taken by the first, the repaired parser exits ("Change experiment name X and rerun IsoQuant") -/
example : parseYamlR true "P" [⟨some "P2", some [⟨"/d/a.bam", "a"⟩], none, none⟩,
                               ⟨some "X", some [⟨"/d/b.bam", "b"⟩], none, none⟩,
                               ⟨some "X", some [⟨"/d/c.bam", "c"⟩], none, none⟩] = none := by decide

example : (parseListR true "P" [.files [⟨"/d/z.bam", "z"⟩] none, .header "P", .files [⟨"/d/a.bam", "a"⟩] none,
                                .header "", .files [⟨"/d/b.bam", "b"⟩] none]).map (fun l => l.map ParsedSample.name)
    = some ["P", "P0", "P1"] := by decide

example : parseListR true "P" [.header "P2", .files [⟨"/d/a.bam", "a"⟩] none, .header "X", .files [⟨"/d/b.bam", "b"⟩] none,
                               .header "X", .files [⟨"/d/c.bam", "c"⟩] none] = none := by decide

/-! ### the tree before the repair: the statement is false (audit finding G4) -/

/-- names P2, X, X with prefix P: experiments P2, X, P2 – the first and the third share the folder `<out>/P2` -/
theorem parsed_names_distinct_witness : ¬ ParsedNamesDistinct parseYamlOrig := by
  intro h
  have := h "P" [⟨some "P2", some [⟨"/d/a.bam", "a"⟩], none, none⟩, ⟨some "X", some [⟨"/d/b.bam", "b"⟩], none, none⟩,
                 ⟨some "X", some [⟨"/d/c.bam", "c"⟩], none, none⟩]
    [⟨"P2", [["/d/a.bam"]], [("/d/a.bam", "a"), ("/d/c.bam", "c")], none⟩, ⟨"X", [["/d/b.bam"]], [("/d/b.bam", "b")], none⟩,
     ⟨"P2", [["/d/c.bam"]], [("/d/a.bam", "a"), ("/d/c.bam", "c")], none⟩] (by decide)
  revert this
  decide

theorem parsed_list_names_distinct_witness : ¬ ParsedListNamesDistinct parseListOrig := by
  intro h
  have := h "P" [.header "P2", .files [⟨"/d/a.bam", "a"⟩] none, .header "X", .files [⟨"/d/b.bam", "b"⟩] none,
                 .header "X", .files [⟨"/d/c.bam", "c"⟩] none]
    [⟨"P2", [["/d/a.bam"]], [("/d/a.bam", "a"), ("/d/c.bam", "c")], none⟩, ⟨"X", [["/d/b.bam"]], [("/d/b.bam", "b")], none⟩,
     ⟨"P2", [["/d/c.bam"]], [("/d/a.bam", "a"), ("/d/c.bam", "c")], none⟩] (by decide)
  revert this
  decide

/-- what the old test did guarantee: with explicit, pairwise distinct names (reading rule c) nothing is renamed, under
    either test – the two trees parse such descriptions alike -/
theorem parse_rule_irrelevant_partial (rc : Bool) (pfx : String) (entries : List YamlEntry) (ns : List String)
    (hnames : entries.map YamlEntry.name = ns.map some) (hnd : ns.Nodup) :
    parseYamlR rc pfx entries = parseEachOwn (entries.zip ns) := by
  have h := yamlLoop_own rc pfx entries ns ParseSt.init [] []
    ⟨rfl, by simp [ParseSt.init], by simp [ParseSt.init, hasKey], by simp [ParseSt.init]⟩ hnames hnd (by simp)
  unfold parseYamlR
  rw [h]
  cases parseEachOwn (entries.zip ns) <;> simp

example : parseYamlR false "X" [⟨some "E1", some [⟨"/d/a.bam", "a"⟩], none, none⟩, ⟨some "E2", some [⟨"/d/c.bam", "c"⟩], none, none⟩]
    = parseYamlR true "X" [⟨some "E1", some [⟨"/d/a.bam", "a"⟩], none, none⟩, ⟨some "E2", some [⟨"/d/c.bam", "c"⟩], none, none⟩] := by decide

end IsoVerif.Props.C10Names
