/-
C06 — outputs do not depend on threads, hash seed, memory mode or repetition.
Property theorems only (helper lemmas: IsoVerif/Lemmas/Schedule.lean).  Model: IsoVerif/Model/Schedule.lean,
handled tables: IsoVerif/Model/C06Inventory.lean, regenerated inventories: IsoVerif/Gen/SharedState.lean, SetSites.lean.
-/
import IsoVerif.Model.Schedule
import IsoVerif.Lemmas.Schedule
import IsoVerif.Lemmas.C06RefGene

namespace IsoVerif.Props.C06
open IsoVerif.Model.C06 IsoVerif.Lemmas.C06

/-! ### 1. the process pool -/

/-- Whatever the assignment of tasks to workers and the order of execution, `pool.map` yields at position `i`
    the output of `f` on task `i` in *some* worker state: results come back in submission order, none is lost
    or duplicated, and the only influence of the schedule is through the state the worker happened to be in. -/
theorem pool_map_submission_order {σ χ ω : Type} (f : σ → χ → ω × σ) (chrs : List χ) (st : Nat → σ)
    (s : List Event) (hs : ValidSchedule chrs.length s) (i : Nat) (c : χ) (hc : chrs[i]? = some c) :
    ∃ σ₀, (poolMap f chrs st s)[i]? = some (some (f σ₀ c).1) :=
  poolMap_getElem? f chrs st s hs i c hc

/-- **schedule independence** (generic): if the per-chromosome output of a task does not depend on the state
    of the worker that runs it, the list returned by the pool is the same for all schedules and all initial
    worker states (forks of any parent state; `--threads 1` is the schedule `seqSchedule`). -/
theorem schedule_independent {σ χ ω : Type} (f : σ → χ → ω × σ) (chrs : List χ)
    (H : ∀ σ₁ σ₂ c, (f σ₁ c).1 = (f σ₂ c).1)
    (st st' : Nat → σ) (s s' : List Event)
    (hs : ValidSchedule chrs.length s) (hs' : ValidSchedule chrs.length s') :
    poolMap f chrs st s = poolMap f chrs st' s' := by
  apply List.ext_getElem?
  intro i
  cases hc : chrs[i]? with
  | none =>
    have hi : chrs.length ≤ i := by
      rcases Nat.lt_or_ge i chrs.length with h | h
      · rw [List.getElem?_eq_getElem h] at hc; cases hc
      · exact h
    rw [List.getElem?_eq_none (by rw [poolMap_length]; exact hi),
        List.getElem?_eq_none (by rw [poolMap_length]; exact hi)]
  | some c =>
    obtain ⟨σ₁, h₁⟩ := poolMap_getElem? f chrs st s hs i c hc
    obtain ⟨σ₂, h₂⟩ := poolMap_getElem? f chrs st' s' hs' i c hc
    rw [h₁, h₂, H σ₁ σ₂ c]

/-- non-vacuity: a state-dependent state update with a state-independent output meets the hypothesis, and the
    two schedules below (one worker / two workers, reversed completion) are valid -/
example : (∀ σ₁ σ₂ c, ((fun (σ : Nat) (c : Nat) => (c * 2, σ + c)) σ₁ c).1 = ((fun (σ : Nat) (c : Nat) => (c * 2, σ + c)) σ₂ c).1)
    ∧ ValidSchedule 3 [(0, 0), (0, 1), (0, 2)] ∧ ValidSchedule 3 [(1, 2), (0, 0), (1, 1)] := by
  refine ⟨fun _ _ _ => rfl, by decide, by decide⟩

/-- the same up to an equivalence of intermediate outputs: if outputs in two worker states are `R`-related, the
    lists returned under two schedules are pointwise `R`-related (used for the save files, whose assignment
    ids depend on the worker's counter) -/
theorem schedule_independent_rel {σ χ ω : Type} (f : σ → χ → ω × σ) (chrs : List χ) (R : ω → ω → Prop)
    (H : ∀ σ₁ σ₂ c, R (f σ₁ c).1 (f σ₂ c).1)
    (st st' : Nat → σ) (s s' : List Event)
    (hs : ValidSchedule chrs.length s) (hs' : ValidSchedule chrs.length s') (i : Nat) (hi : i < chrs.length) :
    ∃ o o', (poolMap f chrs st s)[i]? = some (some o) ∧ (poolMap f chrs st' s')[i]? = some (some o') ∧ R o o' := by
  have hc : chrs[i]? = some chrs[i] := List.getElem?_eq_getElem hi
  obtain ⟨σ₁, h₁⟩ := poolMap_getElem? f chrs st s hs i _ hc
  obtain ⟨σ₂, h₂⟩ := poolMap_getElem? f chrs st' s' hs' i _ hc
  exact ⟨_, _, h₁, h₂, H σ₁ σ₂ _⟩

/-- the schedule does matter when the hypothesis fails: a task that prints its worker's counter -/
theorem schedule_dependent_witness :
    poolMap (fun (σ : Nat) (_ : Unit) => (σ, σ + 1)) [(), ()] (fun _ => 0) [(0, 0), (0, 1)]
      ≠ poolMap (fun (σ : Nat) (_ : Unit) => (σ, σ + 1)) [(), ()] (fun _ => 0) [(0, 0), (1, 1)] := by
  simp [poolMap, runEvents, setW, List.lookup, List.range, List.range.loop]

/-! ### 3. set-iteration sites: the argument is the order in which the set happens to be iterated -/

/-- `gene_ids` column of the exon / intron tables (after /repo fc708be): any two iteration orders of the same set
    of gene ids print the same string -/
theorem hash_independent_gene_ids {l l' : List String} (h : l.Perm l') : geneIdsColumn l = geneIdsColumn l' := by
  unfold geneIdsColumn; rw [sortStr_eq_of_perm h]

/-- before the fix the column followed the iteration order -/
theorem gene_ids_buggy_witness :
    ["Gc1_alpha", "Gc1_Bx"].Perm ["Gc1_Bx", "Gc1_alpha"] ∧
    geneIdsColumnBuggy ["Gc1_alpha", "Gc1_Bx"] ≠ geneIdsColumnBuggy ["Gc1_Bx", "Gc1_alpha"] := by
  refine ⟨List.Perm.swap _ _ _, by decide⟩

/-- `BasicReadAssignment.isoforms` / `.genes` (after /repo 3186289), used by `__eq__` and by the tie-break key of
    `select_noninformative` -/
theorem hash_independent_isoforms_key {l l' : List String} (h : l.Perm l') : isoformsKey l = isoformsKey l' :=
  sortStr_eq_of_perm h

/-- before: with isoform sets {Tb} and {Ta,Tc} the comparison `key(b) < key(a)` flips with the iteration order -/
theorem isoforms_key_buggy_witness :
    ["Ta", "Tc"].Perm ["Tc", "Ta"] ∧
    (decide (isoformsKeyBuggy ["Ta", "Tc"] < isoformsKeyBuggy ["Tb"]) ≠ decide (isoformsKeyBuggy ["Tc", "Ta"] < isoformsKeyBuggy ["Tb"])) := by
  refine ⟨List.Perm.swap _ _ _, by decide⟩

/-- numeric group ids of `AssignedFeatureCounter` (after /repo b707b14) -/
theorem hash_independent_group_numbering {l l' : List String} (h : l.Perm l') : groupNumbering l = groupNumbering l' := by
  unfold groupNumbering; rw [sortStr_eq_of_perm h]

theorem group_numbering_buggy_witness :
    linearLabel (groupNumberingBuggy ["liver", "brain"]) (sortStr ["liver", "brain"]) "liver" = some "brain" := by decide

/-- header of every grouped table: per-chromosome sets dumped in any order, united, dumped again in any order
    (`perm`, `perm'`: what `list(set)` does to the union), read back into a set, sorted.  The result depends only on
    *which* groups occur on some chromosome. -/
theorem hash_independent_groups_header (A B : List (List String)) (perm perm' : List String → List String)
    (hp : ∀ l, (perm l).Perm l) (hp' : ∀ l, (perm' l).Perm l)
    (h : ∀ x, x ∈ A.flatten ↔ x ∈ B.flatten) :
    groupsHeader A perm = groupsHeader B perm' := by
  unfold groupsHeader
  apply sortStr_dedup_eq_of_mem_iff
  intro x
  rw [(hp _).mem_iff, (hp' _).mem_iff, mem_dedup, mem_dedup]
  exact h x

/-- non-vacuity: two different dump orders and chromosome-to-worker splits of the same groups -/
example : groupsHeader [["b", "a"], ["c", "a"]] id = ["a", "b", "c"] ∧
    groupsHeader [["a", "c"], [], ["b"]] List.reverse = ["a", "b", "c"] := by decide

/-- `select_reference_gene`: the count dict is filled while iterating sets of gene ids (its insertion order follows
    the hash order), then sorted by `(count, gene id)` descending — a total order on the items.  Whatever the
    iteration order of every `intron_genes[intron]` (any permutation of the visited ids), the same gene is chosen. -/
theorem hash_independent_reference_gene (iter iter' : List (List String)) (strandOk : String → Bool)
    (h : iter.flatten.Perm iter'.flatten) :
    selectReferenceGene iter strandOk = selectReferenceGene iter' strandOk := by
  unfold selectReferenceGene
  rw [isort_eq_of_perm refGeneBefore refGeneBefore_trans refGeneBefore_total refGeneBefore_antisymm (geneCounts_perm h)]

/-- non-vacuity: two iteration orders of the same sets -/
example : [["Gb", "Ga"], ["Ga", "Gb"], ["Gc"]].flatten.Perm [["Ga", "Gb"], ["Gb", "Ga"], ["Gc"]].flatten ∧
    selectReferenceGene [["Gb", "Ga"], ["Ga", "Gb"], ["Gc"]] (fun _ => true) = some "Gb" := by decide

/-- with the gene id dropped from the sort key (count only, stable sort) a tie is settled by the dict order, i.e. by
    the iteration order of the set -/
theorem reference_gene_buggy_witness :
    [["Ga", "Gb"]].flatten.Perm [["Gb", "Ga"]].flatten ∧
    selectReferenceGeneBuggy [["Ga", "Gb"]] (fun _ => true) ≠ selectReferenceGeneBuggy [["Gb", "Ga"]] (fun _ => true) := by
  decide

end IsoVerif.Props.C06
