/-
C11 — translation and reflection equivariance: the straight-line interval primitives.

Every theorem here is about a *generated* definition (IsoVerif/Gen/Prims.lean, re-translated from
/repo/src/common.py on every run) and holds for ALL intervals (no well-formedness needed unless stated),
ALL shifts `k : Int` and ALL chromosome lengths `L : Int`.

  shift_equivariant_X :  X (shift k a) (shift k b) = shift k (X a b)     (interval-valued X)
                                                  = X a b               (Bool / length-valued X)
  mirror_dual_X       :  X (mirror L a) (mirror L b) = the mirror image named in the statement
                         (self-dual, or the left/right partner: covers_start ↔ covers_end,
                          left_of a b ↔ left_of (mirror b) (mirror a), cmp x y ↔ cmp y x)

`overlaps_at_least` / `overlaps_at_least_when_overlap` are self-dual like the others since the repair of audit2-C G7
("containment first"); their PRE-FIX bodies (`overlapsAtLeastBuggy`, `overlapsAtLeastWhenOverlapBuggy`) were not
mirror-symmetric on ties: the exact failing class is `EndTie`, proved in both directions (`…Buggy_mirror_iff`), with the
`_witness` and the `_partial` form, and the fix is characterised exactly (`…_fix_exact`).
-/
import IsoVerif.Gen.Prims
import IsoVerif.Gen.EventClasses
import IsoVerif.Model.C11Symmetry

namespace IsoVerif.Props.C11
open IsoVerif.Gen IsoVerif.Model IsoVerif.Model.C11

/-- unfold the generated primitives and the transformations, then decide the linear-arithmetic /
    propositional residue (robust to harmless re-orderings of the generated code) -/
macro "c11_prim_tac" : tactic => `(tactic|
  (simp only [cmp, overlaps, overlap_intervals, overlaps_at_least, overlaps_at_least_when_overlap, intersection_len,
      left_of, equal_ranges, covers_end, covers_start, contains, contains_well_inside, contains_approx, max_range,
      interval_len, iabs, shiftIv, mirrorIv, mirrorP]
   grind))

/-! ### the transformations are group actions (so "shift back" / "mirror back" are again instances) -/

theorem shiftIv_zero (a : Iv) : shiftIv 0 a = a := by simp [shiftIv]
theorem shiftIv_add (j k : Int) (a : Iv) : shiftIv j (shiftIv k a) = shiftIv (k + j) a := by
  simp [shiftIv]; omega
theorem mirrorIv_involutive (L : Int) (a : Iv) : mirrorIv L (mirrorIv L a) = a := by
  simp only [mirrorIv]; ext <;> simp <;> omega
theorem mirrorP_involutive (L p : Int) : mirrorP L (mirrorP L p) = p := by
  simp only [mirrorP]; omega
/-- mirroring commutes with shifting (chromosome length grows by k) -/
theorem mirror_shift_commute (L k : Int) (a : Iv) :
    mirrorIv (L + k) (shiftIv k a) = mirrorIv L a := by
  simp only [mirrorIv, shiftIv]; ext <;> simp <;> omega
theorem mirror_preserves_wf (L : Int) (a : Iv) : (mirrorIv L a).1 ≤ (mirrorIv L a).2 ↔ a.1 ≤ a.2 := by
  simp only [mirrorIv]; omega
theorem shift_preserves_wf (k : Int) (a : Iv) : (shiftIv k a).1 ≤ (shiftIv k a).2 ↔ a.1 ≤ a.2 := by
  simp only [shiftIv]; omega

/-! ### translation -/

theorem shift_equivariant_cmp (k x y : Int) : cmp (x + k) (y + k) = cmp x y := by
  c11_prim_tac

theorem shift_equivariant_overlaps (k : Int) (a b : Iv) :
    overlaps (shiftIv k a) (shiftIv k b) = overlaps a b := by
  c11_prim_tac

theorem shift_equivariant_overlap_intervals (k : Int) (a b : Iv) :
    overlap_intervals (shiftIv k a) (shiftIv k b) = shiftIv k (overlap_intervals a b) := by
  c11_prim_tac

theorem shift_equivariant_overlaps_at_least (k : Int) (a b : Iv) (d : Int) :
    overlaps_at_least (shiftIv k a) (shiftIv k b) d = overlaps_at_least a b d := by
  c11_prim_tac

theorem shift_equivariant_overlaps_at_least_when_overlap (k : Int) (a b : Iv) (d : Int) :
    overlaps_at_least_when_overlap (shiftIv k a) (shiftIv k b) d = overlaps_at_least_when_overlap a b d := by
  c11_prim_tac

theorem shift_equivariant_intersection_len (k : Int) (a b : Iv) :
    intersection_len (shiftIv k a) (shiftIv k b) = intersection_len a b := by
  c11_prim_tac

theorem shift_equivariant_left_of (k : Int) (a b : Iv) :
    left_of (shiftIv k a) (shiftIv k b) = left_of a b := by
  c11_prim_tac

theorem shift_equivariant_equal_ranges (k : Int) (a b : Iv) (d : Int) :
    equal_ranges (shiftIv k a) (shiftIv k b) d = equal_ranges a b d := by
  c11_prim_tac

theorem shift_equivariant_covers_end (k : Int) (a b : Iv) :
    covers_end (shiftIv k a) (shiftIv k b) = covers_end a b := by
  c11_prim_tac

theorem shift_equivariant_covers_start (k : Int) (a b : Iv) :
    covers_start (shiftIv k a) (shiftIv k b) = covers_start a b := by
  c11_prim_tac

theorem shift_equivariant_contains (k : Int) (a b : Iv) :
    contains (shiftIv k a) (shiftIv k b) = contains a b := by
  c11_prim_tac

theorem shift_equivariant_contains_well_inside (k : Int) (a b : Iv) (d : Int) :
    contains_well_inside (shiftIv k a) (shiftIv k b) d = contains_well_inside a b d := by
  c11_prim_tac

theorem shift_equivariant_contains_approx (k : Int) (a b : Iv) (d : Int) :
    contains_approx (shiftIv k a) (shiftIv k b) d = contains_approx a b d := by
  c11_prim_tac

theorem shift_equivariant_max_range (k : Int) (a b : Iv) :
    max_range (shiftIv k a) (shiftIv k b) = shiftIv k (max_range a b) := by
  c11_prim_tac

theorem shift_equivariant_interval_len (k : Int) (a : Iv) : interval_len (shiftIv k a) = interval_len a := by
  c11_prim_tac

/-! ### reflection -/

/-- order comparison flips -/
theorem mirror_dual_cmp (L x y : Int) : cmp (mirrorP L x) (mirrorP L y) = cmp y x := by
  c11_prim_tac

theorem mirror_dual_overlaps (L : Int) (a b : Iv) :
    overlaps (mirrorIv L a) (mirrorIv L b) = overlaps a b := by
  c11_prim_tac

theorem mirror_dual_overlap_intervals (L : Int) (a b : Iv) :
    overlap_intervals (mirrorIv L a) (mirrorIv L b) = mirrorIv L (overlap_intervals a b) := by
  c11_prim_tac

theorem mirror_dual_intersection_len (L : Int) (a b : Iv) :
    intersection_len (mirrorIv L a) (mirrorIv L b) = intersection_len a b := by
  c11_prim_tac

/-- `left_of a b` becomes `left_of (mirror b) (mirror a)`: the order of the two arguments swaps -/
theorem mirror_dual_left_of (L : Int) (a b : Iv) :
    left_of (mirrorIv L b) (mirrorIv L a) = left_of a b := by
  c11_prim_tac

theorem mirror_dual_equal_ranges (L : Int) (a b : Iv) (d : Int) :
    equal_ranges (mirrorIv L a) (mirrorIv L b) d = equal_ranges a b d := by
  c11_prim_tac

/-- `covers_start` and `covers_end` are each other's mirror image -/
theorem mirror_dual_covers_start_end (L : Int) (a b : Iv) :
    covers_start (mirrorIv L a) (mirrorIv L b) = covers_end a b := by
  c11_prim_tac

theorem mirror_dual_covers_end_start (L : Int) (a b : Iv) :
    covers_end (mirrorIv L a) (mirrorIv L b) = covers_start a b := by
  c11_prim_tac

theorem mirror_dual_contains (L : Int) (a b : Iv) :
    contains (mirrorIv L a) (mirrorIv L b) = contains a b := by
  c11_prim_tac

theorem mirror_dual_contains_well_inside (L : Int) (a b : Iv) (d : Int) :
    contains_well_inside (mirrorIv L a) (mirrorIv L b) d = contains_well_inside a b d := by
  c11_prim_tac

theorem mirror_dual_contains_approx (L : Int) (a b : Iv) (d : Int) :
    contains_approx (mirrorIv L a) (mirrorIv L b) d = contains_approx a b d := by
  c11_prim_tac

theorem mirror_dual_max_range (L : Int) (a b : Iv) :
    max_range (mirrorIv L a) (mirrorIv L b) = mirrorIv L (max_range a b) := by
  c11_prim_tac

theorem mirror_dual_interval_len (L : Int) (a : Iv) : interval_len (mirrorIv L a) = interval_len a := by
  c11_prim_tac

/-! ### the two overlap tests are self-dual (since the repair of audit2-C G7); the pre-fix bodies were not

Before the fix a range INSIDE the other one that shared only its RIGHT end was sent to the partial-overlap branch
(`range1[1] < range2[1]` is strict) while its mirror image, sharing the LEFT end, counted as contained.  A noise-free
read truncated inside a terminal exon so that its terminal block keeps fewer than `minimal_exon_overlap` bases is such
an input (block inside a split exon, ending at the splice site): `A_t1 unique` vs `ambiguous` for the mirror image.
The fix tests containment first.  The generated definitions (Gen/Prims.lean) are the FIXED ones; the pre-fix bodies are
`overlapsAtLeastBuggy` / `overlapsAtLeastWhenOverlapBuggy` (Model/C11Symmetry.lean). -/

/-- full strength, ALL intervals (well formed or not), all thresholds, all L -/
theorem mirror_dual_overlaps_at_least (L : Int) (a b : Iv) (d : Int) :
    overlaps_at_least (mirrorIv L a) (mirrorIv L b) d = overlaps_at_least a b d := by
  c11_prim_tac

theorem mirror_dual_overlaps_at_least_when_overlap (L : Int) (a b : Iv) (d : Int) :
    overlaps_at_least_when_overlap (mirrorIv L a) (mirrorIv L b) d = overlaps_at_least_when_overlap a b d := by
  c11_prim_tac

/-- the statements in the form the pre-fix witnesses negate -/
def OverlapsAtLeastMirror (f : Iv → Iv → Int → Bool) : Prop :=
  ∀ (L : Int) (a b : Iv) (d : Int), a.1 ≤ a.2 → b.1 ≤ b.2 → f (mirrorIv L a) (mirrorIv L b) d = f a b d

theorem overlaps_at_least_mirror : OverlapsAtLeastMirror overlaps_at_least :=
  fun L a b d _ _ => mirror_dual_overlaps_at_least L a b d
theorem overlaps_at_least_when_overlap_mirror : OverlapsAtLeastMirror overlaps_at_least_when_overlap :=
  fun L a b d _ _ => mirror_dual_overlaps_at_least_when_overlap L a b d

-- the former tie inputs are positive instances on both sides now (non-degenerate: the answer is `true` although the
-- shared part, 5 positions, is shorter than the threshold 10)
example : overlaps_at_least (1, 5) (1, 9) 10 = true ∧ overlaps_at_least (mirrorIv 9 (1, 5)) (mirrorIv 9 (1, 9)) 10 = true ∧
    overlaps_at_least_when_overlap (3002, 3005) (3002, 3225) 5 = true ∧
    overlaps_at_least_when_overlap (mirrorIv 9000 (3002, 3005)) (mirrorIv 9000 (3002, 3225)) 5 = true ∧
    overlaps_at_least (3, 20) (1, 9) 5 = true ∧ overlaps_at_least (3, 20) (1, 9) 8 = false := by decide

/-- `a` and `b` share exactly one end, `a` is the shorter one and is shorter than the threshold `d`:
    the class on which the PRE-FIX tests treated the left and the right end differently -/
def EndTie (a b : Iv) (d : Int) : Prop :=
  ((a.1 = b.1 ∧ a.2 < b.2) ∨ (a.2 = b.2 ∧ b.1 < a.1)) ∧ a.2 - a.1 + 1 < d

instance (a b : Iv) (d : Int) : Decidable (EndTie a b d) := by unfold EndTie; infer_instance

/-- `a` lies inside `b`, shares only its RIGHT end with it and is shorter than `d`: where the fix changes the answer -/
def RightTie (a b : Iv) (d : Int) : Prop := a.2 = b.2 ∧ b.1 < a.1 ∧ a.2 - a.1 + 1 < d

instance (a b : Iv) (d : Int) : Decidable (RightTie a b d) := by unfold RightTie; infer_instance

/-- the fix is local: for well-formed intervals the repaired test differs from the pre-fix one exactly on `RightTie`,
    where it now answers `true` (like the mirror image always did) -/
theorem overlaps_at_least_fix_exact (a b : Iv) (d : Int) (ha : a.1 ≤ a.2) (hb : b.1 ≤ b.2) :
    overlaps_at_least a b d = (overlapsAtLeastBuggy a b d || decide (RightTie a b d)) := by
  rw [Bool.eq_iff_iff]
  simp only [overlaps_at_least, overlapsAtLeastBuggy, RightTie]; grind

theorem overlaps_at_least_when_overlap_fix_exact (a b : Iv) (d : Int) :
    overlaps_at_least_when_overlap a b d = (overlapsAtLeastWhenOverlapBuggy a b d || decide (RightTie a b d)) := by
  rw [Bool.eq_iff_iff]
  simp only [overlaps_at_least_when_overlap, overlapsAtLeastWhenOverlapBuggy, RightTie]; grind

example : RightTie (3002, 3005) (2125, 3005) 5 ∧ overlapsAtLeastWhenOverlapBuggy (3002, 3005) (2125, 3005) 5 = false ∧
    overlaps_at_least_when_overlap (3002, 3005) (2125, 3005) 5 = true := by decide

/-- exact characterisation of the PRE-FIX test: mirror-symmetric iff there is no end tie -/
theorem overlapsAtLeastBuggy_mirror_iff (L : Int) (a b : Iv) (d : Int) (ha : a.1 ≤ a.2) (hb : b.1 ≤ b.2) :
    overlapsAtLeastBuggy (mirrorIv L a) (mirrorIv L b) d = overlapsAtLeastBuggy a b d ↔ ¬ EndTie a b d := by
  rw [Bool.eq_iff_iff]
  simp only [overlapsAtLeastBuggy, mirrorIv, EndTie]; grind

theorem overlapsAtLeastBuggy_mirror_partial (L : Int) (a b : Iv) (d : Int) (ha : a.1 ≤ a.2) (hb : b.1 ≤ b.2)
    (h : ¬ EndTie a b d) :
    overlapsAtLeastBuggy (mirrorIv L a) (mirrorIv L b) d = overlapsAtLeastBuggy a b d :=
  (overlapsAtLeastBuggy_mirror_iff L a b d ha hb).mpr h

/-- regression witness of the fixed defect: a read span (1,5) inside an intron (1,9) sharing its LEFT end counted as
    "overlapping by at least 10", its mirror image (5,9) sharing the RIGHT end did not (L = 9 maps one onto the other) -/
theorem overlapsAtLeastBuggy_mirror_witness : ¬ OverlapsAtLeastMirror overlapsAtLeastBuggy := by
  intro h
  have := h 9 (1, 5) (1, 9) 10 (by decide) (by decide)
  revert this; decide

-- non-vacuity of the partial form: a non-tied pair that satisfies the hypotheses and is a positive instance
example : ¬ EndTie (3, 20) (1, 9) 5 ∧ overlapsAtLeastBuggy (3, 20) (1, 9) 5 = true ∧
    overlapsAtLeastBuggy (mirrorIv 30 (3, 20)) (mirrorIv 30 (1, 9)) 5 = true := by decide

theorem overlapsAtLeastWhenOverlapBuggy_mirror_iff (L : Int) (a b : Iv) (d : Int) :
    overlapsAtLeastWhenOverlapBuggy (mirrorIv L a) (mirrorIv L b) d = overlapsAtLeastWhenOverlapBuggy a b d
      ↔ ¬ EndTie a b d := by
  rw [Bool.eq_iff_iff]
  simp only [overlapsAtLeastWhenOverlapBuggy, mirrorIv, EndTie]; grind

theorem overlapsAtLeastWhenOverlapBuggy_mirror_partial (L : Int) (a b : Iv) (d : Int) (h : ¬ EndTie a b d) :
    overlapsAtLeastWhenOverlapBuggy (mirrorIv L a) (mirrorIv L b) d = overlapsAtLeastWhenOverlapBuggy a b d :=
  (overlapsAtLeastWhenOverlapBuggy_mirror_iff L a b d).mpr h

/-- the noise-free read of the audit: terminal block (3002,3005) of a 3'-truncated read inside the split exon
    (3002,3225), threshold `minimal_exon_overlap` = 5 -- present; its mirror image (L = 9000) -- absent -/
theorem overlapsAtLeastWhenOverlapBuggy_mirror_witness : ¬ OverlapsAtLeastMirror overlapsAtLeastWhenOverlapBuggy := by
  intro h
  have := h 9000 (3002, 3005) (3002, 3225) 5 (by decide) (by decide)
  revert this; decide

example : ¬ EndTie (3, 20) (1, 9) 5 ∧ overlapsAtLeastWhenOverlapBuggy (3, 20) (1, 9) 5 = true := by decide

/-! ### left/right event names: every table that decides on event types is closed under the swap

`swapLR` (Model/C11Symmetry.lean) pairs `X_left…` with `X_right…`; its agreement with the member NAMES of the
Python enum is checked through the driver on every run.  The tables below are *generated* from
src/isoform_assignment.py, so an edit that puts only one side of a pair into a set, or gives the two sides
different costs, re-opens exactly these obligations (each is a `decide` over the whole enum). -/

theorem swapLR_involutive (e : MatchEventSubtype) : swapLR (swapLR e) = e := by
  cases e <;> rfl

theorem mirror_dual_is_consistent (e : MatchEventSubtype) : (swapLR e).is_consistent = e.is_consistent := by
  cases e <;> decide
theorem mirror_dual_is_minor_error (e : MatchEventSubtype) : (swapLR e).is_minor_error = e.is_minor_error := by
  cases e <;> decide
theorem mirror_dual_is_alignment_artifact (e : MatchEventSubtype) :
    (swapLR e).is_alignment_artifact = e.is_alignment_artifact := by
  cases e <;> decide
theorem mirror_dual_is_major_elongation (e : MatchEventSubtype) :
    (swapLR e).is_major_elongation = e.is_major_elongation := by
  cases e <;> decide
theorem mirror_dual_is_minor_elongation (e : MatchEventSubtype) :
    (swapLR e).is_minor_elongation = e.is_minor_elongation := by
  cases e <;> decide
theorem mirror_dual_is_major_inconsistency (e : MatchEventSubtype) :
    (swapLR e).is_major_inconsistency = e.is_major_inconsistency := by
  cases e <;> decide
theorem mirror_dual_is_intronic_inconsistency (e : MatchEventSubtype) :
    (swapLR e).is_intronic_inconsistency = e.is_intronic_inconsistency := by
  cases e <;> decide
/-- both sides of a pair cost the same (so the penalty of a mirrored event list is the penalty of the original) -/
theorem mirror_dual_event_cost (e : MatchEventSubtype) :
    event_cost_hundredths (swapLR e) = event_cost_hundredths e := by
  cases e <;> decide
/-- the swap is not the identity: the sided members really move (non-vacuity of the table theorems) -/
example : swapLR .exon_elongation_left = .exon_elongation_right ∧ swapLR .fsm = .fsm ∧
    MatchEventSubtype.is_minor_error .exon_elongation_left = true := by decide

end IsoVerif.Props.C11
