/-
C11 — translation / reflection equivariance of the CIGAR walk (Model/Cigar.lean, property C16's model of
`get_read_blocks`, `correct_bam_coords`, `concat_gapless_blocks`, pysam's `get_blocks` / `reference_end`).

  translation : an alignment record whose `reference_start` is moved by k has its exons moved by k; the read-coordinate
                blocks and the CIGAR-index blocks do not change.
  reflection  : the reverse-complemented read aligned to the reverse-complemented chromosome of length L has the
                reversed CIGAR and starts at `L − s − refLen ops` (0-based); its exons are the mirror images of the
                exons (reversed order), its read blocks the mirror images in read coordinates (read length Q:
                `(a, b) ↦ (Q−1−b, Q−1−a)`, i.e. `mirrorL (Q − 2)`).

`get_read_blocks` tests `if current_ref_block_start:` by truthiness, so a block starting at reference coordinate 0 is
lost: the theorems about the loop need `0 ≤ reference_start` before and after the transformation (BAM positions are
≥ 0); `shift_truthiness_witness` shows the hypothesis is needed.  The specification (`exonsSpec`) is equivariant
without any hypothesis.
-/
import IsoVerif.Model.Cigar
import IsoVerif.Model.C11Symmetry
import IsoVerif.Lemmas.Cigar
import IsoVerif.Lemmas.C11Cigar
import IsoVerif.Props.C16

namespace IsoVerif.Props.C11Cigar
open IsoVerif.Gen IsoVerif.Model IsoVerif.Model.C11 IsoVerif.Model.C16 IsoVerif.Lemmas.C16 IsoVerif.Lemmas.C11
open IsoVerif.Props.C16

/-! ### translation -/

/-- the SAM-semantics exons move with the reference start (ALL CIGARs, all starts, all k) -/
theorem shift_equivariant_exonsSpec (s k : Int) (ops : List CigarOp) :
    exonsSpec (s + k) ops = shiftL k (exonsSpec s ops) := by
  rw [exonsSpec_eq_gen, exonsSpec_eq_gen]; exact genSpec_shift refLen s k ops

/-- **shift_equivariant_getReadBlocks** — `get_read_blocks(s + k, cigar)`: exons shifted by k, read blocks and
    CIGAR blocks unchanged, for every CIGAR with non-negative lengths and `0 ≤ s`, `0 ≤ s + k` -/
theorem shift_equivariant_getReadBlocks (s k : Int) (ops : List CigarOp) (hs : 0 ≤ s) (hsk : 0 ≤ s + k)
    (hn : NonNeg ops) :
    (getReadBlocks (s + k) ops).refBlocks = shiftL k (getReadBlocks s ops).refBlocks ∧
    (getReadBlocks (s + k) ops).readBlocks = (getReadBlocks s ops).readBlocks ∧
    (getReadBlocks (s + k) ops).cigarBlocks = (getReadBlocks s ops).cigarBlocks := by
  refine ⟨?_, ?_, ?_⟩
  · rw [read_blocks_spec _ _ hsk hn, read_blocks_spec _ _ hs hn]; exact shift_equivariant_exonsSpec s k ops
  · rw [read_blocks_query_spec _ _ hsk hn, read_blocks_query_spec _ _ hs hn]
  · rw [cigar_blocks_spec _ _ hsk hn, cigar_blocks_spec _ _ hs hn]

/-- non-vacuity: a spliced CIGAR with clips and indels, shifted by 256 -/
example : (getReadBlocks (99 + 256) [(.soft_clipping, 2), (.«match», 5), (.insertion, 2), (.skipped, 10), (.deletion, 1),
    (.seq_match, 3), (.soft_clipping, 4)]).refBlocks = shiftL 256 [(100, 104), (115, 118)] := by decide

/-- **shift_truthiness_witness** — without `0 ≤ s + k` the statement is false: shifting a record from
    `reference_start = 0` to `-1` loses every exon (the block start 0 is falsy) -/
theorem shift_truthiness_witness :
    (getReadBlocks 0 [(.«match», 5), (.skipped, 3), (.«match», 2)]).refBlocks = [(1, 5), (9, 10)] ∧
    (getReadBlocks (0 + (-1)) [(.«match», 5), (.skipped, 3), (.«match», 2)]).refBlocks = [] := by decide

theorem shift_equivariant_correctBamCoords (k : Int) (l : List Iv) :
    correctBamCoords (shiftL k l) = shiftL k (correctBamCoords l) := by
  simp only [correctBamCoords, shiftL, List.map_map]
  congr 1; funext x; simp only [Function.comp, shiftIv]; ext <;> simp <;> omega

/-- pysam's `get_blocks()` of the shifted record -/
theorem shift_equivariant_alignedBlocks (s k : Int) (ops : List CigarOp) :
    alignedBlocks (s + k) ops = shiftL k (alignedBlocks s ops) := by
  unfold alignedBlocks
  induction ops generalizing s with
  | nil => rfl
  | cons op rest ih =>
    simp only [alignedBlocksAux]
    split
    · have e : s + k + op.2 = (s + op.2) + k := by omega
      rw [e, ih, shiftL_cons]; simp only [shiftIv]
    · split
      · have e : s + k + op.2 = (s + op.2) + k := by omega
        rw [e, ih]
      · exact ih s

theorem shift_equivariant_referenceEnd (s k : Int) (ops : List CigarOp) :
    referenceEnd (s + k) ops = referenceEnd s ops + k := by
  simp only [referenceEnd]; split <;> omega

/-- `concat_gapless_blocks` on the shifted pysam blocks -/
theorem shift_equivariant_concatGaplessBlocks (k : Int) (blocks : List Iv) (ops : List CigarOp) :
    concatGaplessBlocks (shiftL k blocks) ops = shiftL k (concatGaplessBlocks blocks ops) := by
  have aux : ∀ (ops : List CigarOp) (cur : Option Iv) (d : Int) (res bs : List Iv),
      concatGaplessAux (cur.map (shiftIv k)) d (shiftL k res) ops (shiftL k bs) =
        ((concatGaplessAux cur d res ops bs).1 |> shiftL k, (concatGaplessAux cur d res ops bs).2.map (shiftIv k)) := by
    intro ops
    induction ops with
    | nil => intro cur d res bs; simp [concatGaplessAux]
    | cons op ops ih =>
      intro cur d res bs
      cases bs with
      | nil => simp [concatGaplessAux, shiftL_nil]
      | cons b bs =>
        cases cur with
        | none =>
          simp only [Option.map_none, shiftL_cons, concatGaplessAux]
          split
          · have := ih (some (b.1 - d, b.2)) 0 res bs
            simp only [Option.map_some, shiftIv] at this
            simp only [shiftIv_fst, shiftIv_snd]
            have e : b.1 + k - d = b.1 - d + k := by omega
            rw [e]; exact this
          · split
            · have := ih none op.2 res (b :: bs)
              simpa [shiftL_cons] using this
            · have := ih none d res (b :: bs)
              simpa [shiftL_cons] using this
        | some c =>
          simp only [Option.map_some, shiftL_cons, concatGaplessAux]
          split
          · have := ih none d (res ++ [c]) (b :: bs)
            simpa [shiftL_cons, shiftL_append, shiftL] using this
          · split
            · have := ih (some (c.1, c.2 + op.2)) d res (b :: bs)
              simp only [Option.map_some, shiftIv, shiftL_cons] at this
              simp only [shiftIv_fst, shiftIv_snd]
              have e : c.2 + k + op.2 = c.2 + op.2 + k := by omega
              rw [e]; exact this
            · split
              · have := ih (some (c.1, b.2)) d res bs
                simp only [Option.map_some, shiftIv] at this
                simp only [shiftIv_fst, shiftIv_snd]; exact this
              · have := ih (some c) d res (b :: bs)
                simpa [shiftL_cons] using this
  have h := aux ops none 0 [] blocks
  simp only [Option.map_none, shiftL_nil] at h
  unfold concatGaplessBlocks
  rw [h]
  cases h2 : concatGaplessAux none 0 [] ops blocks with
  | mk res cur =>
    cases cur with
    | none => simp
    | some c => simp [shiftL_append, shiftL]

/-! ### reflection -/

/-- the exons of the reversed CIGAR from the mirrored start are the mirrored exons (ALL CIGARs, no hypothesis) -/
theorem mirror_dual_exonsSpec (L s : Int) (ops : List CigarOp) :
    exonsSpec (L - s - refLen ops) ops.reverse = mirrorL L (exonsSpec s ops) := by
  rw [exonsSpec_eq_gen, exonsSpec_eq_gen]; exact genSpec_reverse refLen lenFn_refLen L s ops

/-- the read blocks of the reversed CIGAR are the read blocks mirrored within the read (length `queryLen ops`) -/
theorem mirror_dual_queryBlocksSpec (ops : List CigarOp) :
    queryBlocksSpec ops.reverse = mirrorL (queryLen ops - 2) (queryBlocksSpec ops) := by
  rw [queryBlocksSpec_eq_gen, queryBlocksSpec_eq_gen]
  have h := genSpec_reverse queryLen lenFn_queryLen (queryLen ops - 2) (-1) ops
  have e : queryLen ops - 2 - -1 - queryLen ops = -1 := by omega
  rw [e] at h; exact h

/-- **mirror_dual_getReadBlocks** — `get_read_blocks` of the reversed CIGAR from the mirrored start: mirrored exons in
    reversed order, read blocks mirrored within the read; for CIGARs with non-negative lengths and non-negative starts
    on both strands -/
theorem mirror_dual_getReadBlocks (L s : Int) (ops : List CigarOp) (hs : 0 ≤ s) (hm : 0 ≤ L - s - refLen ops)
    (hn : NonNeg ops) :
    (getReadBlocks (L - s - refLen ops) ops.reverse).refBlocks = mirrorL L (getReadBlocks s ops).refBlocks ∧
    (getReadBlocks (L - s - refLen ops) ops.reverse).readBlocks =
      mirrorL (queryLen ops - 2) (getReadBlocks s ops).readBlocks := by
  have hr := NonNeg_reverse hn
  refine ⟨?_, ?_⟩
  · rw [read_blocks_spec _ _ hm hr, read_blocks_spec _ _ hs hn]; exact mirror_dual_exonsSpec L s ops
  · rw [read_blocks_query_spec _ _ hm hr, read_blocks_query_spec _ _ hs hn]; exact mirror_dual_queryBlocksSpec ops

/-- non-vacuity: chromosome length 1000, read `2S 5M 2I 10N 1D 3= 4S` at 0-based start 99 (reference span 100–118) -/
example : (0 : Int) ≤ 99 ∧ (0 : Int) ≤ 1000 - 99 - refLen [(.soft_clipping, 2), (.«match», 5), (.insertion, 2), (.skipped, 10),
    (.deletion, 1), (.seq_match, 3), (.soft_clipping, 4)] := by decide

example : (getReadBlocks (1000 - 99 - 19) [(.soft_clipping, 4), (.seq_match, 3), (.deletion, 1), (.skipped, 10),
    (.insertion, 2), (.«match», 5), (.soft_clipping, 2)]).refBlocks = mirrorL 1000 [(100, 104), (115, 118)] := by decide

/-- **cigar_blocks_reverse_witness** — the CIGAR-index blocks are NOT mirror images: a block runs from the first
    `M/=/X/I/D` operation of its segment to the segment's LAST operation (a trailing `P`/`H` is included, a leading one is
    not).  `1M 1P 3N 1M` has blocks (0,1),(3,3); the reversed CIGAR has (0,0),(3,3), not the mirrored (0,0),(2,3). -/
theorem cigar_blocks_reverse_witness :
    (getReadBlocks 10 [(.«match», 1), (.padding, 1), (.skipped, 3), (.«match», 1)]).cigarBlocks = [(0, 1), (3, 3)] ∧
    (getReadBlocks 10 [(.«match», 1), (.skipped, 3), (.padding, 1), (.«match», 1)]).cigarBlocks = [(0, 0), (3, 3)] ∧
    mirrorL 2 [(0, 1), (3, 3)] = [(0, 0), (2, 3)] := by decide

end IsoVerif.Props.C11Cigar
