/-
C09 — grouper side (src/read_groups.py): each read gets exactly the documented group, `NA` when it has none;
what a grouper returns is a string and is recorded in `read_groups`, so the universe handed to the counters
contains the group of every read.
-/
import IsoVerif.Model.C09
import IsoVerif.Lemmas.C09
import IsoVerif.Lemmas.C09Split

namespace IsoVerif.Props.C09Groupers
open IsoVerif.Gen IsoVerif.Model.C09 IsoVerif.Lemmas.C09 IsoVerif.Lemmas.C09Split

/-! ### `str.split` -/

/-- **str.split, as used by `read_id:DELIM`**: for a non-empty delimiter the pieces joined by the delimiter are the
    string; there is one piece iff the delimiter does not occur; otherwise the string is `p ++ delim ++ last` and the
    last piece does not contain the delimiter -/
theorem pySplit_spec (d s : List Char) (hd : d ≠ []) :
    ∃ ps, pySplit d s = .ok ps ∧ ps ≠ [] ∧ joinWith d ps = s ∧
      (ps.length = 1 ↔ ¬ d <:+: s) ∧
      (∀ l, ps.getLast? = some l → ¬ d <:+: l ∧ (d <:+: s → ∃ p, s = p ++ d ++ l)) := by
  obtain ⟨d0, dt, rfl⟩ := List.exists_cons_of_ne_nil hd
  refine ⟨(splitGo d0 dt s).1 :: (splitGo d0 dt s).2, rfl, by simp, splitGo_join d0 dt s, ?_, ?_⟩
  · rw [← splitGo_single_iff]; simp
  · intro l hl
    rw [List.getLast?_eq_some_getLast (by simp)] at hl
    injection hl with hl
    refine ⟨by rw [← hl]; exact splitGo_last d0 dt s, ?_⟩
    intro hin
    have h2 : (splitGo d0 dt s).2 ≠ [] := fun e => ((splitGo_single_iff d0 dt s).mp e) hin
    have hj := splitGo_join d0 dt s
    -- s = joinWith (init) ++ d ++ last
    have key : ∀ (a : List Char) (rest : List (List Char)) (hne : rest ≠ []),
        ∃ p, joinWith (d0 :: dt) (a :: rest) = p ++ (d0 :: dt) ++ (a :: rest).getLast (by simp) := by
      intro a rest
      induction rest generalizing a with
      | nil => intro hne; exact absurd rfl hne
      | cons b r ih =>
        intro _
        by_cases hr : r = []
        · subst hr; exact ⟨a, by simp [joinWith]⟩
        · obtain ⟨p, hp⟩ := ih b hr
          refine ⟨a ++ (d0 :: dt) ++ p, ?_⟩
          simp only [joinWith]
          rw [List.getLast_cons (List.cons_ne_nil b r), hp]
          simp [List.append_assoc]
    obtain ⟨p, hp⟩ := key _ _ h2
    exact ⟨p, by rw [← hj, hp, hl]⟩

/-! ### group_of_read: the four groupers return the documented group -/

/-- `tag:TAG` — the value of the tag (printed with `str`) when the read carries it, `NA` when it does not;
    in both cases the returned string is also added to `read_groups` -/
theorem tag_group_of_read (t : String) (a : Aln) :
    ((∀ v, (t, v) ∉ a.tags) → getGroupId (.tag t) a = .ok (GRes.both NA)) ∧
    (∀ pre v post, a.tags = pre ++ (t, v) :: post → (∀ v', (t, v') ∉ pre) →
      getGroupId (.tag t) a = .ok (GRes.both v.render)) := by
  constructor
  · intro h
    simp [getGroupId, (lookup_none_iff a.tags t).mpr h]
  · intro pre v post he hpre
    simp [getGroupId, he, lookup_first pre post t v hpre]

/-- `file:TABLE` — the table entry of the read id, `NA` for a read that has no row -/
theorem table_group_of_read (m : List (String × String)) (a : Aln) :
    ((∀ g, (a.name, g) ∉ m) → getGroupId (.table m) a = .ok (GRes.both NA)) ∧
    (∀ pre g post, m = pre ++ (a.name, g) :: post → (∀ g', (a.name, g') ∉ pre) →
      getGroupId (.table m) a = .ok (GRes.both g)) := by
  constructor
  · intro h
    simp [getGroupId, (lookup_none_iff m a.name).mpr h]
  · intro pre g post he hpre
    simp [getGroupId, he, lookup_first pre post a.name g hpre]

/-- `file_name` — the label of the file the read came from; the file name itself when it has no label;
    `NA` when there is no file name -/
theorem filename_group_of_read (names : List (String × String)) (a : Aln) :
    (a.file = none → getGroupId (.fileName names) a = .ok (GRes.both NA)) ∧
    (∀ f pre label post, a.file = some f → names = pre ++ (f, label) :: post → (∀ l', (f, l') ∉ pre) →
      getGroupId (.fileName names) a = .ok (GRes.both label)) ∧
    (∀ f, a.file = some f → (∀ l, (f, l) ∉ names) →
      getGroupId (.fileName names) a = .ok (GRes.both (if f = "" then NA else f))) := by
  refine ⟨?_, ?_, ?_⟩
  · intro h; simp [getGroupId, h]
  · intro f pre label post hf he hpre
    simp [getGroupId, hf, he, lookup_first pre post f label hpre]
  · intro f hf hn
    simp only [getGroupId, hf, (lookup_none_iff names f).mpr hn]
    split <;> rfl

/-- `read_id:DELIM` — with a non-empty delimiter: `NA` when the delimiter does not occur in the read id; otherwise
    the returned group `g` is a suffix of the read id that follows an occurrence of the delimiter and contains no
    further occurrence (`read id = p ++ DELIM ++ g`) -/
theorem readid_group_of_read (delim : String) (a : Aln) (hd : delim.toList ≠ []) :
    ∃ g, getGroupId (.readId delim) a = .ok (GRes.both g) ∧
      (¬ delim.toList <:+: a.name.toList → g = NA) ∧
      (delim.toList <:+: a.name.toList →
        (∃ p, a.name.toList = p ++ delim.toList ++ g.toList) ∧ ¬ delim.toList <:+: g.toList) := by
  obtain ⟨ps, hps, hne, _, hone, hlast⟩ := pySplit_spec delim.toList a.name.toList hd
  by_cases hin : delim.toList <:+: a.name.toList
  · have hlen : ¬ ps.length = 1 := fun e => (hone.mp e) hin
    obtain ⟨l, hl⟩ : ∃ l, ps.getLast? = some l := ⟨ps.getLast hne, List.getLast?_eq_some_getLast hne⟩
    refine ⟨String.ofList l, by simp [getGroupId, hps, hlen, hl], fun h => absurd hin h, ?_⟩
    intro _
    obtain ⟨h1, h2⟩ := hlast l hl
    simp only [String.toList_ofList]
    exact ⟨h2 hin, h1⟩
  · have hlen : ps.length = 1 := hone.mpr hin
    exact ⟨NA, by simp [getGroupId, hps, hlen], fun _ => rfl, fun h => absurd h hin⟩

/-- for a single-character delimiter (the documented use: `read_id:_`) the group is *the* suffix after the last
    occurrence of the delimiter: any decomposition `read id = p ++ [c] ++ g` with `c ∉ g` has `g` = the returned group -/
theorem readid_single_char (delim : String) (c : Char) (a : Aln) (hd : delim.toList = [c]) (p g : List Char)
    (hname : a.name.toList = p ++ [c] ++ g) (hg : c ∉ g) :
    getGroupId (.readId delim) a = .ok (GRes.both (String.ofList g)) := by
  obtain ⟨g0, hg0, _, hsome⟩ := readid_group_of_read delim a (by rw [hd]; simp)
  have hin : delim.toList <:+: a.name.toList := ⟨p, g, by rw [hd, hname]⟩
  obtain ⟨⟨p0, hp0⟩, hno⟩ := hsome hin
  rw [hd] at hp0 hno
  have hc0 : c ∉ g0.toList := by
    intro hm
    obtain ⟨u, v, huv⟩ := List.append_of_mem hm
    exact hno ⟨u, v, by rw [huv]; simp⟩
  have : g = g0.toList := by
    apply suffix_after_last_unique c p p0 g g0.toList _ hg hc0
    rw [hname] at hp0
    simpa [List.append_assoc] using hp0
  rw [hg0, this, String.ofList_toList]

/-! ### ungroupable_is_NA -/

/-- the read has no group under the grouper (missing tag / delimiter / table row / file name) -/
def Ungroupable : Grouper → Aln → Prop
  | .default, _ => True
  | .tag t, a => ∀ v, (t, v) ∉ a.tags
  | .readId d, a => d.toList ≠ [] ∧ ¬ d.toList <:+: a.name.toList
  | .table m, a => ∀ g, (a.name, g) ∉ m
  | .fileName names, a => a.file = none ∨ (a.file = some "" ∧ ∀ l, ("", l) ∉ names)

/-- **ungroupable_is_NA**: a read that cannot be grouped is reported under `NA` — a string, not `None`, no exception —
    and (for the four real groupers) `NA` is recorded in `read_groups` by that very call -/
theorem ungroupable_is_NA (g : Grouper) (a : Aln) (h : Ungroupable g a) :
    ∃ ad, getGroupId g a = .ok ⟨some NA, ad⟩ ∧ (g.initGroups = [] → ad = some NA) := by
  cases g with
  | default => exact ⟨none, rfl, by simp [Grouper.initGroups]⟩
  | tag t => exact ⟨some NA, (tag_group_of_read t a).1 h, fun _ => rfl⟩
  | readId d =>
    obtain ⟨g0, hg0, hna, _⟩ := readid_group_of_read d a h.1
    rw [hna h.2] at hg0
    exact ⟨some NA, hg0, fun _ => rfl⟩
  | table m => exact ⟨some NA, (table_group_of_read m a).1 h, fun _ => rfl⟩
  | fileName names =>
    rcases h with h | ⟨h1, h2⟩
    · exact ⟨some NA, (filename_group_of_read names a).1 h, fun _ => rfl⟩
    · have := (filename_group_of_read names a).2.2 "" h1 h2
      simp only [if_true] at this
      exact ⟨some NA, this, fun _ => rfl⟩

/-- a grouper is configured validly (`read_id:` with an empty delimiter is rejected by `str.split`) -/
def ValidGrouper : Grouper → Prop
  | .readId d => d.toList ≠ []
  | _ => True

/-- every call of a validly configured grouper returns a string, and that string is in `read_groups` afterwards
    (it is added by the call, or it is the `NA` of the default grouper's initial set) -/
theorem returned_group_recorded (g : Grouper) (hv : ValidGrouper g) (a : Aln) :
    ∃ x, (getGroupId g a = .ok (GRes.both x)) ∨ (g.initGroups = [NA] ∧ x = NA ∧ getGroupId g a = .ok ⟨some NA, none⟩) := by
  cases g with
  | default => exact ⟨NA, Or.inr ⟨rfl, rfl, rfl⟩⟩
  | tag t =>
    simp only [getGroupId]
    cases a.tags.lookup t with
    | none => exact ⟨NA, Or.inl rfl⟩
    | some v => exact ⟨v.render, Or.inl rfl⟩
  | readId d =>
    obtain ⟨g0, hg0, _⟩ := readid_group_of_read d a hv
    exact ⟨g0, Or.inl hg0⟩
  | table m =>
    simp only [getGroupId]
    cases m.lookup a.name with
    | none => exact ⟨NA, Or.inl rfl⟩
    | some v => exact ⟨v, Or.inl rfl⟩
  | fileName names =>
    simp only [getGroupId]
    cases a.file with
    | none => exact ⟨NA, Or.inl rfl⟩
    | some f =>
      simp only
      cases names.lookup f with
      | some l => exact ⟨l, Or.inl rfl⟩
      | none =>
        simp only
        split
        · exact ⟨NA, Or.inl rfl⟩
        · exact ⟨f, Or.inl rfl⟩

/-! ### the group universe -/

/-- one collector run (any alignments, any starting set): every returned value is a string that is in the final
    `read_groups`, and the final set holds nothing but the starting set and returned values -/
theorem runGrouper_spec (g : Grouper) (hv : ValidGrouper g) :
    ∀ (alns : List Aln) (S0 : List String), (g.initGroups = [NA] → NA ∈ S0) →
      ∃ rets S, runGrouper g alns S0 = .ok (rets, S) ∧ rets.length = alns.length ∧
        (∀ x ∈ S0, x ∈ S) ∧
        (∀ r ∈ rets, ∃ x, r = some x ∧ x ∈ S) ∧
        (∀ x ∈ S, x ∈ S0 ∨ some x ∈ rets)
  | [], S0, _ => ⟨[], S0, rfl, rfl, fun _ h => h, by simp, fun _ h => Or.inl h⟩
  | a :: as, S0, hna => by
    obtain ⟨x, hx⟩ := returned_group_recorded g hv a
    rcases hx with hx | ⟨hi, hxe, hx⟩
    · obtain ⟨rets, S, hr, hlen, hsub, hret, hback⟩ := runGrouper_spec g hv as (setInsert S0 x)
        (fun h => (mem_setInsert S0 x NA).mpr (Or.inl (hna h)))
      refine ⟨some x :: rets, S, by simp [runGrouper, hx, GRes.both, hr], by simp [hlen], ?_, ?_, ?_⟩
      · intro y hy; exact hsub y ((mem_setInsert S0 x y).mpr (Or.inl hy))
      · intro r hr'
        rcases List.mem_cons.mp hr' with e | e
        · exact ⟨x, e, hsub x ((mem_setInsert S0 x x).mpr (Or.inr rfl))⟩
        · exact hret r e
      · intro y hy
        rcases hback y hy with h | h
        · rcases (mem_setInsert S0 x y).mp h with h' | h'
          · exact Or.inl h'
          · right; rw [h']; exact List.mem_cons_self
        · exact Or.inr (List.mem_cons_of_mem _ h)
    · obtain ⟨rets, S, hr, hlen, hsub, hret, hback⟩ := runGrouper_spec g hv as S0 hna
      refine ⟨some NA :: rets, S, by simp [runGrouper, hx, hr], by simp [hlen], hsub, ?_, ?_⟩
      · intro r hr'
        rcases List.mem_cons.mp hr' with e | e
        · exact ⟨NA, e, hsub NA (hna hi)⟩
        · exact hret r e
      · intro y hy
        rcases hback y hy with h | h
        · exact Or.inl h
        · exact Or.inr (List.mem_cons_of_mem _ h)

/-- the universe handed to the counters is the union of the per-chromosome `read_groups` sets -/
theorem groupUniverse_mem (perChr : List (List String)) (x : String) :
    x ∈ groupUniverse perChr ↔ ∃ s ∈ perChr, x ∈ s := by
  unfold groupUniverse
  suffices h : ∀ acc, x ∈ perChr.foldl (fun acc s => s.foldl setInsert acc) acc ↔ x ∈ acc ∨ ∃ s ∈ perChr, x ∈ s by
    simpa using h []
  induction perChr with
  | nil => simp
  | cons s t ih =>
    intro acc
    simp only [List.foldl_cons, ih, foldl_setInsert_mem, List.mem_cons]
    constructor
    · rintro ((h | h) | ⟨s', hs', hx⟩)
      · exact Or.inl h
      · exact Or.inr ⟨s, Or.inl rfl, h⟩
      · exact Or.inr ⟨s', Or.inr hs', hx⟩
    · rintro (h | ⟨s', hs' | hs', hx⟩)
      · exact Or.inl (Or.inl h)
      · subst hs'; exact Or.inl (Or.inr hx)
      · exact Or.inr ⟨s', hs', hx⟩

theorem groupUniverse_nodup (perChr : List (List String)) : (groupUniverse perChr).Nodup := by
  unfold groupUniverse
  suffices h : ∀ acc : List String, acc.Nodup → (perChr.foldl (fun acc s => s.foldl setInsert acc) acc).Nodup from h [] (by simp)
  induction perChr with
  | nil => intro acc h; exact h
  | cons s t ih => intro acc h; exact ih _ (foldl_setInsert_nodup s acc h)

/-- **every read's group is in the universe**: run a validly configured grouper over the alignments of each
    chromosome; the group recorded for any read of any chromosome is a member of the universe the counters are
    built with (so `no_abort` of Props/C09.lean applies: no `KeyError` in any grouped counter) -/
theorem group_of_every_read_in_universe (g : Grouper) (hv : ValidGrouper g) (chrAlns : List (List Aln)) :
    ∃ results : List (List (Option String) × List String),
      chrAlns.map (fun alns => runGrouper g alns g.initGroups) = results.map Except.ok ∧
      ∀ res ∈ results, ∀ r ∈ res.1, ∃ x, r = some x ∧ x ∈ groupUniverse (results.map Prod.snd) := by
  have hinit : g.initGroups = [NA] → NA ∈ g.initGroups := by intro h; rw [h]; simp
  refine ⟨chrAlns.map (fun alns => ((runGrouper_spec g hv alns g.initGroups hinit).choose,
      (runGrouper_spec g hv alns g.initGroups hinit).choose_spec.choose)), ?_, ?_⟩
  · rw [List.map_map]
    apply List.map_congr_left
    intro alns _
    exact (runGrouper_spec g hv alns g.initGroups hinit).choose_spec.choose_spec.1
  · intro res hres r hr
    obtain ⟨alns, _, rfl⟩ := List.mem_map.mp hres
    obtain ⟨x, hx, hxS⟩ := (runGrouper_spec g hv alns g.initGroups hinit).choose_spec.choose_spec.2.2.2.1 r hr
    refine ⟨x, hx, (groupUniverse_mem _ x).mpr ⟨_, ?_, hxS⟩⟩
    exact List.mem_map.mpr ⟨_, hres, rfl⟩

/-! ### the tree before the fixes -/

/-- before fix e484a5c a read id without the delimiter got `None` (and nothing was added to `read_groups`):
    `ungroupable_is_NA` fails for the old `get_group_id` -/
theorem ungroupable_is_NA_buggy_witness :
    Ungroupable (.readId "_") ⟨"abc", [], none⟩ ∧
    getGroupIdBuggy (.readId "_") ⟨"abc", [], none⟩ = .ok ⟨none, none⟩ := by
  constructor
  · exact ⟨by decide, by decide⟩
  · decide +kernel

-- non-vacuity: concrete reads meet the hypotheses and get the documented groups
example : getGroupId (.readId "_") ⟨"m54158_180727_042959_59310706_ccs_NEU", [], none⟩ = .ok (GRes.both "NEU") := by
  decide +kernel
example : getGroupId (.readId "_") ⟨"abc", [], none⟩ = .ok (GRes.both "NA") := by decide +kernel
example : getGroupId (.tag "HP") ⟨"r", [("NM", .int 3), ("HP", .int 1)], none⟩ = .ok (GRes.both "1") := by decide +kernel
example : getGroupId (.tag "CB") ⟨"r", [("NM", .int 3)], none⟩ = .ok (GRes.both "NA") := by decide +kernel
example : getGroupId (.table [("r1", "g1"), ("r2", "g2")]) ⟨"r2", [], none⟩ = .ok (GRes.both "g2") := by decide +kernel
example : getGroupId (.fileName [("/d/A.bam", "A")]) ⟨"r", [], some "/d/A.bam"⟩ = .ok (GRes.both "A") := by decide +kernel
example : ValidGrouper (.readId "_") ∧ Ungroupable (.tag "CB") ⟨"r", [("NM", .int 3)], none⟩ := by
  refine ⟨by unfold ValidGrouper; decide, ?_⟩
  intro v; simp

end IsoVerif.Props.C09Groupers
