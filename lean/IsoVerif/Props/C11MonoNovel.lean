/-
C11 — reflection of `construct_monoexon_novel` (Model/C11MonoNovel.lean; audit2-C G2).

  levelModels_order_independent  one support level reports the same models whatever the order of the clusters
  mirror_dual_candidateOf       one cluster against mirrored models = the mirrored answer (polyA ↔ polyT)
  mirror_dual_constructMonoNovel  MAIN: mirrored storage, polyT' = mirrored polyA clusters, polyA' = mirrored polyT
                                clusters (in ANY order) ⇒ the storage after the call is the mirrored storage, up to
                                the order in which models of one support level are appended
  constructMonoNovelBuggy_mirror_witness   the pre-fix code (polyA clusters first) is not: 3 '+' reads 5000-5600 and
                                9 '−' reads 5100-5750
-/
import IsoVerif.Model.C11MonoNovel

namespace IsoVerif.Props.C11MonoNovel
open IsoVerif.Gen IsoVerif.Model IsoVerif.Model.C03 IsoVerif.Model.C11

/-! ### helpers -/

theorem intersection_len_mirror (L : Int) (a b : Iv) :
    intersection_len (mirrorIv L a) (mirrorIv L b) = intersection_len a b := by
  simp only [intersection_len, mirrorIv]; grind

theorem interval_len_mirror (L : Int) (a : Iv) : interval_len (mirrorIv L a) = interval_len a := by
  simp only [interval_len, mirrorIv]; grind

theorem coveredBy_iff (rep : List MModel) (c : Iv) :
    coveredBy rep c = true ↔ ∃ m ∈ rep, ∃ e ∈ m.exons, 2 * intersection_len e c > interval_len c := by
  simp [coveredBy]

/-- the coverage test sees the reported models as a set -/
theorem coveredBy_congr {r1 r2 : List MModel} (h : ∀ m, m ∈ r1 ↔ m ∈ r2) (c : Iv) : coveredBy r1 c = coveredBy r2 c := by
  rw [Bool.eq_iff_iff, coveredBy_iff, coveredBy_iff]
  constructor
  · rintro ⟨m, hm, e, he, hc⟩; exact ⟨m, (h m).mp hm, e, he, hc⟩
  · rintro ⟨m, hm, e, he, hc⟩; exact ⟨m, (h m).mpr hm, e, he, hc⟩

theorem mem_mirrorL (L : Int) (l : List Iv) (e : Iv) : e ∈ mirrorL L l ↔ ∃ e0 ∈ l, e = mirrorIv L e0 := by
  simp only [mirrorL, List.mem_reverse, List.mem_map]
  constructor
  · rintro ⟨a, ha, rfl⟩; exact ⟨a, ha, rfl⟩
  · rintro ⟨a, ha, rfl⟩; exact ⟨a, ha, rfl⟩

/-- mirrored models cover the mirrored candidate exactly when the models cover the candidate -/
theorem coveredBy_mirror (L : Int) (rep : List MModel) (c : Iv) :
    coveredBy (rep.map (mirrorModel L)) (mirrorIv L c) = coveredBy rep c := by
  rw [Bool.eq_iff_iff, coveredBy_iff, coveredBy_iff]
  constructor
  · rintro ⟨m, hm, e, he, hc⟩
    obtain ⟨m0, hm0, rfl⟩ := List.mem_map.mp hm
    obtain ⟨e0, he0, rfl⟩ := (mem_mirrorL L m0.exons e).mp he
    rw [intersection_len_mirror, interval_len_mirror] at hc
    exact ⟨m0, hm0, e0, he0, hc⟩
  · rintro ⟨m, hm, e, he, hc⟩
    refine ⟨mirrorModel L m, List.mem_map.mpr ⟨m, hm, rfl⟩, mirrorIv L e, (mem_mirrorL L m.exons _).mpr ⟨e, he, rfl⟩, ?_⟩
    rw [intersection_len_mirror, interval_len_mirror]; exact hc

theorem listMin_map_neg (L : Int) (l : List Int) :
    listMin (l.map (fun x => L + 1 - x)) = (listMax l).map (fun x => L + 1 - x) := by
  induction l with
  | nil => rfl
  | cons x xs ih =>
    simp only [List.map_cons, listMin, listMax, ih]
    cases listMax xs with
    | none => simp
    | some m => simp; omega

theorem listMax_map_neg (L : Int) (l : List Int) :
    listMax (l.map (fun x => L + 1 - x)) = (listMin l).map (fun x => L + 1 - x) := by
  induction l with
  | nil => rfl
  | cons x xs ih =>
    simp only [List.map_cons, listMin, listMax, ih]
    cases listMin xs with
    | none => simp
    | some m => simp; omega

theorem listMin_perm {l1 l2 : List Int} (h : l1.Perm l2) : listMin l1 = listMin l2 := by
  induction h with
  | nil => rfl
  | cons x _ ih => simp only [listMin, ih]
  | swap x y l =>
    simp only [listMin]
    cases listMin l with
    | none => simp; omega
    | some m => simp; omega
  | trans _ _ ih1 ih2 => exact ih1.trans ih2

theorem listMax_perm {l1 l2 : List Int} (h : l1.Perm l2) : listMax l1 = listMax l2 := by
  induction h with
  | nil => rfl
  | cons x _ ih => simp only [listMax, ih]
  | swap x y l =>
    simp only [listMax]
    cases listMax l with
    | none => simp; omega
    | some m => simp; omega
  | trans _ _ ih1 ih2 => exact ih1.trans ih2

/-- one cluster, mirrored (a polyA cluster becomes a polyT cluster): the candidate is the mirrored candidate -/
theorem monoExonFromCluster_mirror (L : Int) (cutoff : Nat) (c : Cluster) :
    monoExonFromCluster cutoff (!c.forward) (mirrorL L c.reads) (mirrorP L c.three)
      = (monoExonFromCluster cutoff c.forward c.reads c.three).map (mirrorL L) := by
  have e1 : (mirrorL L c.reads).map (·.1) = ((c.reads.map (·.2)).map (fun x => L + 1 - x)).reverse := by
    simp [mirrorL, mirrorIv, List.map_reverse, Function.comp_def]
  have e2 : (mirrorL L c.reads).map (·.2) = ((c.reads.map (·.1)).map (fun x => L + 1 - x)).reverse := by
    simp [mirrorL, mirrorIv, List.map_reverse, Function.comp_def]
  have hlen : (mirrorL L c.reads).length = c.reads.length := by simp [mirrorL]
  unfold monoExonFromCluster
  rw [hlen]
  by_cases hc : c.reads.length < cutoff
  · simp [hc, mirrorL]
  · simp only [hc, if_false]
    cases hf : c.forward with
    | true =>
      simp only [Bool.not_true, Bool.false_eq_true, if_false, if_true]
      rw [e2, listMax_perm (List.reverse_perm _), listMax_map_neg]
      cases listMin (c.reads.map (·.1)) with
      | none => rfl
      | some m => simp [mirrorL, mirrorIv, mirrorP]
    | false =>
      simp only [Bool.not_false, if_true, Bool.false_eq_true, if_false]
      rw [e1, listMin_perm (List.reverse_perm _), listMin_map_neg]
      cases listMax (c.reads.map (·.2)) with
      | none => rfl
      | some m => simp [mirrorL, mirrorIv, mirrorP]

theorem monoExonFromCluster_tail {cutoff : Nat} {fw : Bool} {reads : List Iv} {three : Int} {x : Iv} {xs : List Iv}
    (h : monoExonFromCluster cutoff fw reads three = some (x :: xs)) : xs = [] := by
  unfold monoExonFromCluster at h
  split at h
  · cases h
  · split at h
    · cases hm : listMin (reads.map (·.1)) with
      | none => rw [hm] at h; cases h
      | some m => rw [hm] at h; simp at h; exact h.2
    · cases hm : listMax (reads.map (·.2)) with
      | none => rw [hm] at h; cases h
      | some m => rw [hm] at h; simp at h; exact h.2

theorem mirror_dual_candidateOf (L : Int) (cutoff : Nat) (rep rep' : List MModel) (c : Cluster)
    (hrep : ∀ m, m ∈ rep' ↔ m ∈ rep.map (mirrorModel L)) :
    candidateOf cutoff rep' (mirrorCluster L c) = (candidateOf cutoff rep c).map (Option.map (mirrorModel L)) := by
  unfold candidateOf
  simp only [mirrorCluster]
  rw [monoExonFromCluster_mirror]
  cases h : monoExonFromCluster cutoff c.forward c.reads c.three with
  | none => rfl
  | some l =>
    cases l with
    | nil => simp [mirrorL]
    | cons x xs =>
      have hxs : xs = [] := monoExonFromCluster_tail h
      subst hxs
      simp only [Option.map_some, mirrorL, List.map_cons, List.map_nil, List.reverse_cons, List.reverse_nil, List.nil_append]
      rw [coveredBy_congr hrep, coveredBy_mirror]
      cases coveredBy rep x <;> simp [mirrorModel, mirrorL]


/-! ### one support level, declaratively -/

theorem consOpt_some {r : Option (Option MModel)} {acc : Option (List MModel)} {l : List MModel}
    (h : consOpt r acc = some l) : ∃ r0 l0, r = some r0 ∧ acc = some l0 ∧ l = r0.toList ++ l0 := by
  cases r with
  | none => simp [consOpt] at h
  | some r0 =>
    cases acc with
    | none => simp [consOpt] at h
    | some l0 => simp [consOpt] at h; exact ⟨r0, l0, rfl, rfl, h.symm⟩

theorem consOpt_none {r : Option (Option MModel)} {acc : Option (List MModel)} :
    consOpt r acc = none ↔ r = none ∨ acc = none := by
  cases r <;> cases acc <;> simp [consOpt]

theorem levelModels_some {cutoff : Nat} {rep : List MModel} {cs : List Cluster} {s : Nat} {l : List MModel}
    (h : levelModels cutoff rep cs s = some l) (m : MModel) :
    m ∈ l ↔ ∃ c ∈ cs, c.support = s ∧ candidateOf cutoff rep c = some (some m) := by
  induction cs generalizing l with
  | nil => simp [levelModels] at h; subst h; simp
  | cons c cs ih =>
    by_cases hs : c.support = s
    · simp only [levelModels, hs, if_true] at h
      obtain ⟨r0, l0, hr, hl, rfl⟩ := consOpt_some h
      have := ih hl
      simp only [List.mem_append, this, List.mem_cons, exists_eq_or_imp, hs, true_and, hr]
      cases r0 with
      | none => simp
      | some m0 =>
        simp only [Option.toList_some, List.mem_singleton, Option.some.injEq]
        constructor
        · rintro (h | h)
          · left; exact h.symm
          · right; exact h
        · rintro (h | h)
          · left; exact h.symm
          · right; exact h
    · simp only [levelModels, hs, if_false] at h
      have := ih h
      simp only [this, List.mem_cons, exists_eq_or_imp, hs, false_and, false_or]

theorem levelModels_none {cutoff : Nat} {rep : List MModel} {cs : List Cluster} {s : Nat} :
    levelModels cutoff rep cs s = none ↔ ∃ c ∈ cs, c.support = s ∧ candidateOf cutoff rep c = none := by
  induction cs with
  | nil => simp [levelModels]
  | cons c cs ih =>
    by_cases hs : c.support = s
    · simp only [levelModels, hs, if_true, consOpt_none, ih, List.mem_cons, exists_eq_or_imp, true_and]
    · simp only [levelModels, hs, if_false, ih, List.mem_cons, exists_eq_or_imp, false_and, false_or]

/-! ### the whole call -/

theorem support_mirror (L : Int) (c : Cluster) : (mirrorCluster L c).support = c.support := by
  simp [Cluster.support, mirrorCluster, mirrorL]

/-- what the two runs are compared by: the same failure (`min([])`), or model lists with the same members -/
def SameModels (L : Int) (r' r : Option (List MModel)) : Prop :=
  (r' = none ↔ r = none) ∧ ∀ l' l, r' = some l' → r = some l → ∀ m, m ∈ l' ↔ m ∈ l.map (mirrorModel L)

theorem levelModels_mirror (L : Int) (cutoff : Nat) (rep rep' : List MModel) (cs cs' : List Cluster) (s : Nat)
    (hrep : ∀ m, m ∈ rep' ↔ m ∈ rep.map (mirrorModel L))
    (hcs : ∀ c, c ∈ cs' ↔ c ∈ cs.map (mirrorCluster L)) :
    SameModels L (levelModels cutoff rep' cs' s) (levelModels cutoff rep cs s) := by
  constructor
  · rw [levelModels_none, levelModels_none]
    constructor
    · rintro ⟨c', hc', hs, hn⟩
      obtain ⟨c, hc, rfl⟩ := List.mem_map.mp ((hcs c').mp hc')
      rw [mirror_dual_candidateOf L cutoff rep rep' c hrep] at hn
      refine ⟨c, hc, by rw [← hs, support_mirror], ?_⟩
      cases h : candidateOf cutoff rep c with
      | none => rfl
      | some r => rw [h] at hn; simp at hn
    · rintro ⟨c, hc, hs, hn⟩
      refine ⟨mirrorCluster L c, (hcs _).mpr (List.mem_map.mpr ⟨c, hc, rfl⟩), by rw [support_mirror, hs], ?_⟩
      rw [mirror_dual_candidateOf L cutoff rep rep' c hrep, hn]; rfl
  · intro l' l h' h m
    rw [levelModels_some h' m, List.mem_map]
    constructor
    · rintro ⟨c', hc', hs, hn⟩
      obtain ⟨c, hc, rfl⟩ := List.mem_map.mp ((hcs c').mp hc')
      rw [mirror_dual_candidateOf L cutoff rep rep' c hrep] at hn
      cases hcand : candidateOf cutoff rep c with
      | none => rw [hcand] at hn; simp at hn
      | some r =>
        rw [hcand] at hn
        cases r with
        | none => simp at hn
        | some m0 =>
          simp at hn
          exact ⟨m0, (levelModels_some h m0).mpr ⟨c, hc, by rw [← hs, support_mirror], hcand⟩, hn⟩
    · rintro ⟨m0, hm0, rfl⟩
      obtain ⟨c, hc, hs, hcand⟩ := (levelModels_some h m0).mp hm0
      refine ⟨mirrorCluster L c, (hcs _).mpr (List.mem_map.mpr ⟨c, hc, rfl⟩), by rw [support_mirror, hs], ?_⟩
      rw [mirror_dual_candidateOf L cutoff rep rep' c hrep, hcand]; rfl

theorem runLevels_mirror (L : Int) (cutoff : Nat) (cs cs' : List Cluster)
    (hcs : ∀ c, c ∈ cs' ↔ c ∈ cs.map (mirrorCluster L)) (n : Nat) (st st' : List MModel)
    (hst : ∀ m, m ∈ st' ↔ m ∈ st.map (mirrorModel L)) :
    SameModels L (runLevels cutoff cs' n st') (runLevels cutoff cs n st) := by
  induction n generalizing st st' with
  | zero =>
    obtain ⟨hn, hs⟩ := levelModels_mirror L cutoff st st' cs cs' 0 hst hcs
    simp only [runLevels]
    constructor
    · simp only [Option.map_eq_none_iff]; exact hn
    · intro r' r h' h m
      cases hl' : levelModels cutoff st' cs' 0 with
      | none => rw [hl'] at h'; simp at h'
      | some l' =>
        cases hl : levelModels cutoff st cs 0 with
        | none => rw [hl] at h; simp at h
        | some l =>
          rw [hl'] at h'; rw [hl] at h
          simp at h' h; subst h'; subst h
          simp only [List.mem_append, List.map_append, hst m, hs l' l hl' hl m]
  | succ n ih =>
    obtain ⟨hn, hs⟩ := levelModels_mirror L cutoff st st' cs cs' (n + 1) hst hcs
    simp only [runLevels]
    cases hl' : levelModels cutoff st' cs' (n + 1) with
    | none =>
      have := hn.mp hl'
      rw [this]; exact ⟨by simp, by intro _ _ h; cases h⟩
    | some l' =>
      cases hl : levelModels cutoff st cs (n + 1) with
      | none => rw [hn.mpr hl] at hl'; cases hl'
      | some l =>
        simp only
        apply ih
        intro m
        simp only [List.mem_append, List.map_append, hst m, hs l' l hl' hl m]

theorem maxSupport_le (cs : List Cluster) (n : Nat) : maxSupport cs ≤ n ↔ ∀ c ∈ cs, c.support ≤ n := by
  unfold maxSupport
  induction cs with
  | nil => simp
  | cons c cs ih => simp only [List.map_cons, List.foldr_cons, List.mem_cons, forall_eq_or_imp, ← ih]; omega

theorem maxSupport_mirror (L : Int) (cs cs' : List Cluster) (hcs : ∀ c, c ∈ cs' ↔ c ∈ cs.map (mirrorCluster L)) :
    maxSupport cs' = maxSupport cs := by
  apply Nat.le_antisymm
  · rw [maxSupport_le]
    intro c' hc'
    obtain ⟨c, hc, rfl⟩ := List.mem_map.mp ((hcs c').mp hc')
    rw [support_mirror]
    exact (maxSupport_le cs _).mp (Nat.le_refl _) c hc
  · rw [maxSupport_le]
    intro c hc
    have := (maxSupport_le cs' _).mp (Nat.le_refl _) (mirrorCluster L c) ((hcs _).mpr (List.mem_map.mpr ⟨c, hc, rfl⟩))
    rwa [support_mirror] at this

/-- MAIN (audit2-C G2 repaired): the mirrored run -- reported models mirrored (as a set), the polyT clusters the mirrored
    polyA clusters and vice versa, each in ANY order -- reports exactly the mirrored models, and raises iff the original
    does.  No hypothesis on supports, lengths or overlaps: ties included (clusters with equal support do not compete). -/
theorem mirror_dual_constructMonoNovel (L : Int) (cutoff : Nat) (st st' : List MModel) (polyA polyT polyA' polyT' : List Cluster)
    (hst : ∀ m, m ∈ st' ↔ m ∈ st.map (mirrorModel L))
    (hA : ∀ c, c ∈ polyA' ↔ c ∈ polyT.map (mirrorCluster L))
    (hT : ∀ c, c ∈ polyT' ↔ c ∈ polyA.map (mirrorCluster L)) :
    SameModels L (constructMonoNovel cutoff st' polyA' polyT') (constructMonoNovel cutoff st polyA polyT) := by
  have hcs : ∀ c, c ∈ polyA' ++ polyT' ↔ c ∈ (polyA ++ polyT).map (mirrorCluster L) := by
    intro c; simp only [List.mem_append, List.map_append, hA c, hT c]; exact Or.comm
  unfold constructMonoNovel
  rw [maxSupport_mirror L _ _ hcs]
  exact runLevels_mirror L cutoff _ _ hcs _ st st' hst

/-- one support level does not depend on the order (or multiplicity) of the clusters: same members ⇒ same models -/
theorem levelModels_order_independent (cutoff : Nat) (st : List MModel) (cs cs' : List Cluster) (n : Nat)
    (hcs : ∀ c, c ∈ cs' ↔ c ∈ cs) (l l' : List MModel)
    (h' : levelModels cutoff st cs' n = some l') (h : levelModels cutoff st cs n = some l) (m : MModel) :
    m ∈ l' ↔ m ∈ l := by
  rw [levelModels_some h' m, levelModels_some h m]
  constructor
  · rintro ⟨c, hc, r⟩; exact ⟨c, (hcs c).mp hc, r⟩
  · rintro ⟨c, hc, r⟩; exact ⟨c, (hcs c).mpr hc, r⟩

/-! ### the input of the audit: 3 '+' reads 5000-5600 (polyA 5600), 9 '−' reads 5100-5750 (polyT 5100), cutoff 2 -/

def plus3 : Cluster := { forward := true, three := 5600, reads := List.replicate 3 (5000, 5600) }
def minus9 : Cluster := { forward := false, three := 5100, reads := List.replicate 9 (5100, 5750) }

-- non-vacuity / non-degeneracy of the main theorem: the repaired code keeps the 9-read model in both orientations
example : constructMonoNovel 2 [] [plus3] [minus9] = some [{ forward := false, exons := [(5100, 5750)] }] ∧
    constructMonoNovel 2 [] [mirrorCluster 20000 minus9] [mirrorCluster 20000 plus3]
      = some [mirrorModel 20000 { forward := false, exons := [(5100, 5750)] }] := by
  decide +kernel

/-- the full-strength statement for an arbitrary constructor `f` (what the pre-fix code violates) -/
def MonoNovelMirror (f : Nat → List MModel → List Cluster → List Cluster → Option (List MModel)) : Prop :=
  ∀ (L : Int) (cutoff : Nat) (polyA polyT : List Cluster),
    SameModels L (f cutoff [] (polyT.map (mirrorCluster L)) (polyA.map (mirrorCluster L))) (f cutoff [] polyA polyT)

theorem constructMonoNovel_mirror : MonoNovelMirror constructMonoNovel :=
  fun L cutoff polyA polyT => mirror_dual_constructMonoNovel L cutoff [] [] polyA polyT _ _ (by simp) (by simp) (by simp)

/-- pre-fix: polyA clusters first.  Original: the 3-read '+' model is reported and removes the 9-read '−' candidate;
    mirror image: the image of the 9-read cluster is a polyA cluster, goes first and removes the other one -/
theorem constructMonoNovelBuggy_mirror_witness : ¬ MonoNovelMirror constructMonoNovelBuggy := by
  intro h
  have := (h 20000 2 [plus3] [minus9]).2 _ _ rfl rfl (mirrorModel 20000 { forward := true, exons := [(5000, 5600)] })
  revert this
  decide +kernel

/-! ### which reads enter the clusters: follow-up of 7594462 (reads carrying both tails) -/

/-- mirrored read: polyA evidence becomes polyT evidence (no tail position mirrored onto the sentinel) -/
theorem mirror_dual_strandVote (L : Int) (r : MRead)
    (hA : r.polyA ≠ -1 → L + 1 - r.polyA ≠ -1) (hT : r.polyT ≠ -1 → L + 1 - r.polyT ≠ -1) :
    strandVote (mirrorMRead L r) = (strandVote r).map (!·) := by
  simp only [strandVote, mirrorMRead, mirrorPos]
  by_cases h1 : r.polyA = -1
  · by_cases h2 : r.polyT = -1
    · simp [h1, h2]
    · have := hT h2; simp [h1, h2]; omega
  · by_cases h2 : r.polyT = -1
    · have := hA h1; simp [h1, h2]; omega
    · have ha := hA h1; have ht := hT h2; simp [h1, h2, ha, ht]

/-- a read is in a cluster of at most one strand -/
theorem voters_exclusive (rs : List MRead) (r : MRead) : ¬ (r ∈ votersOf true rs ∧ r ∈ votersOf false rs) := by
  simp only [votersOf, List.mem_filter, beq_iff_eq]
  rintro ⟨⟨_, h1⟩, ⟨_, h2⟩⟩
  rw [h1] at h2; cases h2

/-- the voters of the mirrored run for one strand are the mirrored voters of the other strand, in the same order -/
theorem mirror_dual_votersOf (L : Int) (fw : Bool) (rs : List MRead)
    (hA : ∀ r ∈ rs, r.polyA ≠ -1 → L + 1 - r.polyA ≠ -1) (hT : ∀ r ∈ rs, r.polyT ≠ -1 → L + 1 - r.polyT ≠ -1) :
    votersOf fw (rs.map (mirrorMRead L)) = (votersOf (!fw) rs).map (mirrorMRead L) := by
  induction rs with
  | nil => rfl
  | cons r rs ih =>
    have ih' := ih (fun x hx => hA x (List.mem_cons_of_mem _ hx)) (fun x hx => hT x (List.mem_cons_of_mem _ hx))
    have hv := mirror_dual_strandVote L r (hA r List.mem_cons_self) (hT r List.mem_cons_self)
    simp only [votersOf, List.map_cons, List.filter_cons] at ih' ⊢
    rw [hv, ih']
    cases strandVote r with
    | none => simp
    | some b => cases b <;> cases fw <;> simp

/-- the audit's follow-up input: six reads 5000..5600 carrying BOTH tails (ids 0..5) -/
def bothTails : List MRead :=
  (List.range 6).map (fun k => { id := k, iv := (5000 + (k : Int), 5600), polyA := 5600, polyT := 4998 })

/-- 7594462 (clusters by support, equal support does not compete) fed with the clusters of `strandVotesShared`: the SAME six
    reads form a polyA and a polyT cluster and TWO models are reported from them -/
theorem sharedReads_two_models_witness :
    votersOfShared true bothTails = bothTails ∧ votersOfShared false bothTails = bothTails ∧
    constructMonoNovel 2 [] [clusterAt true 5600 (votersOfShared true bothTails)]
        [clusterAt false 4998 (votersOfShared false bothTails)]
      = some [{ forward := true, exons := [(5000, 5600)] }, { forward := false, exons := [(4998, 5600)] }] := by
  decide +kernel

/-- after the follow-up the same reads are in no cluster and no model is built from them (in either orientation: the
    mirrored reads carry both tails again) -/
theorem bothTails_no_cluster :
    votersOf true bothTails = [] ∧ votersOf false bothTails = [] ∧
    votersOf true (bothTails.map (mirrorMRead 20000)) = [] ∧ votersOf false (bothTails.map (mirrorMRead 20000)) = [] := by
  decide +kernel

-- non-vacuity of the exclusive vote: reads with one tail still vote
example : strandVote { id := 0, iv := (5000, 5600), polyA := 5600, polyT := -1 } = some true ∧
    strandVote { id := 1, iv := (5100, 5750), polyA := -1, polyT := 5098 } = some false ∧
    strandVote (mirrorMRead 20000 { id := 0, iv := (5000, 5600), polyA := 5600, polyT := -1 }) = some false := by decide

end IsoVerif.Props.C11MonoNovel
