/-
C05 / C08 at the level of the printed lines (Model/Printers.lean, Model/ReusePrint.lean).

  C08 "the alignments that lose are suppressed everywhere (assignments, BED, ...)":
      `dropped_record_prints_nothing` – a record the loader drops (verdict `suspended`, or no verdict for it) adds no
      line to either file; `suspended_is_dropped`, `unmatched_is_dropped`.
  C05 "every primary alignment that passes the filters is reported in corrected_reads.bed and, with an annotation, in
      read_assignments.tsv": `kept_records_lines` – every record the loader keeps yields exactly one BED record named by
      its read id and `max 1 (#isoform matches)` TSV lines carrying its read id; hence the read ids of the BED are those
      of the kept records (`bed_reads_are_kept_reads`) and both files name the same reads.
  The merge of the per-chromosome files: `merged_files_partial` – all lines arrive in the main files, in the order of
      `merge_files`, PROVIDED no per-chromosome body begins with a line that starts with `#`; the full-strength
      statement (`MergedComplete`) is FALSE of model and code: `merged_hash_witness` (a read whose id starts with `#`,
      first on its chromosome, loses its lines in read_assignments.tsv: `merge_files` takes them for header lines).
-/
import IsoVerif.Props.C15Printers

namespace IsoVerif.Props.C05Printers
open IsoVerif.Gen IsoVerif.Model IsoVerif.Model.Serial IsoVerif.Model.Resolver IsoVerif.Model.C12 IsoVerif.Model.C15
open IsoVerif.Model.Printers IsoVerif.Lemmas.Printers IsoVerif.Props.C15Printers

/-! ## 1. what the loader drops is printed nowhere -/

/-- the loader's verdict for the record is `suspended`: the record is dropped -/
theorem suspended_is_dropped (E : Env) (dict : List (Nat × List Rec)) (r : ReadAssignment) (vs : List Rec) (a : Rec)
    (h1 : dict.lookup (fullOf E r).readId = some vs) (h2 : lookupVerdict vs (fullOf E r) = some a)
    (h3 : a.atype = .suspended) : loadOne dict (fullOf E r) = none := by
  simp [loadOne, h1, h2, h3]

/-- the read is in the multimapper file of the chromosome but no verdict matches this record: dropped as well -/
theorem unmatched_is_dropped (E : Env) (dict : List (Nat × List Rec)) (r : ReadAssignment) (vs : List Rec)
    (h1 : dict.lookup (fullOf E r).readId = some vs) (h2 : lookupVerdict vs (fullOf E r) = none) :
    loadOne dict (fullOf E r) = none := by
  simp [loadOne, h1, h2]

theorem loadGroupFull_drop (E : Env) (dict : List (Nat × List Rec)) (pre post : List ReadAssignment)
    (r : ReadAssignment) (h : loadOne dict (fullOf E r) = none) :
    loadGroupFull E dict (pre ++ r :: post) = loadGroupFull E dict (pre ++ post) := by
  simp [loadGroupFull, List.filterMap_append, List.filterMap_cons, h]

/-- **dropped_record_prints_nothing** (C08 `suspended_everywhere` for the two read-level files): removing a record the
    loader drops from the chromosome's dump changes neither file – it contributes no TSV line and no BED line. -/
theorem dropped_record_prints_nothing (E : Env) (X : PrintEnv) (chrName : String) (dict : List (Nat × List Rec))
    (gs₁ gs₂ : List (Group ReadAssignment)) (h : GeneHeader) (pre post : List ReadAssignment) (r : ReadAssignment)
    (hd : loadOne dict (fullOf E r) = none) :
    printGroups E X chrName dict (gs₁ ++ (h, pre ++ r :: post) :: gs₂) =
      printGroups E X chrName dict (gs₁ ++ (h, pre ++ post) :: gs₂) := by
  induction gs₁ with
  | nil => simp only [List.nil_append, printGroups, loadGroupFull_drop E dict pre post r hd]
  | cons g gs ih => simp only [List.cons_append, printGroups, ih]

/-! ## 2. what the loader keeps is printed: one BED line, at least one TSV line -/

/-- the records of a chromosome the loader keeps, verdicts applied, in file order -/
def keptRecords (E : Env) (dict : List (Nat × List Rec)) (gs : List (Group ReadAssignment)) : List ReadAssignment :=
  gs.flatMap (fun g => loadGroupFull E dict g.2)

/-- with the aggregator's printers (`PrintAllFunctor`): a record that prints gives exactly one BED record, named by its
    read id on the chromosome of its gene info, and `max 1 (#matches)` TSV lines that all carry its read id -/
theorem recordLines_kept (X : PrintEnv) (gv : GeneView) (r : ReadAssignment)
    (x : List C14.BedRecord × List TsvLine) (h : recordLines (aggregatorPrinters X) gv r = some x) :
    (∃ b, x.1 = [b] ∧ b.name = r.readId ∧ b.chrom = gv.chrId ∧ b.blocks = r.correctedExons) ∧
    x.2.length = max 1 r.isoformMatches.length ∧ ∀ l ∈ x.2, l.readId = r.readId := by
  unfold recordLines at h
  cases hb : bedOf (aggregatorPrinters X).bedChecker printer_bed_print_corrected gv r with
  | none => simp [hb] at h
  | some ob =>
    cases ht : specTsv (aggregatorPrinters X).tsvChecker (aggregatorPrinters X).params gv r with
    | none => simp [hb, ht] at h
    | some ls =>
      simp only [hb, ht, Option.some.injEq] at h
      subst h
      have hck : (Checker.all).check r = true := rfl
      have hspec := bed_line_spec .all printer_bed_print_corrected gv r
      have hcount := tsv_line_count .all X.params gv r ls ht
      have hcommon := tsv_lines_of_record .all X.params gv r ls ht
      refine ⟨?_, hcount.2.2 hck, fun l hl => (hcommon l hl).1⟩
      by_cases hne : (if printer_bed_print_corrected then r.correctedExons else r.exons) = []
      · have := hspec.2.2 hck hne
        simp only [aggregatorPrinters] at hb
        rw [this] at hb
        cases hb
      · obtain ⟨b, hbb, h1, h2, _, h4⟩ := hspec.2.1 hck hne
        simp only [aggregatorPrinters] at hb
        rw [hbb] at hb
        simp only [Option.some.injEq] at hb
        subst hb
        exact ⟨b, rfl, h2, h1, h4⟩

theorem specRecords_kept (X : PrintEnv) (gv : GeneView) :
    ∀ (rs : List ReadAssignment) (L : Lines), specRecords (aggregatorPrinters X) gv rs = some L →
      L.bed.map (·.name) = rs.map (·.readId) ∧
      L.tsv.map (·.readId) = rs.flatMap (fun r => List.replicate (max 1 r.isoformMatches.length) r.readId) := by
  intro rs
  induction rs with
  | nil =>
    intro L h
    simp only [specRecords, Option.some.injEq] at h
    subst h
    exact ⟨rfl, rfl⟩
  | cons r rs ih =>
    intro L h
    cases h1 : recordLines (aggregatorPrinters X) gv r with
    | none => simp [specRecords, h1] at h
    | some x =>
      cases h2 : specRecords (aggregatorPrinters X) gv rs with
      | none => simp [specRecords, h1, h2] at h
      | some rest =>
        simp only [specRecords, h1, h2, Option.some.injEq] at h
        subst h
        obtain ⟨⟨b, hb, hn, _, _⟩, hlen, hall⟩ := recordLines_kept X gv r x h1
        obtain ⟨ihb, iht⟩ := ih rest h2
        refine ⟨?_, ?_⟩
        · simp only [hb, List.cons_append, List.nil_append, List.map_cons, hn, ihb]
        · simp only [List.map_append, List.flatMap_cons, iht]
          rw [map_eq_replicate _ r.readId x.2 hall, hlen]

/-- **kept_records_lines** (C05 at line level): when the chromosome prints, the BED records are, in order, one per kept
    record and named by its read id; the TSV lines are, in order, `max 1 (#isoform matches)` lines per kept record, each
    carrying its read id. -/
theorem kept_records_lines (E : Env) (X : PrintEnv) (chrName : String) (dict : List (Nat × List Rec)) :
    ∀ (gs : List (Group ReadAssignment)) (L : Lines), printGroups E X chrName dict gs = some L →
      L.bed.map (·.name) = (keptRecords E dict gs).map (·.readId) ∧
      L.tsv.map (·.readId) =
        (keptRecords E dict gs).flatMap (fun r => List.replicate (max 1 r.isoformMatches.length) r.readId) := by
  intro gs
  induction gs with
  | nil =>
    intro L h
    simp only [printGroups, Option.some.injEq] at h
    subst h
    exact ⟨rfl, rfl⟩
  | cons g gs ih =>
    intro L h
    simp only [printGroups, printers_pure_fresh] at h
    cases h1 : specRecords (aggregatorPrinters X) (viewOf X chrName g.1 (loadGroupFull E dict g.2))
        (loadGroupFull E dict g.2) with
    | none => simp [h1] at h
    | some a =>
      cases h2 : printGroups E X chrName dict gs with
      | none => simp [h1, h2] at h
      | some b =>
        simp only [h1, h2, Option.some.injEq] at h
        subst h
        obtain ⟨hb1, ht1⟩ := specRecords_kept X _ _ a h1
        obtain ⟨hb2, ht2⟩ := ih b h2
        simp only [Lines.append, keptRecords, List.flatMap_cons, List.map_append, List.flatMap_append]
        exact ⟨by rw [hb1, hb2]; rfl, by rw [ht1, ht2]; rfl⟩

/-- every kept record gives exactly one BED line and at least one TSV line -/
theorem kept_line_counts (E : Env) (X : PrintEnv) (chrName : String) (dict : List (Nat × List Rec))
    (gs : List (Group ReadAssignment)) (L : Lines) (h : printGroups E X chrName dict gs = some L) :
    L.bed.length = (keptRecords E dict gs).length ∧ (keptRecords E dict gs).length ≤ L.tsv.length := by
  obtain ⟨hb, ht⟩ := kept_records_lines E X chrName dict gs L h
  have h1 : L.bed.length = (keptRecords E dict gs).length := by
    have := congrArg List.length hb
    simpa using this
  refine ⟨h1, ?_⟩
  have h2 := congrArg List.length ht
  simp only [List.length_map] at h2
  rw [h2]
  generalize keptRecords E dict gs = ks
  induction ks with
  | nil => simp
  | cons k ks ih =>
    simp only [List.flatMap_cons, List.length_append, List.length_replicate, List.length_cons]
    omega

/-- **bed_reads_are_kept_reads**: the distinct read ids of corrected_reads.bed are the distinct read ids of the kept
    records (same number, same set), and read_assignments.tsv names exactly the same reads -/
theorem bed_reads_are_kept_reads (E : Env) (X : PrintEnv) (chrName : String) (dict : List (Nat × List Rec))
    (gs : List (Group ReadAssignment)) (L : Lines) (h : printGroups E X chrName dict gs = some L) :
    (L.bed.map (·.name)).eraseDups.length = ((keptRecords E dict gs).map (·.readId)).eraseDups.length ∧
    (∀ s, s ∈ L.bed.map (·.name) ↔ s ∈ (keptRecords E dict gs).map (·.readId)) ∧
    (∀ s, s ∈ L.tsv.map (·.readId) ↔ s ∈ L.bed.map (·.name)) := by
  obtain ⟨hb, ht⟩ := kept_records_lines E X chrName dict gs L h
  refine ⟨by rw [hb], fun s => by rw [hb], ?_⟩
  intro s
  rw [hb, ht]
  simp only [List.mem_flatMap, List.mem_replicate, List.mem_map]
  constructor
  · rintro ⟨r, hr, _, rfl⟩
    exact ⟨r, hr, rfl⟩
  · rintro ⟨r, hr, rfl⟩
    exact ⟨r, hr, by omega, rfl⟩

/-! ## 3. the merge of the per-chromosome files -/

/-- the lines the two printers wrote on all chromosomes, in the order `merge_files` visits the parts -/
def allLines (order : List Nat) (outs : List Lines) : List String × List String :=
  ((order.filterMap (fun c => outs[c]?)).flatMap (fun l => l.tsv.map TsvLine.render),
   (order.filterMap (fun c => outs[c]?)).flatMap (fun l => l.bed.map C14.BedRecord.render))

/-- FULL-STRENGTH statement: every line written on a chromosome arrives in the main file. -/
def MergedComplete (X : PrintEnv) (order : List Nat) (outs : List Lines) : Prop :=
  (printedOf X order outs).tsv = X.commonHeader ++ [printer_tsv_header] ++ (allLines order outs).1 ∧
  (printedOf X order outs).bed = [printer_bed_header] ++ (allLines order outs).2

/-- the same statement about the merge of the tree BEFORE the repair `fix_merge_header`: false (`merged_hash_witness`) -/
def MergedCompleteOrig (X : PrintEnv) (order : List Nat) (outs : List Lines) : Prop :=
  (printedOfOrig X order outs).tsv = X.commonHeader ++ [printer_tsv_header] ++ (allLines order outs).1 ∧
  (printedOfOrig X order outs).bed = [printer_bed_header] ++ (allLines order outs).2

theorem headerCount_append (hs body : List String) (h : ∀ l ∈ hs, isHeaderLine l = true) :
    headerCount (hs ++ body) = hs.length + headerCount body := by
  induction hs with
  | nil => simp
  | cons a t ih =>
    simp only [List.cons_append, headerCount, h a (by simp), if_true, List.length_cons,
      ih (fun x hx => h x (List.mem_cons_of_mem _ hx))]
    omega

theorem drop_header (hs body : List String) (h : ∀ l ∈ hs, isHeaderLine l = true) (hb : headerCount body = 0) :
    (hs ++ body).drop (headerCount (hs ++ body)) = body := by
  rw [headerCount_append hs body h, hb, Nat.add_zero, List.drop_left]

/-- `line.startswith("#")` for a TSV line is decided by the read id -/
theorem isHeaderLine_render (l : TsvLine) : isHeaderLine l.render = isHeaderLine l.readId := by
  unfold isHeaderLine TsvLine.render
  simp only [String.append_assoc, String.toList_append]
  cases h : l.readId.toList with
  | nil => simp
  | cons c cs => simp

/-- a chromosome body that is empty or begins with a read whose id does not start with `#` -/
theorem headerCount_tsv_zero (ls : List TsvLine) (h : ∀ l, ls.head? = some l → isHeaderLine l.readId = false) :
    headerCount (ls.map TsvLine.render) = 0 := by
  cases ls with
  | nil => rfl
  | cons l t => simp [headerCount, isHeaderLine_render, h l rfl]

/-- **merged_files** (full strength, no hypothesis - not on the command-line header lines, not on the read ids, not on
    the contig names): the main files are the headers followed by every line of every chromosome in `merge_files`
    order.  `merge_assignments` passes the number of lines each printer wrote before its first record, so a line is
    skipped because of WHERE it stands, never because of how it begins. -/
theorem merged_files (X : PrintEnv) (order : List Nat) (outs : List Lines) : MergedComplete X order outs := by
  have hT : ∀ L : Lines, (tsvPart X L).drop (tsvHeaderLines X) = L.tsv.map TsvLine.render := by
    intro L
    unfold tsvPart tsvHeaderLines
    have : (X.commonHeader ++ [printer_tsv_header]).length = X.commonHeader.length + 1 := by simp
    rw [← this, List.drop_left]
  have hB : ∀ L : Lines, (bedPart L).drop bedHeaderLines = L.bed.map C14.BedRecord.render := by
    intro L; rfl
  have hget : ∀ (f : Lines → List String) (c : Nat), (outs.map f)[c]? = (outs[c]?).map f := by
    intro f c; simp
  unfold MergedComplete printedOf mergeBody allLines
  constructor
  · simp only
    congr 1
    have : (order.filterMap fun c => (outs.map (tsvPart X))[c]?) =
        (order.filterMap (fun c => outs[c]?)).map (tsvPart X) := by
      simp only [hget, List.map_filterMap]
    rw [this, List.flatMap_map]
    exact IsoVerif.Lemmas.C15.flatMap_congr_mem (fun L _ => hT L)
  · simp only
    congr 1
    have : (order.filterMap fun c => (outs.map bedPart)[c]?) = (order.filterMap (fun c => outs[c]?)).map bedPart := by
      simp only [hget, List.map_filterMap]
    rw [this, List.flatMap_map]
    exact IsoVerif.Lemmas.C15.flatMap_congr_mem (fun L _ => hB L)

/-- **merged_files_orig_partial** (what held of the unrepaired merge): if the two command-line header lines start with
    `#` and NO per-chromosome body begins with a `#`-line, the main files are complete; the hypothesis on the bodies is
    the exact excluded class (`merged_hash_witness`); `headerCount_tsv_zero` discharges it from the read ids. -/
theorem merged_files_orig_partial (X : PrintEnv) (order : List Nat) (outs : List Lines)
    (hX : ∀ l ∈ X.commonHeader, isHeaderLine l = true)
    (hb : ∀ L ∈ outs, headerCount (L.tsv.map TsvLine.render) = 0 ∧ headerCount (L.bed.map C14.BedRecord.render) = 0) :
    MergedCompleteOrig X order outs := by
  have hmem : ∀ L ∈ order.filterMap (fun c => outs[c]?), L ∈ outs := by
    intro L hL
    obtain ⟨c, _, hc⟩ := List.mem_filterMap.mp hL
    exact List.mem_of_getElem? hc
  have hT : ∀ L ∈ outs, (tsvPart X L).drop (headerCount (tsvPart X L)) = L.tsv.map TsvLine.render := by
    intro L hL
    unfold tsvPart
    apply drop_header _ _ _ (hb L hL).1
    intro l hl
    rcases List.mem_append.mp hl with h | h
    · exact hX l h
    · simp only [List.mem_singleton] at h
      subst h
      decide +kernel
  have hB : ∀ L ∈ outs, (bedPart L).drop (headerCount (bedPart L)) = L.bed.map C14.BedRecord.render := by
    intro L hL
    unfold bedPart
    apply drop_header _ _ _ (hb L hL).2
    intro l hl
    simp only [List.mem_singleton] at hl
    subst hl
    decide +kernel
  have hget : ∀ (f : Lines → List String) (c : Nat), (outs.map f)[c]? = (outs[c]?).map f := by
    intro f c; simp
  unfold MergedCompleteOrig printedOfOrig mergeBodyOrig allLines
  constructor
  · simp only
    congr 1
    have : (order.filterMap fun c => (outs.map (tsvPart X))[c]?) =
        (order.filterMap (fun c => outs[c]?)).map (tsvPart X) := by
      simp only [hget, List.map_filterMap]
    rw [this, List.flatMap_map]
    exact IsoVerif.Lemmas.C15.flatMap_congr_mem (fun L hL => hT L (hmem L hL))
  · simp only
    congr 1
    have : (order.filterMap fun c => (outs.map bedPart)[c]?) = (order.filterMap (fun c => outs[c]?)).map bedPart := by
      simp only [hget, List.map_filterMap]
    rw [this, List.flatMap_map]
    exact IsoVerif.Lemmas.C15.flatMap_congr_mem (fun L hL => hB L (hmem L hL))

/-- the two lines of a one-chromosome experiment: read `#r1` first, then `r2` -/
def exHashLines : Lines :=
  { bed := [], tsv := [{ readId := "#r1", chr := "c1", strand := "+", isoformId := ".", geneId := ".",
                          assignmentType := "intergenic", events := ".", exons := "1-5", info := "*" },
                        { readId := "r2", chr := "c1", strand := "+", isoformId := ".", geneId := ".",
                          assignmentType := "intergenic", events := ".", exons := "11-15", info := "*" }] }

def exHashEnv : PrintEnv :=
  { params := ⟨false, false⟩, isoformIntrons := fun _ => [], chrSeq := fun _ => [],
    commonHeader := ["# Command line: isoquant.py\n", "# IsoQuant version: 3.4.0\n"] }

/-- **merged_hash_witness**: the negation of `MergedCompleteOrig` on a concrete experiment – the per-chromosome file
    holds the lines of `#r1` and `r2`, the read_assignments.tsv merged by the unrepaired code only the line of `r2`:
    `merge_files` counted the line of `#r1` as a fourth header line; the repaired merge keeps both lines.  Replayed on
    the real code by the oracle (`printers:hash_led_line_lost`). -/
theorem merged_hash_witness :
    ¬ MergedCompleteOrig exHashEnv [0] [exHashLines] ∧
    (printedOfOrig exHashEnv [0] [exHashLines]).tsv =
      ["# Command line: isoquant.py\n", "# IsoQuant version: 3.4.0\n", printer_tsv_header,
       "r2\tc1\t+\t.\t.\tintergenic\t.\t11-15\t*\n"] ∧
    (tsvPart exHashEnv exHashLines).length = 5 ∧
    (printedOf exHashEnv [0] [exHashLines]).tsv =
      ["# Command line: isoquant.py\n", "# IsoQuant version: 3.4.0\n", printer_tsv_header,
       "#r1\tc1\t+\t.\t.\tintergenic\t.\t1-5\t*\n", "r2\tc1\t+\t.\t.\tintergenic\t.\t11-15\t*\n"] := by
  refine ⟨?_, by decide +kernel, by decide +kernel, by decide +kernel⟩
  intro h
  have := congrArg List.length h.1
  revert this
  decide +kernel

-- non-vacuity of `merged_files_orig_partial`: the same experiment with the reads in the other order meets the hypotheses
example : (∀ l ∈ exHashEnv.commonHeader, isHeaderLine l = true) ∧
    (∀ L ∈ [{ exHashLines with tsv := exHashLines.tsv.reverse }],
      headerCount (L.tsv.map TsvLine.render) = 0 ∧ headerCount (L.bed.map C14.BedRecord.render) = 0) := by
  refine ⟨by decide +kernel, ?_⟩
  intro L hL
  simp only [List.mem_singleton] at hL
  subst hL
  exact ⟨by decide +kernel, by decide +kernel⟩

/-! ## 4. non-vacuity on the concrete experiment of Props/C15Reuse.lean -/

open IsoVerif.Props.C15Reuse in
/-- the verdict file of chromosome c2: the secondary alignment of read `ra` (assignment id 2) is `suspended` -/
def exDict : List (Nat × List Rec) :=
  [(exEnv.intern "ra", [{ toRec exEnv (basicOf (mkRA 2 "ra" "c2" "G2" "T2" true 0)) with
                           atype := .suspended, gtype := .suspended }])]

open IsoVerif.Props.C15Reuse in
-- hypotheses of `suspended_is_dropped` / `dropped_record_prints_nothing` (record 2 of `ra`) and of
-- `kept_records_lines` / `kept_line_counts` / `bed_reads_are_kept_reads` (chromosome c2 prints): `rb` is kept and printed
-- once in each file, `ra` nowhere
example :
    loadOne exDict (fullOf exEnv (mkRA 2 "ra" "c2" "G2" "T2" true 0)) = none ∧
    (loadOne exDict (fullOf exEnv (mkRA 3 "rb" "c2" "G2" "T2" false (mkRat 7 10)))).isSome = true ∧
    ((exChroms[1]?).bind (fun c => printGroups exEnv exX "c2" exDict c.groups)).map
        (fun L => (L.bed.map (·.name), L.tsv.map (·.readId))) = some (["rb"], ["rb"]) ∧
    ((exChroms[1]?).map (fun c => (keptRecords exEnv exDict c.groups).map (·.readId))) = some ["rb"] := by
  refine ⟨by decide +kernel, by decide +kernel, by decide +kernel, by decide +kernel⟩

end IsoVerif.Props.C05Printers
