/-
C16 (part 5) — the reference projection of the tail finder: `move_ref_coord_alogn_alignment`
(src/polya_finder.py; model `moveRefCoord` in Model/PolyAFinder.lean) returns exactly what a base-by-base SAM
projection gives, for every CIGAR over all nine operation kinds, both directions and every shift.

The specification (Model/TailSpec.lean) has none of the loop's locals: the CIGAR is read from the chosen end, the
clip operations at that end are skipped, and the operations up to the next clip are expanded into one column per base
(`expand`); `ProjectsTo cols q r` says that `r` is the number of reference bases at or before the query base number
`q`, minus one.
-/
import IsoVerif.Model.TailSpec
import IsoVerif.Lemmas.MoveRef

namespace IsoVerif.Props.C16MoveRef
open IsoVerif.Gen IsoVerif.Model IsoVerif.Model.C16 IsoVerif.Lemmas.C16

/-- **move_ref_coord_spec** — for every CIGAR (all nine operation kinds, lengths ≥ 0), every direction and every
    non-zero shift: let `core` be the operations the walk sees (CIGAR read from the start for a positive shift, from
    the end for a negative one; leading clips skipped; up to the next clip).
    * If a `P` operation lies in `core` before `|shift| + 1` query bases are consumed, the code raises (`TypeError`).
    * Otherwise it returns `r` with `ProjectsTo (expand core) |shift| r`: the 0-based reference offset (from the end
      the walk started at) of the query base `|shift|` bases inside the alignment — the reference base it is aligned
      to, the nearest reference base before it for an inserted base, the last reference base of `core` when the
      alignment holds no more than `|shift|` query bases. -/
theorem move_ref_coord_spec (cigar : List CigarOp) (shift : Int) (h0 : shift ≠ 0) (hne : cigar ≠ [])
    (hnn : NonNeg cigar) :
    ((∃ pre l post, walkCore cigar (decide (shift > 0)) = pre ++ (CigarEvent.padding, l) :: post ∧
        queryLen pre ≤ shift.natAbs) → moveRefCoord cigar shift = none) ∧
    ((∀ pre l post, walkCore cigar (decide (shift > 0)) = pre ++ (CigarEvent.padding, l) :: post →
        (shift.natAbs : Int) < queryLen pre) →
      ∃ r, moveRefCoord cigar shift = some r ∧
        ProjectsTo (expand (walkCore cigar (decide (shift > 0)))) shift.natAbs r) := by
  rw [walkCore_eq]
  generalize hw : (if shift > 0 then cigar else cigar.reverse) = walk
  have hnw : NonNeg walk := by
    subst hw; intro o ho
    split at ho
    · exact hnn o ho
    · exact hnn o (List.mem_reverse.1 ho)
  have hnd : NonNeg (walk.drop (leadingClips walk)) := fun o ho => hnw o (List.mem_of_mem_drop ho)
  have habs : (if shift > 0 then shift else -shift) = (shift.natAbs : Int) := by split <;> omega
  have hmr : moveRefCoord cigar shift =
      (moveRefLoop ((shift.natAbs : Int) + 1) 0 0 (walk.drop (leadingClips walk))).map (· - 1) := by
    simp only [moveRefCoord, h0, hne, if_false, hw, habs]
  constructor
  · rintro ⟨pre, l, post, hc, hq⟩
    rw [hmr, moveRefLoop_pad _ _ 0 0 pre l post hnd (by omega) hc (by omega)]
    rfl
  · intro hp
    refine ⟨_, ?_, projectsTo_refColsUpTo _ shift.natAbs⟩
    rw [hmr, moveRefLoop_spec _ _ 0 0 hnd (by omega) (by intro pre l post hc; have := hp pre l post hc; omega)]
    simp

/-- the two remaining inputs: a zero shift is answered 0 without looking at the CIGAR; an empty CIGAR with a
    non-zero shift fails the `assert` -/
theorem move_ref_coord_edge (cigar : List CigarOp) (shift : Int) :
    moveRefCoord cigar 0 = some 0 ∧ (shift ≠ 0 → moveRefCoord [] shift = none) := by
  constructor
  · simp [moveRefCoord]
  · intro h; simp [moveRefCoord, h]

/-- the same statement as one equation (this is the function the driver evaluates against the real code):
    the modelled walk equals the base-by-base specification on every CIGAR with non-negative lengths -/
theorem move_ref_coord_eq_spec (cigar : List CigarOp) (shift : Int) (hnn : NonNeg cigar) :
    moveRefCoord cigar shift = moveRefCoordSpec cigar shift := by
  by_cases h0 : shift = 0
  · simp [moveRefCoord, moveRefCoordSpec, h0]
  by_cases hne : cigar = []
  · simp [moveRefCoord, moveRefCoordSpec, h0, hne]
  obtain ⟨h1, h2⟩ := move_ref_coord_spec cigar shift h0 hne hnn
  simp only [moveRefCoordSpec, h0, hne, if_false]
  cases hp : padReached (walkCore cigar (decide (shift > 0))) shift.natAbs with
  | true =>
    simp only [if_true]
    exact h1 ((padReached_iff _ _).1 hp)
  | false =>
    simp only [Bool.false_eq_true, if_false]
    obtain ⟨r, hr, hproj⟩ := h2 (by
      intro pre l post hc
      by_cases hcon : (shift.natAbs : Int) < queryLen pre
      · exact hcon
      exfalso
      have : padReached (walkCore cigar (decide (shift > 0))) shift.natAbs = true :=
        (padReached_iff _ _).2 ⟨pre, l, post, hc, by omega⟩
      rw [hp] at this; cases this)
    rw [hr, projectsTo_unique _ _ _ _ hproj (projectsTo_refColsUpTo _ _)]

/-- **leading_clips_sam** — "clips skipped": when the clipping at the walked end is SAM-valid (nothing, `S`, `H`, or
    `H S` seen from that end — i.e. a trailing `S H` for a backward walk) the code's index arithmetic
    (`current_pos = 2 / 1 / 0`, `-3 / -2 / -1`) skips exactly the clip operations -/
theorem leading_clips_sam (walk : List CigarOp) (h : ClipsValid walk) :
    walk.drop (leadingClips walk) = walk.dropWhile (fun o => isClipOp o.1) := by
  have tw_nil : ∀ l : List CigarOp, (l.takeWhile (fun o => isClipOp o.1)) = [] →
      l.dropWhile (fun o => isClipOp o.1) = l := by
    intro l hl
    have := List.takeWhile_append_dropWhile (p := fun o : CigarOp => isClipOp o.1) (l := l)
    rw [hl] at this; simpa using this
  unfold ClipsValid at h
  match walk, h with
  | [], _ => rfl
  | [(k, n)], _ => cases k <;> simp [leadingClips, isClipOp]
  | (k1, n1) :: (k2, n2) :: rest, h =>
    cases k1 <;> cases k2 <;>
      simp [leadingClips, isClipOp] at h ⊢ <;>
      first
      | (apply (tw_nil rest _).symm; simpa [isClipOp] using h)
      | skip

/-- non-vacuity and the shapes the seeded slip C16_a2 is about: a trailing `S H` is skipped as a whole by the
    backward walk (`30M 6S 9H`, shift −2: the base two bases before the end is one reference base further in) -/
example : ClipsValid ([(CigarEvent.«match», 30), (CigarEvent.soft_clipping, 6), (CigarEvent.hard_clipping, 9)] : List CigarOp).reverse ∧
    moveRefCoord [(.«match», 30), (.soft_clipping, 6), (.hard_clipping, 9)] (-2) = some 2 ∧
    moveRefCoord [(.hard_clipping, 9), (.soft_clipping, 6), (.«match», 30)] 2 = some 2 ∧
    moveRefCoord [(.«match», 30)] (-2) = some 2 := by decide

/-- non-vacuity of the `P` clause and of the projection through an insertion / a deletion / an intron:
    `3M 2D 2I 3M`, base 3 (first inserted base) projects to offset 4 (the last deleted base);
    `3M 5N 3M`, base 3 projects to offset 8 -/
example : moveRefCoord [(.«match», 3), (.padding, 1), (.«match», 3)] 3 = none ∧
    moveRefCoord [(.«match», 3), (.padding, 1), (.«match», 3)] 2 = some 2 ∧
    moveRefCoord [(.«match», 3), (.deletion, 2), (.insertion, 2), (.«match», 3)] 3 = some 4 ∧
    moveRefCoord [(.«match», 3), (.skipped, 5), (.«match», 3)] 3 = some 8 := by decide

end IsoVerif.Props.C16MoveRef
