/-
C11 — reflection of the read-strand decision: `AlignmentCollector.get_assignment_strand` and `StrandDetector.get_strand`
(Model/Canonical.lean, property C18's model).

  mirror_dual_getAssignmentStrand : the strand reported for the mirrored read (matched transcripts flipped, polyA ↔ polyT,
      introns mirrored, detector memo mirrored) is the FLIPPED strand — for every read, every assignment type, every exon
      count, every memo, every reference pair.
Hypotheses: (a) the splice sites of each intron are read as the opposite strand on the other reference (`SiteVotesMirrored`;
for a reverse-complemented upper-case reference this is `mirror_dual_sitesOfIntron` + `mirror_dual_intronStrandOfSites` of
Props/C11Canonical.lean; evaluated on the real `get_intron_strand` with real reverse complements on every run), (b) no
tail position is mirrored onto the sentinel −1.  `assignment_strand_sentinel_witness` shows (b) is needed.
The decision layer itself (unique match → transcript strand; mono-exonic → tails, both tails → '.'; otherwise the
detector's vote with the tails as tie-break) needs no hypothesis: `mirror_dual_voteOf`, `mirror_dual_tailStrand`.
-/
import IsoVerif.Model.Canonical
import IsoVerif.Model.C11SymStrand
import IsoVerif.Lemmas.C11Mirror

namespace IsoVerif.Props.C11Strand
open IsoVerif.Gen IsoVerif.Model IsoVerif.Model.C11 IsoVerif.Model.C18 IsoVerif.Lemmas.C11

/-- each intron votes for the opposite strand on the other reference -/
def SiteVotesMirrored (L : Int) (seq seq' : Seq) (introns : List Iv) : Prop :=
  ∀ it ∈ introns, getIntronStrand (mirrorIv L it) seq' = flipStrandC (getIntronStrand it seq)

def NoCollM (L p : Int) : Prop := p ≠ -1 → L + 1 - p ≠ -1

theorem flipStrandC_involutive (s : Strand) : flipStrandC (flipStrandC s) = s := by cases s <;> rfl

/-- the vote of `StrandDetector.get_strand`: counts swapped and tail flags swapped ⇒ strand flipped -/
theorem mirror_dual_voteOf (f r : Nat) (a t : Bool) : voteOf r f t a = flipStrandC (voteOf f r a t) := by
  simp only [voteOf]
  by_cases h : f = r
  · subst h; cases a <;> cases t <;> simp [flipStrandC]
  · have h' : ¬ (r = f) := fun e => h e.symm
    simp only [h, h', if_false]
    by_cases h2 : r < f
    · have : ¬ (f < r) := by omega
      simp [h2, this, flipStrandC]
    · have : f < r := by omega
      simp [h2, this, flipStrandC]

/-- `get_clean_strand` -/
theorem mirror_dual_cleanOf (f r : Nat) : cleanOf r f = flipStrandC (cleanOf f r) := by
  simp only [cleanOf]
  by_cases h1 : f = 0 <;> by_cases h2 : r = 0
  · simp [h1, h2, flipStrandC]
  · have : r > 0 := by omega
    simp [h1, h2, this, flipStrandC]
  · have : f > 0 := by omega
    simp [h1, h2, this, flipStrandC]
  · have a : f > 0 := by omega
    have b : r > 0 := by omega
    simp [h1, h2, flipStrandC]

/-- the mono-exonic branch: tails only, both tails (or none) ⇒ '.' -/
theorem mirror_dual_tailStrand (a t : Bool) :
    (if t && !a then Strand.plus else if a && !t then Strand.minus else Strand.dot) =
      flipStrandC (if a && !t then Strand.plus else if t && !a then Strand.minus else Strand.dot) := by
  cases a <;> cases t <;> rfl

theorem mirrorPos_ne (L p : Int) (h : NoCollM L p) : (mirrorPos L p != -1) = (p != -1) := by
  unfold mirrorPos
  by_cases hp : p = -1
  · simp [hp]
  · have := h hp
    simp only [hp, if_false]
    have e1 : (L + 1 - p != -1) = true := by simpa using this
    have e2 : (p != -1) = true := by simpa using hp
    rw [e1, e2]

/-- the strand an intron contributes: the memo's answer if it has one, the reference's otherwise -/
def strandOf (seq : Seq) (σ : StrandDict) (it : Iv) : Strand :=
  match σ.lookup it with
  | some st => st
  | none => getIntronStrand it seq

theorem lookup_mirrorStrandDict (L : Int) (σ : StrandDict) (it : Iv) :
    (mirrorStrandDict L σ).lookup (mirrorIv L it) = (σ.lookup it).map flipStrandC := by
  induction σ with
  | nil => rfl
  | cons p ps ih =>
    obtain ⟨k, v⟩ := p
    simp only [mirrorStrandDict, List.map_cons, List.lookup_cons] at ih ⊢
    have : (mirrorIv L it == mirrorIv L k) = (it == k) := by
      rw [Bool.eq_iff_iff]; simp only [beq_iff_eq]
      constructor
      · intro e; have := congrArg (mirrorIv L) e; simpa [mirrorIv_mirrorIv] using this
      · intro e; rw [e]
    rw [this]
    cases it == k <;> simp [ih]

/-- the counting loop of `count_canonical_sites` counts, whatever the memo does, the introns whose `strandOf` (w.r.t. the
    memo it started with) is '+' resp. '-' -/
theorem countLoop_counts (seq : Seq) (σ0 : StrandDict) : ∀ (l : List Iv) (σ : StrandDict) (f r : Nat),
    (∀ it st, σ.lookup it = some st → st = strandOf seq σ0 it) → (∀ it, σ.lookup it = none → σ0.lookup it = none) →
    (countLoop seq l σ f r).1 =
      (f + l.countP (fun it => strandOf seq σ0 it == .plus), r + l.countP (fun it => strandOf seq σ0 it == .minus)) := by
  intro l
  induction l with
  | nil => intro σ f r _ _; simp [countLoop]
  | cons it rest ih =>
    intro σ f r h1 h2
    simp only [countLoop]
    cases hl : σ.lookup it with
    | some st =>
      simp only []
      rw [ih σ _ _ h1 h2]
      have e := h1 it st hl
      simp only [List.countP_cons, ← e]
      cases st <;> simp <;> omega
    | none =>
      simp only []
      have hs : strandOf seq σ0 it = getIntronStrand it seq := by simp [strandOf, h2 it hl]
      rw [ih ((it, getIntronStrand it seq) :: σ) _ _ ?_ ?_]
      · simp only [List.countP_cons, hs]
        cases getIntronStrand it seq <;> simp <;> omega
      · intro it' st' hl'
        simp only [List.lookup_cons] at hl'
        by_cases e : it' == it
        · simp only [e] at hl'
          have e' : it' = it := by simpa using e
          subst e'
          rw [hs]; exact (Option.some.inj hl').symm
        · simp only [e] at hl'
          exact h1 it' st' hl'
      · intro it' hl'
        simp only [List.lookup_cons] at hl'
        by_cases e : it' == it
        · simp [e] at hl'
        · simp only [e] at hl'
          exact h2 it' hl'

theorem countCanonicalSites_counts (seq : Seq) (l : List Iv) (σ : StrandDict) :
    (countCanonicalSites seq l σ).1 =
      (l.countP (fun it => strandOf seq σ it == .plus), l.countP (fun it => strandOf seq σ it == .minus)) := by
  have h := countLoop_counts seq σ l σ 0 0 (by intro it st h; simp [strandOf, h]) (by intro it h; exact h)
  simpa [countCanonicalSites] using h

/-- under reflection every intron contributes the flipped strand -/
theorem strandOf_mirror (L : Int) (seq seq' : Seq) (σ : StrandDict) (it : Iv)
    (h : getIntronStrand (mirrorIv L it) seq' = flipStrandC (getIntronStrand it seq)) :
    strandOf seq' (mirrorStrandDict L σ) (mirrorIv L it) = flipStrandC (strandOf seq σ it) := by
  simp only [strandOf, lookup_mirrorStrandDict]
  cases σ.lookup it with
  | some st => rfl
  | none => exact h

/-- **mirror_dual_countCanonicalSites** — the two counters swap -/
theorem mirror_dual_countCanonicalSites (L : Int) (seq seq' : Seq) (introns : List Iv) (σ : StrandDict)
    (hs : SiteVotesMirrored L seq seq' introns) :
    (countCanonicalSites seq' (mirrorL L introns) (mirrorStrandDict L σ)).1 =
      ((countCanonicalSites seq introns σ).1.2, (countCanonicalSites seq introns σ).1.1) := by
  rw [countCanonicalSites_counts, countCanonicalSites_counts]
  have key : ∀ (s : Strand), (mirrorL L introns).countP (fun it => strandOf seq' (mirrorStrandDict L σ) it == s) =
      introns.countP (fun it => strandOf seq σ it == flipStrandC s) := by
    intro s
    simp only [mirrorL, List.countP_reverse, List.countP_map]
    apply List.countP_congr
    intro it hit
    simp only [Function.comp, strandOf_mirror L seq seq' σ it (hs it hit)]
    cases strandOf seq σ it <;> cases s <;> simp [flipStrandC]
  rw [key .plus, key .minus]
  rfl

/-- **mirror_dual_detGetStrand** — `StrandDetector.get_strand` on the mirrored introns with the tail flags swapped -/
theorem mirror_dual_detGetStrand (L : Int) (seq seq' : Seq) (introns : List Iv) (a t : Bool) (σ : StrandDict)
    (hs : SiteVotesMirrored L seq seq' introns) :
    (detGetStrand seq' (mirrorL L introns) t a (mirrorStrandDict L σ)).1 = flipStrandC (detGetStrand seq introns a t σ).1 := by
  simp only [detGetStrand, mirror_dual_countCanonicalSites L seq seq' introns σ hs]
  exact mirror_dual_voteOf _ _ a t

theorem mirror_dual_getCleanStrand (L : Int) (seq seq' : Seq) (introns : List Iv) (σ : StrandDict)
    (hs : SiteVotesMirrored L seq seq' introns) :
    (getCleanStrand seq' (mirrorL L introns) (mirrorStrandDict L σ)).1 = flipStrandC (getCleanStrand seq introns σ).1 := by
  simp only [getCleanStrand, mirror_dual_countCanonicalSites L seq seq' introns σ hs]
  exact mirror_dual_cleanOf _ _

/-- **mirror_dual_getAssignmentStrand** — `get_assignment_strand` of the mirrored read is the flipped strand -/
theorem mirror_dual_getAssignmentStrand (L : Int) (seq seq' : Seq) (ra : ReadStrandInfo) (σ : StrandDict)
    (hs : SiteVotesMirrored L seq seq' ra.correctedIntrons)
    (h1 : NoCollM L ra.extPolyA) (h2 : NoCollM L ra.intPolyA) (h3 : NoCollM L ra.extPolyT) (h4 : NoCollM L ra.intPolyT) :
    (getAssignmentStrand seq' (mirrorStrandInfo L ra) (mirrorStrandDict L σ)).1 =
      flipStrandC (getAssignmentStrand seq ra σ).1 := by
  have hA : (mirrorStrandInfo L ra).hasPolyA = ra.hasPolyT := by
    simp only [ReadStrandInfo.hasPolyA, ReadStrandInfo.hasPolyT, mirrorStrandInfo, mirrorPos_ne L _ h3, mirrorPos_ne L _ h4]
  have hT : (mirrorStrandInfo L ra).hasPolyT = ra.hasPolyA := by
    simp only [ReadStrandInfo.hasPolyA, ReadStrandInfo.hasPolyT, mirrorStrandInfo, mirrorPos_ne L _ h1, mirrorPos_ne L _ h2]
  have hU : (mirrorStrandInfo L ra).uniqueMatchStrand = ra.uniqueMatchStrand.map flipStrandC := by
    simp only [ReadStrandInfo.uniqueMatchStrand, mirrorStrandInfo]
    cases ra.matchStrands with
    | nil => rfl
    | cons ms rest =>
      simp only [List.map_cons]
      split <;> simp [*]
  simp only [getAssignmentStrand, hU]
  cases ra.uniqueMatchStrand with
  | some ms => rfl
  | none =>
    simp only [Option.map_none, strandViaSites, hA, hT]
    have hn : (mirrorStrandInfo L ra).nExons = ra.nExons := rfl
    have hi : (mirrorStrandInfo L ra).correctedIntrons = mirrorL L ra.correctedIntrons := rfl
    rw [hn, hi]
    split
    · exact mirror_dual_tailStrand ra.hasPolyA ra.hasPolyT
    · exact mirror_dual_detGetStrand L seq seq' ra.correctedIntrons ra.hasPolyA ra.hasPolyT σ hs

/-- non-vacuity: an unspliced, not uniquely assigned read with BOTH a polyT head and a polyA tail is '.' in both
    orientations; with the polyA tail only it is '+', its mirror image '-' -/
example :
    (getAssignmentStrand [] ⟨[.plus], "ambiguous", 500, -1, 100, -1, 1, []⟩ []).1 = .dot ∧
    (getAssignmentStrand [] (mirrorStrandInfo 1000 ⟨[.plus], "ambiguous", 500, -1, 100, -1, 1, []⟩) []).1 = .dot ∧
    (getAssignmentStrand [] ⟨[.plus], "ambiguous", 500, -1, -1, -1, 1, []⟩ []).1 = .plus ∧
    (getAssignmentStrand [] (mirrorStrandInfo 1000 ⟨[.plus], "ambiguous", 500, -1, -1, -1, 1, []⟩) []).1 = .minus := by
  decide

/-- **assignment_strand_sentinel_witness** — hypothesis (b) is needed: a polyA tail at L + 2 is mirrored onto −1, the
    mirrored read has no tail and is '.' instead of '-' -/
theorem assignment_strand_sentinel_witness :
    (getAssignmentStrand [] ⟨[], "intergenic", 1002, -1, -1, -1, 1, []⟩ []).1 = .plus ∧
    (getAssignmentStrand [] (mirrorStrandInfo 1000 ⟨[], "intergenic", 1002, -1, -1, -1, 1, []⟩) []).1 = .dot := by decide

end IsoVerif.Props.C11Strand
