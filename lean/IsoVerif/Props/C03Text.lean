/-
C03, text level — the lines `GFFPrinter.dump` writes (Model/GtfText.lean): grammar of a line, consistency of the ids inside
a block, what the reference attributes become.  Property theorems only; the order theorems are in Props/C03TextOrder.lean.

The format literals are the GENERATED ones (Gen/GtfFormat.lean): the `*_fmt_segs` lemmas are kernel evaluations of the
current literals, so an edited format string in /repo re-opens exactly the theorems below.
-/
import IsoVerif.Model.GtfText
import IsoVerif.Lemmas.C03Text

namespace IsoVerif.Props.C03Text
open IsoVerif.Gen IsoVerif.Model.C17 IsoVerif.Model.C03T IsoVerif.Lemmas.C17 IsoVerif.Lemmas.C03T

/-! ### what a line says -/

def SLine.gid : SLine → Str
  | .gene _ _ _ _ _ gid _ _ => gid
  | .transcript _ _ _ _ _ gid _ _ _ => gid
  | .feature _ _ _ _ _ _ gid _ _ _ => gid

/-- `none` for a gene line -/
def SLine.tid? : SLine → Option Str
  | .gene .. => none
  | .transcript _ _ _ _ _ _ tid _ _ => some tid
  | .feature _ _ _ _ _ _ _ tid _ _ => some tid

def SLine.chr : SLine → Str
  | .gene chr .. => chr
  | .transcript chr .. => chr
  | .feature chr .. => chr

def SLine.source : SLine → Str
  | .gene _ source .. => source
  | .transcript _ source .. => source
  | .feature _ source .. => source

def SLine.strand : SLine → Str
  | .gene _ _ _ _ strand _ _ _ => strand
  | .transcript _ _ _ _ strand _ _ _ _ => strand
  | .feature _ _ _ _ _ strand _ _ _ _ => strand

def SLine.additional : SLine → Attrs
  | .transcript _ _ _ _ _ _ _ a _ => a
  | _ => []

def SLine.extra : SLine → Str
  | .gene _ _ _ _ _ _ _ x => x
  | .transcript _ _ _ _ _ _ _ _ x => x
  | .feature _ _ _ _ _ _ _ _ _ x => x

/-- the first eight columns: seqname, source, feature, start, end, score, strand, frame -/
def fixedCols : SLine → List Str
  | .gene chr source s e strand _ _ _ => [chr, source, wGene, pyStrInt s, pyStrInt e, ['.'], strand, ['.']]
  | .transcript chr source s e strand _ _ _ _ => [chr, source, wTranscript, pyStrInt s, pyStrInt e, ['.'], strand, ['.']]
  | .feature chr source ftype s e strand _ _ _ _ => [chr, source, ftype, pyStrInt s, pyStrInt e, ['.'], strand, ['.']]

/-- the attribute column as `key "value";` pairs, `ps` being the pairs of the text copied from `feature_attributes` -/
def attrPairs : SLine → Option Str → Attrs → Attrs
  | .gene _ _ _ _ _ gid ntx _, _, ps => (kGeneId, gid) :: (kTranscripts, pyStrNat ntx) :: ps
  | .transcript _ _ _ _ _ gid tid additional _, _, ps => (kGeneId, gid) :: (kTranscriptId, tid) :: (additional ++ ps)
  | .feature _ _ _ _ _ _ gid tid num _, some id, ps =>
      (kGeneId, gid) :: (kTranscriptId, tid) :: (kExonNumber, pyStrNat num) :: (kExonId, id) :: ps
  | .feature .., none, _ => []

/-- the domain of the grammar theorem: no tab in any field, no quote in an attribute value, clean keys, and the text
    taken from `gene_info.feature_attributes` reads as the pairs `ps` (`set_gene_attributes_text` shows that it does) -/
structure CleanLine (l : SLine) (id : Option Str) (ps : Attrs) : Prop where
  cols : ∀ c ∈ fixedCols l, NoTab c
  gid : NoTab (SLine.gid l) ∧ CleanVal (SLine.gid l)
  tid : ∀ t, SLine.tid? l = some t → NoTab t ∧ CleanVal t
  additional : CleanAttrs (SLine.additional l) ∧ ∀ kv ∈ SLine.additional l, NoTab kv.1 ∧ NoTab kv.2
  extra : ReadsAs (SLine.extra l) ps ∧ NoTab (SLine.extra l)
  id : ∀ i, id = some i → NoTab i ∧ CleanVal i

theorem noTab_join_items : ∀ (a : Attrs), (∀ kv ∈ a, NoTab kv.1 ∧ NoTab kv.2) →
    NoTab (pyJoin [' '] (a.map (fun kv => item kv.1 kv.2)))
  | [], _ => by simp [NoTab, pyJoin]
  | [kv], h => by simpa [pyJoin] using noTab_item (h kv (by simp)).1 (h kv (by simp)).2
  | kv :: kv2 :: r, h => by
      have ih := noTab_join_items (kv2 :: r) (fun x hx => h x (by simp at hx ⊢; exact Or.inr hx))
      have h1 := noTab_item (h kv (by simp)).1 (h kv (by simp)).2
      have : pyJoin [' '] ((kv :: kv2 :: r).map (fun kv => item kv.1 kv.2))
          = item kv.1 kv.2 ++ ' ' :: pyJoin [' '] ((kv2 :: r).map (fun kv => item kv.1 kv.2)) := by simp [pyJoin]
      rw [this]
      simp only [NoTab, List.mem_append, List.mem_cons, not_or] at *
      exact ⟨h1, by decide, ih⟩

theorem noTab_key (k : Str) (h : ∀ c ∈ k, c ≠ '\t') : NoTab k := fun hm => h _ hm rfl

theorem noTab_kGeneId : NoTab kGeneId := by simp [NoTab, kGeneId]
theorem noTab_kTranscripts : NoTab kTranscripts := by simp [NoTab, kTranscripts]
theorem noTab_kTranscriptId : NoTab kTranscriptId := by simp [NoTab, kTranscriptId]
theorem noTab_kExonNumber : NoTab kExonNumber := by simp [NoTab, kExonNumber]
theorem noTab_kExonId : NoTab kExonId := by simp [NoTab, kExonId]

theorem noTab_sp {a b : Str} (ha : NoTab a) (hb : NoTab b) : NoTab (a ++ ' ' :: b) := by
  simp only [NoTab, List.mem_append, List.mem_cons, not_or] at *
  exact ⟨ha, by decide, hb⟩

theorem noTab_app {a b : Str} (ha : NoTab a) (hb : NoTab b) : NoTab (a ++ b) := by
  simp only [NoTab, List.mem_append, not_or] at *
  exact ⟨ha, hb⟩

/-- **dump_line_grammar.**  Every line the printer writes for a structured line with clean fields is the nine columns
    `seqname, source, feature, start, end, ".", strand, ".", attributes` joined by tabs and closed by a newline; the start
    and end columns are the decimal renderings of the model's coordinates; splitting the text at tabs gives back exactly
    these nine columns; and the attribute column reads back (`parseAttrs`: `key "value";` items separated by blanks) as
    `gene_id`, (`transcripts` | `transcript_id` [, `exon_number`, `exon_id`]), the additional attributes, the reference
    attributes — nothing else, in that order. -/
theorem dump_line_grammar (l : SLine) (id : Option Str) (ps : Attrs) (hid : (SLine.key? l).isSome → id.isSome)
    (hc : CleanLine l id ps) :
    ∃ col, renderLine (l, id) = some (pyJoin ['\t'] (fixedCols l ++ [col]) ++ ['\n']) ∧
      pySplit '\t' (pyJoin ['\t'] (fixedCols l ++ [col])) = fixedCols l ++ [col] ∧
      (fixedCols l ++ [col]).length = 9 ∧
      parseAttrs col = some (attrPairs l id ps) := by
  obtain ⟨hcols, hgid, htid, hadd, hextra, hidc⟩ := hc
  have split : ∀ col, NoTab col → pySplit '\t' (pyJoin ['\t'] (fixedCols l ++ [col])) = fixedCols l ++ [col] := by
    intro col hcol
    apply pySplit_join_tabs
    · simp
    · intro c hm
      rcases List.mem_append.mp hm with h | h
      · exact hcols c h
      · simp only [List.mem_cons, List.not_mem_nil, or_false] at h; subst h; exact hcol
  cases l with
  | gene chr source s e strand gid ntx extra =>
    refine ⟨_, gene_render chr source strand gid extra s e ntx id, split _ ?_, rfl, ?_⟩
    · exact noTab_sp (noTab_item noTab_kGeneId hgid.1)
        (noTab_sp (noTab_item noTab_kTranscripts (tab_not_mem_pyStrNat ntx)) hextra.2)
    · exact readsAs_parse (readsAs_append_blank cleanKey_geneId hgid.2
        (readsAs_append_blank cleanKey_transcripts (quote_not_mem_pyStrNat ntx) hextra.1))
  | transcript chr source s e strand gid tid additional extra =>
    have ht := htid tid rfl
    refine ⟨_, transcript_render chr source strand gid tid extra s e additional id, split _ ?_, rfl, ?_⟩
    · exact noTab_sp (noTab_item noTab_kGeneId hgid.1)
        (noTab_sp (noTab_item noTab_kTranscriptId ht.1) (noTab_app (noTab_join_items additional hadd.2) hextra.2))
    · exact readsAs_parse (readsAs_append_blank cleanKey_geneId hgid.2
        (readsAs_append_blank cleanKey_transcriptId ht.2 (readsAs_join additional hadd.1 hextra.1)))
  | feature chr source ftype s e strand gid tid num extra =>
    have ht := htid tid rfl
    cases id with
    | none => simp [SLine.key?] at hid
    | some eid =>
      have hi := hidc eid rfl
      refine ⟨_, feature_render chr source ftype strand gid tid extra eid s e num, split _ ?_, rfl, ?_⟩
      · exact noTab_sp (noTab_item noTab_kGeneId hgid.1) (noTab_sp (noTab_item noTab_kTranscriptId ht.1)
          (noTab_sp (noTab_item noTab_kExonNumber (tab_not_mem_pyStrNat num)) (noTab_sp (noTab_item noTab_kExonId hi.1) hextra.2)))
      · exact readsAs_parse (readsAs_append_blank cleanKey_geneId hgid.2
          (readsAs_append_blank cleanKey_transcriptId ht.2
            (readsAs_append_blank cleanKey_exonNumber (quote_not_mem_pyStrNat num)
              (readsAs_append_blank cleanKey_exonId hi.2 hextra.1))))

/-- non-vacuity: a feature line with a reference attribute text meets `CleanLine`, and the theorem's reading is the expected one -/
example : ∃ ps, CleanLine (SLine.feature "c1".toList "HAVANA".toList "CDS".toList 10 20 "-".toList "G1".toList "T1".toList 2
      (' ' :: giText [("tag".toList, "basic".toList)])) (some "c1.7".toList) ps ∧
    attrPairs (SLine.feature "c1".toList "HAVANA".toList "CDS".toList 10 20 "-".toList "G1".toList "T1".toList 2
      (' ' :: giText [("tag".toList, "basic".toList)])) (some "c1.7".toList) ps
      = [(kGeneId, "G1".toList), (kTranscriptId, "T1".toList), (kExonNumber, "2".toList), (kExonId, "c1.7".toList),
         ("tag".toList, "basic".toList)] := by
  refine ⟨[("tag".toList, "basic".toList)], ⟨?_, ?_, ?_, ?_, ?_, ?_⟩, by decide +kernel⟩
  · simp only [fixedCols]; decide +kernel
  · simp only [SLine.gid]; decide +kernel
  · intro t h; simp only [SLine.tid?, Option.some.injEq] at h; subst h; decide +kernel
  · simp [SLine.additional, CleanAttrs]
  · refine ⟨readsAs_blank (readsAs_giText _ ?_), by simp only [SLine.extra]; decide +kernel⟩
    intro kv h
    simp only [List.mem_cons, List.not_mem_nil, or_false] at h
    subst h
    exact ⟨⟨⟨_, _, rfl, by decide⟩, by decide +kernel⟩, by decide +kernel⟩
  · intro i h; simp only [Option.some.injEq] at h; subst h; decide +kernel

/-- every line renders: none of the current format literals can raise a TypeError -/
theorem render_total (l : SLine) (id : Option Str) (hid : (SLine.key? l).isSome → id.isSome) :
    ∃ body, renderLine (l, id) = some (body ++ ['\n']) := by
  cases l with
  | gene chr source s e strand gid ntx extra => exact ⟨_, gene_render ..⟩
  | transcript chr source s e strand gid tid additional extra => exact ⟨_, transcript_render ..⟩
  | feature chr source ftype s e strand gid tid num extra =>
    cases id with
    | none => simp [SLine.key?] at hid
    | some eid => exact ⟨_, feature_render ..⟩

/-- **grammar witness** (outside `CleanLine`): a quote inside a value breaks the attribute column — the printer does not
    escape; `gene_id "a"b";` is not of the form `key "value";` -/
theorem dump_line_grammar_witness :
    ∃ col, renderLine (SLine.gene "c1".toList "IsoQuant".toList 1 2 "+".toList ['a', '"', 'b'] 1 [], none)
        = some (pyJoin ['\t'] (fixedCols (SLine.gene "c1".toList "IsoQuant".toList 1 2 "+".toList ['a', '"', 'b'] 1 []) ++ [col]) ++ ['\n'])
      ∧ parseAttrs col = none := by
  refine ⟨_, gene_render .., ?_⟩
  decide +kernel


/-! ### reference transcripts: what of the annotation's attribute column survives -/

/-- the attributes `set_gene_attributes` keeps of a feature: keys outside the skip list, with a non-empty value list,
    each with its FIRST value only -/
def kept (skip : List String) (attrs : List (Str × List Str)) : Attrs :=
  attrs.filterMap (fun av => if inSkip skip av.1 then none else av.2.head?.map (fun v => (av.1, v)))

/-- **set_gene_attributes_text.**  One attribute loop of `set_gene_attributes` appends to the entry `key` exactly the text
    `k "v"; ` for every kept attribute, in the order of the feature's attribute dict — for each of the three generated
    (format, skip list) pairs. -/
theorem attr_loop_spec (fmt : String) (skip : List String) (key : Str)
    (hf : ∀ k v, pyFormat fmt [FArg.s k, FArg.s v] = some (item k v ++ [' '])) :
    ∀ (attrs : List (Str × List Str)) (d : List (Str × Str)),
      attrLoop fmt skip key attrs d =
        some ((kept skip attrs).foldl (fun d kv => dictAppend key (item kv.1 kv.2 ++ [' ']) d) d)
  | [], d => rfl
  | (a, vs) :: r, d => by
      simp only [attrLoop]
      by_cases hs : inSkip skip a = true
      · simp [hs, kept, attr_loop_spec fmt skip key hf r d]
      · have hs' : inSkip skip a = false := by simpa using hs
        cases vs with
        | nil =>
          simp only [hs', Bool.false_eq_true, if_false]
          rw [attr_loop_spec fmt skip key hf r d]
          simp [kept, hs']
        | cons v vs' =>
          simp only [hs', Bool.false_eq_true, if_false, hf a v]
          rw [attr_loop_spec fmt skip key hf r _]
          simp [kept, hs']

theorem dictAppend_get_same (k t : Str) (d : List (Str × Str)) :
    assocGet k (dictAppend k t d) = some ((match assocGet k d with | some o => o | none => []) ++ t) := by
  unfold dictAppend
  cases h : assocGet k d with
  | none => simp [assocGet_set_same]
  | some o => simp [assocGet_set_same]

/-- the text an attribute loop leaves under its key, when the key was absent before: `giText` of the kept pairs (so it
    reads back as these pairs, `readsAs_giText`), and NO entry at all when nothing is kept -/
theorem attr_loop_text (fmt : String) (skip : List String) (key : Str)
    (hf : ∀ k v, pyFormat fmt [FArg.s k, FArg.s v] = some (item k v ++ [' ']))
    (attrs : List (Str × List Str)) (d d' : List (Str × Str)) (hnew : assocGet key d = none)
    (h : attrLoop fmt skip key attrs d = some d') :
    assocGet key d' = if kept skip attrs = [] then none else some (giText (kept skip attrs)) := by
  rw [attr_loop_spec fmt skip key hf] at h
  simp only [Option.some.injEq] at h
  subst h
  have gen : ∀ (ps : Attrs) (d : List (Str × Str)) (pre : Str), assocGet key d = some pre →
      assocGet key (ps.foldl (fun d kv => dictAppend key (item kv.1 kv.2 ++ [' ']) d) d) = some (pre ++ giText ps) := by
    intro ps
    induction ps with
    | nil => intro d pre hd; simpa [giText] using hd
    | cons kv r ih =>
      intro d pre hd
      simp only [List.foldl_cons]
      rw [ih _ (pre ++ (item kv.1 kv.2 ++ [' '])) (by rw [dictAppend_get_same, hd])]
      simp [giText]
  cases hk : kept skip attrs with
  | nil => simp [hnew]
  | cons kv r =>
    simp only [List.foldl_cons, reduceCtorEq, if_false]
    rw [gen r _ (item kv.1 kv.2 ++ [' ']) (by rw [dictAppend_get_same, hnew]; simp)]
    simp [giText]

/-- **reference_attrs_dropped** — the skip lists of the CURRENT source (generated), pinned: of a reference gene `gene_id`,
    `ID`, `level`, `Parent` are not copied; of a transcript additionally `transcript_id`, `exons` and (since fix 9e1d6f2, C18)
    `Canonical`; the exon list is used
    only to decide whether a feature line gets the transcript's text.  `gene_id` / `transcript_id` are re-emitted by the
    line formats; `level` and `ID`/`Parent` are lost; `exons` is recomputed. -/
theorem reference_attrs_dropped :
    gi_gene_attr_skip = ["gene_id", "ID", "level", "Parent"] ∧
    gi_transcript_attr_skip = ["transcript_id", "gene_id", "ID", "level", "exons", "Canonical", "Parent"] ∧
    gi_exon_attr_skip = ["transcript_id", "gene_id", "ID", "Parent", "level", "exon_id", "exon", "exon_number"] ∧
    gtf_default_source = "IsoQuant" ∧ tm_default_source = "IsoQuant" ∧ gtf_exons_key = "exons" ∧
    gtf_additional_keys = ["Canonical", "alternatives", "exons", "similar_reference_id"] := by decide +kernel

/-- **reference_verbatim** (structured part, with the source column): `from_reference_transcript` copies seqname, strand,
    gene, exon list, SOURCE and other features of the annotation; `additional_info` starts empty. -/
theorem reference_verbatim_fields (ri : RefInfo) (tid : Str) (m : AModel) (h : fromReferenceT ri tid = some m) :
    m.chr = ri.chr ∧ m.tid = tid ∧ assocGet tid ri.strands = some m.strand ∧ assocGet tid ri.geneOf = some m.gid ∧
    assocGet tid ri.isoforms = some m.exons ∧ assocGet tid ri.sources = some m.source ∧ m.additional = [] ∧
    m.other = (match assocGet tid ri.other with | some o => o | none => []) := by
  unfold fromReferenceT at h
  split at h
  · next strand gid exons source h1 h2 h3 h4 =>
    simp only [Option.some.injEq] at h
    subst h
    exact ⟨rfl, rfl, h1, h2, h3, h4, rfl, rfl⟩
  · cases h

def wTx : DbTx := ⟨"RT1".toList, "HAVANA".toList, ['-'],
  [("gene_id".toList, ["RG1".toList]), ("transcript_id".toList, ["RT1".toList]), ("level".toList, ["2".toList]),
   ("tag".toList, ["basic".toList, "CCDS".toList]), ("exons".toList, ["2".toList]), ("note".toList, [])],
  [(10, 20, "exon".toList), (30, 40, "exon".toList), (30, 35, "CDS".toList)],
  [(10, 20), (30, 40)]⟩
def wGeneDb : DbGene := ⟨"RG1".toList, "ENSEMBL".toList,
  [("gene_id".toList, ["RG1".toList]), ("gene_name".toList, ["A1".toList]), ("transcripts".toList, ["1".toList]),
   ("level".toList, ["2".toList])],
  [wTx], ["RT1".toList], [(10, 20, ['-']), (30, 40, ['-'])]⟩
def wRefFeats : List RefFeature := [⟨30, 40, ['-'], some ["ENSE7".toList]⟩]

def wText : Option (List String) :=
  match extendedStorageT (refInfoOf "c1".toList [wGeneDb]) [], ginfoOf "c1".toList [wGeneDb] [("RG1".toList, (5, 50))] with
  | some storage, some gi =>
    (dumpText (FeatureIdStorage.init SimpleIDDistributor.init (some wRefFeats) "c1".toList) [] gi storage).map
      (fun r => r.1.map String.ofList)
  | _, _ => none

/-- **reference_verbatim_attrs_witness** — what the extended annotation says about a reference gene with one transcript
    (`-` strand, two exons, one CDS; `tag "basic"; tag "CCDS"`, `level`, `exons`, an empty-valued `note`; the gene carries a
    `transcripts` attribute as IsoQuant's own output does).  PRESERVED: seqname, both source columns, coordinates, strand,
    gene_id, transcript_id, the reference `exon_id` (ENSE7), `gene_name`, the first `tag`.  DROPPED / CHANGED: the second value
    of `tag`; `level`; valueless `note`; `exons` is recomputed; the gene line carries `transcripts` TWICE (the printer's count
    and the copied reference attribute); `exon_number` is renumbered in printing order over exons AND the CDS (the second exon
    of the `-` transcript is number 1, the CDS number 2); exon lines carry the TRANSCRIPT's attributes (not the exon's own),
    after two blanks; the CDS line carries none. -/
theorem reference_verbatim_attrs_witness : wText = some
    ["c1\tENSEMBL\tgene\t5\t50\t.\t-\t.\tgene_id \"RG1\"; transcripts \"1\"; gene_name \"A1\"; transcripts \"1\"; \n",
     "c1\tHAVANA\ttranscript\t10\t40\t.\t-\t.\tgene_id \"RG1\"; transcript_id \"RT1\"; exons \"2\"; tag \"basic\"; \n",
     "c1\tHAVANA\texon\t30\t40\t.\t-\t.\tgene_id \"RG1\"; transcript_id \"RT1\"; exon_number \"1\"; exon_id \"ENSE7\";  tag \"basic\"; \n",
     "c1\tHAVANA\tCDS\t30\t35\t.\t-\t.\tgene_id \"RG1\"; transcript_id \"RT1\"; exon_number \"2\"; exon_id \"c1.1\"; \n",
     "c1\tHAVANA\texon\t10\t20\t.\t-\t.\tgene_id \"RG1\"; transcript_id \"RT1\"; exon_number \"3\"; exon_id \"c1.2\";  tag \"basic\"; \n"] := by
  decide +kernel

/-- non-vacuity of `attr_loop_text` / `kept` on the witness transcript -/
example : kept gi_transcript_attr_skip wTx.attrs = [("tag".toList, "basic".toList)] := by decide +kernel

end IsoVerif.Props.C03Text
