/-
C15 — "for every representable value": the value domain of each object writer, declaratively.
`(writeX x).isSome` (the real `serialize` does not raise) holds exactly when every int field is in [0, 2^32)
(sign-bit ints in (−2^31, 2^31), shorts in [0, 2^16)), every string has fewer than 2^16 UTF-8 bytes, every list is
shorter than 2^32, every penalty `q` satisfies 0 ≤ trunc(q·2^20) < 2^32 – the domain of DESIGN.md §6 "C15".
Together with the `…_decode_encode` theorems (Props/C15Objects.lean), whose only hypothesis besides `Dom` is that
the writer succeeded, this gives the round trip on the whole documented domain (`…_on_domain` below).
-/
import IsoVerif.Lemmas.SerialDomain
import IsoVerif.Props.C15Objects

namespace IsoVerif.Props.C15Domain
open IsoVerif.Gen IsoVerif.Model IsoVerif.Model.Serial IsoVerif.Lemmas.Serial IsoVerif.Props.C15Objects

def EventOk (e : MatchEvent) : Prop :=
  IsU32 e.isoformRegion.1 ∧ IsU32 e.isoformRegion.2 ∧ IsU32 e.readRegion.1 ∧ IsU32 e.readRegion.2 ∧ IsS31 e.eventInfo

theorem match_event_encodable_iff (e : MatchEvent) : (writeMatchEvent e).isSome ↔ EventOk e := by
  have hv := MatchEventSubtype.value_lt e.eventType
  simp only [writeMatchEvent, seqW_isSome_iff, List.mem_cons, List.not_mem_nil, or_false, forall_eq_or_imp, forall_eq,
    writeInt4_isSome, writeIntNeg_isSome_iff, EventOk, IsS31, writeInt2_isSome, IsU16]
  have h2 : ser_SHORT_INT_BYTES = 2 := rfl
  rw [h2] at hv
  constructor
  · rintro ⟨_, h⟩; exact h
  · intro h; exact ⟨⟨by omega, by omega⟩, h⟩

def MatchOk (m : IsoformMatch) : Prop :=
  OptStrOk m.assignedGene ∧ OptStrOk m.assignedTranscript ∧ StrOk m.transcriptStrand ∧ PenaltyOk m.penaltyScore ∧
  ListOk EventOk m.events

theorem isoform_match_encodable_iff (m : IsoformMatch) : (writeIsoformMatch m).isSome ↔ MatchOk m := by
  have hv := MatchClassification.value_lt m.matchClassification
  have h2 : ser_SHORT_INT_BYTES = 2 := rfl
  rw [h2] at hv
  simp only [writeIsoformMatch, seqW_isSome_iff, List.mem_cons, List.not_mem_nil, or_false, forall_eq_or_imp, forall_eq,
    writeStringOrNone_isSome, writeString_isSome, writeShortInt_isSome, writePenalty_isSome,
    writeList_isSome _ _ _ match_event_encodable_iff, MatchOk, IsU16]
  constructor
  · rintro ⟨a, b, c, _, d, e⟩; exact ⟨a, b, c, d, e⟩
  · rintro ⟨a, b, c, d, e⟩; exact ⟨a, b, c, ⟨by omega, by omega⟩, d, e⟩

/-- the documented value domain of a saved read assignment -/
def RAOk (r : ReadAssignment) : Prop :=
  IsU32 r.assignmentId ∧ StrOk r.readId ∧ IsU32 r.genomicRegion.1 ∧ IsU32 r.genomicRegion.2 ∧
  ListOk (fun v => IsU32 v.1 ∧ IsU32 v.2) r.exons ∧ ListOk (fun v => IsU32 v.1 ∧ IsU32 v.2) r.correctedExons ∧
  IsS31 r.polyaInfo.externalPolyaPos ∧ IsS31 r.polyaInfo.externalPolytPos ∧
  IsS31 r.polyaInfo.internalPolyaPos ∧ IsS31 r.polyaInfo.internalPolytPos ∧
  StrOk r.readGroup ∧ StrOk r.mappedStrand ∧ StrOk r.strand ∧ StrOk r.chrId ∧ IsU16 r.mappingQuality ∧
  ListOk MatchOk r.isoformMatches ∧ DictOk r.additionalInfo ∧ DictOk r.additionalAttributes ∧
  ListOk IsS31 r.exonGeneProfile ∧ ListOk IsS31 r.intronGeneProfile

theorem read_assignment_encodable_iff (r : ReadAssignment) : (writeReadAssignment r).isSome ↔ RAOk r := by
  have hv1 := ReadAssignmentType.value_lt r.assignmentType
  have hv2 := ReadAssignmentType.value_lt r.geneAssignmentType
  have h2 : ser_SHORT_INT_BYTES = 2 := rfl
  rw [h2] at hv1 hv2
  have hb : IsU16 (if r.intronsMatch then 1 else 0) := by cases r.intronsMatch <;> simp [IsU16]
  simp only [writeReadAssignment, seqW_isSome_iff, List.mem_cons, List.not_mem_nil, or_false, forall_eq_or_imp, forall_eq,
    writeInt4_isSome, writeString_isSome, writeListOfPairs_isSome, writeBoolArray3_isSome, writeIntNeg_isSome_iff,
    writeShortInt_isSome, writeList_isSome _ _ _ isoform_match_encodable_iff, writeDict_isSome,
    writeList_isSome _ _ _ writeIntNeg_isSome_iff, RAOk, true_and, hb]
  have e1 : IsU16 (r.assignmentType.value : Nat) := ⟨by omega, by omega⟩
  have e2 : IsU16 (r.geneAssignmentType.value : Nat) := ⟨by omega, by omega⟩
  simp only [e1, e2, true_and]
  exact Iff.rfl

def BasicOk (b : BasicReadAssignment) : Prop :=
  IsU32 b.assignmentId ∧ StrOk b.readId ∧ StrOk b.chrId ∧ IsU32 b.start ∧ IsU32 b.end ∧
  IsU32 b.genomicRegion.1 ∧ IsU32 b.genomicRegion.2 ∧ PenaltyOk b.penaltyScore ∧
  ListOk StrOk b.genes ∧ ListOk StrOk b.isoforms

theorem basic_encodable_iff (b : BasicReadAssignment) : (writeBasic b).isSome ↔ BasicOk b := by
  have hv1 := ReadAssignmentType.value_lt b.assignmentType
  have hv2 := ReadAssignmentType.value_lt b.geneAssignmentType
  have h2 : ser_SHORT_INT_BYTES = 2 := rfl
  rw [h2] at hv1 hv2
  have e1 : IsU16 (b.assignmentType.value : Nat) := ⟨by omega, by omega⟩
  have e2 : IsU16 (b.geneAssignmentType.value : Nat) := ⟨by omega, by omega⟩
  simp only [writeBasic, seqW_isSome_iff, List.mem_cons, List.not_mem_nil, or_false, forall_eq_or_imp, forall_eq,
    writeInt4_isSome, writeString_isSome, writeBoolArray2_isSome, writeShortInt_isSome, writePenalty_isSome,
    writeList_isSome _ _ _ writeString_isSome, BasicOk, true_and, e1, e2]

def HeaderOk (g : GeneHeader) : Prop :=
  IsU32 g.delta ∧ ListOk StrOk g.geneIds ∧ StrOk g.chrId ∧ IsU32 g.start ∧ IsU32 g.end

theorem gene_header_encodable_iff (g : GeneHeader) : (writeGeneHeader g).isSome ↔ HeaderOk g := by
  simp only [writeGeneHeader, seqW_isSome_iff, List.mem_cons, List.not_mem_nil, or_false, forall_eq_or_imp, forall_eq,
    writeInt4_isSome, writeString_isSome, writeList_isSome _ _ _ writeString_isSome, HeaderOk]

/-- a penalty that is a multiple of 2^-20 below 2^12 is in the domain -/
theorem penaltyOk_of_multiple (n : Int) (h : IsU32 n) :
    PenaltyOk ((n : Rat) / ((ser_SHORT_FLOAT_MULTIPLIER : Nat) : Rat)) := by
  unfold PenaltyOk; rw [penaltyToInt_of_multiple]; exact h

/-- **decode_encode on the documented domain**: every read assignment whose fields are in range can be written, and
    what is written is read back (penalties truncated to 20 fractional bits) by the full reader and projected by the
    abridged reader, both stopping at the same byte -/
theorem read_assignment_roundtrip_on_domain (r : ReadAssignment) (hok : RAOk r) (hdom : RADom r) :
    ∃ bs, writeReadAssignment r = some bs ∧ ∀ rest,
      readReadAssignment.run (bs ++ rest) = some (quantRA r, rest) ∧
      (r.exons ≠ [] → readBasicFromReadAssignment.run (bs ++ rest) = some (basicOf (quantRA r), rest)) := by
  obtain ⟨bs, hbs⟩ := Option.isSome_iff_exists.mp ((read_assignment_encodable_iff r).mpr hok)
  exact ⟨bs, hbs, fun rest => ⟨read_assignment_decode_encode r bs rest hbs hdom,
    fun hne => (quick_reader_aligned r bs rest hbs hdom hne).1⟩⟩

/-- the concrete record of Props/C15Objects.lean is in the domain -/
example : RAOk exRA ∧ RADom exRA := by
  refine ⟨(read_assignment_encodable_iff exRA).mp (by decide +kernel), ?_, by decide +kernel, by decide +kernel,
    by decide +kernel⟩
  intro m hm
  simp only [exRA, List.mem_cons, List.not_mem_nil, or_false] at hm
  rcases hm with rfl | rfl <;> refine ⟨?_, ?_⟩ <;> intro s hs <;> cases hs <;> decide +kernel

end IsoVerif.Props.C15Domain
