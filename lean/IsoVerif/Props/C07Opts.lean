/-
C07 — more run configurations inside the file-system protocol model.

`Cfg` (Model/Resume.lean) now also carries `countExons` (`--count_exons`: the exon / intron count files and their grouped
variants, per chromosome, merged by `MStep.profile`), `noModel` (`--no_model_construction`: no GTF / model-count streams, no
`_transcript_stat`), `gzip` (the default without `--no_gzip`: three final files are gzip streams, path class `finalGz`) and
`highMemory` (`--high_memory`: collect_reads does not read the save files back).  `resume_correct`, `resume_correct_pool`,
`resume_correct_multi` and all their relatives quantify over `Cfg`, hence over these options (Props/C07*.lean: unchanged
statements, re-proved over the extended model).

This file adds what is specific to the new options:
* a resumed run does **not** run with the options of the killed run: `--high_memory` is taken from the resume command
  line (isoquant.py: its default in the resume parser is False, `load_previous_run` overrides the pickled value) and
  `--keep_tmp` can be switched on.  `resume_correct_from_opts` / `resume_correct_pool_from_opts`: the property holds for
  every choice of the two on the resume command line;
* `--high_memory` changes no file-system event of any run (`high_memory_changes_no_event`);
* non-vacuity: concrete configurations with the new options on, kill points inside the new stages.
-/
import IsoVerif.Lemmas.ResumeOpts
import IsoVerif.Props.C07Pool
import IsoVerif.Props.C07Multi

namespace IsoVerif.Props.C07Opts
open IsoVerif.Model.Resume IsoVerif.Lemmas.Resume IsoVerif.Props.C07 IsoVerif.Props.C07Pool IsoVerif.Props.C07Multi

/-- `verdictFrom` is the instance "the resume command line repeats `--high_memory` iff the killed run had it" -/
theorem verdictFromOpts_same (v : Variant) (cfg : Cfg) (ord ord' : List Path) (fs0 : FS) (k : Nat) :
    verdictFromOpts v cfg ord ord' cfg.highMemory false fs0 k = verdictFrom v cfg ord ord' fs0 k := by
  simp only [verdictFromOpts, verdictFrom, resumeCfg_same]

/-- **the property with the options of the resume command line**: the run is started on any file system `fs0` (history
    clauses as in `resume_correct_from`), killed after any `k` events once its parameters are saved, and resumed with
    *any* choice of `--high_memory` (`hm`: not restored from `.params`) and `--keep_tmp` (`kt`) on the resume command line:
    the resumed run completes and every final file equals that of the uninterrupted run with the options of the killed run -/
theorem resume_correct_from_opts {cfg : Cfg} (wf : WF cfg) (ord ord' : List Path) (hord : ord.Nodup) (hord' : ord'.Nodup)
    (hm kt : Bool) (fs0 : FS) (hs : cfg.fromSaves = true → SavesConsistent cfg fs0) (hi : IndexSound cfg fs0) (k : Nat)
    (hk : (lockList cfg fs0).length + 4 ≤ k) : verdictFromOpts fixed cfg ord ord' hm kt fs0 k = .equal := by
  obtain ⟨hevs, hok0, hfs0⟩ := run_split wf ord fs0
  have hJ0 := J0_cleaned fs0 hs hi
  have hcl : lockList cfg (cleaned cfg fs0) = [] := lockList_cleaned cfg fs0
  have hsv1 : cfg.fromSaves = true → SavesOK cfg (cleaned cfg fs0) := fun e =>
    savesOK_frame (hs e).1 (cleaned_other cfg fs0 rfl) (fun _ => cleaned_other cfg fs0 rfl) (fun _ => cleaned_other cfg fs0 rfl)
  obtain ⟨k', rfl⟩ : ∃ k', k = (lockList cfg fs0).length + k' := ⟨k - (lockList cfg fs0).length, by omega⟩
  have hk' : 4 ≤ k' := by omega
  have hcrash : crashFSFrom fixed cfg ord fs0 ((lockList cfg fs0).length + k') =
      applyAll (cleaned cfg fs0) ((run fixed cfg ord false (cleaned cfg fs0)).evs.take k') := by
    simp only [crashFSFrom, cleanEventsFrom, hevs]
    have := take_length_add ((lockList cfg fs0).map Ev.remove) (run fixed cfg ord false (cleaned cfg fs0)).evs k'
    rw [List.length_map] at this
    rw [this, applyAll_append]; rfl
  have hJ : J cfg (crashFSFrom fixed cfg ord fs0 ((lockList cfg fs0).length + k')) := by
    rw [hcrash]
    exact crash_state_invariant wf ord hord false hJ0 (by simp) (fun _ => hcl) hsv1 k' (Or.inl hk')
  have hsvc : cfg.fromSaves = true → SavesOK cfg (crashFSFrom fixed cfg ord fs0 ((lockList cfg fs0).length + k')) := by
    intro e
    rw [hcrash]
    have hunt : ∀ p, notSaves p = false →
        applyAll (cleaned cfg fs0) ((run fixed cfg ord false (cleaned cfg fs0)).evs.take k') p = cleaned cfg fs0 p := by
      intro p hp
      apply applyAll_untouched
      intro ev hev hpe
      have := saves_untouched wf e ord false (false && (cleaned cfg fs0).has .lock) (cleaned cfg fs0) ev (List.mem_of_mem_take hev)
      rw [hpe, hp] at this; exact absurd this (by simp)
    exact savesOK_frame (hsv1 e) (hunt _ rfl) (fun _ => hunt _ rfl) (fun _ => hunt _ rfl)
  -- the resumed run works with the configuration of its own command line: same locks, same guarded files, same finals
  have hJ' : J (resumeCfg cfg hm kt) (crashFSFrom fixed cfg ord fs0 ((lockList cfg fs0).length + k')) :=
    (J_resumeCfg hm kt).mpr hJ
  obtain ⟨_, _, hok, _, hfin⟩ := run_shape (WF_resumeCfg hm kt wf) ord' hord' true hJ'.2 (fun _ => hJ'.1) (by simp)
    (fun e => hsvc e)
  obtain ⟨_, _, _, _, hfin1⟩ := run_shape wf ord hord false hJ0 (by simp) (fun _ => hcl) hsv1
  simp only [verdictFromOpts, hok, Bool.not_true, Bool.false_eq_true, if_false]
  have : sameFinals cfg (run fixed (resumeCfg cfg hm kt) ord' true (crashFSFrom fixed cfg ord fs0 ((lockList cfg fs0).length + k'))).fs
      (run fixed cfg ord false fs0).fs = true := by
    simp only [sameFinals, List.all_eq_true, beq_iff_eq]
    intro p hp
    have h1 := hfin p (by rw [finalPaths_resumeCfg]; exact hp)
    have h2 := hfin1 p hp
    simp only [FS.good, beq_iff_eq] at h1 h2
    rw [h1, hfs0, h2]
  simp [this]

/-- fresh output folder, BAM input, any options on the resume command line -/
theorem resume_correct_opts {cfg : Cfg} (wf : WF cfg) (hfs : cfg.fromSaves = false) (ord ord' : List Path) (hord : ord.Nodup)
    (hord' : ord'.Nodup) (hm kt : Bool) (k : Nat) (hk : 4 ≤ k) :
    verdictFromOpts fixed cfg ord ord' hm kt FS.empty k = .equal :=
  resume_correct_from_opts wf ord ord' hord hord' hm kt FS.empty (fun e => by rw [hfs] at e; exact absurd e (by simp))
    (indexSound_empty cfg) k
    (by rw [lockList_empty]; simpa using hk)

/-- the same under a process pool: any schedules of the killed and of the resumed run -/
theorem resume_correct_pool_from_opts {cfg : Cfg} (wf : WF cfg) (ord ord' : List Path) (hord : ord.Nodup) (hord' : ord'.Nodup)
    (hm kt : Bool) (s1 s2 s1' s2' : List Chr) (fs0 : FS) (hs : cfg.fromSaves = true → SavesConsistent cfg fs0)
    (hi : IndexSound cfg fs0) (k : Nat)
    (hk : (lockList cfg fs0).length + 4 ≤ k) :
    verdictPoolFromOpts fixed cfg ord ord' hm kt s1 s2 s1' s2' fs0 k = .equal := by
  obtain ⟨hevs, hok0, hfs0⟩ := runPool_split wf ord s1 s2 fs0
  have hJ0 := J0_cleaned fs0 hs hi
  have hcl : lockList cfg (cleaned cfg fs0) = [] := lockList_cleaned cfg fs0
  have hsv1 : cfg.fromSaves = true → SavesOK cfg (cleaned cfg fs0) := fun e =>
    savesOK_frame (hs e).1 (cleaned_other cfg fs0 rfl) (fun _ => cleaned_other cfg fs0 rfl) (fun _ => cleaned_other cfg fs0 rfl)
  obtain ⟨k', rfl⟩ : ∃ k', k = (lockList cfg fs0).length + k' := ⟨k - (lockList cfg fs0).length, by omega⟩
  have hk' : 4 ≤ k' := by omega
  have hcrash : crashFSPool fixed cfg ord s1 s2 fs0 ((lockList cfg fs0).length + k') =
      applyAll (cleaned cfg fs0) ((runPool fixed cfg ord false s1 s2 (cleaned cfg fs0)).evs.take k') := by
    simp only [crashFSPool, hevs]
    have := take_length_add ((lockList cfg fs0).map Ev.remove) (runPool fixed cfg ord false s1 s2 (cleaned cfg fs0)).evs k'
    rw [List.length_map] at this
    rw [this, applyAll_append]; rfl
  have hJ : J cfg (crashFSPool fixed cfg ord s1 s2 fs0 ((lockList cfg fs0).length + k')) := by
    rw [hcrash]
    exact crash_state_invariant_pool wf ord hord false s1 s2 hJ0 (by simp) (fun _ => hcl) hsv1 k' (Or.inl hk')
  have hsvc : cfg.fromSaves = true → SavesOK cfg (crashFSPool fixed cfg ord s1 s2 fs0 ((lockList cfg fs0).length + k')) := by
    intro e
    rw [hcrash]
    have hunt : ∀ p, notSaves p = false →
        applyAll (cleaned cfg fs0) ((runPool fixed cfg ord false s1 s2 (cleaned cfg fs0)).evs.take k') p = cleaned cfg fs0 p := by
      intro p hp
      apply applyAll_untouched
      intro ev hev hpe
      have := saves_untouched_pool wf e ord false (false && (cleaned cfg fs0).has .lock) s1 s2 (cleaned cfg fs0) ev
        (List.mem_of_mem_take hev)
      rw [hpe, hp] at this; exact absurd this (by simp)
    exact savesOK_frame (hsv1 e) (hunt _ rfl) (fun _ => hunt _ rfl) (fun _ => hunt _ rfl)
  have hJ' : J (resumeCfg cfg hm kt) (crashFSPool fixed cfg ord s1 s2 fs0 ((lockList cfg fs0).length + k')) :=
    (J_resumeCfg hm kt).mpr hJ
  obtain ⟨_, _, hok, _, hfin⟩ := run_shape_pool (WF_resumeCfg hm kt wf) ord' hord' true s1' s2' hJ'.2 (fun _ => hJ'.1) (by simp)
    (fun e => hsvc e)
  obtain ⟨_, _, _, _, hfin1⟩ := run_shape_pool wf ord hord false s1 s2 hJ0 (by simp) (fun _ => hcl) hsv1
  simp only [verdictPoolFromOpts, hok, Bool.not_true, Bool.false_eq_true, if_false]
  have : sameFinals cfg (runPool fixed (resumeCfg cfg hm kt) ord' true s1' s2'
      (crashFSPool fixed cfg ord s1 s2 fs0 ((lockList cfg fs0).length + k'))).fs (runPool fixed cfg ord false s1 s2 fs0).fs = true := by
    simp only [sameFinals, List.all_eq_true, beq_iff_eq]
    intro p hp
    have h1 := hfin p (by rw [finalPaths_resumeCfg]; exact hp)
    have h2 := hfin1 p hp
    simp only [FS.good, beq_iff_eq] at h1 h2
    rw [h1, hfs0, h2]
  simp [this]

/-- `--high_memory` changes no file-system event of the only stage that looks at it (it removes the read-back of the save
    files, a check); no other stage mentions the option -/
theorem high_memory_changes_no_event (cfg : Cfg) (b sk : Bool) (fs : FS) :
    eventsOf (collectPost { cfg with highMemory := b } sk fs) = eventsOf (collectPost cfg sk fs) :=
  collectPost_events_high_memory cfg b sk fs

/-! ### non-vacuity: the new options on, kill points inside the new stages -/

/-- two chromosomes (processing order ≠ merge order), annotation, inline read groups, `--count_exons`, gzipped outputs,
    `--high_memory` -/
def cfgE : Cfg := { chrs := [0, 1], mchrs := [1, 0], bchrs := [0, 1], genedb := true, rg := .inline, keepTmp := false,
                    unmapped := true, fromSaves := false, countExons := true, gzip := true, highMemory := true }

def ordE : List Path := [.bamstat 1, .save 0, .groups 0, .processed 1, .trStat 0, .collected 0, .info, .lock, .multimap 1,
                         .rgLock, .readStat 1]

theorem cfgE_wf : WF cfgE := by
  refine ⟨by decide, by decide, by decide, ?_, by decide⟩
  intro c
  simp only [cfgE, List.mem_cons, List.not_mem_nil, or_false]
  constructor <;> rintro (rfl | rfl) <;> simp

/-- one chromosome, annotation, `--no_model_construction`, `--high_memory`, plain outputs -/
def cfgN : Cfg := { chrs := [0], mchrs := [0], bchrs := [0], genedb := true, rg := .none, keepTmp := false, unmapped := true,
                    fromSaves := false, noModel := true, highMemory := true }

-- what the options do to the run of the model (all by evaluation):
-- `--count_exons` + gzip: the three printers' final files are gzip streams, the counters' are not; the exon counter of a
-- chromosome is created by the aggregator, created again by `dump`, merged by an append to the final file
example : (Ev.create (.finalGz .bed)) ∈ cleanEvents fixed cfgE ordE ∧ (Ev.create (.finalGz .assign)) ∈ cleanEvents fixed cfgE ordE ∧
    (Ev.create (.finalGz .r2t)) ∈ cleanEvents fixed cfgE ordE ∧ (Ev.create (.final .bed)) ∉ cleanEvents fixed cfgE ordE ∧
    (Ev.create (.final .gtf)) ∈ cleanEvents fixed cfgE ordE ∧
    ((cleanEvents fixed cfgE ordE).filter (fun e => e == .create (.part .exon 0))).length = 2 ∧
    (Ev.append (.final .exonG)) ∈ cleanEvents fixed cfgE ordE ∧ (Ev.create (.tpm .exon)) ∉ cleanEvents fixed cfgE ordE ∧
    (cleanEvents fixed cfgE ordE).length = 264 := by decide +kernel

-- `--no_model_construction`: no GTF / model-count / `_transcript_stat` file is ever touched
example : (cleanEvents fixed cfgN ord1).all (fun e => e.path != .trStat 0 && e.path != .final .gtf && e.path != .part .model 0
    && e.path != .final .r2t && e.path != .final .ext) = true ∧ (cleanEvents fixed cfgN ord1).length = 65 := by decide +kernel

-- `resume_correct` on these configurations: the hypotheses are met, the kill points lie inside the new stages
-- (212 = the exon counts of the first merged chromosome have just been removed; 30 = inside the model-construction stage of cfgN)
example : WF cfgE ∧ ordE.Nodup ∧ (cleanEvents fixed cfgE ordE)[213]? = some (.remove (.part .exon 1)) ∧ 4 ≤ 214 ∧
    verdict fixed cfgE ordE ordE 214 = .equal :=
  ⟨cfgE_wf, by decide, by decide +kernel, by omega, resume_correct cfgE_wf rfl ordE ordE (by decide) (by decide) 214 (by omega)⟩

-- `resume_correct_opts`: the killed run had `--high_memory`, the resume command line does not repeat it (and adds `--keep_tmp`)
example : verdictFromOpts fixed cfgE ordE ordE false true FS.empty 214 = .equal ∧
    verdictFromOpts fixed cfgN ord1 ord1 false false FS.empty 32 = .equal :=
  ⟨resume_correct_opts cfgE_wf rfl ordE ordE (by decide) (by decide) false true 214 (by omega),
   resume_correct_opts (cfg := cfgN) ⟨by decide, by decide, by decide, fun _ => Iff.rfl, fun _ _ h => h⟩ rfl ord1 ord1
     (by decide) (by decide) false false 32 (by omega)⟩

-- … and the resumed run with `--keep_tmp` really differs from the one without (it keeps the auxiliary files)
example : (run fixed (resumeCfg cfgE false true) ordE true (crashFS fixed cfgE ordE 214)).evs ≠
    (run fixed cfgE ordE true (crashFS fixed cfgE ordE 214)).evs := by decide +kernel

-- process pool, the new options, the options of the resume command line
example : verdictPoolFromOpts fixed cfgE ordE ordE false false [0, 1, 0, 1, 1, 0] [1, 1, 0] [1, 0] [0, 1, 1, 0] FS.empty 152 = .equal :=
  resume_correct_pool_from_opts cfgE_wf ordE ordE (by decide) (by decide) false false _ _ _ _ FS.empty
    (fun e => by simp [cfgE] at e) (indexSound_empty _) 152 (by rw [lockList_empty]; decide)

/-- two experiments in one invocation: `cfgN` (`--no_model_construction`, `--high_memory`), then `cfgE` (`--count_exons`, gzipped
    outputs); both alignment files have unaligned reads, `mkExps` marks the second one `carried` -/
def expsO : List Exp := mkExps [cfgN, cfgE] [ord1, ordE]

theorem expsO_wf : MWF expsO := by
  refine ⟨by decide, ?_, ?_⟩
  · intro x hx
    simp only [expsO, mkExps, withCarried, List.zip_cons_cons, List.zip_nil_right, List.zipIdx_cons, List.zipIdx_nil,
      List.map_cons, List.map_nil, List.mem_cons, List.not_mem_nil, or_false] at hx
    rcases hx with rfl | rfl
    · exact ⟨⟨by decide, by decide, by decide, fun _ => Iff.rfl, fun _ _ h => h⟩, rfl, by decide⟩
    · exact ⟨⟨cfgE_wf.nd, cfgE_wf.mnd, cfgE_wf.bnd, cfgE_wf.m_iff, cfgE_wf.b_sub⟩, rfl, by decide⟩
  · intro x hx y hy
    simp only [expsO, mkExps, withCarried, List.zip_cons_cons, List.zip_nil_right, List.zipIdx_cons, List.zipIdx_nil,
      List.map_cons, List.map_nil, List.mem_cons, List.not_mem_nil, or_false] at hx hy
    rcases hx with rfl | rfl <;> rcases hy with rfl | rfl <;> exact ⟨rfl, rfl⟩

-- `resume_correct_multi` over the extended configuration space: 2 + 61 + 260 events, killed inside the merge of the exon
-- counts of the second experiment
example : MWF expsO ∧ (runMulti fixed expsO false MFS.empty).evs.length = 325 ∧
    (runMulti fixed expsO false MFS.empty).evs[274]? = some (1, .remove (.part .exon 1)) ∧ 4 ≤ 275 ∧
    verdictMulti fixed expsO expsO MFS.empty 275 = .equal :=
  ⟨expsO_wf, by decide +kernel, by decide +kernel, by omega, resume_correct_multi expsO_wf expsO_wf rfl (by decide) 275 (by omega)⟩

end IsoVerif.Props.C07Opts
