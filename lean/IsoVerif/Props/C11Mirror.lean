/-
C11 — reflection `x ↦ L + 1 − x` (intervals swap their ends, lists are reversed, left/right partners swap) of
the list functions of the interval model (Model/Interval.lean), for ALL chromosome lengths `L : Int`.

  self-dual     : intervalsTotalLength, readCoverageSweep/Fraction, jaccardSweep, extraExonPercentage,
                  junctionsFromBlocks, getExons
  partner pairs : sumIntervalsToPoint ↔ sumIntervalsFromPoint, getFollowingExon ↔ getPrecedingExon (index i ↔ n−1−i),
                  intervalBinSearch ↔ intervalBinSearchRev (index i ↔ n−1−i, −1 ↔ −1)

Sums and block constructions hold for ALL lists; the two-pointer sweeps and the binary searches are stated for sorted
disjoint well-formed lists (`SD`, `WFl` — the lists the pipeline builds from alignments and annotations), where they
follow from C19's specifications; `sum_mirror_unsorted_witness` shows why the prefix/suffix sums need `f.1 ≤ t.2`.
-/
import IsoVerif.Gen.Prims
import IsoVerif.Model.Interval
import IsoVerif.Model.C11Symmetry
import IsoVerif.Lemmas.C11Mirror
import IsoVerif.Lemmas.BinSearchRev

namespace IsoVerif.Props.C11Mirror
open IsoVerif.Gen IsoVerif.Model IsoVerif.Model.C11 IsoVerif.Lemmas IsoVerif.Lemmas.C11

/-! ## section: Model/Interval.lean — reflection -/

theorem mirror_involutive_list (L : Int) (l : List Iv) : mirrorL L (mirrorL L l) = l := mirrorL_mirrorL L l

theorem mirror_preserves_SD (L : Int) (l : List Iv) (h : SD l) (w : WFl l) :
    SD (mirrorL L l) ∧ WFl (mirrorL L l) := ⟨SD_mirror L l h, WFl_mirror L l w⟩

theorem mirror_dual_intervalsTotalLength (L : Int) (l : List Iv) :
    intervalsTotalLength (mirrorL L l) = intervalsTotalLength l :=
  intervalsTotalLength_mirror L l

/-- the first block does not start after the last one ends (true of every sorted well-formed list) -/
def Spanned (l : List Iv) : Prop := ∀ f t, l.head? = some f → l.getLast? = some t → f.1 ≤ t.2

theorem spanned_of_SD (l : List Iv) (h : SD l) (w : WFl l) : Spanned l := by
  intro f t hf ht
  cases l with
  | nil => simp at hf
  | cons a r =>
    simp only [List.head?_cons, Option.some.injEq] at hf; subst hf
    have h1 := SD_head_le h w t (List.mem_of_getLast? ht)
    have h2 := w t (List.mem_of_getLast? ht)
    omega

/-- number of covered positions left of `p` in the mirror image = number right of `p` in the original -/
theorem mirror_dual_sumIntervalsToPoint (L : Int) (l : List Iv) (p : Int) (hs : Spanned l) :
    sumIntervalsToPoint (mirrorL L l) (mirrorP L p) = sumIntervalsFromPoint l p := by
  simp only [sumIntervalsToPoint, sumIntervalsFromPoint, mirrorL_head?, mirrorL_getLast?]
  cases hf : l.head? <;> cases ht : l.getLast? <;> simp only [Option.map_none, Option.map_some]
  rename_i f t
  have hsp := hs f t hf ht
  rw [intervalsTotalLength_mirror, mirrorL_eq_map_reverse, sumToLoop_mirror]
  have h0 : t.2 ≤ p → sumFromLoop p l.reverse = 0 := by
    intro h
    have hh : l.reverse.head? = some t := by simpa using ht
    cases hr : l.reverse with
    | nil => rfl
    | cons a r =>
      rw [hr] at hh; simp only [List.head?_cons, Option.some.injEq] at hh; subst hh
      simp only [sumFromLoop]; split <;> omega
  simp only [mirrorIv_fst, mirrorIv_snd, mirrorP]
  by_cases c1 : t.2 ≤ p
  · have c1' : L + 1 - p ≤ L + 1 - t.2 := by omega
    simp only [c1', if_true]
    by_cases c2 : p < f.1
    · omega
    · simp only [c2, if_false]
      by_cases c3 : p > t.2
      · simp [c3]
      · simp [c3, h0 c1]
  · have c1' : ¬ (L + 1 - p ≤ L + 1 - t.2) := by omega
    have c3 : ¬ (p > t.2) := by omega
    simp only [c1', c3, if_false]
    by_cases c2 : p < f.1
    · have : L + 1 - p > L + 1 - f.1 := by omega
      simp [c2, this]
    · have : ¬ (L + 1 - p > L + 1 - f.1) := by omega
      simp [c2, this]

theorem mirror_dual_sumIntervalsFromPoint (L : Int) (l : List Iv) (p : Int) (hs : Spanned l) :
    sumIntervalsFromPoint (mirrorL L l) (mirrorP L p) = sumIntervalsToPoint l p := by
  simp only [sumIntervalsToPoint, sumIntervalsFromPoint, mirrorL_head?, mirrorL_getLast?]
  cases hf : l.head? <;> cases ht : l.getLast? <;> simp only [Option.map_none, Option.map_some]
  rename_i f t
  have hsp := hs f t hf ht
  rw [intervalsTotalLength_mirror, mirrorL_reverse, sumFromLoop_mirror]
  have h0 : p ≤ f.1 → sumToLoop p l = 0 := by
    intro h
    cases hl : l with
    | nil => rfl
    | cons a r =>
      rw [hl] at hf; simp only [List.head?_cons, Option.some.injEq] at hf; subst hf
      simp only [sumToLoop]; split <;> omega
  simp only [mirrorIv_fst, mirrorIv_snd, mirrorP]
  by_cases c1 : p ≤ f.1
  · simp only [c1, if_true]
    have a1 : ¬ (L + 1 - p < L + 1 - t.2) := by omega
    simp only [a1, if_false]
    by_cases c2 : L + 1 - p > L + 1 - f.1
    · simp [c2]
    · simp [c2, h0 c1]
  · have a2 : ¬ (L + 1 - p > L + 1 - f.1) := by omega
    simp only [c1, if_false]
    by_cases c3 : p > t.2
    · have : L + 1 - p < L + 1 - t.2 := by omega
      simp [c3, this]
    · have : ¬ (L + 1 - p < L + 1 - t.2) := by omega
      simp [c3, this, a2]

/-- without `Spanned` the two guards of the code are tested in a different order -/
theorem sum_mirror_unsorted_witness :
    sumIntervalsToPoint (mirrorL 10 [(5, 6), (1, 2)]) (mirrorP 10 3) ≠ sumIntervalsFromPoint [(5, 6), (1, 2)] 3 := by
  decide

example : Spanned [(1, 5), (10, 12)] ∧ sumIntervalsToPoint (mirrorL 20 [(1, 5), (10, 12)]) (mirrorP 20 3) = some 5 ∧
    sumIntervalsFromPoint [(1, 5), (10, 12)] 3 = some 5 := by
  refine ⟨spanned_of_SD _ (by decide) (by decide), by decide, by decide⟩

/-- the two-pointer sweep of `read_coverage_fraction` gives the same number from either end -/
theorem mirror_dual_readCoverageSweep (L : Int) (l1 l2 : List Iv) (h1 : SD l1) (h2 : SD l2) (w1 : WFl l1) (w2 : WFl l2) :
    readCoverageSweep (mirrorL L l1) (mirrorL L l2) = readCoverageSweep l1 l2 := by
  rw [sweep_eq_inter _ _ (SD_mirror L l1 h1) (SD_mirror L l2 h2) (WFl_mirror L l1 w1) (WFl_mirror L l2 w2),
    sweep_eq_inter _ _ h1 h2 w1 w2, inter_mirror]

theorem mirror_dual_readCoverageFraction (L : Int) (read iso : List Iv) (h1 : SD read) (h2 : SD iso)
    (w1 : WFl read) (w2 : WFl iso) :
    readCoverageFraction (mirrorL L read) (mirrorL L iso) = readCoverageFraction read iso := by
  simp only [readCoverageFraction, intervalsTotalLength_mirror, mirror_dual_readCoverageSweep L read iso h1 h2 w1 w2]

theorem mirror_dual_jaccardSweep (L : Int) (l1 l2 : List Iv) (h1 : SD l1) (h2 : SD l2) (w1 : WFl l1) (w2 : WFl l2) :
    jaccardSweep (mirrorL L l1) (mirrorL L l2) = jaccardSweep l1 l2 := by
  simp only [jaccardSweep]
  rw [jaccardLoop_spec _ false _ false (SD_mirror L l1 h1) (SD_mirror L l2 h2) (WFl_mirror L l1 w1) (WFl_mirror L l2 w2)
      (by simp) (by simp) (by simp),
    jaccardLoop_spec l1 false l2 false h1 h2 w1 w2 (by simp) (by simp) (by simp)]
  simp only [inter_mirror, intervalsTotalLength_mirror]
  simp

example : SD [(1, 5), (10, 12)] ∧ SD [(4, 11)] ∧
    jaccardSweep (mirrorL 30 [(1, 5), (10, 12)]) (mirrorL 30 [(4, 11)]) = some (4, 12) := by decide +kernel

/-- flanking bases left of the region become flanking bases right of it: the fraction is unchanged (ALL lists) -/
theorem mirror_dual_extraExonPercentage (L : Int) (reg : Iv) (exons : List Iv) :
    extraExonPercentage (mirrorIv L reg) (mirrorL L exons) = extraExonPercentage reg exons := by
  simp only [extraExonPercentage, extraExonLoop_mirror]

/-- introns of the mirrored blocks are the mirrored introns (ALL lists) -/
theorem mirror_dual_junctionsFromBlocks (L : Int) (l : List Iv) :
    junctionsFromBlocks (mirrorL L l) = mirrorL L (junctionsFromBlocks l) :=
  junctionsFromBlocks_mirror L l

theorem mirror_dual_getExons (L : Int) (region : Iv) (introns : List Iv) :
    getExons (mirrorIv L region) (mirrorL L introns) = mirrorL L (getExons region introns) := by
  simp only [getExons, ← junctionsFromBlocks_mirror]
  have e : mirrorL L ((0, region.1 - 1) :: introns ++ [(region.2 + 1, 0)]) =
      (L + 1 - 0, L + 1 - (region.2 + 1)) :: (mirrorL L introns ++ [(L + 1 - (region.1 - 1), L + 1 - 0)]) := by
    simp [mirrorL, mirrorIv]
  rw [e]
  simp only [mirrorIv_fst, mirrorIv_snd]
  have e1 : L + 1 - region.2 - 1 = L + 1 - (region.2 + 1) := by omega
  have e2 : L + 1 - region.1 + 1 = L + 1 - (region.1 - 1) := by omega
  rw [e1, e2]
  exact (junctionsFromBlocks_first 0 (L + 1 - 0) _ _).trans
    (junctionsFromBlocks_last ((L + 1 - 0, L + 1 - (region.2 + 1)) :: mirrorL L introns) (L + 1 - (region.1 - 1)) 0 (L + 1 - 0))

example : getExons (mirrorIv 40 (1, 30)) (mirrorL 40 [(6, 9), (13, 19)]) = mirrorL 40 [(1, 5), (10, 12), (20, 30)] := by
  decide

/-! ### exon before / after an intron: partners, intron index i ↔ n−1−i (0 ≤ i < n) -/

theorem mirror_dual_getFollowingExon (L : Int) (region : Iv) (introns : List Iv) (i : Nat) (h : i < introns.length) :
    getPrecedingExon (mirrorIv L region) (mirrorL L introns) ((introns.length : Int) - 1 - (i : Int))
      = (getFollowingExon region introns (i : Int)).map (mirrorIv L) := by
  simp only [getFollowingExon, getPrecedingExon, mirrorL_length]
  have hn : ¬ ((introns.length : Int) - 1 - (i : Int) > (introns.length : Int)) := by omega
  have hn2 : ¬ ((introns.length : Int) - 1 - (i : Int) = (introns.length : Int)) := by omega
  have hi1 : ¬ ((i : Int) = -1) := by omega
  simp only [hn, hn2, if_false, pyGet?_mirror L introns i h, hi1, or_false]
  obtain ⟨x, hx⟩ : ∃ x, introns[i]? = some x := ⟨introns[i], by simp [h]⟩
  rw [pyGet?_nonneg, hx]
  by_cases hl : i = introns.length - 1
  · have c1 : (introns.length : Int) - 1 - (i : Int) = 0 := by omega
    have c2 : (i : Int) = (introns.length : Int) - 1 := by omega
    simp only [c2, if_true]
    simp [mirrorIv]; omega
  · have c1 : ¬ ((introns.length : Int) - 1 - (i : Int) = 0) := by omega
    have c2 : ¬ ((i : Int) = (introns.length : Int) - 1) := by omega
    simp only [c1, c2, if_false]
    have e : (introns.length : Int) - 1 - (i : Int) - 1 = (introns.length : Int) - 1 - ((i + 1 : Nat) : Int) := by omega
    have e2 : (i : Int) + 1 = ((i + 1 : Nat) : Int) := by omega
    rw [e, pyGet?_mirror L introns (i + 1) (by omega), e2, pyGet?_nonneg]
    obtain ⟨y, hy⟩ : ∃ y, introns[i + 1]? = some y := ⟨introns[i + 1]'(by omega), by simp⟩
    rw [hy]
    simp [mirrorIv]; omega

theorem mirror_dual_getPrecedingExon (L : Int) (region : Iv) (introns : List Iv) (i : Nat) (h : i < introns.length) :
    getFollowingExon (mirrorIv L region) (mirrorL L introns) ((introns.length : Int) - 1 - (i : Int))
      = (getPrecedingExon region introns (i : Int)).map (mirrorIv L) := by
  have h' : introns.length - 1 - i < (mirrorL L introns).length := by rw [mirrorL_length]; omega
  have := mirror_dual_getFollowingExon L (mirrorIv L region) (mirrorL L introns) (introns.length - 1 - i) h'
  rw [mirrorL_mirrorL, mirrorIv_mirrorIv, mirrorL_length] at this
  have e1 : (introns.length : Int) - 1 - ((introns.length - 1 - i : Nat) : Int) = (i : Int) := by omega
  have e2 : ((introns.length - 1 - i : Nat) : Int) = (introns.length : Int) - 1 - (i : Int) := by omega
  rw [e1, e2] at this
  rw [this, Option.map_map]
  have : (mirrorIv L ∘ mirrorIv L) = id := by funext a; exact mirrorIv_mirrorIv L a
  simp [this]

example : getPrecedingExon (mirrorIv 40 (1, 30)) (mirrorL 40 [(6, 9), (13, 19)]) ((2 : Int) - 1 - 0)
    = (getFollowingExon (1, 30) [(6, 9), (13, 19)] 0).map (mirrorIv 40) ∧
    getFollowingExon (1, 30) [(6, 9), (13, 19)] 0 = some (10, 12) := by decide

/-! ### the two binary searches are each other's mirror image (index i ↔ n−1−i, "not found" −1 ↔ −1) -/

theorem mirror_dual_intervalBinSearch (L : Int) (l : List Iv) (pos : Int) (h : SD l) (w : WFl l) :
    intervalBinSearchRev (mirrorL L l) (mirrorP L pos) = (intervalBinSearch l pos).map (dualIdx l.length) := by
  cases hf : l.head? with
  | none =>
    have : l = [] := by cases l <;> simp_all
    subst this; rfl
  | some f =>
    obtain ⟨tl, ht⟩ : ∃ tl, l.getLast? = some tl := by
      cases l with
      | nil => simp at hf
      | cons a r => exact ⟨_, List.getLast?_eq_some_getLast (by simp)⟩
    have hne : l ≠ [] := by intro e; simp [e] at hf
    have hlen : 0 < l.length := List.length_pos_iff.mpr hne
    have hf' : (mirrorL L l).head? = some (mirrorIv L tl) := by rw [mirrorL_head?, ht]; rfl
    have ht' : (mirrorL L l).getLast? = some (mirrorIv L f) := by rw [mirrorL_getLast?, hf]; rfl
    have hsp : f.1 ≤ tl.2 := by
      have h1 := SD_head_le (a := f) (l := l.tail) (by cases l <;> simp_all) (by cases l <;> simp_all) tl
        (by cases l with
            | nil => simp at hf
            | cons a r => simp at hf; subst hf; exact List.mem_of_getLast? ht)
      have := w tl (List.mem_of_getLast? ht); omega
    by_cases hout : pos > tl.2 ∨ pos < f.1
    · rw [show intervalBinSearch l pos = some (-1) by simp [intervalBinSearch, hf, ht, hout]]
      have hout' : mirrorP L pos > L + 1 - f.1 ∨ mirrorP L pos < L + 1 - tl.2 := by
        simp only [mirrorP]; omega
      simp only [intervalBinSearchRev, hf', ht', mirrorIv_fst, mirrorIv_snd, hout', if_true, Option.map_some, dualIdx]
    · by_cases hlast : tl.1 ≤ pos
      · -- found in the last block: index n-1, dual 0
        have e1 : intervalBinSearch l pos = some ((l.length : Int) - 1) := by
          simp only [intervalBinSearch, hf, ht, hout, if_false]
          have : pos ≥ tl.1 := hlast
          simp [this]; omega
        rw [e1]
        have hno : ¬ (mirrorP L pos > (mirrorIv L f).2 ∨ mirrorP L pos < (mirrorIv L tl).1) := by
          simp only [mirrorP, mirrorIv_fst, mirrorIv_snd]; omega
        have hfirst : mirrorP L pos ≤ (mirrorIv L tl).2 := by
          simp only [mirrorP, mirrorIv_snd]; omega
        simp only [intervalBinSearchRev, hf', ht', hno, if_false, hfirst, if_true, Option.map_some, dualIdx]
        congr 1; split <;> omega
      · -- a bracket t exists
        obtain ⟨t, a, b, hta, htb, hpa, hpb⟩ := exists_bracket l pos f tl hf ht (by omega) (by omega)
        have hlt : t + 1 < l.length := (List.getElem?_eq_some_iff.mp htb).1
        rw [bin_search_aux l pos (strictInc_starts_of_SD l h w) w f tl hf ht t a b hta htb hpa hpb (by omega)]
        have hj : l.length - 2 - t + 1 < (mirrorL L l).length := by rw [mirrorL_length]; omega
        have ha' : (mirrorL L l)[l.length - 2 - t]? = some (mirrorIv L b) := by
          rw [mirrorL_getElem? L l _ (by omega)]
          have : l.length - 1 - (l.length - 2 - t) = t + 1 := by omega
          rw [this, htb]; rfl
        have hb' : (mirrorL L l)[l.length - 2 - t + 1]? = some (mirrorIv L a) := by
          rw [mirrorL_getElem? L l _ (by omega)]
          have : l.length - 1 - (l.length - 2 - t + 1) = t := by omega
          rw [this, hta]; rfl
        rw [bin_search_rev_aux (mirrorL L l) (mirrorP L pos)
          (strictInc_ends_of_SD _ (SD_mirror L l h) (WFl_mirror L l w)) (mirrorIv L tl) (mirrorIv L f) hf' ht'
          (l.length - 2 - t) (mirrorIv L b) (mirrorIv L a) ha' hb'
          (by simp only [mirrorP, mirrorIv_snd]; omega) (by simp only [mirrorP, mirrorIv_snd]; omega)
          (by simp only [mirrorP, mirrorIv_fst]; omega)]
        simp only [Option.map_some, dualIdx]
        congr 1; split <;> omega

/-- the same fact read in the other direction: `interval_bin_search_rev` is `interval_bin_search` on the mirror image -/
theorem mirror_dual_intervalBinSearchRev (L : Int) (l : List Iv) (pos : Int) (h : SD l) (w : WFl l) :
    intervalBinSearchRev l pos = (intervalBinSearch (mirrorL L l) (mirrorP L pos)).map (dualIdx l.length) := by
  have := mirror_dual_intervalBinSearch L (mirrorL L l) (mirrorP L pos) (SD_mirror L l h) (WFl_mirror L l w)
  rw [mirrorL_mirrorL, mirrorL_length] at this
  have e : mirrorP L (mirrorP L pos) = pos := by simp only [mirrorP]; omega
  rw [e] at this
  exact this

example : SD [(1, 5), (10, 12), (20, 30), (40, 41), (50, 60)] ∧
    intervalBinSearch [(1, 5), (10, 12), (20, 30), (40, 41), (50, 60)] 11 = some 1 ∧
    intervalBinSearchRev (mirrorL 100 [(1, 5), (10, 12), (20, 30), (40, 41), (50, 60)]) (mirrorP 100 11) = some 3 := by
  decide

end IsoVerif.Props.C11Mirror
