/-
C01 (converse and forward clauses) — what can be said, for ALL inputs, about reads that are far from every isoform and
about reads that pass the profile tests for an isoform T; the `_partial` theorems say exactly which step is carried by the
oracle, the `_witness` theorems replay concrete inputs (also replayed on the real code by the harness).
-/
import IsoVerif.Props.C01Path
import IsoVerif.Lemmas.C01Inconsistent
import IsoVerif.Lemmas.C01Forward

namespace IsoVerif.Props.C01Far
open IsoVerif.Gen IsoVerif.Model IsoVerif.Model.C01 IsoVerif.Lemmas IsoVerif.Lemmas.C01 IsoVerif.Props.C01
open IsoVerif.Props.C01Path

/-! ### which path `assign_to_isoform` can take -/

theorem path_of_dispatch (g : Gene) (p : Params) (rp : ReadProf) (cj : Nat → Option (List Event)) (a : Assignment)
    (path : Path) (h : assignToIsoform g p rp cj = some (a, path)) :
    (dispatch g rp = .intergenic → path = .intergenic) ∧
    (dispatch g rp = .noninformative → path = .noninformative) ∧
    (dispatch g rp = .inconsistent → path = .inconsistent ∧ matchInconsistent g p rp cj = some a) ∧
    (dispatch g rp = .consistent → (path = .consistent ∧ matchConsistent g p rp = some (some a)) ∨
        (path = .fallback ∧ matchConsistent g p rp = some none ∧ matchInconsistent g p rp cj = some a)) := by
  unfold assignToIsoform at h
  split at h
  · rename_i hd
    simp at h
    refine ⟨fun _ => h.2.symm, ?_, ?_, ?_⟩ <;> (intro hd'; rw [hd] at hd'; cases hd')
  · rename_i hd
    cases hn : noninformativeAssignment g rp with
    | none => simp [hn] at h
    | some a' =>
      simp [hn] at h
      refine ⟨?_, fun _ => h.2.symm, ?_, ?_⟩ <;> (intro hd'; rw [hd] at hd'; cases hd')
  · rename_i hd
    cases hn : matchInconsistent g p rp cj with
    | none => simp [hn] at h
    | some a' =>
      simp [hn] at h
      refine ⟨?_, ?_, fun _ => ⟨h.2.symm, by rw [h.1]⟩, ?_⟩ <;> (intro hd'; rw [hd] at hd'; cases hd')
  · rename_i hd1 hd2 hd3
    refine ⟨fun hd => absurd hd hd1, fun hd => absurd hd hd2, fun hd => absurd hd hd3, ?_⟩
    intro _
    split at h
    · simp at h
    · rename_i a' hmc
      simp at h
      left; exact ⟨h.2.symm, by rw [hmc, h.1]⟩
    · rename_i hmc
      cases hn : matchInconsistent g p rp cj with
      | none => simp [hn] at h
      | some a' =>
        simp [hn] at h
        right; exact ⟨h.2.symm, hmc, by rw [h.1]⟩

/-! ### converse clause -/

/-- a read that is structurally compatible with NO annotated isoform never gets its assignment from the consistent path:
    whatever type it gets is decided by `match_inconsistent` (or it is unassigned) -/
theorem incompatible_never_consistent_path (ms : List Isoform) (p : Params) (blocks : List Iv) (pa : PolyA)
    (cj : Nat → Option (List Event)) (g : Gene) (rp : ReadProf) (a : Assignment) (path : Path)
    (hwf : WellFormed ms) (hg : Gene.fromModels ms = some g) (hrp : constructProfiles g p blocks pa = some rp)
    (hpa : PolyAOutside blocks pa)
    (hnone : ∀ I ∈ g.isos, ¬ Compatible p blocks I)
    (h : assignToIsoform g p rp cj = some (a, path)) : path ≠ .consistent := by
  intro e
  subst e
  obtain ⟨_, hne, hall⟩ := assign_consistent_path_sound ms p blocks pa cj g rp a hwf hg hrp hpa h
  cases hm : a.isoMatches with
  | nil => exact hne hm
  | cons m _ =>
    obtain ⟨I, hI, _, hc⟩ := hall m (by rw [hm]; simp)
    exact hnone I hI hc

/-- a read intron with no annotated intron within δ (a novel / far splice junction) is never marked 1, so the read is
    sent straight to `match_inconsistent` (or is unassigned): neither the consistent path nor its fall-back is taken -/
theorem far_intron_goes_inconsistent (p : Params) (blocks : List Iv) (pa : PolyA)
    (cj : Nat → Option (List Event)) (g : Gene) (rp : ReadProf) (a : Assignment) (path : Path)
    (hrp : constructProfiles g p blocks pa = some rp)
    (r : Iv) (hr : r ∈ junctionsFromBlocks blocks) (hfar : ∀ k ∈ g.introns, equal_ranges r k p.delta = false)
    (h : assignToIsoform g p rp cj = some (a, path)) :
    path = .intergenic ∨ path = .noninformative ∨ (path = .inconsistent ∧ matchInconsistent g p rp cj = some a) := by
  obtain ⟨_, _, _, _, hprof⟩ := constructProfiles_spec g p blocks pa rp hrp
  have spec := constructOverlapping_spec g.introns (g.start, g.stop) (fun a b => equal_ranges a b p.delta)
      (fun a b => overlaps_at_least a b p.minimal_intron_absence_overlap) p.delta (junctionsFromBlocks blocks)
      rp.region pa.extA pa.extT
  rw [← hprof] at spec
  obtain ⟨h1, h2, h3, h4⟩ := path_of_dispatch g p rp cj a path h
  cases hd : dispatch g rp with
  | intergenic => exact Or.inl (h1 hd)
  | noninformative => exact Or.inr (Or.inl (h2 hd))
  | inconsistent => exact Or.inr (Or.inr (h3 hd))
  | fallback => exfalso; unfold dispatch at hd; (repeat' split at hd) <;> simp at hd
  | consistent =>
    exfalso
    have hones := dispatch_consistent_read_ones g rp hd spec.dom
    obtain ⟨j, hj⟩ := List.mem_iff_getElem?.mp hr
    have hjl : j < rp.intron.read.length := by rw [spec.rlen]; exact getElem?_lt hj
    have hv : rp.intron.read[j]? = some 1 := by
      have : rp.intron.read[j]? = some rp.intron.read[j] := by simp [hjl]
      rw [this, hones _ (List.getElem_mem hjl)]
    obtain ⟨k, hk, hcmp⟩ := spec.read_one_only j r hj hv
    rw [hfar k hk] at hcmp; cases hcmp

/-- `far_never_consistent_partial`.  FULL statement (not provable in this cone, and FALSE of the real code on the class
    `terminal_exon_misalignment_far`, see `far_consistent_witness`):
      a read with a splice junction far from every annotated junction is never reported unique / unique_minor_difference /
      ambiguous.
    PROVED part: such a read is classified by `match_inconsistent`; its type is `classify_assignment` of the events of the
    selected isoforms, so (by `classify_sound`) it is consistent ONLY IF none of those events — the comparator's events
    for the selected isoforms, plus elongation events, after polyA verification — is a major inconsistency.
    MISSING: that `JunctionComparator.compare_junctions` emits a major-inconsistency event for every isoform whenever the
    read has a far junction (the comparator is an input here); carried by the oracle. -/
theorem far_never_consistent_partial (p : Params) (blocks : List Iv) (pa : PolyA)
    (cj : Nat → Option (List Event)) (g : Gene) (rp : ReadProf) (a : Assignment) (path : Path)
    (hrp : constructProfiles g p blocks pa = some rp)
    (r : Iv) (hr : r ∈ junctionsFromBlocks blocks) (hfar : ∀ k ∈ g.introns, equal_ranges r k p.delta = false)
    (h : assignToIsoform g p rp cj = some (a, path)) (hcons : a.ty.is_consistent = true) :
    path = .inconsistent ∧
    ∃ best : List (IsoInfo × List Event), best ≠ [] ∧ a.ty = classifyAssignment (best.map (·.2)) ∧
      (∀ Ie ∈ best, Ie.1 ∈ g.isos ∧ SelectedEvents g p rp cj Ie) ∧
      (∀ Ie ∈ best, ∀ e ∈ Ie.2, e.ty.is_major_inconsistency = false) := by
  rcases far_intron_goes_inconsistent p blocks pa cj g rp a path hrp r hr hfar h with hp | hp | ⟨hp, hmi⟩
  · -- intergenic
    exfalso
    subst hp
    unfold assignToIsoform at h
    split at h
    · simp at h; rw [← h] at hcons; exact absurd hcons (by decide)
    · cases hn : noninformativeAssignment g rp <;> simp [hn] at h
    · cases hn : matchInconsistent g p rp cj <;> simp [hn] at h
    · split at h
      · simp at h
      · simp at h
      · cases hn : matchInconsistent g p rp cj <;> simp [hn] at h
  · exfalso
    subst hp
    unfold assignToIsoform at h
    split at h
    · simp at h
    · cases hn : noninformativeAssignment g rp with
      | none => simp [hn] at h
      | some a' =>
        simp [hn] at h; subst h
        unfold noninformativeAssignment at hn
        split at hn
        · simp at hn
        · simp at hn; rw [← hn] at hcons
          have : ReadAssignmentType.noninformative.is_consistent = false := by decide
          simp only at hcons
          rw [this] at hcons; cases hcons
    · cases hn : matchInconsistent g p rp cj <;> simp [hn] at h
    · split at h
      · simp at h
      · simp at h
      · cases hn : matchInconsistent g p rp cj <;> simp [hn] at h
  · refine ⟨hp, ?_⟩
    rcases matchInconsistent_spec g p rp cj a hmi with hni | ⟨best, hne, hty, hsel⟩
    · rw [hni] at hcons; exact absurd hcons (by decide)
    · refine ⟨best, hne, hty, hsel, ?_⟩
      rw [hty] at hcons
      unfold classifyAssignment at hcons
      have := ((classify_consistent_iff _ _).mp hcons).1
      intro Ie hIe e he
      apply this
      simp only [List.mem_flatMap, List.mem_map]
      exact ⟨Ie.2, ⟨Ie, hIe, rfl⟩, e, he, rfl⟩

/-! ### forward clause -/

/-- `follow_exact_partial`.  FULL statement (DESIGN §7 `follow_exact`): a read that is a contiguous sub-chain of T with
    ends inside T's exons reaches `match_consistent`, gets a consistent type and T is reported.
    PROVED part (profile level, for all inputs): if the read is on the consistent branch and T passes the three tests of
    `match_consistent` (contains the read ± min_abs_exon_overlap, shares a split exon with it, intron profile equal in
    the read's range), then T is among the candidate isoforms, and the assignment is produced either by the consistent
    path or — only when `check_read_ends` / polyA verification raise a major event for a selected isoform — by its
    fall-back to `match_inconsistent`.
    MISSING: the geometric-to-profile direction (a sub-chain read yields all-1 read profiles and a gene profile equal to
    T's in range), i.e. completeness of the two profile sweeps; carried by the correspondence and the oracle. -/
theorem follow_exact_partial (g : Gene) (p : Params) (rp : ReadProf) (cj : Nat → Option (List Event)) (a : Assignment)
    (path : Path) (T : IsoInfo) (hT : T ∈ g.isos) (hdisp : dispatch g rp = .consistent)
    (h1 : contains_approx T.region rp.region p.min_abs_exon_overlap = true)
    (h2 : hasOverlappingFeatures T.splitProf rp.split.gene (overlap_intervals rp.split.range T.splitRange) = some true)
    (h3 : equalProfilesInRange T.intronProf rp.intron.gene rp.intron.range = some true)
    (h : assignToIsoform g p rp cj = some (a, path)) :
    (∃ cons, consistentIsoforms g p rp = some (some cons) ∧ T ∈ cons) ∧
    ((path = .consistent ∧ a.ty.is_consistent = true) ∨ path = .fallback) := by
  obtain ⟨_, _, _, h4⟩ := path_of_dispatch g p rp cj a path h
  have hcons_ex : ∃ r, consistentIsoforms g p rp = some r := by
    rcases h4 hdisp with ⟨_, hmc⟩ | ⟨_, hmc, _⟩ <;>
    · unfold matchConsistent at hmc
      cases hc : consistentIsoforms g p rp with
      | none => simp [hc] at hmc
      | some r => exact ⟨r, rfl⟩
  obtain ⟨r, hr⟩ := hcons_ex
  obtain ⟨l, hl, hTl⟩ := consistentIsoforms_complete g p rp r hr T hT h1 h2 h3
  subst hl
  refine ⟨⟨l, hr, hTl⟩, ?_⟩
  rcases h4 hdisp with ⟨hp, hmc⟩ | ⟨hp, _, _⟩
  · left
    refine ⟨hp, ?_⟩
    obtain ⟨cons, matched, _, _, _, _, hmem, hty, hninc, _⟩ := matchConsistent_spec g p rp a hmc
    have hk : ∀ e ∈ (a.isoMatches.map (·.events)).flatMap (fun evs => evs.map (·.ty)),
        e.is_consistent = true ∨ e.is_minor_error = true ∨ e.is_major_inconsistency = true := by
      intro e he
      simp only [List.mem_flatMap, List.mem_map] at he
      obtain ⟨evs, ⟨m, hm, hmevs⟩, ev, hev, hevty⟩ := he
      obtain ⟨_, _, _, hkn⟩ := hmem m hm
      have := hkn ev (by rw [hmevs]; exact hev)
      rw [hevty] at this
      simp only [knownTy, Bool.or_eq_true] at this
      rcases this with (h | h) | h
      · exact Or.inl h
      · exact Or.inr (Or.inl h)
      · exact Or.inr (Or.inr h)
    rw [hty]
    unfold classifyAssignment
    rcases classify_known _ _ hk with h | h
    · exact h
    · rw [hty] at hninc; unfold classifyAssignment at hninc; rw [h] at hninc; cases hninc
  · right; exact hp

/-- forward direction, intron half (`exact_introns_marked`): a read all of whose introns ARE annotated introns (exact
    sub-chain case, any annotation, δ ≥ 0, read introns longer than δ) gets every read intron marked 1 — the read is never
    sent to `match_inconsistent` because of a "novel" intron.  (The split-exon half of the dispatch and the equality of
    the gene profile with T's are the part of `follow_exact` that is not proved.) -/
theorem exact_introns_marked (ms : List Isoform) (p : Params) (blocks : List Iv) (pa : PolyA) (g : Gene) (rp : ReadProf)
    (hg : Gene.fromModels ms = some g) (hrp : constructProfiles g p blocks pa = some rp)
    (hδ : 0 ≤ p.delta) (hsd : SD blocks) (hwf : WFl blocks)
    (hlong : ∀ r ∈ junctionsFromBlocks blocks, p.delta ≤ r.2 - r.1)
    (hex : ∀ r ∈ junctionsFromBlocks blocks, r ∈ g.introns) :
    rp.intron.read.length = (junctionsFromBlocks blocks).length ∧ ∀ v ∈ rp.intron.read, v = 1 := by
  obtain ⟨_, _, _, _, hprof⟩ := constructProfiles_spec g p blocks pa rp hrp
  have spec := constructOverlapping_spec g.introns (g.start, g.stop) (fun a b => equal_ranges a b p.delta)
      (fun a b => overlaps_at_least a b p.minimal_intron_absence_overlap) p.delta (junctionsFromBlocks blocks)
      rp.region pa.extA pa.extT
  rw [← hprof] at spec
  refine ⟨spec.rlen, ?_⟩
  intro v hv
  obtain ⟨j, hj⟩ := List.mem_iff_getElem?.mp hv
  have hjl : j < (junctionsFromBlocks blocks).length := by rw [← spec.rlen]; exact getElem?_lt hj
  have hr : (junctionsFromBlocks blocks)[j]? = some (junctionsFromBlocks blocks)[j] := by simp [hjl]
  have hmem := List.getElem_mem hjl
  obtain ⟨hK, _, _⟩ := fromModels_spec ms g hg
  obtain ⟨hsdj, hwfj⟩ := junctions_SD_WFl blocks hsd hwf
  have h1 := constructOverlapping_exact_marked g.introns (g.start, g.stop)
    (fun a b => overlaps_at_least a b p.minimal_intron_absence_overlap) p.delta (junctionsFromBlocks blocks)
    rp.region pa.extA pa.extT hδ (by rw [hK]; exact LexSorted_sortDedupIv _) hsdj hwfj j _ hr (hex _ hmem)
    (hlong _ hmem)
  rw [← hprof, hj] at h1
  exact Option.some.inj h1

/-- `full_length_reported` (DESIGN `resolution_keeps_fl`): on the consistent path, a candidate T is REPORTED whenever it
    survives the two refinements of `match_consistent`: its split-exon profile equals the read's in range (needed only for
    spliced reads with several candidates), and its nucleotide score is at least 2/3 of every other candidate's and at
    least −1/2 (a full-length read of T has Jaccard ≥ 2/3 with T as soon as 3·|r∩T| ≥ 2·|r∪T|, and no flanking bases) -/
theorem full_length_reported (g : Gene) (p : Params) (rp : ReadProf) (a : Assignment) (cons : List IsoInfo)
    (T : IsoInfo) (sT : Rat)
    (hmc : matchConsistent g p rp = some (some a)) (hcons : consistentIsoforms g p rp = some (some cons)) (hT : T ∈ cons)
    (hsplit : rp.intron.read.isEmpty = false →
      equalProfilesInRange T.splitProf rp.split.gene rp.split.range = some true)
    (hs : jaccardScore p rp T = some sT)
    (hbest : ∀ I ∈ cons, ∀ s, jaccardScore p rp I = some s → s ≤ sT * topScoredFactor) (hmin : minimalScore ≤ sT) :
    ∃ m ∈ a.isoMatches, m.iso = some T.id := by
  obtain ⟨cons', matched, hcons', hsel, _, _, _, _, _, hrep⟩ := matchConsistent_spec g p rp a hmc
  rw [hcons] at hcons'
  have e : cons' = cons := by
    have := Option.some.inj hcons'; exact (Option.some.inj this).symm
  subst e
  apply hrep
  split at hsel
  · rename_i hsp
    have hne : rp.intron.read.isEmpty = false := by simpa using hsp
    exact selectSpliced_keeps p rp cons' matched T sT hsel hT (hsplit hne) hs hbest hmin
  · exact selectUnspliced_keeps p rp cons' matched T sT hsel hT hs hbest hmin

/-! ### concrete instances (non-vacuity; also replayed on the real code by the harness) -/

def exParams : Params :=
  { delta := 6, minor_exon_extension := 50, major_exon_extension := 300, min_abs_exon_overlap := 10, apa_delta := 50,
    minimal_exon_overlap := 5, minimal_intron_absence_overlap := 20, max_fake_terminal_exon_len := 40,
    max_missed_exon_len := 100, resolve_ambiguous := .monoexon_and_fsm }

def exAnnotation : List Isoform :=
  [⟨[(100, 200), (300, 400), (500, 600)], .plus⟩, ⟨[(100, 200), (500, 600)], .plus⟩]

def view (r : Option (Assignment × Path)) : Option (ReadAssignmentType × List (Option Nat) × Path) :=
  r.map (fun r => (r.1.ty, r.1.isoMatches.map (·.iso), r.2))

/-- a read following isoform 0 with ≤ δ jitter reaches the consistent path and is reported unique to isoform 0; a read of
    isoform 1 likewise; an internal fragment is ambiguous between … only isoform 0 has the middle exon -/
example : view (assignRead exAnnotation exParams [(120, 203), (297, 400), (500, 580)] ⟨-1, -1, -1, -1⟩ (fun _ => none))
    = some (.unique, [some 0], .consistent) := by decide +kernel
example : view (assignRead exAnnotation exParams [(120, 200), (500, 580)] ⟨-1, -1, -1, -1⟩ (fun _ => none))
    = some (.unique, [some 1], .consistent) := by decide +kernel
example : view (assignRead exAnnotation exParams [(150, 200)] ⟨-1, -1, -1, -1⟩ (fun _ => none))
    = some (.ambiguous, [some 0, some 1], .consistent) := by decide +kernel
/-- polyA tail at the annotated 3' end -/
example : view (assignRead exAnnotation exParams [(120, 200), (300, 400), (500, 600)] ⟨601, -1, -1, -1⟩ (fun _ => none))
    = some (.unique, [some 0], .consistent) := by decide +kernel
/-- the hypotheses of `consistent_path_sound` are met by the first read -/
example : WellFormed exAnnotation ∧ PolyAOutside [(120, 203), (297, 400), (500, 580)] ⟨-1, -1, -1, -1⟩ := by
  refine ⟨?_, Or.inl rfl, Or.inl rfl⟩
  intro m hm
  simp [exAnnotation] at hm
  rcases hm with rfl | rfl <;> (constructor <;> simp [SD, WFl])
/-- a read with a novel junction goes to `match_inconsistent`; with the comparator's verdict `exon_skipping_novel` it
    is inconsistent (hypotheses of `far_never_consistent_partial`) -/
example : view (assignRead [⟨[(100, 200), (300, 400), (500, 600)], .plus⟩] exParams [(120, 200), (500, 580)]
      ⟨-1, -1, -1, -1⟩ (fun _ => some [{ ty := .exon_skipping_novel, isoRegion := (0, 1), readRegion := (0, 0) }]))
    = some (.inconsistent, [some 0], .inconsistent) := by decide +kernel

/-- the hypotheses of `exact_introns_marked` are met by the read of the first example -/
example : SD [(120, 200), (300, 400), (500, 580)] ∧ WFl [(120, 200), (300, 400), (500, 580)] ∧
    junctionsFromBlocks [(120, 200), (300, 400), (500, 580)] = [(201, 299), (401, 499)] := by
  refine ⟨by simp [SD], ?_, by decide⟩
  intro r hr; simp at hr; rcases hr with rfl | rfl | rfl <;> simp

/-- `far_consistent_witness` (known finding `terminal_exon_misalignment_far`): the annotation has the single isoform
    (1000-1200, 2000-2200, 3000-3300); the read's last exon lies 900 bp downstream (3900-4205).  The real comparator
    answers `terminal_exon_misalignment_right` (terminal exons of similar length); with that input the assigner reports
    unique_minor_difference — a consistent type for a read that is far from every isoform. -/
theorem far_consistent_witness :
    view (assignRead [⟨[(1000, 1200), (2000, 2200), (3000, 3300)], .plus⟩] exParams
      [(1000, 1200), (2000, 2200), (3900, 4205)] ⟨-1, -1, -1, -1⟩
      (fun _ => some [{ ty := .terminal_exon_misalignment_right, isoRegion := (1, 1), readRegion := (1, 1) }]))
    = some (.unique_minor_difference, [some 0], .inconsistent) ∧
    (∀ k ∈ junctionsFromBlocks [(1000, 1200), (2000, 2200), (3000, 3300)],
      equal_ranges (2201, 3899) k 100 = false) := by
  decide +kernel

end IsoVerif.Props.C01Far
