/-
C19 — `intervals_total_length`, `sum_intervals_to_point`, `sum_intervals_from_point`, `extra_exon_percentage` as REGENERATED FROM THE SOURCE on every run (`Gen/Loops.lean`, written by `harness/translate.py`).
Part 1: refinement `Gen.f args = Model.f args` for ALL inputs (no sortedness / well-formedness; error cases included; the
emitted fuel bounds suffice).  Part 2: the C19 theorems about the hand model restated over the generated definitions.
An edit of the Python loop re-generates `Gen.f` and re-opens these proofs.  Overview: Props/C19Gen.lean.
-/
import IsoVerif.Props.C19Lists
import IsoVerif.Lemmas.GenSums

namespace IsoVerif.Props.C19Gen
open IsoVerif.Gen IsoVerif.Model IsoVerif.Lemmas

/-! ## Part 1 — refinement: generated definition = hand model, for all inputs -/

/-- `intervals_total_length` (a `for` loop: no fuel, total) -/
theorem intervals_total_length_refines (l : List Iv) :
    Gen.intervals_total_length l = intervalsTotalLength l :=
  GenLoops.intervals_total_length_eq l

/-- `sum_intervals_to_point`: the upward index loop with fuel `len + 1` = the model's recursion on the list; both raise
    exactly on `[]` -/
theorem sum_intervals_to_point_refines (l : List Iv) (pos : Int) :
    Gen.sum_intervals_to_point l pos = sumIntervalsToPoint l pos :=
  GenLoops.sum_intervals_to_point_eq l pos

/-- `sum_intervals_from_point`: the downward index loop (`i = len-1 … 0`, stops at `i = -1`) = the model's recursion on
    the reversed list -/
theorem sum_intervals_from_point_refines (l : List Iv) (pos : Int) :
    Gen.sum_intervals_from_point l pos = sumIntervalsFromPoint l pos :=
  GenLoops.sum_intervals_from_point_eq l pos

/-- `extra_exon_percentage`: a `for` loop with two accumulators and two guarded updates; exact fraction (outside, total),
    `none` = ZeroDivisionError -/
theorem extra_exon_percentage_refines (region : Iv) (exons : List Iv) :
    Gen.extra_exon_percentage region exons = extraExonPercentage region exons :=
  GenLoops.extra_exon_percentage_eq region exons

/-- the emitted fuel bounds (shown sufficient by the refinement theorems above) -/
theorem fuel_bounds_sums (l : List Iv) (p : Int) :
    sum_intervals_to_point.fuel2 l p = l.length + 1 ∧ sum_intervals_from_point.fuel2 l p = l.length + 1 := ⟨rfl, rfl⟩

/-! ## Part 2 — theorems over the generated definitions -/

/-- total length = number of covered positions (inside any window containing the list) -/
theorem total_length_counts (l : List Iv) (lo : Int) (n : Nat) (h : SD l) (w : WFl l)
    (hwin : ∀ r ∈ l, lo ≤ r.1 ∧ r.2 < lo + n) :
    Gen.intervals_total_length l = (countWin (covb l) lo n : Int) := by
  rw [intervals_total_length_refines]; exact C19Lists.total_length_counts_positions l lo n h w hwin

example : SD [(2, 4), (7, 7)] ∧ WFl [(2, 4), (7, 7)] ∧ (∀ r ∈ [((2 : Int), (4 : Int)), (7, 7)], (0 : Int) ≤ r.1 ∧ r.2 < 0 + (10 : Nat)) ∧
    Gen.intervals_total_length [(2, 4), (7, 7)] = 4 := by
  refine ⟨by decide, by decide, by decide, by decide⟩

theorem total_length_eq_sum (l : List Iv) :
    Gen.intervals_total_length l = (l.map (fun r => r.2 - r.1 + 1)).sum := by
  rw [intervals_total_length_refines]; exact C19Lists.total_length_eq_sum l

/-- prefix / suffix sums = Σ per-interval counts of positions `< p` / `> p` -/
theorem sum_to_point_spec (l : List Iv) (p : Int) (h : SD l) (w : WFl l) (hne : l ≠ []) :
    Gen.sum_intervals_to_point l p = some ((l.map (lenBelow · p)).sum) := by
  rw [sum_intervals_to_point_refines]; exact C19Lists.sum_to_point_spec l p h w hne

theorem sum_from_point_spec (l : List Iv) (p : Int) (h : SD l) (w : WFl l) (hne : l ≠ []) :
    Gen.sum_intervals_from_point l p = some ((l.map (lenAbove · p)).sum) := by
  rw [sum_intervals_from_point_refines]; exact C19Lists.sum_from_point_spec l p h w hne

example : SD [(1, 5), (10, 12)] ∧ WFl [(1, 5), (10, 12)] ∧
    Gen.sum_intervals_to_point [(1, 5), (10, 12)] 11 = some 6 ∧ Gen.sum_intervals_from_point [(1, 5), (10, 12)] 3 = some 5 := by
  refine ⟨by decide, by decide, by decide +kernel, by decide +kernel⟩

theorem sum_to_point_empty (p : Int) : Gen.sum_intervals_to_point [] p = none := by
  rw [sum_intervals_to_point_refines]; rfl

/-- `extra_exon_percentage` = (read positions outside the isoform region) / (read length); raises iff the length is 0 -/
theorem extra_exon_percentage_spec (reg : Iv) (exons : List Iv) (w : WFl exons) :
    Gen.extra_exon_percentage reg exons =
      if Gen.intervals_total_length exons = 0 then none
      else some ((exons.map (fun e => lenBelow e reg.1 + lenAbove e reg.2)).sum, Gen.intervals_total_length exons) := by
  rw [extra_exon_percentage_refines, intervals_total_length_refines]
  exact C19Lists.extra_exon_percentage_spec reg exons w

example : WFl [(1, 5), (10, 12), (20, 30)] ∧
    Gen.extra_exon_percentage (4, 24) [(1, 5), (10, 12), (20, 30)] = some (9, 19) := by
  refine ⟨by decide, by decide +kernel⟩

end IsoVerif.Props.C19Gen
