/-
C11 — translation equivariance of the multimapper resolver (Model/Resolver.lean, C08), for ALL record lists, ALL
strategies and ALL shifts `k : Int` (no hypotheses: the resolver has no sentinel and no coordinate-valued constant):

  resolve s (shift k l) = shift k (resolve s l)          (errors ↦ errors)

where `shiftRec k` adds `k` to `start`, `end` and both ends of `genomic_region` of a record and keeps the ids, the
chromosome, the types, the flags, the penalty, the isoform and gene lists.  Hence the retained set is the shifted
retained set (same indices, assignment ids, types), the lexicographic tie-break of `select_noninformative`
(region start, chromosome, start, end, isoforms) is preserved, and the loader / graph-input functions see the
shifted introns of the same reads.
-/
import IsoVerif.Model.Resolver
import IsoVerif.Model.C11SymGraph
import IsoVerif.Lemmas.C11Resolver

namespace IsoVerif.Props.C11Resolver
open IsoVerif.Gen IsoVerif.Model IsoVerif.Model.C11 IsoVerif.Model.Resolver IsoVerif.Lemmas.C11 IsoVerif.Lemmas.C11.ResolverShift

/-! ## the transformation -/

theorem shiftRec_zero (r : Rec) : shiftRec 0 r = r := IsoVerif.Lemmas.C11.ResolverShift.shiftRec_zero r

theorem shiftRec_add (j k : Int) (r : Rec) : shiftRec j (shiftRec k r) = shiftRec (k + j) r :=
  IsoVerif.Lemmas.C11.ResolverShift.shiftRec_add j k r

theorem shiftRec_injective (k : Int) (a b : Rec) : shiftRec k a = shiftRec k b → a = b :=
  fun h => IsoVerif.Lemmas.C11.ResolverShift.shiftRec_injective k h

example : shiftRec 255 (shiftRec (-255) { (default : Rec) with start := 7 }) = { (default : Rec) with start := 7 } := by
  decide

/-! ## section: Model/Resolver.lean — the pieces -/

/-- `BasicReadAssignment.__eq__` does not see a common shift -/
theorem shift_equivariant_recEq (k : Int) (a b : Rec) : recEq (shiftRec k a) (shiftRec k b) = recEq a b :=
  recEq_shift k a b

/-- `find_duplicates`: the same indices survive -/
theorem shift_equivariant_findDuplicates (k : Int) (keep : List IRec) :
    findDuplicates (keep.map (shiftIRec k)) = (findDuplicates keep).map (shiftIRec k) :=
  findDuplicates_shift k keep

/-- `filter_assignments`: same records flagged / suspended -/
theorem shift_equivariant_filterAssignments (k : Int) (l : List Rec) (keep : List IRec) :
    filterAssignments (shiftRecs k l) (keep.map (shiftIRec k)) = shiftRecs k (filterAssignments l keep) :=
  filterAssignments_shift k l keep

/-- `intersection_len(genomic_region, (start, end))` is invariant -/
theorem shift_equivariant_overlapLen (k : Int) (r : Rec) : overlapLen (shiftRec k r) = overlapLen r :=
  overlapLen_shift k r

theorem shift_equivariant_maxOverlap (k : Int) (non : List IRec) :
    maxOverlap (non.map (shiftIRec k)) = maxOverlap non :=
  maxOverlap_shift k non

/-- the tie-break of `select_noninformative` — lexicographic order of (region start, chromosome, start, end,
    isoforms) — is preserved (three of the components are shifted, the chromosome and the isoforms are not) -/
theorem shift_equivariant_tieKey_lt (k : Int) (x y : Rec) :
    tieKey (shiftRec k x) < tieKey (shiftRec k y) ↔ tieKey x < tieKey y :=
  tieKey_lt_shift k x y

theorem shift_equivariant_tieKey_le (k : Int) (x y : Rec) :
    tieKey (shiftRec k x) ≤ tieKey (shiftRec k y) ↔ tieKey x ≤ tieKey y := by
  rw [← List.not_lt, ← List.not_lt, tieKey_lt_shift]

/-- the region-start-only tie-break of the tree before the `fix:` commit is preserved as well -/
theorem shift_equivariant_regionStart_lt (k : Int) (x y : Rec) :
    (shiftRec k x).region.1 < (shiftRec k y).region.1 ↔ x.region.1 < y.region.1 := by
  simp only [shiftRec_region, shiftIv_fst]; omega

/-- second loop of `select_noninformative`, from any intermediate state -/
theorem shift_equivariant_pickBest (k : Int) (m : Int) (b : Option IRec) (non : List IRec) :
    pickBest m (b.map (shiftIRec k)) (non.map (shiftIRec k)) = (pickBest m b non).map (shiftIRec k) :=
  pickBest_shift k m b non

theorem shift_equivariant_pickBestBuggy (k : Int) (m : Int) (b : Option IRec) (non : List IRec) :
    pickBestBuggy m (b.map (shiftIRec k)) (non.map (shiftIRec k)) = (pickBestBuggy m b non).map (shiftIRec k) :=
  pickBestBuggy_shift k m b non

theorem shift_equivariant_bestNoninformative (k : Int) (non : List IRec) :
    bestNoninformative (non.map (shiftIRec k)) = (bestNoninformative non).map (shiftIRec k) :=
  bestNoninformative_shift k non

theorem shift_equivariant_bestInconsistent (k : Int) (inc : List IRec) :
    bestInconsistent (inc.map (shiftIRec k)) = (bestInconsistent inc).map (shiftIRec k) :=
  bestInconsistent_shift k inc

/-- the candidate set (before `find_duplicates`) -/
theorem shift_equivariant_candidates (k : Int) (l : List Rec) :
    candidates (shiftRecs k l) = (candidates l).map (List.map (shiftIRec k)) :=
  candidates_shift k l

/-! ## section: Model/Resolver.lean — the resolver -/

theorem shift_equivariant_selectBestAssignment (k : Int) (l : List Rec) :
    selectBestAssignment (shiftRecs k l) = (selectBestAssignment l).map (shiftRecs k) :=
  selectBestAssignment_shift k l

/-- the tree before the `fix:` commit was order dependent, but translation equivariant -/
theorem shift_equivariant_selectBestAssignmentBuggy (k : Int) (l : List Rec) :
    selectBestAssignmentBuggy (shiftRecs k l) = (selectBestAssignmentBuggy l).map (shiftRecs k) :=
  selectBestAssignmentBuggy_shift k l

theorem shift_equivariant_mergeAssignments (k : Int) (l : List Rec) :
    mergeAssignments (shiftRecs k l) = (mergeAssignments l).map (shiftRecs k) :=
  mergeAssignments_shift k l

/-- `MultimapResolver.resolve`: all strategies, all lists, all `k`; `none` (the code raises) ↦ `none` -/
theorem shift_equivariant_resolve (s : MultimapResolvingStrategy) (k : Int) (l : List Rec) :
    resolve s (shiftRecs k l) = (resolve s l).map (shiftRecs k) :=
  resolve_shift k s l

/-- the retained records of the shifted read are the shifted retained records … -/
theorem shift_equivariant_retained (s : MultimapResolvingStrategy) (k : Int) (l : List Rec) :
    (resolve s (shiftRecs k l)).map retained = (resolve s l).map (fun out => shiftRecs k (retained out)) := by
  unfold shiftRecs
  rw [resolve_shift]
  cases resolve s l with
  | none => rfl
  | some out => simp only [Option.map_some, retained_shift]

/-- … in particular the same alignments (assignment ids), with the same types, flags and isoforms, are retained -/
theorem shift_equivariant_retained_ids (s : MultimapResolvingStrategy) (k : Int) (l : List Rec) :
    (resolve s (shiftRecs k l)).map (fun out => (retained out).map (fun r => (r.aid, r.atype, r.gtype, r.multimapper, r.isoforms)))
      = (resolve s l).map (fun out => (retained out).map (fun r => (r.aid, r.atype, r.gtype, r.multimapper, r.isoforms))) := by
  unfold shiftRecs
  rw [resolve_shift]
  cases resolve s l with
  | none => rfl
  | some out => simp only [Option.map_some, retained_shift, List.map_map]; rfl

/-- a non-trivial instance: two uninformative records tie on the overlap; the tie-break (smaller region start) picks
    the second one, before and after the shift -/
example :
    resolve .take_best (shiftRecs 1000
      [{ (default : Rec) with aid := 1, start := 100, stop := 140, region := (90, 200), atype := .noninformative },
       { (default : Rec) with aid := 2, start := 100, stop := 140, region := (80, 200), atype := .noninformative }])
    = some [{ (default : Rec) with aid := 1, start := 1100, stop := 1140, region := (1090, 1200), atype := .suspended, gtype := .suspended },
            { (default : Rec) with aid := 2, start := 1100, stop := 1140, region := (1080, 1200), atype := .noninformative }] := by
  decide

/-! ## section: Model/Resolver.lean — loader and graph input (`Full` carries the corrected introns) -/

/-- `ReadAssignmentLoader.get_next`: the verdicts carry no coordinates the loader looks at -/
theorem shift_equivariant_load (k : Int) (dict : List (Nat × List Rec)) (ras : List Full) :
    load (shiftDict k dict) (ras.map (shiftFull k)) = (load dict ras).map (List.map (shiftFull k)) :=
  load_shift k dict ras

/-- `IntronCollector.collect_introns`: the counted introns are the shifted ones -/
theorem shift_equivariant_collectIntrons (k : Int) (storage : List Full) :
    collectIntrons (storage.map (shiftFull k)) = shiftL k (collectIntrons storage) :=
  collectIntrons_shift k storage

/-- `IntronGraph.construct`: the edges are the shifted edges -/
theorem shift_equivariant_graphEdges (k : Int) (discarded : List Iv) (storage : List Full) :
    graphEdges (shiftL k discarded) (storage.map (shiftFull k))
      = (graphEdges discarded storage).map (mapPair (shiftIv k)) :=
  graphEdges_shift k discarded storage

end IsoVerif.Props.C11Resolver
