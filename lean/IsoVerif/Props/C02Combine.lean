/-
C02, part 5 — the `combined_*` tables of a multi-experiment invocation (`src/stats.py combine_counts`).

The outer join itself is C10's model (`IsoVerif.Model.C10.transformCounts` / `combineTable`) and its column theorem is
C10's `combined_columns` (Props/C10.lean) – both imported, not repeated.  This file adds the C02 side:
which lines the files contain (`countsFileTable`, `tpmFileTable`), that the `[:-3]` slice removes exactly the
statistics lines `merge_counts` wrote, the row order pandas gives an outer join, and what every cell of the
combined tables is in terms of the documented weighting (composition with `merge_named_sums`, `tpm_rows`).
-/
import IsoVerif.Model.CounterCombine
import IsoVerif.Lemmas.CounterCombine
import IsoVerif.Props.C02MergeOrder
import IsoVerif.Props.C10
import IsoVerif.Gen.CombineTables

namespace IsoVerif.Props.C02Combine
open IsoVerif.Gen IsoVerif.Model.C02 IsoVerif.Lemmas.C02 IsoVerif.Props.C02 IsoVerif.Props.C02Merge
open IsoVerif.Props.C02MergeOrder
open IsoVerif.Model.C10 (Table transformCounts combineTable)

/-! ## 11. the protocol between the writers of the tables and `combine_counts` (generated on every run) -/

/-- **combine_protocol** (generated from `transform_counts`, `combine_table`, `combine_counts`, `format_header`,
    `convert_counts_to_tpm`, `merge_counts`; `decide`):
    the slice `df[:-N]` drops as many lines as `merge_counts` appends; the join is an outer join on the first header
    column; counts files are read with the value column `format_header` writes and lose the statistics lines, TPM files
    are read whole under the renamed value column; the statistics lines never reach a TPM file (the TPM reader stops at
    them), whose only extra line is `__unassigned` -/
theorem combine_protocol :
    combine_dropped_tail = merge_stat_names.length ∧
    combine_join_key = counts_header_key ∧ combine_join_how = "outer" ∧
    (∀ c ∈ combine_calls,
      (c.2.1 = "_counts.tsv" ∧ c.2.2.2.1 = counts_header_value ∧ c.2.2.2.2 = false) ∨
      (c.2.1 = "_tpm.tsv" ∧ c.2.2.2.1 = tpm_header_replace.2 ∧ c.2.2.2.2 = true)) ∧
    tpm_header_replace.1 = counts_header_value ∧
    (∀ n ∈ merge_stat_names, n ∈ tpm_stop_names) ∧ tpm_unassigned_name ∉ tpm_stop_names := by decide

/-- C10's `transformCounts` is the slice of today's source -/
theorem transform_is_generated_slice (t : Table) :
    transformCounts false t = t.take (t.length - combine_dropped_tail) ∧ transformCounts true t = t := by
  simp [transformCounts, combine_dropped_tail]

/-- **transform_drops_stat_lines**: on a counts file written by `merge_counts`, `transform_counts` keeps exactly the
    feature rows – whatever the feature ids are (no test on the first column is involved) -/
theorem transform_drops_stat_lines (fmtC : Int → String) (fmtN : Nat → String) (p : Part String) :
    transformCounts false (countsFileTable fmtC fmtN p) = p.rows.map (fun r => (r.1, fmtC r.2)) := by
  unfold transformCounts countsFileTable
  simp only [Bool.false_eq_true, if_false]
  exact take_append_tail _ _ 3 (by simp [merge_stat_names])

/-- the counts tables are combined as if the feature rows alone had been read whole -/
theorem combine_counts_files (fmtC : Int → String) (fmtN : Nat → String) (es : List (String × Part String)) :
    combineTable false (es.map (fun e => (e.1, countsFileTable fmtC fmtN e.2)))
      = combineTable true (es.map (fun e => (e.1, e.2.rows.map (fun r => (r.1, fmtC r.2))))) := by
  simp only [combineTable, List.map_map, Function.comp_def, transform_drops_stat_lines]
  simp [transformCounts]

/-! ## 12. row order of the combined table -/

/-- `combineTableSorted` has C10's header and C10's rows, in increasing order of the feature id (code points):
    the rows are pairwise distinct and strictly sorted -/
theorem combined_sorted (full : Bool) (ts : List (String × Table)) :
    (combineTableSorted full ts).1 = (combineTable full ts).1 ∧
    (combineTableSorted full ts).2.Perm (combineTable full ts).2 ∧
    (combineTableSorted full ts).2.Pairwise (fun a b => a.1 < b.1) := by
  refine ⟨rfl, IsoVerif.Lemmas.C06.isort_perm _ _, ?_⟩
  have hperm : (combineTableSorted full ts).2.Perm (combineTable full ts).2 := IsoVerif.Lemmas.C06.isort_perm _ _
  have hle : (combineTableSorted full ts).2.Pairwise (fun a b => strLeB a.1 b.1 = true) :=
    IsoVerif.Lemmas.C06.isort_pairwise _ (fun a b c => strLeB_trans a.1 b.1 c.1) (fun a b => strLeB_total a.1 b.1) _
  have hnd : ((combineTableSorted full ts).2.map Prod.fst).Nodup :=
    (hperm.map Prod.fst).nodup_iff.mpr (IsoVerif.Lemmas.C10.combine_keys_nodup full ts)
  have hne : (combineTableSorted full ts).2.Pairwise (fun a b => a.1 ≠ b.1) := by
    rw [List.Nodup, List.pairwise_map] at hnd
    exact hnd
  refine (hle.and hne).imp ?_
  rintro a b ⟨h1, h2⟩
  simp only [strLeB, decide_eq_true_eq] at h1
  exact String.not_le.mp (fun hba => h2 (String.le_antisymm h1 hba))

/-! ## 13. the columns of the combined tables, cell by cell -/

/-- a cell of a C10 combined table, addressed through the sorted table -/
theorem sorted_row_mem (full : Bool) (ts : List (String × Table)) (row : String × List (Option String)) :
    row ∈ (combineTableSorted full ts).2 ↔ row ∈ (combineTable full ts).2 :=
  (combined_sorted full ts).2.1.mem_iff

/-- generic form (any table read whole): a row of the combined table carries in column `i` the value of experiment
    `i` for that feature, and an EMPTY cell (pandas NaN – not 0) when experiment `i` has no row for it -/
theorem combined_cells_full (ts : List (String × Table)) (hnd : ∀ p ∈ ts, (p.2.map Prod.fst).Nodup)
    (i : Nat) (p : String × Table) (hi : ts[i]? = some p) (row : String × List (Option String))
    (hrow : row ∈ (combineTableSorted true ts).2) :
    row.2.length = ts.length ∧
    (∀ v, (row.1, v) ∈ p.2 → row.2[i]? = some (some v)) ∧
    (row.1 ∉ p.2.map Prod.fst → row.2[i]? = some none) := by
  rw [sorted_row_mem] at hrow
  have hw := IsoVerif.Props.C10.combined_row_width true ts row hrow
  obtain ⟨_, _, hcol⟩ := IsoVerif.Props.C10.combined_columns true ts hnd
  have hilt : i < ts.length := by
    rcases Nat.lt_or_ge i ts.length with h | h
    · exact h
    · rw [List.getElem?_eq_none h] at hi; cases hi
  refine ⟨hw, ?_, ?_⟩
  · intro v hv
    obtain ⟨row', hrow', hk, hc⟩ := (hcol i p hi row.1 v).mpr (by simpa [transformCounts] using hv)
    rw [row_of_key true ts row' row hrow' hrow hk] at hc
    exact hc
  · intro hk
    have hlt : i < row.2.length := by rw [hw]; exact hilt
    rw [List.getElem?_eq_getElem hlt]
    cases hc : row.2[i] with
    | none => rfl
    | some v =>
      exfalso
      have := (hcol i p hi row.1 v).mp ⟨row, hrow, rfl, by rw [List.getElem?_eq_getElem hlt, hc]⟩
      simp only [transformCounts, if_true] at this
      exact hk (List.mem_map.mpr ⟨(row.1, v), this, rfl⟩)

/-- **combined_columns_exact** (`combined_gene_counts.tsv`, `combined_transcript_counts.tsv`).  Experiments
    `es = [(prefix, merged counts table)]` whose tables list every feature once.  Then
    * the header is `#feature_id` followed by the experiment prefixes, in invocation order;
    * the rows are strictly sorted by feature id, one row per feature that has a row in SOME experiment – the
      statistics lines of the individual files are gone (handled by position: the last three lines), and a feature
      whose id happens to look like one is kept;
    * every row has one cell per experiment; the cell of experiment `i` is the printed count of that feature in
      experiment `i`'s own table, and is EMPTY (NaN, not `0`) when experiment `i` has no row for the feature. -/
theorem combined_columns_exact (fmtC : Int → String) (fmtN : Nat → String) (es : List (String × Part String))
    (hnd : ∀ e ∈ es, (e.2.rows.map Prod.fst).Nodup) :
    let T := combineTableSorted false (es.map (fun e => (e.1, countsFileTable fmtC fmtN e.2)))
    T.1 = "#feature_id" :: es.map Prod.fst ∧
    T.2.Pairwise (fun a b => a.1 < b.1) ∧
    (∀ k, k ∈ T.2.map Prod.fst ↔ ∃ e ∈ es, k ∈ e.2.rows.map Prod.fst) ∧
    ∀ (i : Nat) (e : String × Part String), es[i]? = some e → ∀ row ∈ T.2,
      row.2.length = es.length ∧
      (∀ c, (row.1, c) ∈ e.2.rows → row.2[i]? = some (some (fmtC c))) ∧
      (row.1 ∉ e.2.rows.map Prod.fst → row.2[i]? = some none) := by
  intro T
  have hT : T = combineTableSorted true (es.map (fun e => (e.1, e.2.rows.map (fun r => (r.1, fmtC r.2))))) := by
    simp only [T, combineTableSorted, combine_counts_files]
  have hkeys : ∀ (e : String × Part String),
      (e.2.rows.map (fun r => (r.1, fmtC r.2))).map Prod.fst = e.2.rows.map Prod.fst := by
    intro e; simp [List.map_map, Function.comp_def]
  refine ⟨?_, ?_, ?_, ?_⟩
  · rw [hT]; simp [combineTableSorted, combineTable, List.map_map, Function.comp_def]
  · rw [hT]; exact (combined_sorted _ _).2.2
  · intro k
    rw [hT]
    have hp := ((combined_sorted true (es.map (fun e => (e.1, e.2.rows.map (fun r => (r.1, fmtC r.2)))))).2.1.map Prod.fst).mem_iff (a := k)
    rw [hp, combined_keys]
    constructor
    · rintro ⟨p, hp, hk⟩
      obtain ⟨e, he, rfl⟩ := List.mem_map.mp hp
      simp only [transformCounts, if_true, hkeys] at hk
      exact ⟨e, he, hk⟩
    · rintro ⟨e, he, hk⟩
      refine ⟨_, List.mem_map.mpr ⟨e, he, rfl⟩, ?_⟩
      simp only [transformCounts, if_true, hkeys]
      exact hk
  · intro i e hi row hrow
    rw [hT] at hrow
    have hi' : (es.map (fun e => (e.1, e.2.rows.map (fun r => (r.1, fmtC r.2)))))[i]?
        = some (e.1, e.2.rows.map (fun r => (r.1, fmtC r.2))) := by
      simp [List.getElem?_map, hi]
    obtain ⟨hw, hpos, hneg⟩ := combined_cells_full _ (by
      intro p hp
      obtain ⟨e', he', rfl⟩ := List.mem_map.mp hp
      simp only [hkeys]
      exact hnd e' he') i _ hi' row hrow
    refine ⟨by simpa using hw, ?_, ?_⟩
    · intro c hc
      exact hpos (fmtC c) (List.mem_map.mpr ⟨(row.1, c), hc, rfl⟩)
    · intro hk
      apply hneg
      simp only [hkeys]
      exact hk

/-- **combined_tpm_columns_exact** (`combined_gene_tpm.tsv`, `combined_transcript_tpm.tsv`): the TPM files are read
    whole, so the combined table has – besides one row per feature – a row `__unassigned` whose cell `i` is the
    `__unassigned` value of experiment `i`; every other cell is the printed TPM of that experiment, or EMPTY. -/
theorem combined_tpm_columns_exact (fmtT : Int → String) (es : List (String × TpmPrinted))
    (hnd : ∀ e ∈ es, (e.2.rows.map Prod.fst).Nodup ∧ tpm_unassigned_name ∉ e.2.rows.map Prod.fst) :
    let T := combineTableSorted true (es.map (fun e => (e.1, tpmFileTable fmtT e.2)))
    T.1 = "#feature_id" :: es.map Prod.fst ∧
    T.2.Pairwise (fun a b => a.1 < b.1) ∧
    ∀ (i : Nat) (e : String × TpmPrinted), es[i]? = some e → ∀ row ∈ T.2,
      row.2.length = es.length ∧
      (∀ v, (row.1, v) ∈ e.2.rows → row.2[i]? = some (some (fmtT v))) ∧
      (row.1 = tpm_unassigned_name → row.2[i]? = some (some (fmtT e.2.unassigned))) ∧
      (row.1 ∉ e.2.rows.map Prod.fst → row.1 ≠ tpm_unassigned_name → row.2[i]? = some none) := by
  intro T
  have hkeys : ∀ (e : String × TpmPrinted),
      (tpmFileTable fmtT e.2).map Prod.fst = e.2.rows.map Prod.fst ++ [tpm_unassigned_name] := by
    intro e; simp [tpmFileTable, List.map_map, Function.comp_def]
  refine ⟨?_, (combined_sorted _ _).2.2, ?_⟩
  · simp [T, combineTableSorted, combineTable, List.map_map, Function.comp_def]
  · intro i e hi row hrow
    have hi' : (es.map (fun e => (e.1, tpmFileTable fmtT e.2)))[i]? = some (e.1, tpmFileTable fmtT e.2) := by
      simp [List.getElem?_map, hi]
    obtain ⟨hw, hpos, hneg⟩ := combined_cells_full _ (by
      intro p hp
      obtain ⟨e', he', rfl⟩ := List.mem_map.mp hp
      simp only [hkeys]
      rw [List.nodup_append]
      refine ⟨(hnd e' he').1, by simp, ?_⟩
      intro a ha b hb hab
      simp only [List.mem_singleton] at hb
      subst hb; subst hab
      exact (hnd e' he').2 ha) i _ hi' row hrow
    refine ⟨by simpa using hw, ?_, ?_, ?_⟩
    · intro v hv
      apply hpos
      simp only [tpmFileTable, List.mem_append, List.mem_map]
      exact Or.inl ⟨(row.1, v), hv, rfl⟩
    · intro hk
      apply hpos
      simp [tpmFileTable, hk]
    · intro hk hne
      apply hneg
      simp only [hkeys, List.mem_append, List.mem_singleton]
      rintro (h | h)
      · exact hk h
      · exact hne h

/-! ## 14. what a cell of the combined counts table is: the documented sum of its own experiment -/

/-- one experiment of the invocation at one table level: its prefix, its chromosomes in `chr_ids` order (name of the
    part file, complete feature list, history of calls of that chromosome's counter), the unmapped reads of its BAMs -/
structure Experiment where
  name : String
  chrs : List (String × List String × List (Event String))
  unaligned : Nat

/-- the merged counts table of the experiment; `none` when a call raises -/
def Experiment.table (s : CountingStrategy) (lvl : Level) (le : String → String → Bool) (oz : Bool) (x : Experiment) :
    Option (Part String) :=
  (runChromosomes s lvl le oz (x.chrs.map (·.2))).map
    (fun parts => mergeCountsNamed ((x.chrs.map (·.1)).zip parts) x.unaligned)

theorem runChromosomes_length {F : Type} [DecidableEq F] (s : CountingStrategy) (lvl : Level) (le : F → F → Bool) (oz : Bool) :
    ∀ (chrs : List (List F × List (Event F))) (parts : List (Part F)),
      runChromosomes s lvl le oz chrs = some parts → parts.length = chrs.length
  | [], parts, h => by
    simp only [runChromosomes, Option.some.injEq] at h
    subst h; rfl
  | c :: cs, parts, h => by
    simp only [runChromosomes] at h
    cases hr : run s lvl (CState.init c.1) c.2 with
    | none => simp [hr] at h
    | some st =>
      simp only [hr] at h
      cases hrest : runChromosomes s lvl le oz cs with
      | none => simp [hrest] at h
      | some ps =>
        simp only [hrest, Option.some.injEq] at h
        subst h
        simp [runChromosomes_length s lvl le oz cs ps hrest]

/-- **combined_cell_is_sum**: every non-empty cell of `combined_gene_counts.tsv` / `combined_transcript_counts.tsv`
    in the column of experiment `x` is the `%.2f` rendering of the sum of the documented contributions of the calls
    of ONE chromosome of experiment `x` (or of 0 when nothing there confirmed the feature) – no other experiment's
    records enter the column.  (`tabs` = the merged tables, all experiments ran; each lists a feature once.) -/
theorem combined_cell_is_sum (s : CountingStrategy) (lvl : Level) (le : String → String → Bool) (oz : Bool)
    (fmtC : Int → String) (fmtN : Nat → String) (exps : List Experiment) (tabs : List (Part String))
    (hlen : tabs.length = exps.length)
    (htab : ∀ (i : Nat) (x : Experiment), exps[i]? = some x → x.table s lvl le oz = tabs[i]?)
    (hnd : ∀ t ∈ tabs, (t.rows.map Prod.fst).Nodup) :
    let T := combineTableSorted false (((exps.map (·.name)).zip tabs).map (fun e => (e.1, countsFileTable fmtC fmtN e.2)))
    ∀ (i : Nat) (x : Experiment), exps[i]? = some x → ∀ row ∈ T.2, ∀ txt, row.2[i]? = some (some txt) →
      ∃ c ∈ x.chrs,
        ((∃ e ∈ c.2.2, confirmsFeature lvl e row.1) ∧
            txt = fmtC (hundredths (ratSum (c.2.2.map (fun e => contribution s lvl e row.1)))))
        ∨ ((¬ ∃ e ∈ c.2.2, confirmsFeature lvl e row.1) ∧ txt = fmtC (hundredths 0)) := by
  intro T i x hi row hrow txt hcell
  have hilt : i < exps.length := by
    rcases Nat.lt_or_ge i exps.length with h | h
    · exact h
    · rw [List.getElem?_eq_none h] at hi; cases hi
  have hx : exps[i] = x := by
    rw [List.getElem?_eq_getElem hilt] at hi; exact Option.some.inj hi
  have hit : i < tabs.length := by rw [hlen]; exact hilt
  let es := (exps.map (·.name)).zip tabs
  have hes : es[i]? = some (x.name, tabs[i]) := by
    simp [es, List.getElem?_zip_eq_some, List.getElem?_map, hi, List.getElem?_eq_getElem hit]
  have hndes : ∀ e ∈ es, (e.2.rows.map Prod.fst).Nodup := by
    intro e he
    exact hnd e.2 (List.of_mem_zip he).2
  obtain ⟨_, _, _, hcols⟩ := combined_columns_exact fmtC fmtN es hndes
  obtain ⟨_, hpos, hneg⟩ := hcols i _ hes row hrow
  -- the cell is non-empty, hence the feature has a row in experiment i's own table
  have hmem : row.1 ∈ (tabs[i]).rows.map Prod.fst := by
    refine Classical.byContradiction (fun hk => ?_)
    have := hneg hk
    rw [hcell] at this
    cases this
  obtain ⟨⟨f, c⟩, hc, hf⟩ := List.mem_map.mp hmem
  simp only at hf
  subst hf
  have hval := hpos c hc
  rw [hcell] at hval
  have htxt : txt = fmtC c := Option.some.inj (Option.some.inj hval)
  -- experiment i's table is its own merge
  have htab' := htab i x hi
  rw [List.getElem?_eq_getElem hit] at htab'
  unfold Experiment.table at htab'
  cases hrun : runChromosomes s lvl le oz (x.chrs.map (·.2)) with
  | none => simp [hrun] at htab'
  | some parts =>
    simp only [hrun, Option.map_some, Option.some.injEq] at htab'
    have hpl := runChromosomes_length s lvl le oz _ parts hrun
    have hsnd : ((x.chrs.map (·.1)).zip parts).map Prod.snd = parts := by
      apply List.map_snd_zip
      simp [hpl]
    obtain ⟨_, _, _, _, hrows⟩ := merge_named_sums s lvl le oz (x.chrs.map (·.2)) parts hrun
      ((x.chrs.map (·.1)).zip parts) hsnd x.unaligned
    rw [htab'] at hrows
    obtain ⟨c', hc', hres⟩ := hrows row.1 c hc
    obtain ⟨c0, hc0, rfl⟩ := List.mem_map.mp hc'
    refine ⟨c0, hc0, ?_⟩
    rw [htxt]
    rcases hres with ⟨h1, h2⟩ | ⟨h1, h2⟩
    · exact Or.inl ⟨h1, by rw [h2]⟩
    · exact Or.inr ⟨h1, by rw [h2]⟩

/-! ## non-vacuity -/

-- two experiments; the counts files carry their three statistics lines; g2 is absent from A, g1 from B;
-- a feature called `__no_feature` is kept (B): only the POSITION of a line decides
example : combineTableSorted false
    [("A", countsFileTable (fmtFixed 2) toString { rows := [("g3", 300), ("g1", 150)], ambiguous := 1, noFeature := 2, notAligned := 0, usable := 9 }),
     ("B", countsFileTable (fmtFixed 2) toString { rows := [("g2", 25), ("__no_feature", 700), ("g3", 0)], ambiguous := 0, noFeature := 0, notAligned := 4, usable := 8 })]
    = (["#feature_id", "A", "B"],
       [("__no_feature", [none, some "7.00"]), ("g1", [some "1.50", none]), ("g2", [none, some "0.25"]),
        ("g3", [some "3.00", some "0.00"])]) := by decide +kernel

example : combineTableSorted true
    [("A", tpmFileTable (fmtFixed 6) { rows := [("g1", 750000000000), ("g2", 250000000000)], unassigned := 0 }),
     ("B", tpmFileTable (fmtFixed 6) { rows := [("g2", 333333333333)], unassigned := 666666666667 })]
    = (["#feature_id", "A", "B"],
       [("__unassigned", [some "0.000000", some "666666.666667"]), ("g1", [some "750000.000000", none]),
        ("g2", [some "250000.000000", some "333333.333333"])]) := by decide +kernel

-- hypotheses of combined_cell_is_sum on a concrete invocation: two experiments over the demo history
def demoStr : List (Event String) :=
  [.raw false ["T1"], .raw false ["T1", "T2"], .confirm ["T1", "T2"]]
def expA : Experiment := ⟨"A", [("A_chr2.transcript_counts.tsv", [], demoStr), ("A_chr1.transcript_counts.tsv", [], [.raw false ["T0"], .confirm ["T0"]])], 0⟩
def expB : Experiment := ⟨"B", [("B_chr1.transcript_counts.tsv", ["T9"], [.raw false ["T2"], .confirm ["T2"]])], 3⟩
def leStr (a b : String) : Bool := decide (a ≤ b)

example : (expA.table .with_ambiguous .transcript leStr true).map (·.rows) = some [("T0", 100), ("T1", 150), ("T2", 50)] ∧
    (expB.table .with_ambiguous .transcript leStr true).map (·.rows) = some [("T2", 100), ("T9", 0)] := by decide +kernel

end IsoVerif.Props.C02Combine
