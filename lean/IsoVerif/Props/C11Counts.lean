/-
C11 — translation equivariance of the exon / intron inclusion–exclusion counting (Model/FeatureCounts.lean, property
C13's model of `construct_exon_profile / construct_intron_profile`, `GeneInfo.set_feature_properties`,
`ProfileFeatureCounter.add_read_info_from_profile / dump`).

ALL inputs, all k.  The rows of exon_counts.tsv / intron_counts.tsv are keyed by `(chr, start, end, strand)`: shifting the
annotation shifts the keys, the counts and the feature flags (`X/T/I`, `S`, `C`, `U/M`) do not change, and the counter fed
with the shifted property maps dumps the shifted rows in the same order.  The only hypothesis (profile constructors) is the
polyA / polyT sentinel one of `shift_equivariant_constructOverlapping`.
-/
import IsoVerif.Model.FeatureCounts
import IsoVerif.Model.C11SymCounts
import IsoVerif.Lemmas.C11Counts
import IsoVerif.Props.C11Profiles

namespace IsoVerif.Props.C11Counts
open IsoVerif.Gen IsoVerif.Model IsoVerif.Model.C11 IsoVerif.Model.C13 IsoVerif.Lemmas.C11

/-- `construct_exon_profile` of the shifted read against the shifted annotation: the same profile -/
theorem shift_equivariant_constructExonProfile (k : Int) (known : List Iv) (geneRegion : Iv) (delta : Int)
    (blocks : List Iv) (polya polyt : Int) (hA : polya ≠ -1 → polya + k ≠ -1) (hT : polyt ≠ -1 → polyt + k ≠ -1) :
    constructExonProfile (shiftL k known) (shiftIv k geneRegion) delta (shiftL k blocks) (shiftPos k polya) (shiftPos k polyt)
      = constructExonProfile known geneRegion delta blocks polya polyt := by
  simp only [constructExonProfile, shiftL_head?, shiftL_getLast?]
  cases blocks.head? with
  | none => rfl
  | some f =>
    cases blocks.getLast? with
    | none => rfl
    | some l =>
      simp only [Option.map_some]
      have e : (((shiftIv k f).2 + delta, (shiftIv k l).1 - delta) : Iv) = shiftIv k (f.2 + delta, l.1 - delta) := by
        simp only [shiftIv]; ext <;> simp <;> omega
      rw [e, IsoVerif.Props.C11Profiles.shift_equivariant_constructOverlapping k _ _
        (IsoVerif.Props.C11Profiles.shiftInv_equal_ranges k delta) (IsoVerif.Props.C11Profiles.shiftInv_contains k)
        known geneRegion delta blocks _ polya polyt hA hT]

/-- `construct_intron_profile` -/
theorem shift_equivariant_constructIntronProfile (k : Int) (known : List Iv) (geneRegion : Iv) (delta absDelta : Int)
    (blocks : List Iv) (polya polyt : Int) (hA : polya ≠ -1 → polya + k ≠ -1) (hT : polyt ≠ -1 → polyt + k ≠ -1) :
    constructIntronProfile (shiftL k known) (shiftIv k geneRegion) delta absDelta (shiftL k blocks)
        (shiftPos k polya) (shiftPos k polyt)
      = constructIntronProfile known geneRegion delta absDelta blocks polya polyt := by
  simp only [constructIntronProfile, shiftL_head?, shiftL_getLast?]
  cases blocks.head? with
  | none => rfl
  | some f =>
    cases blocks.getLast? with
    | none => rfl
    | some l =>
      simp only [Option.map_some]
      have e : (((shiftIv k f).1, (shiftIv k l).2) : Iv) = shiftIv k (f.1, l.2) := rfl
      rw [e, junctionsFromBlocks_shift, IsoVerif.Props.C11Profiles.shift_equivariant_constructOverlapping k _ _
        (IsoVerif.Props.C11Profiles.shiftInv_equal_ranges k delta)
        (IsoVerif.Props.C11Profiles.shiftInv_overlaps_at_least k absDelta)
        known geneRegion delta (junctionsFromBlocks blocks) _ polya polyt hA hT]

/-- the row key moves with the feature -/
theorem shift_equivariant_coordKey (k : Int) (f : FeatureInfo) : coordKey (shiftFI k f) = shiftKey k (coordKey f) := rfl

/-- the shift is injective on row keys: two features share a row after the shift iff they did before -/
theorem shiftKey_injective (k : Int) (a b : CoordKey) : shiftKey k a = shiftKey k b ↔ a = b := fc_shiftKey_inj k a b

/-- `GeneInfo.set_feature_properties` of the shifted annotation: the same ids, strands, flags and gene lists on the
    shifted coordinates -/
theorem shift_equivariant_setFeatureProperties (k : Int) (chr : String) (delta : Int) (features : List Iv)
    (isoforms : List IsoformFeatures) (nextId : Nat) :
    setFeatureProperties chr delta (shiftL k features) (isoforms.map (shiftIsoFeats k)) nextId =
      (setFeatureProperties chr delta features isoforms nextId).map (shiftFI k) :=
  fc_setFeatureProperties_shift k chr delta features isoforms nextId

/-- one read: `add_read_info_from_profile` on the shifted counter with the shifted property map -/
theorem shift_equivariant_addReadInfoFromProfile (k : Int) (st : PCounter CoordKey) (prof : List Int)
    (pm : List FeatureInfo) (g : String) :
    addReadInfoFromProfile coordKey FeatureInfo.merge (shiftCounter k st) prof (pm.map (shiftFI k)) g =
      (addReadInfoFromProfile coordKey FeatureInfo.merge st prof pm g).map (shiftCounter k) :=
  fc_addReadInfoFromProfile_shift k st prof pm g

/-- **shift_equivariant_count_rows** — a whole history of reads: the counter fed with the shifted property maps dumps
    the shifted rows (same order, same groups, same include / exclude counts); an IndexError stays an IndexError -/
theorem shift_equivariant_count_rows (k : Int) (ig : Bool) (dg : String) (evs : List ReadEv) :
    (countAll coordKey FeatureInfo.merge ig dg (evs.map (shiftReadEv k))).map dumpRows =
      (countAll coordKey FeatureInfo.merge ig dg evs).map (fun st => (dumpRows st).map (shiftRow k)) := by
  have h := fc_runCounter_shift k ig dg evs (PCounter.init ig dg)
  have h0 : shiftCounter k (PCounter.init ig dg : PCounter CoordKey) = PCounter.init ig dg := rfl
  rw [h0] at h
  simp only [countAll, h, Option.map_map]
  congr 1
  funext st
  exact fc_dumpRows_shift k st

/-- non-vacuity: two reads on a two-exon gene, shifted by 1000 -/
example :
    let fi1 : FeatureInfo := ⟨1, "chr1", 100, 200, "+", "TU", ["G"]⟩
    let fi2 : FeatureInfo := ⟨2, "chr1", 300, 400, "+", "TU", ["G"]⟩
    let evs : List ReadEv := [⟨[1, -1], [fi1, fi2], "g"⟩, ⟨[1, 1], [fi1, fi2], "g"⟩]
    ((countAll coordKey FeatureInfo.merge false "NA" evs).map dumpRows).map (List.map (fun r => (r.fi.start, r.incl, r.excl)))
      = some [(100, 2, 0), (300, 1, 1)] ∧
    ((countAll coordKey FeatureInfo.merge false "NA" (evs.map (shiftReadEv 1000))).map dumpRows).map
        (List.map (fun r => (r.fi.start, r.incl, r.excl))) = some [(1100, 2, 0), (1300, 1, 1)] := by decide

end IsoVerif.Props.C11Counts
