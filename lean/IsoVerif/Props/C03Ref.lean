/-
C03 — reference transcripts the pipeline cannot digest or does not visit (`Model/GtfRef.lean`).

* exon-less reference transcripts: `set_introns_and_exons` skips them, `gene_id_map` keeps them; the pinned second loop of
  `TranscriptToGeneJoiner.__init__` (`joinerRefLoopOrig`) raises KeyError on them (`…_witness`, exact characterisation), the
  repaired loop (`joinerRefLoop`) is total, agrees with the pinned one wherever that one ran, and builds the declared tables.
* the task list is the FASTA's key set: full characterisation of the transcript records of `extended_annotation.gtf`
  (`extended_tx_line_iff`); the clause "extended_annotation.gtf consists of every reference transcript" at full strength
  (`ExtendedContainsEveryReferenceTranscript`) is FALSE (`…_witness`: annotated chromosome absent from the FASTA;
  `reference_on_wrong_chromosome_witness`: one gene_id on two chromosomes) and proved under the exact hypotheses that exclude
  the two classes (`…_partial`).
-/
import IsoVerif.Model.GtfRef
import IsoVerif.Props.C03Build

namespace IsoVerif.Props.C03Ref
open IsoVerif.Gen IsoVerif.Model IsoVerif.Model.C03 IsoVerif.Lemmas IsoVerif.Lemmas.C03 IsoVerif.Props.C03Build

/-! ### exon-less transcripts: which transcripts `from_reference_transcript` knows -/

/-- **isoforms_are_transcripts_with_exons**: the entries of `all_isoforms_exons` are exactly the transcript records that have
    at least one exon record -/
theorem isoforms_are_transcripts_with_exons (a : ChrAnn) (r : RefTx) :
    r ∈ a.ctx.isoforms ↔ ∃ t ∈ a.txs, t.exons ≠ [] ∧ r = t.ref := by
  simp only [ChrAnn.ctx, isoformsOf, List.mem_map, List.mem_filter, Bool.not_eq_true', List.isEmpty_eq_false_iff]
  constructor
  · rintro ⟨t, ⟨ht, he⟩, rfl⟩; exact ⟨t, ht, he, rfl⟩
  · rintro ⟨t, ht, he, rfl⟩; exact ⟨t, ⟨ht, he⟩, rfl⟩

theorem isoforms_tids_nodup (txs : List DbTx) (hnd : (txs.map (·.tid)).Nodup) : ((isoformsOf txs).map (·.tid)).Nodup := by
  have : (isoformsOf txs).map (·.tid) = (txs.filter (fun t => !t.exons.isEmpty)).map (·.tid) := by
    simp [isoformsOf, DbTx.ref, List.map_map, Function.comp_def]
  rw [this]
  exact hnd.sublist ((List.filter_sublist).map _)

/-- lookup of a transcript id among the transcripts that have exons, ids pairwise distinct -/
theorem find_tx (txs : List DbTx) (hnd : (txs.map (·.tid)).Nodup) (t : DbTx) (ht : t ∈ txs) :
    txs.find? (fun a => !a.exons.isEmpty && a.tid == t.tid) = if t.exons = [] then none else some t := by
  induction txs with
  | nil => cases ht
  | cons x xs ih =>
    simp only [List.map_cons, List.nodup_cons] at hnd
    rcases List.mem_cons.mp ht with he | ht'
    · subst he
      by_cases hx : t.exons = []
      · have hp : (!t.exons.isEmpty && t.tid == t.tid) = false := by simp [hx]
        simp only [List.find?_cons, hp]
        rw [if_pos hx, List.find?_eq_none]
        intro y hy
        have : y.tid ≠ t.tid := fun he => hnd.1 (List.mem_map.mpr ⟨y, hy, he⟩)
        simp [this]
      · have hp : (!t.exons.isEmpty && t.tid == t.tid) = true := by simp [hx]
        simp only [List.find?_cons, hp]
        rw [if_neg hx]
    · have hne : x.tid ≠ t.tid := fun he => hnd.1 (he ▸ List.mem_map_of_mem ht')
      have hp : (!x.exons.isEmpty && x.tid == t.tid) = false := by simp [hne]
      simp only [List.find?_cons, hp]
      exact ih hnd.2 ht'

theorem find_isoform (txs : List DbTx) (hnd : (txs.map (·.tid)).Nodup) (t : DbTx) (ht : t ∈ txs) :
    (isoformsOf txs).find? (fun r => r.tid == t.tid) = if t.exons = [] then none else some t.ref := by
  have h := find_tx txs hnd t ht
  unfold isoformsOf
  rw [List.find?_map, List.find?_filter]
  have hf : ∀ a : DbTx, decide ((!a.exons.isEmpty) = true ∧ ((fun r : RefTx => r.tid == t.tid) ∘ DbTx.ref) a = true) =
      (!a.exons.isEmpty && a.tid == t.tid) := by
    intro a; cases hx : a.exons <;> by_cases he : a.tid = t.tid <;> simp [DbTx.ref, he]
  simp only [hf, h]
  by_cases hx : t.exons = [] <;> simp [hx]

/-- **from_reference_exonless_keyerror**: `from_reference_transcript` raises KeyError for a transcript record without exon
    records, and returns the verbatim model for every other transcript (ids pairwise distinct: gffutils' primary keys) -/
theorem from_reference_exonless_keyerror (a : ChrAnn) (hnd : (a.txs.map (·.tid)).Nodup) (t : DbTx) (ht : t ∈ a.txs) :
    fromReference a.ctx t.tid = if t.exons = [] then none else some (refModel a.ctx t.ref) := by
  unfold fromReference
  have := find_isoform a.txs hnd t ht
  simp only [ChrAnn.ctx] at this ⊢
  rw [this]
  by_cases hx : t.exons = [] <;> simp [hx, refModel, DbTx.ref]

-- non-vacuity: one transcript with exons, one without
example : fromReference (ChrAnn.ctx { chr := 1, txs := [{ tid := 1, gid := 7, seqid := 1, strand := 0, exons := [(10, 20), (30, 40)] },
                                                      { tid := 2, gid := 7, seqid := 1, strand := 0, exons := [] }] }) 2 = none := by decide
example : (fromReference (ChrAnn.ctx { chr := 1, txs := [{ tid := 1, gid := 7, seqid := 1, strand := 0, exons := [(10, 20), (30, 40)] },
                                                       { tid := 2, gid := 7, seqid := 1, strand := 0, exons := [] }] }) 1).isSome = true := by decide

/-! ### the second loop of `TranscriptToGeneJoiner.__init__` -/

/-- **joiner_ref_loop_orig_none_iff**: the pinned loop raises KeyError iff some key of `gene_id_map` has no entry in
    `all_isoforms_introns` -/
theorem joiner_ref_loop_orig_none_iff (iso : List RefTx) (txs : List DbTx) (acc : RefTables) :
    joinerRefLoopOrig iso txs acc = none ↔ ∃ t ∈ txs, intronsOf? iso t.tid = none := by
  induction txs generalizing acc with
  | nil => simp [joinerRefLoopOrig]
  | cons t ts ih =>
    simp only [joinerRefLoopOrig, List.mem_cons, exists_eq_or_imp]
    cases h : intronsOf? iso t.tid with
    | none => simp
    | some l => simp [ih]

/-- **joiner_orig_aborts_iff_exonless**: on the GeneInfo of an annotation (ids pairwise distinct) the pinned constructor of
    the joiner aborts iff the annotation holds a transcript record without exon records -/
theorem joiner_orig_aborts_iff_exonless (a : ChrAnn) (hnd : (a.txs.map (·.tid)).Nodup) :
    a.joinerTablesOrig = none ↔ ∃ t ∈ a.txs, t.exons = [] := by
  unfold ChrAnn.joinerTablesOrig
  rw [joiner_ref_loop_orig_none_iff]
  constructor
  · rintro ⟨t, ht, h⟩
    refine ⟨t, ht, ?_⟩
    unfold intronsOf? at h
    rw [find_isoform a.txs hnd t ht] at h
    by_cases hx : t.exons = []
    · exact hx
    · simp [hx] at h
  · rintro ⟨t, ht, hx⟩
    refine ⟨t, ht, ?_⟩
    unfold intronsOf?
    rw [find_isoform a.txs hnd t ht]
    simp [hx]

/-- **joiner_ref_loop_repair_conservative**: wherever the pinned loop ran to its end, the repaired loop builds the same tables -/
theorem joiner_ref_loop_repair_conservative (iso : List RefTx) (txs : List DbTx) (acc r : RefTables)
    (h : joinerRefLoopOrig iso txs acc = some r) : joinerRefLoop iso txs acc = r := by
  induction txs generalizing acc with
  | nil => simpa [joinerRefLoopOrig, joinerRefLoop] using h
  | cons t ts ih =>
    simp only [joinerRefLoopOrig] at h
    cases hl : intronsOf? iso t.tid with
    | none => simp [hl] at h
    | some l =>
      simp only [hl] at h
      simp only [joinerRefLoop, intronsOrEmpty, hl]
      exact ih _ h

/-- reading a `defaultdict(set)`: a missing key is the empty set -/
def getSet {α} (d : List (Id × List α)) (k : Id) : List α :=
  match d.lookup k with
  | none => []
  | some s => s

theorem mem_foldl_setIns {α} [DecidableEq α] (l s : List α) (x : α) : x ∈ l.foldl setIns s ↔ x ∈ s ∨ x ∈ l := by
  induction l generalizing s with
  | nil => simp
  | cons y ys ih =>
    simp only [List.foldl_cons, ih, List.mem_cons]
    unfold setIns
    by_cases hy : y ∈ s
    · simp only [hy, if_true]
      constructor
      · rintro (h | h); exact Or.inl h; exact Or.inr (Or.inr h)
      · rintro (h | h | h); exact Or.inl h; exact Or.inl (h ▸ hy); exact Or.inr h
    · simp only [hy, if_false, List.mem_append, List.mem_singleton]
      constructor
      · rintro ((h | h) | h); exact Or.inl h; exact Or.inr (Or.inl h); exact Or.inr (Or.inr h)
      · rintro (h | h | h); exact Or.inl (Or.inl h); exact Or.inl (Or.inr h); exact Or.inr h

theorem lookup_append_single {β} (d : List (Id × β)) (k k' : Id) (v : β) (h : d.lookup k = none) :
    (d ++ [(k, v)]).lookup k' = if k' = k then some v else d.lookup k' := by
  induction d with
  | nil =>
    by_cases hk : k' = k
    · subst hk; simp [List.lookup]
    · have hb : (k' == k) = false := by simpa using hk
      simp [List.lookup, hb, hk]
  | cons p ps ih =>
    obtain ⟨a, b⟩ := p
    simp only [List.lookup_cons] at h
    by_cases hka : k = a
    · subst hka; simp at h
    · have hb : (k == a) = false := by simpa using hka
      rw [hb] at h
      simp only [List.cons_append, List.lookup_cons]
      by_cases hk' : k' = a
      · subst hk'
        have : ¬ k' = k := fun e => hka e.symm
        simp [this]
      · have hb' : (k' == a) = false := by simpa using hk'
        rw [hb']
        exact ih h

theorem lookup_map_update {β} (d : List (Id × β)) (k k' : Id) (f : β → β) :
    (d.map (fun p => if p.1 = k then (k, f p.2) else p)).lookup k' =
      if k' = k then (d.lookup k).map f else d.lookup k' := by
  induction d with
  | nil => by_cases hk : k' = k <;> simp [hk]
  | cons p ps ih =>
    obtain ⟨a, b⟩ := p
    simp only [List.map_cons, List.lookup_cons]
    by_cases hak : a = k
    · subst hak
      by_cases hk' : k' = a
      · subst hk'; simp
      · have hb' : (k' == a) = false := by simpa using hk'
        simp only [if_true, List.lookup_cons, hb', hk', if_false] at ih ⊢
        exact ih
    · by_cases hk' : k' = a
      · subst hk'
        have : ¬ k' = k := hak
        simp [hak, this]
      · have hb' : (k' == a) = false := by simpa using hk'
        simp only [hak, if_false, List.lookup_cons, hb']
        by_cases hkk : k' = k
        · subst hkk
          have hb2 : (k' == a) = false := hb'
          simp only [if_true, hb2] at ih ⊢
          exact ih
        · simp only [hkk, if_false] at ih ⊢
          exact ih

/-- `d[k].update(l)`: the set of `k` grows by `l`, every other set is unchanged -/
theorem getSet_ddUpdate {α} [DecidableEq α] (d : List (Id × List α)) (k k' : Id) (l : List α) (x : α) :
    x ∈ getSet (ddUpdate d k l) k' ↔ x ∈ getSet d k' ∨ (k' = k ∧ x ∈ l) := by
  unfold ddUpdate getSet
  cases h : d.lookup k with
  | none =>
    simp only [lookup_append_single d k k' _ h]
    by_cases hk : k' = k
    · subst hk; simp [h, mem_foldl_setIns]
    · simp [hk]
  | some s =>
    have := lookup_map_update d k k' (fun s => l.foldl setIns s)
    rw [this]
    by_cases hk : k' = k
    · subst hk; simp [h, mem_foldl_setIns]
    · simp [hk]

/-- **joiner_ref_loop_spec** (repaired loop, ∀ annotations, ∀ initial tables): afterwards the intron set of gene `g` is what it
    was plus the introns of every transcript of `g` THAT HAS AN ENTRY in `all_isoforms_introns`; the transcript set of `g` is
    what it was plus every transcript of `g` (with or without exons) -/
theorem joiner_ref_loop_spec (iso : List RefTx) (txs : List DbTx) (acc : RefTables) (g : Id) :
    (∀ x, x ∈ getSet (joinerRefLoop iso txs acc).introns g ↔
        x ∈ getSet acc.introns g ∨ ∃ t ∈ txs, t.gid = g ∧ ∃ l, intronsOf? iso t.tid = some l ∧ x ∈ l) ∧
    (∀ tid, tid ∈ getSet (joinerRefLoop iso txs acc).g2t g ↔
        tid ∈ getSet acc.g2t g ∨ ∃ t ∈ txs, t.gid = g ∧ t.tid = tid) := by
  induction txs generalizing acc with
  | nil => simp [joinerRefLoop]
  | cons t ts ih =>
    obtain ⟨h1, h2⟩ := ih (refStep acc t.gid t.tid (intronsOrEmpty iso t.tid))
    constructor
    · intro x
      simp only [joinerRefLoop]
      rw [h1 x]
      simp only [refStep, getSet_ddUpdate, List.mem_cons, exists_eq_or_imp]
      unfold intronsOrEmpty
      cases hl : intronsOf? iso t.tid with
      | none =>
        simp only [List.not_mem_nil, and_false, or_false, reduceCtorEq, false_and, exists_false, false_or]
      | some l =>
        simp only [Option.some.injEq, exists_eq_left']
        constructor
        · rintro ((h | ⟨hg, hx⟩) | h)
          · exact Or.inl h
          · exact Or.inr (Or.inl ⟨hg.symm, hx⟩)
          · exact Or.inr (Or.inr h)
        · rintro (h | ⟨hg, hx⟩ | h)
          · exact Or.inl (Or.inl h)
          · exact Or.inl (Or.inr ⟨hg.symm, hx⟩)
          · exact Or.inr h
    · intro tid
      simp only [joinerRefLoop]
      rw [h2 tid]
      simp only [refStep, getSet_ddUpdate, List.mem_cons, exists_eq_or_imp, List.mem_singleton, List.not_mem_nil, or_false]
      constructor
      · rintro ((h | ⟨hg, hx⟩) | h)
        · exact Or.inl h
        · exact Or.inr (Or.inl ⟨hg.symm, hx.symm⟩)
        · exact Or.inr (Or.inr h)
      · rintro (h | ⟨hg, hx⟩ | h)
        · exact Or.inl (Or.inl h)
        · exact Or.inl (Or.inr ⟨hg.symm, hx.symm⟩)
        · exact Or.inr h

/-- **joiner_tables_spec**: the tables the repaired joiner starts from, for the GeneInfo of an annotation with pairwise distinct
    transcript ids: `gene_introns[g]` = the introns of the transcripts of `g` that have exon records (an exon-less transcript
    contributes nothing), `gene_to_transcripts[g]` = ALL transcript records of `g` -/
theorem joiner_tables_spec (a : ChrAnn) (hnd : (a.txs.map (·.tid)).Nodup) (g : Id) :
    (∀ x, x ∈ getSet a.joinerTables.introns g ↔ ∃ t ∈ a.txs, t.gid = g ∧ t.exons ≠ [] ∧ x ∈ junctionsFromBlocks t.exons) ∧
    (∀ tid, tid ∈ getSet a.joinerTables.g2t g ↔ ∃ t ∈ a.txs, t.gid = g ∧ t.tid = tid) := by
  obtain ⟨h1, h2⟩ := joiner_ref_loop_spec (isoformsOf a.txs) a.txs {} g
  constructor
  · intro x
    unfold ChrAnn.joinerTables
    rw [h1 x]
    simp only [getSet, List.lookup_nil, List.not_mem_nil, false_or]
    constructor
    · rintro ⟨t, ht, hg, l, hl, hx⟩
      unfold intronsOf? at hl
      rw [find_isoform a.txs hnd t ht] at hl
      by_cases he : t.exons = []
      · simp [he] at hl
      · simp only [he, if_false, Option.map_some, Option.some.injEq, DbTx.ref] at hl
        exact ⟨t, ht, hg, he, hl ▸ hx⟩
    · rintro ⟨t, ht, hg, he, hx⟩
      refine ⟨t, ht, hg, junctionsFromBlocks t.exons, ?_, hx⟩
      unfold intronsOf?
      rw [find_isoform a.txs hnd t ht]
      simp [he, DbTx.ref]
  · intro tid
    unfold ChrAnn.joinerTables
    rw [h2 tid]
    simp [getSet]

/-- the annotation of the pipeline witness (`gen/refsets.py: exonless`): gene 7 with two annotated isoforms and a transcript
    record without exon records -/
def exonlessAnn : ChrAnn :=
  { chr := 1, regions := [(7, (1000, 2300))],
    txs := [{ tid := 1, gid := 7, seqid := 1, strand := 0, exons := [(1000, 1200), (1500, 1700), (2000, 2300)] },
            { tid := 2, gid := 7, seqid := 1, strand := 0, exons := [(1000, 1200), (2000, 2300)] },
            { tid := 3, gid := 7, seqid := 1, strand := 0, exons := [] }] }

/-- **joiner_exonless_witness**: on that annotation the pinned constructor raises KeyError; the repaired one builds the tables
    of the two transcripts that have exons and lists all three under the gene -/
theorem joiner_exonless_witness :
    exonlessAnn.joinerTablesOrig = none ∧
    exonlessAnn.joinerTables = { introns := [(7, [(1201, 1499), (1701, 1999), (1201, 1999)])], g2t := [(7, [1, 2, 3])] } := by
  decide

-- non-vacuity of `joiner_ref_loop_repair_conservative`: without the exon-less record the pinned loop runs
example : joinerRefLoopOrig (isoformsOf (exonlessAnn.txs.take 2)) (exonlessAnn.txs.take 2) {} =
    some { introns := [(7, [(1201, 1499), (1701, 1999), (1201, 1999)])], g2t := [(7, [1, 2])] } := by decide

/-! ### the task list is the FASTA's key set -/

theorem mem_extendedRunAux (inp : RunInput) (l : List Id) (bs : List (Id × List Line)) (h : extendedRunAux inp l = some bs)
    (x : Line) : x ∈ bs.flatMap (·.2) ↔ ∃ c ∈ l, ∃ ls, extendedOfChr inp c = some ls ∧ x ∈ ls := by
  induction l generalizing bs with
  | nil =>
    simp only [extendedRunAux, Option.some.injEq] at h
    subst h; simp
  | cons c cs ih =>
    simp only [extendedRunAux] at h
    cases h1 : extendedOfChr inp c with
    | none => simp [h1] at h
    | some ls =>
      cases h2 : extendedRunAux inp cs with
      | none => simp [h1, h2] at h
      | some r =>
        simp only [h1, h2, Option.some.injEq] at h
        subst h
        simp only [List.flatMap_cons, List.mem_append, ih r h2, List.mem_cons, exists_eq_or_imp, h1, Option.some.injEq,
          exists_eq_left']

/-- every task ran -/
theorem extendedRunAux_all (inp : RunInput) (l : List Id) (bs : List (Id × List Line)) (h : extendedRunAux inp l = some bs) :
    ∀ c ∈ l, ∃ ls, extendedOfChr inp c = some ls := by
  induction l generalizing bs with
  | nil => intro c hc; cases hc
  | cons c cs ih =>
    simp only [extendedRunAux] at h
    cases h1 : extendedOfChr inp c with
    | none => simp [h1] at h
    | some ls =>
      cases h2 : extendedRunAux inp cs with
      | none => simp [h1, h2] at h
      | some r =>
        intro c' hc'
        rcases List.mem_cons.mp hc' with he | hc'
        · subst he; exact ⟨ls, h1⟩
        · exact ih r h2 c' hc'

/-- transcript records of one task -/
theorem extendedOfChr_tx_line (inp : RunInput) (hnd : ∀ a ∈ inp.ann, (a.txs.map (·.tid)).Nodup) (c : Id) (ls : List Line)
    (h : extendedOfChr inp c = some ls) (c' : Id) (s e : Int) (st : Strand) (g t : Id) :
    Line.tx c' s e st g t ∈ ls ↔
      ((∃ a, inp.annOf c = some a ∧ ∃ x ∈ a.txs, x.exons ≠ [] ∧ validateExons x.exons = true ∧
          regionOf? (refModel a.ctx x.ref) = some (s, e) ∧ c' = c ∧ st = x.strand ∧ g = x.gid ∧ t = x.tid) ∨
       (∃ m ∈ inp.novelOf c, validM m = true ∧ regionOf? m = some (s, e) ∧ m.chr = c' ∧ m.strand = st ∧ m.gid = g ∧ m.tid = t)) := by
  unfold extendedOfChr at h
  cases ha : inp.annOf c with
  | none =>
    simp only [ha] at h
    cases hd : dump [] { chr := c } (inp.novelOf c) with
    | none => simp [hd] at h
    | some r =>
      obtain ⟨p, l1⟩ := r
      simp only [hd, Option.map_some, Option.some.injEq] at h
      subst h
      rw [dump_tx_line hd]
      simp
  | some a =>
    have hmem : a ∈ inp.ann := List.mem_of_find?_eq_some ha
    have hchr : a.chr = c := by simpa using List.find?_some ha
    simp only [ha] at h
    cases hs : createExtendedStorage a.ctx (inp.novelOf c) with
    | none => simp [hs] at h
    | some ms =>
      simp only [hs] at h
      cases hd : dump [] a.ctx ms with
      | none => simp [hd] at h
      | some r =>
        obtain ⟨p, l1⟩ := r
        simp only [hd, Option.map_some, Option.some.injEq] at h
        subst h
        have hms := extended_is_reference_plus_novel a.ctx (inp.novelOf c) ms
          (by simpa [ChrAnn.ctx] using isoforms_tids_nodup a.txs (hnd a hmem)) hs
        rw [dump_tx_line hd, hms]
        constructor
        · rintro ⟨m, hm, hv, hreg, hc, hst, hg, ht⟩
          rcases List.mem_append.mp hm with hm | hm
          · obtain ⟨r, hr, hre⟩ := List.mem_map.mp hm
            obtain ⟨x, hx, hne, rfl⟩ := (isoforms_are_transcripts_with_exons a r).mp hr
            subst hre
            left
            refine ⟨a, rfl, x, hx, hne, hv, hreg, ?_, hst.symm, hg.symm, ht.symm⟩
            rw [← hc, ← hchr]; rfl
          · right
            exact ⟨m, hm, hv, hreg, hc, hst, hg, ht⟩
        · rintro (⟨a', ha', x, hx, hne, hv, hreg, hc, hst, hg, ht⟩ | ⟨m, hm, hv, hreg, hc, hst, hg, ht⟩)
          · simp only [Option.some.injEq] at ha'
            subst ha'
            refine ⟨refModel a.ctx x.ref, ?_, hv, hreg, ?_, hst.symm, hg.symm, ht.symm⟩
            · exact List.mem_append.mpr (Or.inl (List.mem_map_of_mem
                ((isoforms_are_transcripts_with_exons a x.ref).mpr ⟨x, hx, hne, rfl⟩)))
            · rw [hc, ← hchr]; rfl
          · exact ⟨m, List.mem_append.mpr (Or.inr hm), hv, hreg, hc, hst, hg, ht⟩

/-- **extended_tx_line_iff** (full characterisation, ∀ runs that do not abort): a transcript record is in
    `extended_annotation.gtf` iff its chromosome `c` is a KEY OF THE FASTA and it is either the verbatim record of a transcript
    of a gene annotated on `c` that has exon records and passes the gate — printed on `c`, the GENE's chromosome — or the
    record of a novel model of that task -/
theorem extended_tx_line_iff (inp : RunInput) (hnd : ∀ a ∈ inp.ann, (a.txs.map (·.tid)).Nodup) (out : List Line)
    (h : extendedLines inp = some out) (c' : Id) (s e : Int) (st : Strand) (g t : Id) :
    Line.tx c' s e st g t ∈ out ↔
      ∃ c ∈ inp.fastaKeys,
        ((∃ a, inp.annOf c = some a ∧ ∃ x ∈ a.txs, x.exons ≠ [] ∧ validateExons x.exons = true ∧
            regionOf? (refModel a.ctx x.ref) = some (s, e) ∧ c' = c ∧ st = x.strand ∧ g = x.gid ∧ t = x.tid) ∨
         (∃ m ∈ inp.novelOf c, validM m = true ∧ regionOf? m = some (s, e) ∧ m.chr = c' ∧ m.strand = st ∧ m.gid = g ∧ m.tid = t)) := by
  unfold extendedLines extendedRun at h
  cases hr : extendedRunAux inp inp.fastaKeys with
  | none => simp [hr] at h
  | some bs =>
    simp only [hr, Option.map_some, Option.some.injEq] at h
    subst h
    rw [mem_extendedRunAux inp inp.fastaKeys bs hr]
    constructor
    · rintro ⟨c, hc, ls, hls, hx⟩
      exact ⟨c, hc, (extendedOfChr_tx_line inp hnd c ls hls c' s e st g t).mp hx⟩
    · rintro ⟨c, hc, hx⟩
      obtain ⟨ls, hls⟩ := extendedRunAux_all inp inp.fastaKeys bs hr c hc
      exact ⟨c, hc, ls, hls, (extendedOfChr_tx_line inp hnd c ls hls c' s e st g t).mpr hx⟩

/-! ### the reference side never aborts the extended annotation -/

theorem phase1_total (ctx : GeneCtx) : ∀ (ms : List TModel) (acc : Acc),
    (∀ m ∈ ms, m.chr = ctx.chr ∧ m.exons ≠ []) → (∀ g r, acc.info g = some r → r.chr = ctx.chr) →
    ∃ acc', phase1 ctx ms acc = some acc' := by
  intro ms
  induction ms with
  | nil => intro acc _ _; exact ⟨acc, rfl⟩
  | cons m t ih =>
    intro acc hms hacc
    obtain ⟨hchr, hne⟩ := hms m (by simp)
    have ht : ∀ m' ∈ t, m'.chr = ctx.chr ∧ m'.exons ≠ [] := fun m' hm' => hms m' (List.mem_cons_of_mem _ hm')
    simp only [phase1]
    have hstep : ∃ acc1, phase1Step ctx acc m = some acc1 ∧ (∀ g r, acc1.info g = some r → r.chr = ctx.chr) := by
      unfold phase1Step
      by_cases hv : validateExons m.exons = false
      · exact ⟨acc, by simp [hv], hacc⟩
      · simp only [hv, if_false]
        cases hex : m.exons with
        | nil => exact absurd hex hne
        | cons f tl =>
          have hl : ∃ l, (f :: tl).getLast? = some l := by
            cases h : (f :: tl).getLast? with
            | none => simp at h
            | some l => exact ⟨l, rfl⟩
          obtain ⟨l, hl⟩ := hl
          simp only [List.head?_cons, hl]
          cases hi : acc.info m.gid with
          | none =>
            simp only [hchr, ne_eq, not_true_eq_false, if_false]
            refine ⟨_, rfl, ?_⟩
            intro g r hr
            simp only at hr
            by_cases hg : g = m.gid
            · simp only [hg, if_true, Option.some.injEq] at hr
              rw [← hr] <;> exact hchr
            · simp only [hg, if_false] at hr
              exact hacc g r hr
          | some r0 =>
            have hr0 : r0.chr = ctx.chr := hacc m.gid r0 hi
            have : ¬ m.chr ≠ r0.chr := by rw [hchr, hr0]; simp
            simp only [this, if_false]
            refine ⟨_, rfl, ?_⟩
            intro g r hr
            simp only at hr
            by_cases hg : g = m.gid
            · simp only [hg, if_true, Option.some.injEq] at hr
              rw [← hr] <;> exact hchr
            · simp only [hg, if_false] at hr
              exact hacc g r hr
    obtain ⟨acc1, h1, hinv1⟩ := hstep
    rw [h1]
    exact ih acc1 ht hinv1

theorem dump_total (printed : List Id) (ctx : GeneCtx) (ms : List TModel)
    (h : ∀ m ∈ ms, m.chr = ctx.chr ∧ m.exons ≠ []) : ∃ r, dump printed ctx ms = some r := by
  unfold dump
  by_cases he : ms.isEmpty = true
  · simp [he]
  · simp only [he, Bool.false_eq_true, if_false]
    obtain ⟨acc, hacc⟩ := phase1_total ctx ms Acc.empty h (by intro g r hr; simp [Acc.empty] at hr)
    rw [hacc]
    exact ⟨_, rfl⟩

theorem storage_total (a : ChrAnn) (hnd : (a.txs.map (·.tid)).Nodup) (novel : List TModel) :
    createExtendedStorage a.ctx novel = some (a.ctx.isoforms.map (refModel a.ctx) ++ novel) := by
  unfold createExtendedStorage
  have hall : ∀ r ∈ a.ctx.isoforms, fromReference a.ctx r.tid = some (refModel a.ctx r) := by
    intro r hr
    obtain ⟨t, ht, hne, rfl⟩ := (isoforms_are_transcripts_with_exons a r).mp hr
    have := from_reference_exonless_keyerror a hnd t ht
    simp only [hne, if_false] at this
    exact this
  have key : ∀ (l : List RefTx), (∀ r ∈ l, fromReference a.ctx r.tid = some (refModel a.ctx r)) →
      l.mapM (fun r => fromReference a.ctx r.tid) = some (l.map (refModel a.ctx)) := by
    intro l
    induction l with
    | nil => intro _; rfl
    | cons x t ih =>
      intro hl
      simp only [List.mapM_cons, hl x (by simp), ih (fun r hr => hl r (List.mem_cons_of_mem _ hr))]
      rfl
  rw [key _ hall]
  rfl

/-- **extended_run_total** (∀ annotations, with or without exon-less transcript records, ∀ FASTA key sets): the extended
    annotation of a run never aborts on the reference side — it can only abort on a novel model that is handed to the wrong
    chromosome's printer or has no exon (excluded by the hypothesis on the novel models; discharged for the constructors by
    `Props/C03Build`, `Props/C03Paths`) -/
theorem extended_run_total (inp : RunInput) (hnd : ∀ a ∈ inp.ann, (a.txs.map (·.tid)).Nodup)
    (hnov : ∀ c, ∀ m ∈ inp.novelOf c, m.chr = c ∧ m.exons ≠ []) : ∃ out, extendedLines inp = some out := by
  have htask : ∀ c, ∃ ls, extendedOfChr inp c = some ls := by
    intro c
    unfold extendedOfChr
    cases ha : inp.annOf c with
    | none =>
      obtain ⟨r, hr⟩ := dump_total [] { chr := c } (inp.novelOf c) (fun m hm => hnov c m hm)
      exact ⟨r.2, by simp [hr]⟩
    | some a =>
      have hmem : a ∈ inp.ann := List.mem_of_find?_eq_some ha
      have hchr : a.chr = c := by simpa using List.find?_some ha
      simp only [storage_total a (hnd a hmem)]
      have hall : ∀ m ∈ a.ctx.isoforms.map (refModel a.ctx) ++ inp.novelOf c, m.chr = a.ctx.chr ∧ m.exons ≠ [] := by
        intro m hm
        rcases List.mem_append.mp hm with hm | hm
        · obtain ⟨r, hr, rfl⟩ := List.mem_map.mp hm
          obtain ⟨t, _, hne, rfl⟩ := (isoforms_are_transcripts_with_exons a r).mp hr
          exact ⟨rfl, hne⟩
        · have := hnov c m hm
          exact ⟨by rw [this.1, ← hchr]; rfl, this.2⟩
      obtain ⟨r, hr⟩ := dump_total [] a.ctx _ hall
      exact ⟨r.2, by simp [hr]⟩
  have haux : ∀ l : List Id, ∃ bs, extendedRunAux inp l = some bs := by
    intro l
    induction l with
    | nil => exact ⟨[], rfl⟩
    | cons c cs ih =>
      obtain ⟨ls, hls⟩ := htask c
      obtain ⟨bs, hbs⟩ := ih
      exact ⟨(c, ls) :: bs, by simp [extendedRunAux, hls, hbs]⟩
  obtain ⟨bs, hbs⟩ := haux inp.fastaKeys
  exact ⟨bs.flatMap (·.2), by simp [extendedLines, extendedRun, hbs]⟩

/-- the clause of the statement, at full strength: EVERY reference transcript (that has exon records and passes the gate — a
    transcript without exons cannot be a record of a well-formed file) has its verbatim transcript record, on the chromosome
    it is annotated on, in `extended_annotation.gtf` -/
def ExtendedContainsEveryReferenceTranscript (inp : RunInput) (out : List Line) : Prop :=
  ∀ a ∈ inp.ann, ∀ x ∈ a.txs, x.exons ≠ [] → validateExons x.exons = true →
    ∃ s e, regionOf? (refModel a.ctx x.ref) = some (s, e) ∧ Line.tx x.seqid s e x.strand x.gid x.tid ∈ out

/-- run of the pipeline witness `ann_only_chrom`: the FASTA holds chromosome 1, the annotation has a gene on 1 and one on 2 -/
def txZ : DbTx := { tid := 2, gid := 8, seqid := 2, strand := 0, exons := [(300, 500), (700, 900)] }
def annZ : ChrAnn := { chr := 2, regions := [(8, (300, 900))], txs := [txZ] }
def annOnlyRun : RunInput :=
  { fastaKeys := [1],
    ann := [{ chr := 1, regions := [(7, (10, 40))], txs := [{ tid := 1, gid := 7, seqid := 1, strand := 0, exons := [(10, 20), (30, 40)] }] },
            annZ] }

/-- **extended_contains_every_reference_transcript_witness**: the run succeeds, the transcript annotated on the chromosome
    that is not a key of the FASTA has no record (the one on chromosome 1 has) -/
theorem extended_contains_every_reference_transcript_witness :
    ∃ out, extendedLines annOnlyRun = some out ∧ Line.tx 1 10 40 0 7 1 ∈ out ∧ Line.tx 2 300 900 0 8 2 ∉ out ∧
      ¬ ExtendedContainsEveryReferenceTranscript annOnlyRun out := by
  refine ⟨[Line.gene 1 10 40 0 7 1, Line.tx 1 10 40 0 7 1, Line.feat 1 0 10 20 0 7 1 1, Line.feat 1 0 30 40 0 7 1 2],
          by decide, by decide, by decide, ?_⟩
  intro hall
  obtain ⟨s, e, hreg, hin⟩ := hall annZ (by decide) txZ (by decide) (by decide) (by decide)
  have h2 : regionOf? (refModel annZ.ctx txZ.ref) = some (300, 900) := by decide
  rw [h2] at hreg
  have hse := Option.some.inj hreg
  simp only [Prod.mk.injEq] at hse
  obtain ⟨rfl, rfl⟩ := hse
  revert hin
  decide

/-- run of the pipeline witness `gene_two_chroms`: gffutils inferred ONE gene record (on chromosome 2) for a gene_id used on
    chromosomes 1 and 2; both chromosomes are keys of the FASTA -/
def twoChromRun : RunInput :=
  { fastaKeys := [1, 2],
    ann := [{ chr := 2, regions := [(7, (10, 480))],
              txs := [{ tid := 1, gid := 7, seqid := 1, strand := 0, exons := [(10, 20), (30, 40)] },
                      { tid := 2, gid := 7, seqid := 2, strand := 0, exons := [(400, 420), (460, 480)] }] }] }

/-- **reference_on_wrong_chromosome_witness**: the transcript annotated on chromosome 1 is printed on chromosome 2 (the
    chromosome of the inferred gene record) and nowhere on chromosome 1 -/
theorem reference_on_wrong_chromosome_witness :
    ∃ out, extendedLines twoChromRun = some out ∧ Line.tx 2 10 40 0 7 1 ∈ out ∧ Line.tx 1 10 40 0 7 1 ∉ out := by
  refine ⟨[Line.gene 2 10 480 0 7 2, Line.tx 2 10 40 0 7 1, Line.feat 2 0 10 20 0 7 1 1, Line.feat 2 0 30 40 0 7 1 2,
           Line.tx 2 400 480 0 7 2, Line.feat 2 0 400 420 0 7 2 1, Line.feat 2 0 460 480 0 7 2 2], by decide, by decide, by decide⟩

/-- **extended_contains_every_reference_transcript_partial**: the clause holds for every run that does not abort when
    (1) every annotated chromosome is a key of the FASTA, (2) every transcript lies on the chromosome of its gene record,
    (3) the annotation lists a chromosome once and transcript ids are pairwise distinct (gffutils' primary keys).
    Missing for full strength: exactly the two classes of the witnesses above. -/
theorem extended_contains_every_reference_transcript_partial (inp : RunInput)
    (hfasta : ∀ a ∈ inp.ann, a.chr ∈ inp.fastaKeys)
    (hseq : ∀ a ∈ inp.ann, ∀ x ∈ a.txs, x.seqid = a.chr)
    (hchr : (inp.ann.map (·.chr)).Nodup)
    (hnd : ∀ a ∈ inp.ann, (a.txs.map (·.tid)).Nodup)
    (out : List Line) (h : extendedLines inp = some out) :
    ExtendedContainsEveryReferenceTranscript inp out := by
  intro a ha x hx hne hv
  have hreg : ∃ s e, regionOf? (refModel a.ctx x.ref) = some (s, e) := by
    unfold regionOf? refModel DbTx.ref
    cases hex : x.exons with
    | nil => exact absurd hex hne
    | cons f t =>
      simp only [List.head?_cons]
      cases hl : (f :: t).getLast? with
      | none => simp at hl
      | some l => exact ⟨f.1, l.2, rfl⟩
  obtain ⟨s, e, hreg⟩ := hreg
  refine ⟨s, e, hreg, ?_⟩
  rw [extended_tx_line_iff inp hnd out h]
  refine ⟨a.chr, hfasta a ha, Or.inl ⟨a, ?_, x, hx, hne, hv, hreg, hseq a ha x hx, rfl, rfl, rfl⟩⟩
  -- the annotation of chromosome `a.chr` is `a` itself
  unfold RunInput.annOf
  generalize inp.ann = l at ha hchr
  induction l with
  | nil => cases ha
  | cons b bs ih =>
    simp only [List.map_cons, List.nodup_cons] at hchr
    rcases List.mem_cons.mp ha with he | ha'
    · subst he; simp
    · have hne' : b.chr ≠ a.chr := fun he => hchr.1 (he ▸ List.mem_map_of_mem ha')
      have hb : (b.chr == a.chr) = false := by simpa using hne'
      simp only [List.find?_cons, hb]
      exact ih ha' hchr.2

/-- a run inside the hypotheses of the partial theorem: two annotated chromosomes, both keys of the FASTA, a novel model,
    an exon-less transcript record -/
def goodRun : RunInput :=
  { fastaKeys := [2, 1, 3],
    ann := [{ chr := 1, regions := [(7, (10, 40))],
              txs := [{ tid := 1, gid := 7, seqid := 1, strand := 0, exons := [(10, 20), (30, 40)] },
                      { tid := 3, gid := 7, seqid := 1, strand := 0, exons := [] }] },
            { chr := 2, regions := [(8, (300, 900))], txs := [{ tid := 2, gid := 8, seqid := 2, strand := 1, exons := [(300, 500), (700, 900)] }] }],
    novel := [(1, [{ chr := 1, strand := 0, tid := 9, gid := 7, exons := [(10, 20), (30, 60)], known := false }])] }

-- non-vacuity: the hypotheses of `extended_contains_every_reference_transcript_partial` are met by a run that succeeds
example : (∀ a ∈ goodRun.ann, a.chr ∈ goodRun.fastaKeys) ∧ (∀ a ∈ goodRun.ann, ∀ x ∈ a.txs, x.seqid = a.chr) ∧
    (goodRun.ann.map (·.chr)).Nodup ∧ (∀ a ∈ goodRun.ann, (a.txs.map (·.tid)).Nodup) ∧ (extendedLines goodRun).isSome = true := by
  decide

-- non-vacuity of `extended_run_total`: `goodRun` (which holds an exon-less transcript record) meets its hypotheses
example : (∀ a ∈ goodRun.ann, (a.txs.map (·.tid)).Nodup) ∧ (∀ c ∈ [1, 2, 3], ∀ m ∈ goodRun.novelOf c, m.chr = c ∧ m.exons ≠ []) := by
  decide

end IsoVerif.Props.C03Ref
