/-
C08 — the vocabulary of the property statements: the priority classes of the statement, written declaratively over
the record fields and the generated `is_consistent` / `is_inconsistent` tables.  Definitions only (no theorems).
-/
import IsoVerif.Model.Resolver

namespace IsoVerif.Props.C08
open IsoVerif.Gen IsoVerif.Model.Resolver

/-! ### the classes of the statement, declaratively -/

/-- consistently assigned (`ReadAssignmentType.is_consistent`, generated table) -/
def Cons (r : Rec) : Prop := r.atype.is_consistent = true
/-- inconsistently assigned (`is_inconsistent`, generated table) -/
def Inc (r : Rec) : Prop := r.atype.is_inconsistent = true
/-- a primary alignment that is uniquely and consistently assigned -/
def PU (r : Rec) : Prop := Cons r ∧ r.multimapper = false ∧ r.atype ≠ .ambiguous
/-- a primary alignment that is inconsistently assigned -/
def PInc (r : Rec) : Prop := Inc r ∧ r.multimapper = false

instance (r : Rec) : Decidable (Cons r) := by unfold Cons; infer_instance
instance (r : Rec) : Decidable (Inc r) := by unfold Inc; infer_instance

def Has (P : Rec → Prop) (l : List Rec) : Prop := ∃ q ∈ l, P q
def MinPenaltyAmong (P : Rec → Prop) (l : List Rec) (r : Rec) : Prop := ∀ q ∈ l, P q → r.penalty ≤ q.penalty

/-- among uninformative records: best overlap with its gene region, then the least
    (region start, chromosome, start, end, isoforms) -/
def BestUninformative (l : List Rec) (r : Rec) : Prop :=
  (∀ q ∈ l, overlapLen q ≤ overlapLen r) ∧ (∀ q ∈ l, overlapLen q = overlapLen r → tieKey r ≤ tieKey q)

/-- the records the statement says win: primary unique-consistent ones if any, else all consistent ones, else the
    primary inconsistent ones of least penalty, else the inconsistent ones of least penalty, else the best
    uninformative one -/
def Winner (l : List Rec) (r : Rec) : Prop :=
  (Has PU l → PU r) ∧
  (¬ Has PU l → Has Cons l → Cons r) ∧
  (¬ Has Cons l → Has PInc l → PInc r ∧ MinPenaltyAmong PInc l r) ∧
  (¬ Has Cons l → ¬ Has PInc l → Has Inc l → Inc r ∧ MinPenaltyAmong Inc l r) ∧
  (¬ Has Cons l → ¬ Has Inc l → BestUninformative l r)

end IsoVerif.Props.C08
