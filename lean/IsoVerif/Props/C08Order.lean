/-
C08 — the set of retained alignments does not depend on the order of the records.
Full strength: for ALL permutations (`List.Perm`) of ALL record lists.  The statement is about the fixed tree
(`fix:` commit 2d978be: deterministic tie-break in `select_noninformative`); the behaviour before the fix is kept
as `selectBestAssignmentBuggy` with its witness.
-/
import IsoVerif.Model.Resolver
import IsoVerif.Lemmas.Resolver
import IsoVerif.Lemmas.ResolverSpec
import IsoVerif.Props.C08

namespace IsoVerif.Props.C08Order
open IsoVerif.Gen IsoVerif.Model.Resolver IsoVerif.Lemmas.Resolver IsoVerif.Lemmas.ResolverSpec IsoVerif.Props.C08

/-- the read is retained on alignment `k` (alignment = chromosome, start, end, isoforms: the `__eq__` fields, so exact
    duplicates count once) -/
def RetainedOn (out : List Rec) (k : Key) : Prop := ∃ r ∈ retained out, key r = k

/-- the retained alignments as a function of the *multiset* of records -/
theorem retained_on_iff (l : List Rec) (h2 : 2 ≤ l.length) (hin : NoSuspendedInput l) :
    ∃ out, resolve .take_best l = some out ∧ ∀ k, RetainedOn out k ↔ ∃ r ∈ l, Winner l r ∧ key r = k := by
  obtain ⟨out, hout, honly, hall, hone⟩ := priority l h2 hin
  refine ⟨out, hout, ?_⟩
  intro k
  constructor
  · rintro ⟨r', hr', rfl⟩
    obtain ⟨r, hr, hw, hsame⟩ := honly r' hr'
    exact ⟨r, hr, hw, (key_eq_of_sameAlignment hsame).symm⟩
  · rintro ⟨r, hr, hw, rfl⟩
    by_cases hassigned : Has Cons l ∨ Has Inc l
    · exact hall hassigned r hr hw
    · have hc : ¬ Has Cons l := fun h => hassigned (Or.inl h)
      have hi : ¬ Has Inc l := fun h => hassigned (Or.inr h)
      obtain ⟨r', hr'⟩ := hone hc hi
      have hmem : r' ∈ retained out := by rw [hr']; simp
      obtain ⟨r0, hr0, hw0, hsame⟩ := honly r' hmem
      refine ⟨r', hmem, ?_⟩
      rw [key_eq_of_sameAlignment hsame]
      exact best_uninformative_unique hr0 hr (hw0.2.2.2.2 hc hi) (hw.2.2.2.2 hc hi)

/-- **order_independent** (full strength): for every list of at least two records and every permutation of it, the
    resolver succeeds on both and retains the read on the same set of alignments -/
theorem order_independent (l l' : List Rec) (hp : l.Perm l') (h2 : 2 ≤ l.length) (hin : NoSuspendedInput l) :
    ∃ out out', resolve .take_best l = some out ∧ resolve .take_best l' = some out' ∧
      ∀ k, RetainedOn out k ↔ RetainedOn out' k := by
  have h2' : 2 ≤ l'.length := by rw [← hp.length_eq]; exact h2
  have hin' : NoSuspendedInput l' := fun r hr => hin r (hp.mem_iff.mpr hr)
  obtain ⟨out, hout, hk⟩ := retained_on_iff l h2 hin
  obtain ⟨out', hout', hk'⟩ := retained_on_iff l' h2' hin'
  refine ⟨out, out', hout, hout', ?_⟩
  intro k
  rw [hk, hk']
  constructor
  · rintro ⟨r, hr, hw, hkey⟩; exact ⟨r, hp.mem_iff.mp hr, (winner_perm hp r).mp hw, hkey⟩
  · rintro ⟨r, hr, hw, hkey⟩; exact ⟨r, hp.mem_iff.mpr hr, (winner_perm hp r).mpr hw, hkey⟩

/-- lists of fewer than two records are returned untouched, whatever the order -/
theorem order_independent_short (s : MultimapResolvingStrategy) (l : List Rec) (h : l.length ≤ 1) :
    resolve s l = some l := by simp [resolve, h]

/-! ### before the fix -/

def tieA : Rec :=
  { aid := 1, readId := 0, chr := 0, start := 100, stop := 140, region := (90, 200), multimapper := false, polyA := false,
    atype := .noninformative, gtype := .noninformative, penalty := 0, isoforms := [], genes := [] }
def tieB : Rec :=
  { aid := 2, readId := 0, chr := 1, start := 100, stop := 140, region := (90, 200), multimapper := true, polyA := false,
    atype := .noninformative, gtype := .noninformative, penalty := 0, isoforms := [], genes := [] }

/-- two uninformative records tied on (overlap, region start): the tree before the `fix:` commit kept whichever came
    first, so the retained alignment depended on the order (replayed on the real code by the oracle, where it must
    now pass) -/
theorem order_witness :
    (selectBestAssignmentBuggy [tieA, tieB]).map (fun o => (retained o).map key) = some [key tieA] ∧
    (selectBestAssignmentBuggy [tieB, tieA]).map (fun o => (retained o).map key) = some [key tieB] ∧
    key tieA ≠ key tieB := by
  refine ⟨by decide, by decide, by decide⟩

-- the fixed resolver on the same two orders, and non-vacuity of `order_independent`
example : [tieA, tieB].Perm [tieB, tieA] ∧ 2 ≤ [tieA, tieB].length ∧ NoSuspendedInput [tieA, tieB] ∧
    (resolve .take_best [tieA, tieB]).map (fun o => (retained o).map key) = some [key tieA] ∧
    (resolve .take_best [tieB, tieA]).map (fun o => (retained o).map key) = some [key tieA] := by
  refine ⟨List.Perm.swap _ _ _, by decide, by decide, by decide, by decide⟩

end IsoVerif.Props.C08Order
