/-
C14 (part 1) — every record written by `BEDPrinter.add_read_info` is valid BED12 exactly when the exon list it is
given is a sorted, disjoint, well-formed block list inside the chromosome; the strategy presets.
Property theorems only.
-/
import IsoVerif.Gen.Prims
import IsoVerif.Gen.Strategies
import IsoVerif.Gen.Corrector
import IsoVerif.Model.Bed
import IsoVerif.Lemmas.Interval
import IsoVerif.Lemmas.Corrector

namespace IsoVerif.Props.C14
open IsoVerif.Gen IsoVerif.Model IsoVerif.Model.C14 IsoVerif.Lemmas IsoVerif.Lemmas.C14

/-- BED12 well-formedness of one record on a chromosome of length `chromLen` (0-based half-open coordinates):
    coordinates inside the chromosome, thick range inside the feature, `blockCount` entries in both lists, positive
    block sizes, first block at offset 0, ascending non-overlapping blocks, last block ends at `chromEnd` -/
structure ValidBed (r : BedRecord) (chromLen : Int) : Prop where
  start_nonneg : 0 ≤ r.chromStart
  end_le : r.chromEnd ≤ chromLen
  thick : r.chromStart ≤ r.thickStart ∧ r.thickStart ≤ r.thickEnd ∧ r.thickEnd ≤ r.chromEnd
  count_pos : 1 ≤ r.blockCount
  count_sizes : r.blockSizes.length = r.blockCount
  count_starts : r.blockStarts.length = r.blockCount
  sizes_pos : ∀ s ∈ r.blockSizes, 0 < s
  first_zero : r.blockStarts.head? = some 0
  ascending : BlocksAscending (r.blockStarts.zip r.blockSizes)
  last_end : ∃ q, (r.blockStarts.zip r.blockSizes).getLast? = some q ∧ q.1 + q.2 = r.chromEnd - r.chromStart

/-- the exon list handed to the printer is a block list of a chromosome of length `chromLen` -/
def ExonsFit (exons : List Iv) (chromLen : Int) : Prop :=
  SD exons ∧ WFl exons ∧ (∀ f, exons.head? = some f → 1 ≤ f.1) ∧ (∀ l, exons.getLast? = some l → l.2 ≤ chromLen)

/-- a record is written for every non-empty exon list (the only exception of `add_read_info` is the empty list) -/
theorem bed_record_some_iff (chrom name strand : String) (exons : List Iv) :
    (∃ r, bedRecord chrom name strand exons = some r) ↔ exons ≠ [] := by
  cases exons with
  | nil => simp [bedRecord]
  | cons a t =>
    simp only [bedRecord, List.head?_cons, ne_eq, reduceCtorEq, not_false_eq_true, iff_true]
    cases h : (a :: t).getLast? with
    | none => simp at h
    | some l => exact ⟨_, rfl⟩

/-- **bed_valid** (both directions): the record written for a non-empty exon list is valid BED12 iff the exon list is
    sorted, pairwise disjoint, well formed, starts at a position ≥ 1 and ends inside the chromosome -/
theorem bed_valid_iff (chrom name strand : String) (exons : List Iv) (chromLen : Int) (r : BedRecord)
    (h : bedRecord chrom name strand exons = some r) :
    ValidBed r chromLen ↔ ExonsFit exons chromLen := by
  cases exons with
  | nil => simp [bedRecord] at h
  | cons a t =>
    obtain ⟨l, hl⟩ : ∃ l, (a :: t).getLast? = some l := by
      cases h' : (a :: t).getLast? with
      | none => simp at h'
      | some l => exact ⟨l, rfl⟩
    simp only [bedRecord, List.head?_cons, hl, Option.some.injEq] at h
    subst h
    have hz : List.zip ((a :: t).map (fun e => e.1 - a.1)) ((a :: t).map (fun e => e.2 - e.1 + 1))
        = (a :: t).map (blk a.1) := zip_maps_blk a.1 (a :: t)
    have hlast : ((a :: t).map (blk a.1)).getLast? = some (blk a.1 l) := by
      rw [List.getLast?_map, hl]; rfl
    constructor
    · intro v
      have hsz := v.sizes_pos
      have hasc := v.ascending
      have hle := v.last_end
      simp only [hz] at hasc hle
      have hsd : SD (a :: t) := (ascending_blk_iff a.1 (a :: t)).mp hasc
      have hw : WFl (a :: t) := (sizes_pos_iff (a :: t)).mp hsz
      refine ⟨hsd, hw, ?_, ?_⟩
      · intro f hf; simp at hf; subst hf; have := v.start_nonneg; simp at this; omega
      · intro l' hl'; rw [hl] at hl'; cases hl'; have := v.end_le; simpa using this
    · rintro ⟨hsd, hw, h1, h2⟩
      have h1' := h1 a (by simp)
      have h2' := h2 l hl
      have hfl : a.1 ≤ l.2 := first_le_last hsd hw (by simp) hl
      refine ⟨by simp; omega, by simpa using h2', by simp; omega, by simp, by simp, by simp, ?_, by simp, ?_, ?_⟩
      · exact (sizes_pos_iff (a :: t)).mpr hw
      · simp only [hz]; exact (ascending_blk_iff a.1 (a :: t)).mpr hsd
      · simp only [hz]; exact ⟨_, hlast, by simp [blk]; omega⟩

/-- **bed_valid** in the direction used downstream: valid exon lists give valid records -/
theorem bed_valid (chrom name strand : String) (exons : List Iv) (chromLen : Int) (hne : exons ≠ [])
    (hfit : ExonsFit exons chromLen) :
    ∃ r, bedRecord chrom name strand exons = some r ∧ ValidBed r chromLen := by
  obtain ⟨r, hr⟩ := (bed_record_some_iff chrom name strand exons).mpr hne
  exact ⟨r, hr, (bed_valid_iff chrom name strand exons chromLen r hr).mpr hfit⟩

/-- what a BED consumer reconstructs from the record is the exon list that was printed (for *every* exon list) -/
theorem bed_blocks_roundtrip (chrom name strand : String) (exons : List Iv) (r : BedRecord)
    (h : bedRecord chrom name strand exons = some r) : r.blocks = exons := by
  cases exons with
  | nil => simp [bedRecord] at h
  | cons a t =>
    cases hl : (a :: t).getLast? with
    | none => simp at hl
    | some l =>
      simp only [bedRecord, List.head?_cons, hl, Option.some.injEq] at h
      subst h
      simp only [BedRecord.blocks]
      rw [zip_maps_blk a.1 (a :: t), List.map_map]
      conv => rhs; rw [← List.map_id (a :: t)]
      apply List.map_congr_left
      intro e _
      simp only [Function.comp, blk, id]
      ext <;> simp <;> omega

/-- the printer writes nothing unless all guards pass, and then exactly the rendering of the record of the selected
    exon list -/
theorem add_read_info_spec (i : PrinterInput) :
    addReadInfo i =
      if i.assignmentPresent ∧ i.typePresent ∧ i.geneInfoPresent ∧ i.checkerPresent ∧ i.checkerAccepts then
        (bedRecord i.chrom i.name i.strand (if i.printCorrected then i.correctedExons else i.exons)).map
          (fun r => some r.render)
      else some none := by
  unfold addReadInfo
  cases i.assignmentPresent <;> cases i.typePresent <;> cases i.geneInfoPresent <;> cases i.checkerPresent <;>
    cases i.checkerAccepts <;> simp <;>
    cases bedRecord i.chrom i.name i.strand (if i.printCorrected then i.correctedExons else i.exons) <;> rfl

-- non-vacuity: a concrete three-exon read on a chromosome of length 1000
example : ExonsFit [(11, 20), (31, 45), (60, 99)] 1000 := by
  refine ⟨by decide, by decide, ?_, ?_⟩ <;> intro x hx <;> simp at hx <;> subst hx <;> decide
example : (bedRecord "chr1" "r" "+" [(11, 20), (31, 45), (60, 99)]).map (·.render)
    = some "chr1\t10\t99\tr\t0\t+\t10\t10\t0\t3\t10,15,40\t0,20,49\n" := by decide

/-! ### strategy presets (generated from `set_splice_correction_options`) -/

/-- `--splice_correction_strategy none` switches every correction off -/
theorem none_all_off : correction_presets.lookup "none" = some ⟨false, false, false, false, false, false⟩ := by decide

/-- the six documented strategy names, in the order of the table -/
theorem preset_names : correction_presets.map (·.1) =
    ["none", "default_pacbio", "conservative_ont", "default_ont", "all", "assembly"] := by decide

/-- the hand model reads `fl.<field>` where the code reads `params.correct_<field>`: the wiring of
    `set_splice_correction_options`, the flags tested by `process_events` / `correct_misalignments` and the shape of
    the event chain are the ones the model (Model/Corrector.lean) was written against -/
theorem corrector_tables_as_modelled :
    correction_flag_binding =
      [("correct_fuzzy_junctions", "fuzzy_junctions"), ("correct_intron_shifts", "intron_shifts"),
       ("correct_skipped_exons", "skipped_exons"), ("correct_terminal_exons", "terminal_exons"),
       ("correct_fake_terminal_exons", "fake_terminal_exons"),
       ("correct_microintron_retention", "microintron_retention")] ∧
    corrector_misalignment_events =
      [("correct_intron_shifts", MatchEventSubtype.intron_shift),
       ("correct_skipped_exons", MatchEventSubtype.exon_misalignment)] ∧
    corrector_terminal_branches =
      [(MatchEventSubtype.fake_terminal_exon_left, "correct_fake_terminal_exons"),
       (MatchEventSubtype.fake_terminal_exon_right, "correct_fake_terminal_exons"),
       (MatchEventSubtype.terminal_exon_misalignment_left, "correct_terminal_exons"),
       (MatchEventSubtype.terminal_exon_misalignment_right, "correct_terminal_exons")] ∧
    corrector_branch_shape = ["eq", "eq", "eq", "eq", "misalignment", "known"] ∧
    corrector_micro_intron_test = (MatchEventSubtype.fake_micro_intron_retention, "correct_microintron_retention") ∧
    corrector_params_used =
      ["correct_fake_terminal_exons", "correct_fuzzy_junctions", "correct_intron_shifts",
       "correct_microintron_retention", "correct_skipped_exons", "correct_terminal_exons", "delta"] := by
  decide

/-- every default strategy chosen per data type is a row of the preset table -/
theorem default_strategies_defined :
    ∀ q ∈ correction_default_strategy, (correction_presets.lookup q.2).isSome = true := by decide

/-- none of the event types that trigger a region change or an isoform-intron insertion is in the
    "replace by corrected read introns" set (the chain tests them first only when their flag is on) -/
theorem known_set_disjoint_from_artifacts :
    ∀ t ∈ [MatchEventSubtype.fake_terminal_exon_left, MatchEventSubtype.fake_terminal_exon_right,
           MatchEventSubtype.terminal_exon_misalignment_left, MatchEventSubtype.terminal_exon_misalignment_right,
           MatchEventSubtype.intron_shift, MatchEventSubtype.exon_misalignment,
           MatchEventSubtype.fake_micro_intron_retention],
      corrector_known_event_types.contains t = false := by decide

end IsoVerif.Props.C14
