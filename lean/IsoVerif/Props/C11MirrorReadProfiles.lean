/-
C11 — reflection of the read-profile constructor `OverlappingFeaturesProfileConstructor.construct_profile_for_features`
(Model/Profiles.lean `constructOverlapping`; intron and exon profiles of a read), for ALL chromosome lengths `L : Int`.

What is proved (`mirror_dual_constructOverlapping_gene_partial`): under C13's hypotheses `Hyp δ K R` (known features
ordered by start and longer than δ, read features well formed and more than δ apart), δ ≥ 0, known features ordered by
END as well (no feature strictly inside another: the mirror image is sorted again), an absence test that gives the same
answer on the mirrored pair, and tail positions not mirrored onto the sentinel: the GENE profile of the mirrored call
(polyA ↔ polyT swapped) is the reversed gene profile and the profile range `(s, e)` becomes `(n − e, n − s)`.
The proof goes through the complete declarative meaning of the four values (+1 best match, −1 excluded, −2 masked, 0),
every predicate of which is mirror-symmetric.

`_partial`: the full-strength statement `ConstructOverlappingMirror` also demands the reversed READ marks; it is FALSE —
`overlapping_read_marks_direction_witness`: a read feature that overlaps a known feature without matching it is marked
−1 from one end and 0 from the other (not observable: both lead to the same classification, see docs/C11.md §2).
-/
import IsoVerif.Gen.Prims
import IsoVerif.Model.Profiles
import IsoVerif.Model.C11Symmetry
import IsoVerif.Lemmas.C11MirrorOverlap
import IsoVerif.Props.C13Profiles
import IsoVerif.Props.C11

namespace IsoVerif.Props.C11MirrorReadProfiles
open IsoVerif.Gen IsoVerif.Model IsoVerif.Model.C11 IsoVerif.Lemmas IsoVerif.Lemmas.C11 IsoVerif.Lemmas.C11.Lists IsoVerif.Lemmas.C13
open IsoVerif.Props.C13Profiles (Hyp Best include_iff_best_partial exclude_iff_partial)

/-- index-free reading of C13's `Best` -/
theorem best_iff (δ : Int) (K R : List Iv) (k : Iv) :
    Best δ K R k ↔ ∃ r ∈ R, equal_ranges r k δ = true ∧
      ∀ k' ∈ K, equal_ranges r k' δ = true → matchDelta r k ≤ matchDelta r k' := by
  constructor
  · rintro ⟨j, r, hr, hc, hb⟩
    refine ⟨r, List.mem_of_getElem? hr, hc, fun k' hk' hc' => ?_⟩
    obtain ⟨i', hi'⟩ := List.mem_iff_getElem?.mp hk'
    exact hb i' k' hi' hc'
  · rintro ⟨r, hr, hc, hb⟩
    obtain ⟨j, hj⟩ := List.mem_iff_getElem?.mp hr
    exact ⟨j, r, hj, hc, fun i' k' hk' hc' => hb k' (List.mem_of_getElem? hk') hc'⟩

/-- a best match stays a best match in the mirror -/
theorem mirror_dual_best (L δ : Int) (K R : List Iv) (k : Iv) :
    Best δ (mirrorL L K) (mirrorL L R) (mirrorIv L k) ↔ Best δ K R k := by
  have imp : ∀ (K R : List Iv) (k : Iv), Best δ K R k → Best δ (mirrorL L K) (mirrorL L R) (mirrorIv L k) := by
    intro K R k h
    rw [best_iff] at h ⊢
    obtain ⟨r, hr, hc, hb⟩ := h
    refine ⟨mirrorIv L r, (mem_mirrorL L r R).mpr hr, by rw [equal_ranges_mirrorIv]; exact hc, fun k' hk' hc' => ?_⟩
    obtain ⟨x, hx, rfl⟩ := (mem_mirrorL' L K k').mp hk'
    rw [equal_ranges_mirrorIv] at hc'
    rw [matchDelta_mirrorIv, matchDelta_mirrorIv]
    exact hb x hx hc'
  constructor
  · intro h
    have := imp (mirrorL L K) (mirrorL L R) (mirrorIv L k) h
    rwa [mirrorL_mirrorL, mirrorL_mirrorL, mirrorIv_mirrorIv] at this
  · exact imp K R k

/-- C13's hypotheses hold for the mirrored lists when the known features are ordered by end as well -/
theorem mirror_preserves_hyp (L δ : Int) (K R : List Iv) (hyp : Hyp δ K R) (hE : SortedEnds K) :
    Hyp δ (mirrorL L K) (mirrorL L R) ∧ SortedEnds (mirrorL L K) :=
  ⟨⟨sortedStarts_mirror L K hE, longerThan_mirror L δ K hyp.long, sepBy_mirror L δ R hyp.sep, wfr_mirror L R hyp.wf⟩,
   sortedEnds_mirror L K hyp.sorted⟩

/-- complete declarative meaning of the gene profile (sharpens C13's `include_iff_best_partial` / `exclude_iff_partial`
    by the two remaining values): every entry is −2, 0, +1 or −1;  −2 ⇔ masked by a polyA / polyT position;
    +1 ⇔ best match, not masked;  −1 ⇔ not a best match and (tie loser ∨ absence test ∨ inside a read gap), not masked -/
theorem overlapping_gene_profile_meaning (K : List Iv) (gr : Iv) (absent : Iv → Iv → Bool) (δ : Int) (R : List Iv) (M : Iv)
    (pa pt : Int) (hδ : 0 ≤ δ) (hyp : Hyp δ K R) (i : Nat) (k : Iv) (hk : K[i]? = some k) :
    ∃ v, (constructOverlapping K gr (fun a b => equal_ranges a b δ) absent δ R M pa pt).gene[i]? = some v ∧
      (v = -2 ∨ v = 0 ∨ v = 1 ∨ v = -1) ∧
      (v = -2 ↔ Masked δ pa pt k) ∧
      (v = 1 ↔ (Best δ K R k ∧ ¬ Masked δ pa pt k)) ∧
      (v = -1 ↔ (¬ Best δ K R k ∧
        (TieLoser (fun a b => equal_ranges a b δ) K R k ∨ absent M k = true ∨ InGap R k) ∧ ¬ Masked δ pa pt k)) := by
  have hinc := include_iff_best_partial K gr absent δ R M pa pt hyp i k hk
  have hexc := exclude_iff_partial K gr absent δ R M pa pt hδ hyp i k hk
  have hnm : ¬ Masked δ pa pt k ↔ (¬ (pa ≠ -1 ∧ k.1 > pa + δ) ∧ ¬ (pt ≠ -1 ∧ k.2 < pt - δ)) := by
    simp only [Masked, not_or]
  by_cases hm : Masked δ pa pt k
  · have hv := constructOverlapping_gene_masked K gr (fun a b => equal_ranges a b δ) absent δ R M pa pt i k hk hm
    refine ⟨-2, hv, Or.inl rfl, ⟨fun _ => hm, fun _ => rfl⟩, ⟨fun h => by omega, fun h => absurd hm h.2⟩,
      ⟨fun h => by omega, fun h => absurd hm h.2.2⟩⟩
  · obtain ⟨v, hv, hrange⟩ :=
      constructOverlapping_gene_unmasked K gr (fun a b => equal_ranges a b δ) absent δ R M pa pt i k hk hm
    rw [hv] at hinc hexc
    refine ⟨v, hv, by omega, ⟨fun h => by omega, fun h => absurd h hm⟩, ?_, ?_⟩
    · rw [hnm, ← hinc]
      constructor
      · intro h; rw [h]
      · intro h; injection h
    · rw [hnm, ← hexc]
      constructor
      · intro h; rw [h]
      · intro h; injection h

/-- the gene profile and the profile range of the mirrored call are the mirrored ones -/
theorem mirror_dual_constructOverlapping_gene_partial (L δ : Int) (K R : List Iv) (gr M : Iv) (absent : Iv → Iv → Bool)
    (pa pt : Int) (hδ : 0 ≤ δ) (hyp : Hyp δ K R) (hE : SortedEnds K)
    (hab : ∀ k ∈ K, absent (mirrorIv L M) (mirrorIv L k) = absent M k)
    (hA : pa ≠ -1 → L + 1 - pa ≠ -1) (hT : pt ≠ -1 → L + 1 - pt ≠ -1) :
    (constructOverlapping (mirrorL L K) (mirrorIv L gr) (fun a b => equal_ranges a b δ) absent δ (mirrorL L R)
        (mirrorIv L M) (mirrorPos L pt) (mirrorPos L pa)).gene
      = (constructOverlapping K gr (fun a b => equal_ranges a b δ) absent δ R M pa pt).gene.reverse ∧
    (constructOverlapping (mirrorL L K) (mirrorIv L gr) (fun a b => equal_ranges a b δ) absent δ (mirrorL L R)
        (mirrorIv L M) (mirrorPos L pt) (mirrorPos L pa)).range
      = ((K.length : Int) - (constructOverlapping K gr (fun a b => equal_ranges a b δ) absent δ R M pa pt).range.2,
         (K.length : Int) - (constructOverlapping K gr (fun a b => equal_ranges a b δ) absent δ R M pa pt).range.1) := by
  have hyp' := (mirror_preserves_hyp L δ K R hyp hE).1
  have hlen := constructOverlapping_gene_length K gr (fun a b => equal_ranges a b δ) absent δ R M pa pt
  have hlen' := constructOverlapping_gene_length (mirrorL L K) (mirrorIv L gr) (fun a b => equal_ranges a b δ) absent δ
    (mirrorL L R) (mirrorIv L M) (mirrorPos L pt) (mirrorPos L pa)
  rw [mirrorL_length] at hlen'
  have hgene : (constructOverlapping (mirrorL L K) (mirrorIv L gr) (fun a b => equal_ranges a b δ) absent δ (mirrorL L R)
        (mirrorIv L M) (mirrorPos L pt) (mirrorPos L pa)).gene
      = (constructOverlapping K gr (fun a b => equal_ranges a b δ) absent δ R M pa pt).gene.reverse := by
    apply List.ext_getElem?
    intro i
    by_cases hi : i < K.length
    · obtain ⟨k, hk⟩ : ∃ k, K[K.length - 1 - i]? = some k := ⟨_, List.getElem?_eq_getElem (by omega)⟩
      have hk' : (mirrorL L K)[i]? = some (mirrorIv L k) := by
        rw [mirrorL_getElem? L K i hi, hk]; rfl
      have hkm : k ∈ K := List.mem_of_getElem? hk
      obtain ⟨v, hv, hr, h2, h1, hm1⟩ := overlapping_gene_profile_meaning K gr absent δ R M pa pt hδ hyp _ k hk
      obtain ⟨v', hv', hr', h2', h1', hm1'⟩ := overlapping_gene_profile_meaning (mirrorL L K) (mirrorIv L gr) absent δ
        (mirrorL L R) (mirrorIv L M) (mirrorPos L pt) (mirrorPos L pa) hδ hyp' i (mirrorIv L k) hk'
      rw [masked_mirror L δ pa pt k hA hT] at h2' h1' hm1'
      rw [mirror_dual_best] at h1' hm1'
      rw [tieLoser_mirror, inGap_mirror, hab k hkm] at hm1'
      have e2 : v' = -2 ↔ v = -2 := h2'.trans h2.symm
      have e1 : v' = 1 ↔ v = 1 := h1'.trans h1.symm
      have em : v' = -1 ↔ v = -1 := hm1'.trans hm1.symm
      rw [hv', List.getElem?_reverse (by omega), hlen, hv]
      congr 1; omega
    · rw [List.getElem?_eq_none_iff.mpr (by omega), List.getElem?_eq_none_iff.mpr (by simp; omega)]
  refine ⟨hgene, ?_⟩
  have hr : ∀ (K : List Iv) (gr : Iv) (R : List Iv) (M : Iv) (pa pt : Int),
      (constructOverlapping K gr (fun a b => equal_ranges a b δ) absent δ R M pa pt).range
        = profileRange (constructOverlapping K gr (fun a b => equal_ranges a b δ) absent δ R M pa pt).gene := by
    intros; rfl
  rw [hr, hr, hgene, profileRange_reverse, hlen]

-- non-vacuity: two variants of the first exon (a tie), a skipped exon, a polyA position masking the last one
example : Hyp 4 [(100, 200), (102, 200), (300, 400), (500, 600), (700, 800)] [(101, 200), (500, 603)] ∧
    SortedEnds [(100, 200), (102, 200), (300, 400), (500, 600), (700, 800)] ∧
    (constructOverlapping [(100, 200), (102, 200), (300, 400), (500, 600), (700, 800)] (100, 800)
      (fun a b => equal_ranges a b 4) (fun a b => contains a b) 4 [(101, 200), (500, 603)] (204, 496) 610 (-1)).gene
        = [1, 1, -1, 1, -2] ∧
    (constructOverlapping (mirrorL 1000 [(100, 200), (102, 200), (300, 400), (500, 600), (700, 800)]) (mirrorIv 1000 (100, 800))
      (fun a b => equal_ranges a b 4) (fun a b => contains a b) 4 (mirrorL 1000 [(101, 200), (500, 603)])
      (mirrorIv 1000 (204, 496)) (mirrorPos 1000 (-1)) (mirrorPos 1000 610)).gene = [-2, 1, -1, 1, 1] := by
  refine ⟨⟨by simp [SortedStarts], by simp [LongerThan], by simp [SepBy], by simp [WFR]⟩, by simp [SortedEnds],
    by decide +kernel, by decide +kernel⟩

/-- the absence tests the pipeline passes: `contains` (exon profile) is mirror-invariant on every pair -/
theorem contains_mirror_invariant (L : Int) (a b : Iv) : contains (mirrorIv L a) (mirrorIv L b) = contains a b := by
  simp only [contains, mirrorIv]; grind

/-- the exon profile of a read (`absence_condition = contains`): no condition on the absence test is left -/
theorem mirror_dual_exon_read_profile_gene_partial (L δ : Int) (K R : List Iv) (gr M : Iv) (pa pt : Int)
    (hδ : 0 ≤ δ) (hyp : Hyp δ K R) (hE : SortedEnds K)
    (hA : pa ≠ -1 → L + 1 - pa ≠ -1) (hT : pt ≠ -1 → L + 1 - pt ≠ -1) :
    (constructOverlapping (mirrorL L K) (mirrorIv L gr) (fun a b => equal_ranges a b δ) (fun a b => contains a b) δ
        (mirrorL L R) (mirrorIv L M) (mirrorPos L pt) (mirrorPos L pa)).gene
      = (constructOverlapping K gr (fun a b => equal_ranges a b δ) (fun a b => contains a b) δ R M pa pt).gene.reverse :=
  (mirror_dual_constructOverlapping_gene_partial L δ K R gr M (fun a b => contains a b) pa pt hδ hyp hE
    (fun k _ => contains_mirror_invariant L M k) hA hT).1

/-- the intron profile of a read (`absence_condition = overlaps_at_least · · absδ` of the mapped span): like the exon
    profile, no condition on the absence test is left since the repair of audit2-C G7 (`mirror_dual_overlaps_at_least`
    holds for all intervals; before it the mapped span must not be in an `EndTie` with a known intron, see the
    `…buggy_witness` below) -/
theorem mirror_dual_intron_read_profile_gene_partial (L δ absδ : Int) (K R : List Iv) (gr M : Iv) (pa pt : Int)
    (hδ : 0 ≤ δ) (hyp : Hyp δ K R) (hE : SortedEnds K)
    (hA : pa ≠ -1 → L + 1 - pa ≠ -1) (hT : pt ≠ -1 → L + 1 - pt ≠ -1) :
    (constructOverlapping (mirrorL L K) (mirrorIv L gr) (fun a b => equal_ranges a b δ)
        (fun a b => overlaps_at_least a b absδ) δ (mirrorL L R) (mirrorIv L M) (mirrorPos L pt) (mirrorPos L pa)).gene
      = (constructOverlapping K gr (fun a b => equal_ranges a b δ) (fun a b => overlaps_at_least a b absδ) δ R M pa pt).gene.reverse :=
  (mirror_dual_constructOverlapping_gene_partial L δ K R gr M (fun a b => overlaps_at_least a b absδ) pa pt hδ hyp hE
    (fun k _ => IsoVerif.Props.C11.mirror_dual_overlaps_at_least L M k absδ) hA hT).1

example : Hyp 4 [(201, 299), (401, 499)] [(201, 299), (401, 499)] ∧ SortedEnds [(201, 299), (401, 499)] ∧
    (constructOverlapping (mirrorL 1000 [(201, 299), (401, 499)]) (mirrorIv 1000 (100, 600)) (fun a b => equal_ranges a b 4)
        (fun a b => overlaps_at_least a b 20) 4 (mirrorL 1000 [(201, 299), (401, 499)]) (mirrorIv 1000 (100, 600))
        (mirrorPos 1000 (-1)) (mirrorPos 1000 (-1))).gene = [1, 1] := by
  refine ⟨⟨by simp [SortedStarts], by simp [LongerThan], by simp [SepBy], by simp [WFR]⟩, by simp [SortedEnds],
    by decide +kernel⟩

/-- regression of the fixed end tie: a mapped span (1,5) sharing the LEFT end of the known intron (1,9) marks it absent
    (−1), and so does its mirror image (5,9) sharing the RIGHT end -/
theorem intron_read_profile_end_tie_regression :
    (constructOverlapping (mirrorL 9 [(1, 9)]) (mirrorIv 9 (1, 9)) (fun a b => equal_ranges a b 0)
        (fun a b => overlaps_at_least a b 10) 0 (mirrorL 9 []) (mirrorIv 9 (1, 5)) (mirrorPos 9 (-1)) (mirrorPos 9 (-1))).gene = [-1] ∧
    (constructOverlapping [(1, 9)] (1, 9) (fun a b => equal_ranges a b 0) (fun a b => overlaps_at_least a b 10) 0
          [] (1, 5) (-1) (-1)).gene.reverse = [-1] := by
  decide +kernel

/-- with the PRE-FIX absence test the statement was false on end ties: the mapped span (1,5) marks the intron (1,9) absent
    (−1), its mirror image does not (0) -/
theorem intron_read_profile_end_tie_buggy_witness :
    (constructOverlapping (mirrorL 9 [(1, 9)]) (mirrorIv 9 (1, 9)) (fun a b => equal_ranges a b 0)
        (fun a b => overlapsAtLeastBuggy a b 10) 0 (mirrorL 9 []) (mirrorIv 9 (1, 5)) (mirrorPos 9 (-1)) (mirrorPos 9 (-1))).gene
      ≠ (constructOverlapping [(1, 9)] (1, 9) (fun a b => equal_ranges a b 0) (fun a b => overlapsAtLeastBuggy a b 10) 0
          [] (1, 5) (-1) (-1)).gene.reverse := by
  decide +kernel

/-- ordering by END is needed: the known feature (20,30) lies strictly inside (10,60); in the mirror image the inner
    one comes first, the sweep passes the read feature that overlaps the outer one while looking at the inner one, and
    the outer one is then taken to lie in a read gap (−1 instead of 0).  (The mirrored PIPELINE re-sorts its features,
    so this is a statement about the function, not about a run: docs/C11.md §5 "false alarms".) -/
theorem overlapping_nested_features_witness :
    Hyp 0 [(10, 60), (20, 30)] [(2, 6), (51, 56)] ∧ ¬ SortedEnds [(10, 60), (20, 30)] ∧
    (constructOverlapping (mirrorL 100 [(10, 60), (20, 30)]) (mirrorIv 100 (10, 60)) (fun a b => equal_ranges a b 0)
        (fun a b => contains a b) 0 (mirrorL 100 [(2, 6), (51, 56)]) (mirrorIv 100 (35, 36)) (mirrorPos 100 (-1)) (mirrorPos 100 (-1))).gene
      ≠ (constructOverlapping [(10, 60), (20, 30)] (10, 60) (fun a b => equal_ranges a b 0) (fun a b => contains a b) 0
          [(2, 6), (51, 56)] (35, 36) (-1) (-1)).gene.reverse := by
  refine ⟨⟨by simp [SortedStarts], by simp [LongerThan], by simp [SepBy], by simp [WFR]⟩, by simp [SortedEnds],
    by decide +kernel⟩

/-- the full-strength statement: the whole result (gene marks, READ marks, range) of the mirrored call is the mirrored
    result.  FALSE (next theorem): only the gene part and the range are proved above. -/
def ConstructOverlappingMirror : Prop :=
  ∀ (L δ : Int) (K R : List Iv) (gr M : Iv) (pa pt : Int), 0 ≤ δ → Hyp δ K R → SortedEnds K →
    (pa ≠ -1 → L + 1 - pa ≠ -1) → (pt ≠ -1 → L + 1 - pt ≠ -1) →
    (constructOverlapping (mirrorL L K) (mirrorIv L gr) (fun a b => equal_ranges a b δ) (fun a b => contains a b) δ
        (mirrorL L R) (mirrorIv L M) (mirrorPos L pt) (mirrorPos L pa)).read
      = (constructOverlapping K gr (fun a b => equal_ranges a b δ) (fun a b => contains a b) δ R M pa pt).read.reverse

/-- the read marks depend on the sweep direction: the read feature (30,40) overlaps the known feature (35,60) without
    matching it; from the left no known feature follows it (mark 0), from the right the known feature (10,20) does
    (mark −1).  The gene profiles agree ([0, 0] on both sides), as proved. -/
theorem overlapping_read_marks_direction_witness : ¬ ConstructOverlappingMirror := by
  intro h
  have := h 100 0 [(10, 20), (35, 60)] [(30, 40)] (35, 36) (30, 40) (-1) (-1) (by omega)
    ⟨by simp [SortedStarts], by simp [LongerThan], by simp [SepBy], by simp [WFR]⟩ (by simp [SortedEnds])
    (by simp) (by simp)
  revert this
  decide +kernel

end IsoVerif.Props.C11MirrorReadProfiles
