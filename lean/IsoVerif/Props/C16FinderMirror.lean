/-
C16 / C11 (growth c16x) — the polyT head finder after the window repair (Model/FinderMirror.lean) is the mirror image of
the polyA tail finder at the level of the SCAN: on the mirror image of a read (reversed CIGAR, reverse complement,
`reference_start' = L − reference_end`) `find_polyt_head` reads exactly the bases `find_polya_tail` reads on the read, in
the same order, so both settle on the same base and "found / not found" is symmetric (`mirror_region`,
`mirror_scan`, `mirror_not_found`).  What remains of the asymmetry is the position convention alone
(`mirror_law_win`: polyT(mirror) = max 1 (mirror(polyA) − 2) whenever the tail starts in the soft clip or inside the
last match operation): polyA = 1-based coordinate of the base before the tail, polyT = 0-based coordinate of the last
head base; pinned by tests/test_polya_cage_finder.py (`test_find_t_head`: 51043), hence not repaired.

The repaired window is the old window at `from_pos − 1`, `to_pos + 1` (`find_polyt_head_win_eq`): every theorem of
Props/C16FinderSpec.lean / C16FinderChar.lean / C16Pad.lean about `find_polyt_head`, all stated for arbitrary
`from_pos` / `to_pos`, is a theorem about the repaired function at the shifted arguments (`…_win` corollaries below).
-/
import IsoVerif.Model.FinderMirror
import IsoVerif.Props.C16FinderSpec
import IsoVerif.Props.C16FinderChar
import IsoVerif.Props.C16Pad
import IsoVerif.Props.C16TailExons

namespace IsoVerif.Props.C16FinderMirror
open IsoVerif.Gen IsoVerif.Model IsoVerif.Model.C16 IsoVerif.Lemmas.C16

/-! ### the repaired window = the old window at shifted arguments -/

/-- **find_polyt_head_win_eq** — for every projection, record and argument list: the repaired function is the old one
    called with `from_pos − 1`, `to_pos + 1` -/
theorem find_polyt_head_win_eq (move : List CigarOp → Int → Option Int) (w num den : Nat) (s : Int)
    (cigar : List CigarOp) (seq : List Char) (f t : Int) (chk : Bool) :
    findPolytHeadWinWith move w num den s cigar seq f t chk =
      findPolytHeadWith move w num den s cigar seq (f - 1) (t + 1) chk := by
  unfold findPolytHeadWinWith findPolytHeadWith
  have e1 : softClipHead cigar - (t + 1) = softClipHead cigar - t - 1 := by omega
  have e2 : softClipHead cigar + (f - 1) + 1 = softClipHead cigar + f := by omega
  simp only [e1, e2]
  rfl

theorem region_t_win_eq (cigar : List CigarOp) (seq : List Char) (f t : Int) :
    regionTWin cigar seq f t = regionT cigar seq (f - 1) (t + 1) ∧ stopTWin cigar seq f = stopT cigar seq (f - 1) := by
  unfold regionTWin regionT stopTWin stopT
  have e1 : softClipHead cigar - (t + 1) = softClipHead cigar - t - 1 := by omega
  have e2 : softClipHead cigar + (f - 1) + 1 = softClipHead cigar + f := by omega
  simp only [e1, e2, and_self]

theorem find_polyt_head_spec_win_eq (w num den : Nat) (s : Int) (cigar : List CigarOp) (seq : List Char) (f t : Int)
    (chk : Bool) :
    findPolytHeadSpecWin w num den s cigar seq f t chk = findPolytHeadSpecFix w num den s cigar seq (f - 1) (t + 1) chk := by
  unfold findPolytHeadSpecWin findPolytHeadSpecFix findPolytHeadSpecWith
  rw [(region_t_win_eq cigar seq f t).1, (region_t_win_eq cigar seq f t).2]
  rfl

/-! ### the scanned bases -/

theorem slice_reverse {α} (l : List α) (a b : Int) (ha : 0 ≤ a) (hb : b ≤ l.length) :
    (slice l a b).reverse = slice l.reverse ((l.length : Int) - b) ((l.length : Int) - a) := by
  unfold slice
  by_cases hab : a ≤ b
  · have h1 : ((l.length : Int) - b).toNat = l.length - b.toNat := by omega
    have h2 : ((l.length : Int) - a).toNat - ((l.length : Int) - b).toNat = b.toNat - a.toNat := by omega
    rw [h2, h1, List.drop_reverse, List.take_reverse]
    congr 1
    have h3 : l.length - (l.length - b.toNat) = b.toNat := by omega
    have h4 : (List.take (l.length - (l.length - b.toNat)) l).length - (b.toNat - a.toNat) = a.toNat := by
      rw [h3, List.length_take]; omega
    rw [h4, h3, List.drop_take]
  · have h0 : b.toNat - a.toNat = 0 := by omega
    have h2 : ((l.length : Int) - a).toNat - ((l.length : Int) - b).toNat = 0 := by omega
    rw [h0, h2]; simp

/-- **mirror_region** — on the mirror image of a read the repaired `find_polyt_head` scans exactly the flags
    `find_polya_tail` scans on the read (same bases, same order): `from_pos` aligned bases and `to_pos + 1` clipped ones.
    `hrc`: the reverse complement maps T/t to A/a and nothing else to A/a. -/
theorem mirror_region (cigar : List CigarOp) (seq seq' : List Char) (f t : Int) (hnn : NonNeg cigar)
    (hclip : softClipTail cigar ≤ seq.length) (hf : 0 ≤ f) (ht : 0 ≤ t)
    (hrc : seq'.map (fun c => upperChar c == 'T') = (seq.map (fun c => upperChar c == 'A')).reverse) :
    regionTWin cigar.reverse seq' f t = regionA cigar seq f t := by
  have hlen : seq'.length = seq.length := by
    have := congrArg List.length hrc
    simpa using this
  have hc0 := softClipTail_nonneg hnn
  unfold regionTWin regionA
  rw [softClipHead_reverse, List.map_reverse, slice_map, hrc, slice_reverse _ _ _ (by omega) (by simp; omega),
    List.reverse_reverse, slice_map, List.length_reverse, List.length_map, hlen]
  congr 1 <;> omega

/-- the two scans settle on the same base -/
theorem mirror_scan (w num den : Nat) (chk : Bool) (cigar : List CigarOp) (seq seq' : List Char) (f t : Int)
    (hnn : NonNeg cigar) (hclip : softClipTail cigar ≤ seq.length) (hf : 0 ≤ f) (ht : 0 ≤ t)
    (hrc : seq'.map (fun c => upperChar c == 'T') = (seq.map (fun c => upperChar c == 'A')).reverse) :
    tailScan w num den chk (regionTWin cigar.reverse seq' f t) = tailScan w num den chk (regionA cigar seq f t) := by
  rw [mirror_region cigar seq seq' f t hnn hclip hf ht hrc]

/-- non-vacuity: the toy read of the audit (`…GAGAAAAAAAA|TCC`, 3 clipped bases) and its reverse complement -/
example :
    let cig : List CigarOp := [(.«match», 20), (.soft_clipping, 3)]
    let seq := "CCGTCCGTCGAGAAAAAAAATCC".toList
    let seq' := "GGATTTTTTTTCTCGACGGACGG".toList
    regionTWin cig.reverse seq' 64 2 = regionA cig seq 64 2 ∧ (regionA cig seq 64 2).length = 23 ∧
    regionT cig.reverse seq' 64 2 ≠ regionA cig seq 64 2 := by decide

/-! ### the mirror law -/

/-- the law of Props/C16FinderSpec.lean `polyt_polya_mirror_law` with separate window arguments for the two sides
    (same proof) -/
theorem mirror_law_gen (w num den : Nat) (hw : 1 ≤ w) (s L : Int) (cigar : List CigarOp)
    (seq seq' : List Char) (fromPos toPos fT tT : Int) (chk : Bool) (hne : cigar ≠ []) (hseq : seq ≠ [])
    (hclip : softClipTail cigar < seq.length) (hnn : NonNeg cigar)
    (hrc : seq'.map (fun c => upperChar c == 'T') = (seq.map (fun c => upperChar c == 'A')).reverse)
    (pA pT : Nat)
    (hA : tailScan w num den chk (regionA cigar seq fromPos toPos) = some pA)
    (hT : tailScan w num den chk (regionT cigar.reverse seq' fT tT) = some pT)
    (hsame : stopT cigar.reverse seq' fT - pT - 1 = (seq.length : Int) - 1 - (startA cigar seq fromPos + pA))
    (hclean : (seq.length : Int) - softClipTail cigar ≤ startA cigar seq fromPos + pA ∨
      ∃ k0 l rest, walkCore cigar false = (k0, l) :: rest ∧ isAligned k0 = true ∧
        (seq.length : Int) - softClipTail cigar - (startA cigar seq fromPos + pA) < l) :
    ∃ ra, findPolyaTail w num den s cigar seq fromPos toPos chk = some ra ∧
      findPolytHead w num den (L - referenceEnd s cigar) cigar.reverse seq' fT tT chk
        = some (max 1 (L - 1 - ra)) := by
  have hlen : seq'.length = seq.length := by
    have := congrArg List.length hrc
    simpa using this
  have hseq' : seq' ≠ [] := by
    intro h; rw [h] at hlen; exact hseq (List.length_eq_zero_iff.1 hlen.symm)
  have hne' : cigar.reverse ≠ [] := by simpa using hne
  have hclip' : softClipHead cigar.reverse < seq'.length := by rw [softClipHead_reverse, hlen]; exact hclip
  have hnn' : NonNeg cigar.reverse := NonNeg_reverse hnn
  have hPA := C16FinderSpec.find_polya_tail_spec w num den hw s cigar seq fromPos toPos chk hne hseq hclip hnn
  have hPT := C16FinderSpec.find_polyt_head_spec w num den hw (L - referenceEnd s cigar) cigar.reverse seq' fT tT chk
    hne' hseq' hclip' hnn'
  rw [hA] at hPA
  rw [hT] at hPT
  obtain ⟨_, hAext, hAint⟩ := hPA
  obtain ⟨_, hText, hTint⟩ := hPT
  rw [softClipHead_reverse] at hText hTint
  rw [hsame] at hText hTint
  rcases hclean with hge | ⟨k0, l, rest, hc, hk, hlt⟩
  · refine ⟨_, hAext hge, ?_⟩
    rw [hText (by omega)]
    congr 2; omega
  · by_cases hge : (seq.length : Int) - softClipTail cigar ≤ startA cigar seq fromPos + pA
    · refine ⟨_, hAext hge, ?_⟩
      rw [hText (by omega)]
      congr 2; omega
    · have hpos : 0 < (seq.length : Int) - softClipTail cigar - (startA cigar seq fromPos + pA) := by omega
      have hmA := moveRefCoord_in_first_match cigar false k0 l rest hc hk _ hpos hlt
      simp only [Bool.false_eq_true, if_false] at hmA
      have hshift : -((seq.length : Int) - softClipTail cigar - (startA cigar seq fromPos + pA)) =
          startA cigar seq fromPos + pA - ((seq.length : Int) - softClipTail cigar) := by omega
      rw [hshift] at hmA
      obtain ⟨hAeq, _⟩ := hAint (by omega)
      rw [hmA] at hAeq
      simp only [Option.map_some] at hAeq
      refine ⟨_, hAeq, ?_⟩
      by_cases h1 : (seq.length : Int) - softClipTail cigar - (startA cigar seq fromPos + pA) = 1
      · rw [hText (by omega)]
        congr 2; omega
      · obtain ⟨hTeq, _⟩ := hTint (by omega)
        have hmT := moveRefCoord_in_first_match cigar.reverse true k0 l rest
          (by rw [walkCore_reverse]; exact hc) hk
          ((seq.length : Int) - softClipTail cigar - (startA cigar seq fromPos + pA) - 1) (by omega) (by omega)
        simp only [if_true] at hmT
        have hshiftT : (seq.length : Int) - 1 - (startA cigar seq fromPos + pA) - softClipTail cigar =
            (seq.length : Int) - softClipTail cigar - (startA cigar seq fromPos + pA) - 1 := by omega
        rw [hshiftT, hmT] at hTeq
        rw [hTeq]
        simp only [Option.map_some]
        congr 2; omega


/-- **mirror_law_win** — the read `(s, cigar, seq)` and its mirror image `(L − reference_end, reversed cigar, reverse
    complement)`, any window `w ≥ 1`, fraction, `from_pos, to_pos ≥ 0`, `check_entire`; the repaired head window.
    * the polyA scan finds nothing ⇒ both functions answer −1 (found / not found is symmetric: the failure class
      `finder_window` of the C11 finding is gone);
    * it finds a tail that starts in the soft clip or inside the last match operation ⇒
      `find_polyt_head(mirror) = max 1 (L − 1 − find_polya_tail(read))`: the mirror image `L + 1 − x` minus 2, the
      position convention (no hypothesis on the polyT scan any more: it is the polyA scan, `mirror_scan`). -/
theorem mirror_law_win (w num den : Nat) (hw : 1 ≤ w) (s L : Int) (cigar : List CigarOp)
    (seq seq' : List Char) (f t : Int) (chk : Bool) (hne : cigar ≠ []) (hseq : seq ≠ [])
    (hclip : softClipTail cigar < seq.length) (hnn : NonNeg cigar) (hf : 0 ≤ f) (ht : 0 ≤ t)
    (hrc : seq'.map (fun c => upperChar c == 'T') = (seq.map (fun c => upperChar c == 'A')).reverse) :
    match tailScan w num den chk (regionA cigar seq f t) with
    | none => findPolyaTail w num den s cigar seq f t chk = some (-1) ∧
        findPolytHeadWinWith moveRefCoord w num den (L - referenceEnd s cigar) cigar.reverse seq' f t chk = some (-1)
    | some pA =>
      ((seq.length : Int) - softClipTail cigar ≤ startA cigar seq f + pA ∨
        ∃ k0 l rest, walkCore cigar false = (k0, l) :: rest ∧ isAligned k0 = true ∧
          (seq.length : Int) - softClipTail cigar - (startA cigar seq f + pA) < l) →
      ∃ ra, findPolyaTail w num den s cigar seq f t chk = some ra ∧
        findPolytHeadWinWith moveRefCoord w num den (L - referenceEnd s cigar) cigar.reverse seq' f t chk
          = some (max 1 (L - 1 - ra)) := by
  have hlen : seq'.length = seq.length := by
    have := congrArg List.length hrc
    simpa using this
  have hscan := mirror_scan w num den chk cigar seq seq' f t hnn (by omega) hf ht hrc
  rw [(region_t_win_eq cigar.reverse seq' f t).1] at hscan
  rw [find_polyt_head_win_eq]
  cases hA : tailScan w num den chk (regionA cigar seq f t) with
  | none =>
    rw [hA] at hscan
    have hseq' : seq' ≠ [] := by
      intro h; rw [h] at hlen; exact hseq (List.length_eq_zero_iff.1 hlen.symm)
    have hPA := C16FinderSpec.find_polya_tail_spec w num den hw s cigar seq f t chk hne hseq hclip hnn
    have hPT := C16FinderSpec.find_polyt_head_spec w num den hw (L - referenceEnd s cigar) cigar.reverse seq' (f - 1) (t + 1)
      chk (by simpa using hne) hseq' (by rw [softClipHead_reverse, hlen]; exact hclip) (NonNeg_reverse hnn)
    rw [hA] at hPA
    rw [hscan] at hPT
    exact ⟨hPA, hPT⟩
  | some pA =>
    rw [hA] at hscan
    intro hclean
    refine mirror_law_gen w num den hw s L cigar seq seq' f t (f - 1) (t + 1) chk hne hseq hclip hnn hrc pA pA hA hscan
      ?_ hclean
    unfold stopT startA
    rw [softClipHead_reverse, hlen]
    have hc0 := softClipTail_nonneg hnn
    omega

/-- non-vacuity: `20M 20S`, 20 C + 20 A at 99 on a chromosome of length 1000: polyA 119, polyT of the mirror image
    880 = 1001 − 119 − 2 -/
example :
    findPolyaTail 16 3 4 99 [(.«match», 20), (.soft_clipping, 20)] (List.replicate 20 'C' ++ List.replicate 20 'A') 2 32 false
      = some 119 ∧
    findPolytHeadWinWith moveRefCoord 16 3 4 (1000 - 119) [(.soft_clipping, 20), (.«match», 20)]
      (List.replicate 20 'T' ++ List.replicate 20 'G') 2 32 false = some 880 := by decide +kernel

/-- the same law for the functions with the `P` repair of the projection (the code of /repo) -/
theorem mirror_law_win_fix (w num den : Nat) (hw : 1 ≤ w) (s L : Int) (cigar : List CigarOp)
    (seq seq' : List Char) (f t : Int) (chk : Bool) (hne : cigar ≠ []) (hseq : seq ≠ [])
    (hclip : softClipTail cigar < seq.length) (hnn : NonNeg cigar) (hf : 0 ≤ f) (ht : 0 ≤ t)
    (hrc : seq'.map (fun c => upperChar c == 'T') = (seq.map (fun c => upperChar c == 'A')).reverse) :
    match tailScan w num den chk (regionA cigar seq f t) with
    | none => findPolyaTailFix w num den s cigar seq f t chk = some (-1) ∧
        findPolytHeadWin w num den (L - referenceEnd s cigar) cigar.reverse seq' f t chk = some (-1)
    | some pA =>
      ((seq.length : Int) - softClipTail cigar ≤ startA cigar seq f + pA ∨
        ∃ k0 l rest, walkCore cigar false = (k0, l) :: rest ∧ isAligned k0 = true ∧
          (seq.length : Int) - softClipTail cigar - (startA cigar seq f + pA) < l) →
      ∃ ra, findPolyaTailFix w num den s cigar seq f t chk = some ra ∧
        findPolytHeadWin w num den (L - referenceEnd s cigar) cigar.reverse seq' f t chk
          = some (max 1 (L - 1 - ra)) := by
  have h := mirror_law_win w num den hw s L cigar seq seq' f t chk hne hseq hclip hnn hf ht hrc
  have hT : ∀ r, findPolytHeadWinWith moveRefCoord w num den (L - referenceEnd s cigar) cigar.reverse seq' f t chk = some r →
      findPolytHeadWin w num den (L - referenceEnd s cigar) cigar.reverse seq' f t chk = some r := by
    intro r hr
    rw [find_polyt_head_win_eq] at hr
    unfold findPolytHeadWin
    rw [find_polyt_head_win_eq]
    exact (C16Pad.find_tail_fix_extends w num den _ _ _ _ _ chk r).2 hr
  cases hA : tailScan w num den chk (regionA cigar seq f t) with
  | none =>
    rw [hA] at h
    exact ⟨(C16Pad.find_tail_fix_extends w num den s cigar seq f t chk (-1)).1 h.1, hT _ h.2⟩
  | some pA =>
    rw [hA] at h
    intro hclean
    obtain ⟨ra, h1, h2⟩ := h hclean
    exact ⟨ra, (C16Pad.find_tail_fix_extends w num den s cigar seq f t chk ra).1 h1, hT _ h2⟩

/-- **window_mirror_witness** — the window before the repair fails the symmetry even for found / not found: read
    `AAAAAACACCCAAAAAAACA`, `17M 3S` at 100, internal finder (`from 64, to 2`, entire tail checked): polyA found at 101;
    on its mirror image (`L = 1000`) the old `find_polyt_head` — one clipped base less, one aligned base more in the
    window — finds nothing, the repaired one answers 899 (the whole read is tail, so both positions are held at the far
    end of the alignment and the offset is −1 here, not −2: the hypothesis of `mirror_law_win` "at least one base of the last
    match operation before the tail" is needed); model = code, replayed each run. -/
theorem window_mirror_witness :
    findPolyaTailFix 16 3 4 100 [(.«match», 17), (.soft_clipping, 3)] "AAAAAACACCCAAAAAAACA".toList 64 2 true = some 101 ∧
    findPolytHeadFix 16 3 4 (1000 - 117) [(.soft_clipping, 3), (.«match», 17)] "TGTTTTTTTGGGTGTTTTTT".toList 64 2 true
      = some (-1) ∧
    findPolytHeadWin 16 3 4 (1000 - 117) [(.soft_clipping, 3), (.«match», 17)] "TGTTTTTTTGGGTGTTTTTT".toList 64 2 true
      = some 899 := by decide +kernel

/-! ### the theorems about `find_polyt_head` at the repaired window -/

/-- **polyt_win_position_in_range** — a found position of the repaired function lies in
    `[max 1 (reference_start − max 1 clip₅), max 1 (reference_end − 1)]` (unchanged convention) -/
theorem polyt_win_position_in_range (w num den : Nat) (hw : 1 ≤ w) (s : Int) (cigar : List CigarOp) (seq : List Char)
    (f t : Int) (chk : Bool) (hne : cigar ≠ []) (hseq : seq ≠ [])
    (hclip : softClipHead cigar < seq.length) (hnn : NonNeg cigar) (p : Nat)
    (hts : tailScan w num den chk (regionTWin cigar seq f t) = some p) (r : Int)
    (hr : findPolytHeadWinWith moveRefCoord w num den s cigar seq f t chk = some r) :
    max 1 (s - max 1 (softClipHead cigar)) ≤ r ∧ r ≤ max 1 (referenceEnd s cigar - 1) ∧
    (WalkOnRef cigar true → max 1 (s - softClipHead cigar) ≤ r) := by
  rw [(region_t_win_eq cigar seq f t).1] at hts
  rw [find_polyt_head_win_eq] at hr
  exact C16FinderSpec.polyt_position_in_range w num den hw s cigar seq (f - 1) (t + 1) chk hne hseq hclip hnn p hts r hr

/-- **find_polyt_head_win_char** — the complete `↔` of `find_polyt_head_char` for the repaired window -/
theorem find_polyt_head_win_char (w num den : Nat) (s : Int) (cigar : List CigarOp) (seq : List Char)
    (f t : Int) (chk : Bool) (hne : cigar ≠ []) (hseq : seq ≠ [])
    (hclip : softClipHead cigar < seq.length) (hnn : NonNeg cigar) (r : Int) :
    findPolytHeadWinWith moveRefCoord w num den s cigar seq f t chk = some r ↔
      ((∀ p, ¬ TailStart w num den chk (regionTWin cigar seq f t) p) ∧ r = -1) ∨
      (∃ p, TailStart w num den chk (regionTWin cigar seq f t) p ∧
        ((stopTWin cigar seq f - p - 1 ≤ softClipHead cigar ∧
            r = max 1 (s - (softClipHead cigar - (stopTWin cigar seq f - p - 1)))) ∨
         (softClipHead cigar < stopTWin cigar seq f - p - 1 ∧
            padReached (walkCore cigar true) (stopTWin cigar seq f - p - 1 - softClipHead cigar).toNat = false ∧
            ∃ k, ProjectsTo (expand (walkCore cigar true)) (stopTWin cigar seq f - p - 1 - softClipHead cigar).toNat k ∧
              r = max 1 (s + k)))) := by
  rw [find_polyt_head_win_eq, (region_t_win_eq cigar seq f t).1, (region_t_win_eq cigar seq f t).2]
  exact C16FinderChar.find_polyt_head_char w num den s cigar seq (f - 1) (t + 1) chk hne hseq hclip hnn r

/-- **find_polyt_head_win_found_iff** — found ⇔ the specification `TailStart` holds somewhere in the scanned region -/
theorem find_polyt_head_win_found_iff (w num den : Nat) (hw : 1 ≤ w) (s : Int) (cigar : List CigarOp) (seq : List Char)
    (f t : Int) (chk : Bool) (hne : cigar ≠ []) (hseq : seq ≠ [])
    (hclip : softClipHead cigar < seq.length) (hnn : NonNeg cigar) :
    findPolytHeadWinWith moveRefCoord w num den s cigar seq f t chk = some (-1) ↔
      ∀ p, ¬ TailStart w num den chk (regionTWin cigar seq f t) p := by
  rw [find_polyt_head_win_eq, (region_t_win_eq cigar seq f t).1]
  exact C16FinderChar.find_polyt_head_found_iff w num den hw s cigar seq (f - 1) (t + 1) chk hne hseq hclip hnn

/-- **find_polyt_head_win_raises_iff** — the repaired function (window + `P` repair) raises on the two `assert`-like
    conditions only -/
theorem find_polyt_head_win_raises_iff (w num den : Nat) (s : Int) (cigar : List CigarOp) (seq : List Char)
    (f t : Int) (chk : Bool) :
    findPolytHeadWin w num den s cigar seq f t chk = none ↔
      cigar = [] ∨ (seq ≠ [] ∧ ¬ softClipHead cigar < seq.length) := by
  unfold findPolytHeadWin
  rw [find_polyt_head_win_eq]
  exact (C16Pad.find_tail_fix_raises_iff w num den s cigar seq (f - 1) (t + 1) chk).2

/-- **region_t_win_spec** — what the repaired function scans: scan index `j` ↦ read base `to_check_end − 1 − j`; for
    `0 ≤ clip ≤ len`, `from ≥ 1`, `to ≥ 0` these are the last `min(to + 1, clip)` bases of the soft-clipped head and the
    first `min(from, len − clip)` bases after it — the mirror image of `region_a_spec` -/
theorem region_t_win_spec (cigar : List CigarOp) (seq : List Char) (f t : Int) :
    (∀ j, (regionTWin cigar seq f t)[j]? =
      if j < (stopTWin cigar seq f).toNat - (max 0 (softClipHead cigar - t - 1)).toNat
      then (seq[(stopTWin cigar seq f).toNat - 1 - j]?).map (fun ch => upperChar ch == 'T') else none) ∧
    (0 ≤ softClipHead cigar → softClipHead cigar ≤ seq.length → 1 ≤ f → 0 ≤ t →
      ((regionTWin cigar seq f t).length : Int) =
        min (t + 1) (softClipHead cigar) + min f ((seq.length : Int) - softClipHead cigar)) := by
  obtain ⟨h1, h2⟩ := C16FinderChar.region_t_spec cigar seq (f - 1) (t + 1)
  rw [(region_t_win_eq cigar seq f t).1, (region_t_win_eq cigar seq f t).2]
  constructor
  · intro j
    have := h1 j
    unfold startT at this
    have e : softClipHead cigar - (t + 1) = softClipHead cigar - t - 1 := by omega
    rw [e] at this
    exact this
  · intro a b c d
    have := h2 a b (by omega) (by omega)
    rw [this]; omega

example :
    let gic : List CigarOp := [(.soft_clipping, 20), (.«match», 80)]
    let seq := List.replicate 100 'C'
    (regionTWin gic seq 2 32).length = 22 ∧ (regionTWin gic seq 64 2).length = 67 := by decide

/-! ### one record, positions from the repaired finder -/

/-- **detected_positions_in_range_win** — the ranges of `detected_positions_in_range` for the repaired `detect_polya`
    (they do not depend on the window) -/
theorem detected_positions_in_range_win (w num den : Nat) (hw : 1 ≤ w) (s : Int) (cigar : List CigarOp)
    (seq : List Char) (hnn : NonNeg cigar) (info : PolyAInfo)
    (h : detectPolyaWinWith moveRefCoord w num den s cigar seq = some info) :
    (∀ x, (x = info.internalPolyA ∨ x = info.externalPolyA) → x ≠ -1 →
      s + 1 ≤ x ∧ x ≤ referenceEnd s cigar + max 1 (softClipTail cigar)) ∧
    (∀ x, (x = info.internalPolyT ∨ x = info.externalPolyT) → x ≠ -1 →
      max 1 (s - max 1 (softClipHead cigar)) ≤ x ∧ x ≤ max 1 (referenceEnd s cigar - 1)) := by
  unfold detectPolyaWinWith at h
  simp only [Option.bind_eq_bind, Option.bind_eq_some_iff, Option.some.injEq] at h
  obtain ⟨ea, hea, et, het, ia, hia, it, hit, rfl⟩ := h
  have keyA : ∀ fromPos toPos chk x, findPolyaTail w num den s cigar seq fromPos toPos chk = some x → x ≠ -1 →
      s + 1 ≤ x ∧ x ≤ referenceEnd s cigar + max 1 (softClipTail cigar) := by
    intro fromPos toPos chk x hx hne
    obtain ⟨h1, h2, h3, p, hp⟩ := polya_found w num den s cigar seq fromPos toPos chk x hx hne
    have := C16FinderSpec.polya_position_in_range w num den hw s cigar seq fromPos toPos chk h1 h2 h3 hnn p hp x hx
    exact ⟨this.1, this.2.1⟩
  have keyT : ∀ fromPos toPos chk x, findPolytHeadWinWith moveRefCoord w num den s cigar seq fromPos toPos chk = some x →
      x ≠ -1 → max 1 (s - max 1 (softClipHead cigar)) ≤ x ∧ x ≤ max 1 (referenceEnd s cigar - 1) := by
    intro fromPos toPos chk x hx hne
    rw [find_polyt_head_win_eq] at hx
    obtain ⟨h1, h2, h3, p, hp⟩ := polyt_found w num den s cigar seq _ _ chk x hx hne
    have := C16FinderSpec.polyt_position_in_range w num den hw s cigar seq _ _ chk h1 h2 h3 hnn p hp x hx
    exact ⟨this.1, this.2.1⟩
  constructor
  · rintro x (rfl | rfl) hx
    · exact keyA _ _ _ _ hia hx
    · exact keyA _ _ _ _ hea hx
  · rintro x (rfl | rfl) hx
    · exact keyT _ _ _ _ hit hx
    · exact keyT _ _ _ _ het hx

/-- **record_tail_on_retained_exon_win** — `record_tail_on_retained_exon` (Props/C16TailRecord.lean) with the tail
    positions of the REPAIRED finder -/
theorem record_tail_on_retained_exon_win (w num den : Nat) (hw : 1 ≤ w) (s : Int) (ops : List CigarOp)
    (seq : List Char) (mf : Int) (info : PolyAInfo) (hs : 0 ≤ s) (hp : Pos ops)
    (hdet : detectPolyaWinWith moveRefCoord w num den s ops seq = some info)
    (hne : (getReadBlocks s ops).refBlocks ≠ []) :
    ∃ (r : AInfo) (a t : Int),
      addPolyaInfo mf (getReadBlocks s ops).refBlocks (getReadBlocks s ops).readBlocks
        (getReadBlocks s ops).cigarBlocks info = some r ∧
      correctReadInfo mf (getReadBlocks s ops).refBlocks info = some (a, t) ∧
      (0 < a → ∃ lastKept firstRemoved : Iv, r.exons.getLast? = some lastKept ∧
        (getReadBlocks s ops).refBlocks[(getReadBlocks s ops).refBlocks.length - a.toNat]? = some firstRemoved ∧
        lastKept.2 < firstRemoved.1 ∧ firstRemoved.2 ≤ referenceEnd s ops ∧
        (info.internalPolyA = -1 → r.info.internalPolyA = -1) ∧
        (info.internalPolyA ≠ -1 → lastKept.2 ≤ r.info.internalPolyA ∧
          r.info.internalPolyA ≤ lastKept.2 + max 0 (firstRemoved.2 - firstRemoved.1 - 1)) ∧
        (info.externalPolyA = -1 → r.info.externalPolyA = -1) ∧
        (info.externalPolyA ≠ -1 → lastKept.2 ≤ r.info.externalPolyA ∧
          r.info.externalPolyA ≤ r.info.internalPolyA)) ∧
      (countPolyaExons mf (getReadBlocks s ops).refBlocks info.internalPolyA = 0 → info.internalPolyA ≠ -1 →
        ∃ last : Iv, (getReadBlocks s ops).refBlocks.getLast? = some last ∧
          r.info.internalPolyA = info.internalPolyA ∧ last.1 ≤ r.info.internalPolyA ∧
          r.info.internalPolyA ≤ referenceEnd s ops + max 1 (softClipTail ops)) ∧
      (0 < t → ∃ firstKept lastRemoved : Iv, r.exons.head? = some firstKept ∧
        (getReadBlocks s ops).refBlocks[t.toNat - 1]? = some lastRemoved ∧
        lastRemoved.2 < firstKept.1 ∧ s + 1 ≤ lastRemoved.1 ∧
        (∀ old new, (old = info.internalPolyT ∧ new = r.info.internalPolyT) ∨
            (old = info.externalPolyT ∧ new = r.info.externalPolyT) →
          (old = -1 → new = -1) ∧
          (old ≠ -1 → new ≤ firstKept.1 ∧
            firstKept.1 - (lastRemoved.2 - max 1 (s - max 1 (softClipHead ops))) ≤ new)) ∧
        (info.externalPolyT ≠ -1 → r.info.internalPolyT ≤ r.info.externalPolyT)) ∧
      (countPolytExons mf (getReadBlocks s ops).refBlocks info.internalPolyT = 0 → info.internalPolyT ≠ -1 →
        ∃ first : Iv, (getReadBlocks s ops).refBlocks.head? = some first ∧
          r.info.internalPolyT = info.internalPolyT ∧ r.info.internalPolyT ≤ first.2 ∧
          max 1 (s - max 1 (softClipHead ops)) ≤ r.info.internalPolyT) := by
  obtain ⟨hrA, hrT⟩ := detected_positions_in_range_win w num den hw s ops seq hp.nonneg info hdet
  exact C16TailRecord.record_tail_on_retained_exon_of_ranges s ops mf info hs hp hrA hrT hne

/-- non-vacuity: the record of `record_tail_on_retained_exon` -/
example :
    let ops : List CigarOp := [(.«match», 60), (.skipped, 100), (.«match», 20), (.soft_clipping, 20)]
    let seq : List Char := List.replicate 62 'C' ++ List.replicate 38 'A'
    Pos ops ∧ detectPolyaWinWith moveRefCoord 16 3 4 1000 ops seq = some ⟨1178, -1, 1162, -1⟩ ∧
    (getReadBlocks 1000 ops).refBlocks = [(1001, 1060), (1161, 1180)] := by
  refine ⟨?_, by decide, by decide⟩
  intro o ho; simp at ho; rcases ho with h | h | h | h <;> subst h <;> decide

/-- **record_removed_exons_are_tail_win** — `record_removed_exons_are_tail` (Props/C16TailExons.lean) with the tail
    positions of the REPAIRED finder (the 5' clause speaks about the repaired window `regionTWin`) -/
theorem record_removed_exons_are_tail_win (w num den : Nat) (s : Int) (ops : List CigarOp)
    (seq : List Char) (mf : Int) (info : PolyAInfo) (hs : 0 ≤ s) (hp : Pos ops)
    (hdet : detectPolyaWinWith moveRefCoord w num den s ops seq = some info)
    (hne : (getReadBlocks s ops).refBlocks ≠ []) :
    ∃ (r : AInfo) (a t : Int),
      addPolyaInfo mf (getReadBlocks s ops).refBlocks (getReadBlocks s ops).readBlocks
        (getReadBlocks s ops).cigarBlocks info = some r ∧
      correctReadInfo mf (getReadBlocks s ops).refBlocks info = some (a, t) ∧
      r.exons = ((getReadBlocks s ops).refBlocks.take ((getReadBlocks s ops).refBlocks.length - a.toNat)).drop t.toNat ∧
      (∀ e ∈ (getReadBlocks s ops).refBlocks.drop ((getReadBlocks s ops).refBlocks.length - a.toNat),
        info.internalPolyA ≠ -1 ∧
        findPolyaTail w num den s ops seq (4 * (w : Int)) 2 true = some info.internalPolyA ∧
        (∃ p, TailStart w num den true (regionA ops seq (4 * (w : Int)) 2) p) ∧
        info.internalPolyA < e.2 ∧
        (info.internalPolyA ≤ e.1 ∨
          (info.internalPolyA - e.1 ≤ mf ∧ 2 * (info.internalPolyA - e.1) < e.2 - info.internalPolyA))) ∧
      (∀ e ∈ (getReadBlocks s ops).refBlocks.take t.toNat,
        info.internalPolyT ≠ -1 ∧
        findPolytHeadWinWith moveRefCoord w num den s ops seq (4 * (w : Int)) 2 true = some info.internalPolyT ∧
        (∃ p, TailStart w num den true (regionTWin ops seq (4 * (w : Int)) 2) p) ∧
        e.1 < info.internalPolyT ∧
        (e.2 ≤ info.internalPolyT ∨
          (e.2 - info.internalPolyT ≤ mf ∧ 2 * (e.2 - info.internalPolyT) < info.internalPolyT - e.1))) := by
  have hnn := hp.nonneg
  have hsw := C16.exons_sorted_wf s ops hs hp
  have hsd : SD (getReadBlocks s ops).refBlocks := ⟨fun e he => (hsw.1 e he).2, hsw.2⟩
  obtain ⟨r, a, t, hr, hcri, _, hre, hA, hT, _⟩ :=
    C16TailExons.trimmed_exons_are_tail_exons mf _ (getReadBlocks s ops).readBlocks (getReadBlocks s ops).cigarBlocks info hsd hne
  unfold detectPolyaWinWith at hdet
  simp only [Option.bind_eq_bind, Option.bind_eq_some_iff, Option.some.injEq] at hdet
  obtain ⟨ea, hea, et, het, ia, hia, it, hit, rfl⟩ := hdet
  refine ⟨r, a, t, hr, hcri, hre, ?_, ?_⟩
  · intro e he
    obtain ⟨hx, hc⟩ := hA e he
    obtain ⟨g1, g2, g3, _⟩ := polya_found w num den s ops seq _ _ _ _ hia hx
    have hchar := (C16FinderChar.find_polya_tail_char w num den s ops seq _ _ true g1 g2 g3 hnn ia).1 hia
    have hts : ∃ p, TailStart w num den true (regionA ops seq (4 * (w : Int)) 2) p := by
      rcases hchar with ⟨_, h⟩ | ⟨p, hp', _⟩
      · exact absurd h hx
      · exact ⟨p, hp'⟩
    obtain ⟨c1, c2⟩ := (C16TailExons.polya_counted_iff mf ia e).1 hc
    exact ⟨hx, hia, hts, c1, c2⟩
  · intro e he
    obtain ⟨hx, hc⟩ := hT e he
    have hit' := hit
    rw [find_polyt_head_win_eq] at hit'
    obtain ⟨g1, g2, g3, _⟩ := polyt_found w num den s ops seq _ _ _ _ hit' hx
    have hchar := (find_polyt_head_win_char w num den s ops seq _ _ true g1 g2 g3 hnn it).1 hit
    have hts : ∃ p, TailStart w num den true (regionTWin ops seq (4 * (w : Int)) 2) p := by
      rcases hchar with ⟨_, h⟩ | ⟨p, hp', _⟩
      · exact absurd h hx
      · exact ⟨p, hp'⟩
    obtain ⟨c1, c2⟩ := (C16TailExons.polyt_counted_iff mf it e).1 hc
    exact ⟨hx, hit, hts, c1, c2⟩


end IsoVerif.Props.C16FinderMirror
