/-
C08 — the pickle boundary of the compact record (`BasicReadAssignment.__getstate__` / `__setstate__`): with
`--high_memory --threads > 1` the per-chromosome results come back from worker processes pickled.  The tuple layouts are
regenerated from the source on every run (Gen/Resolver.lean).
-/
import IsoVerif.Model.Resolver
import IsoVerif.Props.C08Flow

namespace IsoVerif.Props.C08Pickle
open IsoVerif.Gen IsoVerif.Model.Resolver IsoVerif.Props.C08Flow

/-- **pickle_roundtrip**: `pickle.loads(pickle.dumps(a))` of a compact record gives back every field - over the
    `__getstate__` / `__setstate__` layouts regenerated from the source on every run (a reordered tuple, a slot read
    into another field or a field no longer restored re-opens this obligation) -/
theorem pickle_roundtrip (r : Rec) : pickleRoundTrip r = some r := by
  cases r
  rfl

/-- **memory_paths_agree_pickled**: with worker processes (`--high_memory --threads > 1`) the records reach the
    resolver through the pickle boundary; the lists handed to the resolver are still those of the default path -/
theorem memory_paths_agree_pickled (s : MultimapResolvingStrategy) (records : List Rec) :
    (groupAllPickled records).map (resolveAll s) = some (resolveAll s (groupMulti records)) := by
  have h : records.mapM pickleRoundTrip = some records := by
    induction records with
    | nil => rfl
    | cons r rest ih => simp [List.mapM_cons, pickle_roundtrip, ih]
  simp [groupAllPickled, h, memory_paths_agree]

-- non-vacuity: a record whose isoform and gene lists differ survives the round trip, and a swapped pair would not
example : pickleRoundTrip recA = some recA ∧ recA.isoforms ≠ recA.genes := by decide

end IsoVerif.Props.C08Pickle
