/-
C15 — primitives of src/serialization.py: every `read_*` undoes its `write_*` on the exact value domain of the
writer, byte-aligned (whatever follows in the stream is left untouched), plus the facts about the regenerated
constants and the regression witnesses of the two defects repaired in /repo (62ec0ea, 93f9737).

A writer returning `some bs` means the real writer did not raise; `…_encodable_iff` theorems characterise when.
-/
import IsoVerif.Lemmas.Serial

namespace IsoVerif.Props.C15
open IsoVerif.Gen IsoVerif.Model IsoVerif.Model.Serial IsoVerif.Lemmas.Serial

/-! ### regenerated constants -/

/-- the model hard-wires big-endian byte order and UTF-8: both are constants of serialization.py -/
theorem byte_order_and_encoding : ser_BYTE_ORDER = "big" ∧ ser_ENCODING = "utf-8" := by decide

/-- widths and derived constants are the ones the documented value domain (DESIGN.md §6) is stated for -/
theorem widths :
    ser_STR_LEN_BYTES = 2 ∧ ser_SHORT_INT_BYTES = 2 ∧ ser_LONG_INT_BYTES = 4 ∧ ser_DICT_TYPE_LEN = 1 ∧
    ser_NONE_STR_LEN = 256 ^ ser_STR_LEN_BYTES - 1 ∧ ser_SHORT_FLOAT_MULTIPLIER = 2 ^ 20 ∧
    ser_TERMINATION_INT < 256 ^ ser_LONG_INT_BYTES := by decide

/-- the three record markers of a `.save` stream are pairwise distinct and fit into the two marker bytes: a record
    marker can never be read where the terminator is expected, nor one record kind for the other -/
theorem terminator_unambiguous :
    tmp_GENE_INFO ≠ tmp_READ_ASSIGNMENT ∧ tmp_GENE_INFO ≠ ser_SHORT_TERMINATION_INT ∧
    tmp_READ_ASSIGNMENT ≠ ser_SHORT_TERMINATION_INT ∧
    tmp_GENE_INFO < 256 ^ ser_SHORT_INT_BYTES ∧ tmp_READ_ASSIGNMENT < 256 ^ ser_SHORT_INT_BYTES ∧
    ser_SHORT_TERMINATION_INT < 256 ^ ser_SHORT_INT_BYTES := by decide

/-- the dict value tags are pairwise distinct and fit into the tag byte -/
theorem dict_tags_distinct :
    ser_DICT_INT_TYPE ≠ ser_DICT_STR_TYPE ∧ ser_DICT_INT_TYPE ≠ ser_DICT_INT_PAIR_TYPE ∧
    ser_DICT_STR_TYPE ≠ ser_DICT_INT_PAIR_TYPE ∧ ser_DICT_INT_TYPE < 256 ^ ser_DICT_TYPE_LEN ∧
    ser_DICT_STR_TYPE < 256 ^ ser_DICT_TYPE_LEN ∧ ser_DICT_INT_PAIR_TYPE < 256 ^ ser_DICT_TYPE_LEN := by decide

/-- every enum member is recovered from its stored value and fits into the two bytes it is stored in
    (regenerated enums: a new member, a duplicated value or a value ≥ 65536 re-opens this) -/
theorem enum_values_roundtrip :
    (∀ e : MatchEventSubtype, MatchEventSubtype.ofValue? e.value = some e ∧ e.value < 256 ^ ser_SHORT_INT_BYTES) ∧
    (∀ e : MatchClassification, MatchClassification.ofValue? e.value = some e ∧ e.value < 256 ^ ser_SHORT_INT_BYTES) ∧
    (∀ e : ReadAssignmentType, ReadAssignmentType.ofValue? e.value = some e ∧ e.value < 256 ^ ser_SHORT_INT_BYTES) :=
  ⟨fun e => ⟨MatchEventSubtype.ofValue_value e, MatchEventSubtype.value_lt e⟩,
   fun e => ⟨MatchClassification.ofValue_value e, MatchClassification.value_lt e⟩,
   fun e => ⟨ReadAssignmentType.ofValue_value e, ReadAssignmentType.value_lt e⟩⟩

/-! ### fixed-width unsigned ints -/

theorem write_int_encodable_iff (v : Int) (k : Nat) : (writeInt v k).isSome ↔ (0 ≤ v ∧ v.toNat < 256 ^ k) :=
  intToBytes_isSome_iff k v

theorem write_int_length (v : Int) (k : Nat) (bs : Bytes) (h : writeInt v k = some bs) : bs.length = k :=
  intToBytes_length h

theorem read_int_write_int (v : Int) (k : Nat) (bs rest : Bytes) (h : writeInt v k = some bs) :
    (readInt k).run (bs ++ rest) = some (v, rest) :=
  readInt_write rest h

example : writeInt ((2 : Int) ^ 31) = some [128, 0, 0, 0] ∧ (writeInt ((2 : Int) ^ 32)).isSome = false ∧
    (writeInt (-1)).isSome = false ∧ (readInt 4).run [128, 0, 0, 0, 7] = some ((2 : Int) ^ 31, [7]) := by
  decide

/-! ### sign-bit ints -/

/-- `write_int_neg` accepts exactly the open interval (−2^31, 2^31) -/
theorem write_int_neg_encodable_iff (v : Int) : (writeIntNeg v).isSome ↔ (-(2 ^ 31 : Int) < v ∧ v < 2 ^ 31) :=
  writeIntNeg_isSome_iff v

theorem read_int_neg_write_int_neg (v : Int) (bs rest : Bytes) (h : writeIntNeg v = some bs) :
    readIntNeg.run (bs ++ rest) = some (v, rest) :=
  RT_writeIntNeg v bs rest trivial h

example : writeIntNeg (-5) = some [128, 0, 0, 5] ∧ readIntNeg.run [128, 0, 0, 5, 9] = some (-5, [9]) ∧
    (writeIntNeg (-(2 : Int) ^ 31)).isSome = false := by decide

/-! ### strings -/

/-- `write_string` accepts exactly the strings of fewer than 2^16 UTF-8 bytes -/
theorem write_string_encodable_iff (s : String) : (writeString s).isSome ↔ s.utf8ByteSize < 256 ^ ser_STR_LEN_BYTES := by
  simp only [writeString, seqW_isSome_iff, List.mem_cons, List.not_mem_nil, or_false, forall_eq_or_imp, forall_eq,
    Option.isSome_some, and_true, intToBytes_isSome_iff, utf8_length]
  omega

theorem read_string_write_string (s : String) (bs rest : Bytes) (h : writeString s = some bs) :
    readString.run (bs ++ rest) = some (s, rest) :=
  RT_writeString s bs rest trivial h

/-- `None` and every string whose UTF-8 length is not 65535 survive `write_string_or_none` / `read_string_or_none` -/
theorem read_string_or_none_write (o : Option String) (bs rest : Bytes) (h : writeStringOrNone o = some bs)
    (hlen : ∀ s, o = some s → s.utf8ByteSize ≠ ser_NONE_STR_LEN) :
    readStringOrNone.run (bs ++ rest) = some (o, rest) :=
  RT_writeStringOrNone o bs rest (fun s hs => by rw [utf8_length]; exact hlen s hs) h

/-- the length prefix counts bytes: the written record has exactly 2 + (UTF-8 length) bytes -/
theorem write_string_length (s : String) (bs : Bytes) (h : writeString s = some bs) :
    bs.length = ser_STR_LEN_BYTES + s.utf8ByteSize := by
  simp only [writeString, seqW_cons_eq_some_iff, seqW_nil_eq_some_iff] at h
  obtain ⟨b1, _, h1, ⟨b2, _, h2, rfl, rfl⟩, rfl⟩ := h
  cases h2
  simp [intToBytes_length h1, utf8_length]

example : writeString "é1" = some [0, 3, 195, 169, 49] ∧
    readString.run [0, 3, 195, 169, 49, 7] = some ("é1", [7]) := by decide +kernel

/-- before fix 62ec0ea (`len(s)` characters as the prefix) a non-ASCII string did not come back: the reader takes
    one byte too few and the next field starts inside the string -/
theorem write_string_buggy_witness :
    writeStringBuggy "é1" = some [0, 2, 195, 169, 49] ∧
    readString.run ([0, 2, 195, 169, 49] ++ [0, 0, 0, 7]) = some ("é", [49, 0, 0, 0, 7]) := by decide +kernel

/-- a 65535-byte id cannot be told from `None` (outside the documented domain: strings shorter than 65535 bytes) -/
theorem string_or_none_collision_witness (s : String) (h : s.utf8ByteSize = ser_NONE_STR_LEN) (rest : Bytes) :
    ∃ bs, writeStringOrNone (some s) = some bs ∧ readStringOrNone.run (bs ++ rest) = some (none, utf8 s ++ rest) := by
  have hl : (utf8 s).length = ser_NONE_STR_LEN := by rw [utf8_length]; exact h
  have hw : intToBytes ser_STR_LEN_BYTES (((utf8 s).length : Nat) : Int) = some (toBE ser_STR_LEN_BYTES ser_NONE_STR_LEN) := by
    rw [hl]; decide
  refine ⟨toBE ser_STR_LEN_BYTES ser_NONE_STR_LEN ++ utf8 s, ?_, ?_⟩
  · simp [writeStringOrNone, seqW, hw]
  · have := readNat_toBE ser_STR_LEN_BYTES ser_NONE_STR_LEN (utf8 s ++ rest) (by decide)
    simp [readStringOrNone, StateT.run_bind, this]

/-! ### lists -/

/-- `write_list` succeeds iff the length fits into four bytes and every element is accepted -/
theorem write_list_encodable_iff {α} (l : List α) (w : α → Option Bytes) :
    (writeList l w).isSome ↔ (l.length < 256 ^ ser_LONG_INT_BYTES ∧ ∀ x ∈ l, (w x).isSome) := by
  simp only [writeList, seqW_isSome_iff, List.mem_cons, List.mem_map, forall_eq_or_imp, writeInt,
    intToBytes_isSome_iff, forall_exists_index, and_imp, forall_apply_eq_imp_iff₂]
  constructor
  · rintro ⟨h1, h2⟩; exact ⟨by omega, h2⟩
  · rintro ⟨h1, h2⟩; exact ⟨by omega, h2⟩

/-- generic list framing: if the element reader undoes the element writer then `read_list` undoes `write_list` -/
theorem read_list_write_list {α} (w : α → Option Bytes) (r : Rd α)
    (helem : ∀ x bs rest, w x = some bs → r.run (bs ++ rest) = some (x, rest))
    (l : List α) (bs rest : Bytes) (h : writeList l w = some bs) :
    (readList r).run (bs ++ rest) = some (l, rest) :=
  RT_writeList (P := fun _ => True) (fun x bs rest _ hx => helem x bs rest hx) l bs rest (fun _ _ => trivial) h

theorem read_list_of_pairs_write (l : List (Int × Int)) (bs rest : Bytes)
    (h : writeListOfPairs l (writeInt ·) = some bs) :
    (readListOfPairs readInt).run (bs ++ rest) = some (l, rest) :=
  RT_writeListOfPairs (RT_writeInt ser_LONG_INT_BYTES) l bs rest (fun _ _ => ⟨trivial, trivial⟩) h

example : writeList [3, -1] writeIntNeg = some [0, 0, 0, 2, 0, 0, 0, 3, 128, 0, 0, 1] ∧
    (readList readIntNeg).run [0, 0, 0, 2, 0, 0, 0, 3, 128, 0, 0, 1] = some ([3, -1], []) := by decide

/-! ### bool arrays -/

theorem write_bool_array_encodable_iff (l : List Bool) : (writeBoolArray l).isSome ↔ l.length ≤ 8 := by
  unfold writeBoolArray
  split
  · rename_i h
    simp only [intToBytes_isSome_iff, h, iff_true]
    refine ⟨by omega, ?_⟩
    have hlt : boolBits l 0 0 < 2 ^ l.length := by
      apply Nat.lt_pow_two_of_testBit
      intro i hi
      rw [testBit_boolBits]
      have : l[i]? = none := List.getElem?_eq_none (by omega)
      simp [this]
    have : 2 ^ l.length ≤ 2 ^ 8 := Nat.pow_le_pow_right (by omega) h
    simp only [Int.toNat_natCast]
    omega
  · rename_i h; simp [h]

theorem read_bool_array_write (l : List Bool) (bs rest : Bytes) (h : writeBoolArray l = some bs) :
    (readBoolArray l.length).run (bs ++ rest) = some (l, rest) :=
  RT_writeBoolArray l.length l bs rest rfl h

example : writeBoolArray [true, false, true] = some [5] ∧
    (readBoolArray 3).run [5, 1] = some ([true, false, true], [1]) ∧
    (writeBoolArray (List.replicate 9 true)).isSome = false := by decide

/-! ### dicts -/

/-- a dict (distinct keys, as every Python dict has) with int / str / int-pair values is read back unchanged,
    in insertion order, for every value `write_dict` accepts -/
theorem read_dict_write_dict (d : Dict) (bs rest : Bytes) (h : writeDict d = some bs)
    (hkeys : (d.map (·.1)).Nodup) : readDict.run (bs ++ rest) = some (d, rest) :=
  RT_writeDict d bs rest hkeys h

example : writeDict [("a", .int (-5))] = some [0, 0, 0, 1, 0, 1, 97, 9, 128, 0, 0, 5] ∧
    readDict.run [0, 0, 0, 1, 0, 1, 97, 9, 128, 0, 0, 5] = some ([("a", .int (-5))], []) ∧
    (([("a", DictVal.int (-5))] : Dict).map (·.1)).Nodup := by
  refine ⟨by decide +kernel, by decide +kernel, by simp⟩

/-- before fix 93f9737 `read_dict` read int values with `read_int`: {"a": -5} came back as {"a": 2147483653} -/
theorem read_dict_buggy_witness :
    writeDict [("a", .int (-5))] = some [0, 0, 0, 1, 0, 1, 97, 9, 128, 0, 0, 5] ∧
    readDictBuggy.run [0, 0, 0, 1, 0, 1, 97, 9, 128, 0, 0, 5] = some ([("a", .int 2147483653)], []) := by
  decide +kernel

/-! ### penalties -/

/-- a penalty that is a multiple of 2^-20 is stored exactly -/
theorem penalty_roundtrip (n : Int) (bs rest : Bytes)
    (h : writePenalty ((n : Rat) / ((ser_SHORT_FLOAT_MULTIPLIER : Nat) : Rat)) = some bs) :
    readPenalty.run (bs ++ rest) = some ((n : Rat) / ((ser_SHORT_FLOAT_MULTIPLIER : Nat) : Rat), rest) :=
  RT_writePenalty _ bs rest ⟨n, rfl⟩ h

/-- …and is accepted exactly when 0 ≤ n < 2^32 (i.e. the penalty is below 2^12) -/
theorem penalty_multiple_encodable_iff (n : Int) :
    (writePenalty ((n : Rat) / ((ser_SHORT_FLOAT_MULTIPLIER : Nat) : Rat))).isSome ↔ (0 ≤ n ∧ n.toNat < 256 ^ 4) := by
  simp only [writePenalty, writeInt, penaltyToInt_of_multiple, intToBytes_isSome_iff]
  rfl

/-- any other penalty `q` is read back as `quantPenalty q` (truncated to 20 fractional bits) … -/
theorem penalty_decode_encode (q : Rat) (bs rest : Bytes) (h : writePenalty q = some bs) :
    readPenalty.run (bs ++ rest) = some (quantPenalty q, rest) :=
  RTn_writePenalty q bs rest trivial h

/-- … and encode ∘ decode ∘ encode = encode: saving what was loaded writes the same bytes again -/
theorem penalty_idempotent (q : Rat) : writePenalty (quantPenalty q) = writePenalty q := by
  simp only [writePenalty, penaltyToInt_quantPenalty]

example : writePenalty (mkRat 3 4) = some [0, 12, 0, 0] ∧ readPenalty.run [0, 12, 0, 0] = some (mkRat 3 4, []) ∧
    writePenalty (mkRat 1 10) = some [0, 1, 153, 153] ∧ quantPenalty (mkRat 1 10) = mkRat 104857 1048576 ∧
    (writePenalty (mkRat (-1) 2)).isSome = false ∧ (writePenalty 4096).isSome = false := by
  decide +kernel

end IsoVerif.Props.C15
