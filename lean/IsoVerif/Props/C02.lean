/-
C02 — expression tables equal the documented weighting of reported read assignments.
Property theorems about the executable model IsoVerif/Model/Counter.lean (tied to /repo by the correspondence
check of harness/props/C02.py); the strategy flags are the *generated* lists of IsoVerif/Gen/Strategies.lean.
The declarative right-hand sides (`docWeight`, `contribution`, `confirmsFeature`, the statistics classes) are in
IsoVerif/Model/CounterSpec.lean; helper lemmas in IsoVerif/Lemmas/Counter*.lean.

Part 1 (this file): weights, accumulation, confirmation / zeroing, statistics lines.
Part 2 (C02Merge.lean): per-chromosome merge, TPM, forward_counts.
-/
import IsoVerif.Model.Counter
import IsoVerif.Model.CounterSpec
import IsoVerif.Lemmas.Counter
import IsoVerif.Lemmas.CounterSteps
import IsoVerif.Gen.Weights

namespace IsoVerif.Props.C02
open IsoVerif.Gen IsoVerif.Model.C02 IsoVerif.Lemmas.C02

/-! ## 1. the weight table -/

/-- **weight_table**: for every strategy × assignment type × feature count k ≥ 1 the counter applies exactly the
    documented weight `docWeight` to each of the k features (flags: generated lists; k by cases 1 / ≥ 2) -/
theorem weight_table (s : CountingStrategy) (t : ReadAssignmentType) (k : Nat) (hk : 0 < k) :
    codeWeight s t k = some (docWeight s t k) := weight_table_aux s t k hk

/-- a record without any feature: the call raises exactly in the rows of `raisesRow`; otherwise there is no
    feature to add the computed weight to -/
theorem weight_table_zero (s : CountingStrategy) (t : ReadAssignmentType) :
    (codeWeight s t 0 = none ↔ raisesRow s t = true) := weight_table_zero_aux s t

/-- **weights_generated**: the two weight functions of the model ARE the source: `Gen/Weights.lean` is re-translated
    from `ReadWeightCounter.process_ambiguous / process_inconsistent` on every run and agrees with the model's
    `processAmbiguous / processInconsistent` for every strategy, assignment type and feature count (incl. the
    ZeroDivisionError row) – so `weight_table` speaks about the code as written today -/
theorem weights_generated (s : CountingStrategy) (t : ReadAssignmentType) (k : Nat) :
    process_ambiguous s k = some (processAmbiguous s k) ∧ process_inconsistent s t k = processInconsistent s t k := by
  rcases k with _ | _ | k <;> cases s <;> cases t <;>
    simp [process_ambiguous, process_inconsistent, processAmbiguous, processInconsistent,
      CountingStrategy.ambiguous, CountingStrategy.inconsistent, CountingStrategy.inconsistent_minor,
      cs_ambiguous_list, cs_inconsistent_list, cs_inconsistent_minor_list, rat_zero_div_one, rat_one_div_one]

variable {F : Type} [DecidableEq F]

/-! ## 2. every table value is the sum of the documented weights of the records reported for the feature -/

/-- **table_is_sum** (exact values).  After any history of calls on a fresh counter, every row `(f, v)` of the
    dumped table satisfies: `v` is the sum over all calls of the documented contribution to `f` if some call
    confirmed `f`, and 0 otherwise. -/
theorem table_is_sum (s : CountingStrategy) (lvl : Level) (complete : List F) (es : List (Event F))
    (st : CState F) (h : run s lvl (CState.init complete) es = some st)
    (le : F → F → Bool) (oz : Bool) (f : F) (v : Rat) (hrow : (f, v) ∈ dumpRowsExact le oz st) :
    (∃ e ∈ es, confirmsFeature lvl e f) ∧ v = ratSum (es.map (fun e => contribution s lvl e f))
    ∨ (¬ ∃ e ∈ es, confirmsFeature lvl e f) ∧ v = 0 := by
  obtain ⟨_, hv, _⟩ := (dump_row le oz st f v).mp hrow
  have hc := run_confirmed s lvl es _ st h f
  have hs := run_counts s lvl es _ st h f
  simp only [CState.init, List.not_mem_nil, false_or] at hc
  simp only [CState.init, cget, Rat.zero_add] at hs
  by_cases hcf : f ∈ st.confirmed
  · left
    exact ⟨hc.mp hcf, by rw [hv, if_pos hcf, hs]⟩
  · right
    exact ⟨fun hex => hcf (hc.mpr hex), by rw [hv, if_neg hcf]⟩

/-- the printed table: the row is the `%.2f` rendering of that value -/
theorem table_is_sum_printed (s : CountingStrategy) (lvl : Level) (complete : List F) (es : List (Event F))
    (st : CState F) (h : run s lvl (CState.init complete) es = some st)
    (le : F → F → Bool) (oz : Bool) (f : F) (p : Int) (hrow : (f, p) ∈ (dump le oz st).rows) :
    (∃ e ∈ es, confirmsFeature lvl e f) ∧ p = hundredths (ratSum (es.map (fun e => contribution s lvl e f)))
    ∨ (¬ ∃ e ∈ es, confirmsFeature lvl e f) ∧ p = hundredths 0 := by
  simp only [dump, List.mem_map, Prod.mk.injEq] at hrow
  obtain ⟨⟨g, v⟩, hmem, rfl, rfl⟩ := hrow
  rcases table_is_sum s lvl complete es st h le oz g v hmem with ⟨hc, hv⟩ | ⟨hc, hv⟩
  · exact Or.inl ⟨hc, by rw [hv]⟩
  · exact Or.inr ⟨hc, by rw [hv]⟩

/-- no counted weight is lost: a confirmed feature with a non-zero contribution has a row -/
theorem table_complete (s : CountingStrategy) (lvl : Level) (complete : List F) (es : List (Event F))
    (st : CState F) (h : run s lvl (CState.init complete) es = some st)
    (le : F → F → Bool) (oz : Bool) (f : F)
    (hlisted : f ∈ complete ∨ ∃ e ∈ es, contribution s lvl e f ≠ 0) :
    let v := if f ∈ st.confirmed then cget st.counts f else 0
    (oz = true ∨ v ≠ 0) → (f, v) ∈ dumpRowsExact le oz st := by
  intro v hz
  have hl := run_listed s lvl es _ st h f (by simpa [CState.init] using hlisted)
  exact (dump_row le oz st f v).mpr ⟨hl, rfl, hz⟩

/-- **printed_close**: the printed count (hundredths) is within half a quantum of the exact value -/
theorem printed_close (q : Rat) :
    (hundredths q : Rat) / 100 - 1/200 ≤ q ∧ q ≤ (hundredths q : Rat) / 100 + 1/200 := by
  have := roundHalfEven_close (q * 100)
  unfold hundredths
  constructor <;> grind

/-! ## 3. no record contributes a total weight above 1 -/

/-- **record_total_le_one**: the documented contributions of one call (= one reported record), summed over any
    set of distinct features, never exceed 1.  (The read-level claim – over all records of one read – is false
    for multi-locus ties: see `read_total_witness` and known finding `multilocus_tie_weight`.) -/
theorem record_total_le_one (s : CountingStrategy) (lvl : Level) (e : Event F) (L : List F) (hL : L.Nodup) :
    ratSum (L.map (contribution s lvl e)) ≤ 1 := by
  have zero_case : ∀ g : F → Rat, (∀ f, g f = 0) → ratSum (L.map g) ≤ 1 := by
    intro g hg
    rw [ratSum_map_zero L g (fun x _ => hg x)]; decide +kernel
  cases e with
  | read ra =>
    cases ra with
    | none => exact zero_case _ (fun f => by simp [contribution])
    | some a =>
      by_cases hsk : skipped a = true
      · exact zero_case _ (fun f => by simp [contribution, hsk])
      · by_cases hu : (typeOf lvl a).is_unique = true
        · cases hh : (features lvl a).head? with
          | none => exact zero_case _ (fun f => by simp [contribution, hsk, hu, hh])
          | some g =>
            have : L.map (contribution s lvl (Event.read (some a))) = L.map (fun f => if g = f then (1 : Rat) else 0) := by
              apply List.map_congr_left
              intro f _
              simp [contribution, hsk, hu, hh]
            rw [this, indicator_sum L hL g]
            split <;> decide +kernel
        · have hu' : (typeOf lvl a).is_unique = false := by simpa using hu
          have hnd := features_nodup lvl a
          have : L.map (contribution s lvl (Event.read (some a)))
              = L.map (fun f => cnt (features lvl a) f * docWeight s (typeOf lvl a) (features lvl a).length) := by
            apply List.map_congr_left
            intro f _
            simp only [contribution, hsk, hu', cnt_of_nodup _ hnd, Bool.false_eq_true, if_false]
            split <;> simp [Rat.one_mul, Rat.zero_mul]
          rw [this]
          exact weighted_cnt_sum_le L hL _ _ (docWeight_nonneg _ _ _) (docWeight_mul_le_one s _ _ hu')
  | raw noId fs =>
    cases noId with
    | true => exact zero_case _ (fun f => by simp [contribution])
    | false =>
      have : L.map (contribution s lvl (Event.raw false fs))
          = L.map (fun f => cnt fs f * docWeight s .ambiguous fs.length) := by
        apply List.map_congr_left
        intro f _
        simp [contribution]
      rw [this]
      exact weighted_cnt_sum_le L hL _ _ (docWeight_nonneg _ _ _) (docWeight_mul_le_one s _ _ (by decide))
  | unassigned n => exact zero_case _ (fun f => by simp [contribution])
  | unaligned n => exact zero_case _ (fun f => by simp [contribution])
  | confirm fs => exact zero_case _ (fun f => by simp [contribution])

/-- the same on the counter itself: one successful call raises the total of the dictionary values of any set of
    distinct features by at most 1 -/
theorem step_total_le_one (s : CountingStrategy) (lvl : Level) (st st' : CState F) (e : Event F)
    (h : step s lvl st e = some st') (L : List F) (hL : L.Nodup) :
    ratSum (L.map (cget st'.counts)) ≤ ratSum (L.map (cget st.counts)) + 1 := by
  have : L.map (cget st'.counts) = L.map (fun f => cget st.counts f + contribution s lvl e f) := by
    apply List.map_congr_left
    intro f _
    exact step_counts s lvl st st' e h f
  rw [this, ratSum_map_add]
  have := record_total_le_one s lvl e L hL
  grind

/-- Full-strength read-level statement of the property ("no read contributes a total weight above 1 to any
    table"), over the records `recs` that the multimapper resolver retained for ONE read. -/
def ReadTotalLeOne (s : CountingStrategy) (lvl : Level) (recs : List (Assignment F)) (L : List F) : Prop :=
  ratSum (recs.map (fun a => ratSum (L.map (contribution s lvl (Event.read (some a)))))) ≤ 1

/-- the two records kept for a read whose secondaries match isoform 2 (gene 20) and isoform 3 (gene 30): the
    resolver re-flags both as `ambiguous` (prototypes/multimap_tie_probe.py; property C08) -/
def tieRecords : List (Assignment Nat) :=
  [ { atype := .ambiguous, gtype := .ambiguous, isoMatches := [⟨some 20, some 2⟩], nCorrectedExons := 3,
      isoformIntrons := [(2, 2)] },
    { atype := .ambiguous, gtype := .ambiguous, isoMatches := [⟨some 30, some 3⟩], nCorrectedExons := 3,
      isoformIntrons := [(3, 2)] } ]

/-- **read_total_witness**: the read-level statement is false of the model (and of the code: replayed by the
    oracle through the real pipeline): under `unique_only` the read of `tieRecords` weighs 2. -/
theorem read_total_witness :
    ¬ ReadTotalLeOne CountingStrategy.unique_only Level.transcript tieRecords [2, 3] := by
  unfold ReadTotalLeOne
  decide +kernel

/-- **read_total_partial**: the read-level statement under the exact hypothesis that excludes the failing class:
    at most one retained record for the read. -/
theorem read_total_partial (s : CountingStrategy) (lvl : Level) (recs : List (Assignment F)) (L : List F)
    (hL : L.Nodup) (hone : recs.length ≤ 1) : ReadTotalLeOne s lvl recs L := by
  unfold ReadTotalLeOne
  match recs, hone with
  | [], _ => simp; decide +kernel
  | [a], _ =>
    have := record_total_le_one s lvl (Event.read (some a)) L hL
    simpa [Rat.add_zero] using this

/-! ## 4. a feature supported by a uniquely assigned spliced read is never zeroed -/

/-- the statement's sufficient condition on one record `a` for feature `f` at the table's level: counted, typed
    unique, reported for `f`, and – transcript tables – the corrected alignment is spliced (more than one exon)
    or the isoform itself is mono-exonic; gene tables need no further condition -/
def SupportsUniquely (lvl : Level) (a : Assignment F) (f : F) : Prop :=
  skipped a = false ∧ (typeOf lvl a).is_unique = true ∧ (features lvl a).head? = some f ∧
  (lvl = Level.gene ∨ a.nCorrectedExons > 1 ∨
    ∃ m rest tid, a.isoMatches = m :: rest ∧ m.transcript = some tid ∧ lookupNat a.isoformIntrons tid = some 0)

theorem confirms_of_supports (lvl : Level) (a : Assignment F) (f : F) (h : SupportsUniquely lvl a f)
    (c : Bool) (hc : confirms lvl a = some c) : c = true := by
  obtain ⟨_, hu, _, hcond⟩ := h
  cases lvl with
  | gene =>
    simp only [confirms, Option.some.injEq] at hc
    simp only [typeOf] at hu
    rw [← hc, hu]
  | transcript =>
    simp only [typeOf] at hu
    simp only [confirms] at hc
    cases hm : a.isoMatches with
    | nil => simp [hm] at hc
    | cons m rest =>
      simp only [hm, hu, if_true] at hc
      cases ht : m.transcript with
      | none => simp [ht] at hc
      | some tid =>
        simp only [ht] at hc
        cases hl : lookupNat a.isoformIntrons tid with
        | none => simp [hl] at hc
        | some n =>
          simp only [hl, Option.some.injEq] at hc
          rcases hcond with hg | hn | ⟨m', rest', tid', hm', ht', hl'⟩
          · cases hg
          · rw [← hc]; simp [hn]
          · rw [hm] at hm'
            simp only [List.cons.injEq] at hm'
            obtain ⟨rfl, rfl⟩ := hm'
            rw [ht] at ht'
            simp only [Option.some.injEq] at ht'
            subst ht'
            rw [hl] at hl'
            simp only [Option.some.injEq] at hl'
            subst hl'
            rw [← hc]; simp

/-- **confirmed_not_zeroed**: if the history contains a record that supports `f` uniquely (spliced corrected
    alignment or mono-exonic isoform; any unique record for a gene table), then the dumped table has a row for `f`,
    its value is the full sum of the documented contributions (not zeroed), at least 1, printed `≥ 1.00`. -/
theorem confirmed_not_zeroed (s : CountingStrategy) (lvl : Level) (complete : List F) (es : List (Event F))
    (st : CState F) (h : run s lvl (CState.init complete) es = some st)
    (a : Assignment F) (ha : Event.read (some a) ∈ es) (f : F) (hsup : SupportsUniquely lvl a f)
    (le : F → F → Bool) (oz : Bool) :
    ∃ v, (f, v) ∈ dumpRowsExact le oz st ∧ v = ratSum (es.map (fun e => contribution s lvl e f)) ∧ 1 ≤ v ∧
      (f, hundredths v) ∈ (dump le oz st).rows ∧ 100 ≤ hundredths v := by
  have hsup' := hsup
  obtain ⟨hsk, hu, hhead, _⟩ := hsup
  -- the call ran, hence `confirms` returned a value, hence `true`
  obtain ⟨st1, st2, hstep⟩ := run_mem_step s lvl es _ st h _ ha
  obtain ⟨c, hc⟩ := step_unique_confirms s lvl st1 st2 a hstep hsk hu
  have hct : c = true := confirms_of_supports lvl a f hsup' c hc
  subst hct
  have hamb := (unique_not_other _ hu).1
  have hconf : f ∈ st.confirmed :=
    (run_confirmed s lvl es _ st h f).mpr (Or.inr ⟨_, ha, ⟨hsk, hamb, hu, hhead, hc⟩⟩)
  have hcon : contribution s lvl (Event.read (some a)) f = 1 := by
    simp [contribution, hsk, hu, hhead]
  have hsum := run_counts s lvl es _ st h f
  simp only [CState.init, cget, Rat.zero_add] at hsum
  have hge : (1 : Rat) ≤ ratSum (es.map (fun e => contribution s lvl e f)) := by
    have := le_ratSum_of_mem es (fun e => contribution s lvl e f)
      (fun e _ => contribution_nonneg s lvl e f) _ ha
    simp only [hcon] at this
    exact this
  have hne : (if f ∈ st.confirmed then cget st.counts f else 0) ≠ 0 := by
    rw [if_pos hconf, hsum]
    intro h0
    rw [h0] at hge
    exact absurd hge (by decide +kernel)
  have hrow := table_complete s lvl complete es st h le oz f
    (Or.inr ⟨_, ha, by rw [hcon]; decide +kernel⟩) (Or.inr hne)
  simp only [if_pos hconf, hsum] at hrow
  refine ⟨_, hrow, rfl, hge, ?_, hundredths_ge _ hge⟩
  simp only [dump, List.mem_map]
  exact ⟨_, hrow, rfl⟩

/-! ## 5. the statistics lines -/

/-- **stats_lines**: after any history on a fresh counter the four numbers written by `dump`
    (`__ambiguous`, `__no_feature`, `__not_aligned`, `__usable`) are the numbers of calls in the corresponding
    classes (`ambiguousClass` – type `ambiguous` at the table's level, not `inconsistent_ambiguous`;
    `noFeatureClass`; `notAlignedClass`; `usableClass`): records, one per retained alignment (DESIGN §6). -/
theorem stats_lines (s : CountingStrategy) (lvl : Level) (complete : List F) (es : List (Event F))
    (st : CState F) (h : run s lvl (CState.init complete) es = some st) (le : F → F → Bool) (oz : Bool) :
    (dump le oz st).ambiguous = natSum (es.map (ambiguousClass lvl)) ∧
    (dump le oz st).noFeature = natSum (es.map noFeatureClass) ∧
    (dump le oz st).notAligned = natSum (es.map notAlignedClass) ∧
    (dump le oz st).usable = natSum (es.map usableClass) := by
  have := run_stats s lvl es _ st h
  simpa [dump, CState.init] using this

omit [DecidableEq F] in
/-- every `add_read_info` call lands in exactly one of not-aligned / no-feature / usable -/
theorem read_accounted (a : Option (Assignment F)) :
    notAlignedClass (Event.read a) + noFeatureClass (Event.read a) + usableClass (Event.read a) = 1 := by
  cases a with
  | none => simp [notAlignedClass, noFeatureClass, usableClass]
  | some a => by_cases h : skipped a = true <;> simp [notAlignedClass, noFeatureClass, usableClass, h]

/-! ## non-vacuity: a concrete history meets the hypotheses and the statements compute -/

/-- gene 10 = {isoforms 1, 2 (2 introns each)}, gene 20 = {isoform 3 (mono-exonic)} -/
def demoIntrons : List (Nat × Nat) := [(1, 2), (2, 2), (3, 0)]
def uniqueSpliced : Assignment Nat :=
  { atype := .unique, gtype := .unique, isoMatches := [⟨some 10, some 1⟩], nCorrectedExons := 3,
    isoformIntrons := demoIntrons }
def ambiguousTwo : Assignment Nat :=
  { atype := .ambiguous, gtype := .unique, isoMatches := [⟨some 10, some 1⟩, ⟨some 10, some 2⟩],
    nCorrectedExons := 2, isoformIntrons := demoIntrons }
def inconsistentOne : Assignment Nat :=
  { atype := .inconsistent, gtype := .inconsistent, isoMatches := [⟨some 10, some 2⟩], nCorrectedExons := 2,
    isoformIntrons := demoIntrons }
def uniqueMonoUnspliced : Assignment Nat :=
  { atype := .unique_minor_difference, gtype := .unique_minor_difference, isoMatches := [⟨some 20, some 3⟩],
    nCorrectedExons := 1, isoformIntrons := demoIntrons }
def uniqueUnsplicedOfSpliced : Assignment Nat :=
  { atype := .unique, gtype := .unique, isoMatches := [⟨some 10, some 2⟩], nCorrectedExons := 1,
    isoformIntrons := demoIntrons }
def intergenicRec : Assignment Nat :=
  { atype := .intergenic, gtype := .intergenic, isoMatches := [], nCorrectedExons := 1, isoformIntrons := [] }
def demoEvents : List (Event Nat) :=
  [.read (some uniqueSpliced), .read (some ambiguousTwo), .read (some inconsistentOne),
   .read (some uniqueMonoUnspliced), .read (some uniqueUnsplicedOfSpliced), .read (some intergenicRec), .read none]
def natLe (a b : Nat) : Bool := decide (a ≤ b)

-- the history runs (hypothesis of table_is_sum / stats_lines / confirmed_not_zeroed); isoform 1 gets 1 + 1/2,
-- isoform 2 (unique but unspliced read of a spliced isoform: not confirmed) is zeroed, mono-exonic isoform 3 keeps 1
example : (run .with_ambiguous .transcript (CState.init [1, 2, 3, 4]) demoEvents).map
      (fun st => dumpRowsExact natLe true st) = some [(1, 3/2), (2, 0), (3, 1), (4, 0)] := by decide +kernel
example : (run .with_ambiguous .transcript (CState.init [1, 2, 3, 4]) demoEvents).map
      (fun st => (dump natLe true st).rows) = some [(1, 150), (2, 0), (3, 100), (4, 0)] := by decide +kernel
example : (run .with_ambiguous .transcript (CState.init [1, 2, 3, 4]) demoEvents).map
      (fun st => ((dump natLe true st).ambiguous, (dump natLe true st).noFeature, (dump natLe true st).notAligned,
                  (dump natLe true st).usable)) = some (1, 1, 1, 5) := by decide +kernel
-- the same history on the gene table under `all`: gene 10 = 1 + 1 (ambiguous within one gene is gene-unique)
-- + 1 (inconsistent) + 1, gene 20 = 1
example : (run .all .gene (CState.init [10, 20]) demoEvents).map
      (fun st => dumpRowsExact natLe true st) = some [(10, 4), (20, 1)] := by decide +kernel
-- right-hand side of table_is_sum on this history
example : ratSum (demoEvents.map (fun e => contribution .with_ambiguous .transcript e 1)) = 3/2 := by decide +kernel
example : confirmsFeature .transcript (Event.read (some uniqueSpliced)) 1 := by
  simp [confirmsFeature, skipped, firstTranscriptNone, uniqueSpliced, typeOf, features, dedup, Match.sel, confirms,
    demoIntrons, lookupNat, ReadAssignmentType.is_unique, rat_is_unique_list, ReadAssignmentType.is_unassigned,
    rat_is_unassigned_list]
-- hypotheses of confirmed_not_zeroed: spliced corrected alignment / mono-exonic isoform
example : SupportsUniquely .transcript uniqueSpliced 1 := by
  refine ⟨by decide, by decide, by decide, Or.inr (Or.inl (by decide))⟩
example : SupportsUniquely .transcript uniqueMonoUnspliced 3 := by
  refine ⟨by decide, by decide, by decide, Or.inr (Or.inr ⟨⟨some 20, some 3⟩, [], 3, rfl, rfl, by decide⟩)⟩
-- record_total_le_one is tight: the ambiguous record distributes exactly 1 when ambiguous reads are enabled
example : ratSum ([1, 2, 3].map (contribution .with_ambiguous .transcript (Event.read (some ambiguousTwo)))) = 1 := by
  decide +kernel
-- raisesRow is inhabited and the model raises there
example : raisesRow .all .inconsistent_ambiguous = true ∧ codeWeight .all .inconsistent_ambiguous 0 = none := by
  decide +kernel

end IsoVerif.Props.C02
