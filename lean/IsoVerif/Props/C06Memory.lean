/-
C06 — default vs `--high_memory`: the multimapper bookkeeping of `DatasetProcessor.collect_reads`
(`prepare_multimapper_dict` + `resolve_multimappers`) yields the same multimapper tables and the same totals.
Property theorems only; lemmas in IsoVerif/Lemmas/C06Memory.lean.
-/
import IsoVerif.Model.Schedule
import IsoVerif.Lemmas.C06Memory

namespace IsoVerif.Props.C06
open IsoVerif.Model.C06 IsoVerif.Lemmas.C06

/-- **memory_mode_equal** (bookkeeping part).  Keeping every `BasicReadAssignment` in memory and grouping all of
    them (`--high_memory`), or keeping read ids only, counting reads with one record directly and re-reading and
    grouping the others (default), gives the same resolved multimapper table (same order), the same number of
    assignments and the same number of polyA assignments — for every resolver and every list of records in which
    no record is `suspended` before resolution (only the resolver sets that type).
    The other half of the design's `memory_mode_equal` (both alignment storages return the same alignments) is C05. -/
theorem memory_mode_equal (resolve : List BRec → List BRec) (recs : List BRec)
    (h : ∀ x, x ∈ recs → x.suspended = false) :
    bookkeepingHigh resolve recs = bookkeepingLow resolve recs :=
  memory_mode_equal' resolve recs h

/-- non-vacuity: a multimapper with three records between two unique reads meets the hypothesis -/
example : ∀ x, x ∈ ([⟨"a", "c1", true, false, 1⟩, ⟨"m", "c1", false, false, 2⟩, ⟨"m", "c2", true, false, 3⟩,
    ⟨"b", "c2", false, false, 4⟩, ⟨"m", "c2", true, false, 5⟩] : List BRec) → x.suspended = false := by decide

/-- the hypothesis is needed: a single record that is already `suspended` is skipped by the in-memory path but
    counted by the default path -/
theorem memory_mode_presuspended_witness :
    bookkeepingHigh id [⟨"a", "c1", true, true, 0⟩] ≠ bookkeepingLow id [⟨"a", "c1", true, true, 0⟩] := by
  simp [bookkeepingHigh, bookkeepingLow, groupByRead_cons, groupByRead, resolveAll, keptCount, keptPolyA, countId]

end IsoVerif.Props.C06
