/-
C04 / C03 — `TranscriptToGeneJoiner`: after `join_transcripts` every novel transcript sits in a gene of its own strand.
Genes are merged only when `count_score` reaches 0.1, and `count_score` is 0.0 for genes of different strands; gene strands
never change.  The overlap score itself (`heur`) is universally quantified.
Property theorems only; helper lemmas: IsoVerif/Lemmas/GeneJoiner.lean.  Model: IsoVerif/Model/GeneJoiner.lean.
-/
import IsoVerif.Model.GeneJoiner
import IsoVerif.Lemmas.GeneJoiner

namespace IsoVerif.Props.C04Join
open IsoVerif.Gen IsoVerif.Model IsoVerif.Model.C04 IsoVerif.Lemmas.C04

/-- **count_score_strand_gate.** Whatever the overlap heuristic: `count_score` of two genes of different strands is `0.0`,
    which is below the merge cutoff `0.1`; so a score at or above the cutoff certifies equal strands. -/
theorem count_score_strand_gate (heur : ScoreFn) (j : Joiner) (a b : String) (s : Score)
    (h : j.countScore heur a b = some s) :
    (∀ s1 s2, amGet? j.strands a = some s1 → amGet? j.strands b = some s2 → s1 ≠ s2 → s = Score.zero) ∧
    Score.lt Score.zero scoreCutoff = true ∧
    (Score.lt s scoreCutoff = false → ∃ st, amGet? j.strands a = some st ∧ amGet? j.strands b = some st) := by
  refine ⟨?_, zero_lt_cutoff, countScore_strands h⟩
  intro s1 s2 h1 h2 hne
  unfold Joiner.countScore at h
  simp only [h1, h2] at h
  rw [if_pos hne] at h
  exact (Option.some.inj h).symm

/-- **joined_gene_strand.** For every overlap heuristic, every annotation and every storage with pairwise distinct
    transcript ids (`hid`, `href`: the interface to C17): if the constructor and `join_transcripts` run through, the
    returned storage is the input storage with new gene ids, and the gene every novel (non-`known`) model ends up in has, in
    the joiner's `gene_strands`, exactly the model's strand — whether the gene is its original one, an annotated gene it was
    merged into, or a novel gene that absorbed it. -/
theorem joined_gene_strand (heur : ScoreFn) (gs : List RefGene) (ts : List (String × String × List Iv))
    (storage : List TModel) (jn : Joiner) (ms : List TModel)
    (hid : ∀ m1 ∈ storage, ∀ m2 ∈ storage, m1.ttype ≠ .known → m2.ttype ≠ .known → m1.tid = m2.tid → m1.strand = m2.strand)
    (href : ∀ t ∈ ts, ∀ m ∈ storage, m.ttype ≠ .known → m.tid ≠ t.1)
    (h : joinTranscripts heur gs ts storage = some (jn, ms)) :
    ∀ m' ∈ ms, ∃ m ∈ storage, m' = { m with gene := m'.gene } ∧
      (m.ttype ≠ .known → amGet? jn.strands m'.gene = some m.strand) := by
  unfold joinTranscripts at h
  split at h
  · simp at h
  · rename_i j0 hj0
    have hinv0 := init_inv (storage := storage) hid href hj0
    unfold Joiner.join at h
    split at h
    · simp at h
    · rename_i j1 hj1
      split at h
      · simp at h
      · rename_i j2 hj2
        simp only [Option.map_eq_some_iff, Prod.mk.injEq] at h
        obtain ⟨ms', hms, rfl, rfl⟩ := h
        -- scores of a fresh joiner are empty; count_scores keeps the gene tables
        have hsc0 : ScoreInv j0.strands j0.scores := by
          rw [init_scores hj0]; intro p hp; cases hp
        obtain ⟨e1, e2, e3, _, hsc1⟩ := countScores_spec hsc0 hj1
        have hinv1 : StrandInv storage j1 := by
          intro p hp m hm hn hmt
          rw [e2] at hp
          have := hinv0 p hp m hm hn hmt
          rw [e1, e3]; exact this
        obtain ⟨hinv2, _⟩ := mergeLoop_inv _ hinv1 hsc1 hj2
        intro m' hm'
        obtain ⟨m, hm, hf⟩ := mapM_option_mem _ storage ms' hms m' hm'
        simp only [Option.map_eq_some_iff] at hf
        obtain ⟨g, hg, rfl⟩ := hf
        refine ⟨m, hm, rfl, ?_⟩
        intro hn
        obtain ⟨l, hl, hml⟩ := geneOf_mem hg
        exact (hinv2 (g, l) hl m hm hn hml).1

/-- **joined_uniform_strands.** Consequently two novel models that share a gene after `join_transcripts` have the same
    strand: the hypothesis `UniformStrands` of C03's `gene_strand_matches_partial` holds among the novel transcripts of every
    gene the joiner hands to the printer. -/
theorem joined_uniform_strands (heur : ScoreFn) (gs : List RefGene) (ts : List (String × String × List Iv))
    (storage : List TModel) (jn : Joiner) (ms : List TModel)
    (hid : ∀ m1 ∈ storage, ∀ m2 ∈ storage, m1.ttype ≠ .known → m2.ttype ≠ .known → m1.tid = m2.tid → m1.strand = m2.strand)
    (href : ∀ t ∈ ts, ∀ m ∈ storage, m.ttype ≠ .known → m.tid ≠ t.1)
    (h : joinTranscripts heur gs ts storage = some (jn, ms)) :
    ∀ a ∈ ms, ∀ b ∈ ms, a.ttype ≠ .known → b.ttype ≠ .known → a.gene = b.gene → a.strand = b.strand := by
  intro a ha b hb hna hnb hg
  obtain ⟨ma, _, ea, sa⟩ := joined_gene_strand heur gs ts storage jn ms hid href h a ha
  obtain ⟨mb, _, eb, sb⟩ := joined_gene_strand heur gs ts storage jn ms hid href h b hb
  have ta : ma.ttype = a.ttype := by rw [ea]
  have tb : mb.ttype = b.ttype := by rw [eb]
  have h1 := sa (by rw [ta]; exact hna)
  have h2 := sb (by rw [tb]; exact hnb)
  rw [hg, h2] at h1
  have sa' : a.strand = ma.strand := by rw [ea]
  have sb' : b.strand = mb.strand := by rw [eb]
  rw [sa', sb']
  exact (Option.some.inj h1).symm

/-- **gene_strands_never_change.** The merge loop only deletes entries of `gene_strands`: the strand a surviving gene has
    at the end is the strand `count_scores` found for it (for an annotated gene: the annotated strand). -/
theorem gene_strands_never_change (heur : ScoreFn) (fuel : Nat) (storage : List TModel) (j j' : Joiner)
    (hinv : StrandInv storage j) (hsc : ScoreInv j.strands j.scores) (h : Joiner.mergeLoop heur fuel j = some j') :
    ∀ g s, amGet? j'.strands g = some s → amGet? j.strands g = some s :=
  (mergeLoop_inv fuel hinv hsc h).2

/-- **merge_shortens_scores.** `merge_genes(g1, g2)` drops every score entry that mentions `g2`; the loop always merges
    the two genes of an existing entry, so `len(self.scores)` strictly decreases with every iteration. -/
theorem merge_shortens_scores (heur : ScoreFn) (j j' : Joiner) (g1 g2 : String) (h : j.mergeGenes heur g1 g2 = some j')
    (hp : ∃ p ∈ j.scores, p.1.1 = g2 ∨ p.1.2 = g2) : j'.scores.length < j.scores.length :=
  mergeGenes_scores h hp

/-- **merge_loop_terminates.** Hence the `while len(self.scores) > 1` loop ends after at most `len(scores)` iterations:
    the model's loop gives the same result for every amount of fuel above `len(scores)`; `join_transcripts` runs it with
    `len(scores) + 1`, so a `none` of the model is always an exception of the code, never exhausted fuel. -/
theorem merge_loop_terminates (heur : ScoreFn) (j : Joiner) (extra : Nat) :
    Joiner.mergeLoop heur (j.scores.length + 1 + extra) j = Joiner.mergeLoop heur (j.scores.length + 1) j :=
  mergeLoop_fuel heur _ _ j (by omega) (by omega)

/-! non-vacuity: an annotated `+` gene, a novel `+` gene overlapping it (merged into it) and a novel `-` gene on the same
    region (kept apart), with the code's own score formula -/

def exGenes : List RefGene := [⟨"G0", .plus, some (100, 1000)⟩]
def exRefTx : List (String × String × List Iv) := [("G0.T0", "G0", [(200, 300), (400, 500)])]
def exStorage : List TModel :=
  [⟨"chr1", .plus, "transcript1.chr1.nnic", "novel_gene_chr1_2", [(100, 199), (301, 399), (501, 900)], .novel_not_in_catalog, []⟩,
   ⟨"chr1", .minus, "transcript3.chr1.nnic", "novel_gene_chr1_4", [(100, 199), (301, 399), (501, 900)], .novel_not_in_catalog, []⟩,
   ⟨"chr1", .plus, "G0.T0", "G0", [(100, 199), (301, 399), (501, 1000)], .known, []⟩]

example : (joinTranscripts countScoreExact exGenes exRefTx exStorage).map
      (fun r => (r.2.map (fun m => (m.tid, m.gene)), r.1.strands))
    = some ([("transcript1.chr1.nnic", "G0"), ("transcript3.chr1.nnic", "novel_gene_chr1_4"), ("G0.T0", "G0")],
            [("G0", .plus), ("novel_gene_chr1_4", .minus)]) := by decide +kernel

example : (∀ m1 ∈ exStorage, ∀ m2 ∈ exStorage, m1.ttype ≠ .known → m2.ttype ≠ .known → m1.tid = m2.tid → m1.strand = m2.strand) ∧
    (∀ t ∈ exRefTx, ∀ m ∈ exStorage, m.ttype ≠ .known → m.tid ≠ t.1) := by decide

end IsoVerif.Props.C04Join
