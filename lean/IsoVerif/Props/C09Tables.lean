/-
C09 — `--read_group file:...`: `load_table` (src/read_groups.py) keeps, for every read id, the group of the *last*
valid row; `create_read_grouper` dispatches on the documented option keywords.
-/
import IsoVerif.Model.C09
import IsoVerif.Lemmas.C09
import IsoVerif.Lemmas.C09Split

namespace IsoVerif.Props.C09Tables
open IsoVerif.Gen IsoVerif.Model.C09 IsoVerif.Lemmas.C09 IsoVerif.Lemmas.C09Split

/-- **table entry of a read**: with a non-empty column delimiter `load_table` succeeds and maps every read id to the
    group of the *last* valid row that names it (`none` = the read has no row: it will be grouped under NA) -/
theorem loadTable_last_row_wins (rc gc : Nat) (delim : List Char) (hd : delim ≠ []) (lines : List (List Char)) :
    ∃ m, loadTable rc gc delim lines [] = .ok m ∧
      ∀ r, m.lookup r = ((lines.filterMap (rowEntry rc gc delim)).reverse).lookup r := by
  suffices h : ∀ m0, ∃ m, loadTable rc gc delim lines m0 = .ok m ∧
      ∀ r, m.lookup r = match ((lines.filterMap (rowEntry rc gc delim)).reverse).lookup r with
        | some g => some g
        | none => m0.lookup r by
    obtain ⟨m, hm, hl⟩ := h []
    refine ⟨m, hm, ?_⟩
    intro r
    rw [hl r]
    cases ((lines.filterMap (rowEntry rc gc delim)).reverse).lookup r <;> simp
  induction lines with
  | nil => intro m0; exact ⟨m0, rfl, by intro r; simp⟩
  | cons l ls ih =>
    intro m0
    simp only [loadTable, loadLine_eq rc gc delim hd m0 l]
    cases he : rowEntry rc gc delim l with
    | none =>
      obtain ⟨m, hm, hl⟩ := ih m0
      exact ⟨m, hm, by intro r; rw [hl r]; simp [List.filterMap_cons, he]⟩
    | some e =>
      obtain ⟨m, hm, hl⟩ := ih (dictSet m0 e.1 e.2)
      refine ⟨m, hm, ?_⟩
      intro r
      rw [hl r, lookup_dictSet]
      simp only [List.filterMap_cons, he, List.reverse_cons]
      have happ : ∀ (xs : List (String × String)), (xs ++ [e]).lookup r =
          match xs.lookup r with
          | some g => some g
          | none => if r = e.1 then some e.2 else none := by
        intro xs
        induction xs with
        | nil =>
          obtain ⟨e1, e2⟩ := e
          by_cases h : r = e1
          · subst h; simp [List.lookup]
          · have : (r == e1) = false := by simp [h]
            simp [List.lookup, this, h]
        | cons p t iht =>
          obtain ⟨k0, v0⟩ := p
          by_cases h : r = k0
          · subst h; simp [List.lookup]
          · have : (r == k0) = false := by simp [h]
            simp only [List.cons_append, List.lookup, this]
            exact iht
      rw [happ]
      cases ((ls.filterMap (rowEntry rc gc delim)).reverse).lookup r with
      | some g => rfl
      | none => simp only; split <;> simp_all

/-- **per-chromosome table = whole table, pinned tree** (`split_read_group_table` + `ReadTableGrouper(file_chr, 0, 1, '\\t')`
    = the user-table parser applied to the internal file): the file written for chromosome `chr` is re-read without error
    and gives, for every read that has an alignment on `chr`, the entry of the whole table — provided the read ids and groups
    of the table are *clean* (non-empty, no tab, no white space at the outer ends, read id not starting with `#`).  The
    repaired code reads the file with `load_split_table`: `C09Files.table_roundtrip` has no such side condition;
    `C09Files.table_roundtrip_orig_witness` shows what this reader did to unclean fields. -/
theorem table_roundtrip_orig_partial (m : List (String × String)) (chr : String) (alns : List (String × Option String))
    (hclean : ∀ rid c g, (rid, c) ∈ alns → m.lookup rid = some g → CleanRead rid ∧ CleanField g) :
    ∃ m', loadTable 0 1 ['\t'] (splitTableLines m chr alns []) [] = .ok m' ∧
      ∀ rid, (rid, some chr) ∈ alns → m'.lookup rid = m.lookup rid := by
  obtain ⟨m', hm', hl⟩ := loadTable_last_row_wins 0 1 ['\t'] (by simp) (splitTableLines m chr alns [])
  refine ⟨m', hm', ?_⟩
  intro rid hrid
  rw [hl rid, splitTable_entries m chr alns [] hclean]
  have hnd : (((splitEntries m chr alns []).reverse).map Prod.fst).Nodup := by
    rw [List.map_reverse]; exact (List.reverse_perm _).nodup_iff.mpr (splitEntries_keys_nodup m chr alns [])
  cases hg : m.lookup rid with
  | some g =>
    apply (lookup_iff_mem_of_nodup _ hnd rid g).mpr
    rw [List.mem_reverse]
    exact (mem_splitEntries m chr alns [] rid g).mpr ⟨by simp, hrid, hg⟩
  | none =>
    cases hx : ((splitEntries m chr alns []).reverse).lookup rid with
    | none => rfl
    | some g' =>
      have := (lookup_iff_mem_of_nodup _ hnd rid g').mp hx
      rw [List.mem_reverse] at this
      have := ((mem_splitEntries m chr alns [] rid g').mp this).2.2
      rw [hg] at this; cases this

/-! ### `create_read_grouper` -/

/-- the documented option keywords select the documented grouper -/
theorem parseReadGroup_spec :
    parseReadGroup none = .ok .default ∧
    parseReadGroup (some "file_name") = .ok .fileName ∧
    parseReadGroup (some "tag") = .ok (.tag rg_default_tag) ∧
    parseReadGroup (some "tag:CB") = .ok (.tag "CB") ∧
    parseReadGroup (some "read_id:_") = .ok (.readId "_") ∧
    parseReadGroup (some "file:table.tsv") = .ok .tableFile ∧
    rg_modes = ["file_name", "tag", "read_id", "file"] ∧ rg_default_group_id = "NA" := by
  decide +kernel

-- non-vacuity of `table_roundtrip_orig_partial`: a clean table entry exists and the round trip is computed on a concrete input
example : CleanRead "r1" ∧ CleanField "cell A" := by
  refine ⟨⟨⟨by decide, by decide, ?_, ?_⟩, by decide⟩, ⟨by decide, by decide, ?_, ?_⟩⟩ <;>
    (intro c hc; simp at hc; subst hc; decide)
example : loadTable 0 1 ['\t'] (splitTableLines [("r1", "cell A"), ("r2", "g2"), ("r3", "g3")] "chr1"
    [("r2", some "chr2"), ("r1", some "chr1"), ("r3", some "chr1"), ("r1", some "chr1"), ("x", none)] []) [] =
    .ok [("r1", "cell A"), ("r3", "g3")] := by decide +kernel

-- non-vacuity of `loadTable_last_row_wins`: comment, short row, padded row and a duplicate read id
example : loadTable 0 1 ['\t'] ["# c".toList, "r1\tg1\tx".toList, " r2\tg2 ".toList, "bad".toList, "r1\tg3".toList] [] =
    .ok [("r1", "g3"), ("r2", "g2")] := by decide +kernel

end IsoVerif.Props.C09Tables
