/-
C10 — experiments processed in one invocation are independent of each other.

Property theorems only.  The model is `IsoVerif/Model/Samples.lean`; the reset / derivation sites of the
source enter through `wiringOfSource`, which is computed from tables that `harness/translate.py`
regenerates from /repo on every run (`Gen/SharedState.lean`, `Gen/SampleState.lean`).
-/
import IsoVerif.Model.Samples
import IsoVerif.Lemmas.Samples

namespace IsoVerif.Props.C10
open IsoVerif.Gen IsoVerif.Model.C10 IsoVerif.Lemmas.C10

/-! ### 1. The generated inventories are covered, item by item -/

/-- why a piece of class-level / module-level state cannot carry information from one sample into the
    outputs of the next -/
inductive Handling where
  | resetPerTask     -- cleared at the top of every chromosome task (lemma `detected_component`)
  | idOnly           -- a running number that never reaches an output (lemma `id_counters_component`)
  | logOnly          -- every read is the test of an `if` that guards logger calls only (generated `counter_reads`;
                     -- lemma `duplicate_counter_component`)
  | notInPipeline    -- lives in a module that isoquant.py does not import
  deriving DecidableEq, Repr

def inPipeline (item : String) : Bool :=
  match shared_state_item_files.lookup item with
  | some file => pipeline_modules.contains file
  | none => true

def handlingOf (item : String) : Option Handling :=
  if !inPipeline item then some .notInPipeline
  else if item == "GraphBasedModelConstructor.detected_known_isoforms" then some .resetPerTask
  else if item == "GraphBasedModelConstructor.reported_novel_chains" then some .resetPerTask   -- fix b2b4dd9 (C04)
  else if item == "ReadAssignment.assignment_id_generator" then some .idOnly
  else if item == "FeatureInfo.feature_id_counter" then some .idOnly
  else if item == "MultimapResolver.duplicate_counter" then some .logOnly
  else none

/-- the static side condition each handling needs, read off generated tables -/
def justified (item : String) : Bool :=
  match handlingOf item with
  | some .resetPerTask => (tableGet "construct_models_in_parallel" chr_task_resets).contains item
  | some .logOnly =>
    -- a numeric counter, and every read of it is the test of an `if` that guards logger calls only
    numeric_counters.contains item
      && (counter_reads.filter (fun r => r.1 == item)).all (fun r => r.2.2 == "log")
  | some _ => true
  | none => false

/-- every item of the regenerated shared-state inventory has a handling whose side condition holds:
    a new class-level / module-level mutable re-opens this obligation -/
theorem inventory_handled : ∀ item ∈ shared_state_inventory, justified item = true := by decide

/-- how an `args` field assigned outside isoquant.py is kept from leaking -/
inductive ArgsHandling where
  | freshPerSample   -- assigned by process_sample from constants, preset copies and fields assigned earlier in the same call
  | oncePerProcess   -- assigned only in DatasetProcessor.__init__
  | mappingStage     -- assigned only while FASTQ input is mapped (before any sample is processed)
  | notInPipeline    -- assigned only in a module that isoquant.py does not import
  deriving DecidableEq, Repr

/-- `args.<f> = rhs` of process_sample reads only: args fields nobody assigns (constants), args fields assigned
    earlier in the same call, and preset copies that are never assigned after `__init__`; never `args.<f>` itself -/
def freshIn (earlier : List String) (f : String) (deps : List (String × String)) : Bool :=
  deps.all (fun d =>
    if d.1 == "args" then
      d.2 != f && (earlier.contains d.2 || !args_fields_mutated.contains d.2)
    else if d.1 == "self" then
      processor_preset_copies.any (fun p => p.1 == d.2) && !processor_fields_mutated.contains d.2
    else false)

def freshAll : List String → List (String × List (String × String)) → Bool
  | _, [] => true
  | earlier, (f, deps) :: rest => freshIn earlier f deps && freshAll (f :: earlier) rest

def argsHandlingOf (f : String) : Option ArgsHandling :=
  let sites := tableGet f args_assign_sites
  if sites.isEmpty then none
  else if sites.all (· == ("src/dataset_processor.py", "DatasetProcessor.process_sample")) then
    (if process_sample_args_assignments.any (fun p => p.1 == f) then some .freshPerSample else none)
  else if sites.all (· == ("src/dataset_processor.py", "DatasetProcessor.__init__")) then some .oncePerProcess
  else if sites.all (· == ("src/read_mapper.py", "align_fasta")) then some .mappingStage
  else if sites.all (fun s => !pipeline_modules.contains s.1) then some .notInPipeline
  else none

/-- every mutated `args` field is classified, and the per-sample ones are recomputed from scratch -/
theorem args_fields_handled :
    (∀ f ∈ args_fields_mutated, (argsHandlingOf f).isSome = true) ∧
    freshAll [] process_sample_args_assignments = true := by decide

/-- every `DatasetProcessor` field that is mutated after `__init__` is re-initialised by `process_sample`
    before it calls any other method -/
theorem processor_fields_handled :
    ∀ f ∈ processor_fields_mutated, f ∈ processor_fields_reset_per_sample := by decide

/-- objects created once as default argument values are shared by every call of their function for the life
    of the process; the ones present today are stateless (`PrintAllFunctor`, a `partial` of a pure function) or
    never used because the only call site passes the argument (`DefaultReadGrouper()`); a new one re-opens this -/
def statelessDefaults : List String := ["DefaultReadGrouper()", "PrintAllFunctor()", "partial(equal_ranges, delta=0)"]

theorem default_arguments_handled :
    ∀ d ∈ default_argument_objects, statelessDefaults.contains d.2.2 = true := by decide

/-- the reset / derivation sites found in the current source are those of the fixed tree -/
theorem wiring_of_source_fixed : wiringOfSource = wiringFixed := by decide

/-! ### 2. Per-component lemmas: no component of the long-lived state reaches the outputs of a sample -/

/-- `detected_known_isoforms`: with the per-task reset a chromosome task ignores the set it inherits -/
theorem detected_component (w : Wiring) (h : w.resetDetectedPerTask = true) (cfg : Config) (fl : Flags)
    (d d' : List String) (c : ChrData) :
    chrTask w cfg fl d c = chrTask w cfg fl d' c := by
  simp [chrTask, h]

/-- … hence neither the process a task runs in, nor the tasks that process ran before, nor the
    task → worker assignment matter: a pool returns what isolated tasks return -/
theorem pool_schedule_independent (w : Wiring) (h : w.resetDetectedPerTask = true) (cfg : Config) (fl : Flags)
    (d0 : List String) (ws : List (Nat × List String)) (assign : List Nat) (cs : List ChrData) :
    runPool w cfg fl d0 ws assign cs = cs.map (fun c => (chrTask w cfg fl [] c).1) :=
  runPool_eq_map w h cfg fl d0 ws assign cs

theorem seq_state_independent (w : Wiring) (h : w.resetDetectedPerTask = true) (cfg : Config) (fl : Flags)
    (d : List String) (cs : List ChrData) :
    (runSeq w cfg fl d cs).1 = cs.map (fun c => (chrTask w cfg fl [] c).1) :=
  runSeq_eq_map w h cfg fl d cs

/-- the polyA flags: derived from the preset, whatever the previous sample left in `args` -/
theorem flags_component (w : Wiring) (hi : w.monoIntronicFromPreset = true) (he : w.monoExonicFromPreset = true)
    (cfg : Config) (p p' : Flags) (s : Sample) :
    deriveFlags w cfg p s = deriveFlags w cfg p' s := by
  simp [deriveFlags, hi, he]

/-- `assignment_id_generator`, `feature_id_counter`: the counters are written, never read, by a sample -/
theorem id_counters_component (w : Wiring) (cfg : Config) (σ : ProcState) (a f : Nat) (e : Exec) (s : Sample) :
    (processSample w cfg { σ with assignmentId := a, featureId := f } e s).1 = (processSample w cfg σ e s).1 := by
  cases e <;> simp [processSample]

/-- … and where their *values* are compared (resolver entries looked up by assignment id when a chromosome is
    loaded again) the result does not depend on the number the chromosome's ids start from – i.e. on what the
    collecting process did before – nor on entries of other chromosomes that carry the same numbers (two pool
    workers count independently) -/
theorem assignment_ids_component (c : String) (base base' : Nat) (recs : List Rec) (foreign foreign' : List Entry)
    (hf : ∀ e ∈ foreign, e.chr ≠ c) (hf' : ∀ e ∈ foreign', e.chr ≠ c) :
    loadChr c base recs foreign = loadChr c base' recs foreign' := by
  rw [loadChr_base_zero c base recs foreign hf, loadChr_base_zero c base' recs foreign' hf']

/-- non-vacuity: a multimapped read with two alignments on the chromosome, an unrelated read, a foreign entry
    with a colliding number -/
example : loadChr "chr1" 41 [⟨"r1", true, 7⟩, ⟨"r2", false, 0⟩, ⟨"r1", true, 9⟩] [⟨"r1", 41, "chr2", 5⟩]
    = [.resolved 7, .untouched, .resolved 9] := by decide

/-- without the chromosome test a colliding foreign entry would win (last match): the `chr_id` comparison in
    `ReadAssignmentLoader.get_next` is what makes independently counting workers safe -/
example : lookupLast "chr2" [⟨"r1", 41, "chr1", 7⟩, ⟨"r1", 41, "chr2", 5⟩] "r1" 41 = some 5 := by decide

/-- `duplicate_counter` -/
theorem duplicate_counter_component (w : Wiring) (cfg : Config) (σ : ProcState) (n : Nat) (e : Exec) (s : Sample) :
    (processSample w cfg { σ with duplicates := n } e s).1 = (processSample w cfg σ e s).1 := by
  cases e <;> simp [processSample]

/-- `all_read_groups`: overwritten before use -/
theorem read_groups_component (w : Wiring) (cfg : Config) (σ : ProcState) (g : List String) (e : Exec) (s : Sample) :
    (processSample w cfg { σ with readGroups := g } e s).1 = (processSample w cfg σ e s).1 := by
  cases e <;> simp [processSample]

/-- `alignment_stat_counter`: with the per-sample reset the inherited statistics are not read -/
theorem alignment_stats_component (w : Wiring) (h : w.statsResetPerSample = true) (cfg : Config) (σ : ProcState)
    (u a : Nat) (e : Exec) (s : Sample) :
    (processSample w cfg { σ with unaligned := u, aligned := a } e s).1 = (processSample w cfg σ e s).1 := by
  cases e <;> simp [processSample, h]

/-! ### 3. Independence of samples -/

/-- the outputs of sample `s` processed alone by a fresh single-threaded process -/
def standalone (w : Wiring) (cfg : Config) (s : Sample) : Outputs :=
  (processSample w cfg (initState cfg) .single s).1

/-- core statement, for the wiring of the fixed tree: the outputs of a sample do not depend on the process
    state it meets, nor on how its tasks are executed (threads, worker assignment) -/
theorem sample_independent_of_state (w : Wiring) (hw : w = wiringFixed) (cfg : Config) (σ σ' : ProcState)
    (e e' : Exec) (s : Sample) :
    (processSample w cfg σ e s).1 = (processSample w cfg σ' e' s).1 := by
  have h1 : w.resetDetectedPerTask = true := by rw [hw]; rfl
  have h2 : w.monoIntronicFromPreset = true := by rw [hw]; rfl
  have h2' : w.monoExonicFromPreset = true := by rw [hw]; rfl
  have h3 : w.statsResetPerSample = true := by rw [hw]; rfl
  have hf := flags_component w h2 h2' cfg σ.flags σ'.flags s
  cases e <;> cases e' <;>
    simp [processSample, h3, hf, runSeq_eq_map w h1, runPool_eq_map w h1]

/-- **sample_independent** (full strength): for every configuration, every history of experiments processed
    before (any data, any order, any mix of `--threads 1` / pool executions with any task → worker assignment)
    and every way of executing `s` itself, the outputs of `s` are those of `s` processed alone.
    The statement is about the wiring read off the *current* source. -/
theorem sample_independent (cfg : Config) (hist : List (Exec × Sample)) (e : Exec) (s : Sample) :
    (processSample wiringOfSource cfg (runHistory wiringOfSource cfg (initState cfg) hist).2 e s).1
      = standalone wiringOfSource cfg s :=
  sample_independent_of_state _ wiring_of_source_fixed cfg _ _ e .single s

/-- the whole invocation: the list of per-experiment outputs is the list of stand-alone outputs, in file order
    – so every order of the experiments gives every experiment the same files -/
theorem history_outputs (cfg : Config) (σ : ProcState) (hist : List (Exec × Sample)) :
    (runHistory wiringOfSource cfg σ hist).1 = hist.map (fun p => standalone wiringOfSource cfg p.2) := by
  induction hist generalizing σ with
  | nil => rfl
  | cons p rest ih =>
    obtain ⟨e, s⟩ := p
    simp only [runHistory, List.map_cons, ih]
    congr 1
    exact sample_independent_of_state _ wiring_of_source_fixed cfg _ _ e .single s

/-- reordering the experiments permutes the outputs accordingly -/
theorem order_independent (cfg : Config) (h₁ h₂ : List (Exec × Sample)) (hp : (h₁.map Prod.snd).Perm (h₂.map Prod.snd)) :
    ((runHistory wiringOfSource cfg (initState cfg) h₁).1).Perm ((runHistory wiringOfSource cfg (initState cfg) h₂).1) := by
  rw [history_outputs, history_outputs]
  have e1 : h₁.map (fun p => standalone wiringOfSource cfg p.2) = (h₁.map Prod.snd).map (standalone wiringOfSource cfg) := by
    simp [List.map_map, Function.comp_def]
  have e2 : h₂.map (fun p => standalone wiringOfSource cfg p.2) = (h₂.map Prod.snd).map (standalone wiringOfSource cfg) := by
    simp [List.map_map, Function.comp_def]
  rw [e1, e2]
  exact hp.map _

/-! non-vacuity: a sample whose outputs are not trivial (transcripts reported, flags raised, unaligned reads) -/

def cfgPacbio : Config := ⟨false, true, 1, 2, false, .auto, false, false⟩
def cfgSensitive : Config := ⟨false, false, 1, 2, false, .auto, false, false⟩

def geneA : GeneData :=
  { fl := [⟨some "T1", false, 3, "n0", false, true, true, true, 1⟩, ⟨none, false, 4, "novel2x", true, false, true, true, 1⟩],
    mono := [⟨"TM", 2, true, 0⟩],
    nonfl := [⟨"T2", 2, true, false, 1, 0, 1, 0⟩] }

/-- polyA-rich experiment -/
def sampleA : Sample := ⟨"A", 1, 3, 10, 9, [], 0, [⟨"chr1", 10, 4, 12, [geneA]⟩]⟩
/-- experiment without polyA tails -/
def sampleN : Sample := ⟨"N", 1, 5, 10, 0, [], 0, [⟨"chr1", 10, 4, 12, [geneA]⟩]⟩

example : standalone wiringFixed cfgSensitive sampleN =
    { flags := ⟨false, false, false, false⟩, notAligned := 5,
      transcripts := [[["T1", "novel2x", "TM", "T2"]]], readGroups := [], groupedTables := false } := by decide

example : (standalone wiringFixed cfgSensitive sampleA).flags = ⟨true, true, true, false⟩ := by decide

/-! ### 4. The pinned tree: each of the three channels is a counterexample (`wiringPinned`) -/

/-- class-level `detected_known_isoforms`: the same experiment processed a second time by the same process
    (`--threads 1`) reports no known transcript any more -/
theorem detected_leak_witness :
    (processSample wiringPinned cfgSensitive
        (processSample wiringPinned cfgSensitive (initState cfgSensitive) .single sampleN).2 .single sampleN).1.transcripts
      = [[["novel2x"]]]
    ∧ (standalone wiringPinned cfgSensitive sampleN).transcripts = [[["T1", "novel2x", "TM", "T2"]]] := by decide

/-- sticky `require_mono*_polya`: after a polyA-rich experiment the tail-less one loses its 2-exon novel
    transcript and its mono-exon isoform – with `--threads 1` and with a pool alike -/
theorem sticky_polya_flags_witness :
    (processSample wiringPinned cfgSensitive
        (processSample wiringPinned cfgSensitive (initState cfgSensitive) (.pool [0]) sampleA).2 (.pool [0]) sampleN).1.transcripts
      = [[["T1", "T2"]]]
    ∧ (processSample wiringPinned cfgSensitive (initState cfgSensitive) (.pool [0]) sampleN).1.transcripts
      = [[["T1", "novel2x", "TM", "T2"]]] := by decide

/-- accumulated alignment statistics: `__not_aligned` of the second experiment counts the first one's reads too -/
theorem unaligned_accumulates_witness :
    (processSample wiringPinned cfgSensitive
        (processSample wiringPinned cfgSensitive (initState cfgSensitive) (.pool [0]) sampleA).2 (.pool [0]) sampleN).1.notAligned = 8
    ∧ (standalone wiringPinned cfgSensitive sampleN).notAligned = 5 := by decide

/-- the order of two experiments matters on the pinned tree -/
theorem order_dependence_witness :
    (runHistory wiringPinned cfgSensitive (initState cfgSensitive) [(.single, sampleA), (.single, sampleN)]).1
      ≠ ((runHistory wiringPinned cfgSensitive (initState cfgSensitive) [(.single, sampleN), (.single, sampleA)]).1).reverse := by
  decide

/-! ### 5. The command-line level: the configuration is derived from *all* experiments -/

/-- full-strength statement at the command-line level (false: see the witness) -/
def InvocationIndependent : Prop :=
  ∀ (base : Config) (rg : ReadGroupOpt) (hist : List (Exec × Sample)) (i : Nat) (p : Exec × Sample) (e' : Exec),
    hist[i]? = some p →
    (runInvocation wiringOfSource base rg hist)[i]? = (runInvocation wiringOfSource base rg [(e', p.2)])[0]?

def sampleTwoFiles : Sample := { sampleA with name := "R", files := 2 }

/-- without `--read_group`, one experiment with two files switches `read_group = file_name` on for every
    experiment of the invocation: the single-file experiment gets grouped tables it would not get alone -/
theorem invocation_independent_witness : ¬ InvocationIndependent := by
  intro h
  have := h cfgSensitive .unset [(.single, sampleTwoFiles), (.single, sampleN)] 1 (.single, sampleN) .single rfl
  revert this
  decide

theorem runInvocation_eq (base : Config) (rg : ReadGroupOpt) (hist : List (Exec × Sample)) :
    runInvocation wiringOfSource base rg hist
      = hist.map (fun p => standalone wiringOfSource
          (base.withReadGroup (effectiveReadGroup rg (hist.map Prod.snd))) p.2) := by
  simp [runInvocation, history_outputs]

/-- … and that is the only dependence: whenever the read grouping the invocation settles on is the one the
    experiment would get alone (a `--read_group` option is given, or the experiment has several files itself, or
    no experiment has), its outputs are those of the stand-alone run -/
theorem invocation_independent_partial (base : Config) (rg : ReadGroupOpt) (hist : List (Exec × Sample)) (i : Nat)
    (p : Exec × Sample) (e' : Exec) (hi : hist[i]? = some p)
    (hrg : effectiveReadGroup rg (hist.map Prod.snd) = effectiveReadGroup rg [p.2]) :
    (runInvocation wiringOfSource base rg hist)[i]? = (runInvocation wiringOfSource base rg [(e', p.2)])[0]? := by
  rw [runInvocation_eq, runInvocation_eq]
  simp [List.getElem?_map, hi, hrg]

/-- the hypothesis is decidable and met in the three documented situations -/
theorem read_group_stable_cases (rg : ReadGroupOpt) (samples : List Sample) (s : Sample) :
    (rg ≠ .unset ∨ s.files > 1 ∧ s ∈ samples ∨ hasReplicas samples = false ∧ s.files ≤ 1) →
    effectiveReadGroup rg samples = effectiveReadGroup rg [s] := by
  rintro (h | ⟨h1, h2⟩ | ⟨h1, h2⟩)
  · cases rg <;> simp_all [effectiveReadGroup]
  · have hr : hasReplicas samples = true := by
      simp only [hasReplicas, List.any_eq_true]; exact ⟨s, h2, by simpa using h1⟩
    have hs : hasReplicas [s] = true := by simp [hasReplicas]; omega
    cases rg <;> simp [effectiveReadGroup, hr, hs]
  · have hs : hasReplicas [s] = false := by simp [hasReplicas]; omega
    cases rg <;> simp [effectiveReadGroup, h1, hs]

example : effectiveReadGroup .unset [sampleA, sampleN] = effectiveReadGroup .unset [sampleN] := by decide

/-! ### 5b. Parsing the experiment description: every experiment gets the fields of its own entry -/

/-- **parsed_sample_depends_on_own_entry** (YAML): when the experiments carry explicit, pairwise distinct names
    (reading rule c), `get_samples_from_yaml` returns – for *every* list of entries, with or without the optional
    keys, in every order – exactly the concatenation of what each entry yields by itself (`parseOwnYaml e n` is a
    function of that one entry), and fails iff some entry fails by itself.  None of the loop locals
    (`experiment_names`, `current_index`, `readable_names_dict`, the per-entry lists) carries anything over. -/
theorem parsed_sample_depends_on_own_entry (pfx : String) (entries : List YamlEntry) (ns : List String)
    (hnames : entries.map YamlEntry.name = ns.map some) (hnd : ns.Nodup) :
    parseYaml pfx entries = parseEachOwn (entries.zip ns) := by
  have h := yamlLoop_own renameRuleOfSource.yaml pfx entries ns ParseSt.init [] []
    ⟨rfl, by simp [ParseSt.init], by simp [ParseSt.init, hasKey], by simp [ParseSt.init]⟩ hnames hnd (by simp)
  unfold parseYaml parseYamlR
  rw [h]
  cases parseEachOwn (entries.zip ns) <;> simp

/-- … in the form of the property: the joint description parses to the concatenation of the stand-alone
    (one-entry) descriptions, whatever the prefix of either invocation -/
theorem parse_joint_eq_standalone (pfx pfx' : String) (entries : List YamlEntry) (ns : List String)
    (hnames : entries.map YamlEntry.name = ns.map some) (hnd : ns.Nodup) :
    parseYaml pfx entries = parseEachOwn (entries.zip ns)
    ∧ ∀ (e : YamlEntry) (n : String), (e, n) ∈ entries.zip ns → e.name = some n →
        parseYaml pfx' [e] = (parseOwnYaml e n).map Option.toList := by
  refine ⟨parsed_sample_depends_on_own_entry pfx entries ns hnames hnd, ?_⟩
  intro e n _ hn
  have := parsed_sample_depends_on_own_entry pfx' [e] [n] (by simp [hn]) (by simp)
  rw [this]
  simp only [List.zip_cons_cons, List.zip_nil_right, parseEachOwn]
  cases parseOwnYaml e n <;> simp

/-- the short-read BAMs of a parsed experiment are those of the entry with its name -/
theorem parsed_illumina_is_own (l : List (YamlEntry × String)) (rs : List ParsedSample)
    (h : parseEachOwn l = some rs) :
    ∀ s ∈ rs, ∃ p ∈ l, s.name = p.2 ∧ s.illumina = p.1.illumina := by
  induction l generalizing rs with
  | nil =>
    simp only [parseEachOwn, Option.some.injEq] at h
    subst h
    simp
  | cons p l ih =>
    obtain ⟨e, n⟩ := p
    simp only [parseEachOwn] at h
    cases hp : parseOwnYaml e n with
    | none => simp [hp] at h
    | some r =>
      cases hr : parseEachOwn l with
      | none => simp [hp, hr] at h
      | some rs' =>
        simp only [hp, hr, Option.some.injEq] at h
        subst h
        intro s hs
        rcases List.mem_append.mp hs with h1 | h1
        · refine ⟨(e, n), List.mem_cons_self, ?_⟩
          unfold parseOwnYaml at hp
          cases hf : e.files with
          | none => simp [hf] at hp
          | some fs =>
            cases hl : labelled fs e.labels with
            | none => simp [hf, hl] at hp
            | some pairs =>
              cases ha : addFiles [] pairs with
              | none => simp [hf, hl, ha] at hp
              | some d =>
                simp only [hf, hl, ha] at hp
                split at hp
                · simp only [Option.some.injEq] at hp; subst hp; simp at h1
                · simp only [Option.some.injEq] at hp; subst hp
                  simp only [Option.toList, List.mem_singleton] at h1
                  subst h1
                  exact ⟨rfl, rfl⟩
        · obtain ⟨q, hq, hh⟩ := ih rs' hr s h1
          exact ⟨q, List.mem_cons_of_mem _ hq, hh⟩

/-- the same for list files (`get_samples_from_file`, a line-by-line loop with a pending sample): a description made
    of `#name` headers (explicit, pairwise distinct names) each followed by its file lines parses to the
    concatenation of what each block yields by itself (`ownBlock n lines`: a function of that block alone) -/
theorem parsed_list_sample_depends_on_own_entry (pfx : String) (blocks : List (String × List ListLine))
    (hne : ∀ b ∈ blocks, b.1.isEmpty = false ∧ ∀ l ∈ b.2, l.isFiles = true)
    (hnd : (blocks.map Prod.fst).Nodup) :
    parseList pfx (renderBlocks blocks) = parseEachOwnBlock blocks := by
  have hI : ListInv ⟨ParseSt.init, [], pfx⟩ [] [] :=
    ⟨by simp [ListSt.flush, finishParse, ParseSt.init], by simp [ListSt.flush, ParseSt.init],
     by simp [ParseSt.init, hasKey], by simp [ListSt.flush, ParseSt.init]⟩
  have h := listLoop_blocks renameRuleOfSource.list pfx blocks ⟨ParseSt.init, [], pfx⟩ [] [] hI hne hnd (by simp)
  unfold parseList parseListR
  rw [h]
  cases parseEachOwnBlock blocks <;> simp

/-- … and a block alone (the stand-alone list file, under any prefix) yields exactly that -/
theorem parse_list_standalone (pfx' : String) (n : String) (lines : List ListLine)
    (hne : n.isEmpty = false) (hl : ∀ l ∈ lines, l.isFiles = true) :
    parseList pfx' (renderBlocks [(n, lines)]) = (ownBlock n lines).map Option.toList := by
  rw [parsed_list_sample_depends_on_own_entry pfx' [(n, lines)]
    (by intro b hb; simp only [List.mem_singleton] at hb; subst hb; exact ⟨hne, hl⟩) (by simp)]
  simp only [parseEachOwnBlock]
  cases ownBlock n lines <;> simp

example : parseList "X" (renderBlocks [("A", [.files [⟨"/d/a.bam", "a"⟩] none]), ("E", []), ("B", [.files [⟨"/d/c.bam", "c"⟩, ⟨"/d/d.bam", "d"⟩] (some "pair")])])
    = some [⟨"A", [["/d/a.bam"]], [("/d/a.bam", "a")], none⟩,
            ⟨"B", [["/d/c.bam", "/d/d.bam"]], [("/d/c.bam", "pair"), ("/d/d.bam", "pair")], none⟩] := by decide

/-- non-vacuity: an experiment with short reads and labels, one without either, one without files (skipped) -/
example : parseYaml "X" [⟨some "E1", some [⟨"/d/a.bam", "a"⟩, ⟨"/d/b.bam", "b"⟩], some ["L1", "L2"], some ["/d/s.bam"]⟩,
                         ⟨some "E0", some [], none, none⟩,
                         ⟨some "E2", some [⟨"/d/c.bam", "c"⟩], none, none⟩]
    = some [⟨"E1", [["/d/a.bam"], ["/d/b.bam"]], [("/d/a.bam", "L1"), ("/d/b.bam", "L2")], some ["/d/s.bam"]⟩,
            ⟨"E2", [["/d/c.bam"]], [("/d/c.bam", "c")], none⟩] := by decide

/-- without distinct names the locals do leak (renaming by position): the hypothesis is needed -/
example : (parseYaml "X" [⟨some "E", some [⟨"/d/a.bam", "a"⟩], none, none⟩, ⟨some "E", some [⟨"/d/c.bam", "c"⟩], none, none⟩]).map
    (fun l => l.map ParsedSample.name) = some ["E", "X1"] := by decide

example : parseList "X" [.header "A", .files [⟨"/d/a.bam", "a"⟩] none, .files [⟨"/d/b.bam", "b"⟩] (some "lab"),
                         .header "", .header "B", .files [⟨"/d/c.bam", "c"⟩] none]
    = some [⟨"A", [["/d/a.bam"], ["/d/b.bam"]], [("/d/a.bam", "a"), ("/d/b.bam", "lab")], none⟩,
            ⟨"B", [["/d/c.bam"]], [("/d/c.bam", "c")], none⟩] := by decide

/-! ### 6. combined_* tables -/

/-- **combined_columns**: the combined table has the header `#feature_id` + the experiment names; its feature
    rows are distinct; and for every experiment `i` the non-empty cells of column `i` are exactly the rows of
    that experiment's individual table (count tables: without their three trailing `__` lines) -/
theorem combined_columns (full : Bool) (ts : List (String × Table))
    (hnd : ∀ p ∈ ts, (p.2.map Prod.fst).Nodup) :
    (combineTable full ts).1 = "#feature_id" :: ts.map Prod.fst
    ∧ ((combineTable full ts).2.map Prod.fst).Nodup
    ∧ ∀ (i : Nat) (p : String × Table), ts[i]? = some p → ∀ (k v : String),
        (∃ row ∈ (combineTable full ts).2, row.1 = k ∧ row.2[i]? = some (some v))
          ↔ (k, v) ∈ transformCounts full p.2 :=
  ⟨rfl, combine_keys_nodup full ts, fun i p hi k v => combine_cell_iff full ts hnd i p hi k v⟩

/-- every row has one cell per experiment -/
theorem combined_row_width (full : Bool) (ts : List (String × Table)) :
    ∀ row ∈ (combineTable full ts).2, row.2.length = ts.length := by
  intro row h
  simp only [combineTable, List.mem_map] at h
  obtain ⟨k, _, rfl⟩ := h
  simp

example : combineTable false [("A", [("g1", "3.00"), ("g2", "1.00"), ("__ambiguous", "0"), ("__no_feature", "2"), ("__not_aligned", "5")]),
                              ("B", [("g2", "4.00"), ("g3", "7.00"), ("__ambiguous", "1"), ("__no_feature", "0"), ("__not_aligned", "0")])]
    = (["#feature_id", "A", "B"],
       [("g1", [some "3.00", none]), ("g2", [some "1.00", some "4.00"]), ("g3", [none, some "7.00"])]) := by decide

end IsoVerif.Props.C10
