/-
C07 — a reference that is gzip- but not bgzip-compressed (`Cfg.gzRef`): `DatasetProcessor.__init__` unpacks it into the
output folder (`Path.refFa`, stage `refStage` of Model/Resume.lean: the first file-system mutation after `.params`).

The code before the repair unpacked `if not os.path.exists(copy) or not args.resume`: a resumed run worked with whatever
carried the name of the copy — the empty file left by a kill right after the `open` (`FastaIndexingError`, every later
`--resume` as well), the first pieces of a copy in progress (exit 0, the chromosomes missing from the copy silently
dropped from every output), the copy of *another* reference left in the folder by an earlier run (a `--force` run killed
between `.params` and the unpacking).  The repaired code (`Variant.refRewrite`, `fixed`) unpacks in every run.

`resume_correct`, `resume_correct_from`, `resume_correct_from_opts`, `crash_state_invariant`, `run_shape`,
`resume_correct_pool(_from)(_opts)` (Props/C07*.lean) quantify over `Cfg` and therefore over `gzRef`; they were re-proved over
the event list that contains the reference stage.  This file has the statements that speak about the reference itself,
the non-vacuity examples on a configuration with `gzRef`, and the witness for the old behaviour.
-/
import IsoVerif.Props.C07Opts

namespace IsoVerif.Props.C07Ref
open IsoVerif.Model.Resume IsoVerif.Lemmas.Resume IsoVerif.Props.C07

/-- **the unpacked reference is never trusted, an index is read only when it is complete**: whatever the run finds under
    the name of the unpacked copy (`t`: nothing, a partial copy `bad`, a complete copy of this or of another reference
    `good` / `stale`), first or resumed run, from any state satisfying the invariant: the reference stage completes,
    performs `refEvents` (Lemmas/ResumeRun.lean: `copyEvents ++ indexEvents`; instances in the examples below), keeps the invariant at every prefix, leaves the reference the run
    reads in order (`refOK`: complete correct copy, complete correct index) and touches nothing but its own files -/
theorem reference_prepared_by_every_run {cfg : Cfg} (rs : Bool) {fs : FS} (h : J cfg fs) (t : Option Tok) :
    let r := runActs (refStage fixed cfg rs (fs.set .refFa t)) (fs.set .refFa t)
    r.ok = true ∧ r.evs = refEvents cfg (fs.set .refFa t) ∧ AllP (J cfg) (fs.set .refFa t) r.evs ∧
      refOK cfg r.fs = true ∧ ∀ p, isRefAux p = false → r.fs p = fs p := by
  have hJ : J cfg (fs.set .refFa t) := by
    apply J_set h (by simp)
    · intro _ l hm; have := mem_guarded_locksOf hm; simp [locksOf] at this
    · intro _ d hd; simp [guarded] at hd
  obtain ⟨g, hev, hf, hgood⟩ := ref_stage (cfg := cfg) rs hJ
  refine ⟨g.1, hev, ?_, hgood, fun p hp => ?_⟩
  · rw [hev]; have := g.2; rwa [hev] at this
  · rw [hf p hp, set_other _ _ (by intro e; subst e; simp [isRefAux] at hp)]

/-- without a compressed reference and without an index inside the folder the stage does nothing -/
theorem no_reference_stage_without_gzip {cfg : Cfg} (hg : cfg.gzRef = false) (hi : cfg.idx = false) (v : Variant) (rs : Bool)
    (fs : FS) : refStage v cfg rs fs = [] := by simp [refStage, refCopyActs, refIndexActs, hg, hi]

example : cfg1.gzRef = false ∧ cfg1.idx = false ∧ refStage pinned cfg1 true (fsOf [(.refFa, .bad)]) = [] :=
  ⟨rfl, rfl, no_reference_stage_without_gzip rfl rfl _ _ _⟩

/-- **the property with a plain-gzip reference, any leftovers in the output folder** (instance of `resume_correct_from_opts`;
    `t` = what the folder holds under the name of the unpacked copy before the run under test starts — in particular the
    `stale` copy of another reference of the same name —, `hm kt` = the options of the resume command line): killed at any
    point after `.params` was saved — before the unpacking, right after the `open` (empty copy), inside the copy, after
    it —, the resumed run completes and every final file equals that of the uninterrupted run -/
theorem resume_correct_gzip_reference {cfg : Cfg} (wf : WF cfg) (hg : cfg.gzRef = true) (hs : cfg.fromSaves = false)
    (ord ord' : List Path) (hord : ord.Nodup) (hord' : ord'.Nodup) (hm kt : Bool) (fs0 : FS) (t : Option Tok) (k : Nat)
    (hk : (lockList cfg (fs0.set .refFa t)).length + 4 ≤ k) :
    IsoVerif.Model.Resume.verdictFromOpts fixed cfg ord ord' hm kt (fs0.set .refFa t) k = .equal :=
  C07Opts.resume_correct_from_opts wf ord ord' hord hord' hm kt _ (fun e => by rw [hs] at e; exact absurd e (by simp))
    (indexSound_of_not_trusted (by simp [idxTrusted, hg]) _) k hk

/-! ### non-vacuity -/

/-- two chromosomes (merge order ≠ processing order), annotation, `file:` read groups, unaligned reads, a plain-gzip reference -/
def cfgR : Cfg := { chrs := [0, 1], mchrs := [1, 0], bchrs := [1, 0], genedb := true, rg := .file, keepTmp := false,
                    unmapped := true, fromSaves := false, gzRef := true }

def ordR : List Path := [.bamstat 1, .save 0, .groups 0, .processed 1, .trStat 0, .collected 0, .info, .lock, .multimap 1,
                         .rgSplit 1, .rgLock, .rgSplit 0]

theorem cfgR_wf : WF cfgR := by
  refine ⟨by decide, by decide, by decide, ?_, by decide⟩
  intro c
  simp only [cfgR, List.mem_cons, List.not_mem_nil, or_false]
  constructor <;> rintro (rfl | rfl) <;> simp

/-- what an earlier, finished run on another reference of the same name left in the folder -/
def leftoverR : FS := fsOf [(.params, .stale), (.refFa, .stale), (.final .bed, .stale), (.final .gene, .stale)]

-- the unpacking is the first mutation after `.params` (events 4, 5, 6); killed at 5 the folder holds an empty copy, at 6
-- a partial one; the hypotheses of `resume_correct` / `resume_correct_gzip_reference` are met at these kill points
example : WF cfgR ∧ ordR.Nodup ∧ cfgR.gzRef = true ∧
    (cleanEvents fixed cfgR ordR).take 7 =
      [.create .paramsTmp, .commit .paramsTmp .good, .remove .paramsTmp, .commit .params .good, .create .refFa, .commit .refFa .stale,
       .commit .refFa .good] ∧
    (crashFS fixed cfgR ordR 4) .refFa = none ∧ (crashFS fixed cfgR ordR 5) .refFa = some .bad ∧
    (crashFS fixed cfgR ordR 6) .refFa = some .stale ∧
    lockList cfgR (leftoverR.set .refFa (some .stale)) = [] ∧
    (crashFSFrom fixed cfgR ordR (leftoverR.set .refFa (some .stale)) 4) .refFa = some .stale := by
  refine ⟨cfgR_wf, by decide, rfl, by decide +kernel, by decide +kernel, by decide +kernel, by decide +kernel,
    by decide +kernel, by decide +kernel⟩

-- the resumed run after a kill inside the unpacking writes the copy again (its events 4, 5, 6)
example : ((run fixed cfgR ordR true (crashFS fixed cfgR ordR 6)).evs.take 7 =
    [.create .paramsTmp, .commit .paramsTmp .good, .remove .paramsTmp, .commit .params .good, .create .refFa, .commit .refFa .stale,
     .commit .refFa .good]) := by
  decide +kernel

example : verdict fixed cfgR ordR ordR 6 = .equal :=
  resume_correct cfgR_wf rfl ordR ordR (by decide) (by decide) 6 (by decide)

example : verdict fixed cfgR ordR ordR 5 = .equal :=
  resume_correct cfgR_wf rfl ordR ordR (by decide) (by decide) 5 (by decide)

example : IsoVerif.Model.Resume.verdictFromOpts fixed cfgR ordR ordR false true (leftoverR.set .refFa (some .stale)) 4 = .equal :=
  resume_correct_gzip_reference cfgR_wf rfl rfl ordR ordR (by decide) (by decide) false true leftoverR (some .stale) 4
    (by decide +kernel)

example : ∃ fs : FS, J cfgR fs ∧ fs.good .params = true :=
  ⟨afterParams FS.empty, J_afterParams (J0_empty cfgR), (J_afterParams (J0_empty cfgR)).1⟩

/-! ### the behaviour before the repair: witness -/

/-- `if not os.path.exists(unpacked copy) or not args.resume:` — a resumed run trusts the file it finds (the tree before the repair) -/
def refTrustedBuggy : Variant := { fixed with refRewrite := false }

/-- liveness fails, for ever: killed right after the unpacked copy was opened for writing (event 2 = `create refFa`; the
    file is empty), the resumed run trusts the file and raises (`pyfaidx.FastaIndexingError`); it leaves the file as it
    is, so every further `--resume` raises as well.  Killed before the `open` or after the copy was closed the same code
    resumes correctly: the failing window is the write session of the copy. -/
theorem resume_completes_gzip_reference_witness :
    (cleanEvents refTrustedBuggy cfgR ordR)[4]? = some (.create .refFa) ∧
    verdict refTrustedBuggy cfgR ordR ordR 5 = .fail ∧
    (run refTrustedBuggy cfgR ordR true (run refTrustedBuggy cfgR ordR true (crashFS refTrustedBuggy cfgR ordR 5)).fs).ok = false ∧
    verdict refTrustedBuggy cfgR ordR ordR 4 = .equal ∧ verdict refTrustedBuggy cfgR ordR ordR 7 = .equal := by
  decide +kernel

/-- safety fails: killed inside the copy (event 3: the first pieces are in the file — a readable FASTA that lacks the
    later chromosomes), the resumed run trusts the file, computes everything from it and exits successfully with
    different results -/
theorem resume_never_silently_wrong_gzip_reference_witness :
    (cleanEvents refTrustedBuggy cfgR ordR)[5]? = some (.commit .refFa .stale) ∧
    (crashFS refTrustedBuggy cfgR ordR 6) .refFa = some .stale ∧
    verdict refTrustedBuggy cfgR ordR ordR 6 = .diff := by
  decide +kernel

/-- safety fails in a used folder (history clause): the folder holds the unpacked copy of **another** reference of the same
    name (left by an earlier run); the run under test (`--force`) is killed right after its parameters were saved, before
    it unpacked its own reference — the resumed run works with the old genome and exits successfully with different
    results.  (Writing the copy under a temporary name and renaming it would not help here: the trusted file is complete.) -/
theorem resume_never_silently_wrong_stale_reference_witness :
    lockList cfgR leftoverR = [] ∧ (crashFSFrom refTrustedBuggy cfgR ordR leftoverR 4) .refFa = some .stale ∧
    verdictFrom refTrustedBuggy cfgR ordR ordR leftoverR 4 = .diff ∧
    verdictFrom fixed cfgR ordR ordR leftoverR 4 = .equal := by
  decide +kernel

/-! ### the FASTA index inside the output folder (eab0ef3: built under a temporary name and renamed; the index of the
unpacked copy lies next to the copy) -/

/-- `cfgR` on the current tree: the index of the unpacked copy is private to the run (`<output>/<name>.fai`) -/
def cfgRI : Cfg := { cfgR with idx := true }
/-- a reference without index that lies inside the output folder (the harness's `FaiSession`) -/
def cfgF : Cfg := { cfgR with gzRef := false, idx := true }

theorem cfgRI_wf : WF cfgRI := ⟨cfgR_wf.nd, cfgR_wf.mnd, cfgR_wf.bnd, cfgR_wf.m_iff, cfgR_wf.b_sub⟩
theorem cfgF_wf : WF cfgF := ⟨cfgR_wf.nd, cfgR_wf.mnd, cfgR_wf.bnd, cfgR_wf.m_iff, cfgR_wf.b_sub⟩

/-- **the property with the index inside the folder** (instance of `resume_correct_from_opts`): ∀ leftovers in which an index
    that will be read as it is is complete (`IndexSound`; vacuous for the index of an unpacked copy: that one is always
    rebuilt), killed anywhere — before the temporary index is opened, while it is written, between its close and the
    rename, after the rename — the resumed run completes with equal final files -/
theorem resume_correct_index_in_folder {cfg : Cfg} (wf : WF cfg) (_hx : cfg.idx = true) (hs : cfg.fromSaves = false)
    (ord ord' : List Path) (hord : ord.Nodup) (hord' : ord'.Nodup) (hm kt : Bool) (fs0 : FS) (hi : IndexSound cfg fs0) (k : Nat)
    (hk : (lockList cfg fs0).length + 4 ≤ k) :
    IsoVerif.Model.Resume.verdictFromOpts fixed cfg ord ord' hm kt fs0 k = .equal :=
  C07Opts.resume_correct_from_opts wf ord ord' hord hord' hm kt _ (fun e => by rw [hs] at e; exact absurd e (by simp)) hi k hk

-- non-vacuity: the events of both configurations; the crash states around the index; the theorem at those kill points
example : (cleanEvents fixed cfgF ordR).take 9 =
      [.create .paramsTmp, .commit .paramsTmp .good, .remove .paramsTmp, .commit .params .good, .create .refFaiTmp, .commit .refFaiTmp .good, .remove .refFaiTmp,
       .commit .refFaiData .good, .commit .refFai .good] ∧
    (cleanEvents fixed cfgRI ordR).take 12 =
      [.create .paramsTmp, .commit .paramsTmp .good, .remove .paramsTmp, .commit .params .good, .create .refFa, .commit .refFa .stale, .commit .refFa .good,
       .create .refFaiTmp, .commit .refFaiTmp .good, .remove .refFaiTmp, .commit .refFaiData .good, .commit .refFai .good] ∧
    (crashFS fixed cfgF ordR 5) .refFaiTmp = some .bad ∧ (crashFS fixed cfgF ordR 5) .refFai = none ∧
    (crashFS fixed cfgF ordR 6) .refFaiTmp = some .good ∧ (crashFS fixed cfgF ordR 9) .refFai = some .good ∧
    -- killed with the complete index in place, the resumed run reads it and builds nothing
    (run fixed cfgF ordR true (crashFS fixed cfgF ordR 9)).evs.take 4 = paramsEvs fixed ∧
    -- the index of the copy is rebuilt by the resumed run although it exists
    (run fixed cfgRI ordR true (crashFS fixed cfgRI ordR 14)).evs.take 8 =
      [.create .paramsTmp, .commit .paramsTmp .good, .remove .paramsTmp, .commit .params .good, .create .refFa, .commit .refFa .stale,
       .commit .refFa .good, .create .refFaiTmp] := by
  refine ⟨by decide +kernel, by decide +kernel, by decide +kernel, by decide +kernel, by decide +kernel, by decide +kernel,
    by decide +kernel, by decide +kernel⟩

example : ((run fixed cfgF ordR true (crashFS fixed cfgF ordR 9)).evs.map Ev.path).filter (fun p => p == .refFaiTmp) = [] := by
  decide +kernel

example : IsoVerif.Model.Resume.verdictFromOpts fixed cfgF ordR ordR false false FS.empty 5 = .equal ∧
    IsoVerif.Model.Resume.verdictFromOpts fixed cfgRI ordR ordR false false leftoverR 8 = .equal :=
  ⟨resume_correct_index_in_folder cfgF_wf rfl rfl ordR ordR (by decide) (by decide) false false _ (indexSound_empty _) 5
      (by decide +kernel),
   resume_correct_index_in_folder cfgRI_wf rfl rfl ordR ordR (by decide) (by decide) false false _
      (indexSound_of_not_trusted rfl _) 8 (by decide +kernel)⟩

/-- pyfaidx writing the index in place (the tree before eab0ef3) -/
def faiInPlaceBuggy : Variant := { fixed with faiAtomic := false }

/-- safety fails: killed right after the index was opened for writing (event 2 = `create refFai`: the file exists, is empty
    and is newer than the FASTA), the resumed run reads it as it is — a reference without sequences — and exits
    successfully with different results; so does every later run.  Killed before the `open` or after the close the same
    code resumes correctly. -/
theorem resume_never_silently_wrong_fai_index_witness :
    (cleanEvents faiInPlaceBuggy cfgF ordR)[4]? = some (.create .refFai) ∧
    (crashFS faiInPlaceBuggy cfgF ordR 5) .refFai = some .bad ∧ (crashFS faiInPlaceBuggy cfgF ordR 5) .refFaiData = none ∧
    verdict faiInPlaceBuggy cfgF ordR ordR 5 = .diff ∧
    verdict faiInPlaceBuggy cfgF ordR ordR 4 = .equal ∧ verdict faiInPlaceBuggy cfgF ordR ordR 6 = .equal ∧
    verdict fixed cfgF ordR ordR 5 = .equal := by
  decide +kernel

/-- `IndexSound` is needed: an incomplete index found in the folder (left by the old code, or supplied by the user) is read
    as it is by the repaired code as well — already by the uninterrupted run, whose results are then wrong -/
theorem index_sound_needed_witness :
    ¬ IndexSound cfgF (fsOf [(.refFai, .bad)]) ∧
    (run fixed cfgF ordR false (fsOf [(.refFai, .bad)])).ok = true ∧
    (run fixed cfgF ordR false (fsOf [(.refFai, .bad)])).fs (.final .bed) = some .stale := by
  refine ⟨fun h => ?_, by decide +kernel, by decide +kernel⟩
  have := h rfl (by decide)
  revert this; decide

/-! ### the options of the resume command line: `--high_memory` is restored from `.params`

`resume_correct_from_opts` (Props/C07Opts.lean) holds for every `hm kt`; what the repair of the resume parser changes is the
configuration the resumed run works with (`resumeCfg`; before: `resumeCfgOrig`). -/

/-- `--resume` alone continues with exactly the options of the killed run -/
theorem resume_alone_same_options (cfg : Cfg) : resumeCfg cfg false false = cfg := by
  cases cfg; simp [resumeCfg]

/-- a resumed run is a `--high_memory` (`--keep_tmp`) run iff the killed run was one or the flag is given on the resume
    command line: the two options can be switched on, never off, and no other option changes -/
theorem resume_options_only_switch_on (cfg : Cfg) (hm kt : Bool) :
    ((resumeCfg cfg hm kt).highMemory = true ↔ cfg.highMemory = true ∨ hm = true) ∧
    ((resumeCfg cfg hm kt).keepTmp = true ↔ cfg.keepTmp = true ∨ kt = true) ∧
    { resumeCfg cfg hm kt with highMemory := cfg.highMemory, keepTmp := cfg.keepTmp } = cfg := by
  cases cfg; simp [resumeCfg]

/-- the memory mode of the resumed run shows in what it reads: a run that is not a `--high_memory` run reads every save
    file back after the collection (`prepare_multimapper_dict`) -/
theorem resumed_run_reads_saves_back_iff (cfg : Cfg) (hm kt : Bool) (fs : FS) :
    (collectPost (resumeCfg cfg hm kt) false fs).length =
      (if cfg.highMemory || hm then 0 else cfg.chrs.length) + (2 * cfg.chrs.length + 3) := by
  cases h : (cfg.highMemory || hm) <;>
    simp [collectPost, resumeCfg, evs, h] <;> omega

-- non-vacuity: `cfgE` (Props/C07Opts.lean) is a `--high_memory` configuration with two chromosomes
example : C07Opts.cfgE.highMemory = true ∧ resumeCfg C07Opts.cfgE false false = C07Opts.cfgE ∧
    (collectPost (resumeCfg C07Opts.cfgE false false) false FS.empty).length = 7 :=
  ⟨rfl, resume_alone_same_options _, by decide⟩

/-- the resume parser before the repair (`--high_memory` with `default=False`): `--resume` alone is **not** the run with the
    options of the killed run — a `--high_memory` run is continued in the low-memory mode and reads the save files back
    (two more read passes for `cfgE`) -/
theorem resume_alone_same_options_witness :
    resumeCfgOrig C07Opts.cfgE false false ≠ C07Opts.cfgE ∧
    (resumeCfgOrig C07Opts.cfgE false false).highMemory = false ∧
    (collectPost (resumeCfgOrig C07Opts.cfgE false false) false FS.empty).length =
      (collectPost C07Opts.cfgE false FS.empty).length + 2 := by
  refine ⟨fun h => ?_, rfl, by decide⟩
  have := congrArg Cfg.highMemory h
  simp [resumeCfgOrig, C07Opts.cfgE] at this

/-! ### the BAM header may list contigs the reference does not have (`WF.b_sub`, formerly `b_iff`)

`split_read_group_table` writes one table per contig of the BAM header (`bchrs`), `create_read_grouper` opens one per contig
of the reference (`chrs`): what the run needs is `chrs ⊆ bchrs`.  (The other inclusion failing — a reference contig the
header lacks — makes the *uninterrupted* run abort: `KeyError` / `FileNotFoundError read_group_<chr>`; outside the property.) -/

/-- contig 2 is in the BAM header only: its table is written and removed, nothing else of it exists -/
def cfgH : Cfg := { chrs := [0, 1], mchrs := [1, 0], bchrs := [1, 2, 0], genedb := true, rg := .file, keepTmp := false,
                    unmapped := true, fromSaves := false }

theorem cfgH_wf : WF cfgH := by
  refine ⟨by decide, by decide, by decide, ?_, by decide⟩
  intro c
  simp only [cfgH, List.mem_cons, List.not_mem_nil, or_false]
  constructor <;> rintro (rfl | rfl) <;> simp

example : WF cfgH ∧ ¬ (∀ c, c ∈ cfgH.bchrs → c ∈ cfgH.chrs) ∧
    Ev.create (.rgSplit 2) ∈ cleanEvents fixed cfgH (.rgSplit 2 :: ordR) ∧
    Ev.remove (.rgSplit 2) ∈ cleanEvents fixed cfgH (.rgSplit 2 :: ordR) ∧
    verdict fixed cfgH (.rgSplit 2 :: ordR) ordR 7 = .equal :=
  ⟨cfgH_wf, by decide, by decide +kernel, by decide +kernel,
   resume_correct cfgH_wf rfl _ _ (by decide) (by decide) 7 (by decide)⟩

/-! ### two interruptions (audit 2, GAP C07-5): "a resumed run that is killed is again a run killed after its parameters were saved"

Since /repo ffd90d3 `save_params` pickles into `.params.tmp` and renames it over `.params`: the parameters of the interrupted run
stay in place until the new file is complete, so a resumed run may be killed **anywhere** — the `2 ≤ k₂` of the earlier partial
statement is gone.  (`4 ≤ k₁`: the first run has saved its parameters once `.params.tmp` was written, closed and renamed.) -/

/-- the statement for two interruptions -/
def ResumeTwiceCorrect (v : Variant) (cfg : Cfg) (ord ord2 ord3 : List Path) : Prop :=
  ∀ k1 k2, 4 ≤ k1 → verdictTwice v cfg ord ord2 ord3 FS.empty k1 k2 = .equal

/-- **two interruptions, full strength**: ∀ well-formed configuration, ∀ directory orders of the three runs, the first run
    killed at any point after its parameters were saved, the resumed run killed at **any** point `k₂` (also before,
    inside and right after its own `save_params`), the second `--resume` completes and every final file equals that of
    the uninterrupted run -/
theorem resume_twice_correct {cfg : Cfg} (wf : WF cfg) (hm : cfg.fromSaves = false) (ord ord2 ord3 : List Path)
    (hord : ord.Nodup) (hord2 : ord2.Nodup) (hord3 : ord3.Nodup) : ResumeTwiceCorrect fixed cfg ord ord2 ord3 := by
  intro k1 k2 h1
  have h3 := resume_correct_after_repeated_crashes wf hm [(ord, k1), (ord2, k2)]
    (by intro x hx; simp only [List.mem_cons, List.not_mem_nil, or_false] at hx; rcases hx with rfl | rfl
        · exact hord
        · exact hord2)
    (by intro x hx; simp only [List.head?_cons, Option.mem_def, Option.some.injEq] at hx; subst hx; exact h1)
    (by simp) ord3 hord3
  have hst : afterCrashes cfg [(ord, k1), (ord2, k2)] false FS.empty = crashFSTwice fixed cfg ord ord2 FS.empty k1 k2 := by
    simp [afterCrashes, crashFSTwice, crashFSFrom, cleanEventsFrom]
  rw [hst] at h3
  obtain ⟨hok, hfin⟩ := h3
  obtain ⟨_, hfin1⟩ := clean_run_completes wf hm ord hord
  simp only [verdictTwice, hok, Bool.not_true, Bool.false_eq_true, if_false]
  have : sameFinals cfg (run fixed cfg ord3 true (crashFSTwice fixed cfg ord ord2 FS.empty k1 k2)).fs
      (run fixed cfg ord false FS.empty).fs = true := by
    simp only [sameFinals, List.all_eq_true, beq_iff_eq]
    intro p hp
    have a := hfin p hp
    have b := hfin1 p hp
    simp only [FS.good, beq_iff_eq] at a b
    rw [a, b]
  simp [this]

/-- `save_params` rewriting `.params` in place (the tree before ffd90d3) -/
def paramsInPlaceBuggy : Variant := { fixed with paramsAtomic := false }

/-- the old behaviour violates the statement: the resumed run killed right after it opened `.params` for writing (its event
    0; the file is empty): every later `--resume` fails (`EOFError` in `load_previous_run`); killed before that open, or
    after the close (two events), the third run completes with equal results.  The repaired code at the corresponding
    points — inside the write of `.params.tmp`, between its close and the rename, inside the (model's) rename — `EQUAL`. -/
theorem resume_twice_params_rewrite_witness :
    ¬ ResumeTwiceCorrect paramsInPlaceBuggy cfg1 ord1 ord1 ord1 ∧
    (run paramsInPlaceBuggy cfg1 ord1 true (crashFS paramsInPlaceBuggy cfg1 ord1 20)).evs.take 2 =
      [.create .params, .commit .params .good] ∧
    verdictTwice paramsInPlaceBuggy cfg1 ord1 ord1 ord1 FS.empty 20 1 = .fail ∧
    verdictTwice paramsInPlaceBuggy cfg1 ord1 ord1 ord1 FS.empty 20 0 = .equal ∧
    verdictTwice paramsInPlaceBuggy cfg1 ord1 ord1 ord1 FS.empty 20 2 = .equal ∧
    verdictTwice fixed cfg1 ord1 ord1 ord1 FS.empty 22 1 = .equal ∧
    verdictTwice fixed cfg1 ord1 ord1 ord1 FS.empty 22 2 = .equal ∧
    verdictTwice fixed cfg1 ord1 ord1 ord1 FS.empty 22 3 = .equal := by
  have h : verdictTwice paramsInPlaceBuggy cfg1 ord1 ord1 ord1 FS.empty 20 1 = .fail := by decide +kernel
  refine ⟨fun hc => ?_, by decide +kernel, h, by decide +kernel, by decide +kernel, by decide +kernel, by decide +kernel,
    by decide +kernel⟩
  have := hc 20 1 (by decide)
  rw [h] at this; exact absurd this (by decide)

example : WF cfg1 ∧ cfg1.fromSaves = false ∧ ord1.Nodup ∧ 4 ≤ 22 ∧
    verdictTwice fixed cfg1 ord1 ord1 ord1 FS.empty 22 1 = .equal :=
  ⟨⟨by decide, by decide, by decide, fun _ => Iff.rfl, fun _ _ h => h⟩, rfl, by decide, by decide,
   resume_twice_correct ⟨by decide, by decide, by decide, fun _ => Iff.rfl, fun _ _ h => h⟩ rfl ord1 ord1 ord1
     (by decide) (by decide) (by decide) 22 1 (by decide)⟩

/-! ### seeded change C07_a: the lock cleaning inside `collect_reads` is dead code since fix 428ba30 -/

/-- once the locks of the folder were removed before `.params` was saved (`forceClean`: `lockList = []`), the stale-lock
    removal at the start of the read collection has nothing left to remove — whatever condition the code puts on it
    (seed C07_a: only when the stage lock existed) changes no event of a fresh run.  The seed matters exactly where the
    removal before `.params` does not work (an experiment name with glob metacharacters: audit 2, GAP C07-3). -/
theorem in_stage_lock_cleaning_is_dead {cfg : Cfg} (hm : cfg.fromSaves = false) {fs : FS} (h : lockList cfg fs = []) :
    collectPre cfg false false fs = [] := by
  simp only [lockList, hm, Bool.not_false, Bool.true_and, List.append_eq_nil_iff, List.map_eq_nil_iff,
    Bool.false_eq_true, if_false] at h
  obtain ⟨⟨h1, h2⟩, h3⟩ := h
  have hl : fs.has .lock = false := by
    cases hq : fs.has .lock with
    | false => rfl
    | true => simp [List.filter, hq] at h1
  simp [collectPre, hl, h2, h3, rmAll]

example : lockList cfg1 (cleaned cfg1 leftover1) = [] ∧ collectPre cfg1 false false (cleaned cfg1 leftover1) = [] :=
  ⟨lockList_cleaned _ _, in_stage_lock_cleaning_is_dead rfl (lockList_cleaned _ _)⟩

end IsoVerif.Props.C07Ref
