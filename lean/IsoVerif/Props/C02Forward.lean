/-
C02, part 3 — transcript-model tables: `GraphBasedModelConstructor.forward_counts` feeds the counter with the
documented weights (1 for a read assigned to one model, 1/k for a read shared by k models when ambiguous reads are
counted, else 0), every constructed model is confirmed, so the model table is never zeroed.
-/
import IsoVerif.Model.Counter
import IsoVerif.Model.CounterSpec
import IsoVerif.Lemmas.Counter
import IsoVerif.Lemmas.CounterSteps
import IsoVerif.Lemmas.CounterForward
import IsoVerif.Props.C02
import IsoVerif.Props.C02Merge

set_option linter.unusedSectionVars false
set_option linter.unusedSimpArgs false

namespace IsoVerif.Props.C02Forward
open IsoVerif.Gen IsoVerif.Model.C02 IsoVerif.Lemmas.C02 IsoVerif.Props.C02

variable {F : Type} [DecidableEq F] {R : Type} [DecidableEq R]

/-- a read listed (possibly several times) under model `f`: `cnt (dedup ts) f` is 1 -/
theorem cnt_dedup (ts : List F) (f : F) : cnt (dedup ts) f = if f ∈ ts then 1 else 0 := by
  rw [cnt_of_nodup (dedup ts) (nodup_dedup ts) f]
  simp [mem_dedup]

theorem cnt_pos_of_mem (ts : List F) (f : F) (h : f ∈ ts) : cnt ts f ≠ 0 := by
  unfold cnt
  have : 0 < ts.count f := List.count_pos_iff.mpr h
  intro h0
  have : ((ts.count f : Nat) : Rat) = ((0 : Nat) : Rat) := by simpa using h0
  have := Rat.natCast_inj.mp this
  omega

theorem cnt_zero_of_not_mem (ts : List F) (f : F) (h : f ∉ ts) : cnt ts f = 0 := by
  unfold cnt
  rw [List.count_eq_zero.mpr h]; rfl

/-- **forward_counts_sum**: the calls `forward_counts` makes on the counter contribute to model `f` exactly
    `readModelWeight` per (model, read) listing of `transcript_read_ids` – for every table of listings and every
    `read_assignment_counts`, consistent or not, with or without repeated listings -/
theorem forward_counts_sum (s : CountingStrategy) (lvl : Level) (tr : List (F × List R)) (rc : List (R × Nat))
    (models : List F) (f : F) :
    ratSum ((forwardCounts tr rc models).map (fun e => contribution s lvl e f))
      = ratSum ((incidences tr).map (fun p => if p.1 = f then readModelWeight s tr rc p.2 f else 0)) := by
  unfold forwardCounts
  rw [fcTranscripts_eq]
  obtain ⟨hout, hamb, _⟩ := fcInc_spec (incidences tr) rc ([] : List (R × List F)) ([] : List (Event F))
  generalize hL : incidences tr = L at *
  simp only [hout, hamb, List.nil_append, List.map_append, ratSum_append, List.map_map]
  -- the last two calls contribute nothing
  have htail : ratSum (List.map (fun e => contribution s lvl e f)
      [Event.unassigned (List.filter (fun p => p.2 == 0) (fcInc L rc [] []).1).length, Event.confirm models]) = 0 := by
    simp [contribution, Rat.add_zero]
  rw [htail, Rat.add_zero]
  obtain ⟨L2, hL2⟩ : ∃ L2, L2 = L.filter (fun p => ¬ countOf rc p.2 = 1) := ⟨_, rfl⟩
  rw [← hL2]
  obtain ⟨hnd, hkeys, hget⟩ := ambFold_spec L2 ([] : List (R × List F)) (by simp)
  -- the ambiguous part, regrouped by listing
  have hambsum : ratSum ((ambFold [] L2).map ((fun e => contribution s lvl e f) ∘ fun p => Event.raw false (dedup p.2)))
      = ratSum (L2.map (fun p => if p.1 = f then
          docWeight s .ambiguous (dedup (modelsOf L2 p.2)).length / cnt (modelsOf L2 p.2) f else 0)) := by
    have h1 := ratSum_amb (ambFold [] L2) hnd (fun _ ts => cnt (dedup ts) f * docWeight s .ambiguous (dedup ts).length)
    have : (ambFold [] L2).map ((fun e => contribution s lvl e f) ∘ fun p => Event.raw false (dedup p.2))
        = (ambFold [] L2).map (fun p => cnt (dedup p.2) f * docWeight s .ambiguous (dedup p.2).length) := by
      apply List.map_congr_left; intro p _; simp [contribution]
    rw [this, h1]
    rw [ratSum_partition L2 ((ambFold [] L2).map Prod.fst) hnd
      (fun p hp => (hkeys p.2).mpr (Or.inr ⟨p, hp, rfl⟩))]
    congr 1
    apply List.map_congr_left
    intro r _
    rw [hget r]
    simp only [ambGet, List.nil_append]
    have : (L2.filter (fun p => p.2 = r)).map (fun p => if p.1 = f then
            docWeight s .ambiguous (dedup (modelsOf L2 p.2)).length / cnt (modelsOf L2 p.2) f else 0)
        = (L2.filter (fun p => p.2 = r)).map (fun p => if p.1 = f then
            docWeight s .ambiguous (dedup (modelsOf L2 r)).length / cnt (modelsOf L2 r) f else 0) := by
      apply List.map_congr_left
      intro p hp
      simp only [List.mem_filter, decide_eq_true_eq] at hp
      rw [hp.2]
    rw [this, ratSum_group]
    have hm : (L2.filter (fun p => p.2 = r)).map Prod.fst = modelsOf L2 r := rfl
    rw [hm, cnt_dedup]
    by_cases hf : f ∈ modelsOf L2 r
    · have hne := cnt_pos_of_mem _ _ hf
      simp only [hf, if_true, Rat.one_mul]
      rw [Rat.div_def, Rat.mul_comm, Rat.mul_assoc, Rat.inv_mul_cancel _ hne, Rat.mul_one]
    · simp [hf, cnt_zero_of_not_mem _ _ hf, Rat.zero_mul]
  rw [hambsum]
  rw [ratSum_filter_split L (fun p => countOf rc p.2 = 1), ← hL2]
  congr 1
  · apply congrArg
    apply List.map_congr_left
    intro p hp
    simp only [List.mem_filter, decide_eq_true_eq] at hp
    simp [contribution, readModelWeight, hp.2, cnt_cons, cnt_nil, docWeight]
    by_cases h : p.1 = f <;> simp [h, Rat.add_zero, Rat.one_mul, Rat.zero_mul]
  · apply congrArg
    apply List.map_congr_left
    intro p hp
    have hp' := hp
    simp only [hL2, List.mem_filter, decide_eq_true_eq] at hp'
    have hmodels : modelsOf L2 p.2 = modelsOf L p.2 := by
      simp only [modelsOf, hL2, List.filter_filter]
      congr 1
      apply List.filter_congr
      intro q _
      by_cases hq : q.2 = p.2
      · simp [hq, hp'.2]
      · simp [hq]
    simp only [readModelWeight, hp'.2, if_false, hmodels, hL]

/-- **read_weight_per_model** (read-level reading of `readModelWeight`): a read `r` that is not assigned exactly once and
    is listed under model `f` - once or several times - gives `f`, over all its listings together, exactly the documented
    weight of a read shared by its DISTINCT models: 1 when `f` is its only model, 1/k for k models when ambiguous reads
    are counted, else 0 -/
theorem read_weight_per_model (s : CountingStrategy) (tr : List (F × List R)) (rc : List (R × Nat)) (r : R) (f : F)
    (hc : countOf rc r ≠ 1) (hf : f ∈ modelsOf (incidences tr) r) :
    ratSum (((incidences tr).filter (fun p => p.2 = r)).map
        (fun p => if p.1 = f then readModelWeight s tr rc p.2 f else 0))
      = docWeight s .ambiguous (dedup (modelsOf (incidences tr) r)).length := by
  have : ((incidences tr).filter (fun p => p.2 = r)).map
        (fun p => if p.1 = f then readModelWeight s tr rc p.2 f else 0)
      = ((incidences tr).filter (fun p => p.2 = r)).map (fun p => if p.1 = f then
          docWeight s .ambiguous (dedup (modelsOf (incidences tr) r)).length / cnt (modelsOf (incidences tr) r) f else 0) := by
    apply List.map_congr_left
    intro p hp
    simp only [List.mem_filter, decide_eq_true_eq] at hp
    simp [readModelWeight, hp.2, hc]
  rw [this, ratSum_group]
  have hm : ((incidences tr).filter (fun p => p.2 = r)).map Prod.fst = modelsOf (incidences tr) r := rfl
  rw [hm, Rat.div_def, Rat.mul_comm, Rat.mul_assoc, Rat.inv_mul_cancel _ (cnt_pos_of_mem _ _ hf), Rat.mul_one]

/-- with consistent counts (`read_assignment_counts[r]` = number of listings of `r`, which is what `save_assigned_read`
    maintains: one per alignment record) a read assigned once has one model and weight 1, so the weight of every listing
    is the documented one: the ambiguous weight for the number of DISTINCT models, shared evenly by the listings under
    the same model -/
theorem forward_counts_documented (s : CountingStrategy) (tr : List (F × List R)) (rc : List (R × Nat))
    (hc : CountsConsistent tr rc) (p : F × R) (hp : p ∈ incidences tr) :
    readModelWeight s tr rc p.2 p.1
      = docWeight s .ambiguous (dedup (modelsOf (incidences tr) p.2)).length / cnt (modelsOf (incidences tr) p.2) p.1 := by
  unfold readModelWeight
  split
  · rename_i h1
    rw [hc p hp] at h1
    have hmem : p.1 ∈ modelsOf (incidences tr) p.2 := by
      simp only [modelsOf, List.mem_map, List.mem_filter, decide_eq_true_eq]
      exact ⟨p, ⟨hp, rfl⟩, rfl⟩
    match hm : modelsOf (incidences tr) p.2, h1, hmem with
    | [x], _, hx =>
      have : p.1 = x := by simpa using hx
      subst this
      simp [dedup, docWeight, cnt]
      decide +kernel
  · rfl

/-- **model_table_is_sum**: for any list of genes, the transcript-model counter fed by `forward_counts` runs without
    raising, and every row of its dumped table whose id is a constructed model carries the sum, over all genes and all
    (model, read) incidences of that model, of `readModelWeight` – it is never zeroed -/
theorem model_table_is_sum (s : CountingStrategy) (genes : List (GeneModels F R)) (le : F → F → Bool) (oz : Bool) :
    ∃ st, run s Level.transcript (CState.init []) (genes.flatMap geneEvents) = some st ∧
      ∀ f v, (f, v) ∈ dumpRowsExact le oz st → (∃ g ∈ genes, f ∈ g.models) →
        v = ratSum (genes.map (fun g => ratSum ((incidences g.transcriptReads).map
              (fun p => if p.1 = f then readModelWeight s g.transcriptReads g.readCounts p.2 f else 0)))) := by
  have hnr : ∀ e ∈ genes.flatMap geneEvents, noRead e = true := by
    intro e he
    simp only [List.mem_flatMap] at he
    obtain ⟨g, _, heg⟩ := he
    exact forwardCounts_noRead _ _ _ e heg
  obtain ⟨st, hst⟩ := run_noRead s Level.transcript _ hnr (CState.init [])
  refine ⟨st, hst, ?_⟩
  intro f v hrow ⟨g, hg, hfg⟩
  have hconf : ∃ e ∈ genes.flatMap geneEvents, confirmsFeature Level.transcript e f := by
    refine ⟨Event.confirm g.models, ?_, by simpa [confirmsFeature] using hfg⟩
    simp only [List.mem_flatMap]
    refine ⟨g, hg, ?_⟩
    simp [geneEvents, forwardCounts]
  rcases table_is_sum s Level.transcript [] _ st hst le oz f v hrow with ⟨_, hv⟩ | ⟨hno, _⟩
  · rw [hv, ratSum_flatMap_map]
    congr 1
    apply List.map_congr_left
    intro g' _
    exact forward_counts_sum s Level.transcript g'.transcriptReads g'.readCounts g'.models f
  · exact absurd hconf hno

/-- **forward_counts_stats**: when every listed read has an entry in `read_assignment_counts` (the constructor
    maintains this), the calls of one gene add to `__no_feature` exactly the number of reads with count 0 (reads
    assigned to no model), nothing to `__not_aligned`, and one usable read per call with a feature list -/
theorem forward_counts_stats (g : GeneModels F R)
    (hkeys : ∀ p ∈ incidences g.transcriptReads, p.2 ∈ g.readCounts.map Prod.fst) :
    natSum ((geneEvents g).map noFeatureClass) = (g.readCounts.filter (fun p => p.2 == 0)).length ∧
    natSum ((geneEvents g).map notAlignedClass) = 0 := by
  unfold geneEvents forwardCounts
  rw [fcTranscripts_eq]
  obtain ⟨hout, hamb, _⟩ := fcInc_spec (incidences g.transcriptReads) g.readCounts ([] : List (R × List F)) ([] : List (Event F))
  have hcnt := fcInc_counts_unchanged (incidences g.transcriptReads) g.readCounts ([] : List (R × List F)) ([] : List (Event F)) hkeys
  simp only [hout, hamb, hcnt, List.nil_append, List.map_append, natSum_append, List.map_map]
  have hne := ambFold_nonempty (L := (incidences g.transcriptReads).filter (fun p => ¬ countOf g.readCounts p.2 = 1))
    ([] : List (R × List F)) (by simp)
  have z1 : ∀ (cls : Event F → Nat), (∀ t : F, cls (Event.raw false [t]) = 0) →
      natSum (((incidences g.transcriptReads).filter (fun p => countOf g.readCounts p.2 = 1)).map
        (cls ∘ fun p => Event.raw false [p.1])) = 0 := by
    intro cls hcls
    induction ((incidences g.transcriptReads).filter (fun p => countOf g.readCounts p.2 = 1)) with
    | nil => simp
    | cons x xs ih => simp [hcls, ih]
  have z2 : ∀ (cls : Event F → Nat), (∀ ts : List F, ts ≠ [] → cls (Event.raw false ts) = 0) →
      natSum ((ambFold [] ((incidences g.transcriptReads).filter (fun p => ¬ countOf g.readCounts p.2 = 1))).map
        (cls ∘ fun p => Event.raw false (dedup p.2))) = 0 := by
    intro cls hcls
    generalize ambFold [] ((incidences g.transcriptReads).filter (fun p => ¬ countOf g.readCounts p.2 = 1)) = A at hne
    induction A with
    | nil => simp
    | cons x xs ih =>
      have hx := hne x (by simp)
      have hx' : dedup x.2 ≠ [] := by
        cases hxs : x.2 with
        | nil => exact absurd hxs hx
        | cons a as => simp [dedup]
      simp [hcls _ hx', ih (fun p hp => hne p (by simp [hp]))]
  constructor
  · rw [z1 noFeatureClass (by intro t; rfl), z2 noFeatureClass (by
      intro ts hts
      cases ts with
      | nil => exact absurd rfl hts
      | cons a as => rfl)]
    simp [noFeatureClass]
  · rw [z1 notAlignedClass (by intro t; rfl), z2 notAlignedClass (by intro ts _; rfl)]
    simp [notAlignedClass]

/-! non-vacuity: one gene, model 1 has reads 10 (only model 1) and 11 (models 1 and 2), read 12 has no model -/
def demoGene : GeneModels Nat Nat :=
  { transcriptReads := [(1, [10, 11]), (2, [11])], readCounts := [(10, 1), (11, 2), (12, 0)], models := [1, 2] }

example : CountsConsistent demoGene.transcriptReads demoGene.readCounts := by
  unfold CountsConsistent; decide +kernel
example : ∀ p ∈ incidences demoGene.transcriptReads, p.2 ∈ demoGene.readCounts.map Prod.fst := by decide +kernel
example : geneEvents demoGene
    = [Event.raw false [1], Event.raw false [1, 2], Event.unassigned 1, Event.confirm [1, 2]] := by rfl
example : (run .with_ambiguous .transcript (CState.init []) (geneEvents demoGene)).map
      (fun st => (dumpRowsExact natLe false st, (dump natLe false st).noFeature, (dump natLe false st).ambiguous,
                  (dump natLe false st).usable))
    = some ([(1, 3/2), (2, 1/2)], 1, 1, 3) := by decide +kernel
example : (run .unique_only .transcript (CState.init []) (geneEvents demoGene)).map
      (fun st => dumpRowsExact natLe false st) = some [(1, 1)] := by decide +kernel

/-! the failing input of the tree before the repair `fix_forward_dup` (audit probe C02_dupread_model.py): read 20 has
    two alignment records, both listed under model 1 (`read_assignment_counts[20] = 2`); reads 10 and 11 once -/
def dupGene : GeneModels Nat Nat :=
  { transcriptReads := [(1, [10, 20, 20]), (2, [11])], readCounts := [(10, 1), (20, 2), (11, 1)], models := [1, 2] }

example : CountsConsistent dupGene.transcriptReads dupGene.readCounts := by
  unfold CountsConsistent; decide +kernel
-- hypotheses of `read_weight_per_model` for read 20 / model 1, and its value: the weight of a read with ONE model
example : countOf dupGene.readCounts 20 ≠ 1 ∧ 1 ∈ modelsOf (incidences dupGene.transcriptReads) 20 ∧
    docWeight .unique_only .ambiguous (dedup (modelsOf (incidences dupGene.transcriptReads) 20)).length = 1 := by
  decide +kernel
example : geneEvents dupGene
    = [Event.raw false [1], Event.raw false [2], Event.raw false [1], Event.unassigned 0, Event.confirm [1, 2]] := by rfl

/-- **forward_dup_witness**: with the call list of the unrepaired tree (`forwardCountsOrig`: `[1, 1]` for read 20) the
    read weighs 0 under `unique_only` - model 1 is printed with 1 instead of 2 - and `__ambiguous` is 1 although no read
    is shared by two models; with the repaired call list the table is the read-level sum and `__ambiguous` is 0 -/
theorem forward_dup_witness :
    (run .unique_only .transcript (CState.init [])
        (forwardCountsOrig dupGene.transcriptReads dupGene.readCounts dupGene.models)).map
      (fun st => (dumpRowsExact natLe false st, (dump natLe false st).ambiguous)) = some ([(1, 1), (2, 1)], 1) ∧
    (run .unique_only .transcript (CState.init []) (geneEvents dupGene)).map
      (fun st => (dumpRowsExact natLe false st, (dump natLe false st).ambiguous)) = some ([(1, 2), (2, 1)], 0) := by
  decide +kernel

end IsoVerif.Props.C02Forward
