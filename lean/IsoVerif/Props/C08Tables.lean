/-
C08 — facts about the sources that the model relies on, re-extracted from /repo on every run (Gen/Resolver.lean) and
closed by evaluation: a change of one of them re-opens exactly the obligation that names it.
-/
import IsoVerif.Gen.Resolver

namespace IsoVerif.Props.C08Tables
open IsoVerif.Gen

/-- the command line hard-wires `take_best` (the strategy all theorems are about) -/
theorem cli_strategy_take_best :
    MultimapResolvingStrategy.ofName? cli_multimap_strategy = some .take_best := by decide

/-- `BasicReadAssignment.__eq__` compares exactly the fields `recEq` compares -/
theorem eq_fields_modelled : basic_eq_fields = ["read_id", "chr_id", "start", "end", "isoforms"] := by decide

/-- `suspended` is written only by the resolver, and always into both type fields: records reaching the resolver
    never carry it (`NoSuspendedInput`) -/
theorem suspended_only_by_resolver :
    suspended_assigned_at = ["src/multimap_resolver.py:assignment_type", "src/multimap_resolver.py:gene_assignment_type"] := by
  decide

/-- the loader skips a record whose verdict is `suspended` or missing -/
theorem loader_rule_present : loader_skips_suspended = true ∧ loader_skips_missing = true := by decide

/-- every loop of the model-construction stage that consumes read assignments starts by skipping multimappers -/
theorem graph_guards_present :
    (multimapper_guards.map (·.1)).contains "IntronCollector.collect_introns" = true ∧
    (multimapper_guards.map (·.1)).contains "IntronGraph.construct" = true ∧
    multimapper_guards.all (·.2) = true := by decide

end IsoVerif.Props.C08Tables
