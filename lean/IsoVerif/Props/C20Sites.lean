/-
C20 — tie of the cache-protocol model to the source: obligations over the tables regenerated from /repo on every run
(IsoVerif/Gen/CacheProtocol.lean).  Kept apart from Props/C20.lean so that a change of the code base re-opens exactly
these obligations and the protocol theorems stay audited.
-/
import IsoVerif.Model.Cache
import IsoVerif.Gen.CacheProtocol

namespace IsoVerif.Props.C20Sites
open IsoVerif.Model.C20

/-- every place of the current code base that touches a config file is represented by a model instruction, and
    every represented place still exists (a new cache, a raw `open(..,'w')`, a removed lookup re-open this obligation) -/
theorem access_sites_modelled :
    IsoVerif.Gen.cache_access_sites.all (fun s => modelledSites.any (·.1 == s)) = true ∧
    modelledSites.all (fun m => IsoVerif.Gen.cache_access_sites.contains m.1) = true := by
  decide

/-- the regenerated entry layout of each of the four caches has exactly one target, one source mtime and one
    target mtime, and the four config files are the four the model knows -/
theorem entry_layout_modelled :
    IsoVerif.Gen.cache_entry_fields.length = 4 ∧
    IsoVerif.Gen.cache_entry_fields.all (fun fs =>
      ["target", "src_mtime", "tgt_mtime"].all (fun role => (fs.filter (·.2 == role)).length == 1)) = true ∧
    IsoVerif.Gen.cache_config_files.map (·.2) =
      ["db_config.json", "index_config.json", "bed_config.json", "alignment_config.json"] ∧
    IsoVerif.Gen.cache_config_files.length = configFiles.length := by
  decide

end IsoVerif.Props.C20Sites
