/-
C07, several experiments in one invocation (`--bam_list` / `--yaml`) — resuming an interrupted invocation yields the
outputs of an uninterrupted one, for every experiment.

Model: `IsoVerif.Model.Resume` (Model/ResumeMulti.lean): `runMulti` = lock removal for every experiment, `.params` saved
once, the reference stage once (a plain-gzip reference is unpacked into the top-level folder, an index inside the folder is
built: files every experiment reads), then for every experiment the stages of Model/Resume.lean in the experiment's own
folder; a resumed invocation goes through the reference stage and every experiment again.  The state the experiments share in the process (the alignment counter) is the
configuration flag `carried`, set by `mkExps` / `withCarried` from the experiments before.

Full-strength statement (`resume_correct_multi`): for every list of well-formed experiments (any number, any
configurations — with a plain-gzip reference and / or an index inside the folder as well —, any directory orders in either
invocation) and every kill point `k ≥ 4` of the invocation's event list — inside the reference stage or inside any
experiment —, the resumed invocation completes and the final files of **every** experiment equal those of
the uninterrupted invocation.
-/
import IsoVerif.Lemmas.ResumeMulti
import IsoVerif.Lemmas.ResumeOpts
import IsoVerif.Props.C07

namespace IsoVerif.Props.C07Multi
open IsoVerif.Model.Resume IsoVerif.Lemmas.Resume IsoVerif.Props.C07

/-- the experiments of an invocation: distinct indices, every configuration well formed with BAM input, every directory
    order duplicate free, and **one reference** for the invocation (`SameRef`: the flags "plain-gzip reference" and "index
    inside the output folder" are those of the invocation's `--reference`, the same in every experiment) -/
def MWF (exps : List Exp) : Prop :=
  (exps.map (fun x => x.1)).Nodup ∧
    (∀ x ∈ exps, WF x.2.1 ∧ x.2.1.fromSaves = false ∧ x.2.2.Nodup) ∧ SameRef exps

theorem idx_unique {exps : List Exp} (nd : (exps.map (fun x => x.1)).Nodup) {x y : Exp} (hx : x ∈ exps) (hy : y ∈ exps)
    (h : x.1 = y.1) : x = y := by
  induction exps with
  | nil => simp at hx
  | cons a l ih =>
    simp only [List.map_cons, List.nodup_cons, List.mem_map, not_exists, not_and] at nd
    simp only [List.mem_cons] at hx hy
    rcases hx with rfl | hx <;> rcases hy with rfl | hy
    · rfl
    · exact absurd h.symm (nd.1 y hy)
    · exact absurd h (nd.1 x hx)
    · exact ih nd.2 hx hy

/-- the same experiments, possibly with other directory orders -/
def SameExps (a b : List Exp) : Prop := a.map (fun x => (x.1, x.2.1)) = b.map (fun x => (x.1, x.2.1))

theorem MInv_same {a b : List Exp} (h : SameExps a b) {m : MFS} (hi : MInv a m) : MInv b m := by
  intro x hx
  have : (x.1, x.2.1) ∈ a.map (fun x => (x.1, x.2.1)) := by
    rw [h]; exact List.mem_map.mpr ⟨x, hx, rfl⟩
  obtain ⟨y, hy, e⟩ := List.mem_map.mp this
  have e1 : y.1 = x.1 := (Prod.mk.injEq _ _ _ _ ▸ e).1
  have e2 : y.2.1 = x.2.1 := (Prod.mk.injEq _ _ _ _ ▸ e).2
  rw [← e1, ← e2]; exact hi y hy

theorem SameRef_same {a b : List Exp} (h : SameExps a b) (hr : SameRef a) : SameRef b := by
  have key : ∀ y ∈ b, ∃ x ∈ a, x.2.1 = y.2.1 := by
    intro y hy
    have : (y.1, y.2.1) ∈ a.map (fun x => (x.1, x.2.1)) := by rw [h]; exact List.mem_map.mpr ⟨y, hy, rfl⟩
    obtain ⟨x, hx, e⟩ := List.mem_map.mp this
    exact ⟨x, hx, (Prod.mk.injEq _ _ _ _ ▸ e).2⟩
  intro y hy z hz
  obtain ⟨x, hx, ex⟩ := key y hy
  obtain ⟨w, hw, ew⟩ := key z hz
  rw [← ex, ← ew]; exact hr x hx w hw

/-- the state after `.params` has been written -/
def afterParamsM (m : MFS) : MFS := mApplyAll m (paramsEvents fixed)

/-- a (first or resumed) invocation from a state in which every experiment's folder satisfies the lock invariant —
    fresh: no locks anywhere, `.params` arbitrary; resumed: `.params` intact —: it completes, its events are the two
    `.params` events followed by events (those of the reference stage, then those of the experiments) along which the
    invariant of **all** experiments holds at every prefix, and the final files of every experiment end up complete and
    correct -/
theorem run_shape_multi {exps : List Exp} (hw : MWF exps) (rs : Bool) {m : MFS}
    (hJ : ∀ x ∈ exps, J0 x.2.1 (m.view x.1)) (hp : rs = true → m.params = some .good)
    (hcl : rs = false → ∀ x ∈ exps, lockList x.2.1 (m.view x.1) = []) :
    ∃ rest : List MEv,
      (runMulti fixed exps rs m).evs = paramsEvents fixed ++ rest ∧ (runMulti fixed exps rs m).ok = true ∧
      MAllP (MInv exps) (afterParamsM m) rest ∧
      ∀ x ∈ exps, FinOK x.2.1 ((runMulti fixed exps rs m).fs.view x.1) := by
  have hclean : cleanAllEvents fixed rs exps m = [] := by
    simp only [cleanAllEvents]
    cases rs with
    | true => rfl
    | false =>
      simp only [fixed, Bool.false_or, Bool.not_true, Bool.false_eq_true, if_false]
      apply List.flatMap_eq_nil_iff.mpr
      intro x hx; rw [hcl rfl x hx]; rfl
  -- the state after `.params`
  have hview : ∀ i p, p ≠ Path.params → p ≠ Path.paramsTmp → (afterParamsM m).view i p = m.view i p := by
    intro i p hp' hp''
    simp only [afterParamsM, paramsEvents, paramsEvs, fixed, if_true, List.map_cons, List.map_nil, mApplyAll]
    rw [view_apply_priv _ _ _ _ (by simpa [Ev.path] using hp'), view_apply_priv _ _ _ _ (by simpa [Ev.path] using hp''),
      view_apply_priv _ _ _ _ (by simpa [Ev.path] using hp''), view_apply_priv _ _ _ _ (by simpa [Ev.path] using hp'')]
  have hpar : (afterParamsM m).params = some .good := by
    simp [afterParamsM, paramsEvents, paramsEvs, fixed, mApplyAll, MFS.apply, Ev.path, Ev.val]
  have hinv : MInv exps (afterParamsM m) := by
    intro x hx
    refine ⟨by rw [view_params, hpar]; rfl, ?_⟩
    intro l hl d hd
    have hdne : d ≠ .params := by
      intro e; subst e; have := mem_guarded_locksOf hd; simp [locksOf] at this
    have hlne : l ≠ .params := by
      intro e; subst e; simp [guarded] at hd
    have hdne' : d ≠ .paramsTmp := by
      intro e; subst e; have := mem_guarded_locksOf hd; simp [locksOf] at this
    have hlne' : l ≠ .paramsTmp := by
      intro e; subst e; simp [guarded] at hd
    simp only [FS.has, FS.good, hview _ _ hdne hdne', hview _ _ hlne hlne'] at hl ⊢
    exact hJ x hx l hl d hd
  have hload : (rs && !(m.view 0).loadable .params) = false := by
    cases rs with
    | false => rfl
    | true => simp [MFS.view, FS.loadable, hp rfl]
  -- the reference stage of the invocation
  obtain ⟨okr, allr, hrefok⟩ := runRef_good rs hw.2.2 hinv
  obtain ⟨ok, hall, _, hfin, _⟩ := runExps_good (all := exps) rs exps (fun x hx => hx) hw.1 hw.2.1
    (fun x hx y hy e => by rw [idx_unique hw.1 hx hy e]) (MAllP_last allr) hrefok
  have hokr : (runRef fixed rs exps (mApplyAll m (paramsEvents fixed))).ok = true := okr
  refine ⟨(runRef fixed rs exps (afterParamsM m)).evs.map (fun e => (0, e)) ++
      (runExps fixed rs exps (mApplyAll (afterParamsM m) ((runRef fixed rs exps (afterParamsM m)).evs.map (fun e => (0, e))))).evs,
    ?_, ?_, MAllP_append.mpr ⟨allr, hall⟩, ?_⟩
  · simp only [runMulti, hclean, mApplyAll, hload, hokr, Bool.false_eq_true, if_false, if_true, List.nil_append]; rfl
  · simp only [runMulti, hclean, mApplyAll, hload, hokr, Bool.false_eq_true, if_false, if_true]; exact ok
  · simp only [runMulti, hclean, mApplyAll, hload, hokr, Bool.false_eq_true, if_false, if_true]; exact hfin

theorem empty_view_lockList (cfg : Cfg) (i : Nat) : lockList cfg (MFS.empty.view i) = [] := by
  simp [lockList, MFS.view, MFS.empty, FS.has, FS.empty]

theorem empty_view_J0 (cfg : Cfg) (i : Nat) : J0 cfg (MFS.empty.view i) := by
  intro l hl; simp [MFS.view, MFS.empty, FS.has, FS.empty] at hl

/-- **crash consistency of an invocation with several experiments**: killed after its parameters were saved — inside
    any experiment —, the folder of *every* experiment is consistent: every lock that exists vouches only for complete,
    correct files, and the shared `.params` is intact -/
theorem crash_state_invariant_multi {exps : List Exp} (hw : MWF exps) (k : Nat) (hk : 4 ≤ k) :
    MInv exps (crashMulti fixed exps MFS.empty k) := by
  obtain ⟨rest, hevs, _, hall, _⟩ := run_shape_multi hw false (m := MFS.empty)
    (fun x _ => empty_view_J0 _ _) (by simp) (fun _ x _ => empty_view_lockList _ _)
  obtain ⟨k', rfl⟩ : ∃ k', k = (paramsEvents fixed).length + k' := ⟨k - 4, by simp [paramsEvents, paramsEvs, fixed]; omega⟩
  simp only [crashMulti, hevs]
  rw [take_length_add, mApplyAll_append]
  exact MAllP_take hall k'

/-- the core of the resume theorems: the resumed invocation works with experiments `exps'` whose configurations have the
    same invariant and the same final files as those of the killed invocation -/
theorem resume_correct_multi_core {exps exps' : List Exp} (hw : MWF exps) (hw' : MWF exps')
    (hI : ∀ m, MInv exps m → MInv exps' m)
    (hF : ∀ x ∈ exps, ∃ y ∈ exps', y.1 = x.1 ∧ finalPaths y.2.1 = finalPaths x.2.1)
    (hne : exps ≠ []) (k : Nat) (hk : 4 ≤ k) : verdictMulti fixed exps exps' MFS.empty k = .equal := by
  have hinv := crash_state_invariant_multi hw k hk
  have hinv' : MInv exps' (crashMulti fixed exps MFS.empty k) := hI _ hinv
  have hpar : (crashMulti fixed exps MFS.empty k).params = some .good := by
    cases exps with
    | nil => exact absurd rfl hne
    | cons x l => exact J_params (hinv x (by simp))
  obtain ⟨_, _, hok, _, hfin⟩ := run_shape_multi hw' true (m := crashMulti fixed exps MFS.empty k)
    (fun x hx => (hinv' x hx).2) (fun _ => hpar) (by simp)
  obtain ⟨_, _, _, _, hfin1⟩ := run_shape_multi hw false (m := MFS.empty)
    (fun x _ => empty_view_J0 _ _) (by simp) (fun _ x _ => empty_view_lockList _ _)
  simp only [verdictMulti, hok, Bool.not_true, Bool.false_eq_true, if_false]
  have : sameFinalsMulti exps (runMulti fixed exps' true (crashMulti fixed exps MFS.empty k)).fs
      (runMulti fixed exps false MFS.empty).fs = true := by
    simp only [sameFinalsMulti, sameFinals, List.all_eq_true, beq_iff_eq]
    intro x hx p hp
    -- the same experiment in the resumed invocation
    obtain ⟨y, hy, e1, e2⟩ := hF x hx
    have h1 := hfin y hy p (by rw [e2]; exact hp)
    have h2 := hfin1 x hx p hp
    simp only [FS.good, beq_iff_eq] at h1 h2
    rw [← e1, h1, e1, h2]
  simp [this]

/-- **the property for an invocation with several experiments**: started in a fresh output folder, killed after any
    `k ≥ 4` events of the invocation (inside the reference stage — while a plain-gzip reference is unpacked or its index
    is built — or inside any experiment), resumed: the resumed invocation completes and the final files of every
    experiment equal those of the uninterrupted invocation -/
theorem resume_correct_multi {exps exps' : List Exp} (hw : MWF exps) (hw' : MWF exps') (hs : SameExps exps exps')
    (hne : exps ≠ []) (k : Nat) (hk : 4 ≤ k) : verdictMulti fixed exps exps' MFS.empty k = .equal := by
  apply resume_correct_multi_core hw hw' (fun m hi => MInv_same hs hi) ?_ hne k hk
  intro x hx
  have : (x.1, x.2.1) ∈ exps'.map (fun x => (x.1, x.2.1)) := by
    rw [← hs]; exact List.mem_map.mpr ⟨x, hx, rfl⟩
  obtain ⟨y, hy, e⟩ := List.mem_map.mp this
  have e2 : y.2.1 = x.2.1 := (Prod.mk.injEq _ _ _ _ ▸ e).2
  exact ⟨y, hy, (Prod.mk.injEq _ _ _ _ ▸ e).1, by rw [e2]⟩

/-- safety half -/
theorem resume_never_silently_wrong_multi {exps exps' : List Exp} (hw : MWF exps) (hw' : MWF exps') (hs : SameExps exps exps')
    (hne : exps ≠ []) (k : Nat) (hk : 4 ≤ k) : verdictMulti fixed exps exps' MFS.empty k ≠ .diff := by
  rw [resume_correct_multi hw hw' hs hne k hk]; decide

/-- liveness half -/
theorem resume_completes_multi {exps exps' : List Exp} (hw : MWF exps) (hw' : MWF exps') (hs : SameExps exps exps')
    (hne : exps ≠ []) (k : Nat) (hk : 4 ≤ k) : verdictMulti fixed exps exps' MFS.empty k ≠ .fail := by
  rw [resume_correct_multi hw hw' hs hne k hk]; decide

/-! ### the options of the resume command line -/

/-- the experiments `b` of the resumed invocation are those of the killed invocation `a` under the options of the resume
    command line (`resumeCfg`: `--high_memory` / `--keep_tmp` switched on by `--resume --high_memory` / `--resume --keep_tmp`,
    one command line for the whole invocation), possibly with other directory orders -/
def SameExpsOpts (hm kt : Bool) (a b : List Exp) : Prop :=
  a.map (fun x => (x.1, resumeCfg x.2.1 hm kt)) = b.map (fun x => (x.1, x.2.1))

/-- **the property for several experiments with the options of the resume command line**: the invocation is killed after
    any `k ≥ 4` events and resumed with *any* choice of `--high_memory` and `--keep_tmp` on the resume command line: the
    resumed invocation completes and the final files of every experiment equal those of the uninterrupted invocation with
    the options of the killed one -/
theorem resume_correct_multi_opts {exps exps' : List Exp} (hm kt : Bool) (hw : MWF exps) (hw' : MWF exps')
    (hs : SameExpsOpts hm kt exps exps') (hne : exps ≠ []) (k : Nat) (hk : 4 ≤ k) :
    verdictMulti fixed exps exps' MFS.empty k = .equal := by
  apply resume_correct_multi_core hw hw' ?_ ?_ hne k hk
  · intro m hi y hy
    have : (y.1, y.2.1) ∈ exps.map (fun x => (x.1, resumeCfg x.2.1 hm kt)) := by
      rw [hs]; exact List.mem_map.mpr ⟨y, hy, rfl⟩
    obtain ⟨x, hx, e⟩ := List.mem_map.mp this
    have e1 : x.1 = y.1 := (Prod.mk.injEq _ _ _ _ ▸ e).1
    have e2 : resumeCfg x.2.1 hm kt = y.2.1 := (Prod.mk.injEq _ _ _ _ ▸ e).2
    rw [← e1, ← e2]; exact (J_resumeCfg hm kt).mpr (hi x hx)
  · intro x hx
    have : (x.1, resumeCfg x.2.1 hm kt) ∈ exps'.map (fun x => (x.1, x.2.1)) := by
      rw [← hs]; exact List.mem_map.mpr ⟨x, hx, rfl⟩
    obtain ⟨y, hy, e⟩ := List.mem_map.mp this
    have e2 : y.2.1 = resumeCfg x.2.1 hm kt := (Prod.mk.injEq _ _ _ _ ▸ e).2
    exact ⟨y, hy, (Prod.mk.injEq _ _ _ _ ▸ e).1, by rw [e2, finalPaths_resumeCfg]⟩

/-- the options of the resume command line keep an invocation well formed -/
theorem MWF_opts {exps exps' : List Exp} (hm kt : Bool) (hw : MWF exps) (hs : SameExpsOpts hm kt exps exps')
    (hord : ∀ y ∈ exps', y.2.2.Nodup) : MWF exps' := by
  have key : ∀ y ∈ exps', ∃ x ∈ exps, x.1 = y.1 ∧ resumeCfg x.2.1 hm kt = y.2.1 := by
    intro y hy
    have : (y.1, y.2.1) ∈ exps.map (fun x => (x.1, resumeCfg x.2.1 hm kt)) := by
      rw [hs]; exact List.mem_map.mpr ⟨y, hy, rfl⟩
    obtain ⟨x, hx, e⟩ := List.mem_map.mp this
    exact ⟨x, hx, (Prod.mk.injEq _ _ _ _ ▸ e).1, (Prod.mk.injEq _ _ _ _ ▸ e).2⟩
  refine ⟨?_, ?_, ?_⟩
  · have h1 : exps'.map (fun x => x.1) = (exps'.map (fun x => (x.1, x.2.1))).map Prod.fst := by
      rw [List.map_map]; rfl
    have h2 : exps.map (fun x => x.1) = (exps.map (fun x => (x.1, resumeCfg x.2.1 hm kt))).map Prod.fst := by
      rw [List.map_map]; rfl
    rw [h1, ← hs, ← h2]; exact hw.1
  · intro y hy
    obtain ⟨x, hx, _, e2⟩ := key y hy
    obtain ⟨wf, hf, _⟩ := hw.2.1 x hx
    rw [← e2]; exact ⟨WF_resumeCfg hm kt wf, hf, hord y hy⟩
  · intro y hy z hz
    obtain ⟨x, hx, _, ex⟩ := key y hy
    obtain ⟨w, hw', _, ew⟩ := key z hz
    rw [← ex, ← ew]; exact hw.2.2 x hx w hw'

/-! ### the counter that is not reset: witness; non-vacuity -/

/-- two experiments, both the toy configuration with unaligned reads -/
def exps2 : List Exp := mkExps [cfg1, cfg1] [ord1, ord1]

theorem exps2_wf : MWF exps2 := by
  refine ⟨by decide, ?_, ?_⟩
  · intro x hx
    simp only [exps2, mkExps, withCarried, List.zip_cons_cons, List.zip_nil_right, List.zipIdx_cons, List.zipIdx_nil,
      List.map_cons, List.map_nil, List.mem_cons, List.not_mem_nil, or_false] at hx
    rcases hx with rfl | rfl <;>
      exact ⟨⟨by decide, by decide, by decide, fun _ => Iff.rfl, fun _ _ h => h⟩, rfl, by decide⟩
  · intro x hx y hy
    simp only [exps2, mkExps, withCarried, List.zip_cons_cons, List.zip_nil_right, List.zipIdx_cons, List.zipIdx_nil,
      List.map_cons, List.map_nil, List.mem_cons, List.not_mem_nil, or_false] at hx hy
    rcases hx with rfl | rfl <;> rcases hy with rfl | rfl <;> exact ⟨rfl, rfl⟩

/-- `mkExps` marks the second experiment: the first one has unaligned reads -/
example : exps2.map (fun x => (x.1, x.2.1.carried)) = [(0, false), (1, true)] := by decide

/-- seeded change B (the counter reset only where reads are collected): killed once the read collection of the
    *second* experiment has finished (event 109 of the invocation = its stage lock), the resumed invocation reports the
    unaligned reads of both experiments in the second one's tables and exits successfully; killed inside the first
    experiment (event 18 = its stage lock) nothing is wrong -/
theorem resume_never_silently_wrong_two_experiments_witness :
    (runMulti counterNotResetBuggy exps2 false MFS.empty).evs[108]? = some (1, .create .lock) ∧
    verdictMulti counterNotResetBuggy exps2 exps2 MFS.empty 109 = .diff ∧
    verdictMulti counterNotResetBuggy exps2 exps2 MFS.empty 18 = .equal := by decide +kernel

-- the hypotheses of `resume_correct_multi` are met by a concrete input: 186 events, kill point 109
example : MWF exps2 ∧ (runMulti fixed exps2 false MFS.empty).evs.length = 186 ∧ 4 ≤ 109 ∧
    verdictMulti fixed exps2 exps2 MFS.empty 109 = .equal :=
  ⟨exps2_wf, by decide +kernel, by omega, resume_correct_multi exps2_wf exps2_wf rfl (by decide) 109 (by omega)⟩

/-! ### a plain-gzip reference with its index inside the folder, two experiments -/

/-- the toy configuration with a plain-gzip reference: the copy and its index are written into the output folder -/
def cfg1g : Cfg := { cfg1 with gzRef := true, idx := true }
def exps2g : List Exp := mkExps [cfg1g, cfg1g] [ord1, ord1]
/-- the same invocation resumed with `--resume --high_memory --keep_tmp` -/
def exps2gO : List Exp := mkExps [resumeCfg cfg1g true true, resumeCfg cfg1g true true] [ord1, ord1]

theorem exps2g_wf : MWF exps2g := by
  refine ⟨by decide, ?_, ?_⟩
  · intro x hx
    simp only [exps2g, mkExps, withCarried, List.zip_cons_cons, List.zip_nil_right, List.zipIdx_cons, List.zipIdx_nil,
      List.map_cons, List.map_nil, List.mem_cons, List.not_mem_nil, or_false] at hx
    rcases hx with rfl | rfl <;>
      exact ⟨⟨by decide, by decide, by decide, fun _ => Iff.rfl, fun _ _ h => h⟩, rfl, by decide⟩
  · intro x hx y hy
    simp only [exps2g, mkExps, withCarried, List.zip_cons_cons, List.zip_nil_right, List.zipIdx_cons, List.zipIdx_nil,
      List.map_cons, List.map_nil, List.mem_cons, List.not_mem_nil, or_false] at hx hy
    rcases hx with rfl | rfl <;> rcases hy with rfl | rfl <;> exact ⟨rfl, rfl⟩

theorem exps2g_opts : SameExpsOpts true true exps2g exps2gO := rfl

theorem exps2gO_wf : MWF exps2gO := by
  apply MWF_opts true true exps2g_wf exps2g_opts
  intro y hy
  simp only [exps2gO, mkExps, withCarried, List.zip_cons_cons, List.zip_nil_right, List.zipIdx_cons, List.zipIdx_nil,
    List.map_cons, List.map_nil, List.mem_cons, List.not_mem_nil, or_false] at hy
  rcases hy with rfl | rfl <;> decide

/-- the reference stage happens once, right after `.params`: events 5–7 unpack the copy, 8–12 build and install its index;
    the first experiment starts with event 13; the second experiment performs no event on these files -/
example : ((runMulti fixed exps2g false MFS.empty).evs.take 12).drop 4 =
    [(0, .create .refFa), (0, .commit .refFa .stale), (0, .commit .refFa .good), (0, .create .refFaiTmp),
     (0, .commit .refFaiTmp .good), (0, .remove .refFaiTmp), (0, .commit .refFaiData .good), (0, .commit .refFai .good)] ∧
    (runMulti fixed exps2g false MFS.empty).evs.length = 194 ∧
    ((runMulti fixed exps2g false MFS.empty).evs.drop 12).all (fun x => !isRefPath x.2.path) = true := by decide +kernel

-- the hypotheses of `resume_correct_multi` / `resume_correct_multi_opts` are met by an invocation with a plain-gzip
-- reference: killed while the copy holds its first pieces (6), between the content and the name of the index (11),
-- inside the second experiment (117: its stage lock); resumed with `--high_memory --keep_tmp` as well
example : MWF exps2g ∧ 4 ≤ 6 ∧ verdictMulti fixed exps2g exps2g MFS.empty 6 = .equal ∧
    verdictMulti fixed exps2g exps2g MFS.empty 11 = .equal ∧
    (runMulti fixed exps2g false MFS.empty).evs[116]? = some (1, .create .lock) ∧
    verdictMulti fixed exps2g exps2g MFS.empty 117 = .equal ∧
    verdictMulti fixed exps2g exps2gO MFS.empty 117 = .equal :=
  ⟨exps2g_wf, by omega, resume_correct_multi exps2g_wf exps2g_wf rfl (by decide) 6 (by omega),
   resume_correct_multi exps2g_wf exps2g_wf rfl (by decide) 11 (by omega), by decide +kernel,
   resume_correct_multi exps2g_wf exps2g_wf rfl (by decide) 117 (by omega),
   resume_correct_multi_opts true true exps2g_wf exps2gO_wf exps2g_opts (by decide) 117 (by omega)⟩

/-- the code before the reference repair (a resumed invocation trusts whatever carries the name of the copy), two
    experiments: killed while the copy holds its first pieces (event 6), the resumed invocation computes **both**
    experiments from the cut reference and exits successfully; killed after the reference stage nothing is wrong -/
theorem resume_never_silently_wrong_multi_ref_witness :
    verdictMulti { fixed with refRewrite := false } exps2g exps2g MFS.empty 6 = .diff ∧
    verdictMulti { fixed with refRewrite := false } exps2g exps2g MFS.empty 13 = .equal := by decide +kernel

end IsoVerif.Props.C07Multi
