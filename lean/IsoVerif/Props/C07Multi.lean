/-
C07, several experiments in one invocation (`--bam_list` / `--yaml`) — resuming an interrupted invocation yields the
outputs of an uninterrupted one, for every experiment.

Model: `IsoVerif.Model.Resume` (Model/ResumeMulti.lean): `runMulti` = lock removal for every experiment, `.params` saved
once, then for every experiment the stages of Model/Resume.lean in the experiment's own folder; a resumed invocation goes
through every experiment again.  The state the experiments share in the process (the alignment counter) is the
configuration flag `carried`, set by `mkExps` / `withCarried` from the experiments before.

Full-strength statement (`resume_correct_multi`): for every list of well-formed experiments (any number, any
configurations, any directory orders in either invocation) and every kill point `k ≥ 2` of the invocation's event list
— inside any experiment —, the resumed invocation completes and the final files of **every** experiment equal those of
the uninterrupted invocation.
-/
import IsoVerif.Lemmas.ResumeMulti
import IsoVerif.Props.C07

namespace IsoVerif.Props.C07Multi
open IsoVerif.Model.Resume IsoVerif.Lemmas.Resume IsoVerif.Props.C07

/-- the experiments of an invocation: distinct indices, every configuration well formed with BAM input and a reference
    pyfaidx reads directly (the unpacking of a plain-gzip reference — once per invocation, in the top-level folder — is
    not part of Model/ResumeMulti.lean), every directory order duplicate free -/
def MWF (exps : List Exp) : Prop :=
  (exps.map (fun x => x.1)).Nodup ∧
    ∀ x ∈ exps, WF x.2.1 ∧ (x.2.1.fromSaves = false ∧ x.2.1.gzRef = false ∧ x.2.1.idx = false) ∧ x.2.2.Nodup

theorem idx_unique {exps : List Exp} (nd : (exps.map (fun x => x.1)).Nodup) {x y : Exp} (hx : x ∈ exps) (hy : y ∈ exps)
    (h : x.1 = y.1) : x = y := by
  induction exps with
  | nil => simp at hx
  | cons a l ih =>
    simp only [List.map_cons, List.nodup_cons, List.mem_map, not_exists, not_and] at nd
    simp only [List.mem_cons] at hx hy
    rcases hx with rfl | hx <;> rcases hy with rfl | hy
    · rfl
    · exact absurd h.symm (nd.1 y hy)
    · exact absurd h (nd.1 x hx)
    · exact ih nd.2 hx hy

/-- the same experiments, possibly with other directory orders -/
def SameExps (a b : List Exp) : Prop := a.map (fun x => (x.1, x.2.1)) = b.map (fun x => (x.1, x.2.1))

theorem MInv_same {a b : List Exp} (h : SameExps a b) {m : MFS} (hi : MInv a m) : MInv b m := by
  intro x hx
  have : (x.1, x.2.1) ∈ a.map (fun x => (x.1, x.2.1)) := by
    rw [h]; exact List.mem_map.mpr ⟨x, hx, rfl⟩
  obtain ⟨y, hy, e⟩ := List.mem_map.mp this
  have e1 : y.1 = x.1 := (Prod.mk.injEq _ _ _ _ ▸ e).1
  have e2 : y.2.1 = x.2.1 := (Prod.mk.injEq _ _ _ _ ▸ e).2
  rw [← e1, ← e2]; exact hi y hy

/-- the state after `.params` has been written -/
def afterParamsM (m : MFS) : MFS := mApplyAll m (paramsEvents fixed)

/-- a (first or resumed) invocation from a state in which every experiment's folder satisfies the lock invariant —
    fresh: no locks anywhere, `.params` arbitrary; resumed: `.params` intact —: it completes, its events are the two
    `.params` events followed by events along which the invariant of **all** experiments holds at every prefix, and the
    final files of every experiment end up complete and correct -/
theorem run_shape_multi {exps : List Exp} (hw : MWF exps) (rs : Bool) {m : MFS}
    (hJ : ∀ x ∈ exps, J0 x.2.1 (m.view x.1)) (hp : rs = true → m.params = some .good)
    (hcl : rs = false → ∀ x ∈ exps, lockList x.2.1 (m.view x.1) = []) :
    ∃ rest : List MEv,
      (runMulti fixed exps rs m).evs = paramsEvents fixed ++ rest ∧ (runMulti fixed exps rs m).ok = true ∧
      MAllP (MInv exps) (afterParamsM m) rest ∧
      ∀ x ∈ exps, FinOK x.2.1 ((runMulti fixed exps rs m).fs.view x.1) := by
  have hclean : cleanAllEvents fixed rs exps m = [] := by
    simp only [cleanAllEvents]
    cases rs with
    | true => rfl
    | false =>
      simp only [fixed, Bool.false_or, Bool.not_true, Bool.false_eq_true, if_false]
      apply List.flatMap_eq_nil_iff.mpr
      intro x hx; rw [hcl rfl x hx]; rfl
  -- the state after `.params`
  have hview : ∀ i p, p ≠ Path.params → p ≠ Path.paramsTmp → (afterParamsM m).view i p = m.view i p := by
    intro i p hp' hp''
    by_cases hi : i = 0 <;>
      simp [afterParamsM, paramsEvents, paramsEvs, fixed, mApplyAll, MFS.apply, IsoVerif.Model.Resume.apply, FS.set, Ev.path, MFS.view, hp', hp'', hi]
  have hpar : (afterParamsM m).params = some .good := by
    simp [afterParamsM, paramsEvents, paramsEvs, fixed, mApplyAll, MFS.apply, Ev.path, Ev.val]
  have hinv : MInv exps (afterParamsM m) := by
    intro x hx
    refine ⟨by rw [view_params, hpar]; rfl, ?_⟩
    intro l hl d hd
    have hdne : d ≠ .params := by
      intro e; subst e; have := mem_guarded_locksOf hd; simp [locksOf] at this
    have hlne : l ≠ .params := by
      intro e; subst e; simp [guarded] at hd
    have hdne' : d ≠ .paramsTmp := by
      intro e; subst e; have := mem_guarded_locksOf hd; simp [locksOf] at this
    have hlne' : l ≠ .paramsTmp := by
      intro e; subst e; simp [guarded] at hd
    simp only [FS.has, FS.good, hview _ _ hdne hdne', hview _ _ hlne hlne'] at hl ⊢
    exact hJ x hx l hl d hd
  have hload : (rs && !(m.view 0).loadable .params) = false := by
    cases rs with
    | false => rfl
    | true => simp [MFS.view, FS.loadable, hp rfl]
  obtain ⟨ok, hall, _, hfin, _⟩ := runExps_good (all := exps) rs exps (fun x hx => hx) hw.1 hw.2
    (fun x hx y hy e => by rw [idx_unique hw.1 hx hy e]) hinv
  refine ⟨(runExps fixed rs exps (afterParamsM m)).evs, ?_, ?_, hall, ?_⟩
  · simp only [runMulti, hclean, mApplyAll, hload, Bool.false_eq_true, if_false, List.nil_append]; rfl
  · simp only [runMulti, hclean, mApplyAll, hload, Bool.false_eq_true, if_false]; exact ok
  · simp only [runMulti, hclean, mApplyAll, hload, Bool.false_eq_true, if_false]; exact hfin

theorem empty_view_lockList (cfg : Cfg) (i : Nat) : lockList cfg (MFS.empty.view i) = [] := by
  simp [lockList, MFS.view, MFS.empty, FS.has, FS.empty]

theorem empty_view_J0 (cfg : Cfg) (i : Nat) : J0 cfg (MFS.empty.view i) := by
  intro l hl; simp [MFS.view, MFS.empty, FS.has, FS.empty] at hl

/-- **crash consistency of an invocation with several experiments**: killed after its parameters were saved — inside
    any experiment —, the folder of *every* experiment is consistent: every lock that exists vouches only for complete,
    correct files, and the shared `.params` is intact -/
theorem crash_state_invariant_multi {exps : List Exp} (hw : MWF exps) (k : Nat) (hk : 4 ≤ k) :
    MInv exps (crashMulti fixed exps MFS.empty k) := by
  obtain ⟨rest, hevs, _, hall, _⟩ := run_shape_multi hw false (m := MFS.empty)
    (fun x _ => empty_view_J0 _ _) (by simp) (fun _ x _ => empty_view_lockList _ _)
  obtain ⟨k', rfl⟩ : ∃ k', k = (paramsEvents fixed).length + k' := ⟨k - 4, by simp [paramsEvents, paramsEvs, fixed]; omega⟩
  simp only [crashMulti, hevs]
  rw [take_length_add, mApplyAll_append]
  exact MAllP_take hall k'

/-- **the property for an invocation with several experiments**: started in a fresh output folder, killed after any
    `k ≥ 2` events of the invocation (inside any experiment), resumed: the resumed invocation completes and the final
    files of every experiment equal those of the uninterrupted invocation -/
theorem resume_correct_multi {exps exps' : List Exp} (hw : MWF exps) (hw' : MWF exps') (hs : SameExps exps exps')
    (hne : exps ≠ []) (k : Nat) (hk : 4 ≤ k) : verdictMulti fixed exps exps' MFS.empty k = .equal := by
  have hinv := crash_state_invariant_multi hw k hk
  have hinv' : MInv exps' (crashMulti fixed exps MFS.empty k) := MInv_same hs hinv
  have hpar : (crashMulti fixed exps MFS.empty k).params = some .good := by
    cases exps with
    | nil => exact absurd rfl hne
    | cons x l => exact J_params (hinv x (by simp))
  obtain ⟨_, _, hok, _, hfin⟩ := run_shape_multi hw' true (m := crashMulti fixed exps MFS.empty k)
    (fun x hx => (hinv' x hx).2) (fun _ => hpar) (by simp)
  obtain ⟨_, _, _, _, hfin1⟩ := run_shape_multi hw false (m := MFS.empty)
    (fun x _ => empty_view_J0 _ _) (by simp) (fun _ x _ => empty_view_lockList _ _)
  simp only [verdictMulti, hok, Bool.not_true, Bool.false_eq_true, if_false]
  have : sameFinalsMulti exps (runMulti fixed exps' true (crashMulti fixed exps MFS.empty k)).fs
      (runMulti fixed exps false MFS.empty).fs = true := by
    simp only [sameFinalsMulti, sameFinals, List.all_eq_true, beq_iff_eq]
    intro x hx p hp
    -- the same experiment in the resumed invocation
    have : (x.1, x.2.1) ∈ exps'.map (fun x => (x.1, x.2.1)) := by
      rw [← hs]; exact List.mem_map.mpr ⟨x, hx, rfl⟩
    obtain ⟨y, hy, e⟩ := List.mem_map.mp this
    have e1 : y.1 = x.1 := (Prod.mk.injEq _ _ _ _ ▸ e).1
    have e2 : y.2.1 = x.2.1 := (Prod.mk.injEq _ _ _ _ ▸ e).2
    have h1 := hfin y hy p (by rw [e2]; exact hp)
    have h2 := hfin1 x hx p hp
    simp only [FS.good, beq_iff_eq] at h1 h2
    rw [← e1, h1, e1, h2]
  simp [this]

/-- safety half -/
theorem resume_never_silently_wrong_multi {exps exps' : List Exp} (hw : MWF exps) (hw' : MWF exps') (hs : SameExps exps exps')
    (hne : exps ≠ []) (k : Nat) (hk : 4 ≤ k) : verdictMulti fixed exps exps' MFS.empty k ≠ .diff := by
  rw [resume_correct_multi hw hw' hs hne k hk]; decide

/-- liveness half -/
theorem resume_completes_multi {exps exps' : List Exp} (hw : MWF exps) (hw' : MWF exps') (hs : SameExps exps exps')
    (hne : exps ≠ []) (k : Nat) (hk : 4 ≤ k) : verdictMulti fixed exps exps' MFS.empty k ≠ .fail := by
  rw [resume_correct_multi hw hw' hs hne k hk]; decide

/-! ### the counter that is not reset: witness; non-vacuity -/

/-- two experiments, both the toy configuration with unaligned reads -/
def exps2 : List Exp := mkExps [cfg1, cfg1] [ord1, ord1]

theorem exps2_wf : MWF exps2 := by
  refine ⟨by decide, ?_⟩
  intro x hx
  simp only [exps2, mkExps, withCarried, List.zip_cons_cons, List.zip_nil_right, List.zipIdx_cons, List.zipIdx_nil,
    List.map_cons, List.map_nil, List.mem_cons, List.not_mem_nil, or_false] at hx
  rcases hx with rfl | rfl <;>
    exact ⟨⟨by decide, by decide, by decide, fun _ => Iff.rfl, fun _ _ h => h⟩, ⟨rfl, rfl, rfl⟩, by decide⟩

/-- `mkExps` marks the second experiment: the first one has unaligned reads -/
example : exps2.map (fun x => (x.1, x.2.1.carried)) = [(0, false), (1, true)] := by decide

/-- seeded change B (the counter reset only where reads are collected): killed once the read collection of the
    *second* experiment has finished (event 109 of the invocation = its stage lock), the resumed invocation reports the
    unaligned reads of both experiments in the second one's tables and exits successfully; killed inside the first
    experiment (event 18 = its stage lock) nothing is wrong -/
theorem resume_never_silently_wrong_two_experiments_witness :
    (runMulti counterNotResetBuggy exps2 false MFS.empty).evs[108]? = some (1, .create .lock) ∧
    verdictMulti counterNotResetBuggy exps2 exps2 MFS.empty 109 = .diff ∧
    verdictMulti counterNotResetBuggy exps2 exps2 MFS.empty 18 = .equal := by decide +kernel

-- the hypotheses of `resume_correct_multi` are met by a concrete input: 186 events, kill point 109
example : MWF exps2 ∧ (runMulti fixed exps2 false MFS.empty).evs.length = 186 ∧ 4 ≤ 109 ∧
    verdictMulti fixed exps2 exps2 MFS.empty 109 = .equal :=
  ⟨exps2_wf, by decide +kernel, by omega, resume_correct_multi exps2_wf exps2_wf rfl (by decide) 109 (by omega)⟩

end IsoVerif.Props.C07Multi
