/-
C11 — translation equivariance of the intron collector / intron graph model (Model/IntronGraph.lean, C04), for ALL
inputs and ALL shifts `k : Int`; reflection where it is true.

Vertices are pairs.  Intron vertices `(start, end)` are shifted as intervals (`shiftIv k`); terminal vertices are
`(negative code, position)` and only their position is shifted (`shiftV k`, = `shiftIv k` on intron vertices).

* Everything that only sees introns — `collect_introns`, the similar-intron map, `cluster_introns`,
  `IntronCollector.process`, `simplify_correction_map`, `IntronGraph.construct`, `thread_introns` — commutes with
  `shiftIv k` with NO hypothesis (no sentinel, no coordinate-valued constant; `delta` / `min_count` are distances / counts).
* The graph operations that also see terminal vertices (`collapse`, `discard`, `attach…`, scoping by `isIntronVertex`) and
  `IntronPathStorage.fill` commute with `shiftV k` on states whose intron vertices stay intron vertices
  (`GoodV k v : 0 ≤ v.1 → 0 ≤ v.1 + k`; trivial for `0 ≤ k`, and in the pipeline intron starts are ≥ 1 before and after the
  shift).  `applyOp_kind_collision_witness` shows the hypothesis is needed: an intron `(0, 5)` shifted by −1 would be
  taken for the terminal vertex `(−1, 4)`.
* Reflection: the `add_edge` calls of a mirrored read are the mirrored calls in reverse order with the two ends swapped
  (outgoing ↔ incoming edges).  The collector itself is NOT mirror-dual: when an unannotated intron is similar to two
  clustered introns it is corrected to the maximum in `(start, end)` tuple order, whose mirror image is the `(end, start)`
  order — `collector_mirror_tie_witness`.
-/
import IsoVerif.Model.IntronGraph
import IsoVerif.Model.C11SymGraph
import IsoVerif.Lemmas.C11Graph

namespace IsoVerif.Props.C11Graph
open IsoVerif.Gen IsoVerif.Model IsoVerif.Model.C11 IsoVerif.Model.C04 IsoVerif.Lemmas.C11 IsoVerif.Lemmas.C11.GraphMap

/-! ## the vertex shift -/

/-- on intron vertices `shiftV` is the interval shift -/
theorem shiftV_intron (k : Int) (v : Iv) (h : 0 ≤ v.1) : shiftV k v = shiftIv k v := shiftV_of_intron k v h

/-- a terminal vertex keeps its code, its position is shifted -/
theorem shiftV_terminal (k : Int) (v : Iv) (h : v.1 < 0) : shiftV k v = (v.1, v.2 + k) := shiftV_of_terminal k v h

/-- insertion of bases (`0 ≤ k`) never changes the kind of a vertex -/
theorem goodV_of_insertion (k : Int) (hk : 0 ≤ k) (v : Iv) : GoodV k v := goodV_of_nonneg k hk v

/-- on vertices that keep their kind the shift by `−k` undoes the shift by `k` -/
theorem shiftV_inverse (k : Int) (v : Iv) (h : GoodV k v) : shiftV (-k) (shiftV k v) = v := shiftV_neg_shiftV k v h

example : GoodV (-255) (300, 420) ∧ shiftV (-255) (300, 420) = (45, 165) ∧
    shiftV (-255) (VERTEX_polya, 500) = (VERTEX_polya, 245) := by decide

/-! ## section: Model/IntronGraph.lean — primitives on vertices -/

/-- tuple order of introns (`sorted`, `max`) -/
theorem shift_equivariant_ivLe (k : Int) (a b : Iv) : ivLe (shiftIv k a) (shiftIv k b) = ivLe a b :=
  shiftIv_lePres k a b

theorem shift_equivariant_sortIv (k : Int) (l : List Iv) : sortIv (shiftL k l) = shiftL k (sortIv l) :=
  sortIv_map (shiftIv k) (shiftIv_lePres k) l

theorem shift_equivariant_maxIv (k : Int) (l : List Iv) : maxIv? (shiftL k l) = (maxIv? l).map (shiftIv k) :=
  maxIv?_map (shiftIv k) (shiftIv_lePres k) l

/-- tuple order with terminal vertices: preserved by `shiftV k` for `0 ≤ k` (all vertices) … -/
theorem shift_equivariant_ivLe_vertices (k : Int) (hk : 0 ≤ k) (a b : Iv) : ivLe (shiftV k a) (shiftV k b) = ivLe a b :=
  shiftV_lePres k hk a b

example : (0 : Int) ≤ 255 := by decide

/-- … but not for `k < 0` when an intron vertex changes kind -/
theorem ivLe_kind_collision_witness : ¬ (∀ (k : Int) (a b : Iv), ivLe (shiftV k a) (shiftV k b) = ivLe a b) := by
  intro h
  exact absurd (h (-3) (-1, 7) (1, 5)) (by decide)

/-! ## section: Model/IntronGraph.lean — IntronCollector (introns only: no hypothesis) -/

/-- `collect_introns`: same counts for the shifted introns -/
theorem shift_equivariant_collectIntrons (k : Int) (reads : List Read) :
    C04.collectIntrons (shiftReads k reads) = (C04.collectIntrons reads).map (mapKey (shiftIv k)) :=
  collectIntrons_map (shiftIv k) (shiftIv_inj k) k reads

theorem shift_equivariant_obsIntrons (k : Int) (reads : List Read) :
    obsIntrons (shiftReads k reads) = shiftL k (obsIntrons reads) :=
  obsIntrons_map (shiftIv k) k reads

/-- `construct_similar_intron_map`: the similar pairs are the shifted pairs (`delta` is a distance) -/
theorem shift_equivariant_simPairs (k : Int) (δ : Int) (l : List Iv) :
    simPairs δ (shiftL k l) = (simPairs δ l).map (mapPair (shiftIv k)) :=
  simPairs_map (shiftIv k) (shiftIv_diffPres k) δ l

theorem shift_equivariant_similarOf (k : Int) (pairs : List (Iv × Iv)) (x : Iv) :
    similarOf (pairs.map (mapPair (shiftIv k))) (shiftIv k x) = shiftL k (similarOf pairs x) :=
  similarOf_map (shiftIv k) (shiftIv_inj k) pairs x

/-- the processing order of `cluster_introns` (`sorted(..., reverse=True)` by (count, intron)) -/
theorem shift_equivariant_sortedByCount (k : Int) (all : List (Iv × Int)) :
    sortedByCount (all.map (mapKey (shiftIv k))) = (sortedByCount all).map (mapCI (shiftIv k)) :=
  sortedByCount_map (shiftIv k) (shiftIv_lePres k) all

/-- one iteration of `cluster_introns` -/
theorem shift_equivariant_clusterStep (k : Int) (pairs : List (Iv × Iv)) (minCount : Int) (c : Collector) (ci : Int × Iv) :
    clusterStep (pairs.map (mapPair (shiftIv k))) minCount (mapCollector (shiftIv k) c) (mapCI (shiftIv k) ci)
      = mapCollector (shiftIv k) (clusterStep pairs minCount c ci) :=
  clusterStep_map (shiftIv k) (shiftIv_inj k) (shiftIv_lePres k) pairs minCount c ci

/-- `cluster_introns` from any collector state -/
theorem shift_equivariant_clusterIntrons (k : Int) (c : Collector) (δ : Int) (all : List (Iv × Int)) (minCount : Int) :
    clusterIntrons (mapCollector (shiftIv k) c) δ (all.map (mapKey (shiftIv k))) minCount
      = mapCollector (shiftIv k) (clusterIntrons c δ all minCount) :=
  clusterIntrons_map (shiftIv k) (shiftIv_inj k) (shiftIv_lePres k) (shiftIv_diffPres k) c δ all minCount

/-- `IntronCollector.process`: known, clustered (with counts), corrected and discarded introns are the shifted ones -/
theorem shift_equivariant_collectorProcess (k : Int) (known : List Iv) (δ : Int) (reads : List Read) (minCount : Int) :
    collectorProcess (shiftL k known) δ (shiftReads k reads) minCount
      = mapCollector (shiftIv k) (collectorProcess known δ reads minCount) :=
  collectorProcess_map (shiftIv k) (shiftIv_inj k) (shiftIv_lePres k) (shiftIv_diffPres k) k known δ reads minCount

/-- a non-trivial instance: an unannotated intron similar to two annotated ones is corrected to the same one -/
example :
    (collectorProcess (shiftL 1000 [(10, 28), (12, 30)]) 2
        (shiftReads 1000 [⟨"r1", [(10, 28)], [], false, "+", false, false, ""⟩, ⟨"r2", [(12, 30)], [], false, "+", false, false, ""⟩,
                          ⟨"r3", [(11, 29)], [], false, "+", false, false, ""⟩]) 2).corr
      = [((1011, 1029), (1012, 1030))] := by decide

/-- `IntronCollector.substitute` -/
theorem shift_equivariant_substitute (k : Int) (c : Collector) (v : Iv) :
    (mapCollector (shiftIv k) c).substitute (shiftIv k v) = shiftIv k (c.substitute v) :=
  substitute_map (shiftIv k) (shiftIv_inj k) c v

/-- `simplify_correction_map` (chains followed, cycles = `none` ↦ `none`) -/
theorem shift_equivariant_simplifyCorrectionMap (k : Int) (c : Collector) :
    (mapCollector (shiftIv k) c).simplifyCorrectionMap = (c.simplifyCorrectionMap).map (mapCollector (shiftIv k)) :=
  simplifyCorrectionMap_map (shiftIv k) (shiftIv_inj k) (shiftIv_lePres k) c

/-! ## section: Model/IntronGraph.lean — graph construction and path threading over introns (no hypothesis) -/

/-- the `add_edge` calls of `IntronGraph.construct` -/
theorem shift_equivariant_constructOps (k : Int) (col : Collector) (reads : List Read) :
    constructOps (mapCollector (shiftIv k) col) (shiftReads k reads) = (constructOps col reads).map (mapOp (shiftIv k)) :=
  constructOps_map (shiftIv k) (shiftIv_inj k) k col reads

/-- `IntronGraph.__init__` up to and including `construct()`: collector and both edge relations are the shifted ones -/
theorem shift_equivariant_constructed (k : Int) (known : List Iv) (δ : Int) (reads : List Read) (minCount : Int) :
    Graph.constructed (shiftL k known) δ (shiftReads k reads) minCount
      = (Graph.constructed known δ reads minCount).map (mapGraph (shiftIv k)) :=
  constructed_map (shiftIv k) (shiftIv_inj k) (shiftIv_lePres k) (shiftIv_diffPres k) k known δ reads minCount

/-- `IntronPathProcessor.thread_introns` (`none` = a discarded intron ↦ `none`) -/
theorem shift_equivariant_threadIntrons (k : Int) (c : Collector) (l : List Iv) :
    threadIntrons (mapCollector (shiftIv k) c) (shiftL k l) = (threadIntrons c l).map (shiftL k) :=
  threadIntrons_map (shiftIv k) (shiftIv_inj k) c l

/-- every graph operation, on graphs whose vertices are all shifted as intervals (e.g. before terminal vertices are
    attached) -/
theorem shift_equivariant_applyOp_intervals (k : Int) (g : Graph) (op : Op) :
    applyOp (mapGraph (shiftIv k) g) (mapOp (shiftIv k) op) = (applyOp g op).map (mapGraph (shiftIv k)) :=
  applyOp_map (shiftIv k) (shiftIv_inj k) (shiftIv_lePres k) g op

/-! ## section: Model/IntronGraph.lean — operations and histories with terminal vertices (`shiftV`) -/

/-- effect of one operation (`add_edge`, `collapse_vertex`, deletions, `discard`, `simplify_correction_map`,
    `attach_terminal_positions` …); `none` (the code raises) ↦ `none` -/
theorem shift_equivariant_applyOp (k : Int) (g : Graph) (op : Op) (hg : GoodG k g) (ho : GoodOp k op) :
    applyOp (mapGraph (shiftV k) g) (mapOp (shiftV k) op) = (applyOp g op).map (mapGraph (shiftV k)) :=
  applyOp_shiftV k g op hg ho

/-- the hypotheses hold for a graph with a terminal vertex and a negative shift -/
example : GoodG (-255) ⟨⟨[(300, 400)], [((300, 400), 3)], [], []⟩, [((300, 400), (VERTEX_polya, 520))], []⟩ ∧
    GoodOp (-255) (.attachOut (300, 400) (VERTEX_read_end, 530)) := by decide

/-- without them the statement is false: the intron `(0, 5)` shifted by −1 collides with the terminal vertex `(−1, 5)` -/
theorem applyOp_kind_collision_witness :
    ¬ (∀ (k : Int) (g : Graph) (op : Op),
        applyOp (mapGraph (shiftV k) g) (mapOp (shiftV k) op) = (applyOp g op).map (mapGraph (shiftV k))) := by
  intro h
  exact absurd (h (-1) ⟨⟨[], [], [], []⟩, [((0, 5), (3, 9)), ((-1, 5), (7, 7))], []⟩ (.delOut (0, 5))) (by decide)

/-- the scoping test of an operation (arguments are observed introns / vertices of the graph / terminal vertices) -/
theorem shift_equivariant_opScoped (k : Int) (obs : List Iv) (g : Graph) (op : Op)
    (hobs : ∀ v ∈ obs, GoodV k v) (hg : GoodG k g) (ho : GoodOp k op) :
    opScoped (obs.map (shiftV k)) (mapGraph (shiftV k) g) (mapOp (shiftV k) op) = opScoped obs g op :=
  opScoped_shiftV k obs g op hobs hg ho

example : (∀ v ∈ [((300, 400) : Iv)], GoodV (-255) v) ∧ GoodG (-255) ⟨⟨[], [((300, 400), 3)], [], []⟩, [], []⟩ ∧
    GoodOp (-255) (.attachInc (300, 400) (VERTEX_polyt, 280)) := by decide

/-- a history of operations (`simplify`, `attach_terminal_positions` are such histories) -/
theorem shift_equivariant_runOps (k : Int) (obs : List Iv) (g : Graph) (ops : List Op)
    (hobs : ∀ v ∈ obs, GoodV k v) (hg : GoodG k g) (ho : ∀ op ∈ ops, GoodOp k op) :
    runOps (obs.map (shiftV k)) (mapGraph (shiftV k) g) (ops.map (mapOp (shiftV k)))
      = (runOps obs g ops).map (mapGraph (shiftV k)) :=
  runOps_shiftV k obs g ops hobs hg ho

example : (∀ v ∈ [((300, 400) : Iv), (450, 500)], GoodV (-255) v) ∧
    (∀ op ∈ [Op.addEdge (300, 400) (450, 500), Op.attachOut (450, 500) (VERTEX_polya, 620)], GoodOp (-255) op) := by
  decide

/-! ## section: Model/IntronGraph.lean — IntronPathStorage.fill

`thread_ends` / `thread_starts` are parameters of the model; the hypothesis says that the functions used on the shifted
graph (`p'`) answer, for the shifted intron and read end, with the shifted vertex (`ParamsRel`).  This is what the
real `thread_ends` / `thread_starts` do: they search the vertices attached to the intron within fixed distances of the
read end (checked on the real code by C11's oracle `thread_case`). -/

/-- the path of one read and its full-length flag (`none` = the read is skipped / `IndexError` ↦ `none`) — all `k` -/
theorem shift_equivariant_readPath (k : Int) (p p' : ThreadParams) (hp : ParamsRel (shiftV k) k p p')
    (hgp : GoodParams k p) (g : Graph) (a : Read) (hg : GoodG k g) (hr : ∀ v ∈ a.introns, GoodV k v) :
    readPath (mapGraph (shiftV k) g) p' (mapRead (shiftV k) k a) = (readPath g p a).map (mapPath (shiftV k)) :=
  readPath_shiftV k p p' hp hgp g a hg hr

/-- `IntronPathStorage.fill`: paths with counts, full-length paths, reads per path — all `k` -/
theorem shift_equivariant_fillPaths (k : Int) (p p' : ThreadParams) (hp : ParamsRel (shiftV k) k p p')
    (hgp : GoodParams k p) (g : Graph) (reads : List Read) (hg : GoodG k g)
    (hr : ∀ r ∈ reads, ∀ v ∈ r.introns, GoodV k v) :
    fillPaths (mapGraph (shiftV k) g) p' (reads.map (mapRead (shiftV k) k))
      = mapStore (shiftV k) k (fillPaths g p reads) :=
  fillPaths_shiftV k p p' hp hgp g reads hg hr

/-- the hypotheses on the thread functions are satisfiable for every `k`: a polyA vertex 5 bases behind the read end,
    a read-start vertex at the read start -/
example (k : Int) :
    let p : ThreadParams := ⟨fun _ e _ => some (VERTEX_polya, e + 5), fun _ s _ => some (VERTEX_read_start, s), true⟩
    ParamsRel (shiftV k) k p p ∧ GoodParams k p := by
  intro p
  refine ⟨⟨?_, ?_, rfl⟩, ?_, ?_⟩
  · intro i e t
    simp only [p, Option.map_some, Option.some.injEq]
    rw [shiftV_of_terminal k _ (show VERTEX_polya < 0 by decide)]
    ext <;> dsimp only <;> omega
  · intro i s t
    simp only [p, Option.map_some, Option.some.injEq]
    rw [shiftV_of_terminal k _ (show VERTEX_read_start < 0 by decide)]
  · intro i e t v h
    simp only [p, Option.some.injEq] at h
    subst h
    intro h0
    exact absurd h0 (show ¬ 0 ≤ VERTEX_polya by decide)
  · intro i s t v h
    simp only [p, Option.some.injEq] at h
    subst h
    intro h0
    exact absurd h0 (show ¬ 0 ≤ VERTEX_read_start by decide)

/-! ## section: Model/IntronGraph.lean — reflection -/

/-- the `add_edge` calls of the mirrored read are the mirrored calls, in reverse order, ends swapped -/
theorem mirror_dual_readEdgeOps (L : Int) (l : List Iv) :
    readEdgeOps (mirrorL L l) = ((readEdgeOps l).map (mirrorOp L)).reverse :=
  readEdgeOps_mirror L l

/-- `add_edge` on the mirrored graph (outgoing ↔ incoming edge sets) -/
theorem mirror_dual_addEdge (L : Int) (g : Graph) (v1 v2 : Iv) :
    applyOp (mirrorGraph L g) (mirrorOp L (.addEdge v1 v2)) = (applyOp g (.addEdge v1 v2)).map (mirrorGraph L) := by
  simp only [mirrorOp, applyOp, addEdge_mirror, Option.map_some]

/-- `collect_introns` counts occurrences in the non-multimapper reads (declarative form used for the reflection) -/
theorem collectIntrons_counts (reads : List Read) (x : Iv) :
    cnt (C04.collectIntrons reads) x = ((obsIntrons reads).count x : Int) :=
  cnt_collectIntrons reads x

/-- reflection of `collect_introns`: every mirrored intron is counted as often as the intron (the dict is insertion
    ordered, so only the counts — not the list — are mirror images) -/
theorem mirror_dual_collectIntrons_counts (L : Int) (reads : List Read) (x : Iv) :
    cnt (C04.collectIntrons (reads.map (mirrorRead L))) (mirrorIv L x) = cnt (C04.collectIntrons reads) x :=
  cnt_collectIntrons_mirror L reads x

example : cnt (C04.collectIntrons ([⟨"r1", [(10, 28), (40, 60)], [], false, "+", false, false, ""⟩,
      ⟨"r2", [(40, 60)], [], false, "-", false, false, ""⟩].map (mirrorRead 100))) (mirrorIv 100 (40, 60)) = 2 := by decide

/-- `thread_introns` of the mirrored read on the mirrored collector: the mirrored path (`none` ↦ `none`) -/
theorem mirror_dual_threadIntrons (L : Int) (c : Collector) (l : List Iv) :
    threadIntrons (mapCollector (mirrorIv L) c) (mirrorL L l) = (threadIntrons c l).map (mirrorL L) :=
  threadIntrons_mirror L c l

/-- full-strength reflection statement of the collector: the correction of every intron is the mirrored correction -/
def CollectorMirror : Prop :=
  ∀ (L : Int) (known : List Iv) (δ : Int) (reads : List Read) (minCount : Int) (x : Iv),
    amGet? (collectorProcess (mirrorL L known) δ (reads.map (mirrorRead L)) minCount).corr (mirrorIv L x)
      = (amGet? (collectorProcess known δ reads minCount).corr x).map (mirrorIv L)

/-- it is false: `(11, 29)` is similar to the annotated `(10, 28)` and `(12, 30)`; the code corrects it to the maximum in
    `(start, end)` order — `(12, 30)` — and in the mirrored run to the mirror image of `(10, 28)` -/
theorem collector_mirror_tie_witness : ¬ CollectorMirror := by
  intro h
  exact absurd (h 100 [(10, 28), (12, 30)] 2
    [⟨"r1", [(10, 28)], [], false, "+", false, false, ""⟩, ⟨"r2", [(12, 30)], [], false, "+", false, false, ""⟩,
     ⟨"r3", [(11, 29)], [], false, "+", false, false, ""⟩] 2 (11, 29)) (by decide)

end IsoVerif.Props.C11Graph
