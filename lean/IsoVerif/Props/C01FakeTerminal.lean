/-
C01 — audit finding C01-G1 (fake terminal exon hides the overhang of the next exon) and its repair.

`categorize_exon_elongation_subtype` measured the read's overhang over the isoform ends on the OUTERMOST read exon only.
When that exon is a short exon outside the isoform (which `JunctionComparator.add_extra_out_exon_events` excuses as
`fake_terminal_exon_left/right`, a minor event) no elongation event was produced, however far the NEXT exon runs past the
isoform end: a read whose second exon starts 500 bp upstream of the transcript was `unique_minor_difference`.
  * `elongationEventsOrig` (Model/Assign.lean) = the code before the repair, `elongationEventsOrig_witness` = the failing input;
  * `elongationEvents` = the repaired code (`fix_fake_terminal_elongation.patch`): the overhang is measured on `measuredExon`;
  * `far_never_consistent` is re-proved with tolerance class (d) tightened to what the repaired code tolerates
    (`toleratedFix`, `fakeTerminalWithin`); the old statement is kept as `C01Converse.far_never_consistent` (coarse class).
-/
import IsoVerif.Props.C01Converse

namespace IsoVerif.Props.C01FakeTerminal
open IsoVerif.Gen IsoVerif.Model IsoVerif.Model.C01 IsoVerif.Lemmas IsoVerif.Lemmas.C01 IsoVerif.Lemmas.C01Cmp
open IsoVerif.Props.C01 IsoVerif.Props.C01Compare IsoVerif.Props.C01Converse

/-! ### the failing input -/

def wIso : List Isoform := [⟨[(5000, 5400), (6000, 6400), (7000, 7400)], .plus⟩]
def wRead : List Iv := [(4000, 4020), (4500, 5400), (6000, 6400), (7000, 7400)]
def wReadR : List Iv := [(5000, 5400), (6000, 6400), (7000, 7900), (8400, 8420)]
def noPolyA : PolyA := ⟨-1, -1, -1, -1⟩

/-- event types of an elongation function on the witness annotation -/
def elongTypes (f : Gene → Params → ReadProf → IsoInfo → Option (List Event)) (blocks : List Iv) :
    Option (List (MatchEventSubtype × Int)) :=
  match Gene.fromModels wIso with
  | none => none
  | some g =>
    match constructProfiles g exP blocks noPolyA, g.isos[0]? with
    | some rp, some I => (f g exP rp I).map (fun l => l.map (fun e => (e.ty, e.info)))
    | _, _ => none

/-- the comparator's event types for the witness read -/
def cmpTypes (blocks : List Iv) : Option (List MatchEventSubtype) :=
  match Gene.fromModels wIso with
  | none => none
  | some g =>
    match constructProfiles g exP blocks noPolyA with
    | some rp => (cjModel g exP exQ rp 0).map (fun l => l.map (·.ty))
    | none => none

/-- **elongationEventsOrig_witness** (audit finding C01-G1; `default` preset): isoform (5000-5400, 6000-6400, 7000-7400), read
    (4000-4020, 4500-5400, 6000-6400, 7000-7400).  The comparator's only event is `fake_terminal_exon_left`.  The code
    BEFORE the repair produces no event for the left end (the 21-bp exon does not overlap the isoform), so the event set
    classifies as `unique_minor_difference` although the read's second exon starts 500 bp before the transcript; the
    repaired code reports `major_exon_elongation_left 500` and the assignment is `inconsistent_non_intronic` — as both
    versions do for the same read without the 21-bp exon (6th conjunct).  Mirror image at the right end. -/
theorem elongationEventsOrig_witness :
    cmpTypes wRead = some [.fake_terminal_exon_left] ∧
    elongTypes elongationEventsOrig wRead = some [(.terminal_site_match_right_precise, 0)] ∧
    classifyEvents false [.fake_terminal_exon_left, .terminal_site_match_right_precise] = .unique_minor_difference ∧
    elongTypes elongationEvents wRead = some [(.major_exon_elongation_left, 500), (.terminal_site_match_right_precise, 0)] ∧
    viewA (assignReadM wIso exP exQ wRead noPolyA) = some (.inconsistent_non_intronic, [some 0], .inconsistent) ∧
    elongTypes elongationEventsOrig wRead.tail
      = some [(.major_exon_elongation_left, 500), (.terminal_site_match_right_precise, 0)] ∧
    cmpTypes wReadR = some [.fake_terminal_exon_right] ∧
    elongTypes elongationEventsOrig wReadR = some [(.terminal_site_match_left_precise, 0)] ∧
    elongTypes elongationEvents wReadR = some [(.terminal_site_match_left_precise, 0), (.major_exon_elongation_right, 500)] ∧
    viewA (assignReadM wIso exP exQ wReadR noPolyA) = some (.inconsistent_non_intronic, [some 0], .inconsistent) := by
  refine ⟨by decide +kernel, by decide +kernel, by decide +kernel, by decide +kernel, by decide +kernel, by decide +kernel,
    by decide +kernel, by decide +kernel, by decide +kernel, by decide +kernel⟩

/-- a TOLERATED fake terminal exon (next exon starts at the transcript start) stays `unique_minor_difference` after the
    repair and gains `terminal_site_match_left_precise` -/
example : viewA (assignReadM wIso exP exQ [(4000, 4020), (5000, 5400), (6000, 6400), (7000, 7400)] noPolyA)
      = some (.unique_minor_difference, [some 0], .inconsistent) ∧
    elongTypes elongationEvents [(4000, 4020), (5000, 5400), (6000, 6400), (7000, 7400)]
      = some [(.terminal_site_match_left_precise, 0), (.terminal_site_match_right_precise, 0)] := by
  refine ⟨by decide +kernel, by decide +kernel⟩

/-- where nothing changed: reads whose outermost exons are long, or overlap the common split exon -/
theorem measuredExon_eq_of_long (p : Params) (o : Iv) (nx : Option Iv) (s : Iv)
    (h : p.max_fake_terminal_exon_len < interval_len o ∨ overlaps o s = true) : measuredExon p o nx s = o := by
  cases nx with
  | none => rfl
  | some n =>
    simp only [measuredExon]
    rcases h with h | h
    · have : decide (interval_len o ≤ p.max_fake_terminal_exon_len) = false := by simp; omega
      simp [this]
    · simp [h]

/-- the repaired function agrees with the original one on every read whose first and last exon are longer than
    `max_fake_terminal_exon_len` (in particular on mono-exonic reads' only exon: `next = none`) -/
theorem elongationEvents_eq_orig_of_long (g : Gene) (p : Params) (rp : ReadProf) (I : IsoInfo)
    (h1 : ∀ fr, rp.blocks.head? = some fr → p.max_fake_terminal_exon_len < interval_len fr)
    (h2 : ∀ lr, rp.blocks.getLast? = some lr → p.max_fake_terminal_exon_len < interval_len lr) :
    elongationEvents g p rp I = elongationEventsOrig g p rp I := by
  unfold elongationEvents elongationEventsOrig
  simp only
  split
  · rfl
  · split
    · rfl
    · split
      · rfl
      · split
        · rfl
        · split
          · rename_i fr lr sf sl hfr hlr _ _
            rw [measuredExon_eq_of_long p fr _ sf (Or.inl (h1 fr hfr)),
              measuredExon_eq_of_long p lr _ sl (Or.inl (h2 lr hlr))]
          · rfl

/-! ### class (d′) on the positions, given the split-exon marks -/

theorem commonFirst_head (as bs : List Int) (i : Int) : commonFirst (1 :: as) (1 :: bs) i = i := by
  simp [commonFirst]

theorem drop_of_getElem_some {α} (l : List α) (k : Nat) (x : α) (h : l[k]? = some x) : l.drop k = x :: l.drop (k + 1) := by
  have hk : k < l.length := (List.getElem?_eq_some_iff.mp h).1
  rw [List.drop_eq_getElem_cons hk]
  congr 1
  exact (List.getElem?_eq_some_iff.mp h).2

/-- **majorOverhang_left_of_marks**: what `majorOverhang … true` (class (d′)) means on the positions, given the marks of the
    split-exon profiles: the isoform's FIRST atom `a0` (index `k = splitRange.1`, marked 1 in the isoform's profile) is also
    marked 1 for the read, the read's first exon is short and outside `a0`, and the NEXT exon overlaps `a0` and starts more
    than `minor_exon_extension` before it ⇒ the repaired elongation test reports a major overhang at the left end -/
theorem majorOverhang_left_of_marks (g : Gene) (p : Params) (rp : ReadProf) (I : IsoInfo) (k : Nat) (fr nx a0 : Iv)
    (hk : I.splitRange.1 = (k : Int)) (hrange : rp.split.range.1 ≤ (k : Int))
    (hI : I.splitProf[k]? = some 1) (hR : rp.split.gene[k]? = some 1) (ha : g.splitExons[k]? = some a0)
    (hfr : rp.blocks.head? = some fr) (hnx : rp.blocks[1]? = some nx)
    (hout : overlaps fr a0 = false) (hshort : interval_len fr ≤ p.max_fake_terminal_exon_len)
    (hov : overlaps nx a0 = true) (hfar : p.minor_exon_extension < a0.1 - nx.1)
    (hsome : (elongationEvents g p rp I).isSome = true) :
    majorOverhang g p rp I true = true := by
  have hmax : max (k : Int) rp.split.range.1 = (k : Int) := by omega
  have hcf : commonFirst (I.splitProf.drop k) (rp.split.gene.drop k) (k : Int) = (k : Int) := by
    rw [drop_of_getElem_some _ _ _ hI, drop_of_getElem_some _ _ _ hR]; exact commonFirst_head _ _ _
  have hpg : pyGet? g.splitExons (k : Int) = some a0 := by
    simp [pyGet?, ha]
  have hk0 : ¬ ((k : Int) < 0) := by omega
  have hk1 : ¬ ((k : Int) = -1) := by omega
  obtain ⟨el, hel⟩ := Option.isSome_iff_exists.mp hsome
  have hmo : majorOverhang g p rp I true = el.any (fun e => decide (e.ty = MatchEventSubtype.major_exon_elongation_left)) := by
    simp [majorOverhang, hel]
  rw [hmo]
  unfold elongationEvents at hel
  simp only [hk, hmax, Int.toNat_natCast, hcf, hk0, hk1, and_false, if_false, hpg, hfr, hnx] at hel
  split at hel
  · cases hel
  · split at hel
    · rename_i fr' lr' sf' sl' e1 _ e3 _
      cases e1; cases e3
      simp only [Option.some.injEq] at hel
      subst hel
      have hm : measuredExon p fr (some nx) a0 = nx := by
        simp [measuredExon, hout, hshort]
      simp only [hm, hov, if_true, List.any_append, Bool.or_eq_true]
      left
      rw [List.any_eq_true]
      refine ⟨{ ty := MatchEventSubtype.major_exon_elongation_left, info := a0.1 - nx.1 }, ?_, by simp⟩
      unfold endEvents
      simp only [decide_true, if_true]
      apply List.mem_append_right
      have hgt : a0.1 - nx.1 > p.minor_exon_extension := hfar
      simp [hgt]
    · cases hel

/-- **majorOverhang_right_of_marks**: mirror image — the isoform's LAST atom is shared, the last read exon is short and outside
    it, the exon before it overlaps the atom and ends more than `minor_exon_extension` after it -/
theorem majorOverhang_right_of_marks (g : Gene) (p : Params) (rp : ReadProf) (I : IsoInfo) (k : Nat) (lr nx a0 : Iv)
    (hk : I.splitRange.2 - 1 = (k : Int)) (hrange : (k : Int) ≤ rp.split.range.2 - 1)
    (hI : I.splitProf[k]? = some 1) (hR : rp.split.gene[k]? = some 1) (ha : g.splitExons[k]? = some a0)
    (hlr : rp.blocks.getLast? = some lr) (hnx : rp.blocks.reverse[1]? = some nx)
    (hout : overlaps lr a0 = false) (hshort : interval_len lr ≤ p.max_fake_terminal_exon_len)
    (hov : overlaps nx a0 = true) (hfar : p.minor_exon_extension < nx.2 - a0.2)
    (hsome : (elongationEvents g p rp I).isSome = true) :
    majorOverhang g p rp I false = true := by
  have hmin : min (k : Int) (rp.split.range.2 - 1) = (k : Int) := by omega
  have hpgI : pyGet? I.splitProf (k : Int) = some 1 := by simp [pyGet?, hI]
  have hpgR : pyGet? rp.split.gene (k : Int) = some 1 := by simp [pyGet?, hR]
  have hcl : commonLast I.splitProf rp.split.gene ((k : Int) + 1).toNat (k : Int) = some (k : Int) := by
    have : ((k : Int) + 1).toNat = k + 1 := by omega
    rw [this]
    simp [commonLast, hpgI, hpgR]
  have hpg : pyGet? g.splitExons (k : Int) = some a0 := by
    simp [pyGet?, ha]
  obtain ⟨el, hel⟩ := Option.isSome_iff_exists.mp hsome
  have hmo : majorOverhang g p rp I false = el.any (fun e => decide (e.ty = MatchEventSubtype.major_exon_elongation_right)) := by
    simp [majorOverhang, hel]
  rw [hmo]
  unfold elongationEvents at hel
  simp only [hk, hmin, hcl, hpg, hlr, hnx] at hel
  split at hel
  · cases hel
  · split at hel
    · cases hel
    · split at hel
      · cases hel
      · split at hel
        · rename_i fr' lr' sf' sl' _ e2 _ e4
          cases e2; cases e4
          simp only [Option.some.injEq] at hel
          subst hel
          have hm : measuredExon p lr (some nx) a0 = nx := by
            simp [measuredExon, hout, hshort]
          simp only [hm, hov, if_true, List.any_append, Bool.or_eq_true]
          right
          rw [List.any_eq_true]
          refine ⟨{ ty := MatchEventSubtype.major_exon_elongation_right, info := nx.2 - a0.2 }, ?_, by simp⟩
          unfold endEvents
          simp only [decide_true, if_true]
          apply List.mem_append_right
          have hgt : nx.2 - a0.2 > p.minor_exon_extension := hfar
          simp [hgt]
        · cases hel

/-- the hypotheses of the two characterisation lemmas evaluated on the witness reads (non-vacuity) -/
def marksHyp (blocks : List Iv) (left : Bool) : Option Bool :=
  match Gene.fromModels wIso with
  | none => none
  | some g =>
    match constructProfiles g exP blocks noPolyA, g.isos[0]? with
    | some rp, some I =>
      if left then
        match rp.blocks.head?, rp.blocks[1]?, g.splitExons[0]? with
        | some fr, some nx, some a0 =>
          some (decide (I.splitRange.1 = 0) && decide (rp.split.range.1 ≤ 0) && decide (I.splitProf[0]? = some 1) &&
            decide (rp.split.gene[0]? = some 1) && !overlaps fr a0 && decide (interval_len fr ≤ exP.max_fake_terminal_exon_len) &&
            overlaps nx a0 && decide (exP.minor_exon_extension < a0.1 - nx.1) && (elongationEvents g exP rp I).isSome)
        | _, _, _ => none
      else
        match rp.blocks.getLast?, rp.blocks.reverse[1]?, g.splitExons[2]? with
        | some lr, some nx, some a0 =>
          some (decide (I.splitRange.2 - 1 = 2) && decide ((2 : Int) ≤ rp.split.range.2 - 1) && decide (I.splitProf[2]? = some 1) &&
            decide (rp.split.gene[2]? = some 1) && !overlaps lr a0 && decide (interval_len lr ≤ exP.max_fake_terminal_exon_len) &&
            overlaps nx a0 && decide (exP.minor_exon_extension < nx.2 - a0.2) && (elongationEvents g exP rp I).isSome)
        | _, _, _ => none
    | _, _ => none

example : marksHyp wRead true = some true ∧ marksHyp wReadR false = some true := by
  refine ⟨by decide +kernel, by decide +kernel⟩

/-! ### the converse clause with tolerance (d) tightened -/

/-- without any polyA / polyT position `verify_read_ends` deletes nothing -/
theorem verifyReadEnds_noTail {p : Params} {rp : ReadProf} {I : IsoInfo} {evs r : List Event}
    (ht : hasTail rp.polya = false) (h : verifyReadEnds p rp I evs = some r) : ∀ e ∈ evs, e ∈ r := by
  simp only [hasTail, Bool.not_eq_false', Bool.and_eq_true, decide_eq_true_eq] at ht
  obtain ⟨⟨⟨h1, h2⟩, h3⟩, h4⟩ := ht
  intro e he
  have hne : evs ≠ [] := by intro c; rw [c] at he; cases he
  unfold verifyReadEnds at h
  simp only [checkInternal, h1, h2, h3, h4] at h
  cases hs : I.strand <;> simp [hs, hne] at h <;> (subst h; exact he)

/-- a major overhang reported by the elongation test is a major-inconsistency event of the elongation events -/
theorem majorOverhang_event {g : Gene} {p : Params} {rp : ReadProf} {I : IsoInfo} {left : Bool} {el : List Event}
    (hel : elongationEvents g p rp I = some el) (h : majorOverhang g p rp I left = true) :
    ∃ e ∈ el, e.ty.is_major_inconsistency = true := by
  simp only [majorOverhang, hel, List.any_eq_true, decide_eq_true_eq] at h
  obtain ⟨e, he, hty⟩ := h
  refine ⟨e, he, ?_⟩
  rw [hty]
  cases left <;> decide

/-- **far_never_consistent** (tolerance (d) tightened to the class the REPAIRED code tolerates): the assigner with the
    modelled comparator never reports unique / unique_minor_difference / ambiguous for a read that has an intron `r` which
    equals no annotated intron within δ and is, w.r.t. every isoform of the gene, in none of the classes
    (a) suspicious-short intron, (b) intron shift, (c) missed short exon,
    (d′) `fakeTerminalWithin`: first / last intron behind a first / last read exon of at most `max_fake_terminal_exon_len`
         AND the next exon within the ordinary elongation tolerance (the code's elongation test, applied to the next exon,
         reports no major overhang at that end; reads carrying a polyA / polyT position are not covered),
    (e) the known-finding class `terminalMisalignmentClass`.
    Compared with `C01Converse.far_never_consistent` the theorem now also speaks about every read with a short outermost
    exon whose NEXT exon overhangs the isoform by more than `minor_exon_extension` — the class on which the statement was
    false before the repair (`elongationEventsOrig_witness`). -/
theorem far_never_consistent (ms : List Isoform) (p : Params) (q : CParams) (blocks : List Iv) (pa : PolyA) (g : Gene)
    (rp : ReadProf) (a : Assignment) (path : Path)
    (hg : Gene.fromModels ms = some g) (hrp : constructProfiles g p blocks pa = some rp)
    (i : Nat) (r : Iv) (hr : (junctionsFromBlocks blocks)[i]? = some r)
    (hfar : ∀ k ∈ g.introns, equal_ranges r k p.delta = false)
    (hall : ∀ I ∈ g.isos, ChainsWF p.delta (junctionsFromBlocks blocks) rp.region I.introns I.region ∧
      toleratedFix g p q rp I i r = false)
    (h : assignToIsoformM g p q rp = some (a, path)) : a.ty.is_consistent = false := by
  obtain ⟨_, _, hintr, _, _⟩ := C01Path.constructProfiles_spec g p blocks pa rp hrp
  by_cases hc : ∀ I ∈ g.isos,
      tolerated (cmpCtxOf g p q) (junctionsFromBlocks blocks) rp.region I.introns I.region i r = false
  · exact C01Converse.far_never_consistent ms p q blocks pa g rp a path hg hrp i r hr hfar
      (fun I hI => ⟨(hall I hI).1, hc I hI⟩) h
  · -- some isoform is excused by the COARSE class only: the read has a short outermost exon at the side of intron i
    have hfake : fakeTerminalTolerated (cmpCtxOf g p q) rp.introns rp.region i = true := by
      apply Classical.byContradiction
      intro hne
      apply hc
      intro I hI
      have hf := (hall I hI).2
      simp only [toleratedFix, Bool.or_eq_false_iff] at hf
      obtain ⟨⟨⟨⟨f1, f2⟩, f3⟩, _⟩, f5⟩ := hf
      rw [hintr] at f5 hne
      simp only [tolerated, f1, f2, f3, f5, Bool.or_false, Bool.false_or]
      simpa using hne
    cases hcons : a.ty.is_consistent with
    | false => rfl
    | true =>
      exfalso
      obtain ⟨_, best, hne, _, hsel, hnomaj⟩ :=
        C01Far.far_never_consistent_partial p blocks pa (cjModel g p q rp) g rp a path hrp r (List.mem_of_getElem? hr) hfar h
          hcons
      cases best with
      | nil => exact hne rfl
      | cons Ie rest =>
        obtain ⟨hIe, ev0, el, _, _, hel, hver⟩ := hsel Ie (by simp)
        have hf := (hall Ie.1 hIe).2
        simp only [toleratedFix, Bool.or_eq_false_iff] at hf
        obtain ⟨⟨_, f4⟩, _⟩ := hf
        -- the side on which the outermost exon is short carries a major overhang, and the read has no tail
        have hside : ∃ left, majorOverhang g p rp Ie.1 left = true ∧ hasTail rp.polya = false := by
          simp only [fakeTerminalWithin, Bool.or_eq_false_iff, Bool.and_eq_false_iff, Bool.not_eq_false',
            Bool.or_eq_false_iff] at f4
          simp only [fakeTerminalTolerated, cmpCtxOf, Bool.or_eq_true, Bool.and_eq_true] at hfake
          obtain ⟨fl, fr⟩ := f4
          rcases hfake with ⟨a1, a2⟩ | ⟨a1, a2⟩
          · rcases fl with (fl | fl) | fl
            · rw [a1] at fl; cases fl
            · simp only [decide_eq_false_iff_not] at fl; exact absurd (of_decide_eq_true a2) fl
            · exact ⟨true, by simpa using fl.1, fl.2⟩
          · rcases fr with (fr | fr) | fr
            · rw [a1] at fr; cases fr
            · simp only [decide_eq_false_iff_not] at fr; exact absurd (of_decide_eq_true a2) fr
            · exact ⟨false, by simpa using fr.1, fr.2⟩
        obtain ⟨left, hmo, hnt⟩ := hside
        obtain ⟨e, he, hmaj⟩ := majorOverhang_event hel hmo
        have hmem : e ∈ Ie.2 := verifyReadEnds_noTail hnt hver e (List.mem_append_right _ he)
        have := hnomaj Ie (by simp) e hmem
        rw [hmaj] at this; cases this

/-- **far_never_consistent_wf** with the tightened class: well-formedness stated on the annotation and the alignment only -/
theorem far_never_consistent_wf (ms : List Isoform) (p : Params) (q : CParams) (blocks : List Iv) (pa : PolyA) (g : Gene)
    (rp : ReadProf) (a : Assignment) (path : Path)
    (hg : Gene.fromModels ms = some g) (hrp : constructProfiles g p blocks pa = some rp)
    (hwf : WellFormed ms) (hsd : SD blocks) (hwfl : WFl blocks) (hδ : 0 ≤ p.delta)
    (hlongR : ∀ r ∈ junctionsFromBlocks blocks, 2 * p.delta ≤ r.2 - r.1)
    (hlongI : ∀ m ∈ ms, ∀ k ∈ junctionsFromBlocks m.exons, 2 * p.delta ≤ k.2 - k.1)
    (i : Nat) (r : Iv) (hr : (junctionsFromBlocks blocks)[i]? = some r)
    (hfar : ∀ k ∈ g.introns, equal_ranges r k p.delta = false)
    (htol : ∀ I ∈ g.isos, toleratedFix g p q rp I i r = false)
    (h : assignToIsoformM g p q rp = some (a, path)) : a.ty.is_consistent = false := by
  obtain ⟨_, hreg, _, _, _⟩ := C01Path.constructProfiles_spec g p blocks pa rp hrp
  obtain ⟨hrsd, hrin⟩ := junctions_chain blocks rp.region hsd hwfl hreg
  obtain ⟨_, _, hisos⟩ := fromModels_spec ms g hg
  apply far_never_consistent ms p q blocks pa g rp a path hg hrp i r hr hfar _ h
  intro I hI
  refine ⟨?_, htol I hI⟩
  obtain ⟨m, hm, hio⟩ := hisos I hI
  obtain ⟨hmsd, hmwf⟩ := hwf m hm
  obtain ⟨hisd, hiin⟩ := junctions_chain m.exons I.region hmsd hmwf hio.region
  rw [hio.introns]
  exact ⟨hδ, hrsd, hisd, hlongR, hlongI m hm, hrin, hiin⟩

/-- the hypotheses of `far_never_consistent`, as a Boolean, for read intron `i` of `blocks` against the witness annotation;
    `coarse` = the intron is excused by the class tolerated BEFORE the repair w.r.t. some isoform -/
def hypsMet (blocks : List Iv) (i : Nat) : Option (Bool × Bool) :=
  match Gene.fromModels wIso with
  | none => none
  | some g =>
    match constructProfiles g exP blocks noPolyA, (junctionsFromBlocks blocks)[i]? with
    | some rp, some r =>
      some (g.introns.all (fun k => !equal_ranges r k exP.delta) &&
            g.isos.all (fun I => chainsWFb exP.delta (junctionsFromBlocks blocks) rp.region I.introns I.region &&
              !toleratedFix g exP exQ rp I i r),
            g.isos.any (fun I => tolerated (cmpCtxOf g exP exQ) (junctionsFromBlocks blocks) rp.region I.introns I.region i r))
    | _, _ => none

/-- non-vacuity, and the gain over the coarse class: the first intron of the witness read (and the last one of its mirror
    image) meets every hypothesis of the tightened `far_never_consistent` while the coarse class excused it; a read whose
    next exon starts at the transcript start is still excused (hypotheses NOT met) -/
example : hypsMet wRead 0 = some (true, true) ∧ hypsMet wReadR 2 = some (true, true) ∧
    hypsMet [(4000, 4020), (5000, 5400), (6000, 6400), (7000, 7400)] 0 = some (false, true) := by
  refine ⟨by decide +kernel, by decide +kernel, by decide +kernel⟩

end IsoVerif.Props.C01FakeTerminal
