/-
C15 (serialisation round trip / reuse), interface hypothesis `MemoryModeOk` / `NonNegFirst` (hypothesis audit G7):
`memory_modes_same_saved_files` and the other `--high_memory` clauses of Props/C15Reuse.lean need that the penalty of
the FIRST isoform match of every record is not negative (`BasicReadAssignment.__init__` computes
`min(0.0, isoform_matches[0].penalty_score)`, and a negative value is truncated towards zero by the 20-bit
quantisation of the dump, so the compact record built in memory and the one re-read from the dump would differ).
Nothing discharged it: it was listed as "the assigner never produces a negative penalty".

This file discharges it for the modelled assigner (Model/Assign.lean, tied to `LongReadAssigner` by C01's
correspondence), where `penalty_score` is produced: `select_best_among_inconsistent` → `match_inconsistent`.

* over the cost table REGENERATED from `event_subtype_cost` (Gen/EventClasses.lean): every cost is ≥ 0
  (`event_cost_table_nonneg`, `decide` over the whole table) and the two costs `elongation_cost` interpolates between
  are ordered (`elongation_costs_ordered`, `decide`);
* `elongationCost_nonneg`, `eventCost_nonneg`, `penaltyOf_nonneg`: the penalty of an event list is ≥ 0 provided every
  event counts a non-negative number of features (`eventCount`; `eventCount_nonneg`: true whenever the index ranges
  the comparator puts into the event are ordered — the same interface hypothesis as C14 `WellFormedRegions`, watched at
  run time by harness/mon_wrap.py);
* `select_best_penalty_nonneg`, `match_inconsistent_penalty_nonneg`: every isoform match `match_inconsistent` returns
  has `0 ≤ penalty_score`;
* `assigner_record_nonneg_first`: a saved record whose matches carry the penalties of such matches satisfies
  `NonNegFirst`;
* `penalty_negative_count_witness`: without the hypothesis on the counts the statement is false of the model (an
  `exon_gain_novel` event with the reversed read range (3, 1) has count −2 and penalty −2).
-/
import IsoVerif.Model.Assign
import IsoVerif.Lemmas.C01Assign
import IsoVerif.Lemmas.Reuse

namespace IsoVerif.Props.C15Penalty
open IsoVerif.Gen IsoVerif.Model IsoVerif.Model.C01 IsoVerif.Lemmas.C01

/-! ### the regenerated cost table -/

/-- **event_cost_table_nonneg**: every entry of the table extracted from `event_subtype_cost` is ≥ 0 (the translator
    renders the costs as hundredths and fails loudly on anything that is not a non-negative literal; this is the
    `decide` over what it produced) -/
theorem event_cost_table_nonneg : event_cost_table.all (fun p => decide ((0 : Int) ≤ (p.2 : Int))) = true := by decide

/-- the cost of the subtype as the code's float, exactly -/
def costOf (t : MatchEventSubtype) : Option Rat := (event_cost_hundredths t).map (fun c => (c : Rat) / 100)

theorem hundredths_nonneg (c : Nat) : (0 : Rat) ≤ (c : Rat) / 100 := by
  rw [Rat.div_def]
  exact Rat.mul_nonneg (Rat.natCast_nonneg) (Rat.le_of_lt (Rat.inv_pos.mpr (by decide +kernel)))

/-- **event_subtype_cost_nonneg**: `event_subtype_cost[t] ≥ 0` for every subtype that has a cost -/
theorem event_subtype_cost_nonneg (t : MatchEventSubtype) (c : Rat) (h : costOf t = some c) : 0 ≤ c := by
  unfold costOf at h
  cases hc : event_cost_hundredths t with
  | none => simp [hc] at h
  | some n => simp [hc] at h; subst h; exact hundredths_nonneg n

-- non-vacuity: the table has an entry with a positive cost, and the theorem applies to it
example : ∃ c, costOf .intron_retention = some c ∧ 0 < c := ⟨(60 : Rat) / 100, by decide +kernel, by decide +kernel⟩

/-- the two costs `elongation_cost` interpolates between are ordered in the regenerated table -/
def elongOrdered : Bool :=
  match event_cost_hundredths .exon_elongation_left, event_cost_hundredths .major_exon_elongation_left with
  | some mn, some mx => decide (mn ≤ mx)
  | _, _ => true

/-- **elongation_costs_ordered** (`decide` over the regenerated table) -/
theorem elongation_costs_ordered : elongOrdered = true := by decide

/-! ### `elongation_cost`, `get_event_count`, the penalty of an event list -/

/-- **elongationCost_nonneg**: `elongation_cost(params, len) ≥ 0` for every length and all thresholds -/
theorem elongationCost_nonneg (p : Params) (len : Int) (c : Rat) (h : elongationCost p len = some c) : 0 ≤ c := by
  unfold elongationCost at h
  have hord := elongation_costs_ordered
  unfold elongOrdered at hord
  split at h
  · rename_i mn mx h1 h2
    rw [h1, h2] at hord
    have hle : mn ≤ mx := by simpa using hord
    simp only at h
    split at h
    · have := Option.some.inj h; subst this; exact hundredths_nonneg mn
    · split at h
      · have := Option.some.inj h; subst this; exact hundredths_nonneg mx
      · split at h
        · exact absurd h (by simp)
        · rename_i h3 h4 h5
          have := Option.some.inj h; subst this
          have hA : (0 : Rat) ≤ ((len - p.minor_exon_extension : Int) : Rat) :=
            Rat.intCast_nonneg.mpr (by omega)
          have hB : (0 : Rat) < ((p.major_exon_extension - p.minor_exon_extension : Int) : Rat) :=
            Rat.intCast_pos.mpr (by omega)
          have hD : (0 : Rat) ≤ (mx : Rat) / 100 - (mn : Rat) / 100 := by
            apply (Rat.le_iff_sub_nonneg _ _).mp
            rw [Rat.div_def, Rat.div_def]
            exact Rat.mul_le_mul_of_nonneg_right (Rat.natCast_le_natCast.mpr hle)
              (Rat.le_of_lt (Rat.inv_pos.mpr (by decide +kernel)))
          apply Rat.add_nonneg (hundredths_nonneg mn)
          rw [Rat.div_def]
          exact Rat.mul_nonneg (Rat.mul_nonneg hD hA) (Rat.le_of_lt (Rat.inv_pos.mpr hB))
  · exact absurd h (by simp)

/-- the thresholds of the nanopore preset (used by the examples only) -/
def exP : Params :=
  { delta := 6, minor_exon_extension := 50, major_exon_extension := 300, min_abs_exon_overlap := 10, apa_delta := 50,
    minimal_exon_overlap := 5, minimal_intron_absence_overlap := 20, max_fake_terminal_exon_len := 40,
    max_missed_exon_len := 100, resolve_ambiguous := .monoexon_and_fsm }

-- non-vacuity: an interpolated length (minor 50 < 100 < major 300) has a cost, strictly between the two table values
example : ∃ c, elongationCost exP 100 = some c ∧ (10 : Rat) / 100 < c ∧ c < (60 : Rat) / 100 :=
  ⟨(20 : Rat) / 100, by decide +kernel, by decide +kernel, by decide +kernel⟩

/-- the index ranges an event carries are ordered (what the comparator emits: a contradictory region `(i, j)` of the
    read's / the isoform's introns with `i ≤ j`), or carry the `absent` sentinel (which `get_event_count` tests before
    it subtracts) -/
def RegionsOrdered (e : Event) : Prop :=
  (e.isoRegion.1 = absentPos ∨ e.isoRegion.2 = absentPos ∨ e.isoRegion.1 ≤ e.isoRegion.2 + 1) ∧
  (e.readRegion.1 = absentPos ∨ e.readRegion.2 = absentPos ∨ e.readRegion.1 ≤ e.readRegion.2)

instance (e : Event) : Decidable (RegionsOrdered e) := by unfold RegionsOrdered; infer_instance

/-- **eventCount_nonneg**: `get_event_count` is ≥ 0 on events with ordered index ranges -/
theorem eventCount_nonneg (e : Event) (h : RegionsOrdered e) : 0 ≤ eventCount e := by
  obtain ⟨h1, h2⟩ := h
  unfold eventCount
  split
  · omega
  · split
    · split
      · omega
      · split <;> omega
    · omega

example : RegionsOrdered { ty := .exon_skipping_known, isoRegion := (2, 4), readRegion := (1, 1) } ∧
    eventCount { ty := .exon_skipping_known, isoRegion := (2, 4), readRegion := (1, 1) } = 3 := by decide

/-- **eventCost_nonneg**: the cost of one event is ≥ 0 when its count is -/
theorem eventCost_nonneg (p : Params) (e : Event) (c : Rat) (hc : 0 ≤ eventCount e) (h : eventCost p e = some c) :
    0 ≤ c := by
  have hcnt : (0 : Rat) ≤ (eventCount e : Rat) := by exact_mod_cast hc
  unfold eventCost at h
  split at h
  · simp at h
  · rename_i c0 _
    split at h
    · cases hel : elongationCost p e.info with
      | none => simp [hel] at h
      | some c' =>
        simp [hel] at h; subst h
        exact Rat.mul_nonneg (elongationCost_nonneg p e.info c' hel) hcnt
    · simp at h; subst h
      exact Rat.mul_nonneg (hundredths_nonneg c0) hcnt

/-- **penaltyOf_nonneg**: the penalty of an event list (the sum `select_best_among_inconsistent` computes per isoform)
    is ≥ 0 when every event counts a non-negative number of features -/
theorem penaltyOf_nonneg (p : Params) : ∀ (evs : List Event) (s : Rat), (∀ e ∈ evs, 0 ≤ eventCount e) →
    penaltyOf p evs = some s → 0 ≤ s := by
  intro evs
  induction evs with
  | nil => intro s _ h; simp [penaltyOf] at h; subst h; exact Rat.le_refl
  | cons e es ih =>
    intro s hc h
    simp only [penaltyOf] at h
    cases h1 : eventCost p e with
    | none => simp [h1] at h
    | some a =>
      cases h2 : penaltyOf p es with
      | none => simp [h1, h2] at h
      | some b =>
        simp [h1, h2] at h; subst h
        exact Rat.add_nonneg (eventCost_nonneg p e a (hc e (by simp)) h1)
          (ih b (fun e' he' => hc e' (List.mem_cons_of_mem _ he')) h2)

theorem minRat_mem : ∀ (l : List Rat) (m : Rat), minRat l = some m → m ∈ l := by
  intro l
  induction l with
  | nil => intro m h; simp [minRat] at h
  | cons x xs ih =>
    intro m h
    simp only [minRat] at h
    cases hm : minRat xs with
    | none => simp [hm] at h; subst h; simp
    | some m' =>
      simp [hm] at h
      split at h
      · subst h; simp
      · subst h; exact List.mem_cons_of_mem _ (ih m' hm)

/-- every event of every candidate counts a non-negative number of features -/
def CountsNonneg (rm : List (IsoInfo × List Event)) : Prop := ∀ Ie ∈ rm, ∀ e ∈ Ie.2, 0 ≤ eventCount e

/-- **select_best_penalty_nonneg**: the minimal penalty `select_best_among_inconsistent` returns is ≥ 0 -/
theorem select_best_penalty_nonneg (p : Params) (rp : ReadProf) (rm : List (IsoInfo × List Event))
    (best : List (IsoInfo × List Event)) (pen : Rat) (hc : CountsNonneg rm)
    (h : selectBestAmongInconsistent p rp rm = some (best, pen)) : 0 ≤ pen := by
  unfold selectBestAmongInconsistent at h
  cases hs : mapOpt (fun (Ie : IsoInfo × List Event) => (penaltyOf p Ie.2).map (fun s => (Ie, s))) rm with
  | none => simp [hs] at h
  | some scored =>
    simp only [hs] at h
    cases hm : minRat (scored.map (·.2)) with
    | none => simp [hm] at h
    | some mn =>
      simp only [hm] at h
      have hpen : pen = mn := by
        split at h
        · split at h
          · simp at h
          · simp at h; exact h.2.symm
        · simp at h; exact h.2.symm
      subst hpen
      obtain ⟨x, hx, hx2⟩ := List.mem_map.mp (minRat_mem _ _ hm)
      obtain ⟨Ie, hIe, hf⟩ := forall₂_mem_right (mapOpt_spec _ rm scored hs) x hx
      cases hp : penaltyOf p Ie.2 with
      | none => simp [hp] at hf
      | some s =>
        simp [hp] at hf
        have : s = pen := by rw [← hx2, ← hf]
        subst this
        exact penaltyOf_nonneg p Ie.2 s (hc Ie hIe) hp

/-- `penalty_score` of a modelled match, as the exact rational the code's float stands for -/
def penaltyScoreOf (m : IsoMatch) : Rat := (m.penaltyNum : Rat) / (m.penaltyDen : Rat)

theorem ratOfNumDen_nonneg (q : Rat) (h : 0 ≤ q) : 0 ≤ ((q.num : Int) : Rat) / ((q.den : Int) : Rat) := by
  rw [Rat.div_def]
  apply Rat.mul_nonneg
  · exact_mod_cast Rat.num_nonneg.mpr h
  · apply Rat.le_of_lt
    apply Rat.inv_pos.mpr
    exact_mod_cast q.den_pos

theorem default_penalty_nonneg (m : IsoMatch) (h1 : m.penaltyNum = 0) : 0 ≤ penaltyScoreOf m := by
  unfold penaltyScoreOf
  rw [h1, Rat.div_def]
  simp [Rat.zero_mul]

theorem mapOpt_all {α β} {f : α → Option β} {l : List α} {r : List β} (h : mapOpt f l = some r)
    (P : β → Prop) (hP : ∀ x y, f x = some y → P y) : ∀ y ∈ r, P y := by
  intro y hy
  obtain ⟨x, _, hxy⟩ := forall₂_mem_right (mapOpt_spec f l r h) y hy
  exact hP x y hxy

/-- the event list `detect_inconsistensies` builds for ONE candidate isoform: the comparator's events (`cj`, an input
    of the model), the elongation events, then `verify_read_ends` -/
def detectedEvents (g : Gene) (p : Params) (rp : ReadProf) (cj : Nat → Option (List Event)) (I : IsoInfo) :
    Option (List Event) :=
  match cj I.id with
  | none => none
  | some ev =>
    match elongationEvents g p rp I with
    | none => none
    | some el => verifyReadEnds p rp I (ev ++ el)

/-- what `detect_inconsistensies` returns pairs candidates with their `detectedEvents` -/
theorem detect_mem (g : Gene) (p : Params) (rp : ReadProf) (cj : Nat → Option (List Event)) :
    ∀ (cands : List IsoInfo) (rm : List (IsoInfo × List Event)), detectInconsistencies g p rp cj cands = some rm →
      ∀ Ie ∈ rm, Ie.1 ∈ cands ∧ detectedEvents g p rp cj Ie.1 = some Ie.2 := by
  intro cands
  induction cands with
  | nil => intro rm h; simp [detectInconsistencies] at h; subst h; intro Ie hIe; simp at hIe
  | cons I rest ih =>
    intro rm h Ie hIe
    simp only [detectInconsistencies] at h
    cases hcj : cj I.id with
    | none => simp [hcj] at h
    | some ev =>
      simp only [hcj] at h
      split at h
      · obtain ⟨h1, h2⟩ := ih rm h Ie hIe
        exact ⟨List.mem_cons_of_mem _ h1, h2⟩
      · cases hel : elongationEvents g p rp I with
        | none => simp [hel] at h
        | some el =>
          simp only [hel] at h
          cases hv : verifyReadEnds p rp I (ev ++ el) with
          | none => simp [hv] at h
          | some evs =>
            cases hr : detectInconsistencies g p rp cj rest with
            | none => simp [hv, hr] at h
            | some r =>
              simp [hv, hr] at h; subst h
              rcases List.mem_cons.mp hIe with hIe | hIe
              · subst hIe
                refine ⟨by simp, ?_⟩
                simp [detectedEvents, hcj, hel, hv]
              · obtain ⟨h1, h2⟩ := ih r hr Ie hIe
                exact ⟨List.mem_cons_of_mem _ h1, h2⟩

/-- every event that reaches the penalty computation counts a non-negative number of features: a decidable
    condition on the gene's isoforms (the comparator `cj` is an input of the model, so this is a hypothesis on its
    output; `eventCount_nonneg` reduces it to ordered index ranges) -/
def DetectedCountsNonneg (g : Gene) (p : Params) (rp : ReadProf) (cj : Nat → Option (List Event)) : Prop :=
  ∀ I ∈ g.isos, ∀ evs ∈ (detectedEvents g p rp cj I).toList, ∀ e ∈ evs, 0 ≤ eventCount e

instance (g : Gene) (p : Params) (rp : ReadProf) (cj : Nat → Option (List Event)) :
    Decidable (DetectedCountsNonneg g p rp cj) := by unfold DetectedCountsNonneg; infer_instance

/-- **match_inconsistent_penalty_nonneg**: every isoform match of the assignment `match_inconsistent` returns has
    `penalty_score ≥ 0` (it is the minimal penalty for inconsistent assignments of spliced reads and the default 0.0
    on every other branch) -/
theorem match_inconsistent_penalty_nonneg (g : Gene) (p : Params) (rp : ReadProf) (cj : Nat → Option (List Event))
    (a : Assignment) (hd : DetectedCountsNonneg g p rp cj) (h : matchInconsistent g p rp cj = some a) :
    ∀ m ∈ a.isoMatches, 0 ≤ penaltyScoreOf m := by
  unfold matchInconsistent at h
  simp only [] at h
  repeat' split at h
  all_goals (try (simp at h; done))
  · -- no candidate: one `genic` match with the default penalty
    have := Option.some.inj h; subst this
    intro m hm; simp at hm; subst hm; exact default_penalty_nonneg _ rfl
  · have := Option.some.inj h; subst this; intro m hm; simp at hm
  · have := Option.some.inj h; subst this; intro m hm; simp at hm
  · -- mono-exonic read: `mkMatchList`, default penalty
    obtain ⟨ms, hms, rfl⟩ := Option.map_eq_some_iff.mp h
    intro m hm
    refine mapOpt_all hms (fun m => 0 ≤ penaltyScoreOf m) ?_ m hm
    intro x y hxy
    obtain ⟨c, _, rfl⟩ := Option.map_eq_some_iff.mp hxy
    exact default_penalty_nonneg _ rfl
  · -- inconsistent spliced read: the minimal penalty is stored
    rename_i hrm _ _ _ _ hsel _ _ _
    have hcn : CountsNonneg _ := fun Ie hIe e he => by
      obtain ⟨h1, h2⟩ := detect_mem g p rp cj _ _ hrm Ie hIe
      exact hd Ie.1 (List.mem_filter.mp h1).1 Ie.2 (by simp [h2]) e he
    have hpen := select_best_penalty_nonneg p rp _ _ _ hcn hsel
    have := Option.some.inj h; subst this
    intro m hm
    obtain ⟨Ie, _, rfl⟩ := List.mem_map.mp hm
    exact ratOfNumDen_nonneg _ hpen
  · -- consistent after all: `categorize_correct_splice_match`, default penalty
    obtain ⟨ms, hms, rfl⟩ := Option.map_eq_some_iff.mp h
    intro m hm
    refine mapOpt_all hms (fun m => 0 ≤ penaltyScoreOf m) ?_ m hm
    intro x y hxy
    obtain ⟨m0, hm0, rfl⟩ := Option.map_eq_some_iff.mp hxy
    unfold spliceMatch at hm0
    obtain ⟨ce, _, rfl⟩ := Option.map_eq_some_iff.mp hm0
    exact default_penalty_nonneg _ rfl

/-- non-vacuity data: a three-exon isoform, a read that keeps its second intron (the comparator reports
    `intron_retention`), nanopore thresholds -/
def exIsoA : IsoInfo :=
  { id := 0, exons := [(100, 200), (300, 400), (500, 600)], introns := [(201, 299), (401, 499)], region := (100, 600),
    strand := .plus, intronProf := [1, 1], intronRange := (0, 2), splitProf := [1, 1, 1], splitRange := (0, 3) }
def exGeneA : Gene :=
  { start := 100, stop := 600, introns := [(201, 299), (401, 499)], exons := [(100, 200), (300, 400), (500, 600)],
    splitExons := [(100, 200), (300, 400), (500, 600)], isos := [exIsoA] }
def exReadA : ReadProf :=
  { blocks := [(100, 200), (300, 600)], region := (100, 600), introns := [(201, 299)],
    intron := { gene := [1, -1], read := [1], range := (0, 2) }, split := { gene := [1, 1, 1], read := [1, 1], range := (0, 3) },
    polya := { extA := -1, extT := -1, intA := -1, intT := -1 } }
def exCjA : Nat → Option (List Event) :=
  fun _ => some [{ ty := .intron_retention, isoRegion := (1, 1), readRegion := (absentPos, 1) }]

-- the hypothesis holds on the example, `match_inconsistent` returns an assignment, and its match carries the penalty
-- 3/5 = 0.6 (one retained intron)
example : DetectedCountsNonneg exGeneA exP exReadA exCjA ∧
    ((matchInconsistent exGeneA exP exReadA exCjA).map
      (fun a => a.isoMatches.map (fun m => (m.penaltyNum, m.penaltyDen)))) = some [(3, 5)] := by
  refine ⟨by decide +kernel, by decide +kernel⟩

-- non-vacuity of `penaltyOf_nonneg` / `select_best_penalty_nonneg`: an ordered exon-skipping event (two exons) and a
-- retained intron cost 2 * 1.0 + 0.6
example : (∀ e ∈ ([{ ty := .exon_skipping_known, isoRegion := (2, 3), readRegion := (1, 1) },
                   { ty := .intron_retention, isoRegion := (1, 1), readRegion := (absentPos, 1) }] : List Event),
             RegionsOrdered e ∧ 0 ≤ eventCount e) ∧
    penaltyOf exP [{ ty := .exon_skipping_known, isoRegion := (2, 3), readRegion := (1, 1) },
                   { ty := .intron_retention, isoRegion := (1, 1), readRegion := (absentPos, 1) }] = some ((260 : Rat) / 100) := by
  refine ⟨by decide, by decide +kernel⟩

/-! ### the statement without the hypothesis on the counts is false of the model -/

/-- **penalty_negative_count_witness**: an `exon_gain_novel` event whose read range is reversed, (3, 1), counts −2
    features and costs −2: `penaltyOf` is negative.  (The comparator never emits a reversed range; the run-time monitor
    harness/mon_wrap.py `c14events` checks `0 ≤ r0 ≤ r1 < #read introns` on every event of every pipeline run of the
    C14 / C11 oracles, and harness/gen/savedumps.py checks the penalty of every saved record.) -/
theorem penalty_negative_count_witness :
    ¬ RegionsOrdered { ty := .exon_gain_novel, isoRegion := (0, 0), readRegion := (3, 1) } ∧
    eventCount { ty := .exon_gain_novel, isoRegion := (0, 0), readRegion := (3, 1) } = -2 ∧
    penaltyOf exP [{ ty := .exon_gain_novel, isoRegion := (0, 0), readRegion := (3, 1) }] = some (-2) := by
  refine ⟨by decide, by decide, by decide +kernel⟩

/-! ### the bridge to `NonNegFirst` (Lemmas/Reuse.lean) -/

open IsoVerif.Model.Serial IsoVerif.Lemmas.C15 in
/-- **assigner_record_nonneg_first**: a saved record whose isoform matches carry, position by position, the penalties
    of matches produced by the modelled `match_inconsistent` (or any matches with `penalty_score ≥ 0`, e.g. the default
    0.0 of every other constructor of `IsoformMatch`) satisfies `NonNegFirst` — the hypothesis `MemoryModeOk` of the
    `--high_memory` clauses of Props/C15Reuse.lean asks for exactly this, record by record -/
theorem assigner_record_nonneg_first (r : Serial.ReadAssignment) (ms : List IsoMatch)
    (hpen : r.isoformMatches.map (·.penaltyScore) = ms.map penaltyScoreOf)
    (hms : ∀ m ∈ ms, 0 ≤ penaltyScoreOf m) : NonNegFirst r := by
  intro m hm
  cases hr : r.isoformMatches with
  | nil => rw [hr] at hm; simp at hm
  | cons m0 rest =>
    rw [hr] at hm hpen
    simp at hm; subst hm
    cases ms with
    | nil => simp at hpen
    | cons a as =>
      simp at hpen
      rw [hpen.1]
      exact hms a (by simp)

end IsoVerif.Props.C15Penalty
