/-
C13 (growth `c13x`, audit2-C GAP 1) — the count clause PER CHROMOSOME.  The row theorems of Props/C13.lean speak about a
history of counter events; the statement speaks about the chromosome: the row of feature f = the number of processed reads
that include / exclude f.  Between the two lie `AlignmentCollector.forward_alignments` (a read cluster cut into sub-regions,
an alignment bridging a cut handed to BOTH), the gene loading of every sub-region, and the resolver that must keep exactly
one of the records such an alignment gets.

Model: IsoVerif/Model/C13Chromosome.lean (`chromosomeEvents repaired genes P out rids`).  `repaired = true` is the code after
the repair (genes are loaded for the extent of the alignments processed in a sub-region), `false` the code before it (genes
overlapping the sub-region itself).  Helper lemmas: IsoVerif/Lemmas/C13Chromosome.lean.  Property theorems only.
-/
import IsoVerif.Model.C13Chromosome
import IsoVerif.Lemmas.C13Chromosome
import IsoVerif.Props.C13

namespace IsoVerif.Props.C13Chromosome
open IsoVerif.Gen IsoVerif.Model IsoVerif.Model.Resolver IsoVerif.Model.C13 IsoVerif.Model.C13Chr
open IsoVerif.Lemmas.Resolver IsoVerif.Lemmas.C13 IsoVerif.Lemmas.C13Chr
open IsoVerif.Model.Regions (Aln)

/-- what an event says about feature key `k`, value `v` (+1 include, -1 exclude), group `g` -/
def evSays (ignore : Bool) (dflt : String) (v : Int) (k : CoordKey) (g : String) (ev : ReadEv) : Bool :=
  groupOf ignore dflt ev == g && marks coordKey v k ev

/-- THE READ-LEVEL MEANING used on the right-hand side: alignment `a` includes / excludes the feature, judged against the
    WHOLE annotation `genes` of the chromosome (what +1 / -1 mean position-wise is Props/C13Profiles.lean) -/
def alnSays (P : Proc) (genes : List GeneRec) (ignore : Bool) (dflt : String) (v : Int) (k : CoordKey) (g : String) (a : Aln) : Bool :=
  (P.ev genes a).any (evSays ignore dflt v k g)

/-- the assumption interface towards `process_genic` (assigner, profile constructors): what an alignment gets depends on the
    loaded genes only through the genes the alignment overlaps (a region that gives the alignment its full gene view gives it
    the answers of the whole annotation) - its isoform list (the `__eq__` field that is not a function
    of the alignment alone) and the +1 / -1 entries of its profile with their features and its read group; and the assigner
    never produces `suspended` (only the resolver does, C08 `suspended_only_by_resolver`).  Only the COUNTED values v = +1 / -1
    are asked to be local (a 0 or a polyA mask -2 of a feature of a gene that is not loaded has no counterpart).  INSTANCES:
    Props/C13Local.lean proves it for the real exon / intron profile construction (`exonProc_local`, `intronProc_local`, from the
    `…_partial` meaning theorems on `Hyp`) and for the table-driven processing of the driver (`tableProc_local`). -/
structure Local (P : Proc) (genes : List GeneRec) (all : List Aln) : Prop where
  isoforms : ∀ R, ∀ a ∈ all, view a (loadGenes genes R) = view a genes → P.isoforms (loadGenes genes R) a = P.isoforms genes a
  says : ∀ R, ∀ a ∈ all, view a (loadGenes genes R) = view a genes → ∀ ignore dflt v k g, (v = 1 ∨ v = -1) →
    (P.ev (loadGenes genes R) a).any (evSays ignore dflt v k g) = (P.ev genes a).any (evSays ignore dflt v k g)
  alive : ∀ G a, P.atype G a ≠ .suspended

/-! ### the repaired loading -/

/-- every record of read `a.rid` is a record of `a` itself, made in a sub-region that holds `a` -/
theorem readItems_of (genes : List GeneRec) (P : Proc) (all : List Aln) (out : List (Iv × List Aln))
    (hrid : (all.map (·.rid)).Nodup) (hin : ∀ p ∈ out, ∀ a ∈ p.2, a ∈ all) (a : Aln) (ha : a ∈ all) (rep : Bool) :
    ∀ it ∈ readItems (chrItems rep genes P out) a.rid,
      ∃ p ∈ out, a ∈ p.2 ∧ it = mkItem P p.1 (loadGenes genes (loadRegion rep p)) a := by
  intro it hit
  obtain ⟨hmem, hr⟩ := List.mem_filter.mp hit
  obtain ⟨p, hp, hitp⟩ := List.mem_flatMap.mp hmem
  obtain ⟨a', ha', rfl⟩ := List.mem_map.mp hitp
  have hr' : a'.rid = a.rid := by simpa [mkItem, mkRec] using hr
  have : a' = a := inj_of_nodup_map (·.rid) all hrid a' (hin p hp a' ha') a ha hr'
  subst this
  exact ⟨p, hp, ha', rfl⟩

/-- **one_record_per_alignment** (repaired loading, any number of sub-regions, any cuts): of the records an alignment gets in
    the sub-regions it is handed to, the resolver keeps exactly one, and what that record says about any feature is what the
    alignment says against the whole annotation: the kept events of the read contribute 1 to a count iff the alignment
    includes / excludes the feature, never 2, never 0. -/
theorem one_record_per_alignment (genes : List GeneRec) (P : Proc) (all : List Aln) (hP : Local P genes all)
    (out : List (Iv × List Aln)) (hrid : (all.map (·.rid)).Nodup) (hin : ∀ p ∈ out, ∀ a ∈ p.2, a ∈ all)
    (hcov : ∀ a ∈ all, ∃ p ∈ out, a ∈ p.2) (a : Aln) (ha : a ∈ all) (ignore : Bool) (dflt : String) (v : Int) (hv1 : v = 1 ∨ v = -1)
    (k : CoordKey) (g : String) :
    ∃ es, keptEvents (chrItems true genes P out) a.rid = some es ∧
      es.countP (evSays ignore dflt v k g) = if alnSays P genes ignore dflt v k g a then 1 else 0 := by
  have hof := readItems_of genes P all out hrid hin a ha true
  obtain ⟨its, hits⟩ : ∃ its, its = readItems (chrItems true genes P out) a.rid := ⟨_, rfl⟩
  rw [← hits] at hof
  -- the records are twins
  have hview : ∀ it ∈ its, it.brec.isoforms = P.isoforms genes a ∧ it.brec.readId = a.rid ∧ it.brec.chr = 0 ∧
      it.brec.start = a.start ∧ it.brec.stop = a.stop ∧ it.brec.atype ≠ .suspended ∧
      it.ev.any (evSays ignore dflt v k g) = alnSays P genes ignore dflt v k g a := by
    intro it hit
    obtain ⟨p, hp, hap, rfl⟩ := hof it hit
    have hv := view_repaired genes p a hap
    refine ⟨by simpa [mkItem, mkRec] using hP.isoforms _ a ha hv, rfl, rfl, rfl, rfl, by simpa [mkItem, mkRec] using hP.alive _ a, ?_⟩
    simpa [mkItem, alnSays] using hP.says _ a ha hv ignore dflt v k g hv1
  have hne : its.map (·.brec) ≠ [] := by
    obtain ⟨p, hp, hap⟩ := hcov a ha
    have : mkItem P p.1 (loadGenes genes (loadRegion true p)) a ∈ its := by
      rw [hits]
      refine List.mem_filter.mpr ⟨List.mem_flatMap.mpr ⟨p, hp, List.mem_map.mpr ⟨a, hap, rfl⟩⟩, by simp [mkItem, mkRec]⟩
    intro h
    have h0 : its = [] := List.map_eq_nil_iff.mp h
    rw [h0] at this
    simp at this
  have hns : NoSuspendedInput (its.map (·.brec)) := by
    intro r hr
    obtain ⟨it, hit, rfl⟩ := List.mem_map.mp hr
    exact (hview it hit).2.2.2.2.2.1
  have heq : ∀ x ∈ its.map (·.brec), ∀ y ∈ its.map (·.brec), recEq x y = true := by
    intro x hx y hy
    obtain ⟨i1, h1, rfl⟩ := List.mem_map.mp hx
    obtain ⟨i2, h2, rfl⟩ := List.mem_map.mp hy
    obtain ⟨a1, a2, a3, a4, a5, _⟩ := hview i1 h1
    obtain ⟨b1, b2, b3, b4, b5, _⟩ := hview i2 h2
    simp [recEq, a1, a2, a3, a4, a5, b1, b2, b3, b4, b5]
  obtain ⟨vs, hres, hlen, hret⟩ := resolve_twins _ hne hns heq
  refine ⟨(its.zip vs).filterMap (fun p => if p.2.atype == .suspended then none else p.1.ev),
    by simp only [keptEvents, ← hits, hres, Option.map_some], ?_⟩
  rw [countP_filterMap_zip]
  -- every pair of the zip carries an item of the read: its event says what the alignment says
  have hcongr : (its.zip vs).countP (fun p => (if p.2.atype == .suspended then none else p.1.ev).any (evSays ignore dflt v k g)) =
      (its.zip vs).countP (fun p => !(p.2.atype == .suspended) && alnSays P genes ignore dflt v k g a) := by
    apply List.countP_congr
    intro p hp
    have hit : p.1 ∈ its := (List.of_mem_zip hp).1
    have := (hview p.1 hit).2.2.2.2.2.2
    cases hs : (p.2.atype == ReadAssignmentType.suspended) <;> simp [this]
  rw [hcongr]
  cases hm : alnSays P genes ignore dflt v k g a with
  | false => simp
  | true =>
    simp only [Bool.and_true, ↓reduceIte]
    rw [countP_zip_snd (fun r => !(r.atype == .suspended)) its vs (by simpa using hlen)]
    have : vs.countP (fun r => !(r.atype == .suspended)) = (retained vs).length := by
      simp [retained, List.countP_eq_length_filter]
    rw [this, hret]

/-- the events of the reads of `l`, and what they add up to -/
theorem collect_counts (genes : List GeneRec) (P : Proc) (all : List Aln) (hP : Local P genes all)
    (out : List (Iv × List Aln)) (hrid : (all.map (·.rid)).Nodup) (hin : ∀ p ∈ out, ∀ a ∈ p.2, a ∈ all)
    (hcov : ∀ a ∈ all, ∃ p ∈ out, a ∈ p.2) (ignore : Bool) (dflt : String) (v : Int) (hv1 : v = 1 ∨ v = -1) (k : CoordKey) (g : String) :
    ∀ l : List Aln, (∀ a ∈ l, a ∈ all) →
      ∃ evs, collectEvents (chrItems true genes P out) (l.map (·.rid)) = some evs ∧
        evs.countP (evSays ignore dflt v k g) = l.countP (alnSays P genes ignore dflt v k g) := by
  intro l
  induction l with
  | nil => intro _; exact ⟨[], rfl, rfl⟩
  | cons a rest ih =>
    intro hl
    obtain ⟨es, hes, hc⟩ := one_record_per_alignment genes P all hP out hrid hin hcov a (hl a (by simp)) ignore dflt v hv1 k g
    obtain ⟨evs, hevs, hcs⟩ := ih (fun b hb => hl b (by simp [hb]))
    refine ⟨es ++ evs, by simp only [List.map_cons, collectEvents, hes, hevs], ?_⟩
    rw [List.countP_append, hc, hcs, List.countP_cons]
    split <;> simp_all <;> omega

/-- **chromosome_events_defined**: under the repaired loading the resolver never raises on the records of a chromosome. -/
theorem chromosome_events_defined (genes : List GeneRec) (P : Proc) (all : List Aln) (hP : Local P genes all)
    (out : List (Iv × List Aln)) (hrid : (all.map (·.rid)).Nodup) (hin : ∀ p ∈ out, ∀ a ∈ p.2, a ∈ all)
    (hcov : ∀ a ∈ all, ∃ p ∈ out, a ∈ p.2) :
    ∃ evs, chromosomeEvents true genes P out (all.map (·.rid)) = some evs := by
  obtain ⟨evs, h, _⟩ := collect_counts genes P all hP out hrid hin hcov true "" 1 (Or.inl rfl) ("", 0, 0) "" all (fun _ h => h)
  exact ⟨evs, h⟩

/-- **chromosome_row_counts** (THE COUNT CLAUSE PER CHROMOSOME, repaired loading).  `all` = the alignment records of the
    chromosome, one per read id (which alignment of a multi-mapped read is processed is C08's subject); `out` = what the
    collector hands to `process_alignments_in_region` (C05: `every_alignment_forwarded` gives `hcov`, `forwarded_sublist`
    `hin`), with any number of clusters, sub-regions and cuts, an alignment possibly in several of them; `P` any
    per-alignment processing that is `Local`; `feed` the counter's input in ANY order (save-file order, worker order).  Then
    for every feature key and group the include count of the table is the NUMBER OF ALIGNMENTS of the chromosome that include
    the feature with respect to the whole annotation, and the exclude count the number that exclude it - no alignment is
    counted twice, none is lost, whatever genes its sub-regions overlap. -/
theorem chromosome_row_counts (genes : List GeneRec) (P : Proc) (all : List Aln) (hP : Local P genes all)
    (out : List (Iv × List Aln)) (hrid : (all.map (·.rid)).Nodup) (hin : ∀ p ∈ out, ∀ a ∈ p.2, a ∈ all)
    (hcov : ∀ a ∈ all, ∃ p ∈ out, a ∈ p.2)
    (evs feed : List ReadEv) (hev : chromosomeEvents true genes P out (all.map (·.rid)) = some evs) (hperm : feed.Perm evs)
    (hnd : ∀ ev ∈ feed, (ev.pmap.map coordKey).Nodup)
    (ignore : Bool) (dflt : String) (st : PCounter CoordKey)
    (h : countAll coordKey FeatureInfo.merge ignore dflt feed = some st) (k : CoordKey) (g : String) :
    st.inclOf k g = all.countP (alnSays P genes ignore dflt 1 k g) ∧
    st.exclOf k g = all.countP (alnSays P genes ignore dflt (-1) k g) := by
  have key : ∀ v, (v = 1 ∨ v = -1) → (feed.filter (fun ev => groupOf ignore dflt ev == g)).countP (marks coordKey v k) =
      all.countP (alnSays P genes ignore dflt v k g) := by
    intro v hv1
    obtain ⟨evs', h', hc⟩ := collect_counts genes P all hP out hrid hin hcov ignore dflt v hv1 k g all (fun _ h => h)
    have : evs' = evs := by
      unfold chromosomeEvents at hev; rw [h'] at hev; exact Option.some.inj hev
    subst this
    rw [List.countP_filter, ← hc]
    have := hperm.countP_eq (evSays ignore dflt v k g)
    rw [← this]
    apply List.countP_congr
    intro ev _
    simp [evSays, Bool.and_comm]
  exact ⟨by rw [IsoVerif.Props.C13.include_counts_reads coordKey IsoVerif.Props.C13.hupd_merge ignore dflt feed st h hnd k g, key 1 (Or.inl rfl)],
         by rw [IsoVerif.Props.C13.exclude_counts_reads coordKey IsoVerif.Props.C13.hupd_merge ignore dflt feed st h hnd k g, key (-1) (Or.inr rfl)]⟩

/-! ### the table-driven processing is `Local` (non-vacuity of the hypothesis; it is also what the driver runs) -/

/-- answers that only name genes the alignment overlaps -/
def AnswersLocal (genes : List GeneRec) (all : List Aln) (ans : Answers) : Prop :=
  ∀ a ∈ all, (∀ m ∈ ans.hits a.rid, ∃ g ∈ genes, g.gid = m.2 ∧ overlaps (iv1 a) g.span = true) ∧
             (∀ m ∈ ans.marks a.rid, ∃ g ∈ genes, g.gid = m.1 ∧ overlaps (iv1 a) g.span = true)

/-! ### the code before the repair: both faces of the defect, on the model (replayed on the real code by the pipeline
    oracle: `split_dataset` variants `nested` and `readthrough`) -/

/-- gA = gene 0 spans the cut, gN = gene 1 lies right of the cut inside gA's long intron, gL = gene 2 left of the cut -/
def wGenes : List GeneRec := [⟨0, (1000, 60200)⟩, ⟨1, (40000, 41000)⟩, ⟨2, (900, 1700)⟩]
def wAln (s e : Int) (rid : Nat) : Aln :=
  { start := s, stop := e, secondary := false, supplementary := false, mapped := true, mapq := 60, rid := rid }
/-- the bridging read (id 0) and one short read per sub-region -/
def wAll : List Aln := [wAln 1000 60200 0, wAln 1000 22200 1, wAln 40000 41000 2]
/-- the cluster cut at 33024: left sub-region (1000, 33024), right (33025, 60199) -/
def wOut : List (Iv × List Aln) :=
  [((1000, 33024), [wAln 1000 60200 0, wAln 1000 22200 1]), ((33025, 60199), [wAln 1000 60200 0, wAln 40000 41000 2])]

/-- LOST COUNT: the bridging read matches isoform 7 of gA and skips gN's exon (40001, 40200) -/
def wLost : Answers :=
  { hits := fun r => if r = 0 then [(7, 0)] else if r = 1 then [(8, 0)] else [(9, 1)],
    marks := fun r => if r = 0 then [(0, (1001, 1200), 1), (1, (40001, 40200), -1)] else if r = 1 then [(0, (1001, 1200), 1)]
                      else [(1, (40001, 40200), 1)] }

/-- DOUBLE COUNT: the bridging read matches isoform 5 of gL (left of the cut) and isoform 7 of gN (right of it) -/
def wDouble : Answers :=
  { hits := fun r => if r = 0 then [(5, 2), (7, 1)] else if r = 1 then [(8, 0)] else [(9, 1)],
    marks := fun r => if r = 0 then [(0, (60001, 60200), 1)] else if r = 1 then [(0, (1001, 1200), 1)] else [(1, (40001, 40200), 1)] }

def wRows (rep : Bool) (ans : Answers) : Option (List (Int × Int × Nat × Nat)) :=
  ((chromosomeEvents rep wGenes (tableProc "chr1" ans) wOut [0, 1, 2]).bind
    (countAll coordKey FeatureInfo.merge true "NA")).map
    (fun st => (dumpRows st).map (fun r => (r.fi.start, r.fi.stop, r.incl, r.excl)))

/-- **bridging_read_lost_witness** (old loading): both records of the bridging read name isoform 7 only (gN has no isoform it
    matches), they are equal, the resolver keeps the FIRST - made in the left sub-region, which never loaded gN: the exclusion
    of gN's exon is lost (row 40001-40200: 1 / 0).  Repaired loading: 1 / 1. -/
theorem bridging_read_lost_witness :
    wRows false wLost = some [(1001, 1200, 2, 0), (40001, 40200, 1, 0)] ∧
    wRows true wLost = some [(1001, 1200, 2, 0), (40001, 40200, 1, 1)] := by
  constructor <;> decide +kernel

/-- **bridging_read_twice_witness** (old loading): the left record names isoform 5 only (gN is not loaded there), the right
    record isoform 7 only (gL is not loaded there): the records differ, both are uniquely assigned primaries, both are kept and
    the inclusion of gA's last exon is counted TWICE (row 60001-60200: 2 / 0).  Repaired loading: both records name 5 and 7, they
    are equal, one is kept: 1 / 0. -/
theorem bridging_read_twice_witness :
    wRows false wDouble = some [(60001, 60200, 2, 0), (1001, 1200, 1, 0), (40001, 40200, 1, 0)] ∧
    wRows true wDouble = some [(60001, 60200, 1, 0), (1001, 1200, 1, 0), (40001, 40200, 1, 0)] := by
  constructor <;> decide +kernel

/-- the full-strength count clause is FALSE of the old loading: the same statement with `repaired := false` fails on the
    witness (alignment 0 excludes (40001, 40200) against the whole annotation, the table says 0) -/
theorem chromosome_row_counts_old_loading_witness :
    ∃ st, ((chromosomeEvents false wGenes (tableProc "chr1" wLost) wOut (wAll.map (·.rid))).bind
            (countAll coordKey FeatureInfo.merge true "NA")) = some st ∧
      st.exclOf ("chr1", 40001, 40200) "NA" = 0 ∧
      wAll.countP (alnSays (tableProc "chr1" wLost) wGenes true "NA" (-1) ("chr1", 40001, 40200) "NA") = 1 := by
  refine ⟨_, rfl, by decide +kernel, by decide +kernel⟩

-- non-vacuity of `chromosome_row_counts`: the witness chromosome meets its hypotheses about `all` / `out`
example : (wAll.map (·.rid)).Nodup ∧ (∀ p ∈ wOut, ∀ a ∈ p.2, a ∈ wAll) ∧ (∀ a ∈ wAll, ∃ p ∈ wOut, a ∈ p.2) := by
  refine ⟨by decide, by decide, by decide⟩

end IsoVerif.Props.C13Chromosome
