/-
C11 — translation equivariance of the list functions of the interval model (Model/Interval.lean), for ALL
lists (sorted or not, well formed or not), ALL positions and ALL shifts `k : Int`:

  lengths, fractions, sums, indices :  X (shift k args) = X args
  interval lists / intervals        :  X (shift k args) = shift k (X args)        (errors map to errors)

Positions carrying the code's sentinel −1 ("no polyA/polyT") are shifted by `shiftPos`, which keeps the
sentinel; the only hypothesis that ever appears is that a shifted real position does not land ON the
sentinel (`p + k ≠ −1`), and `truncate_sentinel_collision_witness` shows that it is needed.
-/
import IsoVerif.Gen.Prims
import IsoVerif.Model.Interval
import IsoVerif.Model.C11Symmetry
import IsoVerif.Lemmas.C11Shift

namespace IsoVerif.Props.C11Lists
open IsoVerif.Gen IsoVerif.Model IsoVerif.Model.C11 IsoVerif.Lemmas.C11

/-! ## section: Model/Interval.lean — translation -/

theorem shift_equivariant_intervalsTotalLength (k : Int) (l : List Iv) :
    intervalsTotalLength (shiftL k l) = intervalsTotalLength l :=
  intervalsTotalLength_shift k l

theorem shift_equivariant_sumIntervalsToPoint (k : Int) (l : List Iv) (p : Int) :
    sumIntervalsToPoint (shiftL k l) (p + k) = sumIntervalsToPoint l p := by
  simp only [sumIntervalsToPoint, shiftL_head?, shiftL_getLast?]
  cases l.head? <;> cases l.getLast? <;> simp only [Option.map_none, Option.map_some]
  simp only [shiftIv_fst, shiftIv_snd, sumToLoop_shift, intervalsTotalLength_shift]
  grind

theorem shift_equivariant_sumIntervalsFromPoint (k : Int) (l : List Iv) (p : Int) :
    sumIntervalsFromPoint (shiftL k l) (p + k) = sumIntervalsFromPoint l p := by
  simp only [sumIntervalsFromPoint, shiftL_head?, shiftL_getLast?]
  cases l.head? <;> cases l.getLast? <;> simp only [Option.map_none, Option.map_some]
  simp only [shiftIv_fst, shiftIv_snd, ← shiftL_reverse, sumFromLoop_shift, intervalsTotalLength_shift]
  grind

theorem shift_equivariant_readCoverageSweep (k : Int) (l1 l2 : List Iv) :
    readCoverageSweep (shiftL k l1) (shiftL k l2) = readCoverageSweep l1 l2 :=
  readCoverageSweep_shift k l1 l2

theorem shift_equivariant_readCoverageFraction (k : Int) (read iso : List Iv) :
    readCoverageFraction (shiftL k read) (shiftL k iso) = readCoverageFraction read iso := by
  simp only [readCoverageFraction, intervalsTotalLength_shift, readCoverageSweep_shift]

theorem shift_equivariant_jaccardSweep (k : Int) (l1 l2 : List Iv) :
    jaccardSweep (shiftL k l1) (shiftL k l2) = jaccardSweep l1 l2 := by
  simp only [jaccardSweep, jaccardLoop_shift]

theorem shift_equivariant_mergeRanges (k : Int) (l1 l2 : List Iv) :
    mergeRanges (shiftL k l1) (shiftL k l2) = (mergeRanges l1 l2).map (shiftL k) := by
  have h := mergeLoop_shift k l1 false l2 false []
  simp only [shiftL_nil] at h
  simp only [mergeRanges, h]
  cases mergeLoop l1 false l2 false [] with
  | none => rfl
  | some acc =>
    simp only [Option.map_some]
    cases acc with
    | nil => rfl
    | cons a t => simp [shiftL]

theorem shift_equivariant_extraExonPercentage (k : Int) (reg : Iv) (exons : List Iv) :
    extraExonPercentage (shiftIv k reg) (shiftL k exons) = extraExonPercentage reg exons := by
  simp only [extraExonPercentage, extraExonLoop_shift]

theorem shift_equivariant_junctionsFromBlocks (k : Int) (l : List Iv) :
    junctionsFromBlocks (shiftL k l) = shiftL k (junctionsFromBlocks l) :=
  junctionsFromBlocks_shift k l

macro "c11_opt_cases" : tactic => `(tactic|
  (simp only [Option.map_some, Option.map_none, shiftIv, Option.map_map, Function.comp_def]
   repeat' split
   all_goals (try simp_all)
   all_goals (try omega)
   all_goals (try (simp [shiftIv] <;> omega))))

theorem shift_equivariant_getExons (k : Int) (region : Iv) (introns : List Iv) :
    getExons (shiftIv k region) (shiftL k introns) = shiftL k (getExons region introns) := by
  simp only [getExons, ← junctionsFromBlocks_shift, shiftL_cons, shiftL_append, shiftL_nil, shiftIv]
  have e1 : region.1 + k - 1 = region.1 - 1 + k := by omega
  have e2 : region.2 + k + 1 = region.2 + 1 + k := by omega
  simp only [e1, e2]
  exact (junctionsFromBlocks_first 0 (0 + k) _ _).trans
    (junctionsFromBlocks_last ((0 + k, region.1 - 1 + k) :: shiftL k introns) (region.2 + 1 + k) 0 (0 + k))

theorem shift_equivariant_getExon (k : Int) (region : Iv) (junctions : List Iv) (i : Int) :
    getExon (shiftIv k region) (shiftL k junctions) i = (getExon region junctions i).map (shiftIv k) := by
  simp only [getExon, shiftL_length, pyGet?_shiftL]
  generalize pyGet? junctions 0 = g0
  generalize pyGet? junctions (-1) = g1
  generalize (if i < 0 then (junctions.length : Int) + i + 1 else i) = p
  generalize pyGet? junctions (p - 1) = g2
  generalize pyGet? junctions p = g3
  cases g0 <;> cases g1 <;> cases g2 <;> cases g3 <;> c11_opt_cases

theorem shift_equivariant_getFollowingExon (k : Int) (region : Iv) (introns : List Iv) (pos : Int) :
    getFollowingExon (shiftIv k region) (shiftL k introns) pos
      = (getFollowingExon region introns pos).map (shiftIv k) := by
  simp only [getFollowingExon, shiftL_length, pyGet?_shiftL]
  generalize pyGet? introns (pos + 1) = g0
  generalize pyGet? introns pos = g1
  by_cases h : pos = (introns.length : Int) - 1 ∨ pos = -1
  · simp only [h, if_true]; cases g1 <;> simp [shiftIv]; omega
  · simp only [h, if_false]; cases g0 <;> cases g1 <;> simp [shiftIv] <;> omega

theorem shift_equivariant_getPrecedingExon (k : Int) (region : Iv) (introns : List Iv) (pos : Int) :
    getPrecedingExon (shiftIv k region) (shiftL k introns) pos
      = (getPrecedingExon region introns pos).map (shiftIv k) := by
  simp only [getPrecedingExon, shiftL_length, pyGet?_shiftL]
  generalize pyGet? introns (pos - 1) = g0
  generalize pyGet? introns pos = g1
  by_cases h0 : pos > (introns.length : Int)
  · simp only [h0, if_true, Option.map_none]
  · simp only [h0, if_false]
    by_cases h1 : pos = 0
    · simp only [h1, if_true]
      by_cases h2 : (0 : Int) = (introns.length : Int)
      · simp [h2, shiftIv]
      · cases g1 <;> simp [h2, shiftIv]; omega
    · simp only [h1, if_false]
      cases g0 with
      | none => simp
      | some x =>
        simp only [Option.map_some]
        by_cases h2 : pos = (introns.length : Int)
        · simp [h2, shiftIv]; omega
        · cases g1 <;> simp [h2, shiftIv]; omega

/-- both binary searches return the same index -/
theorem shift_equivariant_intervalBinSearch (k : Int) (l : List Iv) (p : Int) :
    intervalBinSearch (shiftL k l) (p + k) = intervalBinSearch l p := by
  simp only [intervalBinSearch, shiftL_head?, shiftL_getLast?]
  cases l.head? <;> cases l.getLast? <;> simp only [Option.map_none, Option.map_some]
  simp only [shiftIv_fst, shiftIv_snd, binSearchLoop_shift, shiftL_length]
  grind

theorem shift_equivariant_intervalBinSearchRev (k : Int) (l : List Iv) (p : Int) :
    intervalBinSearchRev (shiftL k l) (p + k) = intervalBinSearchRev l p := by
  simp only [intervalBinSearchRev, shiftL_head?, shiftL_getLast?]
  cases l.head? <;> cases l.getLast? <;> simp only [Option.map_none, Option.map_some]
  simp only [shiftIv_fst, shiftIv_snd, binSearchRevLoop_shift, shiftL_length]
  grind

-- non-vacuity: the functions compute non-trivial values on a shifted instance
example : sumIntervalsToPoint (shiftL 255 [(1, 5), (10, 12)]) (11 + 255) = some 6 ∧
    intervalBinSearch (shiftL 255 [(1, 5), (10, 12), (20, 30)]) (11 + 255) = some 1 ∧
    getExons (shiftIv 7 (1, 30)) (shiftL 7 [(6, 9), (13, 19)]) = [(8, 12), (17, 19), (27, 37)] := by
  decide

end IsoVerif.Props.C11Lists
