/-
C09 — the VALUES of a grouped TPM table (`convert_counts_to_tpm` of a grouped counter, Model/C09Tpm.lean).

For every count file whose rows all have `k` value columns (what `dump_grouped` / `merge_counts` write), for all
feature ids, counts and numbers of groups:

  * the conversion does not raise, the TPM table has the rows of the count table (up to the first statistics line,
    comment lines skipped) in the same order, each with `k` values;
  * the cell of feature `f` in group column `j` is `count(f, j) · 10^6 / Σ_f' count(f', j)` (`· 10^6` when the column
    has no positive sum);
  * every column with a positive sum sums to exactly 10^6; a column without counts stays zero; within a column all
    ratios of the counts are preserved; a column depends on no other column;
  * the `--normalization_method` and the number of usable reads have no influence on a grouped table;
  * a row shorter than the longest one makes the conversion raise `IndexError` (never a silently shifted column).
Values are exact rationals (the file prints them with `%.6f`); the header is `Props/C09.lean` `tpm_header_labels`.
-/
import IsoVerif.Model.C09Tpm
import IsoVerif.Lemmas.C09Tpm

namespace IsoVerif.Props.C09Tpm
open IsoVerif.Model.C09 IsoVerif.Lemmas.C09Tpm

/-- the documented TPM value of a cell: the count times `10^6 / column sum` -/
def tpmValue (inp : List (String × List Int)) (j : Nat) (r : String × List Int) : Rat :=
  gScale (colTotal j inp) * pvAt r.2 j

/-- `k` value columns in every row the conversion looks at -/
def Rect (k : Nat) (rows : List (String × List Int)) : Prop := ∀ r ∈ tpmInputRowsG rows, r.2.length = k

/-- **grouped_tpm_values**: on a rectangular count table the grouped TPM table is, cell by cell, the documented value:
    same rows in the same order, `k` columns, cell (f, j) = count(f, j) · `gScale` (column sum j), where
    `gScale T = 10^6 / T` for `T > 0` (`gScale_spec`) -/
theorem grouped_tpm_values (un : Bool) (rt k : Nat) (rows : List (String × List Int)) (hrect : Rect k rows) :
    groupedTpm un rt rows = .ok ((tpmInputRowsG rows).map (fun r =>
      (r.1, (List.range k).map (fun j => tpmValue (tpmInputRowsG rows) j r)))) := by
  unfold groupedTpm
  simp only []
  unfold Rect at hrect
  generalize tpmInputRowsG rows = inp at hrect ⊢
  by_cases hne : inp = []
  · subst hne; rfl
  have hlen : ((gTotals inp).map gScale).length = k := by
    rw [List.length_map]; exact gTotals_length k inp hrect hne
  rw [tpmRows_ok _ inp (by intro r hr; rw [hlen, hrect r hr]; exact Nat.le_refl _)]
  congr 1
  apply List.map_congr_left
  intro r hr
  congr 1
  apply List.ext_getElem?
  intro j
  by_cases hj : j < k
  · have hrl := hrect r hr
    have hjr : j < r.2.length := by omega
    rw [List.getElem?_zipWith, List.getElem?_map, gTotals_getElem k inp hrect hne j hj,
      List.getElem?_eq_getElem hjr]
    simp only [Option.map_some, List.getElem?_map, List.getElem?_range hj, tpmValue, pvAt,
      List.getElem?_eq_getElem hjr]
  · have h1 : ((gTotals inp).map gScale)[j]? = none := by
      apply List.getElem?_eq_none; omega
    rw [List.getElem?_zipWith, h1]
    have h2 : ((List.range k).map (fun j => tpmValue inp j r))[j]? = none := by
      apply List.getElem?_eq_none; simp; omega
    rw [h2]

/-- the scale of a column with a positive sum is `10^6 / sum`; it is always positive -/
theorem gScale_spec (t : Rat) : (0 < t → gScale t = 1000000 / t) ∧ 0 < gScale t :=
  ⟨fun h => by simp [gScale, h], gScale_pos t⟩

/-- **grouped_tpm_column_sum**: every group column with a positive count sum sums to exactly 10^6 -/
theorem grouped_tpm_column_sum (inp : List (String × List Int)) (j : Nat) (hpos : 0 < colTotal j inp) :
    rsum (inp.map (fun r => tpmValue inp j r)) = 1000000 := by
  unfold tpmValue
  rw [rsum_map_map inp (fun r => pvAt r.2 j) (gScale (colTotal j inp))]
  exact gScale_mul _ hpos

/-- **grouped_tpm_zero_column**: a cell without count has TPM 0; in particular a column without any count is a zero
    column (it is not dropped and not filled by the normalisation) -/
theorem grouped_tpm_zero_column (inp : List (String × List Int)) (j : Nat) (r : String × List Int)
    (h : pvAt r.2 j = 0) : tpmValue inp j r = 0 := by
  simp [tpmValue, h, Rat.mul_zero]

/-- **grouped_tpm_ratio**: within a group column the TPM values are the counts times one positive factor, so the
    ratio (and order) of any two features is that of their counts -/
theorem grouped_tpm_ratio (inp : List (String × List Int)) (j : Nat) (r₁ r₂ : String × List Int) :
    tpmValue inp j r₁ * pvAt r₂.2 j = tpmValue inp j r₂ * pvAt r₁.2 j ∧
    (pvAt r₁.2 j ≤ pvAt r₂.2 j → tpmValue inp j r₁ ≤ tpmValue inp j r₂) := by
  refine ⟨by unfold tpmValue; grind, ?_⟩
  intro h
  unfold tpmValue
  exact Rat.mul_le_mul_of_nonneg_left h (Rat.le_of_lt (gScale_pos _))

/-- **grouped_tpm_column_independent**: the values of column `j` are a function of the counts of column `j` alone
    (two tables that agree on column `j` get the same TPM column, whatever the other groups hold) -/
theorem grouped_tpm_column_independent (inp inp' : List (String × List Int)) (j : Nat) (r r' : String × List Int)
    (hcol : inp.map (fun x => pvAt x.2 j) = inp'.map (fun x => pvAt x.2 j)) (hr : pvAt r.2 j = pvAt r'.2 j) :
    tpmValue inp j r = tpmValue inp' j r' := by
  unfold tpmValue colTotal
  rw [hcol, hr]

/-- **grouped_tpm_ignores_normalization**: `--normalization_method usable_reads` and the number of usable reads do
    not enter a grouped TPM table (the code applies them only when `ignore_read_groups`) -/
theorem grouped_tpm_ignores_normalization (un : Bool) (rt : Nat) (rows : List (String × List Int)) :
    groupedTpm un rt rows = groupedTpm false 0 rows := rfl

/-- **grouped_tpm_ragged_error**: a row with fewer values than another row of the table makes the conversion raise
    `IndexError`; values are never attributed to a shifted column -/
theorem grouped_tpm_ragged_error (un : Bool) (rt : Nat) (rows : List (String × List Int))
    (r r' : String × List Int) (hr : r ∈ tpmInputRowsG rows) (hr' : r' ∈ tpmInputRowsG rows)
    (hshort : r.2.length < r'.2.length) :
    groupedTpm un rt rows = .error .indexError := by
  unfold groupedTpm
  simp only []
  apply tpmRows_short _ _ r hr
  rw [List.length_map]
  -- the totals are at least as long as the row `r'`
  have hlen : ∀ (l : List (String × List Int)) (acc : List Rat) (x : String × List Int), x ∈ l →
      x.2.length ≤ (l.foldl (fun a r => addCols a r.2) acc).length := by
    intro l
    induction l with
    | nil => intro acc x hx; simp at hx
    | cons y ys ih =>
      intro acc x hx
      have hmono : ∀ (l : List (String × List Int)) (acc : List Rat),
          acc.length ≤ (l.foldl (fun a r => addCols a r.2) acc).length := by
        intro l
        induction l with
        | nil => intro acc; simp
        | cons z zs ihz =>
          intro acc
          simp only [List.foldl_cons]
          have := ihz (addCols acc z.2)
          rw [addCols_length] at this
          omega
      simp only [List.foldl_cons]
      rcases List.mem_cons.mp hx with h | h
      · subst h
        have := hmono ys (addCols acc x.2)
        rw [addCols_length] at this
        omega
      · exact ih _ x h
  have := hlen (tpmInputRowsG rows) [] r' hr'
  unfold gTotals
  omega

/-! ### non-vacuity -/

/-- two groups, the second with counts of the feature `#c` only (an id may start with `#`: a row like any other since
    the repair `fix_tpm_header`); the table ends at the statistics line -/
example : groupedTpm false 0 [("g1", [100, 0]), ("#c", [100, 5]), ("g2", [300, 0]), ("__ambiguous", [7, 7]), ("g3", [1, 1])] =
    .ok [("g1", [200000, 0]), ("#c", [200000, 1000000]), ("g2", [600000, 0])] := by decide +kernel

example : Rect 2 [("g1", [100, 0]), ("#c", [100, 5]), ("g2", [300, 0]), ("__ambiguous", [7, 7]), ("g3", [1])] := by
  intro r hr
  have : tpmInputRowsG [("g1", [100, 0]), ("#c", [100, 5]), ("g2", [300, 0]), ("__ambiguous", [7, 7]), ("g3", [1])] =
      [("g1", [100, 0]), ("#c", [100, 5]), ("g2", [300, 0])] := by decide +kernel
  rw [this] at hr
  simp at hr
  rcases hr with rfl | rfl | rfl <;> rfl

/-- **grouped_tpm_hash_witness**: the rows the unrepaired reader looked at lack the feature `#c` (its counts were in no
    column total and it had no TPM row) -/
theorem grouped_tpm_hash_witness :
    tpmInputRowsGOrig [("g1", [100, 0]), ("#c", [100, 5]), ("g2", [300, 0]), ("__ambiguous", [7, 7])]
      = [("g1", [100, 0]), ("g2", [300, 0])] ∧
    tpmInputRowsG [("g1", [100, 0]), ("#c", [100, 5]), ("g2", [300, 0]), ("__ambiguous", [7, 7])]
      = [("g1", [100, 0]), ("#c", [100, 5]), ("g2", [300, 0])] := by decide +kernel

example : 0 < colTotal 0 [("g1", [100, 0]), ("g2", [300, 0])] := by decide +kernel

/-- the ragged case is real: the second row lacks the value of the second group -/
example : groupedTpm true 5 [("g1", [100, 50]), ("g2", [300])] = .error .indexError := by decide +kernel

end IsoVerif.Props.C09Tpm
