/-
C15 (reuse clause) / C05 / C08 at the level of the printed lines — the read-level output printers
(`read_assignments.tsv`, `corrected_reads.bed`; Model/Printers.lean, Model/ReusePrint.lean).

  §1  line-level specification: the lines printed for a record are a function of the record AS LOADED and of the gene
      info (`printers_pure`: whatever `gene_info.canonical_sites` held); exactly one TSV line per isoform match or
      exactly one `unmatched_line`; field by field; exactly one BED record per record that passes the checker and has
      exons; the TSV text is the tab-joined columns
  §2  the printers do not read what the on-disk format truncates (`lines_ignore_quantisation`)
  §3  the reuse clause with the printed files: `restart_prints_second_half`, `reuse_reproduces_printed`

MODEL: both printers, the composite printer, the event strings over GENERATED tables, the loader on full records, the
per-chromosome files and their merge.  PARAMETERS: `PrintEnv` (what `GeneInfo.deserialize` re-derives from the gene
database, the chromosome sequences, `--check_canonical`, `--cage`, the two command-line header lines) and the `Env` /
`Config` of Props/C15Reuse.lean.  OUTSIDE: model construction, SQANTI-like output, gzipped output.
-/
import IsoVerif.Lemmas.Printers
import IsoVerif.Props.C14
import IsoVerif.Props.C15Reuse

namespace IsoVerif.Props.C15Printers
open IsoVerif.Gen IsoVerif.Model IsoVerif.Model.Serial IsoVerif.Model.Resolver IsoVerif.Model.C12 IsoVerif.Model.C15
open IsoVerif.Model.Printers IsoVerif.Model.C18 IsoVerif.Props.C18
open IsoVerif.Lemmas.Printers IsoVerif.Lemmas.Serial IsoVerif.Lemmas.C15
open IsoVerif.Props.C15Objects IsoVerif.Props.C15Stream IsoVerif.Props.C15Reuse

/-! ## 1. line-level specification -/

/-- **printers_pure**: for the records of a gene region, in every memo state that can arise for its `gene_info`
    (fresh after `set_reference_sequence`, or after any history of reads and transcript models), the composite printer
    writes the concatenation of `recordLines`, a function of (printer configuration, gene info, record) alone. -/
theorem printers_pure (C : PrinterCfg) (gv : GeneView) (rs : List ReadAssignment) (σ : CanonMemo)
    (h : Reachable gv.ref σ) : printRecords C gv rs σ = specRecords C gv rs :=
  printRecords_pure C gv rs σ h

/-- the per-region start of `construct_models_in_parallel`: a fresh `gene_info`, empty memo -/
theorem printers_pure_fresh (C : PrinterCfg) (gv : GeneView) (rs : List ReadAssignment) :
    printRecords C gv rs [] = specRecords C gv rs := printRecords_pure C gv rs [] Reachable.fresh

/-- if every record prints, the two files get exactly the per-record lines, in record order -/
theorem specRecords_of_all {C : PrinterCfg} {gv : GeneView} {rs : List ReadAssignment}
    {f : ReadAssignment → List C14.BedRecord × List TsvLine} (h : ∀ r ∈ rs, recordLines C gv r = some (f r)) :
    specRecords C gv rs = some { bed := rs.flatMap (fun r => (f r).1), tsv := rs.flatMap (fun r => (f r).2) } := by
  induction rs with
  | nil => rfl
  | cons r rs ih =>
    simp only [specRecords, h r (by simp), ih (fun x hx => h x (List.mem_cons_of_mem _ hx)), List.flatMap_cons]

/-- and conversely: when the region prints, every record has its lines and the files are their concatenation -/
theorem specRecords_some {C : PrinterCfg} {gv : GeneView} :
    ∀ {rs : List ReadAssignment} {L : Lines}, specRecords C gv rs = some L →
      ∃ f : ReadAssignment → List C14.BedRecord × List TsvLine, (∀ r ∈ rs, recordLines C gv r = some (f r)) ∧
        L.bed = rs.flatMap (fun r => (f r).1) ∧ L.tsv = rs.flatMap (fun r => (f r).2) := by
  intro rs
  induction rs with
  | nil =>
    intro L h
    simp only [specRecords, Option.some.injEq] at h
    subst h
    exact ⟨fun _ => ([], []), fun _ hr => (by cases hr), rfl, rfl⟩
  | cons r rs ih =>
    intro L h
    cases h1 : recordLines C gv r with
    | none => simp [specRecords, h1] at h
    | some x =>
      cases h2 : specRecords C gv rs with
      | none => simp [specRecords, h1, h2] at h
      | some rest =>
        simp only [specRecords, h1, h2, Option.some.injEq] at h
        subst h
        obtain ⟨f, hf, hb, ht⟩ := ih h2
        refine ⟨fun q => ((recordLines C gv q).getD ([], [])), ?_, ?_, ?_⟩
        · intro q hq
          rcases List.mem_cons.mp hq with rfl | hq'
          · simp [h1]
          · simp [hf q hq']
        · simp only [List.flatMap_cons, h1, Option.getD_some, hb]
          congr 1
          exact flatMap_congr_mem (fun q hq => by simp [hf q hq])
        · simp only [List.flatMap_cons, h1, Option.getD_some, ht]
          congr 1
          exact flatMap_congr_mem (fun q hq => by simp [hf q hq])

/-- **tsv_line_count**: a record that passes the checker gets exactly one line per isoform match, or exactly one
    `unmatched_line` when it has no match; a record that fails the checker gets none. -/
theorem tsv_line_count (ck : Checker) (P : Params) (gv : GeneView) (r : ReadAssignment) (ls : List TsvLine)
    (h : specTsv ck P gv r = some ls) :
    (ck.check r = false → ls = []) ∧
    (ck.check r = true → r.isoformMatches = [] → ls = [unmatchedLine r []]) ∧
    (ck.check r = true → ls.length = max 1 r.isoformMatches.length) := by
  unfold specTsv at h
  refine ⟨?_, ?_, ?_⟩
  · intro hc
    simp only [hc, Bool.not_false, if_true, Option.some.injEq] at h
    exact h.symm
  · intro hc he
    simp only [hc, he, Bool.not_true, Bool.false_eq_true, if_false, List.isEmpty_nil, if_true,
      Option.some.injEq] at h
    exact h.symm
  · intro hc
    simp only [hc, Bool.not_true, Bool.false_eq_true, if_false] at h
    cases hm : r.isoformMatches with
    | nil =>
      simp only [hm, List.isEmpty_nil, if_true, Option.some.injEq] at h
      subst h
      rfl
    | cons m ms =>
      simp only [hm, List.isEmpty_cons, Bool.false_eq_true, if_false] at h
      rw [specMatchLines_length P gv r _ ls h]
      simp only [List.length_cons]
      omega

/-- every TSV line of a record carries its read id, chromosome, strand, assignment type and exon string -/
theorem tsv_lines_of_record (ck : Checker) (P : Params) (gv : GeneView) (r : ReadAssignment) (ls : List TsvLine)
    (h : specTsv ck P gv r = some ls) :
    ∀ l ∈ ls, l.readId = r.readId ∧ l.chr = r.chrId ∧ l.strand = r.strand ∧
      l.assignmentType = r.assignmentType.name ∧ l.exons = rangeListToStr r.exons := by
  unfold specTsv at h
  by_cases hc : ck.check r = true
  · simp only [hc, Bool.not_true, Bool.false_eq_true, if_false] at h
    by_cases he : r.isoformMatches.isEmpty = true
    · simp only [he, if_true, Option.some.injEq] at h
      subst h
      intro l hl
      simp only [List.mem_singleton] at hl
      subst hl
      exact ⟨rfl, rfl, rfl, rfl, rfl⟩
    · simp only [he, Bool.false_eq_true, if_false] at h
      exact specMatchLines_common P gv r _ ls h
  · have hc' : ck.check r = false := by simpa using hc
    simp only [hc', Bool.not_false, if_true, Option.some.injEq] at h
    subst h
    intro l hl
    cases hl

/-- **tsv_line_fields** (field by field): the line of an isoform match with a transcript id.  The nine columns are the
    read id, the record's chromosome, the reported strand, the transcript and gene of the match, the NAME of the
    assignment type, the event strings joined by commas (each = strand-dependent name from the generated table +
    the intron / offset suffix), the exon ranges, and the additional-info tokens joined by blanks in the order
    gene_assignment, PolyA, [CAGE], [Canonical], Classification, attributes.
    It exists iff the gene info knows the transcript and the match has a gene id (otherwise the real code raises). -/
theorem tsv_line_fields (P : Params) (gv : GeneView) (r : ReadAssignment) (m : IsoformMatch) (t : String)
    (ht : m.assignedTranscript = some t) :
    (∀ l, specMatchLine P gv r m = some l →
      ∃ ii g, gv.isoformIntrons.lookup t = some ii ∧ m.assignedGene = some g ∧
        l.fields = [r.readId, r.chrId, r.strand, t, g, r.assignmentType.name,
                    ",".intercalate (m.events.map (fun e => eventStr e r.strand (junctionsFromBlocks r.exons) ii)),
                    rangeListToStr r.exons,
                    infoColumn (["gene_assignment=" ++ r.geneAssignmentType.name ++ ";",
                                 "PolyA=" ++ boolStr r.polyAFound ++ ";"]
                                ++ (if P.cage then ["CAGE=" ++ boolStr r.cageFound ++ ";"] else [])
                                ++ (match canonField P gv r with
                                    | some c => ["Canonical=" ++ c ++ ";"]
                                    | none => [])
                                ++ ["Classification=" ++ m.matchClassification.name ++ ";"]
                                ++ attrTokens r.additionalAttributes)]) ∧
    (specMatchLine P gv r m = none ↔ gv.isoformIntrons.lookup t = none ∨ m.assignedGene = none) := by
  unfold specMatchLine
  simp only [ht]
  cases hk : gv.isoformIntrons.lookup t with
  | none => simp
  | some ii =>
    cases hg : m.assignedGene with
    | none => simp
    | some g =>
      refine ⟨?_, by simp⟩
      intro l hl
      simp only [Option.some.injEq] at hl
      subst hl
      exact ⟨ii, g, rfl, rfl, rfl⟩

/-- the line of a match WITHOUT a transcript id is the unmatched line with the classification as its only token -/
theorem tsv_line_unassigned_match (P : Params) (gv : GeneView) (r : ReadAssignment) (m : IsoformMatch)
    (ht : m.assignedTranscript = none) :
    specMatchLine P gv r m = some (unmatchedLine r ["Classification=" ++ m.matchClassification.name ++ ";"]) ∧
    (unmatchedLine r ["Classification=" ++ m.matchClassification.name ++ ";"]).fields =
      [r.readId, r.chrId, r.strand, ".", ".", r.assignmentType.name, ".", rangeListToStr r.exons,
       " ".intercalate (("Classification=" ++ m.matchClassification.name ++ ";") :: attrTokens r.additionalAttributes)] := by
  refine ⟨by simp [specMatchLine, ht], ?_⟩
  simp [unmatchedLine, TsvLine.fields, infoColumn]

/-- the line of a record without any match: all-dots, `*` when there is no attribute -/
theorem tsv_line_no_match (r : ReadAssignment) :
    (unmatchedLine r []).fields =
      [r.readId, r.chrId, r.strand, ".", ".", r.assignmentType.name, ".", rangeListToStr r.exons,
       if r.additionalAttributes = [] then "*" else " ".intercalate (attrTokens r.additionalAttributes)] := by
  cases h : r.additionalAttributes with
  | nil => simp [unmatchedLine, TsvLine.fields, infoColumn, attrTokens, h]
  | cons a t => simp [unmatchedLine, TsvLine.fields, infoColumn, attrTokens, h]

/-- the text of a line is `"\t".join(columns) + "\n"` -/
theorem render_eq_intercalate (l : TsvLine) : l.render = "\t".intercalate l.fields ++ "\n" := by
  simp [TsvLine.render, TsvLine.fields, String.append_assoc]

/-- the `Canonical=` token: absent without `--check_canonical` or without a reference window; `Unspliced` for a read
    without introns; otherwise True exactly when every intron of the read has a canonical dinucleotide pair on the
    read's reported strand in the reference (C18's declarative predicate); a read whose reported strand is `.` (hypothesis
    `hst` excludes it here) is True when its chain is canonical on one of the two strands: C18 `canonical_pure_declarative_dot` -/
theorem canonical_token (P : Params) (gv : GeneView) (r : ReadAssignment)
    (hst : strandOf r.strand ≠ .dot)
    (hin : ∀ it ∈ junctionsFromBlocks r.exons, gv.ref.start ≤ it.1 ∧ gv.ref.start < it.2) :
    (canonField P gv r = none ↔ ¬ (P.checkCanonical = true ∧ gv.ref.refRegion ≠ [])) ∧
    (P.checkCanonical = true → gv.ref.refRegion ≠ [] →
      (junctionsFromBlocks r.exons = [] → canonField P gv r = some "Unspliced") ∧
      (junctionsFromBlocks r.exons ≠ [] →
        (canonField P gv r = some "True" ↔ ∀ it ∈ junctionsFromBlocks r.exons, CanonicalOn gv.ref it (strandOf r.strand)) ∧
        (canonField P gv r = some "True" ∨ canonField P gv r = some "False"))) := by
  refine ⟨?_, ?_⟩
  · unfold canonField
    by_cases h : P.checkCanonical = true ∧ gv.ref.refRegion ≠ [] <;> simp [h]
  · intro h1 h2
    have hc : canonField P gv r = some (pureFlag gv.ref r.exons (strandOf r.strand)) := by
      simp [canonField, h1, h2]
    refine ⟨?_, ?_⟩
    · intro hj
      rw [hc]
      simp [pureFlag, hj]
    · intro hj
      rw [hc]
      simp only [pureFlag, hj, if_false, Option.some.injEq]
      have hall : pureAnswer gv.ref (junctionsFromBlocks r.exons) (strandOf r.strand) = true ↔
          ∀ it ∈ junctionsFromBlocks r.exons, CanonicalOn gv.ref it (strandOf r.strand) := by
        rw [pureAnswer_stranded _ _ _ hst, List.all_eq_true]
        constructor
        · intro hh it hit
          exact (canonCompute_iff gv.ref it _ (hin it hit).1 (hin it hit).2).mp (hh it hit)
        · intro hh it hit
          exact (canonCompute_iff gv.ref it _ (hin it hit).1 (hin it hit).2).mpr (hh it hit)
      cases hb : pureAnswer gv.ref (junctionsFromBlocks r.exons) (strandOf r.strand) with
      | true =>
        refine ⟨?_, Or.inl rfl⟩
        rw [← hall, hb]
        simp [boolStr]
      | false =>
        refine ⟨?_, Or.inr rfl⟩
        rw [← hall, hb]
        simp only [boolStr, Bool.false_eq_true, if_false, iff_false]
        decide

/-- **bed_line_spec**: a record that fails the checker gets no BED line; one that passes it and has blocks gets exactly
    one record – chromosome of the gene info, name = read id, strand = MAPPED strand, and the blocks a BED consumer
    reconstructs are the printed exon list (C14 `bed_blocks_roundtrip`); one that passes it without blocks makes the
    real printer raise. -/
theorem bed_line_spec (ck : Checker) (pc : Bool) (gv : GeneView) (r : ReadAssignment) :
    (ck.check r = false → bedOf ck pc gv r = some none) ∧
    (ck.check r = true → (if pc then r.correctedExons else r.exons) ≠ [] →
      ∃ b, bedOf ck pc gv r = some (some b) ∧ b.chrom = gv.chrId ∧ b.name = r.readId ∧ b.strand = r.mappedStrand ∧
        b.blocks = (if pc then r.correctedExons else r.exons)) ∧
    (ck.check r = true → (if pc then r.correctedExons else r.exons) = [] → bedOf ck pc gv r = none) := by
  refine ⟨?_, ?_, ?_⟩
  · intro hc
    simp [bedOf, hc]
  · intro hc hne
    obtain ⟨b, hb⟩ := (IsoVerif.Props.C14.bed_record_some_iff gv.chrId r.readId r.mappedStrand _).mpr hne
    refine ⟨b, by simp [bedOf, hc, hb], ?_, ?_, ?_, IsoVerif.Props.C14.bed_blocks_roundtrip _ _ _ _ b hb⟩
    all_goals
      revert hb
      generalize (if pc then r.correctedExons else r.exons) = ex
      intro hb
      unfold C14.bedRecord at hb
      split at hb
      · simp only [Option.some.injEq] at hb
        subst hb
        rfl
      · cases hb
  · intro hc he
    simp [bedOf, hc, he, C14.bedRecord]

/-- the glue is C14's `add_read_info` model given the loaded record: same lines -/
theorem bed_glue_is_C14 (ck : Checker) (pc : Bool) (gv : GeneView) (r : ReadAssignment) :
    C14.addReadInfo (bedInput ck pc gv r) = (bedOf ck pc gv r).map (fun o => o.map C14.BedRecord.render) := by
  rw [IsoVerif.Props.C14.add_read_info_spec]
  unfold bedInput bedOf
  cases hc : ck.check r <;> simp <;>
    cases C14.bedRecord gv.chrId r.readId r.mappedStrand (if pc then r.correctedExons else r.exons) <;> rfl

/-! ## 2. the printers do not read what the on-disk format truncates -/

theorem check_quant (ck : Checker) (r : ReadAssignment) : ck.check (quantRA r) = ck.check r := by
  cases ck <;> rfl

theorem specMatchLines_quant (P : Params) (gv : GeneView) (r : ReadAssignment) (ms : List IsoformMatch) :
    specMatchLines P gv (quantRA r) (ms.map quantMatch) = specMatchLines P gv r ms := by
  induction ms with
  | nil => rfl
  | cons m ms ih =>
    simp only [List.map_cons, specMatchLines, ih]
    rfl

theorem specTsv_quant (ck : Checker) (P : Params) (gv : GeneView) (r : ReadAssignment) :
    specTsv ck P gv (quantRA r) = specTsv ck P gv r := by
  unfold specTsv
  rw [check_quant]
  have he : (quantRA r).isoformMatches.isEmpty = r.isoformMatches.isEmpty := by
    simp [quantRA]
  rw [he]
  have hm : specMatchLines P gv (quantRA r) (quantRA r).isoformMatches = specMatchLines P gv r r.isoformMatches :=
    specMatchLines_quant P gv r r.isoformMatches
  rw [hm]
  rfl

/-- **lines_ignore_quantisation**: the lines of both files are the same for a record and for the record as the dump
    holds it (penalties truncated to 2^-20): no printed column reads a penalty.  Together with `printers_pure` this is
    "the lines printed for a record are a function of the record as loaded": the saving run's in-memory records and
    the restart's loaded records print alike. -/
theorem lines_ignore_quantisation (C : PrinterCfg) (gv : GeneView) (r : ReadAssignment) :
    recordLines C gv (quantRA r) = recordLines C gv r := by
  have hb : bedOf C.bedChecker printer_bed_print_corrected gv (quantRA r) =
      bedOf C.bedChecker printer_bed_print_corrected gv r := by
    unfold bedOf
    rw [check_quant]
    rfl
  unfold recordLines
  rw [specTsv_quant, hb]

theorem specRecords_quant (C : PrinterCfg) (gv : GeneView) (rs : List ReadAssignment) :
    specRecords C gv (rs.map quantRA) = specRecords C gv rs := by
  induction rs with
  | nil => rfl
  | cons r rs ih => simp only [List.map_cons, specRecords, lines_ignore_quantisation, ih]

theorem fullOf_quant (E : Env) (r : ReadAssignment) : fullOf E (quantRA r) = fullOf E r := by
  simp [fullOf, toRec, basicOf, quantRA, quantMatch, List.map_map, Function.comp_def]

theorem loadGroupFull_quant (E : Env) (dict : List (Nat × List Rec)) (rs : List ReadAssignment) :
    loadGroupFull E dict (rs.map quantRA) = (loadGroupFull E dict rs).map quantRA := by
  induction rs with
  | nil => rfl
  | cons r rs ih =>
    simp only [loadGroupFull, List.map_cons, List.filterMap_cons, fullOf_quant] at ih ⊢
    cases loadOne dict (fullOf E r) with
    | none => simpa using ih
    | some f =>
      simp only [Option.map_some, List.map_cons]
      rw [ih]
      rfl

theorem spanStep_regionOver_quant (rs : List ReadAssignment) (se : Int × Int) :
    regionOver (rs.map quantRA) se = regionOver rs se := by
  induction rs generalizing se with
  | nil => rfl
  | cons r rs ih => simp only [List.map_cons, regionOver, List.foldl_cons] at ih ⊢; exact ih _

theorem viewOf_quant (X : PrintEnv) (chrName : String) (h : GeneHeader) (rs : List ReadAssignment) :
    viewOf X chrName h (rs.map quantRA) = viewOf X chrName h rs := by
  simp only [viewOf, refOf, spanStep_regionOver_quant, List.isEmpty_map]

theorem printGroups_quant (E : Env) (X : PrintEnv) (chrName : String) (dict : List (Nat × List Rec))
    (gs : List (Group ReadAssignment)) :
    printGroups E X chrName dict (quantGroups gs) = printGroups E X chrName dict gs := by
  induction gs with
  | nil => rfl
  | cons g gs ih =>
    have ih' : printGroups E X chrName dict (gs.map (fun g => (g.1, g.2.map quantRA))) =
        printGroups E X chrName dict gs := ih
    simp only [quantGroups, List.map_cons, printGroups, printers_pure_fresh, loadGroupFull_quant, specRecords_quant,
      viewOf_quant, ih']

/-- a chromosome's lines computed from the records as the dump holds them are those computed from the originals -/
theorem printChr_quant (E : Env) (X : PrintEnv) (chrName : String) (dict : List (Nat × List Rec))
    (gs : List (Group ReadAssignment)) :
    printChr E X chrName dict (quantGroups gs) = printChr E X chrName dict gs := by
  unfold printChr
  have hr : raisesAny E dict (quantGroups gs) = raisesAny E dict gs := by
    simp [raisesAny, quantGroups, List.any_map, Function.comp_def, fullOf_quant]
  rw [hr, printGroups_quant]

/-! ## 3. the reuse clause with the two printed files -/

/-- **restart_prints_second_half**: whatever the saving run computed AND PRINTED from the files it wrote, a run
    restarted from these files computes and prints again – `read_assignments.tsv` and `corrected_reads.bed` line for
    line (header lines: the two `common_header` lines are a parameter; the restart's own command line differs there).
    No hypothesis: holds for all inputs. -/
theorem restart_prints_second_half (E : Env) (cfg : Config) (X : PrintEnv) (readGroups : List String)
    (unmapped : List Nat) (chroms : List ChrIn) (files : Saved) (o : RunOut) (p : Printed)
    (h : savingRunP E cfg X readGroups unmapped chroms = some (files, o, p)) :
    restartRunP E cfg X (chroms.map (·.name)) files = some (o, p) := by
  unfold savingRunP at h
  cases hs : savingRun E cfg readGroups unmapped chroms with
  | none => rw [hs] at h; cases h
  | some fo =>
    obtain ⟨files', o'⟩ := fo
    rw [hs] at h
    simp only [Option.map_eq_some_iff, Prod.mk.injEq] at h
    obtain ⟨p', hp, rfl, rfl, rfl⟩ := h
    unfold restartRunP
    rw [restart_is_second_half_files E cfg readGroups unmapped chroms files' o' hs, hp]

/-- the two files computed from the ORIGINAL in-memory records of the saving run: per chromosome the loader with the
    verdicts of the run's own resolver, the composite printer, then the merge -/
def printedFromRecords (E : Env) (X : PrintEnv) (order : List Nat) (resolved : List (Nat × List Rec))
    (chroms : List ChrIn) : Option Printed :=
  (chroms.mapM (fun c => printChr E X c.name (verdictsFor (E.intern c.name) resolved) c.groups)).map (printedOf X order)

/-- **files_reproduce_printed**: on the files written by the modelled `collect_reads` (either memory mode) the second
    half prints exactly what the printers give on the records the saving run had in memory, under the verdicts of the
    resolver run on the compact records.  Hypotheses as for `reuse_reproduces_outputs`. -/
theorem files_reproduce_printed (E : Env) (cfg : Config) (X : PrintEnv) (readGroups : List String)
    (chroms : List ChrIn) (files : Saved) (ua : Nat) (hE : InternOk E chroms)
    (hsave : collectReads E cfg.highMemory readGroups ua chroms = some files)
    (hdom : InDomain chroms) (hpen : MemoryModeOk cfg.highMemory chroms)
    (hlen : (streamOf E chroms).length < ser_TERMINATION_INT) :
    ∃ resolved, resolveStream cfg.highMemory (streamOf E chroms) = some resolved ∧
      processSavedP E cfg X (chroms.map (·.name)) files = printedFromRecords E X cfg.mergeOrder resolved chroms := by
  obtain ⟨saves, d, resolved, mms, info, hs, hd, hr, _, hm, hi, rfl⟩ := collectReads_unpack hsave
  have hd1 := perReadLists_spec E cfg.highMemory chroms saves d hs hdom hpen hd
  have hres : resolveStream cfg.highMemory (streamOf E chroms) = some resolved := by
    unfold resolveStream
    simp only
    rw [← listsOf_fst, ← hd1]
    exact hr
  refine ⟨resolved, hres, ?_⟩
  have hclosed := streamOf_closed E chroms hE
  obtain ⟨hnd, hfacts⟩ := resolved_facts E _ _ _ hres hclosed
  have hrec : ∀ kv ∈ resolved, kv.2.length < ser_TERMINATION_INT ∧ ∀ r ∈ kv.2, r.readId = kv.1 ∧ IdsClosed E r :=
    fun kv hkv => ⟨Nat.lt_of_le_of_lt (hfacts kv hkv).1 hlen, (hfacts kv hkv).2⟩
  obtain ⟨hsaves, hsall⟩ := mapM_eq_some_map _ ([] : Bytes) chroms saves hs
  obtain ⟨hmms, hmall⟩ := mapM_eq_some_map _ ([] : Bytes) chroms mms hm
  unfold processSavedP printedFromRecords
  congr 1
  simp only
  rw [hsaves, hmms, zip_map_same, List.map_map, zip_map_same, mapM_map_opt]
  apply mapM_congr_mem
  intro c hc
  simp only [Function.comp]
  unfold constructChrP
  rw [loadVerdicts_written E c.name (hE _ (mem_allStrings_name hc)) resolved _ (hmall c hc) hnd hrec,
    (dump_decodes c.groups _ (hsall c hc) (hdom c hc)).1]
  exact printChr_quant E X c.name _ c.groups

/-- **reuse_reproduces_printed**: in the representable domain, both memory modes – the two read-level files of a run
    RESTARTED from the saved files and of the SAVING run itself are `printedFromRecords` of the records the saving run
    held in memory: the restart reproduces `read_assignments.tsv` and `corrected_reads.bed` exactly. -/
theorem reuse_reproduces_printed (E : Env) (cfg : Config) (X : PrintEnv) (readGroups : List String)
    (unmapped : List Nat) (chroms : List ChrIn) (files : Saved) (hE : InternOk E chroms)
    (hsave : collectReads E cfg.highMemory readGroups (countUnaligned unmapped) chroms = some files)
    (hdom : InDomain chroms) (hpen : MemoryModeOk cfg.highMemory chroms)
    (hlen : (streamOf E chroms).length < ser_TERMINATION_INT) :
    ∃ resolved, resolveStream cfg.highMemory (streamOf E chroms) = some resolved ∧
      (∀ o p, restartRunP E cfg X (chroms.map (·.name)) files = some (o, p) →
        printedFromRecords E X cfg.mergeOrder resolved chroms = some p) ∧
      (∀ f o p, savingRunP E cfg X readGroups unmapped chroms = some (f, o, p) →
        printedFromRecords E X cfg.mergeOrder resolved chroms = some p) := by
  obtain ⟨resolved, hres, hp⟩ := files_reproduce_printed E cfg X readGroups chroms files _ hE hsave hdom hpen hlen
  refine ⟨resolved, hres, ?_, ?_⟩
  · intro o p h
    unfold restartRunP at h
    rw [hp] at h
    cases h1 : restartRun E cfg (chroms.map (·.name)) files with
    | none => simp [h1] at h
    | some o' =>
      cases h2 : printedFromRecords E X cfg.mergeOrder resolved chroms with
      | none => simp [h1, h2] at h
      | some p' =>
        simp only [h1, h2, Option.some.injEq, Prod.mk.injEq] at h
        rw [h.2]
  · intro f o p h
    unfold savingRunP savingRun at h
    rw [hsave] at h
    simp only at h
    cases h1 : processSaved E cfg unmapped (chroms.map (·.name)) files with
    | none => simp [h1] at h
    | some o' =>
      simp only [h1, Option.map_some, hp, Option.map_eq_some_iff, Prod.mk.injEq] at h
      obtain ⟨p', hp', _, _, rfl⟩ := h
      exact hp'

/-! ## 4. a concrete locus and a concrete experiment: non-vacuity, and everything computes -/

/-- reference window 900..2100 with the read's intron 1201-1499 canonical on the minus strand (CT..AC), the acceptor
    soft-masked -/
def exWindow : C18.Seq :=
  List.replicate 301 'A' ++ ['C', 'T'] ++ List.replicate 295 'g' ++ ['a', 'c'] ++ List.replicate 601 'T'

def exView : GeneView :=
  { chrId := "chr1", isoformIntrons := [("T1", [(1201, 1499), (2101, 2500)]), ("T2", [(1201, 1499)])],
    ref := { refRegion := exWindow, start := 900 } }

def exCfgP : PrinterCfg := { bedChecker := .all, tsvChecker := .all, params := ⟨true, true⟩ }

-- `exRA` (Props/C15Objects.lean): strand '-', two isoform matches – one without transcript id, one of T2
example : (recordLines exCfgP exView exRA).map (fun x => (x.1.map C14.BedRecord.render, x.2.map TsvLine.fields)) = some
    (["chr1\t999\t2000\tread_é\t0\t+\t999\t999\t0\t3\t201,100,501\t0,201,500\n"],
     [["read_é", "chr1", "-", ".", ".", "ambiguous", ".", "1000-1200,1500-2000",
       "Classification=full_splice_match; CB=ACGT; pos=(-1, 3);"],
      ["read_é", "chr1", "-", "T2", "ENSG1", "ambiguous", "", "1000-1200,1500-2000",
       "gene_assignment=unique; PolyA=False; CAGE=True; Canonical=True; Classification=full_splice_match; CB=ACGT; pos=(-1, 3);"]]) := by
  decide +kernel

-- hypotheses of `printers_pure`, `tsv_line_count`, `tsv_lines_of_record`, `canonical_token`, `bed_line_spec` on it
example : Reachable exView.ref (C18.checkSites exView.ref [(1201, 1499)] .plus []).2 ∧
    (specTsv .all exCfgP.params exView exRA).isSome = true ∧ Checker.all.check exRA = true ∧
    (∀ it ∈ junctionsFromBlocks exRA.exons, exView.ref.start ≤ it.1 ∧ exView.ref.start < it.2) ∧
    exCfgP.params.checkCanonical = true ∧ exView.ref.refRegion ≠ [] ∧ junctionsFromBlocks exRA.exons ≠ [] ∧
    exRA.correctedExons ≠ [] ∧ (Checker.only [.«unique»]).check exRA = false := by
  refine ⟨Reachable.query [] _ _ Reachable.fresh, by decide +kernel, rfl, by decide +kernel, rfl, by decide +kernel,
    by decide +kernel, by decide, by decide⟩

-- hypothesis `hst` of `canonical_token`: the example read has a definite strand
example : strandOf exRA.strand ≠ .dot := by decide

-- the memo does not matter: after a '+' query on the same intron (answer False) the '-' read still prints True
example : (printRecords exCfgP exView [exRA] (C18.checkSites exView.ref [(1201, 1499)] .plus []).2).map
      (fun L => L.tsv.map (·.info)) = (specRecords exCfgP exView [exRA]).map (fun L => L.tsv.map (·.info)) ∧
    (C18.checkSites exView.ref [(1201, 1499)] .plus []).1 = false := by
  refine ⟨by decide +kernel, by decide +kernel⟩

-- event strings: strand-dependent names from the generated table, the three kinds of suffix
example :
    eventStr ⟨.ism_left, undefinedRegion, undefinedRegion, 0⟩ "-" [] [] = "ism_3" ∧
    eventStr ⟨.ism_left, undefinedRegion, undefinedRegion, 0⟩ "+" [] [] = "ism_5" ∧
    eventStr ⟨.ism_left, undefinedRegion, undefinedRegion, 0⟩ "." [] [] = "ism" ∧
    eventStr ⟨.exon_elongation_left, undefinedRegion, undefinedRegion, 17⟩ "+" [] [] = "exon_elongation_5:17" ∧
    eventStr ⟨.intron_retention, (0, 0), undefinedRegion, 0⟩ "+" [] [(1201, 1499), (2101, 2500)] = "intron_retention:1201-1499" ∧
    eventStr ⟨.extra_intron_novel, undefinedRegion, (0, 1), 0⟩ "+" [(5, 9), (20, 29), (40, 49)] [] = "extra_intron_novel:5-9,20-29" ∧
    eventStr ⟨.fsm, undefinedRegion, undefinedRegion, 0⟩ "+" [] [] = "fsm" := by
  decide +kernel

-- a match whose transcript the gene info does not know, or without gene id, makes the real printer raise
example : specMatchLine exCfgP.params exView exRA { exMatch with assignedTranscript := some "T9" } = none ∧
    specMatchLine exCfgP.params exView exRA { exMatch with assignedTranscript := some "T2", assignedGene := none } = none := by
  decide +kernel

/-- the externals of printing for the experiment `exChroms` of Props/C15Reuse.lean: T1 has the read's intron, the
    reference makes it canonical on the minus strand -/
def exX : PrintEnv :=
  { params := ⟨false, true⟩,
    isoformIntrons := fun h => if h.geneIds = ["G1"] then [("T1", [(1201, 1499)])] else [("T2", [])],
    chrSeq := fun _ => List.replicate 899 'N' ++ exWindow,
    commonHeader := ["# Command line: isoquant.py\n", "# IsoQuant version: 3.4.0\n"] }

-- hypotheses of `files_reproduce_printed` / `reuse_reproduces_printed` / `restart_prints_second_half`
example : ∃ files, collectReads exEnv false ["NA"] 0 exChroms = some files ∧
    ∃ resolved, resolveStream false (streamOf exEnv exChroms) = some resolved ∧
      processSavedP exEnv (exCfg false) exX (exChroms.map (·.name)) files =
        printedFromRecords exEnv exX (exCfg false).mergeOrder resolved exChroms := by
  obtain ⟨hI, hD, _, hMf, hlen, _, _, hsF⟩ := exChroms_hyps
  cases hc : collectReads exEnv false ["NA"] 0 exChroms with
  | none => rw [hc] at hsF; cases hsF
  | some files => exact ⟨files, rfl, files_reproduce_printed exEnv (exCfg false) exX ["NA"] exChroms files 0 hI hc hD hMf hlen⟩


/-- the concrete experiment printed: read `ra` keeps its primary alignment on c1 (one TSV line, one BED line), its
    secondary on c2 is `suspended` by the resolver and appears in neither file, `rb` on c2 is printed (the event of
    `exMatch` has the sentinel read region `extra_left .. extra_right`: an empty slice, printed as a bare `:`) -/
example :
    ((collectReads exEnv false ["NA"] 0 exChroms).bind (processSavedP exEnv (exCfg false) exX ["c1", "c2"])).map
        (fun p => (p.tsv.drop 3, p.bed.drop 1)) = some
      (["ra\tc1\t-\tT1\tG1\tunique\tintron_shift:\t1000-1200,1500-2000\tgene_assignment=unique; PolyA=False; Canonical=True; Classification=full_splice_match; CB=ACGT; pos=(-1, 3);\n",
        "rb\tc2\t-\tT2\tG2\tunique\tintron_shift:\t1000-1200,1500-2000\tgene_assignment=unique; PolyA=False; Canonical=True; Classification=full_splice_match; CB=ACGT; pos=(-1, 3);\n"],
       ["c1\t999\t2000\tra\t0\t+\t999\t999\t0\t3\t201,100,501\t0,201,500\n",
        "c2\t999\t2000\trb\t0\t+\t999\t999\t0\t3\t201,100,501\t0,201,500\n"]) := by
  decide +kernel

-- hypothesis of `restart_prints_second_half`: the saving run of the concrete experiment succeeds, printers included
example : (savingRunP exEnv (exCfg false) exX ["NA"] [2, 3] exChroms).isSome = true := by decide +kernel

end IsoVerif.Props.C15Printers
