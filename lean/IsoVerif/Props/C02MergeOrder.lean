/-
C02, part 4 — the order of the per-chromosome part files does not matter; the `usable_reads` normalisation.

`merge_counts` receives the chromosomes in the order of `chr_ids`; `merge_files` sorts the part-file NAMES with the
natural key.  That key is the C06 model (`IsoVerif.Model.C06.keyLe` / `mergeOrder`, Model/Schedule.lean) and its
order properties are the C06 theorems `natural_merge_order_total` / `natural_merge_order_trans`
(Props/C06Merge.lean): nothing about the sort is re-proved or re-computed here, and the harness no longer
recomputes the key (the driver sorts the real file names with `orderParts`).
-/
import IsoVerif.Model.CounterCombine
import IsoVerif.Lemmas.CounterCombine
import IsoVerif.Props.C02Merge
import IsoVerif.Props.C06Merge

namespace IsoVerif.Props.C02MergeOrder
open IsoVerif.Gen IsoVerif.Model.C02 IsoVerif.Lemmas.C02 IsoVerif.Props.C02 IsoVerif.Props.C02Merge
open List

variable {F : Type} [DecidableEq F]

/-! ## 9. the part files are visited in the C06 natural order of their names -/

/-- the names, in visiting order, are C06's `mergeOrder` of the names: sorted by the natural key (a total preorder:
    C06 `natural_merge_order_total`, `natural_merge_order_trans`), every part exactly once -/
theorem merge_visits_in_natural_order {α : Type} (named : List (String × α)) :
    (orderParts named).map Prod.fst = IsoVerif.Model.C06.mergeOrder (named.map Prod.fst) ∧
    (orderParts named).Pairwise (fun a b => IsoVerif.Model.C06.keyLe a.1 b.1 = true) ∧
    (orderParts named) ~ named :=
  ⟨orderParts_names named,
   IsoVerif.Lemmas.C06.isort_pairwise _
     (fun a b c => IsoVerif.Props.C06.natural_merge_order_trans a.1 b.1 c.1)
     (fun a b => IsoVerif.Props.C06.natural_merge_order_total a.1 b.1) named,
   orderParts_perm named⟩

omit [DecidableEq F] in
/-- `mergeCountsNamed` is `mergeCounts` (the object of `merge_sums`, `merge_table_is_sum`) applied to the parts in
    visiting order: the `.stats` files are summed in `chr_ids` order, which gives the same numbers -/
theorem merge_named_eq_sorted (named : List (String × Part F)) (unaligned : Nat) :
    mergeCountsNamed named unaligned = mergeCounts ((orderParts named).map Prod.snd) unaligned := by
  have hp : (orderParts named).map Prod.snd ~ named.map Prod.snd := (orderParts_perm named).map _
  simp only [mergeCountsNamed, mergeCounts]
  rw [natSum_map_perm hp (·.ambiguous), natSum_map_perm hp (·.noFeature), natSum_map_perm hp (·.notAligned),
    natSum_map_perm hp (·.usable)]

omit [DecidableEq F] in
/-- **merge_counts_order_irrelevant**: for ANY two orders of the same part files (any order of `chr_ids`, any
    schedule that produced them) the merged count tables have the same rows up to row order, and the statistics
    lines `__ambiguous`, `__no_feature`, `__not_aligned` and `reads_for_tpm` are exactly equal -/
theorem merge_counts_order_irrelevant {named named' : List (String × Part F)} (h : named ~ named')
    (unaligned : Nat) :
    (mergeCountsNamed named unaligned).rows ~ (mergeCountsNamed named' unaligned).rows ∧
    (mergeCountsNamed named unaligned).ambiguous = (mergeCountsNamed named' unaligned).ambiguous ∧
    (mergeCountsNamed named unaligned).noFeature = (mergeCountsNamed named' unaligned).noFeature ∧
    (mergeCountsNamed named unaligned).notAligned = (mergeCountsNamed named' unaligned).notAligned ∧
    (mergeCountsNamed named unaligned).usable = (mergeCountsNamed named' unaligned).usable := by
  have hp : named.map Prod.snd ~ named'.map Prod.snd := h.map _
  have hs : (orderParts named).map Prod.snd ~ (orderParts named').map Prod.snd :=
    ((orderParts_perm named).trans (h.trans (orderParts_perm named').symm)).map _
  refine ⟨?_, ?_, ?_, ?_, ?_⟩
  · simp only [mergeCountsNamed]
    exact List.Perm.flatMap_right _ hs
  · simp only [mergeCountsNamed]; exact natSum_map_perm hp _
  · simp only [mergeCountsNamed]; exact natSum_map_perm hp _
  · simp only [mergeCountsNamed]; rw [natSum_map_perm hp (·.notAligned)]
  · simp only [mergeCountsNamed]; exact natSum_map_perm hp _

/-- … and when no two part-file names have equal keys (names that differ by more than letter case / leading zeros
    of a digit run – true for the part files of distinct chromosome ids unless two ids differ only in that way),
    the merged table is the same file, row for row -/
theorem merge_counts_order_canonical {named named' : List (String × Part F)} (h : named ~ named')
    (distinct : ∀ a b, a ∈ named → b ∈ named →
      IsoVerif.Model.C06.keyLe a.1 b.1 = true → IsoVerif.Model.C06.keyLe b.1 a.1 = true → a = b)
    (unaligned : Nat) :
    mergeCountsNamed named unaligned = mergeCountsNamed named' unaligned := by
  have hord : orderParts named = orderParts named' := by
    apply List.Perm.eq_of_pairwise (le := fun a b => IsoVerif.Model.C06.keyLe a.1 b.1 = true)
    · intro a b ha hb
      exact distinct a b ((orderParts_perm named).mem_iff.1 ha)
        (h.mem_iff.2 ((orderParts_perm named').mem_iff.1 hb))
    · exact (merge_visits_in_natural_order named).2.1
    · exact (merge_visits_in_natural_order named').2.1
    · exact (orderParts_perm named).trans (h.trans (orderParts_perm named').symm)
  obtain ⟨_, h2, h3, h4, h5⟩ := merge_counts_order_irrelevant h unaligned
  have hrows : (mergeCountsNamed named unaligned).rows = (mergeCountsNamed named' unaligned).rows := by
    simp only [mergeCountsNamed, hord]
  cases hm : mergeCountsNamed named unaligned
  cases hm' : mergeCountsNamed named' unaligned
  simp only [hm, hm'] at hrows h2 h3 h4 h5
  simp [hrows, h2, h3, h4, h5]

/-- equal keys do occur and then the row order follows the order of `chr_ids` (stable sort): the hypothesis of
    `merge_counts_order_canonical` is needed – but only the ROW ORDER differs (`merge_counts_order_irrelevant`) -/
theorem merge_counts_order_tie_witness :
    let a : Part Nat := { rows := [(1, 100)], ambiguous := 0, noFeature := 0, notAligned := 0, usable := 1 }
    let b : Part Nat := { rows := [(2, 300)], ambiguous := 1, noFeature := 0, notAligned := 0, usable := 3 }
    (mergeCountsNamed [("Q_chr1.gene_counts.tsv", a), ("Q_Chr1.gene_counts.tsv", b)] 0).rows = [(1, 100), (2, 300)] ∧
    (mergeCountsNamed [("Q_Chr1.gene_counts.tsv", b), ("Q_chr1.gene_counts.tsv", a)] 0).rows = [(2, 300), (1, 100)] := by
  decide +kernel

/-- the whole run, chromosomes listed in any order with any part-file names: the merged statistics lines are the
    class counts over ALL calls of the run and every merged row is the `%.2f` of one chromosome's documented sum -/
theorem merge_named_sums (s : CountingStrategy) (lvl : Level) (le : F → F → Bool) (oz : Bool)
    (chrs : List (List F × List (Event F))) (parts : List (Part F))
    (h : runChromosomes s lvl le oz chrs = some parts)
    (named : List (String × Part F)) (hn : named.map Prod.snd = parts) (unaligned : Nat) :
    (mergeCountsNamed named unaligned).ambiguous = natSum ((allEvents chrs).map (ambiguousClass lvl)) ∧
    (mergeCountsNamed named unaligned).noFeature = natSum ((allEvents chrs).map noFeatureClass) ∧
    (mergeCountsNamed named unaligned).notAligned =
      (if unaligned > 0 then unaligned else natSum ((allEvents chrs).map notAlignedClass)) ∧
    (mergeCountsNamed named unaligned).usable = natSum ((allEvents chrs).map usableClass) ∧
    ∀ f p, (f, p) ∈ (mergeCountsNamed named unaligned).rows →
      ∃ c ∈ chrs,
        ((∃ e ∈ c.2, confirmsFeature lvl e f) ∧
            p = hundredths (ratSum (c.2.map (fun e => contribution s lvl e f))))
        ∨ ((¬ ∃ e ∈ c.2, confirmsFeature lvl e f) ∧ p = hundredths 0) := by
  obtain ⟨_, ha, hnf, hna, hu⟩ := merge_sums s lvl le oz chrs parts h unaligned
  refine ⟨?_, ?_, ?_, ?_, ?_⟩
  · rw [← ha]; simp [mergeCountsNamed, mergeCounts, hn]
  · rw [← hnf]; simp [mergeCountsNamed, mergeCounts, hn]
  · rw [← hna]; simp [mergeCountsNamed, mergeCounts, hn]
  · rw [← hu]; simp [mergeCountsNamed, mergeCounts, hn]
  · intro f p hrow
    apply merge_table_is_sum s lvl le oz chrs parts h unaligned f p
    have hperm : (orderParts named).map Prod.snd ~ parts := by
      rw [← hn]; exact (orderParts_perm named).map _
    simp only [mergeCountsNamed, mergeCounts, List.mem_flatMap] at hrow ⊢
    obtain ⟨part, hp, hmem⟩ := hrow
    exact ⟨part, hperm.mem_iff.1 hp, hmem⟩

-- non-vacuity: three chromosomes listed out of order; the natural order puts chr2 before chr10
example :
    let p (f : Nat) (v : Int) (u : Nat) : Part Nat :=
      { rows := [(f, v)], ambiguous := 0, noFeature := 1, notAligned := 0, usable := u }
    let m := mergeCountsNamed [("S_chr10.transcript_counts.tsv", p 10 100 1), ("S_chrX.transcript_counts.tsv", p 23 50 2),
                               ("S_chr2.transcript_counts.tsv", p 2 250 3)] 7
    (m.rows, m.ambiguous, m.noFeature, m.notAligned, m.usable) = ([(2, 250), (10, 100), (23, 50)], 0, 3, 7, 6) := by
  decide +kernel

/-! ## 10. `usable_reads` normalisation: TPM · usable = count · 10^6 -/

/-- **tpm_usable_exact**: run any histories on the chromosomes, dump, merge (any `unaligned_reads`), convert with
    `--normalization_method usable_reads`.  Let `U` be the number of calls in `usableClass` over ALL calls of the run
    (the `__usable` lines of the `.stats` files summed: `merge_sums`; counted records + `add_unassigned`).  Then
    * `U ≠ 0` and a table with at least one feature row: every TPM row `(f, v)` comes from a counts row `(f, h)` with
      `v · U = count · 10^6` (`count` = the printed `%.2f` value), the `__unassigned` line satisfies
      `__unassigned · U = 10^6 · (U − Σ counts)`, and rows + `__unassigned` = 10^6;
    * `U ≠ 0` and no feature row: no TPM row, `__unassigned` = 0 (the code never enters its scale-factor loop);
    * `U = 0`: the code falls back to the `simple` normalisation (`and self.reads_for_tpm` is falsy). -/
theorem tpm_usable_exact (s : CountingStrategy) (lvl : Level) (le : F → F → Bool) (oz : Bool)
    (chrs : List (List F × List (Event F))) (parts : List (Part F))
    (h : runChromosomes s lvl le oz chrs = some parts) (unaligned : Nat) (isStatLike : F → Bool)
    (hids : ∀ r ∈ (mergeCounts parts unaligned).rows, isStatLike r.1 = false) :
    let merged := mergeCounts parts unaligned
    let U := natSum ((allEvents chrs).map usableClass)
    let t := countsToTpm NormalizationMethod.usable_reads oz isStatLike merged.rows merged.usable
    merged.usable = U ∧
    (U ≠ 0 → merged.rows ≠ [] →
      (∀ f v, (f, v) ∈ t.rows → ∃ c, (f, c) ∈ merged.rows ∧ v * (U : Rat) = printedValue c * 1000000) ∧
      t.unassigned * (U : Rat) = 1000000 * ((U : Rat) - totalCounts merged.rows) ∧
      ratSum (t.rows.map Prod.snd) + t.unassigned = 1000000) ∧
    (U ≠ 0 → merged.rows = [] → t.rows = [] ∧ t.unassigned = 0) ∧
    (U = 0 → t = countsToTpm NormalizationMethod.simple oz isStatLike merged.rows merged.usable) := by
  intro merged U t
  have hU : merged.usable = U := (merge_sums s lvl le oz chrs parts h unaligned).2.2.2.2
  have hinp : tpmInputRows isStatLike merged.rows = merged.rows := tpm_complete isStatLike merged.rows hids
  refine ⟨hU, ?_, ?_, ?_⟩
  · intro hne hrows
    have hu : merged.usable ≠ 0 := by rw [hU]; exact hne
    have hne' : tpmInputRows isStatLike merged.rows ≠ [] := by rw [hinp]; exact hrows
    obtain ⟨hsf, hun, hsum⟩ := tpm_usable oz isStatLike merged.rows merged.usable hu hne'
    have hUpos : (U : Rat) ≠ 0 := by
      have := natCast_pos' U (Nat.pos_of_ne_zero hne)
      grind
    refine ⟨?_, ?_, hsum⟩
    · intro f v hfv
      obtain ⟨c, hc, hv, _⟩ := (tpm_rows NormalizationMethod.usable_reads oz isStatLike merged.rows merged.usable f v).mp hfv
      rw [hinp] at hc
      refine ⟨c, hc, ?_⟩
      rw [hv, hsf, hU]
      rw [Rat.div_def]
      have : (U : Rat)⁻¹ * (U : Rat) = 1 := Rat.inv_mul_cancel _ hUpos
      grind
    · show t.unassigned * (U : Rat) = _
      have ht : t.unassigned = 1000000 * (1 - totalCounts (tpmInputRows isStatLike merged.rows) / (merged.usable : Rat)) := hun
      rw [ht, hinp, hU, Rat.div_def]
      have : (U : Rat)⁻¹ * (U : Rat) = 1 := Rat.inv_mul_cancel _ hUpos
      grind
  · intro _ hrows
    have : tpmInputRows isStatLike merged.rows = [] := by rw [hinp]; exact hrows
    simp [t, countsToTpm, unassignedTpm, this]
  · intro h0
    have hu : merged.usable = 0 := by rw [hU]; exact h0
    simp [t, countsToTpm, scaleFactor, unassignedTpm, hu]

/-- the `__unassigned` value can be NEGATIVE: it is computed from the printed (`%.2f`) counts, and three features
    with 2/3 each (two reads, each ambiguous between the three) print as 0.67 + 0.67 + 0.67 = 2.01 > 2 usable reads
    (an observation about the rounding, not a clause of C02; replayed on the real code by the correspondence) -/
theorem tpm_unassigned_negative_witness :
    (countsToTpm NormalizationMethod.usable_reads true (fun _ => false) [((1 : Nat), (67 : Int)), (2, 67), (3, 67)] 2).unassigned
      = -5000 := by decide +kernel

/-- the TPM table does not depend on the order of the part files either: same scale factor, same `__unassigned`
    value, the rows are those of the other order up to row order (no feature id equal to a stop name) -/
theorem tpm_order_irrelevant {named named' : List (String × Part F)} (h : named ~ named') (unaligned : Nat)
    (norm : NormalizationMethod) (oz : Bool) (isStatLike : F → Bool)
    (hids : ∀ r ∈ (mergeCountsNamed named unaligned).rows, isStatLike r.1 = false) :
    let m := mergeCountsNamed named unaligned
    let m' := mergeCountsNamed named' unaligned
    tpmScale norm isStatLike m.rows m.usable = tpmScale norm isStatLike m'.rows m'.usable ∧
    (countsToTpm norm oz isStatLike m.rows m.usable).unassigned
      = (countsToTpm norm oz isStatLike m'.rows m'.usable).unassigned ∧
    (countsToTpm norm oz isStatLike m.rows m.usable).rows ~ (countsToTpm norm oz isStatLike m'.rows m'.usable).rows := by
  intro m m'
  obtain ⟨hrows, _, _, _, husable⟩ := merge_counts_order_irrelevant h unaligned
  have hids' : ∀ r ∈ m'.rows, isStatLike r.1 = false := fun r hr => hids r (hrows.mem_iff.2 hr)
  have hi : tpmInputRows isStatLike m.rows = m.rows := tpm_complete isStatLike m.rows hids
  have hi' : tpmInputRows isStatLike m'.rows = m'.rows := tpm_complete isStatLike m'.rows hids'
  have htot : totalCounts m.rows = totalCounts m'.rows := by
    unfold totalCounts
    exact ratSum_perm (hrows.map _)
  have husable' : m.usable = m'.usable := husable
  have hempty : m.rows = [] ↔ m'.rows = [] := by
    constructor
    · intro e; rw [e] at hrows; exact hrows.symm.eq_nil
    · intro e; rw [e] at hrows; exact hrows.eq_nil
  have hne : (m.rows ≠ []) ↔ (m'.rows ≠ []) := not_congr hempty
  refine ⟨?_, ?_, ?_⟩
  · simp only [tpmScale, hi, hi', htot, husable']
  · simp only [countsToTpm, unassignedTpm, hi, hi', htot, husable', hne]
  · simp only [countsToTpm, hi, hi', htot, husable']
    exact hrows.filterMap _

end IsoVerif.Props.C02MergeOrder
