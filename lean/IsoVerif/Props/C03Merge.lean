/-
C03 — the per-chromosome files are merged in natural order: the sort key never raises, the comparison is a total
preorder on file names, the merge order is a function of the set of names (when keys are distinct) and merging
neither loses nor duplicates a record.
Property theorems only; helper lemmas live in IsoVerif/Lemmas/{Sort,Merge}.lean.
-/
import IsoVerif.Model.Gtf
import IsoVerif.Lemmas.C03Merge

namespace IsoVerif.Props.C03Merge
open IsoVerif.Model IsoVerif.Lemmas IsoVerif.Model.C03 IsoVerif.Lemmas.C03

/-- **natural_key_never_raises**: for all file names the key lists alternate `str, int, str, …` starting with `str`,
    so Python's list comparison never meets an `int` against a `str`: `keyLt` is defined for every pair of names -/
theorem natural_key_never_raises (s t : List Char) : ∃ r, keyLt (natKey s) (natKey t) = some r :=
  keyLt_defined _ _ true (natKey_shape s) (natKey_shape t)

/-- `a ≤ b` in natural order -/
def natLe (a b : List Char) : Prop := keyLt (natKey b) (natKey a) = some false

/-- **natural_merge_order_total**: the sort key induces a total preorder on file names (total, transitive,
    reflexive); two names are equivalent iff their keys are equal (same text up to ASCII case and leading zeros) -/
theorem natural_merge_order_total :
    (∀ a b, natLe a b ∨ natLe b a) ∧ (∀ a b c, natLe a b → natLe b c → natLe a c) ∧ (∀ a, natLe a a) ∧
    (∀ a b, natLe a b → natLe b a → natKey a = natKey b) := by
  have tot : ∀ a b, natLe a b ∨ natLe b a := by
    intro a b
    unfold natLe
    obtain ⟨r, hr⟩ := natural_key_never_raises b a
    cases r
    · exact Or.inl hr
    · exact Or.inr (keyLt_asymm _ _ true (natKey_shape b) (natKey_shape a) hr)
  refine ⟨tot, ?_, ?_, ?_⟩
  · intro a b c h1 h2
    exact keyLe_trans _ _ _ true (natKey_shape a) (natKey_shape b) (natKey_shape c) h1 h2
  · intro a; rcases tot a a with h | h <;> exact h
  · intro a b h1 h2
    exact keyLe_antisymm _ _ true (natKey_shape a) (natKey_shape b) h2 h1

/-- **sort_natural_total_sorted**: `file_names.sort(key=…)` never raises, returns a permutation of the names that
    is sorted for the natural order -/
theorem sort_natural_total_sorted {α} (name : α → List Char) (l : List α) :
    ∃ r, sortNatural name l = some r ∧ r.Perm l ∧ r.Pairwise (fun a b => natLe (name a) (name b)) := by
  refine ⟨_, sortNatural_eq name l, isortBy_perm _ l, ?_⟩
  have := isortBy_sorted (nameLt_strict name) l
  refine this.imp ?_
  intro a b h
  unfold natLe
  unfold nameLt at h
  obtain ⟨r, hr⟩ := natural_key_never_raises (name b) (name a)
  cases r
  · exact hr
  · simp [hr] at h

/-- **merge_order_is_function_of_name_set**: if the keys of the names are pairwise different (no two chromosome
    names differ only by case / leading zeros), the merge order does not depend on the order in which the chromosomes
    are listed (`chr_ids` is sorted by length in `get_chr_list`, ties in dict order) -/
theorem merge_order_is_function_of_name_set {α} (name : α → List Char) (l1 l2 : List α) (hp : l1.Perm l2)
    (hinj : ∀ a ∈ l1, ∀ b ∈ l1, natKey (name a) = natKey (name b) → a = b) :
    sortNatural name l1 = sortNatural name l2 := by
  rw [sortNatural_eq, sortNatural_eq]
  congr 1
  have s1 := isortBy_sorted (nameLt_strict name) l1
  have s2 := isortBy_sorted (nameLt_strict name) l2
  have p : (isortBy (nameLt name) l1).Perm (isortBy (nameLt name) l2) :=
    (isortBy_perm _ l1).trans (hp.trans (isortBy_perm _ l2).symm)
  refine List.Perm.eq_of_pairwise ?_ s1 s2 p
  intro a b ha hb h1 h2
  have ha' : a ∈ l1 := (mem_isortBy _ _ _).mp ha
  have hb' : b ∈ l1 := hp.mem_iff.mpr ((mem_isortBy _ _ _).mp hb)
  apply hinj a ha' b hb'
  unfold nameLt at h1 h2
  obtain ⟨r1, hr1⟩ := natural_key_never_raises (name b) (name a)
  obtain ⟨r2, hr2⟩ := natural_key_never_raises (name a) (name b)
  have e1 : r1 = false := by cases r1 <;> simp_all
  have e2 : r2 = false := by cases r2 <;> simp_all
  subst e1; subst e2
  exact keyLe_antisymm _ _ true (natKey_shape (name a)) (natKey_shape (name b)) hr2 hr1

/-- **merge_preserves_records**: `merge_files` never raises, and the merged file is a permutation of the
    concatenation of the per-chromosome files: every record of every part appears exactly as often as in the parts
    (gene / transcript records that are unique per chromosome file and carry chromosome-specific ids stay unique).
    No hypothesis on the records: since the repair `fix_merge_header` a record that starts with `#` (contig `#c1`) is a
    record like any other (`merge_files_no_header`; the old behaviour: `merge_hash_witness`) -/
theorem merge_preserves_records {α} (files : List (List Char × List α)) :
    ∃ r, mergeFiles files = some r ∧ r.Perm (files.flatMap (·.2)) := by
  obtain ⟨s, hs, hperm, _⟩ := sort_natural_total_sorted (fun f : List Char × List α => f.1) files
  refine ⟨s.flatMap (·.2), ?_, hperm.flatMap_right _⟩
  unfold mergeFiles
  rw [hs]; rfl

/-- the GTF merges skip no line: `header_lines = 0` is plain concatenation -/
theorem merge_files_no_header {α} (files : List (List Char × List α)) : mergeFilesH 0 files = mergeFiles files := by
  simp [mergeFilesH, mergeFiles]

/-- **merge_preserves_records_with_header**: a merge whose parts carry `k` header lines each (read_assignments.tsv,
    corrected_reads.bed) keeps exactly the records: no hypothesis on what a record looks like -/
theorem merge_preserves_records_with_header {α} (k : Nat) (files : List (List Char × (List α × List α)))
    (hk : ∀ f ∈ files, f.2.1.length = k) :
    ∃ r, mergeFilesH k (files.map (fun f => (f.1, f.2.1 ++ f.2.2))) = some r ∧
      r.Perm (files.flatMap (fun f => f.2.2)) := by
  obtain ⟨s, hs, hperm, _⟩ := sort_natural_total_sorted (fun f : List Char × List α => f.1)
    (files.map (fun f => (f.1, f.2.1 ++ f.2.2)))
  refine ⟨s.flatMap (fun f => f.2.drop k), ?_, ?_⟩
  · unfold mergeFilesH; rw [hs]; rfl
  · refine (hperm.flatMap_right _).trans ?_
    rw [List.flatMap_map]
    have : ∀ f ∈ files, (f.2.1 ++ f.2.2).drop k = f.2.2 := by
      intro f hf; rw [← hk f hf, List.drop_left]
    clear hs hperm hk
    induction files with
    | nil => exact List.Perm.refl _
    | cons f fs ih =>
      simp only [List.flatMap_cons, this f (by simp)]
      exact List.Perm.append_left _ (ih (fun g hg => this g (by simp [hg])))

/-- a contig named `#c1`: three GTF records (as record ids 1, 2, 3; `isHashRec` marks the records whose line starts with
    `#`, i.e. all records of that contig) and one record of contig `c2` -/
def isHashRec (r : Nat) : Bool := r ≤ 3
def hashFiles : List (List Char × List Nat) := [("S_#c1.gtf".toList, [1, 2, 3]), ("S_c2.gtf".toList, [4])]

/-- **merge_hash_witness**: under the header test by content of the unrepaired tree every record of the contig `#c1`
    is lost in the merge (`merge_preserves_records` was false of that code; audit probe C03_hash_chrom.py, replayed on
    the real code by harness/props/C03.py `oracle_merge`); the repaired merge keeps all four -/
theorem merge_hash_witness :
    mergeFilesOrig isHashRec hashFiles = some [4] ∧ mergeFiles hashFiles = some [1, 2, 3, 4] := by
  decide +kernel

/-- **merge_preserves_records_orig_partial**: what held of the unrepaired code - records are preserved when no record
    line starts with `#` (the exact excluded class) -/
theorem merge_preserves_records_orig_partial {α} (isHdr : α → Bool) (files : List (List Char × List α))
    (h : ∀ f ∈ files, ∀ r ∈ f.2, isHdr r = false) :
    mergeFilesOrig isHdr files = mergeFiles files := by
  obtain ⟨s, hs, hperm, hsorted⟩ := sort_natural_total_sorted (fun f : List Char × List α => f.1) files
  unfold mergeFilesOrig mergeFiles
  rw [hs]
  simp only [Option.map_some]
  congr 1
  have hs' : ∀ f ∈ s, ∀ r ∈ f.2, isHdr r = false := fun f hf => h f (hperm.mem_iff.mp hf)
  clear hs hperm hsorted
  induction s with
  | nil => rfl
  | cons f fs ih =>
    simp only [List.flatMap_cons]
    rw [ih (fun g hg => hs' g (by simp [hg]))]
    congr 1
    cases hr : f.2 with
    | nil => rfl
    | cons r rs =>
      have : isHdr r = false := hs' f (by simp) r (by simp [hr])
      simp [this]

example : ∀ f ∈ [("S_c2.gtf".toList, [4, 5])], ∀ r ∈ f.2, isHashRec r = false := by decide

/-- the records of one chromosome stay contiguous and in their order: the merged file is the concatenation of the
    parts in sorted order -/
theorem merge_is_concatenation {α} (files : List (List Char × List α)) :
    mergeFiles files = some ((isortBy (nameLt (fun f : List Char × List α => f.1)) files).flatMap (·.2)) := by
  unfold mergeFiles
  rw [sortNatural_eq]; rfl

-- the order the code documents: chr1 < chr2 < chr10 < chrX; case-insensitive; leading zeros tie
example : (sortNatural id ["chr10".toList, "chrX".toList, "chr2".toList, "chr1".toList]).map (·.map String.ofList) =
    some ["chr1", "chr2", "chr10", "chrX"] := by decide

/-- **natural_order_tie_witness**: `chr01` and `chr1` have equal keys: their relative order in the merged file is the
    order in which the chromosomes were listed (the sort is stable) - the only way the merge order can depend on more
    than the set of names -/
theorem natural_order_tie_witness :
    natKey "S_chr01.gtf".toList = natKey "S_chr1.gtf".toList ∧
    sortNatural id ["S_chr01.gtf".toList, "S_chr1.gtf".toList] ≠ sortNatural id ["S_chr1.gtf".toList, "S_chr01.gtf".toList] := by
  decide

end IsoVerif.Props.C03Merge
