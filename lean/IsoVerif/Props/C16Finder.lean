/-
C16 (part 3) — tail detection: what the window scan `PolyAFinder.find_polya` returns.
The trimming theorems (Props/C16PolyA.lean) quantify over *all* position quadruples and therefore do not depend on
the finder; this file pins the finder's window scan to its declarative meaning so that the positions fed to the
trimming step are what the documentation says ("first window of `window_size` bases with at least
`window_size * min_polya_fraction` A's").
-/
import IsoVerif.Model.PolyAFinder
import IsoVerif.Lemmas.PolyAFinder

namespace IsoVerif.Props.C16Finder
open IsoVerif.Gen IsoVerif.Model IsoVerif.Model.C16 IsoVerif.Lemmas.C16

/-- **find_polya_window_spec** — for every sequence and every window size `w ≥ 1`: `find_polya` answers -1 iff no
    window that starts *strictly before* `len - w` holds `c` A's; otherwise it answers the start `i` of the first
    such window, advanced to the first "AA" at or after `i` (not advanced when there is none).
    (The window that ends exactly at the end of the sequence is never accepted by the code: the loop condition
    `i < len(seq) - window` excludes it — see the corner example below.) -/
theorem find_polya_window_spec (w c : Nat) (hw : 1 ≤ w) (seq : List Bool) :
    match findPolya w c seq with
    | none => ∀ j, j + w < seq.length → winCount seq j w < c
    | some p => ∃ i, i + w < seq.length ∧ c ≤ winCount seq i w ∧ (∀ j < i, winCount seq j w < c) ∧
        p = i + (findAA (seq.drop i)).getD 0 := by
  unfold findPolya
  by_cases hl : seq.length < w
  · simp only [hl, if_true]
    intro j hj; omega
  · simp only [hl, if_false]
    have h := findPolyaLoop_spec c w hw seq (seq.drop w) 0 _ rfl rfl
    split at h
    · rename_i r hr
      obtain ⟨k, hk1, hk2, hk3, hk4⟩ := h
      simp only [hr]
      have : r = k := by omega
      subst this
      exact ⟨r, hk2, hk3, hk4, rfl⟩
    · rename_i hr
      simp only [hr]
      exact h

/-- non-vacuity: 4 non-A bases followed by 20 A's, window 16, threshold 12: the first qualifying window starts at
    0 (it already holds 12 A's) and the answer moves to the first "AA", position 4 -/
example : findPolya 16 12 ([false, false, false, false] ++ List.replicate 20 true) = some 4 := by decide

/-- corner kept visible: a sequence that is exactly one all-A window is answered -1 by the code -/
example : findPolya 16 12 (List.replicate 16 true) = none := by decide

end IsoVerif.Props.C16Finder
