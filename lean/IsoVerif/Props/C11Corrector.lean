/-
C11 — translation equivariance of the exon corrector (Model/Corrector.lean = `ExonCorrector.correct_assigned_read`,
`process_events`, `match_genomic_features`; property C14's model), for ALL inputs and ALL shifts `k : Int`:

  * the events of the isoform match carry intron INDEX ranges (`iso`, `read`), the alignment error counts `err`
    are per read-intron index: both are inputs that do not change under a translation;
  * the annotation (`known`, the isoform's region and introns) and the read's exons are shifted by `k`;
  * the result is shifted by `k`, every exception (`IndexError`, failed `assert`, non-terminating loop = out of
    fuel, with the SAME fuel) is the same exception.
-/
import IsoVerif.Gen.Prims
import IsoVerif.Model.Interval
import IsoVerif.Model.Corrector
import IsoVerif.Model.C11Symmetry
import IsoVerif.Model.C11SymBedCorr
import IsoVerif.Lemmas.C11Shift
import IsoVerif.Lemmas.C11Corrector
import IsoVerif.Lemmas.CorrectorLoop
import IsoVerif.Lemmas.C11Mirror
import IsoVerif.Lemmas.C11CorrectorMirror
import IsoVerif.Lemmas.C11CorrectorMicro
import IsoVerif.Lemmas.C11CorrectorSeg
import IsoVerif.Lemmas.C11CorrectorLists

namespace IsoVerif.Props.C11Corrector
open IsoVerif.Gen IsoVerif.Model IsoVerif.Model.C14 IsoVerif.Model.C11 IsoVerif.Lemmas.C11

/-- `match_genomic_features` (two-pointer sweep, candidate elimination by `match_delta`, "take first"):
    the feature chosen for every read intron is the shifted feature -/
theorem shift_equivariant_matchGenomicFeatures (k δ : Int) (known reads : List Iv) :
    matchGenomicFeatures δ (shiftL k known) (shiftL k reads) = shiftL k (matchGenomicFeatures δ known reads) :=
  matchGenomicFeatures_shift k δ known reads

/-- the sweep itself: same read positions, shifted known features, same order of appends -/
theorem shift_equivariant_matchSweep (k δ : Int) (ks rs : List Iv) (ri : Nat) :
    matchSweep δ (shiftL k ks) (shiftL k rs) ri = (matchSweep δ ks rs ri).map (fun q => (q.1, shiftIv k q.2)) :=
  matchSweep_shift k δ ks rs ri

/-- fuzzy junction correction with the SAME error-count function -/
theorem shift_equivariant_correctedIntrons (k : Int) (p : CParams) (err : Nat → Bool → Int × Int)
    (known readIntrons : List Iv) :
    correctedIntrons p err (shiftL k known) (shiftL k readIntrons)
      = shiftL k (correctedIntrons p err known readIntrons) :=
  correctedIntrons_shift k p err known readIntrons

/-- one `if/elif` chain on an event -/
theorem shift_equivariant_eventStep (k : Int) (p : CParams) (rr : Iv) (ri corr : List Iv) (isoR : Iv)
    (isoI : List Iv) (e : MEvent) (reg : Iv) (acc : List Iv) :
    eventStep p (shiftIv k rr) (shiftL k ri) (shiftL k corr) (shiftIv k isoR) (shiftL k isoI) e (shiftIv k reg)
        (shiftL k acc)
      = shiftExRes k (eventStep p rr ri corr isoR isoI e reg acc) :=
  eventStep_shift k p rr ri corr isoR isoI e reg acc

/-- the `while` loop from ANY state with the SAME fuel and the SAME event map -/
theorem shift_equivariant_eventLoop (k : Int) (p : CParams) (emap : List (Int × MEvent)) (mm : List (Int × Int))
    (rr : Iv) (ri corr : List Iv) (isoR : Iv) (isoI : List Iv) (fuel : Nat) (i : Int) (reg : Iv) (acc : List Iv) :
    eventLoop p emap mm (shiftIv k rr) (shiftL k ri) (shiftL k corr) (shiftIv k isoR) (shiftL k isoI) fuel i
        (shiftIv k reg) (shiftL k acc)
      = shiftExRes k (eventLoop p emap mm rr ri corr isoR isoI fuel i reg acc) :=
  eventLoop_shift k p emap mm rr ri corr isoR isoI fuel i reg acc

/-- `process_events`: corrected region and new introns shifted, `Except.error e ↦ Except.error e` -/
theorem shift_equivariant_processEvents (k : Int) (p : CParams) (err : Nat → Bool → Int × Int) (known : List Iv)
    (emap : List (Int × MEvent)) (mm : List (Int × Int)) (rr : Iv) (ri : List Iv) (isoR : Iv) (isoI : List Iv) :
    processEvents p err (shiftL k known) emap mm (shiftIv k rr) (shiftL k ri) (shiftIv k isoR) (shiftL k isoI)
      = shiftExRes k (processEvents p err known emap mm rr ri isoR isoI) :=
  processEvents_shift k p err known emap mm rr ri isoR isoI

theorem shift_equivariant_buildExons (k : Int) (reg : Iv) (ni : List Iv) :
    buildExons (shiftIv k reg) (shiftL k ni) = shiftL k (buildExons reg ni) :=
  buildExons_shift k reg ni

/-- `is_valid_exon_chain` does not see a translation -/
theorem shift_equivariant_validChain (k : Int) (l : List Iv) : validChain (shiftL k l) = validChain l :=
  validChain_shift k l

/-- **`correct_assigned_read`**: same events, same error counts, annotation and read shifted by `k` ⇒ the corrected
    exons are the shifted corrected exons; an exception stays the same exception -/
theorem shift_equivariant_correctAssignedRead (k : Int) (p : CParams) (err : Nat → Bool → Int × Int)
    (known : List Iv) (noninformative : Bool) (events : Option (List MEvent)) (isoRegion : Iv)
    (isoIntrons exons : List Iv) :
    correctAssignedRead p err (shiftL k known) noninformative events (shiftIv k isoRegion) (shiftL k isoIntrons)
        (shiftL k exons)
      = shiftExL k (correctAssignedRead p err known noninformative events isoRegion isoIntrons exons) := by
  unfold correctAssignedRead
  cases events with
  | none => rfl
  | some evs =>
    simp only [shiftL_length, shiftL_head?, shiftL_getLast?]
    split
    · rfl
    · cases hf : exons.head? <;> cases hl : exons.getLast? <;> simp only [Option.map_none, Option.map_some] <;>
        try rfl
      rename_i f l
      have hp := processEvents_shift k p err known (buildEventMap evs) (buildMicroMap p.fl.microintron_retention evs) (f.1, l.2)
        (junctionsFromBlocks exons) isoRegion isoIntrons
      simp only [shiftIv] at hp
      simp only [junctionsFromBlocks_shift, shiftIv_fst, shiftIv_snd, shiftIv, hp]
      cases processEvents p err known (buildEventMap evs) (buildMicroMap p.fl.microintron_retention evs) (f.1, l.2)
          (junctionsFromBlocks exons) isoRegion isoIntrons with
      | error x => rfl
      | ok q =>
        obtain ⟨reg, ni⟩ := q
        have hb := buildExons_shift k reg ni
        simp only [shiftIv] at hb
        simp only [shiftExRes, shiftIv, hb, validChain_shift, validIntronChain_shift]
        split <;> rfl

/-- the code before the validity gate (kept by C14 for its regression witness) is equivariant too -/
theorem shift_equivariant_correctAssignedReadBuggy (k : Int) (p : CParams) (err : Nat → Bool → Int × Int)
    (known : List Iv) (noninformative : Bool) (events : Option (List MEvent)) (isoRegion : Iv)
    (isoIntrons exons : List Iv) :
    correctAssignedReadBuggy p err (shiftL k known) noninformative events (shiftIv k isoRegion)
        (shiftL k isoIntrons) (shiftL k exons)
      = shiftExL k (correctAssignedReadBuggy p err known noninformative events isoRegion isoIntrons exons) := by
  unfold correctAssignedReadBuggy
  cases events with
  | none => rfl
  | some evs =>
    simp only [shiftL_length, shiftL_head?, shiftL_getLast?]
    split
    · rfl
    · cases hf : exons.head? <;> cases hl : exons.getLast? <;> simp only [Option.map_none, Option.map_some] <;>
        try rfl
      rename_i f l
      have hp := processEvents_shift k p err known (buildEventMap evs) (buildMicroMap p.fl.microintron_retention evs) (f.1, l.2)
        (junctionsFromBlocks exons) isoRegion isoIntrons
      simp only [shiftIv] at hp
      simp only [junctionsFromBlocks_shift, shiftIv_fst, shiftIv_snd, shiftIv, hp]
      cases processEvents p err known (buildEventMap evs) (buildMicroMap p.fl.microintron_retention evs) (f.1, l.2)
          (junctionsFromBlocks exons) isoRegion isoIntrons with
      | error x => rfl
      | ok q =>
        obtain ⟨reg, ni⟩ := q
        have hb := buildExons_shift k reg ni
        simp only [shiftIv] at hb
        simp only [shiftExRes, shiftIv, hb]
        rfl

-- non-vacuity: on shifted inputs the model corrects (fuzzy junction moved onto the annotation, fake terminal exon
-- removed, skipped micro-exon restored) and raises (assertion) exactly as the theorems say
example : correctAssignedRead ⟨⟨true, false, true, false, true, true⟩, 6⟩ (fun _ _ => (1, 0)) (shiftL 255 [(41, 60)])
      false (some [⟨MatchEventSubtype.fake_terminal_exon_left, (1073741823, 1073741823), (0, 0)⟩])
      (shiftIv 255 (30, 120)) (shiftL 255 [(41, 60)]) (shiftL 255 [(10, 12), (30, 42), (61, 99)])
    = .ok (shiftL 255 [(30, 40), (61, 99)]) := by decide +kernel
example : processEvents ⟨⟨false, false, true, false, false, false⟩, 6⟩ (fun _ _ => (0, 0)) []
    [(0, ⟨MatchEventSubtype.exon_misalignment, (0, 1), (0, 0)⟩)] [] (shiftIv (-7) (1, 200))
    (shiftL (-7) [(21, 80)]) (shiftIv (-7) (1, 200)) (shiftL (-7) [(21, 40), (51, 80)])
    = .ok (shiftIv (-7) (1, 200), shiftL (-7) [(21, 40), (51, 80)]) := by decide +kernel
example : processEvents ⟨⟨true, false, true, false, true, true⟩, 6⟩ (fun _ _ => (0, 0)) []
    [(0, ⟨MatchEventSubtype.fake_terminal_exon_left, (0, 0), (0, 1)⟩)] [] (shiftIv 1000 (10, 99))
    (shiftL 1000 [(13, 40), (61, 70)]) (shiftIv 1000 (41, 120)) (shiftL 1000 [(61, 70)]) = .error .assertion := by
  decide +kernel
example : matchGenomicFeatures 3 (shiftL 256 [(20, 31), (22, 30), (50, 60)]) (shiftL 256 [(21, 30), (51, 61)])
    = shiftL 256 [(22, 30), (50, 60)] := by decide +kernel

/-! ## reflection: the pieces of the corrector that are mirror images of themselves

Left/right swap: `fake_terminal_exon_left ↔ …_right`, `terminal_exon_misalignment_left ↔ …_right` (`swapLR`), read intron
`i ↦ n − 1 − i`, isoform intron `j ↦ m − 1 − j` (`mirrorMEvent`), `err i left ↦ err (n − 1 − i) (¬ left)` (`mirrorErr`).
Proved: one event of the if/elif chain, the fuzzy junction loop, the exon chain and its validity test.  False:
`match_genomic_features` (takes the FIRST of equally distant candidates: `…_tie_witness`).  The whole `while` loop with
index-keyed events (`ProcessEventsMirror`) and `correct_assigned_read` through event lists are proved further down
(`mirror_dual_processEvents`, `mirror_dual_correctAssignedRead`); the harness replays both on model and real code
(relations `M.process_events`, `M.correct_assigned_read`). -/

/-- one event of the chain on the mirrored data is the mirrored result (new introns in mirrored order) -/
theorem mirror_dual_eventStep (L : Int) (p : CParams) (rr : Iv) (ri corr : List Iv) (isoR : Iv) (isoI : List Iv)
    (e : MEvent) (reg : Iv) (hn : corr.length = ri.length) (h : EventInRange ri.length isoI.length e) :
    eventStep p (mirrorIv L rr) (mirrorL L ri) (mirrorL L corr) (mirrorIv L isoR) (mirrorL L isoI)
        (mirrorMEvent ri.length isoI.length e) (mirrorIv L reg) []
      = mirrorExRes L (eventStep p rr ri corr isoR isoI e reg []) :=
  eventStep_mirror L p rr ri corr isoR isoI e reg hn h

/-- needed (`EventInRange.single`): `terminal_exon_misalignment_right` reads `isoform_region[0]` like its left
    partner, so an event spanning two isoform introns inserts a different intron in the two orientations -/
theorem mirror_eventStep_terminal_iso_witness :
    ¬ (∀ (L : Int) (p : CParams) (rr : Iv) (ri corr : List Iv) (isoR : Iv) (isoI : List Iv) (e : MEvent) (reg : Iv),
        corr.length = ri.length →
        (0 ≤ e.read.1 ∧ e.read.1 < ri.length ∧ 0 ≤ e.read.2 ∧ e.read.2 < ri.length) →
        (0 ≤ e.iso.1 ∧ e.iso.1 < isoI.length ∧ 0 ≤ e.iso.2 ∧ e.iso.2 < isoI.length) →
        eventStep p (mirrorIv L rr) (mirrorL L ri) (mirrorL L corr) (mirrorIv L isoR) (mirrorL L isoI)
            (mirrorMEvent ri.length isoI.length e) (mirrorIv L reg) []
          = mirrorExRes L (eventStep p rr ri corr isoR isoI e reg [])) := by
  intro h
  have := h 100 ⟨⟨false, false, false, true, false, false⟩, 6⟩ (1, 90) [(11, 20)] [(11, 20)] (1, 95)
    [(11, 20), (41, 50)] ⟨MatchEventSubtype.terminal_exon_misalignment_left, (0, 1), (0, 0)⟩ (1, 90) rfl
    (by decide) (by decide)
  revert this
  decide

/-- needed (`EventInRange.read`): Python's negative indices are valid (−1 = last intron), their mirror images
    (`n`) are not -/
theorem mirror_eventStep_negative_index_witness :
    ¬ (∀ (L : Int) (p : CParams) (rr : Iv) (ri corr : List Iv) (isoR : Iv) (isoI : List Iv) (e : MEvent) (reg : Iv),
        corr.length = ri.length →
        eventStep p (mirrorIv L rr) (mirrorL L ri) (mirrorL L corr) (mirrorIv L isoR) (mirrorL L isoI)
            (mirrorMEvent ri.length isoI.length e) (mirrorIv L reg) []
          = mirrorExRes L (eventStep p rr ri corr isoR isoI e reg [])) := by
  intro h
  have := h 100 ⟨⟨false, false, false, false, true, false⟩, 6⟩ (1, 90) [(11, 20), (41, 50)] [(11, 20), (41, 50)] (1, 95)
    [(11, 20)] ⟨MatchEventSubtype.fake_terminal_exon_left, (0, 0), (-1, -1)⟩ (1, 90) rfl
  revert this
  decide

/-! ### micro-intron restoration: EVERY read exon (first and last included), any number of retained introns per exon

`MicroWF n m mm`: every binding names a read exon `0 ≤ k ≤ n` (n = number of read introns, so `k = n` is the last
exon) and an isoform intron index `0 ≤ j < m`; nothing else — keys may repeat. -/

/-- the introns restored in exon `j` of the mirrored read (exon `n − j` of the read seen from the other end, bindings
    in the opposite order, isoform intron `m − 1 − ·`) are the mirror images, in mirrored order -/
theorem mirror_dual_microStep (L : Int) (n : Nat) (mm : List (Int × Int)) (isoI : List Iv)
    (hw : MicroWF n isoI.length mm) (j : Nat) (hj : j ≤ n) :
    microStep (mirrorMicroMap n isoI.length mm) (mirrorL L isoI) (j : Int) []
      = (match microStep mm isoI ((n - j : Nat) : Int) [] with
         | .ok xs => .ok (mirrorL L xs)
         | .error e => .error e) := by
  have hw' : MicroWF n (mirrorL L isoI).length (mirrorMicroMap n isoI.length mm) := by
    rw [mirrorL_length]; exact microWF_mirror hw
  rw [microStep_wf hw', microStep_wf hw, microOf_mirror L hw j hj]
  simp

/-- **the whole `while` loop + the step after it, on an event map that holds micro-intron retentions only**
    (no index-keyed event; fuzzy correction off, which is not mirror-symmetric on ties): `process_events` of the
    mirrored read is the mirrored result — for ALL positions of the retained introns (first exon, inner exons,
    LAST exon) and any number of them per exon.  This is the statement that was false before the repair
    (`…_last_exon_witness`, `…_several_witness` below). -/
theorem mirror_dual_processEvents_micro (L : Int) (p : CParams) (err : Nat → Bool → Int × Int) (known : List Iv)
    (mm : List (Int × Int)) (rr : Iv) (ri : List Iv) (isoR : Iv) (isoI : List Iv)
    (hf : p.fl.fuzzy_junctions = false) (hw : MicroWF ri.length isoI.length mm) :
    processEvents p (mirrorErr ri.length err) (mirrorL L known) [] (mirrorMicroMap ri.length isoI.length mm)
        (mirrorIv L rr) (mirrorL L ri) (mirrorIv L isoR) (mirrorL L isoI)
      = mirrorExRes L (processEvents p err known [] mm rr ri isoR isoI) := by
  have hw' := microWF_mirror hw
  have hl : (mirrorL L isoI).length = isoI.length := mirrorL_length L isoI
  simp only [processEvents, correctedIntrons, hf, Bool.false_eq_true, if_false, eventFuel, List.length_nil,
    mirrorL_length]
  have h1 := eventLoop_micro p mm rr ri ri isoR isoI hw (2 * ri.length + 0 + 2) 0 rr [] (by omega) (by omega)
  have h2 := eventLoop_micro (n := ri.length) p (mirrorMicroMap ri.length isoI.length mm) (mirrorIv L rr)
    (mirrorL L ri) (mirrorL L ri) (mirrorIv L isoR) (mirrorL L isoI) (by rw [hl]; exact hw')
    (2 * ri.length + 0 + 2) 0 (mirrorIv L rr) [] (by omega) (by rw [mirrorL_length]; omega)
  simp only [Int.natCast_zero, List.drop_zero, List.nil_append] at h1 h2
  rw [h1, h2]
  simp only [mirrorExRes]
  rw [weave_mirror]
  congr 2
  apply weave_congr
  intro j _ hj
  rw [mirrorL_length] at hj
  simp only [Nat.zero_add] at hj ⊢
  exact microOf_mirror L hw j hj

/-- non-vacuity + the two audit inputs on the REPAIRED model: a micro intron retained in the LAST read exon (G5) and
    two micro introns retained in ONE exon (G6) are restored, in both orientations -/
example : MicroWF 2 3 [(2, 2)] ∧ MicroWF 1 3 [(0, 0), (0, 1)] := by
  constructor
  · intro q hq; simp at hq; subst hq; decide
  · intro q hq; simp at hq; rcases hq with hq | hq <;> subst hq <;> decide
example : processEvents ⟨⟨false, false, false, false, false, true⟩, 6⟩ (fun _ _ => (0, 0)) [] [] [(2, 2)]
      (6000, 8300) [(6301, 6999), (7301, 7799)] (6000, 8300) [(6301, 6999), (7301, 7799), (8092, 8099)]
    = .ok ((6000, 8300), [(6301, 6999), (7301, 7799), (8092, 8099)]) := by decide +kernel
example : processEvents ⟨⟨false, false, false, false, false, true⟩, 6⟩ (fun _ _ => (0, 0)) [] [] [(0, 0), (0, 1)]
      (4086, 4500) [(4319, 4400)] (4086, 4500) [(4109, 4147), (4237, 4256), (4319, 4400)]
    = .ok ((4086, 4500), [(4109, 4147), (4237, 4256), (4319, 4400)]) := by decide +kernel

/-- `…_witness` (audit 2-C, C11 G5): the code BEFORE the repair never looked at the key of the last read exon, so the
    read `6000-6300,7000-7300,7800-8300` that retains the isoform's micro intron `8092-8099` in its last exon is
    returned unchanged, while its mirror image (micro intron in the FIRST exon) is corrected: `processEventsOld` is
    not mirror-dual on a well-formed micro map.  The repaired function is (`mirror_dual_processEvents_micro`). -/
theorem mirror_processEventsOld_last_exon_witness :
    ¬ (∀ (L : Int) (p : CParams) (err : Nat → Bool → Int × Int) (known : List Iv) (mm : List (Int × Int)) (rr : Iv)
        (ri : List Iv) (isoR : Iv) (isoI : List Iv),
        p.fl.fuzzy_junctions = false → MicroWF ri.length isoI.length mm →
        processEventsOld p (mirrorErr ri.length err) (mirrorL L known) [] (mirrorMicroMap ri.length isoI.length mm)
            (mirrorIv L rr) (mirrorL L ri) (mirrorIv L isoR) (mirrorL L isoI)
          = mirrorExRes L (processEventsOld p err known [] mm rr ri isoR isoI)) := by
  intro h
  have := h 9000 ⟨⟨false, false, false, false, false, true⟩, 6⟩ (fun _ _ => (0, 0)) [] [(2, 2)] (6000, 8300)
    [(6301, 6999), (7301, 7799)] (6000, 8300) [(6301, 6999), (7301, 7799), (8092, 8099)] rfl
    (by intro q hq; simp at hq; subst hq; decide)
  revert this
  decide +kernel

/-- `…_witness` (audit 2-C, C11 G6): before the repair the dict key of a read exon held ONE event, the last one
    assigned; with two micro introns retained in one exon the last one in ascending order was restored, which is
    the other one in the mirrored run -/
theorem mirror_processEventsOld_several_witness :
    ¬ (∀ (L : Int) (p : CParams) (err : Nat → Bool → Int × Int) (known : List Iv) (mm : List (Int × Int)) (rr : Iv)
        (ri : List Iv) (isoR : Iv) (isoI : List Iv),
        p.fl.fuzzy_junctions = false → MicroWF ri.length isoI.length mm →
        processEventsOld p (mirrorErr ri.length err) (mirrorL L known) [] (mirrorMicroMap ri.length isoI.length mm)
            (mirrorIv L rr) (mirrorL L ri) (mirrorIv L isoR) (mirrorL L isoI)
          = mirrorExRes L (processEventsOld p err known [] mm rr ri isoR isoI)) := by
  intro h
  have := h 5000 ⟨⟨false, false, false, false, false, true⟩, 6⟩ (fun _ _ => (0, 0)) [] [(0, 0), (0, 1)] (4086, 4500)
    [(4319, 4400)] (4086, 4500) [(4109, 4147), (4237, 4256), (4319, 4400)] rfl
    (by intro q hq; simp at hq; rcases hq with hq | hq <;> subst hq <;> decide)
  revert this
  decide +kernel

/-- the same two inputs through `correct_assigned_read` (event LISTS as `JunctionComparator` emits them): the old
    code returns the read unchanged / restores one of the two introns, the repaired code restores all of them -/
theorem correctAssignedReadOld_micro_witness :
    correctAssignedReadOld ⟨⟨false, false, false, false, false, true⟩, 6⟩ (fun _ _ => (0, 0)) [] false
        (some [⟨MatchEventSubtype.fake_micro_intron_retention, (2, 2), (absentPosition, 2)⟩]) (6000, 8300)
        [(6301, 6999), (7301, 7799), (8092, 8099)] [(6000, 6300), (7000, 7300), (7800, 8300)]
      = .ok [(6000, 6300), (7000, 7300), (7800, 8300)] ∧
    correctAssignedRead ⟨⟨false, false, false, false, false, true⟩, 6⟩ (fun _ _ => (0, 0)) [] false
        (some [⟨MatchEventSubtype.fake_micro_intron_retention, (2, 2), (absentPosition, 2)⟩]) (6000, 8300)
        [(6301, 6999), (7301, 7799), (8092, 8099)] [(6000, 6300), (7000, 7300), (7800, 8300)]
      = .ok [(6000, 6300), (7000, 7300), (7800, 8091), (8100, 8300)] ∧
    correctAssignedReadOld ⟨⟨false, false, false, false, false, true⟩, 6⟩ (fun _ _ => (0, 0)) [] false
        (some [⟨MatchEventSubtype.fake_micro_intron_retention, (0, 0), (absentPosition, 0)⟩,
               ⟨MatchEventSubtype.fake_micro_intron_retention, (1, 1), (absentPosition, 0)⟩]) (4086, 4500)
        [(4109, 4147), (4237, 4256), (4319, 4400)] [(4086, 4318), (4401, 4500)]
      = .ok [(4086, 4236), (4257, 4318), (4401, 4500)] ∧
    correctAssignedRead ⟨⟨false, false, false, false, false, true⟩, 6⟩ (fun _ _ => (0, 0)) [] false
        (some [⟨MatchEventSubtype.fake_micro_intron_retention, (0, 0), (absentPosition, 0)⟩,
               ⟨MatchEventSubtype.fake_micro_intron_retention, (1, 1), (absentPosition, 0)⟩]) (4086, 4500)
        [(4109, 4147), (4237, 4256), (4319, 4400)] [(4086, 4318), (4401, 4500)]
      = .ok [(4086, 4108), (4148, 4236), (4257, 4318), (4401, 4500)] := by
  decide +kernel

/-- fuzzy junction correction with the error counts read from the other end (`err i left ↦ err (n−1−i) (¬left)`),
    given the matched annotation introns of the mirrored read in mirrored order -/
theorem mirror_dual_fuzzyLoop (L : Int) (err : Nat → Bool → Int × Int) (rs qs : List Iv) (h : rs.length = qs.length) :
    fuzzyLoop (mirrorErr rs.length err) (mirrorL L rs) (mirrorL L qs) 0 = mirrorL L (fuzzyLoop err rs qs 0) :=
  fuzzyLoop_mirror L err rs qs h

/-- `match_genomic_features` is NOT its own mirror image: of two annotated introns at the same distance from the
    read intron it takes the first in ascending order, which is the other one after the reflection -/
theorem mirror_matchGenomicFeatures_tie_witness :
    ¬ (∀ (L δ : Int) (known reads : List Iv),
        matchGenomicFeatures δ (mirrorL L known) (mirrorL L reads) = mirrorL L (matchGenomicFeatures δ known reads)) := by
  intro h
  have := h 30 2 [(10, 20), (12, 22)] [(11, 21)]
  revert this
  decide +kernel

/-- exon chain from the corrected region and the new introns: ALL inputs -/
theorem mirror_dual_buildExons (L : Int) (reg : Iv) (ni : List Iv) :
    buildExons (mirrorIv L reg) (mirrorL L ni) = mirrorL L (buildExons reg ni) :=
  buildExons_mirror L reg ni

/-- `is_valid_exon_chain` is mirror-symmetric: ALL lists -/
theorem mirror_dual_validChain (L : Int) (l : List Iv) : validChain (mirrorL L l) = validChain l :=
  validChain_mirror L l

/-- `is_valid_intron_chain` (the gate added by the repair `fix_corrector_closed_intron`) sees neither a translation nor
    a reflection: ALL lists -/
theorem shift_equivariant_validIntronChain (k : Int) (l : List Iv) :
    validIntronChain (shiftL k l) = validIntronChain l := validIntronChain_shift k l

theorem mirror_dual_validIntronChain (L : Int) (l : List Iv) :
    validIntronChain (mirrorL L l) = validIntronChain l := validIntronChain_mirror L l

example : validIntronChain (mirrorL 100 [(11, 20), (31, 40)]) = true ∧ validIntronChain [(11, 20), (21, 40)] = false ∧
    validIntronChain (mirrorL 100 [(11, 20), (21, 40)]) = false := by decide

/-- the whole `while` loop of `process_events` (+ the step after it) without fuzzy junction correction (which is not
    mirror-symmetric on ties) on a well-formed event map WITH index-keyed events and any well-formed micro map:
    `process_events` of the mirrored input (events keyed by the mirror image of their LAST read intron, left/right
    names swapped, micro bindings counted from the other end) is the mirrored result, the same exception included.
    Proved below (`mirror_dual_processEvents`); the instance `emap = []` is `mirror_dual_processEvents_micro`. -/
def ProcessEventsMirror : Prop :=
  ∀ (L : Int) (p : CParams) (err : Nat → Bool → Int × Int) (known : List Iv) (emap : List (Int × MEvent))
    (mm : List (Int × Int)) (rr : Iv) (ri : List Iv) (isoR : Iv) (isoI : List Iv),
    p.fl.fuzzy_junctions = false → EmapWF ri.length isoI.length emap → MicroWF ri.length isoI.length mm →
    processEvents p (mirrorErr ri.length err) (mirrorL L known) (mirrorEmap ri.length isoI.length emap)
        (mirrorMicroMap ri.length isoI.length mm) (mirrorIv L rr) (mirrorL L ri) (mirrorIv L isoR) (mirrorL L isoI)
      = mirrorExRes L (processEvents p err known emap mm rr ri isoR isoI)

/-- **`ProcessEventsMirror` holds.**  The loop walks the tiling of the read introns by the event ranges left to right
    (`loop_eq_back`: its result is the summary `backS` of the tiling, which is defined from the RIGHT end), the loop
    on the mirrored data walks the same tiling right to left (`mirror_loop_back`); per segment the two agree by
    `mirror_dual_eventStep` / `mirror_dual_microStep`; the region updates commute because `EmapWF` allows one event
    per region end (needed: `mirror_processEvents_override_witness`); every exception of a well-formed map is the failed
    `assert` (`evOut_err`), so the order in which the runs meet it does not matter. -/
theorem mirror_dual_processEvents : ProcessEventsMirror := by
  intro L p err known emap mm rr ri isoR isoI hf hwf hw
  have ho := emapOK_of_wf hwf
  have h1 := mirror_loop_back L ⟨p, emap, mm, rr, ri, ri, isoR, isoI⟩ rfl hw ho (2 * ri.length + emap.length + 2) 0
    (mirrorIv L rr) [] (by omega) (by simp only; omega)
  have h2 := loop_eq_back ⟨p, emap, mm, rr, ri, ri, isoR, isoI⟩ rfl hw ho (2 * ri.length + emap.length + 2) 0 rr []
    (by omega) (by simp only; omega) (bd_zero ho)
  rw [backS_zero] at h2
  have hlen : (mirrorEmap ri.length isoI.length emap).length = emap.length := by simp [mirrorEmap]
  simp only [processEvents, correctedIntrons, hf, Bool.false_eq_true, if_false, eventFuel, mirrorL_length, hlen]
  have happ : RegUpd.app (none, none) rr = rr := rfl
  simp only [LCtx.loop, LCtx.mirror, Int.natCast_zero, Nat.sub_zero, List.nil_append, happ, totalS] at h1 h2
  rw [h1, h2]
  cases backS ⟨p, emap, mm, rr, ri, ri, isoR, isoI⟩ ri.length with
  | error x => rfl
  | ok q =>
    obtain ⟨u, xs⟩ := q
    simp only [mirrorExRes, mirrorUpd_app]

-- non-vacuity: a well-formed event map with an index-keyed event of each end and an inner one, and the two sides
example : EmapWF 3 2 [(0, ⟨MatchEventSubtype.fake_terminal_exon_left, (0, 0), (0, 0)⟩),
                      (1, ⟨MatchEventSubtype.exon_misalignment, (0, 1), (1, 1)⟩),
                      (2, ⟨MatchEventSubtype.fake_terminal_exon_right, (0, 0), (2, 2)⟩)] := by
  refine ⟨by decide, ?_, by decide, by decide, by decide, by decide⟩
  intro q hq
  simp only [List.mem_cons, List.not_mem_nil, or_false] at hq
  rcases hq with rfl | rfl | rfl <;> intro _ <;>
    exact ⟨rfl, by decide, ⟨by decide, fun _ => by decide, by intro h; rcases h with h | h <;> cases h⟩⟩
example : processEvents ⟨⟨false, false, true, false, true, false⟩, 6⟩ (mirrorErr 3 (fun _ _ => (0, 0))) []
      (mirrorEmap 3 2 [(0, ⟨MatchEventSubtype.fake_terminal_exon_left, (0, 0), (0, 0)⟩),
                       (1, ⟨MatchEventSubtype.exon_misalignment, (0, 1), (1, 1)⟩),
                       (2, ⟨MatchEventSubtype.fake_terminal_exon_right, (0, 0), (2, 2)⟩)]) []
      (mirrorIv 1000 (1, 900)) (mirrorL 1000 [(11, 20), (101, 400), (801, 850)]) (mirrorIv 1000 (21, 800))
      (mirrorL 1000 [(101, 200), (301, 400)])
    = .ok (mirrorIv 1000 (21, 800), mirrorL 1000 [(101, 200), (301, 400)]) ∧
    processEvents ⟨⟨false, false, true, false, true, false⟩, 6⟩ (fun _ _ => (0, 0)) []
      [(0, ⟨MatchEventSubtype.fake_terminal_exon_left, (0, 0), (0, 0)⟩),
       (1, ⟨MatchEventSubtype.exon_misalignment, (0, 1), (1, 1)⟩),
       (2, ⟨MatchEventSubtype.fake_terminal_exon_right, (0, 0), (2, 2)⟩)] []
      (1, 900) [(11, 20), (101, 400), (801, 850)] (21, 800) [(101, 200), (301, 400)]
    = .ok ((21, 800), [(101, 200), (301, 400)]) := by decide +kernel

/-! ### reflection through event LISTS (`correct_misalignments` + `process_events` + the validity gates)

`mirrorEventList n m evs` (Model/C11SymBedCorr.lean): every event seen from the other end by `mirrorMEventS` — the two
sentinels of `read_region` are KEPT (undefined region: unchanged; absent position + read exon `k`: absent position + exon
`n − k`), all other events are `mirrorMEvent` — in the opposite order. -/

/-- what the reflection theorem needs of an event list (all decidable): its event map and its micro bindings are well
    formed (`EmapWF`, `MicroWF`), an event that names a read EXON (absent sentinel) names ONE isoform intron (true of
    the only such event the comparator emits: `isoform_region = (i, i)`, junction_comparator.py), and the read has at
    most 2³¹ − 1 introns, so that no intron index is mirrored onto a sentinel -/
structure EventsMirrorable (p : CParams) (n m : Nat) (evs : List MEvent) : Prop where
  emap : EmapWF n m (buildEventMap evs)
  micro : MicroWF n m (buildMicroMap p.fl.microintron_retention evs)
  single : ∀ e ∈ evs, e.read.1 = absentPosition → e.iso.1 = e.iso.2
  size : (n : Int) ≤ absentPosition

/-- the sentinel-preserving event mirror is `mirrorMEvent` on every event that enters the event map -/
theorem mirrorMEventS_of_normal (n m : Nat) (e : MEvent) (h1 : e.read ≠ undefinedRegion) (h2 : e.read.1 ≠ absentPosition) :
    mirrorMEventS n m e = mirrorMEvent n m e :=
  mirrorS_of_normal n m e (by simp [normalB, h1, h2])

/-- … and keeps both sentinels -/
theorem mirrorMEventS_sentinel (n m : Nat) (e : MEvent) :
    (e.read = undefinedRegion → (mirrorMEventS n m e).read = undefinedRegion) ∧
    (e.read ≠ undefinedRegion → e.read.1 = absentPosition →
      (mirrorMEventS n m e).read = (absentPosition, (n : Int) - e.read.2)) := by
  refine ⟨fun h => by simp [mirrorMEventS, h], fun h1 h2 => by simp [mirrorMEventS, h1, h2]⟩

theorem eventsMirrorable_normal {p : CParams} {n m : Nat} {evs : List MEvent} (h : EventsMirrorable p n m evs) :
    ∀ e ∈ evs, normalB e = true → normalB (mirrorMEvent n m e) = true := by
  intro e he hb
  have hq := buildEventMap_mem_of he hb
  obtain ⟨_, h2, _, h4, _, _⟩ := h.emap
  exact normalB_mirror_of_inrange n m e h.size (h2 _ hq (h4 _ hq)).2.2.read

/-- event map and micro bindings of the mirrored event list -/
theorem mirror_dual_buildEventMap {p : CParams} {n m : Nat} {evs : List MEvent} (h : EventsMirrorable p n m evs) :
    buildEventMap (mirrorEventList n m evs) = mirrorEmap n m (buildEventMap evs).reverse :=
  buildEventMap_mirror n m evs (eventsMirrorable_normal h)

theorem mirror_dual_buildMicroMap {p : CParams} {n m : Nat} {evs : List MEvent} (h : EventsMirrorable p n m evs) :
    buildMicroMap p.fl.microintron_retention (mirrorEventList n m evs)
      = mirrorMicroMap n m (buildMicroMap p.fl.microintron_retention evs) :=
  buildMicroMap_mirror n m _ evs (eventsMirrorable_normal h) h.single

/-- **`correct_assigned_read` is mirror dual** (fuzzy junction correction off): the corrected exons of the mirrored read
    with the mirrored event list on the mirrored annotation are the mirrored corrected exons; an exception is the same
    exception; a correction rejected by `is_valid_intron_chain` / `is_valid_exon_chain` is rejected in both runs -/
theorem mirror_dual_correctAssignedRead (L : Int) (p : CParams) (err : Nat → Bool → Int × Int) (known : List Iv)
    (noninformative : Bool) (evs : List MEvent) (isoRegion : Iv) (isoIntrons exons : List Iv)
    (hf : p.fl.fuzzy_junctions = false)
    (h : EventsMirrorable p (junctionsFromBlocks exons).length isoIntrons.length evs) :
    correctAssignedRead p (mirrorErr (junctionsFromBlocks exons).length err) (mirrorL L known) noninformative
        (some (mirrorEventList (junctionsFromBlocks exons).length isoIntrons.length evs)) (mirrorIv L isoRegion)
        (mirrorL L isoIntrons) (mirrorL L exons)
      = mirrorExL L (correctAssignedRead p err known noninformative (some evs) isoRegion isoIntrons exons) := by
  unfold correctAssignedRead
  simp only [mirrorL_length, mirrorL_head?, mirrorL_getLast?]
  split
  · rfl
  · cases hh : exons.head? <;> cases hl : exons.getLast? <;> simp only [Option.map_none, Option.map_some] <;>
      try rfl
    rename_i f l
    have hpe := mirror_dual_processEvents L p err known (buildEventMap evs).reverse
      (buildMicroMap p.fl.microintron_retention evs) (f.1, l.2) (junctionsFromBlocks exons) isoRegion isoIntrons hf
      (emapWF_reverse h.emap) h.micro
    rw [processEvents_reverse _ _ _ _ _ _ _ _ _ h.emap.1] at hpe
    have hrr : ((mirrorIv L l).1, (mirrorIv L f).2) = mirrorIv L (f.1, l.2) := rfl
    rw [junctionsFromBlocks_mirror, mirror_dual_buildEventMap h, mirror_dual_buildMicroMap h, hrr, hpe]
    cases processEvents p err known (buildEventMap evs) (buildMicroMap p.fl.microintron_retention evs) (f.1, l.2)
        (junctionsFromBlocks exons) isoRegion isoIntrons with
    | error x => rfl
    | ok q =>
      obtain ⟨reg, ni⟩ := q
      simp only [mirrorExRes, buildExons_mirror, validChain_mirror, validIntronChain_mirror]
      split <;> rfl

-- non-vacuity: an event list with an index-keyed event, a micro-intron retention in the LAST read exon (absent
-- sentinel kept by the mirror) and an undefined-region event; hypotheses and both sides
example : mirrorEventList 2 3 [⟨MatchEventSubtype.fake_micro_intron_retention, (2, 2), (absentPosition, 2)⟩,
      ⟨MatchEventSubtype.intron_retention, (0, 0), undefinedRegion⟩,
      ⟨MatchEventSubtype.fake_terminal_exon_left, (0, 0), (0, 0)⟩]
    = [⟨MatchEventSubtype.fake_terminal_exon_right, (2, 2), (1, 1)⟩,
       ⟨MatchEventSubtype.intron_retention, (2, 2), undefinedRegion⟩,
       ⟨MatchEventSubtype.fake_micro_intron_retention, (0, 0), (absentPosition, 0)⟩] := by decide
example : EventsMirrorable ⟨⟨false, false, false, false, true, true⟩, 6⟩ 2 3
    [⟨MatchEventSubtype.fake_micro_intron_retention, (2, 2), (absentPosition, 2)⟩,
     ⟨MatchEventSubtype.intron_retention, (0, 0), undefinedRegion⟩,
     ⟨MatchEventSubtype.fake_terminal_exon_left, (0, 0), (0, 0)⟩] := by
  refine ⟨⟨by decide, ?_, by decide, by decide, by decide, by decide⟩, ?_, by decide, by decide⟩
  · intro q hq
    have : q = (0, ⟨MatchEventSubtype.fake_terminal_exon_left, (0, 0), (0, 0)⟩) := by
      revert hq; simp [buildEventMap, addEvent, undefinedRegion, absentPosition, smc_undefined_region, smc_absent_position]
    subst this
    intro _
    exact ⟨rfl, by decide, ⟨by decide, fun _ => by decide, by intro h; rcases h with h | h <;> cases h⟩⟩
  · intro q hq
    have : q = (2, 2) := by
      revert hq
      simp [buildMicroMap, microEntry, undefinedRegion, absentPosition, smc_undefined_region, smc_absent_position,
        corrector_micro_intron_test]
    subst this; decide
example : correctAssignedRead ⟨⟨false, false, false, false, true, true⟩, 6⟩ (fun _ _ => (0, 0)) [] false
      (some [⟨MatchEventSubtype.fake_micro_intron_retention, (2, 2), (absentPosition, 2)⟩,
             ⟨MatchEventSubtype.intron_retention, (0, 0), undefinedRegion⟩,
             ⟨MatchEventSubtype.fake_terminal_exon_left, (0, 0), (0, 0)⟩]) (6000, 8300)
      [(6301, 6999), (7301, 7799), (8092, 8099)] [(6000, 6300), (7000, 7300), (7800, 8300)]
    = .ok [(7000, 7300), (7800, 8091), (8100, 8300)] ∧
    correctAssignedRead ⟨⟨false, false, false, false, true, true⟩, 6⟩ (mirrorErr 2 (fun _ _ => (0, 0))) [] false
      (some (mirrorEventList 2 3 [⟨MatchEventSubtype.fake_micro_intron_retention, (2, 2), (absentPosition, 2)⟩,
             ⟨MatchEventSubtype.intron_retention, (0, 0), undefinedRegion⟩,
             ⟨MatchEventSubtype.fake_terminal_exon_left, (0, 0), (0, 0)⟩])) (mirrorIv 9000 (6000, 8300))
      (mirrorL 9000 [(6301, 6999), (7301, 7799), (8092, 8099)]) (mirrorL 9000 [(6000, 6300), (7000, 7300), (7800, 8300)])
    = .ok (mirrorL 9000 [(7000, 7300), (7800, 8091), (8100, 8300)]) := by decide +kernel

/-- why `EmapWF` allows one event per region end: the LAST `fake_terminal_exon_right` event wins, which is the other
    one in the mirrored run (found by the search for `ProcessEventsMirror`; model and real code agree) -/
theorem mirror_processEvents_override_witness :
    processEvents ⟨⟨false, false, false, false, true, false⟩, 6⟩ (mirrorErr 2 (fun _ _ => (0, 0))) []
        (mirrorEmap 2 0 [(0, ⟨MatchEventSubtype.fake_terminal_exon_right, (0, 0), (0, 0)⟩),
                         (1, ⟨MatchEventSubtype.fake_terminal_exon_right, (0, 0), (1, 1)⟩)]) []
        (mirrorIv 100 (1, 90)) (mirrorL 100 [(11, 20), (41, 50)]) (mirrorIv 100 (1, 90)) (mirrorL 100 [])
      ≠ mirrorExRes 100 (processEvents ⟨⟨false, false, false, false, true, false⟩, 6⟩ (fun _ _ => (0, 0)) []
          [(0, ⟨MatchEventSubtype.fake_terminal_exon_right, (0, 0), (0, 0)⟩),
           (1, ⟨MatchEventSubtype.fake_terminal_exon_right, (0, 0), (1, 1)⟩)] []
          (1, 90) [(11, 20), (41, 50)] (1, 90) []) := by
  decide +kernel

-- non-vacuity of the reflection theorems: an in-range event, and the two sides computed on it
example : EventInRange 2 1 ⟨MatchEventSubtype.fake_terminal_exon_left, (1073741823, 1073741823), (0, 0)⟩ ∧
    eventStep ⟨⟨true, false, true, false, true, true⟩, 6⟩ (mirrorIv 200 (10, 99)) (mirrorL 200 [(13, 40), (61, 70)])
      (mirrorL 200 [(13, 40), (61, 70)]) (mirrorIv 200 (41, 120)) (mirrorL 200 [(61, 70)])
      (mirrorMEvent 2 1 ⟨MatchEventSubtype.fake_terminal_exon_left, (1073741823, 1073741823), (0, 0)⟩)
      (mirrorIv 200 (10, 99)) [] = .ok (mirrorIv 200 (41, 99), []) ∧
    (mirrorMEvent 2 1 ⟨MatchEventSubtype.fake_terminal_exon_left, (1073741823, 1073741823), (0, 0)⟩).etype
      = MatchEventSubtype.fake_terminal_exon_right := by
  refine ⟨⟨by decide, ?_, ?_⟩, by decide +kernel, rfl⟩
  · intro h; rcases h with h | h | h | h <;> cases h
  · intro h; rcases h with h | h <;> cases h

example : fuzzyLoop (mirrorErr 1 (fun _ l => if l then (1, 0) else (0, 0))) (mirrorL 100 [(21, 30)])
    (mirrorL 100 [(20, 31)]) 0 = mirrorL 100 [(20, 30)] := by decide

end IsoVerif.Props.C11Corrector
