/-
C03 — the gate `validate_exons` and what reaches the file: everything printed passed the gate; what the gate
guarantees (sorted, 1 <= start <= end, and - because an empty list aborts the call - at least one exon); what it does
NOT guarantee (non-overlap: witness), and why the transcript record spans its exons.
Property theorems only; helper lemmas live in IsoVerif/Lemmas/{Sort,Gtf,GtfDump}.lean.
-/
import IsoVerif.Model.Gtf
import IsoVerif.Lemmas.Interval
import IsoVerif.Lemmas.C03GtfDump
import IsoVerif.Props.C03Hist

namespace IsoVerif.Props.C03
open IsoVerif.Gen IsoVerif.Model IsoVerif.Lemmas IsoVerif.Props.C03Hist IsoVerif.Model.C03 IsoVerif.Lemmas.C03

/-- **validate_exons_iff**: the gate accepts exactly the lists that are sorted in Python's tuple order and whose
    every exon satisfies `0 < start <= end` (the empty list included) -/
theorem validate_exons_iff (l : List Iv) :
    validateExons l = true ↔ l.Pairwise ivLe ∧ ∀ x ∈ l, 0 < x.1 ∧ x.1 ≤ x.2 := by
  unfold validateExons
  simp only [Bool.and_eq_true, beq_iff_eq, List.all_eq_true, decide_eq_true_eq]
  have hp : l.Pairwise ivLe ↔ l.Pairwise (fun a b => ivLt b a = false) := by
    constructor <;> intro h <;> exact h.imp (fun {a b} hab => by first | exact (ivLt_false_iff a b).mpr hab | exact (ivLt_false_iff a b).mp hab)
  constructor
  · rintro ⟨h1, h2⟩
    refine ⟨hp.mpr ?_, h2⟩
    rw [h1]; exact isortBy_sorted ivLt_strict l
  · rintro ⟨h1, h2⟩
    exact ⟨(isortBy_eq_self ivLt l (hp.mp h1)).symm, h2⟩

/-- sorted disjoint well-formed positive exon lists (what the constructors produce) pass the gate -/
theorem sd_passes_gate (l : List Iv) (hsd : SD l) (hw : WFl l) (hpos : ∀ x ∈ l, 0 < x.1) :
    validateExons l = true := by
  rw [validate_exons_iff]
  refine ⟨?_, fun x hx => ⟨hpos x hx, hw x hx⟩⟩
  induction l with
  | nil => exact List.Pairwise.nil
  | cons a t ih =>
    refine List.pairwise_cons.mpr ⟨?_, ih (SD_tail hsd) (WFl_tail hw) (fun x hx => hpos x (List.mem_cons_of_mem _ hx))⟩
    intro b hb
    have := SD_all_right hsd hw b hb
    have := WFl_head hw
    left; omega

/-- **printed_passes_gate** (every call history, any printer state): a transcript record is written only for a model
    whose exon list passed `validate_exons` and is non-empty (an empty list passes the gate and then aborts the call:
    `dump = none`); its coordinates are `(first exon start, last exon end)`, all exons satisfy `1 <= start <= end`
    and are sorted; and every exon record (kind 0) of the output belongs to such a model. -/
theorem printed_passes_gate (calls : List Call) (printed p' : List Id) (out : List Line)
    (h : runCalls printed calls = some (p', out)) :
    (∀ c s e st g t, Line.tx c s e st g t ∈ out →
      ∃ m, InHistory calls m ∧ m.tid = t ∧ m.gid = g ∧ m.chr = c ∧ m.strand = st ∧
        validateExons m.exons = true ∧
        (∃ f l, m.exons.head? = some f ∧ m.exons.getLast? = some l ∧ s = f.1 ∧ e = l.2) ∧
        m.exons.Pairwise ivLe ∧ ∀ x ∈ m.exons, 1 ≤ x.1 ∧ x.1 ≤ x.2) := by
  intro c s e st g t hl
  obtain ⟨m, hin, hreg, hc, hst, hg, ht⟩ := (transcript_records_are_gated_models calls printed p' out h c s e st g t).mp hl
  have hv : validateExons m.exons = true := by obtain ⟨_, _, _, hv⟩ := hin; exact hv
  have hgate := (validate_exons_iff m.exons).mp hv
  refine ⟨m, hin, ht, hg, hc, hst, hv, ?_, hgate.1, fun x hx => by have := hgate.2 x hx; omega⟩
  unfold regionOf? at hreg
  cases hf : m.exons.head? with
  | none => simp [hf] at hreg
  | some f =>
    cases hl' : m.exons.getLast? with
    | none => simp [hf, hl'] at hreg
    | some l =>
      simp only [hf, hl', Option.some.injEq, Prod.mk.injEq] at hreg
      exact ⟨f, l, rfl, rfl, hreg.1.symm, hreg.2.symm⟩

/-- **exon_records_are_model_exons**: the exon / feature records of a history are exactly the features of the gated
    models: nothing is added, nothing is dropped, coordinates are copied unchanged. -/
theorem exon_records_are_model_exons :
    ∀ (calls : List Call) (printed p' : List Id) (out : List Line), runCalls printed calls = some (p', out) →
    (∀ c k s e st g t num, Line.feat c k s e st g t num ∈ out →
      ∃ m, InHistory calls m ∧ c = m.chr ∧ st = m.strand ∧ g = m.gid ∧ t = m.tid ∧
        ((s, e, k) ∈ m.other ∨ (k = 0 ∧ (s, e) ∈ m.exons))) ∧
    (∀ m, InHistory calls m → ∀ x ∈ m.exons, ∃ num, Line.feat m.chr 0 x.1 x.2 m.strand m.gid m.tid num ∈ out) := by
  intro calls
  induction calls with
  | nil =>
    intro printed p' out h
    simp only [runCalls, Option.some.injEq, Prod.mk.injEq] at h
    simp [← h.2, InHistory]
  | cons cl cs ih =>
    intro printed p' out h
    simp only [runCalls] at h
    cases hd : dump printed cl.ctx cl.models with
    | none => simp [hd] at h
    | some r1 =>
      obtain ⟨p1, l1⟩ := r1
      simp only [hd] at h
      cases hr : runCalls p1 cs with
      | none => simp [hr] at h
      | some r2 =>
        obtain ⟨p2, l2⟩ := r2
        simp only [hr, Option.some.injEq, Prod.mk.injEq] at h
        obtain ⟨ih1, ih2⟩ := ih p1 p2 l2 hr
        rw [← h.2]
        constructor
        · intro c k s e st g t num hl
          rcases List.mem_append.mp hl with hl | hl
          · obtain ⟨m, hm, hv, hin⟩ := (dump_feat_line hd c k s e st g t num).mp hl
            obtain ⟨h1, h2, h3, h4, h5⟩ := mem_featLines m c k s e st g t num hin
            refine ⟨m, ⟨cl, by simp, hm, hv⟩, h1, h2, h3, h4, ?_⟩
            unfold featsOf at h5
            rcases List.mem_append.mp h5 with h5 | h5
            · exact Or.inl h5
            · simp only [List.mem_map, Prod.mk.injEq] at h5
              obtain ⟨x, hx, hx1, hx2, hx3⟩ := h5
              right
              refine ⟨hx3.symm, ?_⟩
              rw [← hx1, ← hx2]; exact hx
          · obtain ⟨m, ⟨cl', hcl', hm, hv⟩, hrest⟩ := ih1 c k s e st g t num hl
            exact ⟨m, ⟨cl', by simp [hcl'], hm, hv⟩, hrest⟩
        · rintro m ⟨cl', hcl', hm, hv⟩ x hx
          simp only [List.mem_cons] at hcl'
          rcases hcl' with he | hcl'
          · subst he
            have hf : (x.1, x.2, (0 : Int)) ∈ featsOf m := by
              unfold featsOf
              exact List.mem_append.mpr (Or.inr (List.mem_map.mpr ⟨x, hx, rfl⟩))
            obtain ⟨num, hn⟩ := featLines_complete m _ hf
            exact ⟨num, List.mem_append.mpr (Or.inl ((dump_feat_line hd _ _ _ _ _ _ _ _).mpr ⟨m, hm, hv, hn⟩))⟩
          · obtain ⟨num, hn⟩ := ih2 m ⟨cl', hcl', hm, hv⟩ x hx
            exact ⟨num, List.mem_append.mpr (Or.inr hn)⟩

/-- **exon_records_of_block**: the exon records written for one model are, up to order (reverse order on the
    minus strand), exactly its exon list -/
theorem exon_records_of_block (m : TModel) (ho : ∀ f ∈ m.other, f.2.2 ≠ 0) :
    (exonRecs (featLines m)).Perm m.exons := exonRecs_featLines_perm m ho

/-- **transcript_record_spans**: for a list that passed the gate, `first.start` is the minimum exon start (always);
    `last.end` is the maximum exon end when the exons do not overlap (`SD`), so the transcript record spans exactly
    its exons; both bounds are attained. -/
theorem transcript_record_spans (l : List Iv) (f t : Iv) (hv : validateExons l = true)
    (hf : l.head? = some f) (ht : l.getLast? = some t) :
    f ∈ l ∧ t ∈ l ∧ (∀ x ∈ l, f.1 ≤ x.1) ∧ (SD l → ∀ x ∈ l, x.2 ≤ t.2) := by
  have hgate := (validate_exons_iff l).mp hv
  have hfm : f ∈ l := by
    obtain ⟨ys, hys⟩ := List.head?_eq_some_iff.mp hf
    rw [hys]; simp
  refine ⟨hfm, List.mem_of_getLast? ht, ?_, ?_⟩
  · obtain ⟨ys, hys⟩ := List.head?_eq_some_iff.mp hf
    subst hys
    intro x hx
    rcases List.mem_cons.mp hx with hx | hx
    · rw [hx]; exact Int.le_refl _
    · have := (List.pairwise_cons.mp hgate.1).1 x hx
      unfold ivLe at this; omega
  · intro hsd x hx
    obtain ⟨ys, hys⟩ := List.getLast?_eq_some_iff.mp ht
    subst hys
    have hw : WFl (ys ++ [t]) := fun r hr => (hgate.2 r hr).2
    clear hgate hv hf hfm ht
    induction ys with
    | nil => simp at hx; rw [hx]; exact Int.le_refl _
    | cons a ys ih =>
      rcases List.mem_cons.mp hx with hx | hx
      · have := SD_all_right hsd hw t (by simp)
        have := WFl_head hw
        have hwt : t.1 ≤ t.2 := hw t (by simp)
        rw [hx]; omega
      · exact ih (SD_tail hsd) hx (WFl_tail hw)

/-- **gate_overlap_witness**: the gate does not check overlap: a nested pair passes, and then the transcript record's
    end (`last.end` = 5) is not the maximum exon end (10).  Non-overlap of printed exons therefore rests on the
    constructors (`get_exons_wellformed`, `end_correction_preserves_wf`, `reference_verbatim`) and on the monitored
    assumption interface of the intron graph. -/
theorem gate_overlap_witness :
    validateExons [(1, 10), (2, 5)] = true ∧ ¬ SD [(1, 10), (2, 5)] ∧
    (dump [] { chr := 0 } [{ chr := 0, strand := 0, tid := 1, gid := 1, exons := [(1, 10), (2, 5)], known := false }]).map (·.2)
      = some [Line.gene 0 1 5 0 1 1, Line.tx 0 1 5 0 1 1, Line.feat 0 0 1 10 0 1 1 1, Line.feat 0 0 2 5 0 1 1 2] := by
  refine ⟨by decide, by decide, by decide⟩

/-- **gate_plus_disjoint_is_SD**: a list that passed the gate and whose exons share no position pairwise is sorted,
    pairwise disjoint (`SD`: each exon ends strictly before the next starts), well-formed and 1-based. -/
theorem gate_plus_disjoint_is_SD (l : List Iv) (hv : validateExons l = true)
    (hdis : l.Pairwise (fun a b => ¬ (max a.1 b.1 ≤ min a.2 b.2))) :
    SD l ∧ WFl l ∧ ∀ x ∈ l, 1 ≤ x.1 := by
  have hgate := (validate_exons_iff l).mp hv
  refine ⟨?_, fun x hx => (hgate.2 x hx).2, fun x hx => by have := (hgate.2 x hx).1; omega⟩
  obtain ⟨hs, hw⟩ := hgate
  clear hv
  induction l with
  | nil => trivial
  | cons a t ih =>
    have hs' := List.pairwise_cons.mp hs
    have hd' := List.pairwise_cons.mp hdis
    have iht := ih hd'.2 hs'.2 (fun x hx => hw x (List.mem_cons_of_mem _ hx))
    cases t with
    | nil => trivial
    | cons b t' =>
      refine ⟨?_, iht⟩
      have h1 := hs'.1 b (by simp)
      have h2 := hd'.1 b (by simp)
      have h3 := hw a (by simp)
      have h4 := hw b (by simp)
      unfold ivLe at h1
      omega

-- non-vacuity: a three-exon list passes the gate, is SD, and the record spans it
example : validateExons [(3, 5), (8, 9), (12, 20)] = true ∧ SD [(3, 5), (8, 9), (12, 20)] ∧
    [(3, 5), (8, 9), (12, 20)].head? = some ((3, 5) : Iv) ∧ [(3, 5), (8, 9), (12, 20)].getLast? = some ((12, 20) : Iv) := by
  decide

/-- the empty exon list passes `validate_exons` and aborts the call (IndexError in the code) -/
theorem empty_exons_abort (printed : List Id) (ctx : GeneCtx) (m : TModel) (h : m.exons = []) :
    validateExons m.exons = true ∧ dump printed ctx [m] = none := by
  rw [h]
  refine ⟨by decide, ?_⟩
  simp [dump, phase1, phase1Step, h, validateExons, isortBy]

end IsoVerif.Props.C03
