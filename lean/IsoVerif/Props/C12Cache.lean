/-
C12 (cache clause) — a cached database is used only if key, both mtimes and the `complete` flag match; and over
every history of file writes, removals and conversions the database handed to the pipeline holds exactly what a fresh
conversion of the GTF's current content would produce (cached = fresh), provided the file system is mtime-faithful
(every write stamps a fresh mtime - the model's clock).
-/
import IsoVerif.Model.GtfCache
import IsoVerif.Lemmas.GtfCache

namespace IsoVerif.Props.C12Cache
open IsoVerif.Model.C12 IsoVerif.Lemmas.C12

/-- `find_converted_db` returns a database only if the cache holds an entry for exactly this GTF path whose stored
    database is the returned one, the GTF and the database exist with exactly the stored mtimes, and the stored
    `complete_db` flag equals the requested one — and in that case it does return it -/
theorem lookup_sound (c : Cache) (mt : String → Option Int) (gtf : String) (complete : Bool) (db : String) :
    findConvertedDb c mt gtf complete = .hit db ↔
      ∃ e mg md, c.get gtf = some e ∧ e.genedb = some db ∧ mt gtf = some mg ∧ e.gtfMtime = some mg ∧
        mt db = some md ∧ e.dbMtime = some md ∧ e.complete = some complete := by
  constructor
  · intro h
    unfold findConvertedDb at h
    cases hc : c.get gtf with
    | none =>
      simp only [hc, Option.bind_none] at h
      cases hg : mt gtf <;> simp [hg] at h
    | some e =>
      simp only [hc, Option.bind_some] at h
      cases hg : mt gtf with
      | none => simp [hg] at h
      | some mg =>
        simp only [hg] at h
        split at h
        · cases h
        · rename_i h1
          split at h
          · cases h
          · rename_i d hd
            split at h
            · cases h
            · rename_i md hmd
              split at h
              · cases h
              · rename_i h2
                split at h
                · cases h
                · rename_i h3
                  cases h
                  refine ⟨e, mg, md, rfl, hd, rfl, ?_, hmd, ?_, ?_⟩
                  · exact (Decidable.not_not.mp h1).symm
                  · exact (Decidable.not_not.mp h2).symm
                  · exact (Decidable.not_not.mp h3).symm
  · rintro ⟨e, mg, md, hc, hd, hg, h1, hmd, h2, h3⟩
    unfold findConvertedDb
    simp [hc, hg, h1, hd, hmd, h2, h3]

example : findConvertedDb [("a.gtf", ⟨some "o/a.db", some 5, some 7, some true⟩)]
      (fun p => if p = "a.gtf" then some 5 else if p = "o/a.db" then some 7 else none) "a.gtf" true = .hit "o/a.db" ∧
    findConvertedDb [("a.gtf", ⟨some "o/a.db", some 5, some 7, some true⟩)]
      (fun p => if p = "a.gtf" then some 5 else if p = "o/a.db" then some 7 else none) "a.gtf" false = .miss := by
  decide

/-- `compare_stored_gtf` (database → GTF direction) answers yes only if both files exist with the mtimes stored
    under that GTF key.  (It does not look at the stored `genedb` path: see docs/C12.md, observation O1.) -/
theorem compare_sound (c : Cache) (mt : String → Option Int) (gtf db : String) :
    compareStoredGtf c mt gtf db = true ↔
      ∃ e mg md, c.get gtf = some e ∧ mt gtf = some mg ∧ e.gtfMtime = some mg ∧ mt db = some md ∧ e.dbMtime = some md := by
  constructor
  · intro h
    unfold compareStoredGtf at h
    cases hc : c.get gtf with
    | none =>
      simp only [hc, Option.bind_none] at h
      cases hg : mt gtf <;> simp [hg] at h
    | some e =>
      simp only [hc, Option.bind_some] at h
      cases hg : mt gtf with
      | none => simp [hg] at h
      | some mg =>
        simp only [hg] at h
        split at h
        · cases h
        · rename_i h1
          cases hd : mt db with
          | none => simp [hd] at h
          | some md =>
            simp only [hd, decide_eq_true_eq] at h
            exact ⟨e, mg, md, rfl, rfl, (Decidable.not_not.mp h1).symm, rfl, h.symm⟩
  · rintro ⟨e, mg, md, hc, hg, h1, hd, h2⟩
    unfold compareStoredGtf
    simp [hc, hg, h1, hd, h2]

/-! ### histories -/

/-- a conversion never writes the database over its own input (IsoQuant derives `<output>/<name>.db` from a
    path that does not end in `db`) -/
def ValidOp : Op → Prop
  | .convert g d _ _ => g ≠ d
  | _ => True

def emptyWorld : World := { fs := [], cache := [], clock := 0 }

/-- the invariant `Inv` (Lemmas/GtfCache.lean: files and remembered mtimes are older than the clock; an entry whose
    two files still carry the remembered mtimes points to the conversion of the GTF's current content with the
    remembered flag) holds after every history -/
theorem cache_coherent_all_histories (conv : Nat → Bool → Nat) (ops : List Op) (hv : ∀ o ∈ ops, ValidOp o) :
    Inv conv (runOps conv emptyWorld ops) := by
  have h0 : Inv conv emptyWorld := by
    refine ⟨?_, ?_, ?_⟩ <;> intros <;> simp_all [emptyWorld, Cache.get]
  have step : ∀ (w : World) (o : Op), ValidOp o → Inv conv w → Inv conv (applyOp conv w o) := by
    intro w o hvo hw
    cases o with
    | write p d => exact inv_write conv w p d hw
    | remove p => exact inv_remove conv w p hw
    | convert g d c cl =>
      simp only [applyOp]
      rcases convert_cases conv w g d c cl with ⟨d', h, _, _⟩ | ⟨gf, hg, h⟩ | h | h
      · rw [h]; exact hw
      · rw [h]; exact inv_converted conv w g d c gf hvo hg hw
      · rw [h]; exact hw
      · rw [h]; exact hw
  unfold runOps
  generalize emptyWorld = w at h0
  induction ops generalizing w with
  | nil => exact h0
  | cons o t ih =>
    simp only [List.foldl_cons]
    exact ih (fun o' ho' => hv o' (List.mem_cons_of_mem _ ho')) _ (step w o (hv o List.mem_cons_self) h0)

/-- **cached = fresh.**  After any history, whatever `convert_db` returns for `(gtf, complete)` — a cached database
    or a new one — holds exactly the conversion of the GTF's current content with the requested flag. -/
theorem cached_equals_fresh (conv : Nat → Bool → Nat) (ops : List Op) (hv : ∀ o ∈ ops, ValidOp o)
    (gtf db : String) (complete clean : Bool) (hne : gtf ≠ db) (w' : World) (g d : String)
    (h : convertGtf2Db conv (runOps conv emptyWorld ops) gtf db complete clean = .ok w' g d) :
    g = gtf ∧ ∃ fg fd, List.lookup gtf w'.fs = some fg ∧ List.lookup d w'.fs = some fd ∧
      fd.data = conv fg.data complete := by
  have hinv := cache_coherent_all_histories conv ops hv
  generalize runOps conv emptyWorld ops = w at h hinv
  rcases convert_cases conv w gtf db complete clean with ⟨d', h', _, hf⟩ | ⟨gf, hg, h'⟩ | h' | h'
  · rw [h'] at h; cases h
    obtain ⟨e, mg, md, hc, hdb, hmg, h1, hmd, h2, h3⟩ := (lookup_sound _ _ _ _ _).mp hf
    simp only [FS.mtime, Option.map_eq_some_iff] at hmg hmd
    obtain ⟨fg, hfg, rfl⟩ := hmg
    obtain ⟨fd, hfd, rfl⟩ := hmd
    exact ⟨rfl, fg, fd, hfg, hfd, hinv.coherent gtf e d complete fg fd hc hdb h3 hfg hfd h1 h2⟩
  · rw [h'] at h; cases h
    refine ⟨rfl, gf, ⟨w.clock, conv gf.data complete⟩, ?_, ?_, rfl⟩
    · simp only [converted]; rw [lookup_cons_eq]; simp [hne, hg]
    · simp only [converted]; rw [lookup_cons_eq]; simp
  · rw [h'] at h; cases h
  · rw [h'] at h; cases h

/-- the cache is effective: right after a conversion the same request is served from the cache -/
theorem stored_then_found (conv : Nat → Bool → Nat) (w : World) (gtf db : String) (complete : Bool) (g : File)
    (hne : gtf ≠ db) (hg : List.lookup gtf w.fs = some g) :
    findConvertedDb (converted conv w gtf db complete g).cache (converted conv w gtf db complete g).fs.mtime
      gtf complete = .hit db := by
  have hmg : FS.mtime ((db, ({ mtime := w.clock, data := conv g.data complete } : File)) :: w.fs) gtf = some g.mtime := by
    simp only [FS.mtime]; rw [lookup_cons_eq]; simp [hne, hg]
  have hmd : FS.mtime ((db, ({ mtime := w.clock, data := conv g.data complete } : File)) :: w.fs) db = some w.clock := by
    simp only [FS.mtime]; rw [lookup_cons_eq]; simp
  rw [lookup_sound]
  refine ⟨{ genedb := some db, gtfMtime := some g.mtime, dbMtime := some w.clock, complete := some complete },
    g.mtime, w.clock, ?_, rfl, ?_, rfl, ?_, rfl, rfl⟩
  · simp only [converted]; rw [get_set, hmg, hmd]; simp
  · simp only [converted]; exact hmg
  · simp only [converted]; exact hmd

/-- a history in which the second request is a cache hit, the third (other flag) and the fourth (GTF rewritten)
    are not, and every returned database is the fresh conversion -/
example :
    let conv : Nat → Bool → Nat := fun g c => 2 * g + (if c then 1 else 0)
    let w1 := runOps conv emptyWorld [.write "a.gtf" 4, .convert "a.gtf" "o/a.db" true false]
    (∀ o ∈ [Op.write "a.gtf" 4, .convert "a.gtf" "o/a.db" true false], ValidOp o) ∧
    findConvertedDb w1.cache w1.fs.mtime "a.gtf" true = .hit "o/a.db" ∧
    findConvertedDb w1.cache w1.fs.mtime "a.gtf" false = .miss ∧
    findConvertedDb (applyOp conv w1 (.write "a.gtf" 5)).cache (applyOp conv w1 (.write "a.gtf" 5)).fs.mtime "a.gtf" true = .miss := by
  refine ⟨?_, by decide, by decide, by decide⟩
  intro o ho
  simp only [List.mem_cons, List.mem_nil_iff, or_false] at ho
  rcases ho with rfl | rfl <;> simp [ValidOp]

end IsoVerif.Props.C12Cache
