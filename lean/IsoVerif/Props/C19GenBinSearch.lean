/-
C19 — `interval_bin_search`, `interval_bin_search_rev` as REGENERATED FROM THE SOURCE on every run (`Gen/Loops.lean`, written by `harness/translate.py`).
Part 1: refinement `Gen.f args = Model.f args` for ALL inputs (no sortedness / well-formedness; error cases included; the
emitted fuel bounds suffice).  Part 2: the C19 theorems about the hand model restated over the generated definitions.
An edit of the Python loop re-generates `Gen.f` and re-opens these proofs.  Overview: Props/C19Gen.lean.
-/
import IsoVerif.Props.C19Lists
import IsoVerif.Props.C19Compose
import IsoVerif.Lemmas.GenBinSearch

namespace IsoVerif.Props.C19Gen
open IsoVerif.Gen IsoVerif.Model IsoVerif.Lemmas

/-! ## Part 1 — refinement: generated definition = hand model, for all inputs -/

/-- `interval_bin_search`: the generated loop follows Python (short-circuit chained comparison, a negative index would
    wrap), the hand model reads both neighbours eagerly and flags a negative index — they are EQUAL on every input,
    sorted or not, because the index provably stays in `[0, len-2]` (invariant `rem step ≤ ind ∧ ind + rem step + 2 ≤ len`,
    which needs only the three early exits); same fuel `2·len + 2` on both sides -/
theorem interval_bin_search_refines (l : List Iv) (pos : Int) :
    Gen.interval_bin_search l pos = intervalBinSearch l pos :=
  GenLoops.interval_bin_search_eq l pos

/-- `interval_bin_search_rev` (index stays in `[0, len-1]`; the `l[-1]` wrap at index 0 is the same on both sides) -/
theorem interval_bin_search_rev_refines (l : List Iv) (pos : Int) :
    Gen.interval_bin_search_rev l pos = intervalBinSearchRev l pos :=
  GenLoops.interval_bin_search_rev_eq l pos

/-- the emitted fuel bound is the one given in the translator's signature table (the hand model's `2·len + 2`) -/
theorem fuel_bounds_bin_search (l : List Iv) (p : Int) :
    interval_bin_search.fuel3 l p = 2 * l.length + 2 ∧ interval_bin_search_rev.fuel3 l p = 2 * l.length + 2 := ⟨rfl, rfl⟩

/-! ## Part 2 — theorems over the generated definitions -/

/-- binary search: for strictly increasing starts a position in `[l[t].1, l[t+1].1)` is found at index `t`: the
    generated loop terminates within the emitted fuel `2·len + 2` and raises no IndexError -/
theorem bin_search_spec (l : List Iv) (pos : Int) (hinc : StrictInc (l.map (·.1))) (hw : WFl l)
    (f tl : Iv) (hf : l.head? = some f) (ht : l.getLast? = some tl)
    (t : Nat) (a b : Iv) (hta : l[t]? = some a) (htb : l[t + 1]? = some b)
    (hpa : a.1 ≤ pos) (hpb : pos < b.1) (hin : pos ≤ tl.2) :
    Gen.interval_bin_search l pos = some (t : Int) := by
  rw [interval_bin_search_refines]
  exact C19Lists.bin_search_spec l pos hinc hw f tl hf ht t a b hta htb hpa hpb hin

theorem bin_search_rev_spec (l : List Iv) (pos : Int) (hinc : StrictInc (l.map (fun r => r.2 + 1)))
    (f tl : Iv) (hf : l.head? = some f) (ht : l.getLast? = some tl)
    (t : Nat) (a b : Iv) (hta : l[t]? = some a) (htb : l[t + 1]? = some b)
    (hpa : a.2 < pos) (hpb : pos ≤ b.2) (hin : f.1 ≤ pos) :
    Gen.interval_bin_search_rev l pos = some ((t : Int) + 1) := by
  rw [interval_bin_search_rev_refines]
  exact C19Lists.bin_search_rev_spec l pos hinc f tl hf ht t a b hta htb hpa hpb hin

example : StrictInc ([((1 : Int), (5 : Int)), (10, 12), (20, 30), (40, 41), (50, 60)].map (·.1)) ∧
    Gen.interval_bin_search [(1, 5), (10, 12), (20, 30), (40, 41), (50, 60)] 11 = some 1 ∧
    Gen.interval_bin_search_rev [(1, 5), (10, 12), (20, 30), (40, 41), (50, 60)] 35 = some 3 := by
  refine ⟨by simp [StrictInc], by decide +kernel, by decide +kernel⟩

/-- the composition the pipeline runs (`NonOverlappingFeaturesProfileConstructor` searches the split exons of the gene),
    over the GENERATED loops: on the split exons of a non-empty, well-formed exon list both searches return an index for
    EVERY position — no IndexError, no unnoticed negative index, the emitted fuel suffices -/
theorem searches_total_on_split_exons (exons : List Iv) (hne : exons ≠ []) (w : WFl exons)
    (hpos : ∀ e ∈ exons, 0 ≤ e.1) (pos : Int) :
    ∃ blocks i j, splitExons exons = some blocks ∧ Gen.interval_bin_search blocks pos = some i ∧
      Gen.interval_bin_search_rev blocks pos = some j := by
  obtain ⟨blocks, i, hb, hi⟩ := C19Compose.bin_search_on_split_exons_total exons hne w hpos pos
  obtain ⟨blocks', j, hb', hj⟩ := C19Compose.bin_search_rev_on_split_exons_total exons hne w hpos pos
  rw [hb] at hb'; cases hb'
  exact ⟨blocks, i, j, hb, by rw [interval_bin_search_refines]; exact hi, by rw [interval_bin_search_rev_refines]; exact hj⟩

example : ([(100, 200), (150, 300), (400, 500)] : List Iv) ≠ [] ∧ WFl [(100, 200), (150, 300), (400, 500)] ∧
    (∀ e ∈ ([(100, 200), (150, 300), (400, 500)] : List Iv), 0 ≤ e.1) := by
  refine ⟨by decide, by decide, by decide⟩

end IsoVerif.Props.C19Gen
