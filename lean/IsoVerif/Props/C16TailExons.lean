/-
C16 (part 11) — which exons `PolyAFixer` / `AlignmentInfo.add_polya_info` remove, in terms of the finder's
specification (src/polya_verification.py `count_polya_exons`, `count_polyt_exons`, `correct_read_info`;
src/alignment_info.py `add_polya_info`; src/polya_finder.py).

* `polya_counted_iff` / `polyt_counted_iff`: the per-exon test, in plain arithmetic: an exon "consists of the tail"
  when it ends after the internal polyA position `x` and either starts at or after `x` or has at most
  `max_fake_terminal_exon_len` bases before `x` and more than twice as many after (mirror for polyT);
* `count_polya_exons_spec` / `count_polyt_exons_spec`: on a sorted disjoint exon list the loop counts exactly the
  exons with that test, and these are the LAST (FIRST) exons of the list — no recursion on the right-hand side;
* `trimmed_exons_are_tail_exons`: for every sorted exon list and every position quadruple, every exon removed by
  `add_polya_info` passes the test of its side (soundness: an exon is removed ONLY IF the internal position lies
  before its end / after its start as stated), and when the two sides do not compete for the exons every exon
  passing the test is removed (completeness);
* `record_removed_exons_are_tail`: the same for one alignment record with the positions coming from the modelled
  finder: a removed exon implies that the internal finder's specification `TailStart` holds on the scanned region and
  the position is the projection `find_polya_tail_char` describes.
Never all exons / positions moved onto the retained exon: `trim_nonempty_sorted`, `tail_moved_onto_retained`,
`record_tail_on_retained_exon` (Props/C16PolyA.lean, Props/C16TailRecord.lean) — reused, not restated.
-/
import IsoVerif.Lemmas.TailExons
import IsoVerif.Props.C16TailRecord
import IsoVerif.Props.C16FinderChar

namespace IsoVerif.Props.C16TailExons
open IsoVerif.Gen IsoVerif.Model IsoVerif.Model.C16 IsoVerif.Lemmas.C16

/-- **polya_counted_iff** — the test `count_polya_exons` applies to one exon `e` for the internal polyA position `x`
    (1-based coordinate of the base before the tail): `e` ends after `x`, and either `e` starts at or after `x` (it lies
    wholly beyond the tail start) or at most `max_fake` bases of `e` precede `x` and more than twice as many follow -/
theorem polya_counted_iff (mf x : Int) (e : Iv) :
    polyaCounted mf x e = true ↔ x < e.2 ∧ (x ≤ e.1 ∨ (x - e.1 ≤ mf ∧ 2 * (x - e.1) < e.2 - x)) := by
  simp only [polyaCounted, isPolyaExon, Bool.and_eq_true, Bool.or_eq_true, decide_eq_true_eq]
  constructor
  · rintro ⟨h1, h2 | ⟨h2, h3⟩⟩
    · exact ⟨by omega, Or.inl (by omega)⟩
    · exact ⟨by omega, Or.inr ⟨h2, by omega⟩⟩
  · rintro ⟨h1, h2 | ⟨h2, h3⟩⟩
    · exact ⟨by omega, Or.inl (by omega)⟩
    · exact ⟨by omega, Or.inr ⟨h2, by omega⟩⟩

/-- **polyt_counted_iff** — mirror image for the internal polyT position `x` (0-based coordinate of the last head base) -/
theorem polyt_counted_iff (mf x : Int) (e : Iv) :
    polytCounted mf x e = true ↔ e.1 < x ∧ (e.2 ≤ x ∨ (e.2 - x ≤ mf ∧ 2 * (e.2 - x) < x - e.1)) := by
  simp only [polytCounted, isPolytExon, Bool.and_eq_true, Bool.or_eq_true, decide_eq_true_eq]
  constructor
  · rintro ⟨h1, h2 | ⟨h2, h3⟩⟩
    · exact ⟨by omega, Or.inl (by omega)⟩
    · exact ⟨by omega, Or.inr ⟨h2, by omega⟩⟩
  · rintro ⟨h1, h2 | ⟨h2, h3⟩⟩
    · exact ⟨by omega, Or.inl (by omega)⟩
    · exact ⟨by omega, Or.inr ⟨h2, by omega⟩⟩

/-- **count_polya_exons_spec** — for every sorted disjoint exon list and every position `x ≠ −1`:
    `count_polya_exons` = the number of exons that pass the per-exon test, and an exon passes the test iff it is one of
    the last `count` exons of the list -/
theorem count_polya_exons_spec (mf : Int) (exons : List Iv) (x : Int) (hsd : SD exons) (hx : x ≠ -1) :
    countPolyaExons mf exons x = (exons.countP (polyaCounted mf x) : Nat) ∧
    ∀ e ∈ exons, polyaCounted mf x e = true ↔ e ∈ exons.drop (exons.length - exons.countP (polyaCounted mf x)) := by
  have hcount : countPolyaExons mf exons x = (exons.countP (polyaCounted mf x) : Nat) := by
    unfold countPolyaExons
    rw [if_neg hx, countPolyaLoop_eq_countP mf x _ 0 hsd.desc_reverse, List.countP_reverse]
    simp
  have hall : ∀ e ∈ exons.drop (exons.length - exons.countP (polyaCounted mf x)), polyaCounted mf x e = true := by
    intro e he
    apply counted_take_polya mf x exons.reverse 0 (exons.countP (polyaCounted mf x)) hsd.desc_reverse
    · have := hcount; unfold countPolyaExons at this; rw [if_neg hx] at this; rw [this]; simp
    · rw [List.take_reverse, List.mem_reverse]; exact he
  refine ⟨hcount, fun e he => ⟨fun hp => ?_, fun hd => hall e hd⟩⟩
  exact mem_drop_of_countP _ exons _ List.countP_le_length hall rfl e he hp

/-- **count_polyt_exons_spec** — mirror image: the counted exons are the first `count` exons of the list -/
theorem count_polyt_exons_spec (mf : Int) (exons : List Iv) (x : Int) (hsd : SD exons) (hx : x ≠ -1) :
    countPolytExons mf exons x = (exons.countP (polytCounted mf x) : Nat) ∧
    ∀ e ∈ exons, polytCounted mf x e = true ↔ e ∈ exons.take (exons.countP (polytCounted mf x)) := by
  have hcount : countPolytExons mf exons x = (exons.countP (polytCounted mf x) : Nat) := by
    unfold countPolytExons
    rw [if_neg hx, countPolytLoop_eq_countP mf x _ 0 hsd]
    simp
  have hall : ∀ e ∈ exons.take (exons.countP (polytCounted mf x)), polytCounted mf x e = true := by
    intro e he
    apply counted_take_polyt mf x exons 0 (exons.countP (polytCounted mf x)) hsd
    · have := hcount; unfold countPolytExons at this; rw [if_neg hx] at this; rw [this]; simp
    · exact he
  refine ⟨hcount, fun e he => ⟨fun hp => ?_, fun hd => hall e hd⟩⟩
  exact mem_take_of_countP _ exons _ hall List.countP_le_length rfl e he hp

/-- non-vacuity: three exons, internal polyA at 302 (two bases into the second exon): the last two are counted -/
example : countPolyaExons 40 [(100, 200), (300, 310), (400, 420)] 302 = 2 ∧
    ([(100, 200), (300, 310), (400, 420)] : List Iv).countP (polyaCounted 40 302) = 2 := by decide

/-- **trimmed_exons_are_tail_exons** — for every sorted disjoint non-empty exon list, every position quadruple and
    every `max_fake_terminal_exon_len`: `add_polya_info` keeps `exons[t : len − a]`, and
    * (only if) every exon removed at the 3' end passes the polyA test for the internal polyA position, which is then
      present (≠ −1); every exon removed at the 5' end passes the polyT test for the internal polyT position;
    * (if) when the two counts leave at least one exon (`count_A + count_T < len`, no competition), every exon that
      passes a test is removed on that side. -/
theorem trimmed_exons_are_tail_exons (mf : Int) (exons rb cb : List Iv) (info : PolyAInfo) (hsd : SD exons)
    (hne : exons ≠ []) :
    ∃ (r : AInfo) (a t : Int), addPolyaInfo mf exons rb cb info = some r ∧
      correctReadInfo mf exons info = some (a, t) ∧ a.toNat + t.toNat < exons.length ∧
      r.exons = (exons.take (exons.length - a.toNat)).drop t.toNat ∧
      (∀ e ∈ exons.drop (exons.length - a.toNat),
        info.internalPolyA ≠ -1 ∧ polyaCounted mf info.internalPolyA e = true) ∧
      (∀ e ∈ exons.take t.toNat, info.internalPolyT ≠ -1 ∧ polytCounted mf info.internalPolyT e = true) ∧
      (countPolyaExons mf exons info.internalPolyA + countPolytExons mf exons info.internalPolyT < exons.length →
        (∀ e ∈ exons, info.internalPolyA ≠ -1 → polyaCounted mf info.internalPolyA e = true →
          e ∈ exons.drop (exons.length - a.toNat)) ∧
        (∀ e ∈ exons, info.internalPolyT ≠ -1 → polytCounted mf info.internalPolyT e = true →
          e ∈ exons.take t.toNat)) := by
  obtain ⟨a, t, st0, st1, st2, r, hcri, hlt, _, _, _, _, _, _, hr, _, hre, _⟩ :=
    addPolyaInfo_spec mf exons rb cb info hne
  obtain ⟨a', t', hcri', _, hale, htle, heq⟩ := correctReadInfo_spec mf exons info hne
  rw [hcri] at hcri'
  obtain ⟨rfl, rfl⟩ := Prod.mk.inj (Option.some.inj hcri')
  refine ⟨r, a, t, hr, hcri, hlt, hre, ?_, ?_, ?_⟩
  · intro e he
    have ha0 : 0 < a.toNat := by
      by_cases h0 : 0 < a.toNat
      · exact h0
      · have : a.toNat = 0 := by omega
        rw [this, Nat.sub_zero, List.drop_length] at he; cases he
    have hx : info.internalPolyA ≠ -1 := by
      intro hx; simp [countPolyaExons, hx] at hale; omega
    refine ⟨hx, ?_⟩
    apply counted_take_polya mf info.internalPolyA exons.reverse 0 a.toNat hsd.desc_reverse
    · unfold countPolyaExons at hale; rw [if_neg hx] at hale; omega
    · rw [List.take_reverse, List.mem_reverse]; exact he
  · intro e he
    have ht0 : 0 < t.toNat := by
      by_cases h0 : 0 < t.toNat
      · exact h0
      · have : t.toNat = 0 := by omega
        rw [this, List.take_zero] at he; cases he
    have hx : info.internalPolyT ≠ -1 := by
      intro hx; simp [countPolytExons, hx] at htle; omega
    refine ⟨hx, ?_⟩
    apply counted_take_polyt mf info.internalPolyT exons 0 t.toNat hsd
    · unfold countPolytExons at htle; rw [if_neg hx] at htle; omega
    · exact he
  · intro hfree
    obtain ⟨ha, ht⟩ := heq hfree
    constructor
    · intro e he hx hp
      obtain ⟨h1, h2⟩ := count_polya_exons_spec mf exons _ hsd hx
      have : a.toNat = exons.countP (polyaCounted mf info.internalPolyA) := by omega
      rw [this]
      exact (h2 e he).1 hp
    · intro e he hx hp
      obtain ⟨h1, h2⟩ := count_polyt_exons_spec mf exons _ hsd hx
      have : t.toNat = exons.countP (polytCounted mf info.internalPolyT) := by omega
      rw [this]
      exact (h2 e he).1 hp

/-- non-vacuity: the example of `tail_moved_onto_retained` — both fake exons pass the test and are removed -/
example : SD [(100, 200), (300, 310), (400, 420)] ∧
    correctReadInfo 40 [(100, 200), (300, 310), (400, 420)] ⟨425, -1, 302, -1⟩ = some (2, 0) ∧
    polyaCounted 40 302 (300, 310) = true ∧ polyaCounted 40 302 (400, 420) = true ∧
    polyaCounted 40 302 (100, 200) = false := by
  refine ⟨⟨?_, ?_⟩, by decide, by decide, by decide, by decide⟩
  · intro e he; simp at he; rcases he with h | h | h <;> subst h <;> decide
  · simp

/-- **tail_offset_bounded** — the offset `d` of `tail_on_retained_exon` (Props/C16PolyA.lean): the recorded internal
    position lies `d = max 0 (internal − start of the first removed exon)` past the end of the retained exon; the first
    removed exon passes the polyA test, so `d ≤ max 0 max_fake_terminal_exon_len` and `2·d` is less than the number of
    bases of that exon after the position (fewer than a third of the exon lies before the tail).  Mirror at the 5' end. -/
theorem tail_offset_bounded (mf : Int) (exons rb cb : List Iv) (info : PolyAInfo) (hsd : SD exons)
    (hne : exons ≠ []) :
    ∃ (r : AInfo) (a t : Int), addPolyaInfo mf exons rb cb info = some r ∧
      correctReadInfo mf exons info = some (a, t) ∧
      (0 < a → ∃ firstRemoved : Iv, exons[exons.length - a.toNat]? = some firstRemoved ∧
        max 0 (info.internalPolyA - firstRemoved.1) ≤ max 0 mf ∧
        2 * max 0 (info.internalPolyA - firstRemoved.1) < firstRemoved.2 - info.internalPolyA) ∧
      (0 < t → ∃ lastRemoved : Iv, exons[t.toNat - 1]? = some lastRemoved ∧
        max 0 (lastRemoved.2 - info.internalPolyT) ≤ max 0 mf ∧
        2 * max 0 (lastRemoved.2 - info.internalPolyT) < info.internalPolyT - lastRemoved.1) := by
  obtain ⟨r, a, t, hr, hcri, hlt, _, hA, hT, _⟩ := trimmed_exons_are_tail_exons mf exons rb cb info hsd hne
  refine ⟨r, a, t, hr, hcri, ?_, ?_⟩
  · intro h
    have hm : exons.length - a.toNat < exons.length := by omega
    have hmem : exons[exons.length - a.toNat] ∈ exons.drop (exons.length - a.toNat) := by
      rw [List.drop_eq_getElem_cons hm]; exact List.mem_cons_self
    obtain ⟨_, hc⟩ := hA _ hmem
    refine ⟨exons[exons.length - a.toNat], by simp [hm], ?_⟩
    simp only [polyaCounted, isPolyaExon, Bool.and_eq_true, Bool.or_eq_true, decide_eq_true_eq] at hc
    omega
  · intro h
    have hm : t.toNat - 1 < exons.length := by omega
    have hmem : exons[t.toNat - 1] ∈ exons.take t.toNat :=
      List.mem_take_iff_getElem.2 ⟨t.toNat - 1, by omega, rfl⟩
    obtain ⟨_, hc⟩ := hT _ hmem
    refine ⟨exons[t.toNat - 1], by simp [hm], ?_⟩
    simp only [polytCounted, isPolytExon, Bool.and_eq_true, Bool.or_eq_true, decide_eq_true_eq] at hc
    omega

example : SD [(100, 200), (300, 310), (400, 420)] ∧
    correctReadInfo 40 [(100, 200), (300, 310), (400, 420)] ⟨425, -1, 302, -1⟩ = some (2, 0) := by
  refine ⟨⟨?_, ?_⟩, by decide⟩
  · intro e he; simp at he; rcases he with h | h | h <;> subst h <;> decide
  · simp

/-- **record_removed_exons_are_tail** — one alignment record (`reference_start ≥ 0`, SAM-valid CIGAR over all nine kinds,
    any sequence, any window), tail positions from the modelled finder, at least one exon: `add_polya_info` returns
    the exons `exons[t : len − a]`, and for every exon `e` removed at the 3' end
    * the internal finder found a tail: its specification `TailStart` holds at some position `p` of the region it scans
      (the last `4·window` bases before the soft clip and the first 3 clipped bases, entire-tail test on), the call
      returned the recorded internal position `x ≠ −1` (so `x` is what `find_polya_tail_char` says: the 1-based
      reference coordinate of the base before the tail, projected base by base), and
    * `e` passes the polyA test for `x`: `x < e.end` and (`x ≤ e.start` or `x − e.start ≤ max_fake` and
      `2·(x − e.start) < e.end − x`);
    mirror statement for every exon removed at the 5' end with the internal polyT position. -/
theorem record_removed_exons_are_tail (w num den : Nat) (s : Int) (ops : List CigarOp)
    (seq : List Char) (mf : Int) (info : PolyAInfo) (hs : 0 ≤ s) (hp : Pos ops)
    (hdet : detectPolya w num den s ops seq = some info)
    (hne : (getReadBlocks s ops).refBlocks ≠ []) :
    ∃ (r : AInfo) (a t : Int),
      addPolyaInfo mf (getReadBlocks s ops).refBlocks (getReadBlocks s ops).readBlocks
        (getReadBlocks s ops).cigarBlocks info = some r ∧
      correctReadInfo mf (getReadBlocks s ops).refBlocks info = some (a, t) ∧
      r.exons = ((getReadBlocks s ops).refBlocks.take ((getReadBlocks s ops).refBlocks.length - a.toNat)).drop t.toNat ∧
      (∀ e ∈ (getReadBlocks s ops).refBlocks.drop ((getReadBlocks s ops).refBlocks.length - a.toNat),
        info.internalPolyA ≠ -1 ∧
        findPolyaTail w num den s ops seq (4 * (w : Int)) 2 true = some info.internalPolyA ∧
        (∃ p, TailStart w num den true (regionA ops seq (4 * (w : Int)) 2) p) ∧
        info.internalPolyA < e.2 ∧
        (info.internalPolyA ≤ e.1 ∨
          (info.internalPolyA - e.1 ≤ mf ∧ 2 * (info.internalPolyA - e.1) < e.2 - info.internalPolyA))) ∧
      (∀ e ∈ (getReadBlocks s ops).refBlocks.take t.toNat,
        info.internalPolyT ≠ -1 ∧
        findPolytHead w num den s ops seq (4 * (w : Int)) 2 true = some info.internalPolyT ∧
        (∃ p, TailStart w num den true (regionT ops seq (4 * (w : Int)) 2) p) ∧
        e.1 < info.internalPolyT ∧
        (e.2 ≤ info.internalPolyT ∨
          (e.2 - info.internalPolyT ≤ mf ∧ 2 * (e.2 - info.internalPolyT) < info.internalPolyT - e.1))) := by
  have hnn := hp.nonneg
  have hsw := C16.exons_sorted_wf s ops hs hp
  have hsd : SD (getReadBlocks s ops).refBlocks := ⟨fun e he => (hsw.1 e he).2, hsw.2⟩
  obtain ⟨r, a, t, hr, hcri, _, hre, hA, hT, _⟩ :=
    trimmed_exons_are_tail_exons mf _ (getReadBlocks s ops).readBlocks (getReadBlocks s ops).cigarBlocks info hsd hne
  unfold detectPolya at hdet
  simp only [Option.bind_eq_bind, Option.bind_eq_some_iff, Option.some.injEq] at hdet
  obtain ⟨ea, hea, et, het, ia, hia, it, hit, rfl⟩ := hdet
  refine ⟨r, a, t, hr, hcri, hre, ?_, ?_⟩
  · intro e he
    obtain ⟨hx, hc⟩ := hA e he
    obtain ⟨g1, g2, g3, _⟩ := polya_found w num den s ops seq _ _ _ _ hia hx
    have hchar := (C16FinderChar.find_polya_tail_char w num den s ops seq _ _ true g1 g2 g3 hnn ia).1 hia
    have hts : ∃ p, TailStart w num den true (regionA ops seq (4 * (w : Int)) 2) p := by
      rcases hchar with ⟨_, h⟩ | ⟨p, hp', _⟩
      · exact absurd h hx
      · exact ⟨p, hp'⟩
    obtain ⟨c1, c2⟩ := (polya_counted_iff mf ia e).1 hc
    exact ⟨hx, hia, hts, c1, c2⟩
  · intro e he
    obtain ⟨hx, hc⟩ := hT e he
    obtain ⟨g1, g2, g3, _⟩ := polyt_found w num den s ops seq _ _ _ _ hit hx
    have hchar := (C16FinderChar.find_polyt_head_char w num den s ops seq _ _ true g1 g2 g3 hnn it).1 hit
    have hts : ∃ p, TailStart w num den true (regionT ops seq (4 * (w : Int)) 2) p := by
      rcases hchar with ⟨_, h⟩ | ⟨p, hp', _⟩
      · exact absurd h hx
      · exact ⟨p, hp'⟩
    obtain ⟨c1, c2⟩ := (polyt_counted_iff mf it e).1 hc
    exact ⟨hx, hit, hts, c1, c2⟩

/-- non-vacuity (the record of `record_tail_on_retained_exon`): `60M 100N 20M 20S` at 1000, 62 C + 38 A: internal polyA
    1162, the second exon (1161, 1180) passes the test (1 base before, 18 after) and is the one removed -/
example :
    let ops : List CigarOp := [(.«match», 60), (.skipped, 100), (.«match», 20), (.soft_clipping, 20)]
    let seq : List Char := List.replicate 62 'C' ++ List.replicate 38 'A'
    detectPolya 16 3 4 1000 ops seq = some ⟨1178, -1, 1162, -1⟩ ∧
    (getReadBlocks 1000 ops).refBlocks = [(1001, 1060), (1161, 1180)] ∧
    correctReadInfo 40 (getReadBlocks 1000 ops).refBlocks ⟨1178, -1, 1162, -1⟩ = some (1, 0) ∧
    polyaCounted 40 1162 (1161, 1180) = true ∧ polyaCounted 40 1162 (1001, 1060) = false := by decide

end IsoVerif.Props.C16TailExons
