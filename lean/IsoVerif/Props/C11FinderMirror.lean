/-
C11 (growth c16x) — the polyA / polyT finder pair under reflection after the repair of the polyT head window
(`fix: the polyT head window is the mirror image of the polyA tail window`, src/polya_finder.py; model
Model/FinderMirror.lean, proofs Props/C16FinderMirror.lean).

Before the repair `find_polyt_head` scanned one clipped base less and one aligned base more than the mirror image of
`find_polya_tail`, so on A-rich read ends the two scans could settle on different bases or disagree on found / not found
(`finder_window_witness`; on the toy data this changed an assignment type and two gene counts under reflection).  After
it the two scans are THE SAME scan (`finder_scan_mirror_dual`), found / not found is symmetric
(`finder_not_found_mirror_dual`), and the only thing left of the known finding `polya_finder_not_mirror_dual` is the
constant of the position convention: `finder_mirror_minus_two` — polyT(mirror image) = max 1 (mirror(polyA) − 2) for
EVERY read whose tail starts in the soft clip or inside the last match operation (no "clean tail" restriction any more;
`finder_clean_tail_minus_two` of Props/C11Finder.lean is the special case for the old window).
-/
import IsoVerif.Model.C11Symmetry
import IsoVerif.Props.C16FinderMirror
import IsoVerif.Props.C16FinderFix

namespace IsoVerif.Props.C11FinderMirror
open IsoVerif.Gen IsoVerif.Model IsoVerif.Model.C11 IsoVerif.Model.C16 IsoVerif.Lemmas.C16

/-- **finder_scan_mirror_dual** — read `(cigar, seq)` and mirror image `(reversed cigar, reverse complement seq')`:
    the flags the repaired `find_polyt_head` scans on the mirror image are the flags `find_polya_tail` scans on the
    read, for every `from_pos, to_pos ≥ 0` (so for both the external and the internal finder) -/
theorem finder_scan_mirror_dual (cigar : List CigarOp) (seq seq' : List Char) (f t : Int) (hnn : NonNeg cigar)
    (hclip : softClipTail cigar ≤ seq.length) (hf : 0 ≤ f) (ht : 0 ≤ t)
    (hrc : seq'.map (fun c => upperChar c == 'T') = (seq.map (fun c => upperChar c == 'A')).reverse) :
    regionTWin cigar.reverse seq' f t = regionA cigar seq f t :=
  C16FinderMirror.mirror_region cigar seq seq' f t hnn hclip hf ht hrc

/-- **finder_not_found_mirror_dual** — `find_polya_tail(read)` finds no tail ⇒ `find_polyt_head(mirror image)` finds
    none either, and (next theorem) a found tail is found on the mirror image: the class `finder_window` of the known
    finding cannot occur on the repaired code -/
theorem finder_not_found_mirror_dual (w num den : Nat) (hw : 1 ≤ w) (s L : Int) (cigar : List CigarOp)
    (seq seq' : List Char) (f t : Int) (chk : Bool) (hne : cigar ≠ []) (hseq : seq ≠ [])
    (hclip : softClipTail cigar < seq.length) (hnn : NonNeg cigar) (hf : 0 ≤ f) (ht : 0 ≤ t)
    (hrc : seq'.map (fun c => upperChar c == 'T') = (seq.map (fun c => upperChar c == 'A')).reverse)
    (hnone : tailScan w num den chk (regionA cigar seq f t) = none) :
    findPolyaTailFix w num den s cigar seq f t chk = some (-1) ∧
    findPolytHeadWin w num den (L - referenceEnd s cigar) cigar.reverse seq' f t chk = some (-1) := by
  have h := C16FinderMirror.mirror_law_win_fix w num den hw s L cigar seq seq' f t chk hne hseq hclip hnn hf ht hrc
  rw [hnone] at h
  exact h

/-- **finder_mirror_minus_two** — the exact law that remains: for every read on which the polyA scan finds a tail that
    starts in the soft clip or inside the last match operation (at least one base of it before the tail),
    `find_polyt_head(mirror image) = max 1 (mirror(find_polya_tail(read)) − 2)`, `mirror x = L + 1 − x` -/
theorem finder_mirror_minus_two (w num den : Nat) (hw : 1 ≤ w) (s L : Int) (cigar : List CigarOp)
    (seq seq' : List Char) (f t : Int) (chk : Bool) (hne : cigar ≠ []) (hseq : seq ≠ [])
    (hclip : softClipTail cigar < seq.length) (hnn : NonNeg cigar) (hf : 0 ≤ f) (ht : 0 ≤ t)
    (hrc : seq'.map (fun c => upperChar c == 'T') = (seq.map (fun c => upperChar c == 'A')).reverse)
    (pA : Nat) (hA : tailScan w num den chk (regionA cigar seq f t) = some pA)
    (hclean : (seq.length : Int) - softClipTail cigar ≤ startA cigar seq f + pA ∨
      ∃ k0 l rest, walkCore cigar false = (k0, l) :: rest ∧ isAligned k0 = true ∧
        (seq.length : Int) - softClipTail cigar - (startA cigar seq f + pA) < l) :
    ∃ ra, findPolyaTailFix w num den s cigar seq f t chk = some ra ∧
      findPolytHeadWin w num den (L - referenceEnd s cigar) cigar.reverse seq' f t chk
        = some (max 1 (mirrorP L ra - 2)) := by
  have h := C16FinderMirror.mirror_law_win_fix w num den hw s L cigar seq seq' f t chk hne hseq hclip hnn hf ht hrc
  rw [hA] at h
  obtain ⟨ra, h1, h2⟩ := h hclean
  refine ⟨ra, h1, ?_⟩
  rw [h2]; unfold mirrorP; congr 2; omega

/-- non-vacuity (the instance of `finder_mirror_minus_two_witness`): `20M 20S` at 99, 20 C + 20 A, L = 1000 -/
example :
    findPolyaTailFix 16 3 4 99 [(.«match», 20), (.soft_clipping, 20)] (List.replicate 20 'C' ++ List.replicate 20 'A') 2 32 false
      = some 119 ∧
    findPolytHeadWin 16 3 4 (1000 - 119) [(.soft_clipping, 20), (.«match», 20)]
      (List.replicate 20 'T' ++ List.replicate 20 'G') 2 32 false = some 880 ∧
    max 1 (mirrorP 1000 119 - 2) = 880 := by decide +kernel

/-- **finder_window_witness** — the code before the repair: polyA found on the read (101), nothing found on its mirror
    image; the repaired function finds it (899) -/
theorem finder_window_witness :
    findPolyaTailFix 16 3 4 100 [(.«match», 17), (.soft_clipping, 3)] "AAAAAACACCCAAAAAAACA".toList 64 2 true = some 101 ∧
    findPolytHeadFix 16 3 4 (1000 - 117) [(.soft_clipping, 3), (.«match», 17)] "TGTTTTTTTGGGTGTTTTTT".toList 64 2 true
      = some (-1) ∧
    findPolytHeadWin 16 3 4 (1000 - 117) [(.soft_clipping, 3), (.«match», 17)] "TGTTTTTTTGGGTGTTTTTT".toList 64 2 true
      = some 899 :=
  C16FinderMirror.window_mirror_witness

/-- **finder_mirror_offset** (proof closure p16spec) — the law for a tail that starts ANYWHERE inside the aligned part
    (`d ≥ 2` aligned tail bases): with `c1` the alignment column of the first tail base, `c2` the column of the read base
    before it and `mid` the reference-only columns between them,
    `find_polyt_head(mirror image) = max 1 (mirror(find_polya_tail(read)) − 1 − g)`,
    `g = #reference bases of mid + (1 if the base before the tail is aligned, 0 if it is inserted)`;
    `finder_mirror_minus_two` is `g = 1`.  (`C16FinderFix.mirror_law_general` also covers `d = 1`;
    `C16FinderFix.mirror_offset_witness`: offsets −2, −4, −1 for one and the same tail.) -/
theorem finder_mirror_offset (w num den : Nat) (s L : Int) (cigar : List CigarOp)
    (seq seq' : List Char) (f t : Int) (chk : Bool) (hne : cigar ≠ []) (hseq : seq ≠ [])
    (hclip : softClipTail cigar < seq.length) (hnn : NonNeg cigar) (hf : 0 ≤ f) (ht : 0 ≤ t)
    (hrc : seq'.map (fun c => upperChar c == 'T') = (seq.map (fun c => upperChar c == 'A')).reverse)
    (pA d : Nat) (hA : tailScan w num den chk (regionA cigar seq f t) = some pA)
    (hd : (d : Int) = (seq.length : Int) - softClipTail cigar - (startA cigar seq f + pA)) (hd2 : 2 ≤ d)
    (pre mid post : List (Bool × Bool)) (c1 c2 : Bool × Bool)
    (hcols : expand (walkCore cigar false) = pre ++ c1 :: (mid ++ c2 :: post))
    (h1 : c1.1 = true) (h2 : c2.1 = true) (hmid : ∀ m ∈ mid, m.1 = false) (hj : qCount pre = d - 1) :
    ∃ ra, findPolyaTailFix w num den s cigar seq f t chk = some ra ∧
      findPolytHeadWin w num den (L - referenceEnd s cigar) cigar.reverse seq' f t chk =
        some (max 1 (mirrorP L ra - 1 - ((rCount mid : Int) + c2.2.toNat))) := by
  obtain ⟨ra, h1', h2'⟩ := C16FinderFix.mirror_law_offset w num den s L cigar seq seq' f t chk hne hseq hclip hnn hf ht hrc
    pA d hA hd hd2 pre mid post c1 c2 hcols h1 h2 hmid hj
  refine ⟨ra, h1', ?_⟩
  rw [h2']; unfold mirrorP; congr 2; omega

/-- non-vacuity: read (b) of `mirror_offset_witness` (`6M 2D 3M 4S`): polyA 106, polyT of the mirror image
    `mirror(106) − 1 − 3 = 891` -/
example :
    findPolyaTailFix 4 3 4 100 [(.«match», 6), (.deletion, 2), (.«match», 3), (.soft_clipping, 4)] "CCCCCCAAAAAAA".toList 16 2 true
      = some 106 ∧
    findPolytHeadWin 4 3 4 (1000 - 111) [(.soft_clipping, 4), (.«match», 3), (.deletion, 2), (.«match», 6)]
      "TTTTTTTGGGGGG".toList 16 2 true = some (max 1 (mirrorP 1000 106 - 1 - 3)) := by decide +kernel

end IsoVerif.Props.C11FinderMirror
