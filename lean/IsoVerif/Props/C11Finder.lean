/-
C11 — the polyA-tail / polyT-head finder (Model/PolyAFinder.lean, property C16's model of `find_polya_tail`,
`find_polyt_head`, `detect_polya`) under translation, and the pinned asymmetry under reflection.

translation: the reported position is `reference_start + offset` where neither the offset nor found / not found / raises
depends on `reference_start` (`find_polyt_head` additionally clamps at 1: `max 1 (reference_start + offset)`).  Stated
without any hypothesis: the offset is `tailOffset` / `headOffset` (Lemmas/C11Finder.lean: the function body evaluated
relative to the start), the same for EVERY `reference_start`.  The corollaries in `shiftPos` form need "the position found is
not −1 by coincidence" resp. "the clamp at 1 is not active" (both hold for `reference_start ≥ 2·window + 2`).

reflection: `find_polyt_head` is NOT the mirror image of `find_polya_tail` (known finding `polya_finder_not_mirror_dual`):
on a clean tail the polyT position is the mirror image of the polyA position minus 2: `finder_clean_tail_minus_two` proves
the exact −2 law for ALL reads `x…x c0 c1 c2 A¹⁵ y…y` / `xM yS` (any aligned prefix, three non-A bases, at least 15 A's at the
start of the soft clip, anything behind them) and their reverse complements; `finder_mirror_minus_two_witness` pins one
instance by kernel evaluation (replayed on the real code by the harness).
-/
import IsoVerif.Model.PolyAFinder
import IsoVerif.Model.C11Symmetry
import IsoVerif.Lemmas.C11Finder

namespace IsoVerif.Props.C11Finder
open IsoVerif.Gen IsoVerif.Model IsoVerif.Model.C11 IsoVerif.Model.C16 IsoVerif.Lemmas.C11

/-- **shift_equivariant_findPolyaTail** — for every read (CIGAR, sequence, window parameters) and EVERY
    `reference_start` the result is `reference_start + offset`, resp. −1 (not found), resp. the exception, with one
    offset / verdict that does not depend on `reference_start` -/
theorem shift_equivariant_findPolyaTail (w n d : Nat) (s : Int) (cigar : List CigarOp) (seq : List Char) (f t : Int)
    (c : Bool) :
    findPolyaTail w n d s cigar seq f t c = (tailOffset w n d cigar seq f t c).map (renderTail s) :=
  findPolyaTail_eq_offset w n d s cigar seq f t c

/-- the same for the polyT head; the reported position is clamped at 1 (`max(1, …)` in the code) -/
theorem shift_equivariant_findPolytHead (w n d : Nat) (s : Int) (cigar : List CigarOp) (seq : List Char) (f t : Int)
    (c : Bool) :
    findPolytHead w n d s cigar seq f t c = (headOffset w n d cigar seq f t c).map (renderHead s) :=
  findPolytHead_eq_offset w n d s cigar seq f t c

/-- `shiftPos` form for the tail: found positions that are not the sentinel by coincidence move by k, −1 stays −1 -/
theorem shift_equivariant_findPolyaTail_pos (w n d : Nat) (s k : Int) (cigar : List CigarOp) (seq : List Char) (f t : Int)
    (c : Bool) (h : ∀ x, tailOffset w n d cigar seq f t c = some (some x) → s + x ≠ -1) :
    findPolyaTail w n d (s + k) cigar seq f t c = (findPolyaTail w n d s cigar seq f t c).map (shiftPos k) := by
  rw [shift_equivariant_findPolyaTail, shift_equivariant_findPolyaTail]
  cases ho : tailOffset w n d cigar seq f t c with
  | none => rfl
  | some o =>
    cases o with
    | none => simp [renderTail, shiftPos]
    | some x =>
      have := h x ho
      simp only [Option.map_some, renderTail, shiftPos, this, if_false]; congr 1; omega

/-- `shiftPos` form for the head: when the clamp at 1 is not active before and after the shift -/
theorem shift_equivariant_findPolytHead_pos (w n d : Nat) (s k : Int) (cigar : List CigarOp) (seq : List Char) (f t : Int)
    (c : Bool) (h : ∀ x, headOffset w n d cigar seq f t c = some (some x) → 1 ≤ s + x ∧ 1 ≤ s + k + x) :
    findPolytHead w n d (s + k) cigar seq f t c = (findPolytHead w n d s cigar seq f t c).map (shiftPos k) := by
  rw [shift_equivariant_findPolytHead, shift_equivariant_findPolytHead]
  cases ho : headOffset w n d cigar seq f t c with
  | none => rfl
  | some o =>
    cases o with
    | none => simp [renderHead, shiftPos]
    | some x =>
      obtain ⟨h1, h2⟩ := h x ho
      have e1 : max 1 (s + x) = s + x := by omega
      have e2 : max 1 (s + k + x) = s + k + x := by omega
      have e3 : s + x ≠ -1 := by omega
      simp only [Option.map_some, renderHead, shiftPos, e1, e2, e3, if_false]; congr 1; omega

/-- **head_clamp_witness** — the clamp hypothesis is needed: a polyT head hanging over the start of the chromosome is
    reported at 1 for `reference_start` 0 and 1 alike -/
theorem head_clamp_witness :
    findPolytHead 16 3 4 0 [(.soft_clipping, 20), (.«match», 20)] (List.replicate 20 'T' ++ List.replicate 20 'G') 2 32 false
      = some 1 ∧
    findPolytHead 16 3 4 (0 + 1) [(.soft_clipping, 20), (.«match», 20)] (List.replicate 20 'T' ++ List.replicate 20 'G') 2 32 false
      = some 1 := by decide +kernel

/-- non-vacuity: a clean 20-base polyA tail behind 20 aligned bases, `reference_start` 99 and 99 + 256 -/
example :
    findPolyaTail 16 3 4 99 [(.«match», 20), (.soft_clipping, 20)] (List.replicate 20 'C' ++ List.replicate 20 'A') 2 32 false
      = some 119 ∧
    findPolyaTail 16 3 4 (99 + 256) [(.«match», 20), (.soft_clipping, 20)] (List.replicate 20 'C' ++ List.replicate 20 'A') 2 32 false
      = some (119 + 256) ∧
    tailOffset 16 3 4 [(.«match», 20), (.soft_clipping, 20)] (List.replicate 20 'C' ++ List.replicate 20 'A') 2 32 false
      = some (some 20) := by decide +kernel

/-- the polyA position of a clean tail: the first soft-clipped base (`reference_start + aligned length`, 0-based end) -/
theorem clean_tail_position (pre : List Char) (c1 c2 : Char) (rest : List Char) (s : Int)
    (h1 : (upperChar c1 == 'A') = false) (h2 : (upperChar c2 == 'A') = false) :
    findPolyaTail 16 3 4 s [(CigarEvent.«match», (pre.length : Int) + 2), (CigarEvent.soft_clipping, 15 + (rest.length : Int))]
      (pre ++ (c1 :: c2 :: (a15 ++ rest))) 2 32 false = some (s + (pre.length : Int) + 2) :=
  clean_tail pre c1 c2 rest s h1 h2

/-- the polyT position of a clean head: one base before `reference_start` (clamped at 1) -/
theorem clean_head_position (rest : List Char) (d1 d2 d3 : Char) (post : List Char) (s : Int)
    (h1 : (upperChar d1 == 'T') = false) (h2 : (upperChar d2 == 'T') = false) (h3 : (upperChar d3 == 'T') = false) :
    findPolytHead 16 3 4 s [(CigarEvent.soft_clipping, (rest.length : Int) + 15), (CigarEvent.«match», 3 + (post.length : Int))]
      (rest ++ (tt15 ++ (d1 :: d2 :: d3 :: post))) 2 32 false = some (max 1 (s - 1)) :=
  clean_head rest d1 d2 d3 post s h1 h2 h3

/-- **finder_clean_tail_minus_two** — the exact −2 law: a read with aligned part `pre c0 c1 c2` (three non-A bases last)
    and a soft clip that starts with 15 A's has its polyA position at `p = s + |aligned|`; its reverse complement on a
    chromosome of length L (soft clip ending in 15 T's, aligned part starting with three non-T bases `d2 d1 d0`, reversed
    CIGAR, start `L − s − |aligned|`) has its polyT position at `mirror(p) − 2`, for every such read, every s and every L
    that leaves two bases before the mirrored start -/
theorem finder_clean_tail_minus_two (pre : List Char) (c0 c1 c2 : Char) (rest rest' : List Char) (d2 d1 d0 : Char)
    (pre' : List Char) (s L : Int) (hl1 : rest'.length = rest.length) (hl2 : pre'.length = pre.length)
    (h1 : (upperChar c1 == 'A') = false) (h2 : (upperChar c2 == 'A') = false)
    (g2 : (upperChar d2 == 'T') = false) (g1 : (upperChar d1 == 'T') = false) (g0 : (upperChar d0 == 'T') = false)
    (hL : 2 ≤ L - s - ((pre.length : Int) + 3)) :
    ∃ p : Int,
      findPolyaTail 16 3 4 s [(CigarEvent.«match», (pre.length : Int) + 3), (CigarEvent.soft_clipping, 15 + (rest.length : Int))]
        (pre ++ (c0 :: c1 :: c2 :: (a15 ++ rest))) 2 32 false = some p ∧
      findPolytHead 16 3 4 (L - s - ((pre.length : Int) + 3))
        [(CigarEvent.soft_clipping, (rest.length : Int) + 15), (CigarEvent.«match», 3 + (pre.length : Int))]
        (rest' ++ (tt15 ++ (d2 :: d1 :: d0 :: pre'))) 2 32 false = some (mirrorP L p - 2) := by
  refine ⟨s + (pre.length : Int) + 3, ?_, ?_⟩
  · have h := clean_tail (pre ++ [c0]) c1 c2 rest s h1 h2
    simp only [List.length_append, List.length_cons, List.length_nil, List.append_assoc, List.cons_append,
      List.nil_append] at h
    have e : ((pre.length + (0 + 1) : Nat) : Int) + 2 = (pre.length : Int) + 3 := by omega
    rw [e] at h
    rw [h]; congr 1; omega
  · have h := clean_head rest' d2 d1 d0 pre' (L - s - ((pre.length : Int) + 3)) g2 g1 g0
    rw [hl1, hl2] at h
    rw [h]
    simp only [mirrorP]
    congr 1; omega

/-- **finder_mirror_minus_two_witness** — the reverse-complemented read of the example on a chromosome of length 1000
    (`20S 20M` at 0-based start 881, sequence T×20 G×20): `find_polyt_head` reports 880, the mirror image of the polyA
    position (1001 − 119 = 882) minus 2 — the finder pair is not mirror-dual (known finding), the offset is exactly −2 -/
theorem finder_mirror_minus_two_witness :
    findPolyaTail 16 3 4 99 [(.«match», 20), (.soft_clipping, 20)] (List.replicate 20 'C' ++ List.replicate 20 'A') 2 32 false
      = some 119 ∧
    findPolytHead 16 3 4 (1000 - 99 - 20) [(.soft_clipping, 20), (.«match», 20)]
      (List.replicate 20 'T' ++ List.replicate 20 'G') 2 32 false = some 880 ∧
    mirrorP 1000 119 - 2 = 880 := by decide +kernel

end IsoVerif.Props.C11Finder
