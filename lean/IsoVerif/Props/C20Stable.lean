/-
C20 — the artefact a run took from the cache must stay the one it took (audit finding C20-G1).
Property theorems only; model in IsoVerif/Model/Cache.lean, lemmas in IsoVerif/Lemmas/CacheStable.lean.

`find_converted_db` / `find_stored_index|bed|alignment` hand back the *path* stored in the cache entry – a file inside
the output folder of the run that produced it – and the run re-opens that path for the rest of its life.
`no_foreign_conversion` / `results_correspond_to_own_input` (Props/C20.lean) speak about the moment of the lookup: the
`Result` records path @ mtime as taken.  The clause of the property

    "the per-user cache … never makes a run use a conversion that does not correspond to its own input"

needs more: the file at that path must still be that version whenever the run opens it, i.e. at every later moment:

    ResultsStable cd s0  :=  ∀ sched, every result of every process is stable in `run cd s0 sched`.

Full strength ("for every lawful codec and every system state whose cache entries are backed by productions and whose
results are stable now, `ResultsStable`") is FALSE of the model and of the real code (`shared_target_overwrite_witness`,
replayed on the real `isoquant.py` by the oracle of harness/props/C20.py, scenario `shared_target_overwrite`): "separate
output folders" of the *running* runs does not exclude that one of them re-uses the folder of a *finished* run whose
artefact is in the cache.  Known finding `cached_artefact_overwritten_in_place` (not repaired: design change).
What holds (`results_stable_partial`): for any number of processes, any programs and EVERY interleaving, under the
decidable hypothesis `PrivateTargets` that excludes exactly that class.
-/
import IsoVerif.Model.Cache
import IsoVerif.Lemmas.Cache
import IsoVerif.Lemmas.CacheStable

namespace IsoVerif.Props.C20Stable
open IsoVerif.Model.C20 IsoVerif.Lemmas.C20

variable {β : Type}

/-! ### the full-strength statement -/

/-- in every reachable system state every result of every process is still the file version the process took -/
def ResultsStable (cd : Codec β) (s0 : Sys β) : Prop := ∀ sched : List Nat, ResultsStableAt (run cd s0 sched)

/-- the statement the property needs, for the hypotheses of the existing C20 theorems (FALSE, see the witness) -/
def ResultsStableFullStrength : Prop :=
  ∀ (s0 : Sys Nat), SInv toyCodec s0 → ResultsStableAt s0 → ResultsStable toyCodec s0

/-! ### the witness: a running run re-uses the output folder of a finished run whose database is in the cache

paths: 10 = d1/annot.gtf, 11 = d2/annot.gtf (another annotation, same base name), 20 = X/annot.db, 21 = Y/annot.db
  A0: isoquant -o X --genedb d1/annot.gtf     finishes; cache: d1/annot.gtf -> X/annot.db
  B : isoquant -o Y --genedb d1/annot.gtf     cache hit -> goes on to use X/annot.db
  A': isoquant -o X --genedb d2/annot.gtf     lookup misses (other key) -> converts into X/annot.db
schedule: A0 completely ; B up to and including its lookup ; A' completely ; (B goes on: nothing left to do in the
cache protocol – it now opens X/annot.db in every worker) -/

def clA0 : Client := { file := 0, key := 10, src := 10, aux := [], target := 20, tag := 1 }
def clB : Client := { file := 0, key := 10, src := 10, aux := [], target := 21, tag := 1 }
def clA' : Client := { file := 0, key := 11, src := 11, aux := [], target := 20, tag := 1 }

def sharedTargetSys : Sys Nat :=
  Sys.start (World.fresh (fun p => if p = 10 then some 5 else if p = 11 then some 6 else none) 100)
    [progFixed { db := some (clA0, false), stores := [] },
     progFixed { db := some (clB, false), stores := [] },
     progFixed { db := some (clA', false), stores := [] }]

/-- A0 from start to end (`set_configs_directory` 8 steps, load, lookup, produce, store), then B:
    `set_configs_directory` (4 steps: the files exist), load, lookup -/
def lookupSched : List Nat := List.replicate 12 0 ++ List.replicate 6 1
/-- … then A' from start to end (4 + load, lookup, produce, store) -/
def overwriteSched : List Nat := lookupSched ++ List.replicate 8 2

/-- The full-strength statement is false: after B took `X/annot.db` from the cache – correctly, for its own input,
    everything stable at that moment – A' converts another annotation into the same path.  All three runs finish
    without a crash; B's result is no longer stable, and the file now at B's path is the output of a production for
    another source (key 11, not B's key 10).  `PrivateTargets` fails in the start state (two pending productions
    target path 20) and in the state in which A0 has finished (a pending production targets a logged production's
    path). -/
theorem shared_target_overwrite_witness :
    let s1 := run toyCodec sharedTargetSys lookupSched
    let s2 := run toyCodec sharedTargetSys overwriteSched
    (s1.procs.map (fun p => p.results)) =
      [[⟨clA0, 20, 5, 100, [], false⟩], [⟨clB, 20, 5, 100, [], true⟩], []] ∧
    ResultsStableAt s1 ∧
    (s2.procs.map (fun p => (p.crashed, p.todo.length))) = [(false, 0), (false, 0), (false, 0)] ∧
    (s2.procs.map (fun p => p.results.map (fun r => (r.client.key, r.target, r.tgtM, r.hit)))) =
      [[(10, 20, 100, false)], [(10, 20, 100, true)], [(11, 20, 101, false)]] ∧
    s2.world.mtime 20 = some 101 ∧
    ¬ ResultsStableAt s2 ∧
    (∃ cv ∈ s2.world.convs, cv.client.target = 20 ∧ s2.world.mtime 20 = some cv.tgtM) ∧
    (∀ cv ∈ s2.world.convs, cv.client.target = 20 → s2.world.mtime 20 = some cv.tgtM → cv.client.key = 11) ∧
    ¬ PrivateTargets sharedTargetSys ∧
    ¬ PrivateTargets (run toyCodec sharedTargetSys (List.replicate 12 0)) := by
  decide

/-- … hence `ResultsStableFullStrength` does not hold (the start state is fresh: `SInv` by `start_fresh_ok`) -/
theorem results_stable_full_strength_witness : ¬ ResultsStableFullStrength := by
  intro h
  have h1 := h sharedTargetSys (start_inv toyCodec _ (fresh_winv toyCodec toyCodec_lawful _ _) _) (by decide)
    overwriteSched
  exact absurd h1 (by decide)

/-- the same exposure for the caches of src/read_mapper.py (here the index cache: `find_stored_index` … `store_index`):
    30 = ref/genome.fa, 31 = other/genome.fa, 40 = X/genome_k15_idx, 41 = Y/genome_k15_idx -/
def sharedIndexSys : Sys Nat :=
  Sys.start (World.fresh (fun p => if p = 30 then some 7 else if p = 31 then some 8 else none) 100)
    [progFixed { db := none, stores := [({ file := 1, key := 30, src := 30, aux := [], target := 40, tag := 15 }, true)] },
     progFixed { db := none, stores := [({ file := 1, key := 30, src := 30, aux := [], target := 41, tag := 15 }, true)] },
     progFixed { db := none, stores := [({ file := 1, key := 31, src := 31, aux := [], target := 40, tag := 15 }, true)] }]

theorem shared_index_overwrite_witness :
    let s2 := run toyCodec sharedIndexSys (List.replicate 13 0 ++ List.replicate 6 1 ++ List.replicate 9 2)
    (s2.procs.map (fun p => (p.crashed, p.todo.length))) = [(false, 0), (false, 0), (false, 0)] ∧
    (s2.procs.map (fun p => p.results.map (fun r => (r.client.key, r.target, r.tgtM, r.hit)))) =
      [[(30, 40, 100, false)], [(30, 40, 100, true)], [(31, 40, 101, false)]] ∧
    ¬ ResultsStableAt s2 ∧ ¬ PrivateTargets sharedIndexSys := by
  decide

/-! ### what holds: under `PrivateTargets` every result stays stable forever -/

/-- For every lawful codec, any number of processes running any programs, and EVERY interleaving: if in the start state
    every cache entry is backed by a logged production (`SInv`; true of every start from an empty cache directory and
    kept by every step), the targets of the pending productions are private (`PrivateTargets`: pairwise distinct, and
    none is a path a logged production wrote – hence none is the target of an entry of any cache – or an existing
    result refers to) and the existing results are stable, then in every reachable state every result of every
    process is still the file version the process took.
    Missing for the full statement: the case ¬`PrivateTargets` – false there (`shared_target_overwrite_witness`). -/
theorem results_stable_partial (cd : Codec β) (hl : cd.Lawful) (s0 : Sys β) (h0 : SInv cd s0)
    (hp : PrivateTargets s0) (hs : ResultsStableAt s0) : ResultsStable cd s0 :=
  fun sched => (run_stinv cd hl sched s0 ⟨h0, hp, hs⟩).2.2

/-- `PrivateTargets` is itself kept by every step of every interleaving (chain of custody) -/
theorem private_targets_invariant (cd : Codec β) (hl : cd.Lawful) (s0 : Sys β) (h0 : SInv cd s0)
    (hp : PrivateTargets s0) (hs : ResultsStableAt s0) (sched : List Nat) : PrivateTargets (run cd s0 sched) :=
  (run_stinv cd hl sched s0 ⟨h0, hp, hs⟩).2.1

/-- what `PrivateTargets` says about cache *entries* (the reading "no pending production targets a path that is the
    target of an entry of a cache"): under `SInv` no entry of any parseable config file content, of any loaded dict
    or any pending entry has a pending target -/
theorem private_targets_cover_entries (cd : Codec β) (s : Sys β) (h0 : SInv cd s) (hp : PrivateTargets s) :
    (∀ i d, cd.parse (s.world.inodes i) = some d → ∀ x ∈ d, x.2.target ∉ s.toProduce) ∧
    (∀ p ∈ s.procs, ∀ f, ∀ x ∈ p.dict f, x.2.target ∉ s.toProduce) ∧
    (∀ p ∈ s.procs, ∀ f x, p.pending f = some x → x.2.target ∉ s.toProduce) := by
  have key : ∀ x : Key × Entry, Backed s.world.convs x → x.2.target ∉ s.toProduce := by
    rintro x ⟨cv, hcv, _, he⟩ hx
    have : cv.client.target = x.2.target := by rw [← he]; rfl
    exact hp.2.1 _ hx cv hcv this
  exact ⟨fun i d hd x hx => key x (h0.1 i d hd x hx), fun p hpm f x hx => key x ((h0.2 p hpm).1 f x hx),
    fun p hpm f x hx => key x ((h0.2 p hpm).2.1 f x hx)⟩

/-- Hence, under `PrivateTargets`, at every later moment – in particular at the END of the run – the file at the path
    a run uses is still the output of a production for the run's own key and tag, recorded for exactly the source
    mtime the run saw (with `conversion_identity`: *the* production that wrote the version now at that path). -/
theorem stable_results_correspond_partial (cd : Codec β) (hl : cd.Lawful) (s0 : Sys β) (h0 : SInv cd s0)
    (hp : PrivateTargets s0) (hs : ResultsStableAt s0) (sched : List Nat) :
    ∀ p ∈ (run cd s0 sched).procs, ∀ r ∈ p.results,
      ∃ cv ∈ (run cd s0 sched).world.convs, cv.client.key = r.client.key ∧ cv.client.tag = r.client.tag ∧
        cv.client.target = r.target ∧ cv.srcM = r.srcM ∧ cv.auxM = r.auxM ∧
        (run cd s0 sched).world.mtime cv.client.target = some cv.tgtM := by
  intro p hpm r hr
  obtain ⟨hi, _, hst⟩ := run_stinv cd hl sched s0 ⟨h0, hp, hs⟩
  obtain ⟨cv, hcv, h1, h2, h3, h4, h5, h6⟩ := (hi.2 p hpm).2.2 r hr
  refine ⟨cv, hcv, h1, h2, h3, h4, h6, ?_⟩
  rw [h3, h5]
  exact hst p hpm r hr

/-- … stated for the end of all runs: the interleaving, then every process runs on to the end of its program -/
theorem end_of_run_artefact_partial (cd : Codec β) (hl : cd.Lawful) (s0 : Sys β) (h0 : SInv cd s0)
    (hp : PrivateTargets s0) (hs : ResultsStableAt s0) (sched : List Nat) :
    ∀ p ∈ (drain cd (run cd s0 sched)).procs, ∀ r ∈ p.results,
      r.stable (drain cd (run cd s0 sched)).world ∧
      ∃ cv ∈ (drain cd (run cd s0 sched)).world.convs, cv.client.key = r.client.key ∧ cv.client.tag = r.client.tag ∧
        cv.client.target = r.target ∧ cv.srcM = r.srcM ∧ cv.auxM = r.auxM ∧
        (drain cd (run cd s0 sched)).world.mtime cv.client.target = some cv.tgtM := by
  obtain ⟨sch, hsch⟩ := drain_eq_run cd (run cd s0 sched)
  rw [hsch, ← run_append]
  intro p hpm r hr
  exact ⟨results_stable_partial cd hl s0 h0 hp hs _ p hpm r hr,
    stable_results_correspond_partial cd hl s0 h0 hp hs _ p hpm r hr⟩

/-! ### delimitation: nothing but a later production into the same path takes an artefact away from a run -/

/-- No hypothesis on the targets: for any programs and EVERY interleaving, a result that is no longer stable was
    overwritten by a LATER logged production into exactly its path, and the output of that production is what is at
    the path now.  So the config-file protocol itself (races of loads and stores, lost updates, tolerant reading of
    garbage) can never take an artefact away from a run – only a `produce` whose target is the artefact's path can;
    `PrivateTargets` excludes exactly those.  (`TimeInv`: the clock is ahead of every file time; `ConvInv`: the log of
    productions is consistent – both hold at every start without history and are kept by every step.) -/
theorem unstable_only_by_later_production (cd : Codec β) (s0 : Sys β) (ht : TimeInv s0.world) (hc : ConvInv s0.world)
    (h0 : ∀ p ∈ s0.procs, ∀ r ∈ p.results, r.tgtM < s0.world.clock ∧ r.stable s0.world) (sched : List Nat) :
    ∀ p ∈ (run cd s0 sched).procs, ∀ r ∈ p.results, ¬ r.stable (run cd s0 sched).world →
      ∃ cv ∈ (run cd s0 sched).world.convs, cv.client.target = r.target ∧ r.tgtM < cv.tgtM ∧
        (run cd s0 sched).world.mtime r.target = some cv.tgtM := by
  intro p hp r hr hns
  have h := run_trace cd sched s0 ⟨ht, hc, fun q hq x hx => ⟨(h0 q hq x hx).1, Or.inl (h0 q hq x hx).2⟩⟩
  rcases (h.2.2 p hp r hr).2 with hst | hov
  · exact absurd hst hns
  · exact hov

/-- the hypotheses of `unstable_only_by_later_production` hold for the witness system, and its conclusion is not
    vacuous there: B's result is unstable after `overwriteSched` -/
example : TimeInv sharedTargetSys.world ∧ ConvInv sharedTargetSys.world ∧
    (∀ p ∈ sharedTargetSys.procs, ∀ r ∈ p.results, r.tgtM < sharedTargetSys.world.clock ∧ r.stable sharedTargetSys.world) ∧
    ¬ ResultsStableAt (run toyCodec sharedTargetSys overwriteSched) := by
  refine ⟨?_, ?_, by decide, by decide⟩
  · intro path m h
    simp only [sharedTargetSys, Sys.start, World.fresh] at h ⊢
    split at h
    · cases h; decide
    · split at h
      · cases h; decide
      · cases h
  · refine ⟨?_, ?_, ?_⟩ <;> intro c hc <;> simp [sharedTargetSys, Sys.start, World.fresh] at hc

/-! ### the hypothesis for simultaneously starting runs of the code base on an empty cache directory -/

/-- the productions of the program of one run are those of its clients -/
theorem pendingOf_progFixed (r : RunCfg) :
    pendingOf (progFixed r) = (r.db.toList.map (·.1.target)) ++ r.stores.map (·.1.target) := by
  have hstores : ∀ l : List (Client × Bool), pendingOf (l.flatMap (fun x => storeFixed x.1 x.2)) = l.map (·.1.target) := by
    intro l
    induction l with
    | nil => rfl
    | cons x t ih =>
      have : pendingOf (storeFixed x.1 x.2) = [x.1.target] := by
        cases h : x.2 <;> simp [storeFixed, pendingOf] <;> rfl
      simp only [pendingOf, List.flatMap_cons, List.filterMap_append, List.map_cons] at this ih ⊢
      rw [this, ih]; rfl
  have hsetup : pendingOf setupFixed = [] := by decide
  unfold progFixed
  simp only [pendingOf, List.filterMap_append] at hstores hsetup ⊢
  rw [hsetup, hstores]
  cases r.db with
  | none => rfl
  | some x =>
    obtain ⟨c, cs⟩ := x
    cases cs <;> simp [dbFixed] <;> rfl

/-- the artefact paths of the clients of one run: `<output folder>/<annotation>.db`, `…_idx`, `….bed`, `….bam` -/
def RunCfg.targets (r : RunCfg) : List Path := (r.db.toList.map (·.1.target)) ++ r.stores.map (·.1.target)

/-- n runs of the code base (any n) started together on an empty cache directory: `PrivateTargets` is "the artefact
    paths of all clients of all runs are pairwise distinct" – what separate output folders give to runs that start
    together on an empty cache – and then every artefact any run takes stays the one it took, in every interleaving. -/
theorem fresh_runs_stable_partial (cd : Codec β) (hl : cd.Lawful) (mt : Path → Option Nat) (clock : Nat)
    (cfgs : List RunCfg) (hpriv : (cfgs.flatMap RunCfg.targets).Nodup) :
    ResultsStable cd (Sys.start (World.fresh mt clock) (cfgs.map progFixed)) := by
  have hprocs : (Sys.start (World.fresh (β := β) mt clock) (cfgs.map progFixed)).toProduce = cfgs.flatMap RunCfg.targets := by
    unfold Sys.toProduce Sys.start
    induction cfgs with
    | nil => rfl
    | cons r t ih =>
      have hn := ih (by simp only [List.flatMap_cons] at hpriv; exact (List.nodup_append.1 hpriv).2.1)
      simp only [List.map_cons, List.flatMap_cons] at hn ⊢
      rw [hn]
      simp [Proc.toProduce, Proc.init, pendingOf_progFixed, RunCfg.targets]
  apply results_stable_partial cd hl _ (start_inv cd _ (fresh_winv cd hl mt clock) _)
  · refine ⟨by rw [hprocs]; exact hpriv, ?_, ?_⟩
    · intro t _ cv hcv; simp [Sys.start, World.fresh] at hcv
    · intro t _ p hpm r hr
      simp only [Sys.start, List.mem_map] at hpm
      obtain ⟨prog, _, rfl⟩ := hpm
      simp [Proc.init] at hr
  · intro p hpm r hr
    simp only [Sys.start, List.mem_map] at hpm
    obtain ⟨prog, _, rfl⟩ := hpm
    simp [Proc.init] at hr

/-! ### non-vacuity -/

/-- three runs of the fixed program with separate output folders (targets 20, 21, 22), two with the same annotation -/
def privTriple : Sys Nat :=
  Sys.start (World.fresh (fun p => if p = 10 then some 5 else if p = 11 then some 6 else none) 100)
    [progFixed { db := some ({ file := 0, key := 10, src := 10, aux := [], target := 20, tag := 1 }, false), stores := [] },
     progFixed { db := some ({ file := 0, key := 11, src := 11, aux := [], target := 21, tag := 1 }, false), stores := [] },
     progFixed { db := some ({ file := 0, key := 10, src := 10, aux := [], target := 22, tag := 1 }, false), stores := [] }]

/-- the hypotheses of `results_stable_partial` are met at the start … -/
example : SInv toyCodec privTriple ∧ PrivateTargets privTriple ∧ ResultsStableAt privTriple :=
  ⟨start_inv toyCodec _ (fresh_winv toyCodec toyCodec_lawful _ _) _, by decide, by decide⟩

/-- … and in a state with history: run 0 has finished (its database is in the cache, its production in the log), run 2
    has taken that database from the cache (a `hit` result on path 20), runs 1 and 2 still have their own productions
    pending – the conclusion is not vacuous (there are results, one of them a hit on another run's folder) -/
example :
    let s := run toyCodec privTriple (List.replicate 12 0 ++ List.replicate 6 2 ++ List.replicate 5 1)
    PrivateTargets s ∧ ResultsStableAt s ∧ s.world.convs.length = 1 ∧ s.toProduce = [21] ∧
    (s.procs.map (fun p => p.results.map (fun r => (r.target, r.hit)))) = [[(20, false)], [], [(20, true)]] := by
  decide

/-- the hypothesis of `fresh_runs_stable_partial` on the same three configurations -/
example : ([({ db := some ({ file := 0, key := 10, src := 10, aux := [], target := 20, tag := 1 }, false), stores := [] } : RunCfg),
            { db := some ({ file := 0, key := 11, src := 11, aux := [], target := 21, tag := 1 }, false),
              stores := [({ file := 1, key := 30, src := 30, aux := [], target := 23, tag := 15 }, true)] }].flatMap
              RunCfg.targets).Nodup := by
  decide

end IsoVerif.Props.C20Stable
