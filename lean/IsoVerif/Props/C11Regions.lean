/-
C11 — translation equivariance of the alignment-collection layer (Model/Regions.lean, property C05's model of
`AlignmentCollector.process`, `split_coverage_regions`, `forward_alignments`, the BAM storage).

The statement of C11 restricts region splitting to shifts by multiples of the coverage bin: the coverage dictionary is
keyed by `position // 256`, so a shift by `k = COVERAGE_BIN * j` moves every key by j and every split point by k, while a
shift by a non-multiple changes which bases share a bin — `split_shift_witness` shows a split point that stays put.
What does NOT depend on the bin grid is proved for EVERY k: the clusters of adjacent alignments, their regions and the
alignment statistics (`shift_equivariant_clusters`, `shift_equivariant_processStats`).
-/
import IsoVerif.Model.Regions
import IsoVerif.Model.C11SymRegions
import IsoVerif.Lemmas.C11Regions

namespace IsoVerif.Props.C11Regions
open IsoVerif.Gen IsoVerif.Model IsoVerif.Model.C11 IsoVerif.Model.Regions IsoVerif.Lemmas.C11

/-- bins move with the coordinates by whole bins -/
theorem shift_equivariant_bin (x j : Int) : bin (x + ap_COVERAGE_BIN * j) = bin x + j := rg_bin_shift x j

/-- **shift_equivariant_splitCoverageRegions** — for `k = COVERAGE_BIN * j`: the sub-regions of the shifted cluster
    (region moved by k, coverage dictionary moved by j bins, same read count) are the shifted sub-regions, for EVERY
    region, count and coverage dictionary (including the ones on which the loops raise: `none ↦ none`) -/
theorem shift_equivariant_splitCoverageRegions (j : Int) (R : Iv) (count : Nat) (d : CovDict) :
    splitCoverageRegions (shiftIv (ap_COVERAGE_BIN * j) R) count (shiftCov j d) =
      (splitCoverageRegions R count d).map (shiftL (ap_COVERAGE_BIN * j)) :=
  rg_splitCoverageRegions_shift j R count d

/-- the storage built from the shifted alignments holds the shifted region, the coverage dictionary moved by j bins and
    the shifted alignments -/
theorem shift_equivariant_buildStore (j : Int) (l : List Aln) :
    (buildStore (l.map (shiftAln (ap_COVERAGE_BIN * j)))).region = (buildStore l).region.map (shiftIv (ap_COVERAGE_BIN * j)) ∧
    (buildStore (l.map (shiftAln (ap_COVERAGE_BIN * j)))).cov = shiftCov j (buildStore l).cov ∧
    (buildStore (l.map (shiftAln (ap_COVERAGE_BIN * j)))).alns = (buildStore l).alns.map (shiftAln (ap_COVERAGE_BIN * j)) := by
  have h := rg_buildStore_view j l
  simp only [storeView, shiftView, Prod.mk.injEq] at h
  exact h

/-- splitting the cluster formed by the shifted alignments = shifting the split of the cluster -/
theorem shift_equivariant_split_of_alignments (j : Int) (l : List Aln) (R : Iv) (h : (buildStore l).region = some R) :
    splitCoverageRegions (shiftIv (ap_COVERAGE_BIN * j) R) (l.map (shiftAln (ap_COVERAGE_BIN * j))).length
        (buildStore (l.map (shiftAln (ap_COVERAGE_BIN * j)))).cov =
      (splitCoverageRegions R l.length (buildStore l).cov).map (shiftL (ap_COVERAGE_BIN * j)) := by
  rw [(shift_equivariant_buildStore j l).2.1, List.length_map]
  exact shift_equivariant_splitCoverageRegions j R l.length _

/-- **shift_equivariant_collect_bam** — default mode (`BAMAlignmentStorage`): everything `AlignmentCollector.process`
    yields for a chromosome whose alignments are shifted by `k = COVERAGE_BIN * j` — the `(region, alignments)` pairs in
    order — is the shifted output: same clusters, same sub-regions moved by k, the same alignments in each -/
theorem shift_equivariant_collect_bam (j : Int) (all : List Aln) :
    collect .bam (all.map (shiftAln (ap_COVERAGE_BIN * j))) = (collect .bam all).map (shiftOut (ap_COVERAGE_BIN * j)) :=
  rg_collect_bam_shift j all

/-- **shift_equivariant_clusters** — for EVERY k (no divisibility): the clusters of adjacent alignments and their
    regions are the shifted clusters / regions -/
theorem shift_equivariant_clusters (k : Int) (l : List Aln) :
    clusters (l.map (shiftAln k)) = (clusters l).map (List.map (shiftAln k)) ∧
    (processStores (l.map (shiftAln k))).map (·.region) = (processStores l).map (fun s => s.region.map (shiftIv k)) :=
  rg_clusters_shift k l

/-- the alignment statistics (`primary` / `secondary` / `supplementary` counts) do not see coordinates at all -/
theorem shift_equivariant_processStats (k : Int) (l : List Aln) : processStats (l.map (shiftAln k)) = processStats l :=
  rg_processStats_shift k l

/-- non-vacuity: one 40-kb alignment is split at bin 128; shifted by 256·3 the split point moves by 768 -/
example :
    splitCoverageRegions (0, 39999) 1 (buildStore [⟨0, 40000, false, false, true, 60, 1⟩]).cov
      = some [(0, 32768), (32769, 39999)] ∧
    splitCoverageRegions (shiftIv (ap_COVERAGE_BIN * 3) (0, 39999)) 1
        (buildStore [shiftAln (ap_COVERAGE_BIN * 3) ⟨0, 40000, false, false, true, 60, 1⟩]).cov
      = some [(768, 33536), (33537, 40767)] := by decide +kernel

/-- **split_shift_witness** — a shift by a non-multiple of the bin width can move a split differently: the same alignment
    shifted by 100 keeps its split point at 32768 (bin boundary) instead of 32868, so the sub-regions are NOT the shifted
    sub-regions -/
theorem split_shift_witness :
    splitCoverageRegions (0, 39999) 1 (buildStore [⟨0, 40000, false, false, true, 60, 1⟩]).cov
      = some [(0, 32768), (32769, 39999)] ∧
    splitCoverageRegions (shiftIv 100 (0, 39999)) 1 (buildStore [shiftAln 100 ⟨0, 40000, false, false, true, 60, 1⟩]).cov
      = some [(100, 32768), (32769, 40099)] ∧
    shiftL 100 [(0, 32768), (32769, 39999)] = [(100, 32868), (32869, 40099)] := by decide +kernel

end IsoVerif.Props.C11Regions
