/-
C16 (proof closure p16spec) — the finder theorems for the CURRENT tree: projection after the `P` repair
(`moveRefCoordFix`, docs/C16.md §9) and polyT head window after the window repair (`findPolytHeadWin`, §10.2).

(1) the characterisations (`…_char`), found-iff, range and record-level theorems of Props/C16FinderChar.lean /
    C16FinderSpec.lean / C16TailRecord.lean / C16TailExons.lean / C16FinderMirror.lean were stated for the `…Orig`
    projection (which raised on a `P` inside the walked tail); here they are proved for `findPolyaTailFix`,
    `findPolytHeadFix`, `findPolytHeadWin`, `detectPolyaWin` — the clause "no `P` is met on the way" is gone, nothing else
    changes;
(2) `find_polya_tail_fix_eq_spec`, `find_polyt_head_fix_eq_spec`, `find_polyt_head_win_fix_eq_spec`: the models equal the
    executable specifications the driver evaluates against the real code (`findPolyaTailSpecFix`, `findPolytHeadSpecFix`,
    `findPolytHeadSpecWin`) on every record with CIGAR lengths ≥ 0;
(3) `mirror_law_general`: the position law read ↔ mirror image for EVERY tail that starts inside the aligned part,
    `polyT(mirror) = max 1 (L − polyA − (k_A − k_T))`, and its closed form `mirror_law_offset`:
    `k_A − k_T` = (reference bases deleted / skipped between the first tail base and the base before it) +
    (1 if the base before the tail is aligned, 0 if it is an inserted base); `mirror_offset_witness`: offsets −2, −4, −1
    on three reads with the same tail, so no closed form in the polyA position alone exists.
-/
import IsoVerif.Lemmas.FinderFix
import IsoVerif.Props.C16FinderMirror
import IsoVerif.Props.C16TailRecord

namespace IsoVerif.Props.C16FinderFix
open IsoVerif.Gen IsoVerif.Model IsoVerif.Model.C16 IsoVerif.Lemmas.C16
open IsoVerif.Props.C16FinderMirror

/-! ### (2) model = executable specification -/

/-- **find_polya_tail_fix_eq_spec** — the repaired `find_polya_tail` equals its executable specification (brute-force
    scan + base-by-base projection, `P` transparent) on every record with CIGAR lengths ≥ 0 -/
theorem find_polya_tail_fix_eq_spec (w num den : Nat) (s : Int) (cigar : List CigarOp) (seq : List Char)
    (fromPos toPos : Int) (chk : Bool) (hnn : NonNeg cigar) :
    findPolyaTailFix w num den s cigar seq fromPos toPos chk =
      findPolyaTailSpecFix w num den s cigar seq fromPos toPos chk := by
  unfold findPolyaTailFix findPolyaTailSpecFix
  by_cases hne : cigar = []
  · simp [findPolyaTailWith, findPolyaTailSpecWith, hne]
  by_cases hseq : seq = []
  · simp [findPolyaTailWith, findPolyaTailSpecWith, hne, hseq]
  by_cases hclip : softClipTail cigar < seq.length
  · rw [findPolyaTailWith_unfold _ w num den s cigar seq fromPos toPos chk hne hseq hclip, tailScan_eq_spec]
    unfold findPolyaTailSpecWith
    have hc' : ¬ ((seq.length : Int) ≤ softClipTail cigar) := by omega
    simp only [hne, hseq, hc', if_false]
    cases tailScanSpec w num den chk (regionA cigar seq fromPos toPos) with
    | none => rfl
    | some p =>
      simp only
      split
      · rfl
      · rw [C16Pad.move_ref_coord_fix_eq_spec cigar _ hnn]
  · have hc' : (seq.length : Int) ≤ softClipTail cigar := by omega
    simp [findPolyaTailWith, findPolyaTailSpecWith, hne, hseq, hclip, hc']

/-- **find_polyt_head_fix_eq_spec** — the same for `find_polyt_head` with the `P` repair (old window) -/
theorem find_polyt_head_fix_eq_spec (w num den : Nat) (s : Int) (cigar : List CigarOp) (seq : List Char)
    (fromPos toPos : Int) (chk : Bool) (hnn : NonNeg cigar) :
    findPolytHeadFix w num den s cigar seq fromPos toPos chk =
      findPolytHeadSpecFix w num den s cigar seq fromPos toPos chk := by
  unfold findPolytHeadFix findPolytHeadSpecFix
  by_cases hne : cigar = []
  · simp [findPolytHeadWith, findPolytHeadSpecWith, hne]
  by_cases hseq : seq = []
  · simp [findPolytHeadWith, findPolytHeadSpecWith, hne, hseq]
  by_cases hclip : softClipHead cigar < seq.length
  · rw [findPolytHeadWith_unfold _ w num den s cigar seq fromPos toPos chk hne hseq hclip, tailScan_eq_spec]
    unfold findPolytHeadSpecWith
    have hc' : ¬ ((seq.length : Int) ≤ softClipHead cigar) := by omega
    simp only [hne, hseq, hc', if_false]
    cases tailScanSpec w num den chk (regionT cigar seq fromPos toPos) with
    | none => rfl
    | some p =>
      simp only
      split
      · rfl
      · rw [C16Pad.move_ref_coord_fix_eq_spec cigar _ hnn]
  · have hc' : (seq.length : Int) ≤ softClipHead cigar := by omega
    simp [findPolytHeadWith, findPolytHeadSpecWith, hne, hseq, hclip, hc']

/-- the function of the current tree is the `P`-repaired one at the shifted arguments -/
theorem find_polyt_head_win_fix (w num den : Nat) (s : Int) (cigar : List CigarOp) (seq : List Char) (f t : Int)
    (chk : Bool) :
    findPolytHeadWin w num den s cigar seq f t chk = findPolytHeadFix w num den s cigar seq (f - 1) (t + 1) chk := by
  unfold findPolytHeadWin findPolytHeadFix
  exact find_polyt_head_win_eq _ w num den s cigar seq f t chk

/-- **find_polyt_head_win_fix_eq_spec** — `find_polyt_head` of the current tree (both repairs) equals the executable
    specification `findPolytHeadSpecWin` that the driver evaluates against the real code (op `find_polyt_head_spec`), on
    every record with CIGAR lengths ≥ 0 — the link that was "by correspondence only" -/
theorem find_polyt_head_win_fix_eq_spec (w num den : Nat) (s : Int) (cigar : List CigarOp) (seq : List Char)
    (f t : Int) (chk : Bool) (hnn : NonNeg cigar) :
    findPolytHeadWin w num den s cigar seq f t chk = findPolytHeadSpecWin w num den s cigar seq f t chk := by
  rw [find_polyt_head_win_fix, find_polyt_head_spec_win_eq]
  exact find_polyt_head_fix_eq_spec w num den s cigar seq (f - 1) (t + 1) chk hnn

/-- non-vacuity: the record of `pad_in_tail_witness` (a `P` inside the walked tail) and its mirror image -/
example :
    NonNeg C16Pad.padCigar ∧
    findPolyaTailSpecFix 2 1 1 10 C16Pad.padCigar "CCAAAAA".toList 6 2 false = some 12 ∧
    findPolytHeadSpecWin 2 1 1 10 C16Pad.padCigar.reverse "TTTTTGG".toList 6 2 false = some 12 := by
  refine ⟨?_, by decide +kernel, by decide +kernel⟩
  intro o ho
  simp [C16Pad.padCigar] at ho
  rcases ho with rfl | rfl | rfl | rfl <;> decide

/-! ### (1) the reported reference position, as a relation — current projection -/

/-- **find_polya_tail_fix_char** — `find_polya_tail_char` for the repaired projection: on a record that passes the guards
    the call returns `r` ⇔ no position of the checked sequence satisfies `TailStart` and `r = −1`, or `p` is the
    position with `TailStart`, `q = to_check_start + p`, and `r = reference_end + (q − mapped end)` when `q` lies in the
    soft clip, `r = reference_end − k` with `k` the base-by-base backward projection of the base `mapped end − q` bases
    inside the alignment otherwise.  No clause about `P` operations. -/
theorem find_polya_tail_fix_char (w num den : Nat) (s : Int) (cigar : List CigarOp) (seq : List Char)
    (fromPos toPos : Int) (chk : Bool) (hne : cigar ≠ []) (hseq : seq ≠ [])
    (hclip : softClipTail cigar < seq.length) (hnn : NonNeg cigar) (r : Int) :
    findPolyaTailFix w num den s cigar seq fromPos toPos chk = some r ↔
      ((∀ p, ¬ TailStart w num den chk (regionA cigar seq fromPos toPos) p) ∧ r = -1) ∨
      (∃ p, TailStart w num den chk (regionA cigar seq fromPos toPos) p ∧
        (((seq.length : Int) - softClipTail cigar ≤ startA cigar seq fromPos + p ∧
            r = referenceEnd s cigar + (startA cigar seq fromPos + p - ((seq.length : Int) - softClipTail cigar))) ∨
         (startA cigar seq fromPos + p < (seq.length : Int) - softClipTail cigar ∧
            ∃ k, ProjectsTo (expand (walkCore cigar false))
                ((seq.length : Int) - softClipTail cigar - (startA cigar seq fromPos + p)).toNat k ∧
              r = referenceEnd s cigar - k))) := by
  unfold findPolyaTailFix
  rw [findPolyaTailWith_unfold _ w num den s cigar seq fromPos toPos chk hne hseq hclip]
  obtain ⟨hsome, hnone⟩ := C16FinderChar.tail_scan_char w num den chk (regionA cigar seq fromPos toPos)
  cases hts : tailScan w num den chk (regionA cigar seq fromPos toPos) with
  | none =>
    have hno := hnone.1 hts
    simp only [Option.some.injEq]
    constructor
    · intro h; exact Or.inl ⟨hno, h.symm⟩
    · rintro (⟨_, h⟩ | ⟨p, hp, _⟩)
      · exact h.symm
      · exact absurd hp (hno p)
  | some p =>
    have hp := (hsome p).1 hts
    simp only
    by_cases hge : (seq.length : Int) - softClipTail cigar ≤ startA cigar seq fromPos + p
    · rw [if_pos hge]
      simp only [Option.some.injEq]
      constructor
      · intro h; exact Or.inr ⟨p, hp, Or.inl ⟨hge, h.symm⟩⟩
      · rintro (⟨hno, _⟩ | ⟨p', hp', hcase⟩)
        · exact absurd hp (hno p)
        · have := TailStart_unique hp' hp
          subst this
          rcases hcase with ⟨_, h⟩ | ⟨hlt, _⟩
          · exact h.symm
          · omega
    · rw [if_neg hge]
      have hsh : startA cigar seq fromPos + p - ((seq.length : Int) - softClipTail cigar) ≠ 0 := by omega
      have hdec : decide (startA cigar seq fromPos + p - ((seq.length : Int) - softClipTail cigar) > 0) = false := by
        simp; omega
      have hnat : (startA cigar seq fromPos + p - ((seq.length : Int) - softClipTail cigar)).natAbs =
          ((seq.length : Int) - softClipTail cigar - (startA cigar seq fromPos + p)).toNat := by omega
      have key : ∀ k, moveRefCoordFix cigar (startA cigar seq fromPos + p - ((seq.length : Int) - softClipTail cigar)) = some k ↔
          ProjectsTo (expand (walkCore cigar false))
            ((seq.length : Int) - softClipTail cigar - (startA cigar seq fromPos + p)).toNat k := by
        intro k
        have := moveRefCoordFix_some_iff cigar _ k hnn hsh hne
        rw [hdec, hnat] at this
        exact this
      constructor
      · intro h
        cases hm : moveRefCoordFix cigar (startA cigar seq fromPos + p - ((seq.length : Int) - softClipTail cigar)) with
        | none => rw [hm] at h; cases h
        | some k =>
          rw [hm] at h
          simp only [Option.map_some, Option.some.injEq] at h
          exact Or.inr ⟨p, hp, Or.inr ⟨by omega, k, (key k).1 hm, h.symm⟩⟩
      · rintro (⟨hno, _⟩ | ⟨p', hp', hcase⟩)
        · exact absurd hp (hno p)
        · have := TailStart_unique hp' hp
          subst this
          rcases hcase with ⟨h, _⟩ | ⟨_, k, k2, hr⟩
          · omega
          · rw [(key k).2 k2, hr]; rfl

/-- **find_polyt_head_fix_char** — mirror statement (old window, repaired projection) -/
theorem find_polyt_head_fix_char (w num den : Nat) (s : Int) (cigar : List CigarOp) (seq : List Char)
    (fromPos toPos : Int) (chk : Bool) (hne : cigar ≠ []) (hseq : seq ≠ [])
    (hclip : softClipHead cigar < seq.length) (hnn : NonNeg cigar) (r : Int) :
    findPolytHeadFix w num den s cigar seq fromPos toPos chk = some r ↔
      ((∀ p, ¬ TailStart w num den chk (regionT cigar seq fromPos toPos) p) ∧ r = -1) ∨
      (∃ p, TailStart w num den chk (regionT cigar seq fromPos toPos) p ∧
        ((stopT cigar seq fromPos - p - 1 ≤ softClipHead cigar ∧
            r = max 1 (s - (softClipHead cigar - (stopT cigar seq fromPos - p - 1)))) ∨
         (softClipHead cigar < stopT cigar seq fromPos - p - 1 ∧
            ∃ k, ProjectsTo (expand (walkCore cigar true)) (stopT cigar seq fromPos - p - 1 - softClipHead cigar).toNat k ∧
              r = max 1 (s + k)))) := by
  unfold findPolytHeadFix
  rw [findPolytHeadWith_unfold _ w num den s cigar seq fromPos toPos chk hne hseq hclip]
  obtain ⟨hsome, hnone⟩ := C16FinderChar.tail_scan_char w num den chk (regionT cigar seq fromPos toPos)
  cases hts : tailScan w num den chk (regionT cigar seq fromPos toPos) with
  | none =>
    have hno := hnone.1 hts
    simp only [Option.some.injEq]
    constructor
    · intro h; exact Or.inl ⟨hno, h.symm⟩
    · rintro (⟨_, h⟩ | ⟨p, hp, _⟩)
      · exact h.symm
      · exact absurd hp (hno p)
  | some p =>
    have hp := (hsome p).1 hts
    simp only
    by_cases hle : stopT cigar seq fromPos - p - 1 ≤ softClipHead cigar
    · rw [if_pos hle]
      simp only [Option.some.injEq]
      constructor
      · intro h; exact Or.inr ⟨p, hp, Or.inl ⟨hle, h.symm⟩⟩
      · rintro (⟨hno, _⟩ | ⟨p', hp', hcase⟩)
        · exact absurd hp (hno p)
        · have := TailStart_unique hp' hp
          subst this
          rcases hcase with ⟨_, h⟩ | ⟨hlt, _⟩
          · exact h.symm
          · omega
    · rw [if_neg hle]
      have hsh : stopT cigar seq fromPos - p - 1 - softClipHead cigar ≠ 0 := by omega
      have hdec : decide (stopT cigar seq fromPos - p - 1 - softClipHead cigar > 0) = true := by
        simp; omega
      have hnat : (stopT cigar seq fromPos - p - 1 - softClipHead cigar).natAbs =
          (stopT cigar seq fromPos - p - 1 - softClipHead cigar).toNat := by omega
      have key : ∀ k, moveRefCoordFix cigar (stopT cigar seq fromPos - p - 1 - softClipHead cigar) = some k ↔
          ProjectsTo (expand (walkCore cigar true)) (stopT cigar seq fromPos - p - 1 - softClipHead cigar).toNat k := by
        intro k
        have := moveRefCoordFix_some_iff cigar _ k hnn hsh hne
        rw [hdec, hnat] at this
        exact this
      constructor
      · intro h
        cases hm : moveRefCoordFix cigar (stopT cigar seq fromPos - p - 1 - softClipHead cigar) with
        | none => rw [hm] at h; cases h
        | some k =>
          rw [hm] at h
          simp only [Option.map_some, Option.some.injEq] at h
          exact Or.inr ⟨p, hp, Or.inr ⟨by omega, k, (key k).1 hm, h.symm⟩⟩
      · rintro (⟨hno, _⟩ | ⟨p', hp', hcase⟩)
        · exact absurd hp (hno p)
        · have := TailStart_unique hp' hp
          subst this
          rcases hcase with ⟨h, _⟩ | ⟨_, k, k2, hr⟩
          · omega
          · rw [(key k).2 k2, hr]; rfl

/-- **find_polyt_head_win_fix_char** — the complete `↔` for `find_polyt_head` of the current tree (repaired window,
    repaired projection): `find_polyt_head_win_char` without the clause about `P` -/
theorem find_polyt_head_win_fix_char (w num den : Nat) (s : Int) (cigar : List CigarOp) (seq : List Char)
    (f t : Int) (chk : Bool) (hne : cigar ≠ []) (hseq : seq ≠ [])
    (hclip : softClipHead cigar < seq.length) (hnn : NonNeg cigar) (r : Int) :
    findPolytHeadWin w num den s cigar seq f t chk = some r ↔
      ((∀ p, ¬ TailStart w num den chk (regionTWin cigar seq f t) p) ∧ r = -1) ∨
      (∃ p, TailStart w num den chk (regionTWin cigar seq f t) p ∧
        ((stopTWin cigar seq f - p - 1 ≤ softClipHead cigar ∧
            r = max 1 (s - (softClipHead cigar - (stopTWin cigar seq f - p - 1)))) ∨
         (softClipHead cigar < stopTWin cigar seq f - p - 1 ∧
            ∃ k, ProjectsTo (expand (walkCore cigar true)) (stopTWin cigar seq f - p - 1 - softClipHead cigar).toNat k ∧
              r = max 1 (s + k)))) := by
  rw [find_polyt_head_win_fix, (region_t_win_eq cigar seq f t).1, (region_t_win_eq cigar seq f t).2]
  exact find_polyt_head_fix_char w num den s cigar seq (f - 1) (t + 1) chk hne hseq hclip hnn r

/-- non-vacuity of the three characterisations: the guards hold and a position is reported through a `P` -/
example :
    C16Pad.padCigar ≠ [] ∧ softClipTail C16Pad.padCigar < ("CCAAAAA".toList.length : Int) ∧
    findPolyaTailFix 2 1 1 10 C16Pad.padCigar "CCAAAAA".toList 6 2 false = some 12 ∧
    findPolytHeadFix 2 1 1 10 C16Pad.padCigar.reverse "TTTTTGG".toList 5 3 false = some 12 ∧
    findPolytHeadWin 2 1 1 10 C16Pad.padCigar.reverse "TTTTTGG".toList 6 2 false = some 12 := by
  refine ⟨by decide, by decide, by decide +kernel, by decide +kernel, by decide +kernel⟩

/-! ### (1) ranges — current projection -/

/-- **polya_fix_position_in_range** — `polya_position_in_range` for the repaired `find_polya_tail` (every record,
    including those with a `P` inside the walked tail) -/
theorem polya_fix_position_in_range (w num den : Nat) (hw : 1 ≤ w) (s : Int) (cigar : List CigarOp) (seq : List Char)
    (fromPos toPos : Int) (chk : Bool) (hne : cigar ≠ []) (hseq : seq ≠ [])
    (hclip : softClipTail cigar < seq.length) (hnn : NonNeg cigar) (p : Nat)
    (hts : tailScan w num den chk (regionA cigar seq fromPos toPos) = some p) (r : Int)
    (hr : findPolyaTailFix w num den s cigar seq fromPos toPos chk = some r) :
    s + 1 ≤ r ∧ r ≤ referenceEnd s cigar + max 1 (softClipTail cigar) ∧
    (WalkOnRef cigar false → r ≤ referenceEnd s cigar + softClipTail cigar) := by
  unfold findPolyaTailFix at hr
  rw [findPolyaTailWith_unfold _ w num den s cigar seq fromPos toPos chk hne hseq hclip, hts] at hr
  simp only at hr
  obtain ⟨hs0, hq⟩ := startA_add_lt w num den hw chk cigar seq fromPos toPos p hts
  have hc0 := softClipTail_nonneg hnn
  obtain ⟨g1, g2⟩ := referenceEnd_ge s cigar hnn
  by_cases hge : (seq.length : Int) - softClipTail cigar ≤ startA cigar seq fromPos + p
  · rw [if_pos hge] at hr
    have := Option.some.inj hr
    omega
  · rw [if_neg hge] at hr
    cases hm : moveRefCoordFix cigar (startA cigar seq fromPos + p - ((seq.length : Int) - softClipTail cigar)) with
    | none => rw [hm] at hr; cases hr
    | some k =>
      rw [hm] at hr
      simp only [Option.map_some, Option.some.injEq] at hr
      have hsh : startA cigar seq fromPos + p - ((seq.length : Int) - softClipTail cigar) ≠ 0 := by omega
      obtain ⟨_, h2, h3, h4⟩ := moveRefCoordFix_some cigar _ k hnn hsh hm
      have hdec : decide (startA cigar seq fromPos + p - ((seq.length : Int) - softClipTail cigar) > 0) = false := by
        simp; omega
      rw [hdec] at h4
      refine ⟨by omega, by omega, fun hw' => ?_⟩
      have := h4 hw'
      omega

/-- **polyt_fix_position_in_range** — `polyt_position_in_range` for the repaired projection (old window) -/
theorem polyt_fix_position_in_range (w num den : Nat) (hw : 1 ≤ w) (s : Int) (cigar : List CigarOp) (seq : List Char)
    (fromPos toPos : Int) (chk : Bool) (hne : cigar ≠ []) (hseq : seq ≠ [])
    (hclip : softClipHead cigar < seq.length) (hnn : NonNeg cigar) (p : Nat)
    (hts : tailScan w num den chk (regionT cigar seq fromPos toPos) = some p) (r : Int)
    (hr : findPolytHeadFix w num den s cigar seq fromPos toPos chk = some r) :
    max 1 (s - max 1 (softClipHead cigar)) ≤ r ∧ r ≤ max 1 (referenceEnd s cigar - 1) ∧
    (WalkOnRef cigar true → max 1 (s - softClipHead cigar) ≤ r) := by
  unfold findPolytHeadFix at hr
  rw [findPolytHeadWith_unfold _ w num den s cigar seq fromPos toPos chk hne hseq hclip, hts] at hr
  simp only at hr
  have hq := stopT_sub_nonneg w num den hw chk cigar seq fromPos toPos p hts
  have hc0 := softClipHead_nonneg hnn
  obtain ⟨g1, g2⟩ := referenceEnd_ge s cigar hnn
  by_cases hle : stopT cigar seq fromPos - p - 1 ≤ softClipHead cigar
  · rw [if_pos hle] at hr
    have := Option.some.inj hr
    omega
  · rw [if_neg hle] at hr
    cases hm : moveRefCoordFix cigar (stopT cigar seq fromPos - p - 1 - softClipHead cigar) with
    | none => rw [hm] at hr; cases hr
    | some k =>
      rw [hm] at hr
      simp only [Option.map_some, Option.some.injEq] at hr
      have hsh : stopT cigar seq fromPos - p - 1 - softClipHead cigar ≠ 0 := by omega
      obtain ⟨_, h2, h3, h4⟩ := moveRefCoordFix_some cigar _ k hnn hsh hm
      have hdec : decide (stopT cigar seq fromPos - p - 1 - softClipHead cigar > 0) = true := by
        simp; omega
      rw [hdec] at h4
      refine ⟨by omega, by omega, fun hw' => ?_⟩
      have := h4 hw'
      omega

/-- **polyt_win_fix_position_in_range** — the range for `find_polyt_head` of the current tree -/
theorem polyt_win_fix_position_in_range (w num den : Nat) (hw : 1 ≤ w) (s : Int) (cigar : List CigarOp)
    (seq : List Char) (f t : Int) (chk : Bool) (hne : cigar ≠ []) (hseq : seq ≠ [])
    (hclip : softClipHead cigar < seq.length) (hnn : NonNeg cigar) (p : Nat)
    (hts : tailScan w num den chk (regionTWin cigar seq f t) = some p) (r : Int)
    (hr : findPolytHeadWin w num den s cigar seq f t chk = some r) :
    max 1 (s - max 1 (softClipHead cigar)) ≤ r ∧ r ≤ max 1 (referenceEnd s cigar - 1) ∧
    (WalkOnRef cigar true → max 1 (s - softClipHead cigar) ≤ r) := by
  rw [(region_t_win_eq cigar seq f t).1] at hts
  rw [find_polyt_head_win_fix] at hr
  exact polyt_fix_position_in_range w num den hw s cigar seq (f - 1) (t + 1) chk hne hseq hclip hnn p hts r hr

/-- non-vacuity of the range theorems on a record with a `P` inside the walked tail -/
example :
    tailScan 2 1 1 false (regionA C16Pad.padCigar "CCAAAAA".toList 6 2) = some 2 ∧
    findPolyaTailFix 2 1 1 10 C16Pad.padCigar "CCAAAAA".toList 6 2 false = some 12 ∧
    tailScan 2 1 1 false (regionTWin C16Pad.padCigar.reverse "TTTTTGG".toList 6 2) = some 2 ∧
    findPolytHeadWin 2 1 1 10 C16Pad.padCigar.reverse "TTTTTGG".toList 6 2 false = some 12 := by
  refine ⟨by decide +kernel, by decide +kernel, by decide +kernel, by decide +kernel⟩

/-! ### (1) found ⇔ specification — current projection -/

/-- **find_polya_tail_fix_found_iff** — the repaired `find_polya_tail` answers −1 exactly when no position satisfies
    `TailStart` (`reference_start ≥ 0`) -/
theorem find_polya_tail_fix_found_iff (w num den : Nat) (hw : 1 ≤ w) (s : Int) (cigar : List CigarOp) (seq : List Char)
    (fromPos toPos : Int) (chk : Bool) (hs : 0 ≤ s) (hne : cigar ≠ []) (hseq : seq ≠ [])
    (hclip : softClipTail cigar < seq.length) (hnn : NonNeg cigar) :
    findPolyaTailFix w num den s cigar seq fromPos toPos chk = some (-1) ↔
      ∀ p, ¬ TailStart w num den chk (regionA cigar seq fromPos toPos) p := by
  obtain ⟨hsome, hnone⟩ := C16FinderChar.tail_scan_char w num den chk (regionA cigar seq fromPos toPos)
  constructor
  · intro h
    cases hts : tailScan w num den chk (regionA cigar seq fromPos toPos) with
    | none => exact hnone.1 hts
    | some p =>
      have := polya_fix_position_in_range w num den hw s cigar seq fromPos toPos chk hne hseq hclip hnn p hts (-1) h
      omega
  · intro h
    unfold findPolyaTailFix
    rw [findPolyaTailWith_unfold _ w num den s cigar seq fromPos toPos chk hne hseq hclip, hnone.2 h]

/-- **find_polyt_head_win_fix_found_iff** — the same for `find_polyt_head` of the current tree -/
theorem find_polyt_head_win_fix_found_iff (w num den : Nat) (hw : 1 ≤ w) (s : Int) (cigar : List CigarOp)
    (seq : List Char) (f t : Int) (chk : Bool) (hne : cigar ≠ []) (hseq : seq ≠ [])
    (hclip : softClipHead cigar < seq.length) (hnn : NonNeg cigar) :
    findPolytHeadWin w num den s cigar seq f t chk = some (-1) ↔
      ∀ p, ¬ TailStart w num den chk (regionTWin cigar seq f t) p := by
  obtain ⟨hsome, hnone⟩ := C16FinderChar.tail_scan_char w num den chk (regionTWin cigar seq f t)
  constructor
  · intro h
    cases hts : tailScan w num den chk (regionTWin cigar seq f t) with
    | none => exact hnone.1 hts
    | some p =>
      have := polyt_win_fix_position_in_range w num den hw s cigar seq f t chk hne hseq hclip hnn p hts (-1) h
      omega
  · intro h
    rw [find_polyt_head_win_fix]
    unfold findPolytHeadFix
    rw [findPolytHeadWith_unfold _ w num den s cigar seq (f - 1) (t + 1) chk hne hseq hclip,
      ← (region_t_win_eq cigar seq f t).1, hnone.2 h]

example : ∀ p, ¬ TailStart 2 1 1 false (regionA C16Pad.padCigar "CCCCCCC".toList 6 2) p := by
  have h := (C16FinderChar.tail_scan_char 2 1 1 false (regionA C16Pad.padCigar "CCCCCCC".toList 6 2)).2.1
  exact h (by decide +kernel)

/-! ### (1) one record — positions from `detect_polya` of the current tree -/

/-- **detected_positions_in_range_fix** — every position `detect_polya` of the current tree (both finder repairs)
    reports is −1 or lies in the ranges of `detected_positions_in_range`; EVERY record with CIGAR lengths ≥ 0 -/
theorem detected_positions_in_range_fix (w num den : Nat) (hw : 1 ≤ w) (s : Int) (cigar : List CigarOp)
    (seq : List Char) (hnn : NonNeg cigar) (info : PolyAInfo)
    (h : detectPolyaWin w num den s cigar seq = some info) :
    (∀ x, (x = info.internalPolyA ∨ x = info.externalPolyA) → x ≠ -1 →
      s + 1 ≤ x ∧ x ≤ referenceEnd s cigar + max 1 (softClipTail cigar)) ∧
    (∀ x, (x = info.internalPolyT ∨ x = info.externalPolyT) → x ≠ -1 →
      max 1 (s - max 1 (softClipHead cigar)) ≤ x ∧ x ≤ max 1 (referenceEnd s cigar - 1)) := by
  unfold detectPolyaWin detectPolyaWinWith at h
  simp only [Option.bind_eq_bind, Option.bind_eq_some_iff, Option.some.injEq] at h
  obtain ⟨ea, hea, et, het, ia, hia, it, hit, rfl⟩ := h
  have keyA : ∀ fromPos toPos chk x, findPolyaTailFix w num den s cigar seq fromPos toPos chk = some x → x ≠ -1 →
      s + 1 ≤ x ∧ x ≤ referenceEnd s cigar + max 1 (softClipTail cigar) := by
    intro fromPos toPos chk x hx hne
    obtain ⟨h1, h2, h3, p, hp⟩ := polya_found_with _ w num den s cigar seq fromPos toPos chk x hx hne
    have := polya_fix_position_in_range w num den hw s cigar seq fromPos toPos chk h1 h2 h3 hnn p hp x hx
    exact ⟨this.1, this.2.1⟩
  have keyT : ∀ fromPos toPos chk x, findPolytHeadWin w num den s cigar seq fromPos toPos chk = some x →
      x ≠ -1 → max 1 (s - max 1 (softClipHead cigar)) ≤ x ∧ x ≤ max 1 (referenceEnd s cigar - 1) := by
    intro fromPos toPos chk x hx hne
    rw [find_polyt_head_win_fix] at hx
    obtain ⟨h1, h2, h3, p, hp⟩ := polyt_found_with _ w num den s cigar seq _ _ chk x hx hne
    have := polyt_fix_position_in_range w num den hw s cigar seq _ _ chk h1 h2 h3 hnn p hp x hx
    exact ⟨this.1, this.2.1⟩
  constructor
  · rintro x (rfl | rfl) hx
    · exact keyA _ _ _ _ hia hx
    · exact keyA _ _ _ _ hea hx
  · rintro x (rfl | rfl) hx
    · exact keyT _ _ _ _ hit hx
    · exact keyT _ _ _ _ het hx

/-- **record_tail_on_retained_exon_fix** — `record_tail_on_retained_exon` with the tail positions of `detect_polya` of
    the CURRENT tree (`detectPolyaWin`: repaired window + repaired projection) -/
theorem record_tail_on_retained_exon_fix (w num den : Nat) (hw : 1 ≤ w) (s : Int) (ops : List CigarOp)
    (seq : List Char) (mf : Int) (info : PolyAInfo) (hs : 0 ≤ s) (hp : Pos ops)
    (hdet : detectPolyaWin w num den s ops seq = some info)
    (hne : (getReadBlocks s ops).refBlocks ≠ []) :
    ∃ (r : AInfo) (a t : Int),
      addPolyaInfo mf (getReadBlocks s ops).refBlocks (getReadBlocks s ops).readBlocks
        (getReadBlocks s ops).cigarBlocks info = some r ∧
      correctReadInfo mf (getReadBlocks s ops).refBlocks info = some (a, t) ∧
      (0 < a → ∃ lastKept firstRemoved : Iv, r.exons.getLast? = some lastKept ∧
        (getReadBlocks s ops).refBlocks[(getReadBlocks s ops).refBlocks.length - a.toNat]? = some firstRemoved ∧
        lastKept.2 < firstRemoved.1 ∧ firstRemoved.2 ≤ referenceEnd s ops ∧
        (info.internalPolyA = -1 → r.info.internalPolyA = -1) ∧
        (info.internalPolyA ≠ -1 → lastKept.2 ≤ r.info.internalPolyA ∧
          r.info.internalPolyA ≤ lastKept.2 + max 0 (firstRemoved.2 - firstRemoved.1 - 1)) ∧
        (info.externalPolyA = -1 → r.info.externalPolyA = -1) ∧
        (info.externalPolyA ≠ -1 → lastKept.2 ≤ r.info.externalPolyA ∧
          r.info.externalPolyA ≤ r.info.internalPolyA)) ∧
      (countPolyaExons mf (getReadBlocks s ops).refBlocks info.internalPolyA = 0 → info.internalPolyA ≠ -1 →
        ∃ last : Iv, (getReadBlocks s ops).refBlocks.getLast? = some last ∧
          r.info.internalPolyA = info.internalPolyA ∧ last.1 ≤ r.info.internalPolyA ∧
          r.info.internalPolyA ≤ referenceEnd s ops + max 1 (softClipTail ops)) ∧
      (0 < t → ∃ firstKept lastRemoved : Iv, r.exons.head? = some firstKept ∧
        (getReadBlocks s ops).refBlocks[t.toNat - 1]? = some lastRemoved ∧
        lastRemoved.2 < firstKept.1 ∧ s + 1 ≤ lastRemoved.1 ∧
        (∀ old new, (old = info.internalPolyT ∧ new = r.info.internalPolyT) ∨
            (old = info.externalPolyT ∧ new = r.info.externalPolyT) →
          (old = -1 → new = -1) ∧
          (old ≠ -1 → new ≤ firstKept.1 ∧
            firstKept.1 - (lastRemoved.2 - max 1 (s - max 1 (softClipHead ops))) ≤ new)) ∧
        (info.externalPolyT ≠ -1 → r.info.internalPolyT ≤ r.info.externalPolyT)) ∧
      (countPolytExons mf (getReadBlocks s ops).refBlocks info.internalPolyT = 0 → info.internalPolyT ≠ -1 →
        ∃ first : Iv, (getReadBlocks s ops).refBlocks.head? = some first ∧
          r.info.internalPolyT = info.internalPolyT ∧ r.info.internalPolyT ≤ first.2 ∧
          max 1 (s - max 1 (softClipHead ops)) ≤ r.info.internalPolyT) := by
  obtain ⟨hrA, hrT⟩ := detected_positions_in_range_fix w num den hw s ops seq hp.nonneg info hdet
  exact C16TailRecord.record_tail_on_retained_exon_of_ranges s ops mf info hs hp hrA hrT hne

/-- non-vacuity: a record whose fake terminal exon holds a `P` inside the walked tail (`60M 100N 10M 1P 10M 20S`, 62 C +
    38 A): the old `detect_polya` raises, the current one reports (1178, −1, 1162, −1) -/
example :
    let ops : List CigarOp := [(.«match», 60), (.skipped, 100), (.«match», 10), (.padding, 1), (.«match», 10), (.soft_clipping, 20)]
    let seq : List Char := List.replicate 62 'C' ++ List.replicate 38 'A'
    Pos ops ∧ detectPolya 16 3 4 1000 ops seq = none ∧
    detectPolyaWin 16 3 4 1000 ops seq = some ⟨1178, -1, 1162, -1⟩ ∧
    (getReadBlocks 1000 ops).refBlocks = [(1001, 1060), (1161, 1180)] := by
  refine ⟨?_, by decide +kernel, by decide +kernel, by decide +kernel⟩
  intro o ho; simp at ho; rcases ho with h | h | h | h | h | h <;> subst h <;> decide

/-- **record_removed_exons_are_tail_fix** — `record_removed_exons_are_tail` with the positions of `detect_polya` of the
    current tree: for each exon removed at the 3' end the repaired `find_polya_tail` returned the recorded `x ≠ −1`,
    `TailStart` holds somewhere in the scanned region and the exon passes the per-exon test; mirror at the 5' end with
    the repaired window `regionTWin` -/
theorem record_removed_exons_are_tail_fix (w num den : Nat) (s : Int) (ops : List CigarOp)
    (seq : List Char) (mf : Int) (info : PolyAInfo) (hs : 0 ≤ s) (hp : Pos ops)
    (hdet : detectPolyaWin w num den s ops seq = some info)
    (hne : (getReadBlocks s ops).refBlocks ≠ []) :
    ∃ (r : AInfo) (a t : Int),
      addPolyaInfo mf (getReadBlocks s ops).refBlocks (getReadBlocks s ops).readBlocks
        (getReadBlocks s ops).cigarBlocks info = some r ∧
      correctReadInfo mf (getReadBlocks s ops).refBlocks info = some (a, t) ∧
      r.exons = ((getReadBlocks s ops).refBlocks.take ((getReadBlocks s ops).refBlocks.length - a.toNat)).drop t.toNat ∧
      (∀ e ∈ (getReadBlocks s ops).refBlocks.drop ((getReadBlocks s ops).refBlocks.length - a.toNat),
        info.internalPolyA ≠ -1 ∧
        findPolyaTailFix w num den s ops seq (4 * (w : Int)) 2 true = some info.internalPolyA ∧
        (∃ p, TailStart w num den true (regionA ops seq (4 * (w : Int)) 2) p) ∧
        info.internalPolyA < e.2 ∧
        (info.internalPolyA ≤ e.1 ∨
          (info.internalPolyA - e.1 ≤ mf ∧ 2 * (info.internalPolyA - e.1) < e.2 - info.internalPolyA))) ∧
      (∀ e ∈ (getReadBlocks s ops).refBlocks.take t.toNat,
        info.internalPolyT ≠ -1 ∧
        findPolytHeadWin w num den s ops seq (4 * (w : Int)) 2 true = some info.internalPolyT ∧
        (∃ p, TailStart w num den true (regionTWin ops seq (4 * (w : Int)) 2) p) ∧
        e.1 < info.internalPolyT ∧
        (e.2 ≤ info.internalPolyT ∨
          (e.2 - info.internalPolyT ≤ mf ∧ 2 * (e.2 - info.internalPolyT) < info.internalPolyT - e.1))) := by
  have hnn := hp.nonneg
  have hsw := C16.exons_sorted_wf s ops hs hp
  have hsd : SD (getReadBlocks s ops).refBlocks := ⟨fun e he => (hsw.1 e he).2, hsw.2⟩
  obtain ⟨r, a, t, hr, hcri, _, hre, hA, hT, _⟩ :=
    C16TailExons.trimmed_exons_are_tail_exons mf _ (getReadBlocks s ops).readBlocks (getReadBlocks s ops).cigarBlocks info hsd hne
  unfold detectPolyaWin detectPolyaWinWith at hdet
  simp only [Option.bind_eq_bind, Option.bind_eq_some_iff, Option.some.injEq] at hdet
  obtain ⟨ea, hea, et, het, ia, hia, it, hit, rfl⟩ := hdet
  refine ⟨r, a, t, hr, hcri, hre, ?_, ?_⟩
  · intro e he
    obtain ⟨hx, hc⟩ := hA e he
    obtain ⟨g1, g2, g3, _⟩ := polya_found_with _ w num den s ops seq _ _ _ _ hia hx
    have hchar := (find_polya_tail_fix_char w num den s ops seq _ _ true g1 g2 g3 hnn ia).1 hia
    have hts : ∃ p, TailStart w num den true (regionA ops seq (4 * (w : Int)) 2) p := by
      rcases hchar with ⟨_, h⟩ | ⟨p, hp', _⟩
      · exact absurd h hx
      · exact ⟨p, hp'⟩
    obtain ⟨c1, c2⟩ := (C16TailExons.polya_counted_iff mf ia e).1 hc
    exact ⟨hx, hia, hts, c1, c2⟩
  · intro e he
    obtain ⟨hx, hc⟩ := hT e he
    have hit' : findPolytHeadWin w num den s ops seq (4 * (w : Int)) 2 true = some it := hit
    have hit2 := hit'
    rw [find_polyt_head_win_fix] at hit2
    obtain ⟨g1, g2, g3, _⟩ := polyt_found_with _ w num den s ops seq _ _ _ _ hit2 hx
    have hchar := (find_polyt_head_win_fix_char w num den s ops seq _ _ true g1 g2 g3 hnn it).1 hit'
    have hts : ∃ p, TailStart w num den true (regionTWin ops seq (4 * (w : Int)) 2) p := by
      rcases hchar with ⟨_, h⟩ | ⟨p, hp', _⟩
      · exact absurd h hx
      · exact ⟨p, hp'⟩
    obtain ⟨c1, c2⟩ := (C16TailExons.polyt_counted_iff mf it e).1 hc
    exact ⟨hx, hit', hts, c1, c2⟩

/-! ### (3) the general position law: read ↔ mirror image, tail starting anywhere inside the aligned part -/

/-- the reference columns between two neighbouring query bases: `c1` is query base number `j` of `cols`, `c2` the next
    query base, `mid` the (reference-only or empty) columns between them ⇒ the two projections differ by
    `#reference columns of mid` + (1 if `c2` is aligned, 0 if it is an inserted base) -/
theorem projects_gap (cols pre mid post : List (Bool × Bool)) (c1 c2 : Bool × Bool) (j : Nat) (kA kT : Int)
    (hcols : cols = pre ++ c1 :: (mid ++ c2 :: post)) (h1 : c1.1 = true) (h2 : c2.1 = true)
    (hmid : ∀ m ∈ mid, m.1 = false) (hj : qCount pre = j)
    (hA : ProjectsTo cols (j + 1) kA) (hT : ProjectsTo cols j kT) :
    kA - kT = (rCount mid : Int) + c2.2.toNat := by
  have hqmid : qCount mid = 0 := by
    unfold qCount; rw [List.countP_eq_zero]; intro m hm; simp [hmid m hm]
  have hq : qCount (pre ++ c1 :: mid) = j + 1 := by
    unfold qCount at hqmid hj ⊢
    rw [List.countP_append, List.countP_cons, hqmid, hj]; simp [h1]
  have hA' : ProjectsTo cols (j + 1) ((rCount ((pre ++ c1 :: mid) ++ [c2]) : Int) - 1) :=
    Or.inl ⟨pre ++ c1 :: mid, c2, post, by rw [hcols]; simp, h2, hq, rfl⟩
  have hT' : ProjectsTo cols j ((rCount (pre ++ [c1]) : Int) - 1) :=
    Or.inl ⟨pre, c1, mid ++ c2 :: post, hcols, h1, hj, rfl⟩
  rw [projectsTo_unique _ _ _ _ hA hA', projectsTo_unique _ _ _ _ hT hT']
  have e0 : rCount ([] : List (Bool × Bool)) = 0 := rfl
  simp only [rCount_append, rCount_cons, e0]
  omega

/-- **mirror_law_general** — the position law for EVERY tail that starts inside the aligned part (no restriction to the
    last match operation).  Read `(s, cigar, seq)`, mirror image `(L − reference_end, reversed CIGAR, reverse
    complement)`, current tree (repaired window + repaired projection), ANY window and fraction, `from_pos, to_pos ≥ 0`.  The
    scan settles on the read base `q = to_check_start + pA`, `d = mapped end − q ≥ 1` bases of the tail are aligned.
    With `cols` = the alignment columns walked back from the alignment end,
    * `k_A` = projection of query base number `d` of `cols` (the base BEFORE the tail),
    * `k_T` = projection of query base number `d − 1` (the FIRST tail base); `0` when `d = 1` (the code takes the clip
      branch there),
    `find_polya_tail(read) = reference_end − k_A` and
    `find_polyt_head(mirror) = max 1 (L − find_polya_tail(read) − (k_A − k_T))`, i.e. the mirror image
    `L + 1 − polyA` minus `1 + (k_A − k_T)`. -/
theorem mirror_law_general (w num den : Nat) (s L : Int) (cigar : List CigarOp)
    (seq seq' : List Char) (f t : Int) (chk : Bool) (hne : cigar ≠ []) (hseq : seq ≠ [])
    (hclip : softClipTail cigar < seq.length) (hnn : NonNeg cigar) (hf : 0 ≤ f) (ht : 0 ≤ t)
    (hrc : seq'.map (fun c => upperChar c == 'T') = (seq.map (fun c => upperChar c == 'A')).reverse)
    (pA d : Nat) (hA : tailScan w num den chk (regionA cigar seq f t) = some pA)
    (hd : (d : Int) = (seq.length : Int) - softClipTail cigar - (startA cigar seq f + pA)) (hd1 : 1 ≤ d) :
    ∃ kA kT : Int,
      ProjectsTo (expand (walkCore cigar false)) d kA ∧
      (d = 1 → kT = 0) ∧ (2 ≤ d → ProjectsTo (expand (walkCore cigar false)) (d - 1) kT) ∧
      findPolyaTailFix w num den s cigar seq f t chk = some (referenceEnd s cigar - kA) ∧
      findPolytHeadWin w num den (L - referenceEnd s cigar) cigar.reverse seq' f t chk =
        some (max 1 (L - (referenceEnd s cigar - kA) - (kA - kT))) := by
  have hlen : seq'.length = seq.length := by
    have := congrArg List.length hrc
    simpa using this
  have hseq' : seq' ≠ [] := by
    intro h; rw [h] at hlen; exact hseq (List.length_eq_zero_iff.1 hlen.symm)
  have hne' : cigar.reverse ≠ [] := by simpa using hne
  have hclip' : softClipHead cigar.reverse < seq'.length := by rw [softClipHead_reverse, hlen]; exact hclip
  have hnn' : NonNeg cigar.reverse := NonNeg_reverse hnn
  have hc0 := softClipTail_nonneg hnn
  have hscan := mirror_scan w num den chk cigar seq seq' f t hnn (by omega) hf ht hrc
  rw [(region_t_win_eq cigar.reverse seq' f t).1, hA] at hscan
  have hpos : stopT cigar.reverse seq' (f - 1) - pA - 1 = (seq.length : Int) - 1 - (startA cigar seq f + pA) := by
    unfold stopT startA
    rw [softClipHead_reverse, hlen]
    omega
  have hPA : findPolyaTailFix w num den s cigar seq f t chk =
      some (referenceEnd s cigar - ((refColsUpTo (expand (walkCore cigar false)) d : Int) - 1)) := by
    unfold findPolyaTailFix
    rw [findPolyaTailWith_unfold _ w num den s cigar seq f t chk hne hseq hclip, hA]
    simp only
    have hshA : startA cigar seq f + pA - ((seq.length : Int) - softClipTail cigar) = -(d : Int) := by omega
    rw [if_neg (by omega), hshA, moveRefCoordFix_eq cigar _ hnn (by omega) hne]
    have hdec : decide (-(d : Int) > 0) = false := by
      rw [decide_eq_false_iff_not]; omega
    have hnat : (-(d : Int)).natAbs = d := by omega
    rw [hdec, hnat]
    rfl
  have hPT : findPolytHeadWin w num den (L - referenceEnd s cigar) cigar.reverse seq' f t chk =
      some (max 1 (L - referenceEnd s cigar +
        (if d = 1 then 0 else (refColsUpTo (expand (walkCore cigar false)) (d - 1) : Int) - 1))) := by
    rw [find_polyt_head_win_fix]
    unfold findPolytHeadFix
    rw [findPolytHeadWith_unfold _ w num den _ cigar.reverse seq' (f - 1) (t + 1) chk hne' hseq' hclip', hscan]
    simp only
    rw [hpos, softClipHead_reverse]
    by_cases h1 : d = 1
    · rw [if_pos (by omega), if_pos h1]
      congr 2; omega
    · rw [if_neg (by omega), if_neg h1]
      have hsh : (seq.length : Int) - 1 - (startA cigar seq f + pA) - softClipTail cigar = ((d - 1 : Nat) : Int) := by
        omega
      rw [hsh, moveRefCoordFix_eq cigar.reverse _ hnn' (by omega) hne']
      have hdec : decide ((((d - 1 : Nat)) : Int) > 0) = true := by
        rw [decide_eq_true_iff]; omega
      rw [hdec, walkCore_reverse, Int.natAbs_natCast]
      rfl
  refine ⟨(refColsUpTo (expand (walkCore cigar false)) d : Int) - 1,
    if d = 1 then 0 else (refColsUpTo (expand (walkCore cigar false)) (d - 1) : Int) - 1,
    projectsTo_refColsUpTo _ _, fun h => by rw [if_pos h], fun h => ?_, hPA, ?_⟩
  · rw [if_neg (by omega)]; exact projectsTo_refColsUpTo _ _
  · rw [hPT]; congr 2; omega

/-- **mirror_law_offset** — the closed form of the offset.  `c1` = alignment column of the first tail base, `c2` = column
    of the read base before the tail, `mid` = the columns between them (they consume no query base: deleted / skipped
    reference bases).  Then `find_polyt_head(mirror) = max 1 (L − find_polya_tail(read) − g)` with
    `g = #reference bases of mid + (1 if the base before the tail is aligned, 0 if it is an inserted base)`:
    mirror image `L + 1 − polyA` minus `1 + g`.  `g = 1` (offset −2) exactly when the two bases are adjacent aligned
    columns — `mirror_law_win_fix` is the instance "inside the last match operation". -/
theorem mirror_law_offset (w num den : Nat) (s L : Int) (cigar : List CigarOp)
    (seq seq' : List Char) (f t : Int) (chk : Bool) (hne : cigar ≠ []) (hseq : seq ≠ [])
    (hclip : softClipTail cigar < seq.length) (hnn : NonNeg cigar) (hf : 0 ≤ f) (ht : 0 ≤ t)
    (hrc : seq'.map (fun c => upperChar c == 'T') = (seq.map (fun c => upperChar c == 'A')).reverse)
    (pA d : Nat) (hA : tailScan w num den chk (regionA cigar seq f t) = some pA)
    (hd : (d : Int) = (seq.length : Int) - softClipTail cigar - (startA cigar seq f + pA)) (hd2 : 2 ≤ d)
    (pre mid post : List (Bool × Bool)) (c1 c2 : Bool × Bool)
    (hcols : expand (walkCore cigar false) = pre ++ c1 :: (mid ++ c2 :: post))
    (h1 : c1.1 = true) (h2 : c2.1 = true) (hmid : ∀ m ∈ mid, m.1 = false) (hj : qCount pre = d - 1) :
    ∃ ra, findPolyaTailFix w num den s cigar seq f t chk = some ra ∧
      findPolytHeadWin w num den (L - referenceEnd s cigar) cigar.reverse seq' f t chk =
        some (max 1 (L - ra - ((rCount mid : Int) + c2.2.toNat))) := by
  obtain ⟨kA, kT, hkA, _, hkT, hPA, hPT⟩ :=
    mirror_law_general w num den s L cigar seq seq' f t chk hne hseq hclip hnn hf ht hrc pA d hA hd (by omega)
  have hkA' : ProjectsTo (expand (walkCore cigar false)) (d - 1 + 1) kA := by
    have e : d - 1 + 1 = d := by omega
    rw [e]; exact hkA
  have hg := projects_gap _ pre mid post c1 c2 (d - 1) kA kT hcols h1 h2 hmid hj hkA' (hkT hd2)
  exact ⟨_, hPA, by rw [hPT, hg]⟩

/-- **mirror_law_offset_first** — the closed form for `d = 1` (exactly one aligned tail base; the code takes the clip
    branch of `find_polyt_head`, `k_T = 0`): `lead` = the columns at the walked end of the alignment that consume no query
    base (trailing `D`/`N`; none in an aligner's output), `c0` = column of the only aligned tail base, `mid` / `c2` as in
    `mirror_law_offset`.  Then `find_polyt_head(mirror) = max 1 (L − find_polya_tail(read) − g)` with
    `g = #ref(lead) + ref(c0) + #ref(mid) + ref(c2) − 1`; when the alignment ends with an aligned base (`lead = []`,
    `c0 = (true, true)`) this is the `g = #ref(mid) + ref(c2)` of `mirror_law_offset`. -/
theorem mirror_law_offset_first (w num den : Nat) (s L : Int) (cigar : List CigarOp)
    (seq seq' : List Char) (f t : Int) (chk : Bool) (hne : cigar ≠ []) (hseq : seq ≠ [])
    (hclip : softClipTail cigar < seq.length) (hnn : NonNeg cigar) (hf : 0 ≤ f) (ht : 0 ≤ t)
    (hrc : seq'.map (fun c => upperChar c == 'T') = (seq.map (fun c => upperChar c == 'A')).reverse)
    (pA : Nat) (hA : tailScan w num den chk (regionA cigar seq f t) = some pA)
    (hd : (1 : Int) = (seq.length : Int) - softClipTail cigar - (startA cigar seq f + pA))
    (lead mid post : List (Bool × Bool)) (c0 c2 : Bool × Bool)
    (hcols : expand (walkCore cigar false) = lead ++ c0 :: (mid ++ c2 :: post))
    (h0 : c0.1 = true) (h2 : c2.1 = true) (hlead : ∀ m ∈ lead, m.1 = false) (hmid : ∀ m ∈ mid, m.1 = false) :
    ∃ ra, findPolyaTailFix w num den s cigar seq f t chk = some ra ∧
      findPolytHeadWin w num den (L - referenceEnd s cigar) cigar.reverse seq' f t chk =
        some (max 1 (L - ra - ((rCount lead : Int) + c0.2.toNat + rCount mid + c2.2.toNat - 1))) := by
  obtain ⟨kA, kT, hkA, hkT, _, hPA, hPT⟩ :=
    mirror_law_general w num den s L cigar seq seq' f t chk hne hseq hclip hnn hf ht hrc pA 1 hA (by simpa using hd)
      (Nat.le_refl 1)
  have hq0 : ∀ l : List (Bool × Bool), (∀ m ∈ l, m.1 = false) → qCount l = 0 := by
    intro l hl
    unfold qCount; rw [List.countP_eq_zero]; intro m hm; simp [hl m hm]
  have hq : qCount (lead ++ c0 :: mid) = 1 := by
    have a := hq0 lead hlead
    have b := hq0 mid hmid
    unfold qCount at a b ⊢
    rw [List.countP_append, List.countP_cons, a, b]; simp [h0]
  have hA' : ProjectsTo (expand (walkCore cigar false)) 1 ((rCount ((lead ++ c0 :: mid) ++ [c2]) : Int) - 1) :=
    Or.inl ⟨lead ++ c0 :: mid, c2, post, by rw [hcols]; simp, h2, hq, rfl⟩
  have hk := projectsTo_unique _ _ _ _ hkA hA'
  have e0 : rCount ([] : List (Bool × Bool)) = 0 := rfl
  simp only [rCount_append, rCount_cons, e0] at hk
  refine ⟨_, hPA, ?_⟩
  rw [hPT, hkT rfl]
  congr 2
  omega

/-- non-vacuity of `mirror_law_offset_first`: `8M 2D 1M 4S`, one aligned + 4 clipped A's (window 2, fraction 1/1,
    `from 8`): the base before the tail lies behind the deletion, `g = 0 + 1 + 2 + 1 − 1 = 3`, offset −4 -/
example :
    let r : List CigarOp := [(.«match», 8), (.deletion, 2), (.«match», 1), (.soft_clipping, 4)]
    tailScan 2 1 1 false (regionA r "CCCCCCCCAAAAA".toList 8 2) = some 7 ∧
    (1 : Int) = ("CCCCCCCCAAAAA".toList.length : Int) - softClipTail r - (startA r "CCCCCCCCAAAAA".toList 8 + (7 : Nat)) ∧
    expand (walkCore r false) = [] ++ (true, true) :: ([(false, true), (false, true)] ++ (true, true) :: List.replicate 7 (true, true)) ∧
    findPolyaTailFix 2 1 1 100 r "CCCCCCCCAAAAA".toList 8 2 false = some 108 ∧
    findPolytHeadWin 2 1 1 (1000 - referenceEnd 100 r) r.reverse "TTTTTGGGGGGGG".toList 8 2 false = some (1001 - 108 - 4) := by
  refine ⟨by decide +kernel, by decide +kernel, by decide +kernel, by decide +kernel, by decide +kernel⟩

/-- **mirror_law_whole** — the remaining case of the closed form: the tail covers every read base the walk sees
    (`d` ≥ the number of query bases of the walked columns: the tail starts at the first aligned base or inside the
    soft-clipped head), and the walked columns end on a query column (the alignment starts, clips aside, with
    `M = X I` — every aligner's output).  Both positions are held at the far end of the alignment:
    `k_A = k_T`, `find_polyt_head(mirror) = max 1 (L − find_polya_tail(read))`, offset −1 (`window_mirror_witness`). -/
theorem mirror_law_whole (w num den : Nat) (s L : Int) (cigar : List CigarOp)
    (seq seq' : List Char) (f t : Int) (chk : Bool) (hne : cigar ≠ []) (hseq : seq ≠ [])
    (hclip : softClipTail cigar < seq.length) (hnn : NonNeg cigar) (hf : 0 ≤ f) (ht : 0 ≤ t)
    (hrc : seq'.map (fun c => upperChar c == 'T') = (seq.map (fun c => upperChar c == 'A')).reverse)
    (pA d : Nat) (hA : tailScan w num den chk (regionA cigar seq f t) = some pA)
    (hd : (d : Int) = (seq.length : Int) - softClipTail cigar - (startA cigar seq f + pA)) (hd2 : 2 ≤ d)
    (hq : qCount (expand (walkCore cigar false)) ≤ d)
    (hlast : qCount (expand (walkCore cigar false)) = d →
      ∃ pre c1, expand (walkCore cigar false) = pre ++ [c1] ∧ c1.1 = true) :
    ∃ ra, findPolyaTailFix w num den s cigar seq f t chk = some ra ∧
      findPolytHeadWin w num den (L - referenceEnd s cigar) cigar.reverse seq' f t chk = some (max 1 (L - ra)) := by
  obtain ⟨kA, kT, hkA, _, hkT, hPA, hPT⟩ :=
    mirror_law_general w num den s L cigar seq seq' f t chk hne hseq hclip hnn hf ht hrc pA d hA hd (by omega)
  have hA' : ProjectsTo (expand (walkCore cigar false)) d ((rCount (expand (walkCore cigar false)) : Int) - 1) :=
    Or.inr ⟨hq, rfl⟩
  have hT' : ProjectsTo (expand (walkCore cigar false)) (d - 1) ((rCount (expand (walkCore cigar false)) : Int) - 1) := by
    by_cases hlt : qCount (expand (walkCore cigar false)) ≤ d - 1
    · exact Or.inr ⟨hlt, rfl⟩
    · obtain ⟨pre, c1, hc, h1⟩ := hlast (by omega)
      have hqp : qCount pre = d - 1 := by
        have : qCount (pre ++ [c1]) = qCount pre + 1 := by
          unfold qCount; rw [List.countP_append]; simp [h1]
        rw [hc] at hq hlt
        omega
      rw [hc]
      exact Or.inl ⟨pre, c1, [], rfl, h1, hqp, rfl⟩
  have e1 := projectsTo_unique _ _ _ _ hkA hA'
  have e2 := projectsTo_unique _ _ _ _ (hkT hd2) hT'
  refine ⟨_, hPA, ?_⟩
  rw [hPT]; congr 2; omega

/-- non-vacuity: the read of `window_mirror_witness` (`17M 3S`, the whole read is tail): the scan settles on base 0,
    `d = 17` = number of walked query bases, the walked columns end on an aligned column; polyA 101, polyT(mirror) 899 -/
example :
    let r : List CigarOp := [(.«match», 17), (.soft_clipping, 3)]
    tailScan 16 3 4 true (regionA r "AAAAAACACCCAAAAAAACA".toList 64 2) = some 0 ∧
    ((17 : Nat) : Int) = ("AAAAAACACCCAAAAAAACA".toList.length : Int) - softClipTail r -
      (startA r "AAAAAACACCCAAAAAAACA".toList 64 + (0 : Nat)) ∧
    qCount (expand (walkCore r false)) = 17 ∧
    expand (walkCore r false) = List.replicate 16 (true, true) ++ [(true, true)] := by
  refine ⟨by decide +kernel, by decide +kernel, by decide +kernel, by decide +kernel⟩

/-- **mirror_offset_witness** — three reads with the SAME tail (internal finder, window 4, fraction 3/4, `s = 100`,
    `L = 1000`; 3 aligned + 4 soft-clipped A's) whose base before the tail is (a) the neighbouring aligned base,
    (b) separated from the tail by `2D`, (c) an inserted base: offsets from the mirror image `1001 − polyA` are −2, −4,
    −1.  (a) and (b) report the same polyA position 106: no closed form in the polyA position alone exists; the
    columns between the two bases are needed (`mirror_law_offset`).  Model = code, replayed on the real finder each run. -/
theorem mirror_offset_witness :
    let ra : List CigarOp := [(.«match», 9), (.soft_clipping, 4)]
    let rb : List CigarOp := [(.«match», 6), (.deletion, 2), (.«match», 3), (.soft_clipping, 4)]
    let rc : List CigarOp := [(.«match», 6), (.insertion, 2), (.«match», 3), (.soft_clipping, 4)]
    (findPolyaTailFix 4 3 4 100 ra "CCCCCCAAAAAAA".toList 16 2 true = some 106 ∧
      findPolytHeadWin 4 3 4 (1000 - referenceEnd 100 ra) ra.reverse "TTTTTTTGGGGGG".toList 16 2 true = some (1001 - 106 - 2)) ∧
    (findPolyaTailFix 4 3 4 100 rb "CCCCCCAAAAAAA".toList 16 2 true = some 106 ∧
      findPolytHeadWin 4 3 4 (1000 - referenceEnd 100 rb) rb.reverse "TTTTTTTGGGGGG".toList 16 2 true = some (1001 - 106 - 4)) ∧
    (findPolyaTailFix 4 3 4 100 rc "CCCCCCCCAAAAAAA".toList 16 2 true = some 107 ∧
      findPolytHeadWin 4 3 4 (1000 - referenceEnd 100 rc) rc.reverse "TTTTTTTGGGGGGGG".toList 16 2 true = some (1001 - 107 - 1)) := by
  decide +kernel

/-- non-vacuity of `mirror_law_general` / `mirror_law_offset`: read (b) of the witness — the scan settles on base 6,
    `d = 3`, the columns walked back are `3 × M, 2 × D, 6 × M`: `c1` = third column, `mid` = the two `D` columns,
    `c2` = the next `M` column, `g = 2 + 1` -/
example :
    let rb : List CigarOp := [(.«match», 6), (.deletion, 2), (.«match», 3), (.soft_clipping, 4)]
    tailScan 4 3 4 true (regionA rb "CCCCCCAAAAAAA".toList 16 2) = some 6 ∧
    ((3 : Nat) : Int) = ("CCCCCCAAAAAAA".toList.length : Int) - softClipTail rb - (startA rb "CCCCCCAAAAAAA".toList 16 + (6 : Nat)) ∧
    expand (walkCore rb false) = [(true, true), (true, true)] ++ (true, true) ::
      ([(false, true), (false, true)] ++ (true, true) :: List.replicate 5 (true, true)) ∧
    qCount [(true, true), (true, true)] = 3 - 1 := by
  refine ⟨by decide +kernel, by decide +kernel, by decide +kernel, by decide⟩

end IsoVerif.Props.C16FinderFix
