/-
C19 — `truncate_read_to_polya` as REGENERATED FROM THE SOURCE on every run (`Gen/Loops.lean`, written by `harness/translate.py`).
Part 1: refinement `Gen.f args = Model.f args` for ALL inputs (no sortedness / well-formedness; error cases included; the
emitted fuel bounds suffice).  Part 2: the C19 theorems about the hand model restated over the generated definitions.
An edit of the Python loop re-generates `Gen.f` and re-opens these proofs.  Overview: Props/C19Gen.lean.
-/
import IsoVerif.Props.C19Lists
import IsoVerif.Lemmas.GenTruncate

namespace IsoVerif.Props.C19Gen
open IsoVerif.Gen IsoVerif.Model IsoVerif.Lemmas

/-! ## Part 1 — refinement: generated definition = hand model, for all inputs -/

/-- `truncate_read_to_polya`: the two index scans (downward with `break`, upward with `break`), the slice and the three
    `IndexError` sites equal the hand model on every input, both tails included -/
theorem truncate_read_to_polya_refines (exons : List Iv) (polya polyt : Int) :
    Gen.truncate_read_to_polya exons polya polyt = truncateReadToPolya exons polya polyt :=
  GenLoops.truncate_read_to_polya_eq exons polya polyt

/-- the emitted fuel bounds (shown sufficient by the refinement theorem above) -/
theorem fuel_bounds_truncate (l : List Iv) (a t : Int) :
    truncate_read_to_polya.fuel3 l a t = l.length + 1 ∧ truncate_read_to_polya.fuel2 l a t = l.length + 1 := ⟨rfl, rfl⟩

/-! ## Part 2 — theorems over the generated definitions -/

/-- truncation at a polyA position `P` with `P − 1` a read position: exactly the read positions `≤ P` plus `P` -/
theorem truncate_polya_spec (exons : List Iv) (f t : Iv) (P : Int) (h : SD exons) (w : WFl exons)
    (hf : exons.head? = some f) (ht : exons.getLast? = some t) (hP : P ≠ -1) (hin : cov exons (P - 1)) :
    ∃ res, Gen.truncate_read_to_polya exons P (-1) = some res ∧ SD res ∧ WFl res ∧
      res.head?.map (·.1) = some f.1 ∧ res.getLast?.map (·.2) = some P ∧
      ∀ p, cov res p ↔ (p ≤ P ∧ cov exons p) ∨ p = P := by
  rw [truncate_read_to_polya_refines]; exact C19Lists.truncate_polya_spec exons f t P h w hf ht hP hin

theorem truncate_polyt_spec (exons : List Iv) (f t : Iv) (T : Int) (h : SD exons) (w : WFl exons)
    (hf : exons.head? = some f) (ht : exons.getLast? = some t) (hT : T ≠ -1) (hin : cov exons (T + 1)) :
    ∃ res, Gen.truncate_read_to_polya exons (-1) T = some res ∧ SD res ∧ WFl res ∧
      res.head?.map (·.1) = some T ∧ res.getLast?.map (·.2) = some t.2 ∧
      ∀ p, cov res p ↔ (T ≤ p ∧ cov exons p) ∨ p = T := by
  rw [truncate_read_to_polya_refines]; exact C19Lists.truncate_polyt_spec exons f t T h w hf ht hT hin

theorem truncate_identity (exons : List Iv) (hne : exons ≠ []) :
    Gen.truncate_read_to_polya exons (-1) (-1) = some exons := by
  rw [truncate_read_to_polya_refines]; exact C19Lists.truncate_identity exons hne

example : SD [(1, 5), (10, 12), (20, 30)] ∧ WFl [(1, 5), (10, 12), (20, 30)] ∧ cov [(1, 5), (10, 12), (20, 30)] (11 - 1) ∧
    Gen.truncate_read_to_polya [(1, 5), (10, 12), (20, 30)] 11 (-1) = some [(1, 5), (10, 11)] ∧
    cov [(1, 5), (10, 12), (20, 30)] (11 + 1) ∧
    Gen.truncate_read_to_polya [(1, 5), (10, 12), (20, 30)] (-1) 11 = some [(11, 12), (20, 30)] := by
  refine ⟨by decide, by decide, ⟨(10, 12), by simp, by decide, by decide⟩, by decide +kernel,
    ⟨(10, 12), by simp, by decide, by decide⟩, by decide +kernel⟩

end IsoVerif.Props.C19Gen
