/-
C10 — experiment name = folder name = file prefix (audit-2 GAP C10-1), and "one BAM file per line" of a list file.

Statement (docs/C10.md): a description (YAML or list file) is either REFUSED (message, exit) or ACCEPTED, never answered with an
exception; when it is accepted, the experiments get pairwise different output folders, each of them an entry of its own
directly inside `--output`, and every file `<name><suffix>` of an experiment is an entry of that experiment's folder – for ALL
names a description can carry (absent, blank, empty, non-strings, `./A`, `A/`, `d/A`, `.`, `..`, absolute paths, duplicates) and
all output folders.  A folder is what a path MEANS (`resolveL`: the directory entries walked from the root), not its text.

`describeYaml` / `describeList` are the parsers of the CURRENT source (`namePolicyOfSource` is read off the source); the tree
before the repair (`namePolicyOrig`) keeps its `…_witness` theorems.  Property theorems only; lemmas in `Lemmas/SampleFolders.lean`.
-/
import IsoVerif.Model.SampleFolders
import IsoVerif.Lemmas.SampleFolders
import IsoVerif.Props.C10Names

namespace IsoVerif.Props.C10Folders
open IsoVerif.Gen IsoVerif.Model.C10 IsoVerif.Lemmas.C10 IsoVerif.Props.C10Names

/-- static tie: the current source prints the `name` value (`str(sample['name'])`), names a blank value by position, calls
    `check_experiment_name` before every `SampleData`, and refuses a `--bam_list` line with several files (fails to compile on
    a tree where any of the four is missing) -/
theorem name_policy_of_source_fixed : namePolicyOfSource = namePolicyFixed := by decide

/-- the experiments of an invocation with `--output out` have folders of their own: pairwise different folders; the folder of
    `r` is the entry `r.name` of the output folder; its file `<name><suffix>` is the entry `<name><suffix>` of that folder -/
def OwnFolders (out : String) (rs : List ParsedSample) : Prop :=
  (rs.map (fun r => folderOf out r.name)).Nodup ∧
  ∀ r ∈ rs, folderOf out r.name = resolveL out.toList ++ [r.name.toList] ∧
    ∀ suffix : List Char, '/' ∉ suffix → fileOf out r.name suffix = folderOf out r.name ++ [r.name.toList ++ suffix]

/-- full-strength statement, YAML -/
def AcceptedOwnFolders (describe : String → List RawEntry → Described (List ParsedSample)) : Prop :=
  ∀ (pfx : String) (entries : List RawEntry) (rs : List ParsedSample) (out : String),
    describe pfx entries = .ok rs → OwnFolders out rs

/-- … list files (`--bam_list` and `--fastq_list`) -/
def AcceptedListOwnFolders (describe : Bool → String → List ListLine → Described (List ParsedSample)) : Prop :=
  ∀ (bam : Bool) (pfx : String) (lines : List ListLine) (rs : List ParsedSample) (out : String),
    describe bam pfx lines = .ok rs → OwnFolders out rs

/-- no description makes the parser die with an exception -/
def NeverCrashes (describe : String → List RawEntry → Described (List ParsedSample)) : Prop :=
  ∀ (pfx : String) (entries : List RawEntry), describe pfx entries ≠ .crash

/-- distinct names that pass `check_experiment_name` have folders of their own, under every output folder -/
theorem own_folders_of_checked_names (out : String) (rs : List ParsedSample)
    (hnd : (rs.map ParsedSample.name).Nodup) (hgood : ∀ r ∈ rs, badFolderName r.name = false) : OwnFolders out rs := by
  have hplain : ∀ r ∈ rs, PlainComp r.name.toList := fun r hr => plain_of_not_bad _ (hgood r hr)
  have hfold : ∀ r ∈ rs, folderOf out r.name = resolveL out.toList ++ [r.name.toList] :=
    fun r hr => folder_of_plain out.toList r.name.toList (hplain r hr)
  refine ⟨?_, ?_⟩
  · have e : rs.map (fun r => folderOf out r.name)
        = (rs.map ParsedSample.name).map (fun n => resolveL out.toList ++ [n.toList]) := by
      rw [List.map_map]
      exact List.map_congr_left (fun r hr => by simpa using hfold r hr)
    rw [e]
    refine List.Pairwise.map _ ?_ hnd
    intro a b hab he
    have h1 := List.append_cancel_left he
    simp only [List.cons.injEq, and_true] at h1
    exact hab (String.toList_inj.mp h1)
  · intro r hr
    refine ⟨hfold r hr, ?_⟩
    intro suffix hs
    unfold fileOf
    rw [file_of_plain out.toList r.name.toList suffix (hplain r hr) hs, hfold r hr]
    simp

/-- what an accepted YAML description went through, for every policy: the parser loop accepted it, and – when the source has the
    folder check – every experiment name passed it -/
theorem describeYamlP_ok (pol : NamePolicy) (rc : Bool) (pfx : String) (entries : List RawEntry) (rs : List ParsedSample)
    (h : describeYamlP pol rc pfx entries = .ok rs) :
    parseYamlR rc pfx (entries.map (RawEntry.toEntry pol)) = some rs ∧
      (pol.folderCheck = true → ∀ r ∈ rs, badFolderName r.name = false) := by
  unfold describeYamlP at h
  cases hp : parseYamlR rc pfx (entries.map (RawEntry.toEntry pol)) with
  | none => simp [hp] at h
  | some rs' =>
    simp only [hp] at h
    split at h
    · simp at h
    · split at h
      · simp at h
      · rename_i _ hc
        simp only [Described.ok.injEq] at h
        subst h
        refine ⟨rfl, ?_⟩
        intro hf r hr
        simp only [hf, Bool.true_and, List.any_eq_true, not_exists, not_and, Bool.not_eq_true] at hc
        exact hc r hr

theorem describeListP_ok (pol : NamePolicy) (rc bam : Bool) (pfx : String) (lines : List ListLine) (rs : List ParsedSample)
    (h : describeListP pol rc bam pfx lines = .ok rs) :
    parseListR rc pfx lines = some rs ∧
      (pol.folderCheck = true → ∀ r ∈ rs, badFolderName r.name = false) ∧
      (pol.oneBamPerLine = true → bam = true → ∀ l ∈ lines, ListLine.manyFiles l = false) := by
  unfold describeListP at h
  cases hq : parseListP pol rc bam pfx lines with
  | none => simp [hq] at h
  | some rs' =>
    simp only [hq] at h
    unfold parseListP at hq
    split at hq
    · simp at hq
    · rename_i hm
      split at h
      · simp at h
      · rename_i hc
        simp only [Described.ok.injEq] at h
        subst h
        refine ⟨hq, ?_, ?_⟩
        · intro hf r hr
          simp only [hf, Bool.true_and, List.any_eq_true, not_exists, not_and, Bool.not_eq_true] at hc
          exact hc r hr
        · intro ho hb l hl
          simp only [ho, hb, Bool.true_and, List.any_eq_true, not_exists, not_and, Bool.not_eq_true] at hm
          exact hm l hl

/-- **accepted_names_own_folders** (YAML, current source, ALL inputs): whatever the entries say about names, an accepted
    description gives every experiment a folder of its own directly inside the output folder, with its files inside -/
theorem accepted_names_own_folders : AcceptedOwnFolders describeYaml := by
  intro pfx entries rs out h
  unfold describeYaml at h
  rw [name_policy_of_source_fixed, rename_rule_of_source_fixed] at h
  obtain ⟨hp, hg⟩ := describeYamlP_ok _ _ _ _ _ h
  exact own_folders_of_checked_names out rs (parsed_names_distinct_recheck pfx _ rs hp) (hg rfl)

/-- **accepted_list_names_own_folders** (list files, current source, ALL inputs, both `--bam_list` and `--fastq_list`) -/
theorem accepted_list_names_own_folders : AcceptedListOwnFolders describeList := by
  intro bam pfx lines rs out h
  unfold describeList at h
  rw [name_policy_of_source_fixed, rename_rule_of_source_fixed] at h
  obtain ⟨hp, hg, _⟩ := describeListP_ok _ _ _ _ _ _ h
  exact own_folders_of_checked_names out rs (parsed_list_names_distinct_recheck pfx _ rs hp) (hg rfl)

/-- **description_never_crashes** (current source): a `name` of any YAML type is used by its printed value or named by position;
    the parser answers with experiments or with a refusal -/
theorem description_never_crashes : NeverCrashes describeYaml := by
  intro pfx entries h
  unfold describeYaml at h
  rw [name_policy_of_source_fixed] at h
  unfold describeYamlP at h
  have hr : rawCrash namePolicyFixed entries = false := by simp [rawCrash, namePolicyFixed]
  rw [hr] at h
  cases hp : parseYamlR renameRuleOfSource.yaml pfx (entries.map (RawEntry.toEntry namePolicyFixed)) with
  | none => simp [hp] at h
  | some rs =>
    simp only [hp, Bool.false_eq_true, if_false] at h
    split at h <;> simp at h

/-- **non-string and blank names, exactly** (current source): the name an entry starts from is its printed value, except that an
    absent key, a blank value and the empty string start from `<prefix><position>` -/
theorem name_for_loop_fixed (n : YamlName) :
    nameForLoop namePolicyFixed n = (if n = .absent ∨ n = .null ∨ n = .str "" then none else some n.printed) := by
  cases n with
  | absent => simp [nameForLoop]
  | null => simp [nameForLoop, namePolicyFixed]
  | str s =>
    by_cases hs : s = ""
    · simp [nameForLoop, namePolicyFixed, hs]
    · simp [nameForLoop, namePolicyFixed, hs, YamlName.printed]
  | int i => simp [nameForLoop]
  | bool b => simp [nameForLoop]
  | other p => simp [nameForLoop, YamlName.printed]

/-- **bam_list_every_file_opened** (current source): of an accepted `--bam_list` description whose file lines name at least one
    file each, the run opens EVERY file the description names (`x[0] for x in file_list` = all files) -/
theorem bam_list_every_file_opened (pfx : String) (lines : List ListLine) (rs : List ParsedSample)
    (hne : ∀ fs lab, ListLine.files fs lab ∈ lines → fs ≠ [])
    (h : describeList true pfx lines = .ok rs) :
    ∀ r ∈ rs, openedBams r = some r.libs.flatten := by
  unfold describeList at h
  rw [name_policy_of_source_fixed] at h
  obtain ⟨hp, _, hone⟩ := describeListP_ok _ _ _ _ _ _ h
  have hone' : ∀ l ∈ lines, ListLine.oneFile l := by
    intro l hl
    have hm := hone rfl rfl l hl
    cases l with
    | header nm => trivial
    | files fs lab =>
      have h0 := hne fs lab hl
      simp only [ListLine.manyFiles, decide_eq_false_iff_not, Nat.not_lt] at hm
      have : fs.length ≠ 0 := fun e => h0 (List.length_eq_zero_iff.mp e)
      show fs.length = 1
      omega
  unfold parseListR at hp
  cases hl : listLoopR renameRuleOfSource.list pfx ⟨ParseSt.init, [], pfx⟩ lines with
  | none => simp [hl] at hp
  | some s =>
    simp only [hl, Option.map_some, Option.some.injEq] at hp
    have hI := listLoopR_libs _ pfx lines ⟨ParseSt.init, [], pfx⟩ s hone' hl ⟨by simp [ParseSt.init], by simp⟩
    have hf := flush_libs s hI
    intro r hr
    rw [← hp] at hr
    simp only [finishParse, List.mem_map] at hr
    obtain ⟨t, ht, rfl⟩ := hr
    exact mapM_head_of_singletons _ (hf t ht)

/-! ### non-vacuity -/

/-- names 7, blank, `E`, `7` again: experiments `7`, `X1`, `E`, `X3` -/
example : describeYamlP namePolicyFixed true "X"
    [⟨.int 7, some [⟨"/d/a.bam", "a"⟩], none, none⟩, ⟨.null, some [⟨"/d/b.bam", "b"⟩], none, none⟩,
     ⟨.str "E", some [⟨"/d/c.bam", "c"⟩], none, none⟩, ⟨.str "7", some [⟨"/d/d.bam", "d"⟩], none, none⟩]
    = .ok [⟨"7", [["/d/a.bam"]], [("/d/a.bam", "a")], none⟩, ⟨"X1", [["/d/b.bam"]], [("/d/b.bam", "b")], none⟩,
           ⟨"E", [["/d/c.bam"]], [("/d/c.bam", "c")], none⟩, ⟨"X3", [["/d/d.bam"]], [("/d/d.bam", "d")], none⟩] := by decide

/-- `A` and `./A`: refused -/
example : describeYamlP namePolicyFixed true "X"
    [⟨.str "A", some [⟨"/d/a.bam", "a"⟩], none, none⟩, ⟨.str "./A", some [⟨"/d/b.bam", "b"⟩], none, none⟩] = .exit := by decide

/-- a path-like name of an entry WITHOUT files is never used: accepted -/
example : describeYamlP namePolicyFixed true "X"
    [⟨.str "./A", some [], none, none⟩, ⟨.str "A", some [⟨"/d/b.bam", "b"⟩], none, none⟩]
    = .ok [⟨"A", [["/d/b.bam"]], [("/d/b.bam", "b")], none⟩] := by decide

/-- the folders and a file of two accepted experiments under `--output /vol/./out/` -/
example : folderOf "/vol/./out/" "7" = ["vol".toList, "out".toList, "7".toList]
    ∧ fileOf "/vol/./out/" "7" ".gene_counts.tsv".toList = ["vol".toList, "out".toList, "7".toList, "7.gene_counts.tsv".toList] := by
  decide

example : describeListP namePolicyFixed true true "X"
    [.header "T", .files [⟨"/d/a.bam", "a"⟩, ⟨"/d/b.bam", "b"⟩] none] = .exit := by decide

/-- `--fastq_list`: a line is a library and may hold several files -/
example : describeListP namePolicyFixed true false "X"
    [.header "T", .files [⟨"/d/a.fq", "a"⟩, ⟨"/d/b.fq", "b"⟩] none]
    = .ok [⟨"T", [["/d/a.fq", "/d/b.fq"]], [("/d/a.fq", "a"), ("/d/b.fq", "a")], none⟩] := by decide

example : (describeListP namePolicyFixed true true "X"
    [.header "T", .files [⟨"/d/a.bam", "a"⟩] (some "rep1"), .files [⟨"/d/b.bam", "b"⟩] (some "rep2")]).casesOn
      (fun rs => rs.map openedBams) [] [] = [some ["/d/a.bam", "/d/b.bam"]] := by decide

/-! ### the tree before the repair: each clause is false -/

/-- `A` and `./A` are accepted as two experiments and are ONE folder: the second overwrites the first -/
theorem accepted_names_own_folders_witness : ¬ AcceptedOwnFolders (describeYamlP namePolicyOrig true) := by
  intro h
  have := (h "X" [⟨.str "A", some [⟨"/d/a.bam", "a"⟩], none, none⟩, ⟨.str "./A", some [⟨"/d/b.bam", "b"⟩], none, none⟩]
    [⟨"A", [["/d/a.bam"]], [("/d/a.bam", "a")], none⟩, ⟨"./A", [["/d/b.bam"]], [("/d/b.bam", "b")], none⟩] "/out" (by decide)).1
  revert this
  decide

/-- the same through a list file -/
theorem accepted_list_names_own_folders_witness : ¬ AcceptedListOwnFolders (describeListP namePolicyOrig true) := by
  intro h
  have := (h true "X" [.header "A", .files [⟨"/d/a.bam", "a"⟩] none, .header "./A", .files [⟨"/d/b.bam", "b"⟩] none]
    [⟨"A", [["/d/a.bam"]], [("/d/a.bam", "a")], none⟩, ⟨"./A", [["/d/b.bam"]], [("/d/b.bam", "b")], none⟩] "/out" (by decide)).1
  revert this
  decide

/-- `name: ""` is accepted and its "folder" is the output folder itself (`.gene_counts.tsv` lands next to the combined tables) -/
theorem empty_name_folder_witness :
    describeYamlP namePolicyOrig true "X" [⟨.str "", some [⟨"/d/a.bam", "a"⟩], none, none⟩]
      = .ok [⟨"", [["/d/a.bam"]], [("/d/a.bam", "a")], none⟩] ∧ folderOf "/out" "" = resolveL "/out".toList := by decide

/-- `name: 7`: TypeError in `os.path.join`, the whole invocation dies – also the experiment `E` next to it -/
theorem description_crash_witness : ¬ NeverCrashes (describeYamlP namePolicyOrig true) := by
  intro h
  exact h "X" [⟨.int 7, some [⟨"/d/a.bam", "a"⟩], none, none⟩, ⟨.str "E", some [⟨"/d/b.bam", "b"⟩], none, none⟩] (by decide)

/-- two BAM files on one line: accepted, and the second file is never opened -/
theorem bam_list_every_file_opened_witness :
    describeListP namePolicyOrig true true "X" [.header "T", .files [⟨"/d/a.bam", "a"⟩, ⟨"/d/b.bam", "b"⟩] none]
      = .ok [⟨"T", [["/d/a.bam", "/d/b.bam"]], [("/d/a.bam", "a"), ("/d/b.bam", "a")], none⟩] ∧
    openedBams ⟨"T", [["/d/a.bam", "/d/b.bam"]], [("/d/a.bam", "a"), ("/d/b.bam", "a")], none⟩ = some ["/d/a.bam"] := by decide

/-- **own_folders_partial**: what every tree guarantees, with or without the check – a description that is accepted AND whose
    experiment names happen to be ordinary folder names has folders of its own.  Missing in the old tree is exactly the
    hypothesis: nothing made it true. -/
theorem own_folders_partial (pol : NamePolicy) (pfx : String) (entries : List RawEntry) (rs : List ParsedSample) (out : String)
    (h : describeYamlP pol true pfx entries = .ok rs) (hgood : ∀ r ∈ rs, badFolderName r.name = false) : OwnFolders out rs := by
  obtain ⟨hp, _⟩ := describeYamlP_ok _ _ _ _ _ h
  exact own_folders_of_checked_names out rs (parsed_names_distinct_recheck pfx _ rs hp) hgood

example : describeYamlP namePolicyOrig true "X"
    [⟨.str "A", some [⟨"/d/a.bam", "a"⟩], none, none⟩, ⟨.absent, some [⟨"/d/b.bam", "b"⟩], none, none⟩]
    = .ok [⟨"A", [["/d/a.bam"]], [("/d/a.bam", "a")], none⟩, ⟨"X1", [["/d/b.bam"]], [("/d/b.bam", "b")], none⟩]
    ∧ badFolderName "A" = false ∧ badFolderName "X1" = false := by decide

end IsoVerif.Props.C10Folders
