/-
C18 (audit C11-G1) — the downstream-A window of the SQANTI-like table (`perc_A_downstream_TTS`, `seq_A_downstream_TTS`):
`IOSupport.check_downstream_polya` reads `upstream_region_len` (= 20) bases behind the 3' end of a transcript model out of
the reference window of the gene region.  It is the same window arithmetic as the second-pass window of the Canonical flag
(Props/C18Window.lean, fix f48e223): before the repair the window ended with the last read (so the bases behind a `+` model
were cut off: `''`, 0.00) and for a `-` model starting within 20 bases of the window start the slice start was negative —
Python counts it from the END of the window — which gave `''` again, or bases from the other end of the region.

Repaired code (modelled by `loadRegion … flank`, `downstreamSeq`): the loader keeps `flank = upstream_region_len` bases on
either side of the reads when `--sqanti_output` is on, and the slice start is clamped at 0.

`downstream_window_spec` (full strength): for EVERY header window, storage of well-formed reads, flank ≥ n ≥ 0 and every
model span inside the span of the region's reads, the window is exactly the n bases downstream of the 3' end on the
chromosome, clipped only at the ends of the contig.
-/
import IsoVerif.Props.C18Window
import IsoVerif.Lemmas.CanonicalReflect

namespace IsoVerif.Props.C18Downstream
open IsoVerif.Gen IsoVerif.Model IsoVerif.Model.C18 IsoVerif.Lemmas.C18 IsoVerif.Props.C18 IsoVerif.Props.C18Window
open IsoVerif.Lemmas

/-- the bases of the chromosome at the 1-based positions `lo ≤ p ≤ hi` that exist (`1 ≤ p ≤ length`), in order -/
def chrWindow (chr : Seq) (lo hi : Int) : Seq :=
  (chr.drop (max lo 1 - 1).toNat).take (hi - max lo 1 + 1).toNat

/-- declarative reading of `chrWindow`: its `j`-th element is the base at position `max lo 1 + j` as long as that
    position is ≤ `hi` (and inside the chromosome: `chr[…]?`) -/
theorem chrWindow_get (chr : Seq) (lo hi : Int) (j : Nat) :
    (chrWindow chr lo hi)[j]? = if max lo 1 + j ≤ hi then chr[(max lo 1 - 1).toNat + j]? else none := by
  unfold chrWindow
  rw [List.getElem?_take]
  split
  · rename_i hj
    have : max lo 1 + (j : Int) ≤ hi := by omega
    simp [this]
  · rename_i hj
    have : ¬ (max lo 1 + (j : Int) ≤ hi) := by omega
    simp [this]

/-- the region loaded by `set_reference_sequence(S, E, chr)` as `drop`/`take` -/
theorem loaded_region_eq (chr : Seq) (S E : Int) (h : max 1 S - 1 ≤ E) :
    (setReferenceSequence chr S E).1.start = max 1 S ∧
    (setReferenceSequence chr S E).1.refRegion = (chr.drop (max 1 S - 1).toNat).take (E - (max 1 S - 1)).toNat := by
  refine ⟨rfl, ?_⟩
  simp only [setReferenceSequence]
  exact pySlice_range_clamp chr (max 1 S - 1) E (by omega) h

/-- the two slices of `check_downstream_polya` on a window `[max 1 S, E]` that holds the span and `n` more bases behind
    it, and that either holds `n` bases before it or starts at base 1 -/
theorem downstream_of_window (chr : Seq) (S E : Int) (c : Iv) (n : Int) (hn : 0 ≤ n)
    (h1 : max 1 S ≤ c.1) (h2 : c.1 ≤ c.2) (h3 : c.2 + n ≤ E) (h4 : max 1 S ≤ c.1 - n ∨ max 1 S = 1) :
    downstreamSeq (setReferenceSequence chr S E).1 c .plus n = chrWindow chr (c.2 + 1) (c.2 + n) ∧
    downstreamSeq (setReferenceSequence chr S E).1 c .minus n = chrWindow chr (c.1 - n) (c.1 - 1) := by
  obtain ⟨hst, hreg⟩ := loaded_region_eq chr S E (by omega)
  generalize hs' : max 1 S = s' at *
  have hs1 : 1 ≤ s' := by omega
  constructor
  · simp only [downstreamSeq, if_true, hst, hreg]
    rw [pySlice_range_clamp _ _ _ (by omega) (by omega)]
    have e1 : (c.2 - s' + 1 + n - (c.2 - s' + 1)).toNat = n.toNat := by omega
    rw [e1, take_drop_window _ _ _ _ _ (by omega)]
    unfold chrWindow
    have a1 : (s' - 1).toNat + (c.2 - s' + 1).toNat = (max (c.2 + 1) 1 - 1).toNat := by omega
    have a2 : n.toNat = (c.2 + n - max (c.2 + 1) 1 + 1).toNat := by omega
    rw [a1, ← a2]
  · have hne : (Strand.minus = Strand.plus) = False := by simp
    simp only [downstreamSeq, hne, if_false, hst, hreg]
    have hb : max 0 (c.1 - s') = c.1 - s' := by omega
    rw [hb, pySlice_range_clamp _ _ _ (by omega) (by omega)]
    rw [take_drop_window _ _ _ _ _ (by omega)]
    unfold chrWindow
    have a1 : (s' - 1).toNat + (max 0 (c.1 - s' - n)).toNat = (max (c.1 - n) 1 - 1).toNat := by omega
    have a2 : (c.1 - s' - max 0 (c.1 - s' - n)).toNat = (c.1 - 1 - max (c.1 - n) 1 + 1).toNat := by omega
    rw [a1, a2]

/-- **downstream_window_spec** (full strength, the repaired code): the gene region loaded for a header `hdr` and kept
    reads `reads` with `flank ≥ n` answers, for every span `c` inside the span of the region (header window widened over
    the reads — where every transcript model built from these reads lies), with exactly the `n` bases behind the last base
    (`+`) resp. before the first base (`-`) on the CHROMOSOME — clipped only where the contig ends -/
theorem downstream_window_spec (chr : Seq) (hdr : Iv) (reads : List ReadSpan) (flank n : Int)
    (hne : reads ≠ []) (hok : ∀ r ∈ reads, ReadOk r) (hn : 0 ≤ n) (hfl : n ≤ flank) (c : Iv)
    (hc1 : (extendedWindow (max 1 hdr.1, hdr.2) reads).1 ≤ c.1) (hc : c.1 ≤ c.2)
    (hc2 : c.2 ≤ (extendedWindow (max 1 hdr.1, hdr.2) reads).2) :
    downstreamSeq (loadRegion chr hdr reads flank).1 c .plus n = chrWindow chr (c.2 + 1) (c.2 + n) ∧
    downstreamSeq (loadRegion chr hdr reads flank).1 c .minus n = chrWindow chr (c.1 - n) (c.1 - 1) := by
  have hw0 : (1 : Int) ≤ (max 1 hdr.1, hdr.2).1 := by simp only; omega
  have hmono := extendedWindow_mono reads (max 1 hdr.1, hdr.2)
  have hbnd := extendedWindow_bounds reads (max 1 hdr.1, hdr.2) hw0 hok
  have hemp : reads.isEmpty = false := by
    cases reads with
    | nil => exact absurd rfl hne
    | cons _ _ => rfl
  unfold loadRegion
  simp only [hemp, Bool.false_eq_true, if_false]
  split
  · exact downstream_of_window chr _ _ c n hn (by omega) hc (by omega) (by omega)
  · rename_i hnot
    simp only at hmono
    exact downstream_of_window chr _ _ c n hn (by omega) hc (by omega) (by omega)

/-- the sequence column and the percentage column of the table are functions of that window alone: the count is the number
    of `A`/`a` (resp. `T`/`t`) among the `n` downstream bases of the chromosome -/
theorem sqanti_downstream_spec (chr : Seq) (hdr : Iv) (reads : List ReadSpan) (flank n : Int)
    (hne : reads ≠ []) (hok : ∀ r ∈ reads, ReadOk r) (hn : 0 ≤ n) (hfl : n ≤ flank) (c : Iv)
    (hc1 : (extendedWindow (max 1 hdr.1, hdr.2) reads).1 ≤ c.1) (hc : c.1 ≤ c.2)
    (hc2 : c.2 ≤ (extendedWindow (max 1 hdr.1, hdr.2) reads).2)
    (href : (loadRegion chr hdr reads flank).1.refRegion ≠ []) :
    sqantiDownstream (loadRegion chr hdr reads flank).1 c .plus n =
      some (chrWindow chr (c.2 + 1) (c.2 + n), ((chrWindow chr (c.2 + 1) (c.2 + n)).map Char.toUpper).count 'A') ∧
    sqantiDownstream (loadRegion chr hdr reads flank).1 c .minus n =
      some (chrWindow chr (c.1 - n) (c.1 - 1), ((chrWindow chr (c.1 - n) (c.1 - 1)).map Char.toUpper).count 'T') ∧
    sqantiDownstream (loadRegion chr hdr reads flank).1 c .dot n = none := by
  have he : (loadRegion chr hdr reads flank).1.refRegion.isEmpty = false := by
    cases hg : (loadRegion chr hdr reads flank).1.refRegion with
    | nil => exact absurd hg href
    | cons _ _ => rfl
  obtain ⟨hp, hm⟩ := downstream_window_spec chr hdr reads flank n hne hok hn hfl c hc1 hc hc2
  refine ⟨?_, ?_, ?_⟩
  · simp only [sqantiDownstream, he, Bool.false_eq_true, if_false, hp, downstreamCount]; simp
  · simp only [sqantiDownstream, he, Bool.false_eq_true, if_false, hm, downstreamCount]; simp
  · simp [sqantiDownstream, he]

/-- the counted letters, declaratively: a base counts iff it is `A`/`a` (for `+`; `T`/`t` for `-`) -/
theorem downstream_count_spec (s : Seq) :
    downstreamCount s .plus = s.countP (fun ch => ch = 'A' ∨ ch = 'a') ∧
    downstreamCount s .minus = s.countP (fun ch => ch = 'T' ∨ ch = 't') := by
  constructor
  · simp only [downstreamCount, if_true, List.count_eq_countP, List.countP_map]
    congr 1; funext ch
    rw [Bool.eq_iff_iff]; simp [toUpper_A]
  · have hne : (Strand.minus = Strand.plus) = False := by simp
    simp only [downstreamCount, hne, if_false, List.count_eq_countP, List.countP_map]
    congr 1; funext ch
    rw [Bool.eq_iff_iff]; simp [toUpper_T]

/-! ### the code before the repair -/

/-- a 60-base chromosome: `C…C` with `AAAAAAAAAATTTTTTTTTT` at 1..20 and `TTTTTTTTTTAAAAAAAAAA` at 41..60 -/
def dsChr : Seq := ("AAAAAAAAAATTTTTTTTTT" ++ "CCCCCCCCCCCCCCCCCCCC" ++ "TTTTTTTTTTAAAAAAAAAA").toList

def dsRead : ReadSpan := { exons := [(21, 40)], correctedExons := [(21, 40)] }

/-- **downstream_window_orig_witness** (`_witness`; replayed on the real code by the oracle): gene region 25..36, one read
    21–40, transcript model 21–40.  Before the repair the window is 21..40: the `+` slice starts behind its end (`''`,
    0.00) and the `-` slice `[-20:0]` is empty too; the chromosome has 20 bases on either side (10 A of 20 downstream on `+`,
    10 T of 20 on `-`), which the repaired loader (flank 20) returns -/
theorem downstream_window_orig_witness :
    sqantiDownstreamOrig (loadRegion dsChr (25, 36) [dsRead] 0).1 (21, 40) .plus 20 = some ([], 0) ∧
    sqantiDownstreamOrig (loadRegion dsChr (25, 36) [dsRead] 0).1 (21, 40) .minus 20 = some ([], 0) ∧
    sqantiDownstream (loadRegion dsChr (25, 36) [dsRead] 20).1 (21, 40) .plus 20 = some ("TTTTTTTTTTAAAAAAAAAA".toList, 10) ∧
    sqantiDownstream (loadRegion dsChr (25, 36) [dsRead] 20).1 (21, 40) .minus 20 = some ("AAAAAAAAAATTTTTTTTTT".toList, 10) ∧
    chrWindow dsChr 41 60 = "TTTTTTTTTTAAAAAAAAAA".toList ∧ chrWindow dsChr 1 20 = "AAAAAAAAAATTTTTTTTTT".toList := by
  decide

/-- the wrap-around (`_witness`): a `-` model starting 5 bases behind the window start; the unclamped slice `[-15:5]` of the
    16-base window 25..40 is `[1:5]` — four bases from INSIDE the model (and with a longer window bases from its far end) —
    instead of the 5 window bases before the model; with the flank the 20 bases 10..29 of the chromosome are returned -/
theorem downstream_wrap_witness :
    downstreamSeqOrig (setReferenceSequence dsChr 25 40).1 (30, 40) .minus 20 = "CCCC".toList ∧
    downstreamSeq (setReferenceSequence dsChr 25 40).1 (30, 40) .minus 20 = "CCCCC".toList ∧
    downstreamSeq (loadRegion dsChr (25, 36) [{ exons := [(30, 40)], correctedExons := [(30, 40)] }] 20).1 (30, 40) .minus 20 =
      chrWindow dsChr 10 29 ∧
    chrWindow dsChr 10 29 = "ATTTTTTTTTTCCCCCCCCC".toList := by
  decide

/-- clipped only at the contig: a `-` model starting at base 6 has 5 bases before it, a `+` model ending at base 55 of 60
    has 5 behind it -/
example : sqantiDownstream (loadRegion dsChr (6, 55) [{ exons := [(6, 55)], correctedExons := [(6, 55)] }] 20).1 (6, 55) .minus 20 =
      some ("AAAAA".toList, 0) ∧
    sqantiDownstream (loadRegion dsChr (6, 55) [{ exons := [(6, 55)], correctedExons := [(6, 55)] }] 20).1 (6, 55) .plus 20 =
      some ("AAAAA".toList, 5) ∧
    chrWindow dsChr (6 - 20) 5 = "AAAAA".toList ∧ chrWindow dsChr 56 75 = "AAAAA".toList := by decide

-- non-vacuity of `downstream_window_spec` / `sqanti_downstream_spec`: the witness region meets every hypothesis
example : [dsRead] ≠ [] ∧ (0 : Int) ≤ 20 ∧ (20 : Int) ≤ 20 ∧
    (extendedWindow (max 1 ((25, 36) : Iv).1, ((25, 36) : Iv).2) [dsRead]).1 ≤ ((21, 40) : Iv).1 ∧
    ((21, 40) : Iv).2 ≤ (extendedWindow (max 1 ((25, 36) : Iv).1, ((25, 36) : Iv).2) [dsRead]).2 ∧
    (loadRegion dsChr (25, 36) [dsRead] 20).1.refRegion ≠ [] := by decide

example : ReadOk dsRead := by
  refine ⟨?_, ?_, ?_, ?_, ?_, ?_⟩
  · exact trivial
  · intro r hr; simp [dsRead] at hr; subst hr; decide
  · exact trivial
  · intro r hr; simp [dsRead] at hr; subst hr; decide
  · intro r hr; simp [dsRead] at hr; subst hr; decide
  · intro r hr; simp [dsRead] at hr; subst hr; decide

end IsoVerif.Props.C18Downstream
