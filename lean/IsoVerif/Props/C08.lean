/-
C08 — multi-mapped reads resolve to one best locus, order-independently, counted once.
Part 1: which records are retained (priority classes, exact duplicates), what happens to the others, how ties are
flagged, and the read's total contribution to a count table.
(Order independence: Props/C08Order.lean.  The flow around the resolver: Props/C08Flow.lean.)
Property theorems only; helper lemmas live in IsoVerif/Lemmas/Resolver.lean.
-/
import IsoVerif.Model.Resolver
import IsoVerif.Lemmas.Resolver
import IsoVerif.Lemmas.ResolverSpec
import IsoVerif.Props.C08Spec

namespace IsoVerif.Props.C08
open IsoVerif.Gen IsoVerif.Model.Resolver IsoVerif.Lemmas.Resolver IsoVerif.Lemmas.ResolverSpec

/-- **priority** (which alignments are handed to duplicate elimination and kept).
    For every non-empty list the resolver keeps `findDuplicates cand` where `cand`, in list order, is
    * exactly the `Winner` records when some record is assigned (consistently or inconsistently),
    * the single first `Winner` record when every record is uninformative. -/
theorem priority_candidates (l : List Rec) (hl : l ≠ []) :
    ∃ cand, candidates l = some cand ∧
      selectBestAssignment l = some (applyKeep l (findDuplicates cand)) ∧
      cand.Sublist l.zipIdx ∧ cand ≠ [] ∧
      (∀ x ∈ cand, Winner l x.1) ∧
      ((Has Cons l ∨ Has Inc l) → ∀ x ∈ l.zipIdx, Winner l x.1 → x ∈ cand) ∧
      (¬ Has Cons l → ¬ Has Inc l →
        ∃ x pre post, cand = [x] ∧ l.zipIdx = pre ++ x :: post ∧ ∀ y ∈ pre, ¬ Winner l y.1) := by
  have hne : l.isEmpty = false := by cases l <;> simp_all
  have hPU := class_nonempty_iff l isPrimaryUnique PU isPrimaryUnique_iff
  have hCo := class_nonempty_iff l isCons Cons isCons_iff
  have hPI := class_nonempty_iff l isPrimaryInc PInc isPrimaryInc_iff
  have hIn := class_nonempty_iff l isInc Inc (fun r => Iff.rfl)
  have hNo := class_nonempty_iff l isNoninf (fun r => ¬ Cons r ∧ ¬ Inc r) isNoninf_iff
  change (!(classPU l).isEmpty) = true ↔ _ at hPU
  change (!(classCons l).isEmpty) = true ↔ _ at hCo
  change (!(classPInc l).isEmpty) = true ↔ _ at hPI
  change (!(classInc l).isEmpty) = true ↔ _ at hIn
  change (!(classNon l).isEmpty) = true ↔ _ at hNo
  have pu_cons : Has PU l → Has Cons l := fun ⟨q, hq, h⟩ => ⟨q, hq, h.1⟩
  have pinc_inc : Has PInc l → Has Inc l := fun ⟨q, hq, h⟩ => ⟨q, hq, h.1⟩
  unfold candidates selectBestAssignment
  simp only [hne, Bool.false_eq_true, ↓reduceIte]
  by_cases c1 : Has PU l
  · -- primary unique-consistent records exist
    simp only [hPU.mpr c1, ↓reduceIte]
    refine ⟨classPU l, rfl, rfl, List.filter_sublist, ?_, ?_, ?_, ?_⟩
    · intro h; have := hPU.mpr c1; simp [h] at this
    · intro x hx
      have hx' := (isPrimaryUnique_iff x.1).mp (List.mem_filter.mp hx).2
      exact ⟨fun _ => hx', fun h => absurd c1 h, fun h => absurd (pu_cons c1) h,
             fun h => absurd (pu_cons c1) h, fun h => absurd (pu_cons c1) h⟩
    · intro _ x hx hw
      exact List.mem_filter.mpr ⟨hx, (isPrimaryUnique_iff x.1).mpr (hw.1 c1)⟩
    · intro h; exact absurd (pu_cons c1) h
  · have e1 : (!(classPU l).isEmpty) = false := by
      cases h : (!(classPU l).isEmpty) with
      | false => rfl
      | true => exact absurd (hPU.mp h) c1
    simp only [e1, Bool.false_eq_true, ↓reduceIte]
    by_cases c2 : Has Cons l
    · simp only [hCo.mpr c2, ↓reduceIte]
      refine ⟨classCons l, rfl, rfl, List.filter_sublist, ?_, ?_, ?_, ?_⟩
      · intro h; have := hCo.mpr c2; simp [h] at this
      · intro x hx
        have hx' := (isCons_iff x.1).mp (List.mem_filter.mp hx).2
        exact ⟨fun h => absurd h c1, fun _ _ => hx', fun h => absurd c2 h, fun h => absurd c2 h, fun h => absurd c2 h⟩
      · intro _ x hx hw
        exact List.mem_filter.mpr ⟨hx, (isCons_iff x.1).mpr (hw.2.1 c1 c2)⟩
      · intro h; exact absurd c2 h
    · have e2 : (!(classCons l).isEmpty) = false := by
        cases h : (!(classCons l).isEmpty) with
        | false => rfl
        | true => exact absurd (hCo.mp h) c2
      simp only [e2, Bool.false_eq_true, ↓reduceIte]
      by_cases c3 : Has PInc l
      · simp only [hPI.mpr c3, ↓reduceIte, selectBestInconsistent, filterAssignments]
        have hcl : classPInc l ≠ [] := by intro h; have := hPI.mpr c3; simp [h] at this
        refine ⟨bestInconsistent (classPInc l), rfl, rfl,
          (bestInconsistent_sublist _).trans List.filter_sublist, bestInconsistent_ne_nil _ hcl, ?_, ?_, ?_⟩
        · intro x hx
          obtain ⟨hxc, hmin⟩ := (mem_bestInconsistent _ x).mp hx
          have hx' := (isPrimaryInc_iff x.1).mp (List.mem_filter.mp hxc).2
          refine ⟨fun h => absurd h c1, fun _ h => absurd h c2, fun _ _ => ⟨hx', ?_⟩, fun _ h => absurd c3 h,
                  fun _ h => absurd (pinc_inc c3) h⟩
          intro q hq hP
          obtain ⟨i, hi⟩ := mem_zipIdx_of_mem hq
          exact hmin (q, i) (List.mem_filter.mpr ⟨hi, (isPrimaryInc_iff q).mpr hP⟩)
        · intro _ x hx hw
          obtain ⟨hP, hmin⟩ := hw.2.2.1 c2 c3
          refine (mem_bestInconsistent _ x).mpr ⟨List.mem_filter.mpr ⟨hx, (isPrimaryInc_iff x.1).mpr hP⟩, ?_⟩
          intro y hy
          have hy' := List.mem_filter.mp hy
          exact hmin y.1 (mem_of_mem_zipIdx hy'.1) ((isPrimaryInc_iff y.1).mp hy'.2)
        · intro _ h; exact absurd (pinc_inc c3) h
      · have e3 : (!(classPInc l).isEmpty) = false := by
          cases h : (!(classPInc l).isEmpty) with
          | false => rfl
          | true => exact absurd (hPI.mp h) c3
        simp only [e3, Bool.false_eq_true, ↓reduceIte]
        by_cases c4 : Has Inc l
        · simp only [hIn.mpr c4, ↓reduceIte, selectBestInconsistent, filterAssignments]
          have hcl : classInc l ≠ [] := by intro h; have := hIn.mpr c4; simp [h] at this
          refine ⟨bestInconsistent (classInc l), rfl, rfl,
            (bestInconsistent_sublist _).trans List.filter_sublist, bestInconsistent_ne_nil _ hcl, ?_, ?_, ?_⟩
          · intro x hx
            obtain ⟨hxc, hmin⟩ := (mem_bestInconsistent _ x).mp hx
            have hx' : Inc x.1 := (List.mem_filter.mp hxc).2
            refine ⟨fun h => absurd h c1, fun _ h => absurd h c2, fun _ h => absurd h c3, fun _ _ _ => ⟨hx', ?_⟩,
                    fun _ h => absurd c4 h⟩
            intro q hq hP
            obtain ⟨i, hi⟩ := mem_zipIdx_of_mem hq
            exact hmin (q, i) (List.mem_filter.mpr ⟨hi, hP⟩)
          · intro _ x hx hw
            obtain ⟨hP, hmin⟩ := hw.2.2.2.1 c2 c3 c4
            refine (mem_bestInconsistent _ x).mpr ⟨List.mem_filter.mpr ⟨hx, hP⟩, ?_⟩
            intro y hy
            have hy' := List.mem_filter.mp hy
            exact hmin y.1 (mem_of_mem_zipIdx hy'.1) hy'.2
          · intro _ h; exact absurd c4 h
        · have e4 : (!(classInc l).isEmpty) = false := by
            cases h : (!(classInc l).isEmpty) with
            | false => rfl
            | true => exact absurd (hIn.mp h) c4
          simp only [e4, Bool.false_eq_true, ↓reduceIte]
          -- every record is uninformative: classNon l is the whole enumerated list
          have hall : ∀ r ∈ l, isNoninf r = true := by
            intro r hr
            rcases class_trichotomy r with h | h | h
            · exact absurd ⟨r, hr, h⟩ c4
            · exact absurd ⟨r, hr, (isCons_iff r).mp h⟩ c2
            · exact h
          have hcls : classNon l = l.zipIdx := by
            unfold classNon
            rw [List.filter_eq_self]
            intro x hx; exact hall x.1 (mem_of_mem_zipIdx hx)
          have hnonempty : l.zipIdx ≠ [] := by
            intro h; apply hl; simpa using congrArg List.length h
          have e5 : (!(l.zipIdx).isEmpty) = true := by
            cases hz : l.zipIdx with
            | nil => exact absurd hz hnonempty
            | cons _ _ => rfl
          simp only [hcls, e5, ↓reduceIte, selectNoninformative, filterAssignments, bestNoninformative]
          have hspec := pickBest_spec (maxOverlap l.zipIdx) none l.zipIdx (by simp)
          obtain ⟨w, hw, hwm⟩ := maxOverlap_attained l.zipIdx hnonempty
          cases hpb : pickBest (maxOverlap l.zipIdx) none l.zipIdx with
          | none => exact absurd hwm ((hspec.1.mp hpb).2 w hw)
          | some z =>
            obtain ⟨hz1, _, hz3, hz4⟩ := hspec.2 z hpb
            have hbest : BestUninformative l z.1 := by
              refine ⟨?_, ?_⟩
              · intro q hq
                obtain ⟨i, hi⟩ := mem_zipIdx_of_mem hq
                rw [hz1]; exact maxOverlap_ge l.zipIdx (q, i) hi
              · intro q hq hov
                obtain ⟨i, hi⟩ := mem_zipIdx_of_mem hq
                exact hz3 (q, i) hi (by rw [← hz1]; exact hov)
            have hwin : Winner l z.1 :=
              ⟨fun h => absurd h c1, fun _ h => absurd h c2, fun _ h => absurd h c3, fun _ _ h => absurd h c4,
               fun _ _ => hbest⟩
            rcases hz4 with ⟨hbz, _⟩ | ⟨pre, post, hdec, _, hpre⟩
            · cases hbz
            · have hzmem : z ∈ l.zipIdx := by rw [hdec]; simp
              refine ⟨[z], rfl, rfl, by simpa using hzmem, by simp, ?_, ?_, ?_⟩
              · intro x hx; simp only [List.mem_singleton] at hx; subst hx; exact hwin
              · rintro (h | h)
                · exact absurd h c2
                · exact absurd h c4
              · intro _ _
                refine ⟨z, pre, post, rfl, hdec, ?_⟩
                intro y hy hyw
                have hyb := hyw.2.2.2.2 c2 c4
                have hymem : y ∈ l.zipIdx := by rw [hdec]; exact List.mem_append_left _ hy
                have hov : overlapLen y.1 = maxOverlap l.zipIdx := by
                  have h1 := hyb.1 z.1 (mem_of_mem_zipIdx hzmem)
                  have h2 := maxOverlap_ge l.zipIdx y hymem
                  omega
                have hlt := hpre y hy hov
                have hle := hyb.2 z.1 (mem_of_mem_zipIdx hzmem) (by omega)
                exact List.lt_irrefl _ (Std.lt_of_lt_of_le hlt hle)


/-! ### what the resolver returns (observable level) -/

theorem resolve_take_best (l : List Rec) (h2 : 2 ≤ l.length) :
    resolve .take_best l = selectBestAssignment l := by
  have : ¬ l.length ≤ 1 := by omega
  simp [resolve, this]

/-- **priority**, on the resolver's output.  For a read with at least two records (none already `suspended`)
    the resolver never raises, and with `retained out` = the output records that are not `suspended`:
    * every retained record is a `Winner` (same alignment, type possibly re-flagged);
    * if some record is assigned, every `Winner` alignment is retained;
    * if no record is assigned, exactly one record is retained. -/
theorem priority (l : List Rec) (h2 : 2 ≤ l.length) (hin : NoSuspendedInput l) :
    ∃ out, resolve .take_best l = some out ∧
      (∀ r' ∈ retained out, ∃ r ∈ l, Winner l r ∧ SameAlignment r r') ∧
      ((Has Cons l ∨ Has Inc l) → ∀ r ∈ l, Winner l r → ∃ r' ∈ retained out, key r' = key r) ∧
      (¬ Has Cons l → ¬ Has Inc l → ∃ r', retained out = [r']) := by
  have hl : l ≠ [] := by intro h; simp [h] at h2
  obtain ⟨cand, _, hsel, hsub, _, hwin, hall, hone⟩ := priority_candidates l hl
  have hksub : (findDuplicates cand).Sublist l.zipIdx := (firstWins_sublist _ cand).trans hsub
  refine ⟨_, (resolve_take_best l h2).trans hsel, ?_, ?_, ?_⟩
  · intro r' hr'
    obtain ⟨x, hx, rfl⟩ := (mem_retained_applyKeep (fun x hx => hksub.subset hx) hin r').mp hr'
    have hxc : x ∈ cand := mem_of_mem_firstWins _ hx
    exact ⟨x.1, mem_of_mem_zipIdx (hsub.subset hxc), hwin x hxc, sameAlignment_flag _ _ _⟩
  · intro hassigned r hr hw
    obtain ⟨i, hi⟩ := mem_zipIdx_of_mem hr
    have hc : (r, i) ∈ cand := hall hassigned (r, i) hi hw
    obtain ⟨k, hk, hkr⟩ := firstWins_repr (fun a b : IRec => recEq a.1 b.1) (fun a => recEq_refl a.1) cand (r, i) hc
    refine ⟨flag _ _ k.1, (mem_retained_applyKeep (fun x hx => hksub.subset hx) hin _).mpr ⟨k, hk, rfl⟩, ?_⟩
    rw [key_flag]; exact key_eq_of_recEq hkr
  · intro h1 h2'
    obtain ⟨x, _, _, hcx, _, _⟩ := hone h1 h2'
    refine ⟨flag (changeT [x]) (changeG [x]) x.1, ?_⟩
    have : findDuplicates cand = [x] := by
      rw [hcx]; simp [findDuplicates, firstWins, firstWinsAux]
    rw [this] at hksub ⊢
    rw [retained_applyKeep_eq hksub hin]; rfl

/-- **the losers are suppressed**: the output is the input list, record by record, with only the type fields and the
    multimapper flag rewritten; a record that is not retained is `suspended` in *both* type fields -/
theorem losers_suspended (l : List Rec) (h2 : 2 ≤ l.length) (hin : NoSuspendedInput l) (out : List Rec)
    (hout : resolve .take_best l = some out) :
    out.length = l.length ∧
    (∀ (i : Nat) (r : Rec), l[i]? = some r → ∃ r', out[i]? = some r' ∧ SameAlignment r r') ∧
    (∀ r' ∈ out, r' ∉ retained out → r'.atype = .suspended ∧ r'.gtype = .suspended) := by
  have hl : l ≠ [] := by intro h; simp [h] at h2
  obtain ⟨cand, _, hsel, _⟩ := priority_candidates l hl
  have : out = applyKeep l (findDuplicates cand) := by
    have := (resolve_take_best l h2).symm.trans hout
    rw [hsel] at this; exact (Option.some.inj this).symm
  subst this
  refine ⟨length_applyKeep _ _, ?_, ?_⟩
  · intro i r hr
    rw [getElem?_applyKeep, hr]
    simp only [Option.map_some, Option.some.injEq, exists_eq_left']
    split
    · exact sameAlignment_flag _ _ _
    · exact sameAlignment_suspend _
  · intro r' hr' hnr
    have hs : r'.atype = .suspended := by
      apply Classical.byContradiction
      intro h; exact hnr (mem_retained.mpr ⟨hr', h⟩)
    obtain ⟨r, i, hri, rfl⟩ := mem_applyKeep hr'
    split at hs
    · exact absurd hs (flag_atype_ne_suspended _ _ _ (hin r (mem_of_mem_zipIdx hri)))
    · rename_i hc
      simp only [hc]
      exact ⟨rfl, rfl⟩

/-- shape of the output of `take_best` on a list of at least two records -/
theorem take_best_shape (l : List Rec) (h2 : 2 ≤ l.length) (out : List Rec) (hout : resolve .take_best l = some out) :
    ∃ cand, cand.Sublist l.zipIdx ∧ out = applyKeep l (findDuplicates cand) ∧
      (findDuplicates cand).Sublist l.zipIdx := by
  have hl : l ≠ [] := by intro h; simp [h] at h2
  obtain ⟨cand, _, hsel, hsub, _⟩ := priority_candidates l hl
  have : out = applyKeep l (findDuplicates cand) := by
    have := (resolve_take_best l h2).symm.trans hout
    rw [hsel] at this; exact (Option.some.inj this).symm
  exact ⟨cand, hsub, this, (firstWins_sublist _ cand).trans hsub⟩

/-- **ties_flagged**: when the read is retained on SEVERAL records whose isoforms differ, every retained record is typed
    `ambiguous` / `inconsistent_ambiguous` and marked as a multimapper.  (`hsev`: a tie is a tie between loci - one
    retained record that names two isoforms at its own locus is not one, see `single_winner_untouched`.) -/
theorem ties_flagged (l : List Rec) (h2 : 2 ≤ l.length) (hin : NoSuspendedInput l) (out : List Rec)
    (hout : resolve .take_best l = some out) (hsev : 2 ≤ (retained out).length)
    (htie : ∃ r1 ∈ retained out, ∃ r2 ∈ retained out, ∃ a ∈ r1.isoforms, ∃ b ∈ r2.isoforms, a ≠ b) :
    ∀ r ∈ retained out, (r.atype = .ambiguous ∨ r.atype = .inconsistent_ambiguous) ∧ r.multimapper = true := by
  obtain ⟨cand, _, rfl, hksub⟩ := take_best_shape l h2 out hout
  have hmem := mem_retained_applyKeep (fun x hx => hksub.subset hx) hin
  have hlen : 1 < (findDuplicates cand).length := by
    have := congrArg List.length (retained_applyKeep_eq hksub hin)
    rw [List.length_map] at this; omega
  obtain ⟨r1, hr1, r2, hr2, a, ha, b, hb, hab⟩ := htie
  obtain ⟨x1, hx1, rfl⟩ := (hmem r1).mp hr1
  obtain ⟨x2, hx2, rfl⟩ := (hmem r2).mp hr2
  have hT : changeT (findDuplicates cand) = true := by
    simp only [changeT, Bool.and_eq_true, decide_eq_true_eq, setSize_gt_one_iff]
    refine ⟨hlen, a, List.mem_flatMap.mpr ⟨x1, hx1, ?_⟩, b, List.mem_flatMap.mpr ⟨x2, hx2, ?_⟩, hab⟩
    · rw [← (sameAlignment_flag _ _ x1.1).2.2.2.2.2.2.2.2.1]; exact ha
    · rw [← (sameAlignment_flag _ _ x2.1).2.2.2.2.2.2.2.2.1]; exact hb
  intro r hr
  obtain ⟨x, _, rfl⟩ := (hmem r).mp hr
  rw [flag_atype, flag_multimapper, hT]
  refine ⟨?_, by simp⟩
  simp only [if_true]
  split
  · exact Or.inr rfl
  · exact Or.inl rfl

/-- the same for genes and the gene-level type -/
theorem ties_flagged_genes (l : List Rec) (h2 : 2 ≤ l.length) (hin : NoSuspendedInput l) (out : List Rec)
    (hout : resolve .take_best l = some out) (hsev : 2 ≤ (retained out).length)
    (htie : ∃ r1 ∈ retained out, ∃ r2 ∈ retained out, ∃ a ∈ r1.genes, ∃ b ∈ r2.genes, a ≠ b) :
    ∀ r ∈ retained out, (r.gtype = .ambiguous ∨ r.gtype = .inconsistent_ambiguous) ∧ r.multimapper = true := by
  obtain ⟨cand, _, rfl, hksub⟩ := take_best_shape l h2 out hout
  have hmem := mem_retained_applyKeep (fun x hx => hksub.subset hx) hin
  have hlen : 1 < (findDuplicates cand).length := by
    have := congrArg List.length (retained_applyKeep_eq hksub hin)
    rw [List.length_map] at this; omega
  obtain ⟨r1, hr1, r2, hr2, a, ha, b, hb, hab⟩ := htie
  obtain ⟨x1, hx1, rfl⟩ := (hmem r1).mp hr1
  obtain ⟨x2, hx2, rfl⟩ := (hmem r2).mp hr2
  have hG : changeG (findDuplicates cand) = true := by
    simp only [changeG, Bool.and_eq_true, decide_eq_true_eq, setSize_gt_one_iff]
    refine ⟨hlen, a, List.mem_flatMap.mpr ⟨x1, hx1, ?_⟩, b, List.mem_flatMap.mpr ⟨x2, hx2, ?_⟩, hab⟩
    · rw [← (sameAlignment_flag _ _ x1.1).2.2.2.2.2.2.2.2.2]; exact ha
    · rw [← (sameAlignment_flag _ _ x2.1).2.2.2.2.2.2.2.2.2]; exact hb
  intro r hr
  obtain ⟨x, _, rfl⟩ := (hmem r).mp hr
  rw [flag_gtype, flag_multimapper, hG]
  refine ⟨?_, by simp⟩
  simp only [if_true]
  split
  · exact Or.inr rfl
  · exact Or.inl rfl

/-- conversely: when the read is retained on at most ONE record, or all retained records agree on one isoform and one
    gene, nothing is re-flagged - the retained records are input records, untouched (types and multimapper flag
    included) -/
theorem untouched_without_tie (l : List Rec) (h2 : 2 ≤ l.length) (hin : NoSuspendedInput l) (out : List Rec)
    (hout : resolve .take_best l = some out)
    (hno : (retained out).length ≤ 1 ∨
      ((∀ r1 ∈ retained out, ∀ r2 ∈ retained out, ∀ a ∈ r1.isoforms, ∀ b ∈ r2.isoforms, a = b) ∧
       (∀ r1 ∈ retained out, ∀ r2 ∈ retained out, ∀ a ∈ r1.genes, ∀ b ∈ r2.genes, a = b))) :
    ∀ r ∈ retained out, r ∈ l := by
  obtain ⟨cand, _, rfl, hksub⟩ := take_best_shape l h2 out hout
  have hmem := mem_retained_applyKeep (fun x hx => hksub.subset hx) hin
  have hTG : changeT (findDuplicates cand) = false ∧ changeG (findDuplicates cand) = false := by
    rcases hno with hone | ⟨hiso, hgen⟩
    · have hlen : (findDuplicates cand).length ≤ 1 := by
        have := congrArg List.length (retained_applyKeep_eq hksub hin)
        rw [List.length_map] at this; omega
      exact ⟨changeT_of_length_le_one hlen, changeG_of_length_le_one hlen⟩
    · constructor
      · simp only [changeT, Bool.and_eq_false_iff, decide_eq_false_iff_not, Nat.not_lt]
        right
        apply setSize_le_one_of_all_eq
        intro a ha b hb
        obtain ⟨x1, hx1, ha⟩ := List.mem_flatMap.mp ha
        obtain ⟨x2, hx2, hb⟩ := List.mem_flatMap.mp hb
        exact hiso _ ((hmem _).mpr ⟨x1, hx1, rfl⟩) _ ((hmem _).mpr ⟨x2, hx2, rfl⟩) a
          (by rw [(sameAlignment_flag _ _ x1.1).2.2.2.2.2.2.2.2.1]; exact ha) b
          (by rw [(sameAlignment_flag _ _ x2.1).2.2.2.2.2.2.2.2.1]; exact hb)
      · simp only [changeG, Bool.and_eq_false_iff, decide_eq_false_iff_not, Nat.not_lt]
        right
        apply setSize_le_one_of_all_eq
        intro a ha b hb
        obtain ⟨x1, hx1, ha⟩ := List.mem_flatMap.mp ha
        obtain ⟨x2, hx2, hb⟩ := List.mem_flatMap.mp hb
        exact hgen _ ((hmem _).mpr ⟨x1, hx1, rfl⟩) _ ((hmem _).mpr ⟨x2, hx2, rfl⟩) a
          (by rw [(sameAlignment_flag _ _ x1.1).2.2.2.2.2.2.2.2.2]; exact ha) b
          (by rw [(sameAlignment_flag _ _ x2.1).2.2.2.2.2.2.2.2.2]; exact hb)
  intro r hr
  obtain ⟨x, hx, rfl⟩ := (hmem r).mp hr
  rw [hTG.1, hTG.2]
  exact mem_of_mem_zipIdx (hksub.subset hx)

/-- **the losers do not influence the winner's record** (audit-2 GAP C08-1): when exactly one record is retained, it
    stands in the output at its own position exactly as it stood in the input - types and multimapper flag included -
    whatever the records that lost were.  (So every consumer downstream - counts, TSV/BED, `IntronCollector`, `IntronGraph`,
    which skip `multimapper` records - sees what it would see had the read no other alignment.) -/
theorem single_winner_untouched (l : List Rec) (h2 : 2 ≤ l.length) (hin : NoSuspendedInput l) (out : List Rec)
    (hout : resolve .take_best l = some out) (r' : Rec) (h1 : retained out = [r']) :
    ∃ i : Nat, l[i]? = some r' ∧ out[i]? = some r' := by
  obtain ⟨cand, _, rfl, hksub⟩ := take_best_shape l h2 out hout
  have hret := retained_applyKeep_eq hksub hin
  rw [h1] at hret
  cases hk : findDuplicates cand with
  | nil => rw [hk] at hret; cases hret
  | cons x rest =>
    rw [hk] at hret hksub
    cases rest with
    | cons y rest' => simp at hret
    | nil =>
      have hx : r' = x.1 := by
        have hT := changeT_of_length_le_one (kept := [x]) (by simp)
        have hG := changeG_of_length_le_one (kept := [x]) (by simp)
        simp only [List.map_cons, List.map_nil, List.cons.injEq, and_true, hT, hG, flag_false_false] at hret
        exact hret
      subst hx
      have hxz : x ∈ l.zipIdx := hksub.subset (by simp)
      have hl : l[x.2]? = some x.1 := List.mem_zipIdx_iff_getElem?.mp hxz
      refine ⟨x.2, hl, ?_⟩
      rw [getElem?_applyKeep, hl]
      have hT := changeT_of_length_le_one (kept := [x]) (by simp)
      have hG := changeG_of_length_le_one (kept := [x]) (by simp)
      simp [hT, hG, flag_false_false]

/-- the typical read of a novel isoform: a primary alignment that is inconsistent w.r.t. both annotated isoforms of its
    gene, and a secondary alignment in an unannotated region that loses -/
def witnessSingle : List Rec := [
  { aid := 1, readId := 0, chr := 0, start := 300, stop := 360, region := (250, 400), multimapper := false, polyA := false,
    atype := .inconsistent_ambiguous, gtype := .inconsistent, penalty := 0, isoforms := [0, 1], genes := [0] },
  { aid := 2, readId := 0, chr := 1, start := 100, stop := 140, region := (90, 200), multimapper := true, polyA := false,
    atype := .intergenic, gtype := .intergenic, penalty := 0, isoforms := [], genes := [] }]

/-- full-strength statement of `single_winner_untouched` for an arbitrary resolution function -/
def SingleWinnerUntouched (res : List Rec → Option (List Rec)) : Prop :=
  ∀ (l out : List Rec) (r' : Rec), 2 ≤ l.length → NoSuspendedInput l → res l = some out → retained out = [r'] → r' ∈ l

/-- **single_winner_witness**: `filter_assignments` before the `several_kept` fix re-flagged the only retained record as a
    multimapper because it names two isoforms at its own locus - a record that is not an input record comes out, and
    `IntronCollector` / `IntronGraph` skip it: the losing alignment decides whether the novel isoform is discovered.
    The repaired resolver leaves it alone. -/
theorem single_winner_witness :
    (selectBestAssignmentBuggyFlag witnessSingle).map (fun o => o.map (fun r => (r.atype, r.multimapper)))
      = some [(.inconsistent_ambiguous, true), (.suspended, true)] ∧
    ¬ SingleWinnerUntouched selectBestAssignmentBuggyFlag ∧
    (resolve .take_best witnessSingle).map (fun o => o.map (fun r => (r.atype, r.multimapper)))
      = some [(.inconsistent_ambiguous, false), (.suspended, true)] ∧
    SingleWinnerUntouched (resolve .take_best) := by
  refine ⟨by decide, ?_, by decide, ?_⟩
  · intro hall
    have h := hall witnessSingle
      [{ witnessSingle[0] with multimapper := true }, suspend witnessSingle[1]] { witnessSingle[0] with multimapper := true }
      (by decide) (by decide) (by decide) (by decide)
    revert h; decide
  · intro l out r' h2 hin hout h1
    obtain ⟨i, hi, _⟩ := single_winner_untouched l h2 hin out hout r' h1
    exact List.mem_of_getElem? hi

/-! ### exact duplicates -/

/-- **dedup_keeps_one** (the duplicate test of `find_duplicates`, for every list of candidates): the survivors are a
    sub-list; no two survivors are equal under `__eq__`; every candidate has an equal survivor; and the first
    candidate of every `__eq__`-class survives - so exactly the first of each class does -/
theorem dedup_keeps_one (cand : List IRec) :
    (findDuplicates cand).Sublist cand ∧
    (findDuplicates cand).Pairwise (fun a b => recEq a.1 b.1 = false) ∧
    (∀ x ∈ cand, ∃ k ∈ findDuplicates cand, recEq k.1 x.1 = true) ∧
    (∀ pre x post, cand = pre ++ x :: post → (∀ y ∈ pre, recEq y.1 x.1 = false) → x ∈ findDuplicates cand) := by
  refine ⟨firstWins_sublist _ cand, firstWins_pairwise _ cand,
    firstWins_repr _ (fun a => recEq_refl a.1) cand, ?_⟩
  intro pre x post h hpre
  subst h
  exact firstWins_first _ pre post x hpre

/-- on the output: no alignment is retained twice -/
theorem retained_pairwise_distinct (l : List Rec) (h2 : 2 ≤ l.length) (hin : NoSuspendedInput l) (out : List Rec)
    (hout : resolve .take_best l = some out) :
    (retained out).Pairwise (fun a b => recEq a b = false) := by
  obtain ⟨cand, _, rfl, hksub⟩ := take_best_shape l h2 out hout
  rw [retained_applyKeep_eq hksub hin, List.pairwise_map]
  refine (firstWins_pairwise (fun a b : IRec => recEq a.1 b.1) cand).imp ?_
  intro a b hab
  have ha := sameAlignment_flag (changeT (findDuplicates cand)) (changeG (findDuplicates cand)) a.1
  have hb := sameAlignment_flag (changeT (findDuplicates cand)) (changeG (findDuplicates cand)) b.1
  obtain ⟨_, ha1, ha2, ha3, ha4, _, _, _, ha5, _⟩ := ha
  obtain ⟨_, hb1, hb2, hb3, hb4, _, _, _, hb5, _⟩ := hb
  simp only [recEq, ha1, ha2, ha3, ha4, ha5, hb1, hb2, hb3, hb4, hb5] at hab ⊢
  exact hab

/-! ### the read's total contribution to a count table -/

/-- full-strength statement of the last clause (FALSE of model and code, see the witness) -/
def ReadTotalLeOne : Prop :=
  ∀ (s : CountingStrategy) (l out : List Rec), NoSuspendedInput l → resolve .take_best l = some out →
    readTotal s out ≤ 1 ∧ readTotalG s out ≤ 1

def witnessTie : List Rec := [
  { aid := 1, readId := 0, chr := 0, start := 300, stop := 360, region := (250, 400), multimapper := false, polyA := false,
    atype := .inconsistent, gtype := .inconsistent, penalty := 0, isoforms := [4], genes := [2] },
  { aid := 2, readId := 0, chr := 0, start := 100, stop := 140, region := (90, 200), multimapper := true, polyA := false,
    atype := .unique, gtype := .unique, penalty := 0, isoforms := [0], genes := [0] },
  { aid := 3, readId := 0, chr := 1, start := 100, stop := 140, region := (90, 200), multimapper := true, polyA := false,
    atype := .unique, gtype := .unique, penalty := 0, isoforms := [2], genes := [1] }]

/-- an inconsistent primary and two secondaries that each match a different isoform: both secondaries are retained,
    flagged `ambiguous`, and each adds 1 - the read adds 2 to the transcript and to the gene table, even under
    `unique_only` (known finding `multilocus_tie_weight`; replayed on the real code by the oracle) -/
theorem read_total_le_one_witness :
    (resolve .take_best witnessTie).map (fun o => (o.map (·.atype), readTotal .unique_only o, readTotalG .unique_only o))
      = some ([.suspended, .ambiguous, .ambiguous], 2, 2) ∧ ¬ ReadTotalLeOne := by
  have h : (resolve .take_best witnessTie).map
      (fun o => (o.map (·.atype), readTotal .unique_only o, readTotalG .unique_only o))
      = some ([.suspended, .ambiguous, .ambiguous], 2, 2) := by decide +kernel
  refine ⟨h, ?_⟩
  intro hall
  cases hr : resolve .take_best witnessTie with
  | none => rw [hr] at h; cases h
  | some o =>
    rw [hr] at h
    simp only [Option.map_some, Option.some.injEq, Prod.mk.injEq] at h
    have := (hall .unique_only witnessTie o (by decide) hr).1
    rw [h.2.1] at this
    exact absurd this (by decide)

def witnessTieSameIsoform : List Rec := [
  { aid := 1, readId := 0, chr := 0, start := 300, stop := 360, region := (250, 400), multimapper := false, polyA := false,
    atype := .inconsistent, gtype := .inconsistent, penalty := 0, isoforms := [4], genes := [2] },
  { aid := 2, readId := 0, chr := 0, start := 100, stop := 140, region := (90, 200), multimapper := true, polyA := false,
    atype := .unique, gtype := .unique, penalty := 0, isoforms := [0], genes := [0] },
  { aid := 3, readId := 0, chr := 0, start := 100, stop := 150, region := (90, 200), multimapper := true, polyA := false,
    atype := .unique, gtype := .unique, penalty := 0, isoforms := [0], genes := [0] }]

/-- two retained alignments to the *same* isoform are not even flagged: the isoform gets 2 from one read under
    every strategy (same class of the finding; shows that "the retained records share one feature set" does not help) -/
theorem read_total_same_isoform_witness :
    (resolve .take_best witnessTieSameIsoform).map (fun o => (o.map (·.atype), readTotal .all o, readTotal .unique_only o))
      = some ([.suspended, .unique, .unique], 2, 2) := by decide +kernel

/-- exact value: every retained record adds 0 or 1, so the read's total is the number of retained records that
    carry weight -/
theorem read_total_eq_count (s : CountingStrategy) (out : List Rec) :
    readTotal s out = (((retained out).filter (fun r => decide (recordTotal s r = 1))).length : Rat) ∧
    readTotalG s out = (((retained out).filter (fun r => decide (recordTotalG s r = 1))).length : Rat) := by
  constructor
  · unfold readTotal
    rw [sumRat_zero_one _ (by
      intro a ha; obtain ⟨r, _, rfl⟩ := List.mem_map.mp ha; exact recordTotal_zero_or_one s r)]
    rw [List.filter_map, List.length_map]; rfl
  · unfold readTotalG
    rw [sumRat_zero_one _ (by
      intro a ha; obtain ⟨r, _, rfl⟩ := List.mem_map.mp ha; exact recordTotalG_zero_or_one s r)]
    rw [List.filter_map, List.length_map]; rfl

/-- the clause holds exactly when at most one retained record carries weight -/
theorem read_total_le_one_iff (s : CountingStrategy) (out : List Rec) :
    readTotal s out ≤ 1 ↔ ((retained out).filter (fun r => decide (recordTotal s r = 1))).length ≤ 1 := by
  rw [(read_total_eq_count s out).1, natCast_le_one_iff]

/-- **read_total_le_one_partial**: the clause for every read that is retained on at most one alignment record
    (what is missing for the full statement: reads retained on several records, see the two witnesses) -/
theorem read_total_le_one_partial (s : CountingStrategy) (out : List Rec) (h : (retained out).length ≤ 1) :
    readTotal s out ≤ 1 ∧ readTotalG s out ≤ 1 := by
  obtain ⟨h1, h2⟩ := read_total_eq_count s out
  rw [h1, h2, natCast_le_one_iff, natCast_le_one_iff]
  exact ⟨Nat.le_trans (List.length_filter_le _ _) h, Nat.le_trans (List.length_filter_le _ _) h⟩

/-- in particular for every read whose records are all uninformative (exactly one is retained) -/
theorem read_total_le_one_unassigned (s : CountingStrategy) (l : List Rec) (h2 : 2 ≤ l.length) (hin : NoSuspendedInput l)
    (hc : ¬ Has Cons l) (hi : ¬ Has Inc l) :
    ∃ out, resolve .take_best l = some out ∧ readTotal s out ≤ 1 ∧ readTotalG s out ≤ 1 := by
  obtain ⟨out, hout, _, _, hone⟩ := priority l h2 hin
  obtain ⟨r', hr'⟩ := hone hc hi
  exact ⟨out, hout, read_total_le_one_partial s out (by simp [hr'])⟩

/-! ### the other strategies, the compact penalty -/

/-- `ignore_multimapper`: every record of a read with several records is suspended -/
theorem ignore_multimapper_suspends_all (l : List Rec) (h2 : 2 ≤ l.length) :
    ∃ out, resolve .ignore_multimapper l = some out ∧ retained out = [] := by
  have : ¬ l.length ≤ 1 := by omega
  have hres : resolve .ignore_multimapper l = some (l.map (fun r => { r with atype := .suspended })) := by
    simp [resolve, this]
  refine ⟨_, hres, ?_⟩
  simp [retained, List.filter_eq_nil_iff]

/-- `merge` raises (`TypeError`: `find_duplicates` subscripts a `set`) as soon as two records are not
    `noninformative`; the command line hard-wires `take_best`, so the pipeline never gets here -/
theorem merge_raises_witness :
    resolve .merge witnessTie = none ∧ cli_multimap_strategy = "take_best" := by decide

/-- `BasicReadAssignment.penalty_score` is `min(0, first match penalty)`: for the non-negative penalties the assigner
    produces it is always 0, so "least penalty" never separates two inconsistent alignments in the pipeline -/
theorem compact_penalty_zero (ps : List Int) (h : ∀ p ∈ ps, 0 ≤ p) : compactPenalty ps = 0 := by
  match ps, h with
  | [], _ => rfl
  | p0 :: rest, h =>
    have h0 : 0 ≤ p0 := h p0 (by simp)
    simp only [compactPenalty]
    have : ∀ (xs : List Int) (acc : Int), acc = 0 → xs.foldl (fun acc _ => min acc p0) acc = 0 := by
      intro xs
      induction xs with
      | nil => intro acc h; simpa using h
      | cons x xs ih => intro acc h; simp only [List.foldl_cons]; exact ih _ (by omega)
    exact this _ 0 rfl

/-! ### non-vacuity -/

-- hypotheses of `priority` / `ties_flagged` / `losers_suspended` are met by a concrete read, and both sides are live
example : 2 ≤ witnessTie.length ∧ NoSuspendedInput witnessTie ∧ Has Cons witnessTie ∧
    (resolve .take_best witnessTie).map (fun o => (retained o).map (fun r => (r.aid, r.atype, r.multimapper)))
      = some [(2, .ambiguous, true), (3, .ambiguous, true)] := by
  refine ⟨by decide, by decide, ⟨witnessTie[1], by decide, by decide⟩, by decide⟩

-- `ties_flagged` needs `hsev`: without it the statement is false of the repaired resolver (one retained record naming
-- two isoforms meets `htie` with r1 = r2 and is NOT flagged); `single_winner_untouched` / `untouched_without_tie` are live
example : 2 ≤ witnessSingle.length ∧ NoSuspendedInput witnessSingle ∧
    (resolve .take_best witnessSingle).map (fun o => (retained o, (retained o).length)) = some ([witnessSingle[0]], 1) ∧
    (∃ a ∈ witnessSingle[0].isoforms, ∃ b ∈ witnessSingle[0].isoforms, a ≠ b) := by
  refine ⟨by decide, by decide, by decide, 0, by decide, 1, by decide, by decide⟩

-- a primary unique-consistent record beats a consistent secondary and an inconsistent primary
example : (resolve .take_best [
    { aid := 1, readId := 0, chr := 0, start := 10, stop := 50, region := (1, 90), multimapper := true, polyA := false,
      atype := .unique, gtype := .unique, penalty := 0, isoforms := [1], genes := [0] },
    { aid := 2, readId := 0, chr := 1, start := 10, stop := 50, region := (1, 90), multimapper := false, polyA := false,
      atype := .unique_minor_difference, gtype := .unique_minor_difference, penalty := 0, isoforms := [2], genes := [1] },
    { aid := 3, readId := 0, chr := 2, start := 10, stop := 50, region := (1, 90), multimapper := false, polyA := false,
      atype := .inconsistent, gtype := .inconsistent, penalty := 0, isoforms := [3], genes := [1] }]).map
      (fun o => o.map (fun r => (r.atype, r.gtype))) =
    some [(.suspended, .suspended), (.unique_minor_difference, .unique_minor_difference), (.suspended, .suspended)] := by
  decide

-- exact duplicates: the first of two `__eq__`-equal consistent records survives, the read stays unique
example : (resolve .take_best [
    { aid := 1, readId := 0, chr := 0, start := 10, stop := 50, region := (1, 90), multimapper := true, polyA := false,
      atype := .unique, gtype := .unique, penalty := 0, isoforms := [1], genes := [0] },
    { aid := 2, readId := 0, chr := 0, start := 10, stop := 50, region := (5, 95), multimapper := true, polyA := false,
      atype := .unique, gtype := .unique, penalty := 0, isoforms := [1], genes := [0] }]).map
      (fun o => o.map (fun r => (r.aid, r.atype, r.multimapper))) =
    some [(1, .unique, true), (2, .suspended, true)] := by decide

-- `read_total_le_one_partial` is live: one retained record with weight one
example : (resolve .take_best witnessTie).map (fun o => (retained o).length) = some 2 ∧
    recordTotal .unique_only witnessTie[1] = 1 := by decide +kernel


end IsoVerif.Props.C08
