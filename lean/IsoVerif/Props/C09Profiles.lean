/-
C09 — exon / intron inclusion–exclusion tables per group (`ProfileFeatureCounter`, `ExonCounter`, `IntronCounter` of
src/long_read_counter.py): every line holds exactly the reads of its group, the groups sum to the ungrouped table.
The numeric group ids are handed out on first sight of a group, so they depend on the order of the reads — the
theorems hold for every order.
-/
import IsoVerif.Model.C09
import IsoVerif.Lemmas.C09
import IsoVerif.Lemmas.C09Profile

namespace IsoVerif.Props.C09Profiles
open IsoVerif.Gen IsoVerif.Model.C09 IsoVerif.Lemmas.C09 IsoVerif.Lemmas.C09Profile

/-- **group_of_read** (exon / intron counters): after any stream of reads, for every group name `g` that has a numeric
    id and every feature `f`, the inclusion (exclusion) cell of `g` is the number of profile positions equal to 1 (−1)
    at `f` over exactly the valid reads of group `g` -/
theorem profile_group_of_read (rs : List PRead) (c : PCounter) (h : pRun (initPCounter false) rs = .ok c)
    (f g : String) (gid : Nat) (hg : c.ids.lookup g = some gid) :
    cell c.incl f gid = sumOver rs (fun r => if r.valid = true ∧ r.group = g then pVal 1 r.profile r.fids f else 0) ∧
    cell c.excl f gid = sumOver rs (fun r => if r.valid = true ∧ r.group = g then pVal (-1) r.profile r.fids f else 0) := by
  obtain ⟨hinv, _, _, _, hincl, hexcl⟩ := pRun_spec (PInv_init false) h
  have h0 : ∀ k, cell (initPCounter false).incl f k = 0 ∧ cell (initPCounter false).excl f k = 0 := by
    intro k; simp [initPCounter, cell, dataOf, getD, List.lookup]
  have hiff : ∀ r : PRead, (c.ids.lookup (pName (initPCounter false) r) = some gid) ↔ r.group = g := by
    intro r
    simp only [pName, initPCounter, Bool.false_eq_true, if_false]
    constructor
    · intro hr; exact lookup_inj hinv hr hg
    · intro e; rw [e]; exact hg
  constructor
  · rw [hincl f gid, (h0 gid).1, Rat.zero_add]
    apply sumOver_congr
    intro r _
    by_cases hr : r.group = g <;> simp [hiff r, hr]
  · rw [hexcl f gid, (h0 gid).2, Rat.zero_add]
    apply sumOver_congr
    intro r _
    by_cases hr : r.group = g <;> simp [hiff r, hr]

/-- the ungrouped exon / intron counter counts every valid read in its single column (numeric id 0) -/
theorem profile_ungrouped (rs : List PRead) (c : PCounter) (h : pRun (initPCounter true) rs = .ok c) (f : String) :
    c.ids.lookup NA = some 0 ∧
    cell c.incl f 0 = sumOver rs (fun r => if r.valid = true then pVal 1 r.profile r.fids f else 0) ∧
    cell c.excl f 0 = sumOver rs (fun r => if r.valid = true then pVal (-1) r.profile r.fids f else 0) := by
  obtain ⟨hinv, _, hmono, _, hincl, hexcl⟩ := pRun_spec (PInv_init true) h
  have hna : c.ids.lookup NA = some 0 := hmono NA 0 (by simp [initPCounter, List.lookup])
  have h0 : cell (initPCounter true).incl f 0 = 0 ∧ cell (initPCounter true).excl f 0 = 0 := by
    simp [initPCounter, cell, dataOf, getD, List.lookup]
  refine ⟨hna, ?_, ?_⟩
  · rw [hincl f 0, h0.1, Rat.zero_add]
    apply sumOver_congr
    intro r _
    simp [pName, initPCounter, hna]
  · rw [hexcl f 0, h0.2, Rat.zero_add]
    apply sumOver_congr
    intro r _
    simp [pName, initPCounter, hna]

/-- **partition** (exon / intron counters): the cells of all groups sum to the ungrouped cell -/
theorem profile_partition (rs : List PRead) (cG cU : PCounter) (hG : pRun (initPCounter false) rs = .ok cG)
    (hU : pRun (initPCounter true) rs = .ok cU) (f : String) :
    sumOver (cG.ids.map Prod.fst) (fun g => cell cG.incl f (idOf cG.ids g)) = cell cU.incl f 0 ∧
    sumOver (cG.ids.map Prod.fst) (fun g => cell cG.excl f (idOf cG.ids g)) = cell cU.excl f 0 := by
  obtain ⟨hinv, _, _, hall, _, _⟩ := pRun_spec (PInv_init false) hG
  obtain ⟨_, hUi, hUe⟩ := profile_ungrouped rs cU hU f
  have hkeys : ∀ g ∈ cG.ids.map Prod.fst, ∃ gid, cG.ids.lookup g = some gid := by
    intro g hg
    cases hl : cG.ids.lookup g with
    | some i => exact ⟨i, rfl⟩
    | none =>
      obtain ⟨p, hp, hp1⟩ := List.mem_map.mp hg
      exfalso
      -- a key of the dictionary is found by lookup
      have : ∀ (l : List (String × Nat)), (g, p.2) ∈ l → l.lookup g ≠ none := by
        intro l
        induction l with
        | nil => intro hm; cases hm
        | cons q t ih =>
          obtain ⟨k0, v0⟩ := q
          intro hm
          rw [List.lookup_cons]
          by_cases hk : g = k0
          · simp [hk]
          · have hb : (g == k0) = false := by simp [hk]
            simp only [hb]
            rcases List.mem_cons.mp hm with e | e
            · injection e with e1 _; exact absurd e1 hk
            · exact ih e
      exact this cG.ids (by rw [← hp1]; exact hp) hl
  have hmemkeys : ∀ r ∈ rs, r.valid = true → r.group ∈ cG.ids.map Prod.fst := by
    intro r hr hv
    obtain ⟨gid, hg⟩ := hall r hr hv
    simp only [pName, initPCounter, Bool.false_eq_true, if_false] at hg
    exact List.mem_map.mpr ⟨(r.group, gid), mem_of_lookup hg, rfl⟩
  constructor
  · rw [hUi]
    rw [sumOver_congr _ _ (fun g => sumOver rs (fun r => if r.group = g then
          (if r.valid = true then pVal 1 r.profile r.fids f else 0) else 0))]
    · rw [sumOver_groups _ hinv.1 rs (fun r => r.group) (fun r => if r.valid = true then pVal 1 r.profile r.fids f else 0)]
      apply sumOver_congr
      intro r hr
      by_cases hv : r.valid = true
      · simp [hmemkeys r hr hv]
      · simp [hv]
    · intro g hg
      obtain ⟨gid, hgid⟩ := hkeys g hg
      have : idOf cG.ids g = gid := by simp [idOf, hgid]
      rw [this, (profile_group_of_read rs cG hG f g gid hgid).1]
      apply sumOver_congr
      intro r _
      by_cases hv : r.valid = true <;> by_cases hr : r.group = g <;> simp [hv, hr]
  · rw [hUe]
    rw [sumOver_congr _ _ (fun g => sumOver rs (fun r => if r.group = g then
          (if r.valid = true then pVal (-1) r.profile r.fids f else 0) else 0))]
    · rw [sumOver_groups _ hinv.1 rs (fun r => r.group) (fun r => if r.valid = true then pVal (-1) r.profile r.fids f else 0)]
      apply sumOver_congr
      intro r hr
      by_cases hv : r.valid = true
      · simp [hmemkeys r hr hv]
      · simp [hv]
    · intro g hg
      obtain ⟨gid, hgid⟩ := hkeys g hg
      have : idOf cG.ids g = gid := by simp [idOf, hgid]
      rw [this, (profile_group_of_read rs cG hG f g gid hgid).2]
      apply sumOver_congr
      intro r _
      by_cases hv : r.valid = true <;> by_cases hr : r.group = g <;> simp [hv, hr]

/-- **the dumped lines**: `dump()` writes the line (feature, group, include, exclude) exactly when the feature was seen,
    the group has an id, the two numbers are the cells of that group, and one of them is positive — group *names*,
    never numeric ids, label the lines -/
theorem profile_lines (c : PCounter) (f g : String) (i e : Rat) :
    (f, g, i, e) ∈ pDump c ↔
      f ∈ c.names ∧ ∃ gid, c.ids.lookup g = some gid ∧ i = cell c.incl f gid ∧ e = cell c.excl f gid ∧ (i > 0 ∨ e > 0) := by
  unfold pDump
  simp only [List.mem_flatMap, List.mem_filterMap]
  constructor
  · rintro ⟨f', hf', g', _, hsome⟩
    cases hl : c.ids.lookup g' with
    | none => simp [hl] at hsome
    | some gid =>
      simp only [hl] at hsome
      split at hsome
      · rename_i hpos
        injection hsome with hsome
        injection hsome with h1 h2
        injection h2 with h2 h3
        injection h3 with h3 h4
        subst h1; subst h2
        exact ⟨hf', gid, hl, h3.symm, h4.symm, by rw [← h3, ← h4]; exact hpos⟩
      · cases hsome
  · rintro ⟨hf, gid, hl, hi, he, hpos⟩
    refine ⟨f, hf, g, ?_, ?_⟩
    · exact mem_sortStr.mpr (List.mem_map.mpr ⟨(g, gid), mem_of_lookup hl, rfl⟩)
    · simp only [hl]
      rw [if_pos (by rw [← hi, ← he]; exact hpos)]
      rw [hi, he]

-- non-vacuity: two groups seen in the order b, a (ids 1, 2); an invalid read is ignored
example : (match pRun (initPCounter false)
      [⟨true, [1, -1, 0, 1], ["e1", "e2", "e3", "e4"], "b"⟩, ⟨true, [1, 0, -2, 1], ["e1", "e2", "e3", "e4"], "a"⟩,
       ⟨false, [1], ["e1"], "z"⟩] with
    | .ok c => decide (c.ids = [("b", 1), ("a", 2)] ∧
        pDump c = [("e1", "a", 1, 0), ("e1", "b", 1, 0), ("e2", "b", 0, 1), ("e4", "a", 1, 0), ("e4", "b", 1, 0)])
    | .error _ => false) = true := by decide +kernel

end IsoVerif.Props.C09Profiles
