/-
C16 (growth c05edge, audit C16-G2) — a `P` (padding) operation inside the walked polyA/polyT tail.
Model of the repaired code: Model/FinderPad.lean (`moveRefLoopFix`, `moveRefCoordFix`, `findPolyaTailFix`, …); the
definitions of Model/PolyAFinder.lean (`moveRefCoord`, … = `…Orig`) keep the tree before `fix: padding inside the
walked tail`, where the "Unexpected event" branch raised `TypeError` and the whole run was aborted.  See docs/C16.md §9.
-/
import IsoVerif.Model.FinderPad
import IsoVerif.Lemmas.FinderPad
import IsoVerif.Lemmas.FinderChar
import IsoVerif.Props.C16MoveRef

namespace IsoVerif.Props.C16Pad
open IsoVerif.Gen IsoVerif.Model IsoVerif.Model.C16 IsoVerif.Lemmas.C16

/-- **pad_transparent**: the repaired walk over any operation list is the walk of the old code over the list with
    its `P` operations removed – a `P` moves neither the read nor the reference position and costs no iteration budget -/
theorem pad_transparent (T read ref : Int) (ops : List CigarOp) :
    moveRefLoopOrig T read ref (ops.filter notPad) = some (moveRefLoopFix T read ref ops) :=
  moveRefLoopFix_eq_filter T ops read ref

/-- **move_ref_fix_total**: the repaired function raises on the `assert` only (non-zero shift on an empty CIGAR); no
    CIGAR over the nine SAM operation kinds makes it raise -/
theorem move_ref_fix_total (cigar : List CigarOp) (shift : Int) :
    (moveRefCoordFix cigar shift = none ↔ shift ≠ 0 ∧ cigar = []) := by
  unfold moveRefCoordFix
  by_cases h0 : shift = 0
  · simp [h0]
  · by_cases hne : cigar = [] <;> simp [h0, hne]

/-- **move_ref_fix_extends**: the repair is conservative – whenever the old code returned a value the repaired code
    returns the same value (only inputs that raised `TypeError` change) -/
theorem move_ref_fix_extends (cigar : List CigarOp) (shift r : Int)
    (h : moveRefCoordOrig cigar shift = some r) : moveRefCoordFix cigar shift = some r := by
  unfold moveRefCoordOrig moveRefCoord at h
  unfold moveRefCoordFix
  by_cases h0 : shift = 0
  · simpa [h0] using h
  · by_cases hne : cigar = []
    · simp [h0, hne] at h
    · simp only [h0, hne, if_false] at h ⊢
      cases hl : moveRefLoop ((if shift > 0 then shift else -shift) + 1) 0 0
          ((if shift > 0 then cigar else cigar.reverse).drop (leadingClips (if shift > 0 then cigar else cigar.reverse))) with
      | none => rw [hl] at h; cases h
      | some v =>
        rw [hl] at h
        rw [moveRefLoop_some_fix _ _ _ _ _ hl]
        exact h

/-- **move_ref_coord_fix_eq_spec**: the repaired walk = the base-by-base SAM projection, on EVERY CIGAR with
    non-negative lengths – no exception for `P` any more (`moveRefCoordSpecFix` is the function the driver evaluates
    against the real code under the op `move_ref_coord_spec`) -/
theorem move_ref_coord_fix_eq_spec (cigar : List CigarOp) (shift : Int) (hnn : NonNeg cigar) :
    moveRefCoordFix cigar shift = moveRefCoordSpecFix cigar shift := by
  by_cases h0 : shift = 0
  · simp [moveRefCoordFix, moveRefCoordSpecFix, h0]
  by_cases hne : cigar = []
  · simp [moveRefCoordFix, moveRefCoordSpecFix, h0, hne]
  simp only [moveRefCoordFix, moveRefCoordSpecFix, h0, hne, if_false]
  rw [walkCore_eq]
  generalize hw : (if shift > 0 then cigar else cigar.reverse) = walk
  have hnw : NonNeg walk := by
    subst hw; intro o ho
    split at ho
    · exact hnn o ho
    · exact hnn o (List.mem_reverse.1 ho)
  have hnd : NonNeg ((walk.drop (leadingClips walk)).filter notPad) :=
    fun o ho => hnw o (List.mem_of_mem_drop (List.mem_filter.1 ho).1)
  have habs : (if shift > 0 then shift else -shift) = (shift.natAbs : Int) := by split <;> omega
  rw [habs]
  have hnopad : ∀ pre l post, coreOf ((walk.drop (leadingClips walk)).filter notPad) =
      pre ++ (CigarEvent.padding, l) :: post → (shift.natAbs : Int) + 1 - 0 ≤ queryLen pre := by
    intro pre l post hc
    exfalso
    have hmem : (CigarEvent.padding, l) ∈ coreOf ((walk.drop (leadingClips walk)).filter notPad) := by
      rw [hc]; simp
    have := (List.mem_filter.1 ((List.takeWhile_sublist _).subset hmem)).2
    simp [notPad] at this
  have hloop := moveRefLoop_spec ((shift.natAbs : Int) + 1) _ 0 0 hnd (by omega) hnopad
  have hfix := moveRefLoopFix_eq_filter ((shift.natAbs : Int) + 1) (walk.drop (leadingClips walk)) 0 0
  rw [hloop] at hfix
  have hv := Option.some.inj hfix
  rw [← hv, coreOf_filter_notPad, refColsUpTo_expand_filter]
  simp

/-- **move_ref_coord_fix_spec** (the declarative form): non-zero shift, non-empty CIGAR with lengths ≥ 0 – the
    repaired code returns `r` with `ProjectsTo (expand core) |shift| r`, `core` = the operations the walk sees.
    The first clause of `move_ref_coord_spec` ("a `P` before the target base: the code raises") is gone. -/
theorem move_ref_coord_fix_spec (cigar : List CigarOp) (shift : Int) (h0 : shift ≠ 0) (hne : cigar ≠ [])
    (hnn : NonNeg cigar) :
    ∃ r, moveRefCoordFix cigar shift = some r ∧
      ProjectsTo (expand (walkCore cigar (decide (shift > 0)))) shift.natAbs r := by
  refine ⟨_, ?_, projectsTo_refColsUpTo _ shift.natAbs⟩
  rw [move_ref_coord_fix_eq_spec cigar shift hnn]
  simp [moveRefCoordSpecFix, h0, hne]

/-- the finders are the old finders with the projection exchanged -/
theorem finder_with_orig :
    findPolyaTailWith moveRefCoord = findPolyaTail ∧ findPolytHeadWith moveRefCoord = findPolytHead ∧
    detectPolyaWith moveRefCoord = detectPolya ∧
    findPolyaTailSpecWith moveRefCoordSpec = findPolyaTailSpec ∧ findPolytHeadSpecWith moveRefCoordSpec = findPolytHeadSpec :=
  ⟨rfl, rfl, rfl, rfl, rfl⟩

/-- **find_tail_fix_extends**: whatever `find_polya_tail` / `find_polyt_head` / `detect_polya` returned before the
    repair they return after it (every theorem about a record on which the old finder did not raise carries over) -/
theorem find_tail_fix_extends (w num den : Nat) (s : Int) (cigar : List CigarOp) (seq : List Char)
    (fromPos toPos : Int) (chk : Bool) (r : Int) :
    (findPolyaTailOrig w num den s cigar seq fromPos toPos chk = some r →
      findPolyaTailFix w num den s cigar seq fromPos toPos chk = some r) ∧
    (findPolytHeadOrig w num den s cigar seq fromPos toPos chk = some r →
      findPolytHeadFix w num den s cigar seq fromPos toPos chk = some r) := by
  constructor
  · intro h
    have h' : findPolyaTailWith moveRefCoord w num den s cigar seq fromPos toPos chk = some r := h
    unfold findPolyaTailFix
    unfold findPolyaTailWith at h' ⊢
    by_cases hne : cigar = []
    · simp [hne] at h'
    by_cases hs : seq = []
    · simpa [hne, hs] using h'
    by_cases hc : softClipTail cigar < seq.length
    · simp only [hne, hs, hc, if_false, not_true_eq_false] at h' ⊢
      cases hscan : tailScan w num den chk _ with
      | none => rw [hscan] at h'; exact h'
      | some p =>
        rw [hscan] at h'
        simp only at h' ⊢
        split
        · rename_i hp; rw [if_pos hp] at h'; exact h'
        · rename_i hp
          rw [if_neg hp] at h'
          cases hm : moveRefCoord cigar _ with
          | none => rw [hm] at h'; cases h'
          | some v =>
            rw [hm] at h'
            rw [move_ref_fix_extends _ _ _ hm]
            exact h'
    · simp [hne, hs, hc] at h'
  · intro h
    have h' : findPolytHeadWith moveRefCoord w num den s cigar seq fromPos toPos chk = some r := h
    unfold findPolytHeadFix
    unfold findPolytHeadWith at h' ⊢
    by_cases hne : cigar = []
    · simp [hne] at h'
    by_cases hs : seq = []
    · simpa [hne, hs] using h'
    by_cases hc : softClipHead cigar < seq.length
    · simp only [hne, hs, hc, if_false, not_true_eq_false] at h' ⊢
      cases hscan : tailScan w num den chk _ with
      | none => rw [hscan] at h'; exact h'
      | some p =>
        rw [hscan] at h'
        simp only at h' ⊢
        split
        · rename_i hp; rw [if_pos hp] at h'; exact h'
        · rename_i hp
          rw [if_neg hp] at h'
          cases hm : moveRefCoord cigar _ with
          | none => rw [hm] at h'; cases h'
          | some v =>
            rw [hm] at h'
            rw [move_ref_fix_extends _ _ _ hm]
            exact h'
    · simp [hne, hs, hc] at h'

/-- **find_tail_fix_raises_iff**: every way the repaired finders raise – an empty CIGAR (`IndexError`) or a non-empty
    sequence not longer than the soft clip (`assert`); a `P` anywhere no longer matters
    (before: `find_polya_tail_raises_iff` lists a third way, the `TypeError`) -/
theorem find_tail_fix_raises_iff (w num den : Nat) (s : Int) (cigar : List CigarOp) (seq : List Char)
    (fromPos toPos : Int) (chk : Bool) :
    (findPolyaTailFix w num den s cigar seq fromPos toPos chk = none ↔
      cigar = [] ∨ (seq ≠ [] ∧ ¬ softClipTail cigar < seq.length)) ∧
    (findPolytHeadFix w num den s cigar seq fromPos toPos chk = none ↔
      cigar = [] ∨ (seq ≠ [] ∧ ¬ softClipHead cigar < seq.length)) := by
  constructor
  · unfold findPolyaTailFix findPolyaTailWith
    by_cases hne : cigar = []
    · simp [hne]
    by_cases hs : seq = []
    · simp [hne, hs]
    by_cases hc : softClipTail cigar < seq.length
    · simp only [hne, hs, hc, if_false, not_true_eq_false, false_or, ne_eq, not_false_eq_true, and_false, iff_false]
      split
      · simp
      · split
        · simp
        · have htot : ∀ sh, ∃ v, moveRefCoordFix cigar sh = some v := by
            intro sh
            cases hm : moveRefCoordFix cigar sh with
            | none => exact absurd ((move_ref_fix_total cigar sh).1 hm).2 hne
            | some v => exact ⟨v, rfl⟩
          obtain ⟨v, hv⟩ := htot _
          rw [hv]; simp
    · simp [hne, hs, hc]
  · unfold findPolytHeadFix findPolytHeadWith
    by_cases hne : cigar = []
    · simp [hne]
    by_cases hs : seq = []
    · simp [hne, hs]
    by_cases hc : softClipHead cigar < seq.length
    · simp only [hne, hs, hc, if_false, not_true_eq_false, false_or, ne_eq, not_false_eq_true, and_false, iff_false]
      split
      · simp
      · split
        · simp
        · have htot : ∀ sh, ∃ v, moveRefCoordFix cigar sh = some v := by
            intro sh
            cases hm : moveRefCoordFix cigar sh with
            | none => exact absurd ((move_ref_fix_total cigar sh).1 hm).2 hne
            | some v => exact ⟨v, rfl⟩
          obtain ⟨v, hv⟩ := htot _
          rw [hv]; simp
    · simp [hne, hs, hc]

/-- the probe of the audit in small: `3M 1P 2M 2S`, read `CCC AA AA` – the tail starts inside the aligned part,
    the backward walk meets the `P` -/
def padCigar : List CigarOp := [(.«match», 3), (.padding, 1), (.«match», 2), (.soft_clipping, 2)]

/-- **pad_in_tail_witness**: before the repair the projection (and with it `find_polya_tail`, `detect_polya` and the
    whole run) raises; the repaired code answers the base-by-base projection (3 reference bases from the alignment end) -/
theorem pad_in_tail_witness :
    moveRefCoordOrig padCigar (-3) = none ∧ moveRefCoordFix padCigar (-3) = some 3 ∧
    moveRefCoordSpecFix padCigar (-3) = some 3 ∧
    findPolyaTailOrig 2 1 1 10 padCigar "CCAAAAA".toList 6 2 false = none ∧
    findPolyaTailFix 2 1 1 10 padCigar "CCAAAAA".toList 6 2 false = some 12 := by
  refine ⟨by decide, by decide, by decide, by decide +kernel, by decide +kernel⟩

example : NonNeg padCigar ∧ padCigar ≠ [] := by
  refine ⟨?_, by decide⟩
  intro o ho
  simp [padCigar] at ho
  rcases ho with rfl | rfl | rfl | rfl <;> decide

end IsoVerif.Props.C16Pad
