/-
C16 — the CIGAR walkers of src/common.py as *regenerated from the source on every run* (`Gen/Loops.lean`):
`get_read_blocks` and `concat_gapless_blocks`.  The generated definitions keep what the Python has — an index `while`
over `cigar_tuples` with an emitted fuel bound, `CigarEvent(code)` per iteration (`none` = ValueError), the three
None-able locals `current_*_block_start`, the truthiness test `if current_ref_block_start:`, the three `append`s — and
are proved EQUAL to the hand model (`Model/Cigar.lean`: a left fold with one `Option` triple).  The C16 headline theorems
are then restated over the generated definitions.
-/
import IsoVerif.Props.C16
import IsoVerif.Props.C16Concat
import IsoVerif.Lemmas.GenCigar

namespace IsoVerif.Props.C16Gen
open IsoVerif.Gen IsoVerif.Model IsoVerif.Model.C16 IsoVerif.Lemmas.C16 IsoVerif.Lemmas.GenCigar

/-! ## refinement -/

/-- `get_read_blocks` for ALL inputs (any reference start, any tuple list): the generated loop returns exactly the
    model's triple for the decoded CIGAR, and raises (`none`) exactly when some code is not a `CigarEvent` value.
    In particular the fuel `len + 1` suffices and a `None` never reaches one of the appended tuples. -/
theorem get_read_blocks_refines (s : Int) (tuples : List Iv) :
    Gen.get_read_blocks s tuples = (decodeOps tuples).map (fun ops => rbOut (getReadBlocks s ops)) :=
  get_read_blocks_eq s tuples

/-- `concat_gapless_blocks` on a CIGAR whose codes are all valid (the loop stops as soon as `blocks` is exhausted, so
    codes behind that point are never decoded by the real code: hence the hypothesis instead of `Option.map`) -/
theorem concat_gapless_blocks_refines (blocks tuples : List Iv) (ops : List CigarOp)
    (hdec : decodeOps tuples = some ops) :
    Gen.concat_gapless_blocks blocks tuples = some (concatGaplessBlocks blocks ops) :=
  concat_gapless_blocks_eq blocks tuples ops hdec

/-- the hypothesis above cannot be dropped: with no block left the invalid code 9 is never looked at -/
theorem concat_lazy_decode_witness :
    decodeOps [(9, 1)] = none ∧ Gen.concat_gapless_blocks [] [(9, 1)] = some [] := by decide +kernel

example : decodeOps [(4, 2), (0, 5), (2, 1), (3, 10), (7, 3)]
    = some [(.soft_clipping, 2), (.«match», 5), (.deletion, 1), (.skipped, 10), (.seq_match, 3)] := by decide +kernel

theorem fuel_bounds (s : Int) (blocks tuples : List Iv) :
    get_read_blocks.fuel1 s tuples = tuples.length + 1 ∧
    concat_gapless_blocks.fuel1 blocks tuples = tuples.length + blocks.length + 1 := ⟨rfl, rfl⟩

/-! ## headline theorems over the generated definitions -/

/-- **read_blocks_spec** over `Gen.get_read_blocks`: for every CIGAR with valid codes and non-negative lengths and
    every `reference_start ≥ 0`, the exons are exactly the SAM-semantics exons of the specification -/
theorem read_blocks_spec (s : Int) (tuples : List Iv) (ops : List CigarOp) (hdec : decodeOps tuples = some ops)
    (hs : 0 ≤ s) (hn : NonNeg ops) :
    (Gen.get_read_blocks s tuples).map (·.1) = some (exonsSpec s ops) := by
  rw [get_read_blocks_refines, hdec]
  simp only [Option.map_some, rbOut]
  rw [C16.read_blocks_spec s ops hs hn]

theorem read_blocks_query_spec (s : Int) (tuples : List Iv) (ops : List CigarOp) (hdec : decodeOps tuples = some ops)
    (hs : 0 ≤ s) (hn : NonNeg ops) :
    (Gen.get_read_blocks s tuples).map (·.2.1) = some (queryBlocksSpec ops) := by
  rw [get_read_blocks_refines, hdec]
  simp only [Option.map_some, rbOut]
  rw [C16.read_blocks_query_spec s ops hs hn]

theorem cigar_blocks_spec (s : Int) (tuples : List Iv) (ops : List CigarOp) (hdec : decodeOps tuples = some ops)
    (hs : 0 ≤ s) (hn : NonNeg ops) :
    (Gen.get_read_blocks s tuples).map (·.2.2) = some (cigarBlocksSpec ops) := by
  rw [get_read_blocks_refines, hdec]
  simp only [Option.map_some, rbOut]
  rw [C16.cigar_blocks_spec s ops hs hn]

/-- an invalid operation code anywhere in the CIGAR makes `get_read_blocks` raise -/
theorem read_blocks_invalid_code (s : Int) (tuples : List Iv) (h : decodeOps tuples = none) :
    Gen.get_read_blocks s tuples = none := by
  rw [get_read_blocks_refines, h]; rfl

/-- non-vacuity: the CIGAR of `C16.read_blocks_spec`'s example, as tuples -/
example : decodeOps [(5, 3), (4, 2), (2, 1), (0, 5), (1, 2), (3, 10), (3, 4), (1, 1), (2, 2), (3, 7), (7, 3), (6, 1), (8, 1),
      (2, 2), (4, 4)]
    = some [(.hard_clipping, 3), (.soft_clipping, 2), (.deletion, 1), (.«match», 5),
        (.insertion, 2), (.skipped, 10), (.skipped, 4), (.insertion, 1), (.deletion, 2), (.skipped, 7),
        (.seq_match, 3), (.padding, 1), (.seq_mismatch, 1), (.deletion, 2), (.soft_clipping, 4)] ∧
    (Gen.get_read_blocks 99 [(5, 3), (4, 2), (2, 1), (0, 5), (1, 2), (3, 10), (3, 4), (1, 1), (2, 2), (3, 7), (7, 3), (6, 1),
      (8, 1), (2, 2), (4, 4)]).map (·.1) = some [(100, 105), (129, 134)] := by
  refine ⟨by decide +kernel, by decide +kernel⟩

/-- **concat_gapless_spec** over `Gen.concat_gapless_blocks` on pysam's `get_blocks()` -/
theorem concat_gapless_spec (s : Int) (tuples : List Iv) (ops : List CigarOp) (hdec : decodeOps tuples = some ops) :
    Gen.concat_gapless_blocks (alignedBlocks s ops) tuples = some (concatGaplessSpec s ops) := by
  rw [concat_gapless_blocks_refines _ tuples ops hdec, C16Concat.concat_gapless_spec s ops]

example : Gen.concat_gapless_blocks [(10, 15), (26, 29)] [(4, 2), (0, 5), (2, 1), (3, 10), (7, 3)] = some [(10, 16), (26, 29)] := by
  decide +kernel

end IsoVerif.Props.C16Gen
