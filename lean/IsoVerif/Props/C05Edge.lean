/-
C05 (growth c05edge) — records that `fetch` yields but that are no alignments (placed unmapped read, no CIGAR), the
BED line of an alignment retained in two sub-regions, region-dependent remaining filters.
Model: IsoVerif/Model/RegionsEdge.lean.  The model describes /repo WITH the two repairs of this round
(`fix: … records without reference span`, `fix: … one BED line per alignment`); `…Orig` definitions keep the tree
before them and the `…_witness` theorems show what it did.  See docs/C05.md §8.
-/
import IsoVerif.Model.RegionsEdge
import IsoVerif.Props.C05
import IsoVerif.Lemmas.RegionsEdge

namespace IsoVerif.Props.C05Edge
open IsoVerif.Gen IsoVerif.Model.Regions IsoVerif.Lemmas.Regions IsoVerif.Lemmas.RegionsEdge IsoVerif.Props.C05

/-! ### records without reference span -/

/-- **skip_commutes_with_fetch**: skipping the records without reference span after `fetch(region)` (what the merger of
    a sub-region does in the default mode) gives exactly the alignments overlapping the region among the skipped scan –
    although `fetch` itself does return such a record whenever its one base lies in the window -/
theorem skip_commutes_with_fetch (all : List RawAln) (r : Iv) :
    skipNoSpan (rawFetch all r) = bamGet (skipNoSpan all) r := by
  induction all with
  | nil => rfl
  | cons a t ih =>
    simp only [rawFetch, skipNoSpan, bamGet] at ih ⊢
    rw [List.filter_cons]
    cases hs : a.stop with
    | none =>
      have h1 : a.toAln? = none := (toAln_none_iff a).2 hs
      by_cases ho : overlaps r a.fetchIv = true
      · simp only [ho, if_true, List.filterMap_cons, h1]; exact ih
      · simp only [ho, List.filterMap_cons, h1]; exact ih
    | some e =>
      have h1 : a.toAln? = some ⟨a.start, e, a.secondary, a.supplementary, a.mapped, a.mapq, a.rid⟩ := by
        simp [RawAln.toAln?, hs]
      have h2 : a.fetchIv = (a.start, e - 1) := by simp [RawAln.fetchIv, hs]
      by_cases ho : overlaps r (a.start, e - 1) = true
      · simp only [h2, ho, if_true, List.filterMap_cons, h1, List.filter_cons, Aln.iv]
        simp only [Aln.iv] at ih
        rw [ih]
      · simp only [h2, ho, List.filterMap_cons, h1, List.filter_cons, Aln.iv]
        simp only [Aln.iv] at ih
        exact ih

/-- **collect_raw_eq**: the repaired collector on what `fetch` yields = the collector of `Props/C05.lean` on the
    records that have a reference span (so every theorem of that file applies to it) -/
theorem collect_raw_eq (m : Mode) (all : List RawAln) : collectRaw m all = collect m (skipNoSpan all) := by
  unfold collectRaw collect
  congr 1
  funext s
  unfold forwardRaw forward
  congr 1
  funext r
  cases m with
  | memory => rfl
  | bam =>
    cases r with
    | none => cases hreg : s.region <;> simp [getAlignmentsRaw, getAlignments, hreg, skip_commutes_with_fetch]
    | some r => simp [getAlignmentsRaw, getAlignments, skip_commutes_with_fetch]

/-- what a coordinate-sorted BAM yields: the records WITH a span are sorted by start and have ≥ 1 reference base;
    nothing is asked of the records without span (any number of them, anywhere) -/
def ValidRaw (all : List RawAln) : Prop := ValidInput (skipNoSpan all)

/-- **raw_every_alignment_forwarded** (clause 1 on the repaired tree, both memory modes): whatever placed unmapped
    reads / records without CIGAR the file holds, the collector ends without error, every record with a reference span
    is handed over for ≥ 1 region it overlaps, and nothing else is handed over (a record without span reaches no region) -/
theorem raw_every_alignment_forwarded (m : Mode) (all : List RawAln) (h : ValidRaw all) :
    ∃ out, collectRaw m all = some out ∧
      (∀ r, r ∈ all → ∀ a, r.toAln? = some a → ∃ p, p ∈ out ∧ a ∈ p.2 ∧ overlaps p.1 a.iv = true) ∧
      (∀ p, p ∈ out → ∀ a, a ∈ p.2 → ∃ r, r ∈ all ∧ r.toAln? = some a) := by
  obtain ⟨out, hout, hfw⟩ := every_alignment_forwarded m (skipNoSpan all) h
  refine ⟨out, by rw [collect_raw_eq]; exact hout, ?_, ?_⟩
  · intro r hr a ha
    exact hfw a ((mem_skipNoSpan all a).2 ⟨r, hr, ha⟩)
  · intro p hp a ha
    obtain ⟨c, hc, hsub⟩ := forwarded_sublist m (skipNoSpan all) h out hout p hp
    have hall : a ∈ skipNoSpan all := by
      rw [← (clusters_partition (skipNoSpan all) h).1]
      exact List.mem_flatten.2 ⟨c, hc, hsub.subset ha⟩
    exact (mem_skipNoSpan all a).1 hall

/-- both memory modes hand over the same `(region, alignments)` sequence on the repaired tree -/
theorem raw_memory_modes_equal (all : List RawAln) (h : ValidRaw all) :
    collectRaw .memory all = collectRaw .bam all := by
  rw [collect_raw_eq, collect_raw_eq]; exact memory_mode_equal _ h

/-- **raw_stats_equal_categories**: on the repaired tree the log counters are the per-category counts of the records
    that HAVE a reference span; a placed unmapped read or a record without CIGAR is counted in no category by the
    collector (unmapped reads, placed or not, are taken from the index statistics afterwards: `experimentStats`) -/
theorem raw_stats_equal_categories (all : List RawAln) :
    processStatsRaw all AlignmentType.secondary = (all.filter (fun r => r.stop.isSome && r.secondary)).length ∧
    processStatsRaw all AlignmentType.supplementary =
      (all.filter (fun r => r.stop.isSome && (!r.secondary && r.supplementary))).length ∧
    processStatsRaw all AlignmentType.primary =
      (all.filter (fun r => r.stop.isSome && (!r.secondary && !r.supplementary && r.mapped))).length ∧
    processStatsRaw all AlignmentType.unaligned = 0 := by
  obtain ⟨h1, h2, h3, h4⟩ := stats_equal_categories (skipNoSpan all)
  unfold processStatsRaw
  refine ⟨?_, ?_, ?_, h4⟩
  · rw [h1]; apply filter_skip_length
    intro r a ha; unfold RawAln.toAln? at ha; cases hs : r.stop <;> simp [hs] at ha; subst ha; rfl
  · rw [h2]; apply filter_skip_length
    intro r a ha; unfold RawAln.toAln? at ha; cases hs : r.stop <;> simp [hs] at ha; subst ha; rfl
  · rw [h3]; apply filter_skip_length
    intro r a ha; unfold RawAln.toAln? at ha; cases hs : r.stop <;> simp [hs] at ha; subst ha; rfl

/-! ### the tree before the repair -/

/-- **orig_raises_iff**: the unrepaired collector raises (whole run aborted, no read reported) exactly when `fetch`
    yields at least one record without reference span – ONE placed unmapped read anywhere on the chromosome is enough –
    and otherwise behaves as the repaired one -/
theorem orig_raises_iff (m : Mode) (all : List RawAln) (h : ValidRaw all) :
    (collectRawOrig m all = none ↔ ∃ r, r ∈ all ∧ r.stop = none) ∧
    ((∀ r, r ∈ all → r.stop ≠ none) → collectRawOrig m all = collectRaw m all) := by
  have hrep : collectRaw m all ≠ none := by
    obtain ⟨out, hout, _⟩ := raw_every_alignment_forwarded m all h
    rw [hout]; simp
  have key : (∀ r, r ∈ all → r.stop ≠ none) → collectRawOrig m all = collectRaw m all := by
    intro hall
    have hb : all.all (fun r => r.stop.isSome) = true := by
      rw [List.all_eq_true]; intro r hr
      cases hs : r.stop with
      | none => exact absurd hs (hall r hr)
      | some _ => rfl
    rw [collect_raw_eq]
    unfold collectRawOrig
    rw [foldl_orig, hb]
    rfl
  refine ⟨⟨?_, ?_⟩, key⟩
  · intro hnone
    apply Classical.byContradiction
    intro hno
    have hall : ∀ r, r ∈ all → r.stop ≠ none := fun r hr hs => hno ⟨r, hr, hs⟩
    rw [key hall] at hnone
    exact hrep hnone
  · rintro ⟨r, hr, hs⟩
    have hb : all.all (fun r => r.stop.isSome) = false := by
      rw [List.all_eq_false]
      exact ⟨r, hr, by simp [hs]⟩
    unfold collectRawOrig
    rw [foldl_orig, hb]
    rfl

/-- the probe of the audit in small: two reads and one unmapped read placed at the position of the first -/
def placedUnmappedInput : List RawAln :=
  [⟨5, some 9, false, false, true, 60, 0⟩, ⟨5, none, false, false, true, 0, 1⟩, ⟨7, some 30, false, false, true, 60, 2⟩]

/-- **placed_unmapped_witness**: on the tree before the repair the run aborts in both memory modes and reports nothing;
    the repaired collector forwards both reads, counts two primary alignments and leaves the third record to the index -/
theorem placed_unmapped_witness :
    collectRawOrig .bam placedUnmappedInput = none ∧ collectRawOrig .memory placedUnmappedInput = none ∧
    (collectRaw .bam placedUnmappedInput).map (fun o => o.map (fun p => (p.1, p.2.map (·.rid)))) = some [((5, 29), [0, 2])] ∧
    (collectRaw .memory placedUnmappedInput).map (fun o => o.map (fun p => (p.1, p.2.map (·.rid)))) = some [((5, 29), [0, 2])] ∧
    processStatsRaw placedUnmappedInput AlignmentType.primary = 2 := by
  refine ⟨?_, ?_, ?_, ?_, ?_⟩ <;> decide +kernel

example : ValidRaw placedUnmappedInput ∧ (∃ r, r ∈ placedUnmappedInput ∧ r.stop = none) := by
  refine ⟨⟨?_, ?_⟩, ⟨⟨5, none, false, false, true, 0, 1⟩, by decide, rfl⟩⟩
  · unfold SortedByStart; decide
  · intro x hx
    have : x ∈ [(⟨5, 9, false, false, true, 60, 0⟩ : Aln), ⟨7, 30, false, false, true, 60, 2⟩] := hx
    simp at this
    rcases this with rfl | rfl <;> (unfold WFA; decide)

/-! ### region-dependent remaining filters (audit GAP 5) -/

/-- **reads_with_records_regional**: the remaining filters of `process_genic / process_intergenic` depend on the
    (sub-)region (`inconsistent_mapq_cutoff` where the sub-region loads a gene, `simple_alignments_mapq_cutoff` where it
    does not).  For every such `keep` and every class `strong` of alignments kept in EVERY region (`MAPQ ≥ 5` with an
    aligned exon): an alignment that passes the documented filters and is `strong` has a record however the chromosome
    is cut, and every record comes from an input alignment that passes the filters and is kept in the region that made
    it – the cut can only decide about alignments outside `strong`. -/
theorem reads_with_records_regional (m : Mode) (all : List Aln) (h : ValidInput all) (p : Params)
    (keep : Iv → Aln → Bool) (strong : Aln → Bool) (hs : ∀ r a, strong a = true → keep r a = true) :
    ∃ out, collect m all = some out ∧
      (∀ a, a ∈ all → passes p a = true → strong a = true → ∃ rec, rec ∈ recordsOf p keep out ∧ rec.2 = a) ∧
      (∀ rec, rec ∈ recordsOf p keep out → rec.2 ∈ all ∧ passes p rec.2 = true ∧ keep rec.1 rec.2 = true) := by
  obtain ⟨out, hout, hfw⟩ := every_alignment_forwarded m all h
  refine ⟨out, hout, ?_, ?_⟩
  · intro a ha hp hst
    obtain ⟨pr, hpr, hapr, _⟩ := hfw a ha
    refine ⟨(pr.1, a), ?_, rfl⟩
    unfold recordsOf
    exact List.mem_flatMap.2 ⟨pr, hpr, List.mem_map.2 ⟨a, List.mem_filter.2 ⟨hapr, by simp [hp, hs pr.1 a hst]⟩, rfl⟩⟩
  · intro rec hrec
    unfold recordsOf at hrec
    obtain ⟨pr, hpr, hrec'⟩ := List.mem_flatMap.1 hrec
    obtain ⟨a, ha, rfl⟩ := List.mem_map.1 hrec'
    obtain ⟨ha1, ha2⟩ := List.mem_filter.1 ha
    obtain ⟨c, hc, hsub⟩ := forwarded_sublist m all h out hout pr hpr
    have hall : a ∈ all := by
      rw [← (clusters_partition all h).1]
      exact List.mem_flatten.2 ⟨c, hc, hsub.subset ha1⟩
    simp only [Bool.and_eq_true] at ha2
    exact ⟨hall, ha2.1, ha2.2⟩

example : ∃ keep : Iv → Aln → Bool, ∃ strong : Aln → Bool,
    (∀ r a, strong a = true → keep r a = true) ∧ keep (0, 10) ⟨0, 5, false, false, true, 3, 0⟩ = true ∧
    keep (20, 30) ⟨0, 5, false, false, true, 3, 0⟩ = false :=
  ⟨fun r a => decide (a.mapq ≥ (if r.1 < 15 then 1 else 5)), fun a => decide (a.mapq ≥ 5),
   by intro r a h; simp only [decide_eq_true_eq] at h ⊢; split <;> omega, by decide, by decide⟩

/-! ### one BED line per alignment (audit GAP 4) -/

/-- what the multimapper resolution guarantees for the retained records of one chromosome: whenever two retained
    records (at different positions of the list) were made from the same alignment, both carry the multimapper mark
    (`filter_assignments` sets it on every kept record of a read that keeps records with different isoform sets;
    records with equal isoform sets are removed by `find_duplicates`, theorem `resolved_no_twins`) -/
def TwinsMarked (recs : List BedRec) : Prop :=
  recs.Pairwise (fun a b => a.key = b.key → a.multi = true ∧ b.multi = true)

/-- **bed_one_line_per_alignment** (repaired printer): the printed lines are a sub-list of the one-per-record lines
    (nothing invented, order kept); every retained record has the line of a record of ITS alignment in the file; and
    when twins are marked, no alignment has two lines: the keys of the printed records are pairwise different -/
theorem bed_one_line_per_alignment (recs : List BedRec) :
    (bedLines recs).Sublist (bedLinesOrig recs) ∧
    (∀ x, x ∈ recs → ∃ y, y ∈ bedKeep recs ∧ y.key = x.key) ∧
    (TwinsMarked recs → ((bedKeep recs).map BedRec.key).Nodup) := by
  obtain ⟨h1, _, h3, h4⟩ := bedKeepLoop_spec recs []
  refine ⟨h1.map _, ?_, ?_⟩
  · intro x hx
    rcases h4 x hx with h | ⟨_, h | ⟨y, hy, _, hyk⟩⟩
    · exact ⟨x, h, rfl⟩
    · simp at h
    · exact ⟨y, hy, hyk⟩
  · intro htw
    unfold List.Nodup
    rw [List.pairwise_map]
    have hsub : (bedKeep recs).Sublist recs := h1
    have htw' := htw.sublist hsub
    have hboth := h3.and htw'
    exact hboth.imp (fun {a b} hab heq => (hab.1 (hab.2 heq).1 (hab.2 heq).2) heq)

/-- the repair changes nothing when no two retained records were made from the same alignment -/
theorem bed_lines_unchanged_without_twins (recs : List BedRec) (h : (recs.map BedRec.key).Nodup) :
    bedLines recs = bedLinesOrig recs := by
  suffices hs : ∀ printed : List (Nat × Nat × List Iv), (∀ x, x ∈ recs → x.key ∉ printed) →
      bedKeepLoop printed recs = recs by
    unfold bedLines bedLinesOrig bedKeep
    rw [hs [] (by simp)]
  induction recs with
  | nil => intro _ _; rfl
  | cons x xs ih =>
    intro printed hp
    rw [List.map_cons, List.nodup_cons] at h
    have hx : printed.contains x.key = false := by
      have := hp x List.mem_cons_self
      simpa using this
    unfold bedKeepLoop
    have hrest : ∀ pr : List (Nat × Nat × List Iv), (pr = printed ∨ pr = x.key :: printed) → bedKeepLoop pr xs = xs := by
      intro pr hpr
      apply ih h.2
      intro y hy
      rcases hpr with rfl | rfl
      · exact hp y (List.mem_cons_of_mem _ hy)
      · intro hin
        rcases List.mem_cons.1 hin with heq | hin
        · exact h.1 (List.mem_map.2 ⟨y, hy, heq⟩)
        · exact hp y (List.mem_cons_of_mem _ hy) hin
    by_cases hm : x.multi = true
    · simp only [hm, hx, if_true, Bool.false_eq_true, if_false]
      rw [hrest _ (Or.inr rfl)]
    · have hm' : x.multi = false := by simpa using hm
      simp only [hm', Bool.false_eq_true, if_false]
      rw [hrest _ (Or.inl rfl)]

/-- the bridging read of the audit in small: ONE alignment (exons 2001-2300, 2601-3000, …) retained in the sub-region
    of gene G1 and in the sub-region of gene G2 (both records re-typed ambiguous, multimapper mark set) -/
def twinRecords : List BedRec :=
  [⟨7, 0, [(2001, 2300), (2601, 3000), (61001, 61300)], [(2001, 2300), (2601, 3000), (61001, 61300)], true⟩,
   ⟨3, 0, [(100, 200)], [(100, 200)], false⟩,
   ⟨7, 0, [(2001, 2300), (2601, 3000), (61001, 61300)], [(2001, 2300), (2601, 3000), (61001, 61300)], true⟩]

/-- **bed_twin_witness**: the printer before the repair writes the line of that alignment twice, byte-identically;
    the repaired one once -/
theorem bed_twin_witness :
    ¬ (bedLinesOrig twinRecords).Nodup ∧ (bedLines twinRecords).Nodup ∧ (bedLines twinRecords).length = 2 ∧
    TwinsMarked twinRecords := by
  refine ⟨by decide, by decide, by decide, ?_⟩
  unfold TwinsMarked; decide

end IsoVerif.Props.C05Edge
