/-
C11 — translation / reflection equivariance of the polyA / polyT exon trimming (Model/PolyA.lean, property C16's model of
`PolyAFixer.count_polya_exons / count_polyt_exons / correct_read_info`, `shift_polya / shift_polyt` and
`AlignmentInfo.add_polya_info`).

ALL exon lists (sorted or not), all read / CIGAR block lists, all position quadruples, all `max_fake_terminal_exon_len`,
all k / L.  The only hypothesis is the sentinel one: a real tail position is not moved onto −1 (`NoColl k p` /
`NoCollM L p`); `sentinel_collision_witness` shows it is needed.  Images of output records are taken relative to the
ORIGINAL positions (`shiftAInfoBy info`, `mirrorAInfoBy info`, Model/C11SymPolyA.lean): the code keeps a −1 and recomputes
every other position, whatever the recomputed value is.
Reflection swaps polyA ↔ polyT: `count_polya_exons ↔ count_polyt_exons`, `shift_polya ↔ shift_polyt`, the two counts of
`correct_read_info`, and in `add_polya_info` the 3' trim and the 5' trim — which the code performs in a fixed order (3'
first); `trims_commute` shows the order is immaterial when at least one exon is kept, which `correct_read_info` guarantees.
-/
import IsoVerif.Model.PolyA
import IsoVerif.Model.C11SymPolyA
import IsoVerif.Lemmas.C11PolyA16

namespace IsoVerif.Props.C11PolyA16
open IsoVerif.Gen IsoVerif.Model IsoVerif.Model.C11 IsoVerif.Lemmas.C11

/-! ### translation -/

theorem shift_equivariant_countPolyaExons (mf k : Int) (exons : List Iv) (pos : Int) (h : NoColl k pos) :
    C16.countPolyaExons mf (shiftL k exons) (shiftPos k pos) = C16.countPolyaExons mf exons pos :=
  pa16_countPolyaExons_shift mf k exons pos h

theorem shift_equivariant_countPolytExons (mf k : Int) (exons : List Iv) (pos : Int) (h : NoColl k pos) :
    C16.countPolytExons mf (shiftL k exons) (shiftPos k pos) = C16.countPolytExons mf exons pos :=
  pa16_countPolytExons_shift mf k exons pos h

/-- `shift_polya` (for every `exon_count : Int`, also the ones for which the code raises): result moved by k unless the
    position is the sentinel -/
theorem shift_equivariant_shiftPolya (k : Int) (exons : List Iv) (c pos : Int) (h : NoColl k pos) :
    C16.shiftPolya (shiftL k exons) c (shiftPos k pos) = (C16.shiftPolya exons c pos).map (shiftPosBy pos k) :=
  pa16_shiftPolya_shift k exons c pos h

theorem shift_equivariant_shiftPolyt (k : Int) (exons : List Iv) (c pos : Int) (h : NoColl k pos) :
    C16.shiftPolyt (shiftL k exons) c (shiftPos k pos) = (C16.shiftPolyt exons c pos).map (shiftPosBy pos k) :=
  pa16_shiftPolyt_shift k exons c pos h

/-- `correct_read_info`: the two exon counts do not depend on the position of the read on the chromosome -/
theorem shift_equivariant_correctReadInfo (mf k : Int) (exons : List Iv) (i : C16.PolyAInfo)
    (ha : NoColl k i.internalPolyA) (ht : NoColl k i.internalPolyT) :
    C16.correctReadInfo mf (shiftL k exons) (shiftInfo k i) = C16.correctReadInfo mf exons i :=
  pa16_correctReadInfo_shift mf k exons i ha ht

/-- **shift_equivariant_addPolyaInfo** — `add_polya_info` on the shifted alignment: same exons removed, the retained
    exons / read_start / read_end / recomputed tail positions shifted by k, read and CIGAR blocks trimmed identically,
    an IndexError stays an IndexError -/
theorem shift_equivariant_addPolyaInfo (mf k : Int) (exons rb cb : List Iv) (i : C16.PolyAInfo)
    (h1 : NoColl k i.internalPolyA) (h2 : NoColl k i.externalPolyA)
    (h3 : NoColl k i.internalPolyT) (h4 : NoColl k i.externalPolyT) :
    C16.addPolyaInfo mf (shiftL k exons) rb cb (shiftInfo k i) =
      (C16.addPolyaInfo mf exons rb cb i).map (shiftAInfoBy i k) :=
  pa16_addPolyaInfo_shift mf k exons rb cb i h1 h2 h3 h4

/-- non-vacuity: the last exon is mostly polyA and is trimmed; k = 256 -/
example : NoColl 256 305 ∧ NoColl 256 (-1) ∧
    (C16.addPolyaInfo 40 [(100, 200), (300, 330)] [(0, 100), (101, 131)] [(0, 0), (2, 2)] ⟨305, -1, 305, -1⟩).map
      (fun r => (r.exons, r.info.internalPolyA, r.readEnd)) = some ([(100, 200)], 205, 200) ∧
    (C16.addPolyaInfo 40 (shiftL 256 [(100, 200), (300, 330)]) [(0, 100), (101, 131)] [(0, 0), (2, 2)]
      (shiftInfo 256 ⟨305, -1, 305, -1⟩)).map (fun r => (r.exons, r.info.internalPolyA, r.readEnd))
      = some ([(356, 456)], 461, 456) := by
  refine ⟨by unfold NoColl; omega, by unfold NoColl; omega, by decide, by decide⟩

/-- **sentinel_collision_witness** — the hypothesis is needed: shifting the tail position 305 by −306 puts it on the
    sentinel, the fake terminal exon is no longer recognised and nothing is trimmed -/
theorem sentinel_collision_witness :
    C16.countPolyaExons 40 [(100, 200), (300, 330)] 305 = 1 ∧
    C16.countPolyaExons 40 (shiftL (-306) [(100, 200), (300, 330)]) (305 + -306) = 0 := by decide

/-! ### reflection (polyA ↔ polyT) -/

theorem mirror_dual_countPolyaExons (mf L : Int) (exons : List Iv) (pos : Int) (h : NoCollM L pos) :
    C16.countPolytExons mf (mirrorL L exons) (mirrorPos L pos) = C16.countPolyaExons mf exons pos :=
  pa16_countPolytExons_mirror mf L exons pos h

theorem mirror_dual_countPolytExons (mf L : Int) (exons : List Iv) (pos : Int) (h : NoCollM L pos) :
    C16.countPolyaExons mf (mirrorL L exons) (mirrorPos L pos) = C16.countPolytExons mf exons pos :=
  pa16_countPolyaExons_mirror mf L exons pos h

/-- `shift_polyt` on the mirrored read is the mirror image of `shift_polya` (every `exon_count : Int`: the negative
    index `read_exons[-i-1]` of one is the index `read_exons[i]` of the other seen from the other end) -/
theorem mirror_dual_shiftPolya (L : Int) (exons : List Iv) (c pos : Int) (h : NoCollM L pos) :
    C16.shiftPolyt (mirrorL L exons) c (mirrorPos L pos) = (C16.shiftPolya exons c pos).map (mirrorPosBy pos L) :=
  pa16_shiftPolyt_mirror L exons c pos h

theorem mirror_dual_shiftPolyt (L : Int) (exons : List Iv) (c pos : Int) (h : NoCollM L pos) :
    C16.shiftPolya (mirrorL L exons) c (mirrorPos L pos) = (C16.shiftPolyt exons c pos).map (mirrorPosBy pos L) :=
  pa16_shiftPolya_mirror L exons c pos h

/-- `correct_read_info` of the mirrored read returns the two counts swapped (incl. the "keep one exon" clamp) -/
theorem mirror_dual_correctReadInfo (mf L : Int) (exons : List Iv) (i : C16.PolyAInfo)
    (ha : NoCollM L i.internalPolyA) (ht : NoCollM L i.internalPolyT) :
    C16.correctReadInfo mf (mirrorL L exons) (mirrorInfo L i) = (C16.correctReadInfo mf exons i).map swapCounts :=
  pa16_correctReadInfo_mirror mf L exons i ha ht

/-- the 3' trim and the 5' trim of `add_polya_info` commute whenever at least one exon is kept -/
theorem trims_commute (st : C16.AInfo) (a t : Int) (hlt : a.toNat + t.toNat < st.exons.length) :
    (C16.trimPolyA st a).bind (fun s => C16.trimPolyT s t) = (C16.trimPolyT st t).bind (fun s => C16.trimPolyA s a) :=
  pa16_trims_commute st a t hlt

/-- **mirror_dual_addPolyaInfo** — `add_polya_info` on the mirrored alignment (exons mirrored, block lists reversed,
    polyA ↔ polyT positions mirrored) gives the mirror image of the result: the same exons are removed (3' ↔ 5'),
    read_start ↔ read_end, recomputed positions mirrored -/
theorem mirror_dual_addPolyaInfo (mf L : Int) (exons rb cb : List Iv) (i : C16.PolyAInfo)
    (h1 : NoCollM L i.internalPolyA) (h2 : NoCollM L i.externalPolyA)
    (h3 : NoCollM L i.internalPolyT) (h4 : NoCollM L i.externalPolyT) :
    C16.addPolyaInfo mf (mirrorL L exons) rb.reverse cb.reverse (mirrorInfo L i) =
      (C16.addPolyaInfo mf exons rb cb i).map (mirrorAInfoBy i L) :=
  pa16_addPolyaInfo_mirror mf L exons rb cb i h1 h2 h3 h4

/-- non-vacuity: the polyA read of the example above on a chromosome of length 1000, seen from the other strand: a
    polyT head at 696, the first exon is trimmed, the polyT position moves to 796 = mirror of 205 -/
example : NoCollM 1000 305 ∧ NoCollM 1000 (-1) ∧
    (C16.addPolyaInfo 40 (mirrorL 1000 [(100, 200), (300, 330)]) [(101, 131), (0, 100)] [(2, 2), (0, 0)]
      (mirrorInfo 1000 ⟨305, -1, 305, -1⟩)).map (fun r => (r.exons, r.info.internalPolyT, r.readStart))
      = some ([(801, 901)], 796, 801) := by
  refine ⟨by unfold NoCollM; omega, by unfold NoCollM; omega, by decide⟩

end IsoVerif.Props.C11PolyA16
