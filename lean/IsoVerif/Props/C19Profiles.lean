/-
C19 (profiles) — isoform feature profiles (`FeatureProfiles.set_profiles`).
Read-profile theorems live with C13 (Props/C13*.lean), which counts from them.
-/
import IsoVerif.Props.C19
import IsoVerif.Model.Profiles
import IsoVerif.Lemmas.Profiles

namespace IsoVerif.Props.C19Profiles
open IsoVerif.Gen IsoVerif.Model IsoVerif.Lemmas

/-- soundness, for EVERY comparator and every input: a known feature is marked present only if some
    transcript feature matches it -/
theorem isoform_profile_sound (cmp : Iv → Iv → Bool) (features tf : List Iv) (region : Iv) (i : Nat) (k : Iv)
    (hk : features[i]? = some k) (h1 : (setProfiles features tf region cmp).1[i]? = some 1) :
    ∃ f ∈ tf, cmp f k = true :=
  setProfiles_sound cmp features tf region i k hk h1

/-- value domain: every entry is 1, −1 or −2; −2 exactly marks (unmatched) features outside the transcript region -/
theorem isoform_profile_values (cmp : Iv → Iv → Bool) (features tf : List Iv) (region : Iv) (i : Nat) (k : Iv) (v : Int)
    (hk : features[i]? = some k) (hv : (setProfiles features tf region cmp).1[i]? = some v) :
    v = 1 ∨ (v = -1 ∧ overlaps k region = true) ∨ (v = -2 ∧ overlaps k region = false) :=
  setProfiles_values cmp features tf region i k v hk hv

theorem isoform_profile_length (cmp : Iv → Iv → Bool) (features tf : List Iv) (region : Iv) :
    (setProfiles features tf region cmp).1.length = features.length :=
  setProfiles_length cmp features tf region

/-- completeness for the exact comparator used for intron/exon profiles (`equal_ranges … 0`, i.e. equality):
    if the known features are strictly sorted (lexicographically, as `sorted(set(...))` yields them) and the
    transcript's features are a strictly sorted sub-list, every feature of the transcript is marked present -/
theorem isoform_profile_complete (features tf : List Iv) (region : Iv)
    (hs : LexSorted features) (ht : LexSorted tf) (hsub : ∀ f ∈ tf, f ∈ features)
    (i : Nat) (k : Iv) (hk : features[i]? = some k) (hin : k ∈ tf) :
    (setProfiles features tf region (fun a b => equal_ranges a b 0)).1[i]? = some 1 :=
  setProfiles_complete_eq features tf region hs ht hsub i k hk hin

example : (setProfiles [(1, 2), (1, 5), (4, 5), (7, 9)] [(1, 2), (4, 5)] (1, 5) (fun a b => equal_ranges a b 0)).1
    = [1, -1, 1, -2] := by decide +kernel

end IsoVerif.Props.C19Profiles
