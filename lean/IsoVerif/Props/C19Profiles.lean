import IsoVerif.Props.C19
namespace IsoVerif.Props.C19Profiles
end IsoVerif.Props.C19Profiles
